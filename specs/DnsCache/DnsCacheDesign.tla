--------------------------- MODULE DnsCacheDesign ---------------------------
(***************************************************************************)
(* U1: the contract (DnsCache.tla) is itself model-checked.  The contract   *)
(* judges one observed step at a time with a small relative-time ghost      *)
(* (per entry the lifetime left, saturating at "ended"; the keys held as a  *)
(* sequence in order of use).  Here an arbitrary environment produces EVERY *)
(* possible step (any answer, any set of keys dropped, any set of keys      *)
(* observed afterwards - accepted or not by the contract) and the           *)
(* contract's verdict is compared, step by step, with the guarantees stated *)
(* directly over the history kept in absolute terms:                        *)
(*                                                                         *)
(*   H[k]   the last store of key k that has not been undone: the absolute  *)
(*          time of the store, the lifetime it was given, the data, and the *)
(*          logical time (a counter) of its last use                        *)
(*                                                                         *)
(* Mode "cache" (Set / SetNegative / Get / Delete / Clear / Cleanup / time) *)
(*   - a hit at time t is legitimate iff the key has a store at time s with *)
(*     t - s <= lifetime, not undone since, and returns that store's data;  *)
(*     a miss is legitimate unless t - s < lifetime                         *)
(*   - a key whose store is younger than its lifetime disappears only by    *)
(*     Delete / Clear, or at a store of a key not held when cap keys are    *)
(*     held, and then only the one with the oldest use (among all, or among *)
(*     those left when the ended ones are dropped with it), one per store   *)
(*   - after Delete / Clear the keys are not observed; after Cleanup no     *)
(*     store older than its lifetime is held and the count is right         *)
(* Mode "res" (one question through Resolve, walled garden, block rule)     *)
(*   - the same for answers FromCache, plus: a record served from the cache *)
(*     carries at most (largest upstream TTL) - (t - s); override answers;  *)
(*     what may be stored                                                   *)
(*                                                                         *)
(* Invariant Agree: the contract flags a step iff the direct statement is   *)
(* broken by it (neither weaker nor stronger), for as long as no earlier    *)
(* step was flagged.                                                        *)
(***************************************************************************)
EXTENDS DnsCache

CONSTANTS Mode, MaxSteps, NK, CapK

Cfg == [impl |-> "design", kind |-> Mode, cap |-> CapK, min |-> 1, max |-> 2, neg |-> 1, unit |-> 20, nk |-> NK, nc |-> 2, nup |-> 2,
        qname |-> [k \in 1..NK |-> k], qaddr |-> [k \in 1..NK |-> TRUE], keycheck |-> TRUE]

Keys == 1..NK
NoneH == <<>>

VARIABLES g, steps, flagged, last,
          now, clock,     \* absolute time (units), logical use counter
          H,              \* per key NoneH or <<[at, life, val, rc, used]>>
          wall, block, rr
vars == <<g, steps, flagged, last, now, clock, H, wall, block, rr>>

Judged == {"NoStale", "ServedWhileFresh", "TtlAged", "Capacity", "EvictLru", "Retained", "DeleteEffective", "CleanupExact",
           "Faithful", "NegativeOnlyNx", "NoPoison", "OverrideWins", "OverrideNotCached", "RoundRobin"}

B(op, k) == [op |-> op, k |-> k, c |-> 1, ttl |-> 0, val |-> 0, s |-> "", on |-> FALSE,
             hit |-> FALSE, err |-> FALSE, rc |-> 0, aval |-> 0, attl |-> 0, ups |-> <<>>, gone |-> <<>>, stored |-> FALSE, n |-> 0,
             dh |-> 0, dm |-> 0, de |-> 0, dr |-> 0, dc |-> 0, df |-> 0, db |-> 0, dx |-> 0, dt |-> 0]

SeqOf(S) == LET RECURSIVE F(_) F(T) == IF T = {} THEN <<>> ELSE LET m == CHOOSE x \in T : \A y \in T : x <= y IN <<m>> \o F(T \ {m}) IN F(S)
Subsets == {SeqOf(S) : S \in SUBSET Keys}

\* ---- the edge universe -----------------------------------------------------------------------
CacheEdges ==
       {[B("set", k) EXCEPT !.ttl = t, !.val = 1, !.gone = go] : k \in Keys, t \in {1, 3}, go \in Subsets}
  \cup {[B("neg", k) EXCEPT !.gone = go] : k \in Keys, go \in Subsets}
  \cup UNION {{[B("get", k) EXCEPT !.hit = h, !.aval = v, !.rc = r, !.gone = go] :
                   h \in BOOLEAN, v \in {0, 1}, r \in {0, 3}, go \in {<<>>, <<k>>}} : k \in Keys}
  \cup {[B("del", k) EXCEPT !.gone = go] : k \in Keys, go \in Subsets}
  \cup {[B("clear", 0) EXCEPT !.gone = go] : go \in Subsets}
  \cup {[B("cleanup", 0) EXCEPT !.gone = go, !.n = n] : go \in Subsets, n \in 0..2}
  \cup {[B("adv", 0) EXCEPT !.dt = 1, !.gone = go] : go \in Subsets}

Scr == {<<"ok", 1>>, <<"ok", 3>>, <<"nx", 0>>, <<"nxc", 1>>, <<"spoofid", 1>>}
QEv(c, sc) == [B("q", 1) EXCEPT !.c = c, !.s = sc[1], !.ttl = sc[2], !.val = IF sc[2] > 0 THEN 1 ELSE 0]
ResEdges ==
       \* answered from the cache: any code, data and TTL, with or without an upstream query
       {[QEv(c, sc) EXCEPT !.hit = TRUE, !.rc = r, !.aval = v, !.attl = at, !.ups = u, !.stored = st] :
            c \in 1..2, sc \in Scr, r \in {0, 3}, v \in {0, 1, 7, 8, 9}, at \in {0, 40, 100}, u \in {<<>>, <<1>>}, st \in BOOLEAN}
       \* answered otherwise: the TTL is not judged
  \cup {[QEv(c, sc) EXCEPT !.rc = r, !.aval = v, !.attl = 40, !.ups = u, !.stored = st, !.gone = go] :
            c \in 1..2, sc \in Scr, r \in {0, 3}, v \in {0, 1, 7, 8, 9}, u \in {<<>>, <<1>>, <<2>>}, st \in BOOLEAN, go \in {<<>>, <<1>>}}
  \cup {[QEv(c, sc) EXCEPT !.err = TRUE, !.ups = u, !.stored = st, !.gone = go] :
            c \in 1..2, sc \in Scr, u \in {<<>>, <<1>>, <<2>>}, st \in BOOLEAN, go \in {<<>>, <<1>>}}
  \cup {[B("wall", 0) EXCEPT !.c = 2, !.on = on] : on \in BOOLEAN}
  \cup {[B("rule", 1) EXCEPT !.on = on] : on \in BOOLEAN}
  \cup {[B("adv", 0) EXCEPT !.dt = 1, !.gone = go] : go \in {<<>>, <<1>>}}

\* ---- the direct statement -----------------------------------------------------------------------
HeldD(k)   == H[k] # NoneH
HeldSet    == {k \in Keys : HeldD(k)}
Left(k, t) == H[k][1].at + H[k][1].life - t            \* lifetime left at absolute time t (may be negative)
Oldest(S)  == CHOOSE v \in S : \A w \in S : H[v][1].used <= H[w][1].used

\* what the call stores, per the documentation (as in the contract, but in absolute terms)
OverD(e)   == e.op = "q" /\ (e.c \in wall \/ 1 \in block)
FwdD(e)    == e.op = "q" /\ ~OverD(e) /\ ~e.hit
StoreD(e, t) ==
  IF e.op = "set" THEN <<[at |-> t, life |-> Clamp(Cfg, e.ttl), top |-> Max2(e.ttl, Cfg.min), val |-> e.val, rc |-> 0]>>
  ELSE IF e.op = "neg" THEN <<[at |-> t, life |-> Cfg.neg, top |-> 0, val |-> 0, rc |-> 3]>>
  ELSE IF FwdD(e) /\ ~e.err /\ e.s \in {"ok", "spoofid"} THEN <<[at |-> t, life |-> Clamp(Cfg, e.ttl), top |-> Max2(e.ttl + 2, Cfg.min), val |-> e.val, rc |-> 0]>>
  ELSE IF FwdD(e) /\ ~e.err /\ e.s = "nx" THEN <<[at |-> t, life |-> Cfg.neg, top |-> 0, val |-> 0, rc |-> 3]>>
  ELSE IF FwdD(e) /\ ~e.err /\ e.s = "nxc" /\ e.stored THEN <<[at |-> t, life |-> Clamp(Cfg, e.ttl), top |-> Max2(e.ttl, Cfg.min), val |-> 7, rc |-> 3]>>
  ELSE <<>>

DirectHit(e, t, val, rc) ==
       (IF ~HeldD(e.k) THEN {"Faithful"} ELSE {})
  \cup (IF HeldD(e.k) /\ Left(e.k, t) < 0 THEN {"NoStale"} ELSE {})
  \cup (IF val = 9 THEN {"NoPoison"} ELSE {})
  \cup (IF HeldD(e.k) /\ val # 9 /\ (val # H[e.k][1].val \/ rc # H[e.k][1].rc) THEN {"Faithful"} ELSE {})

GenuineD(e) == IF e.s \in {"ok", "spoofid"} THEN <<0, e.val>> ELSE IF e.s = "nx" THEN <<3, 0>> ELSE <<3, 7>>

Direct(e, obsKeys) ==
  LET t    == now + e.dt
      go   == Range(e.gone) \cap HeldSet
      U    == {v \in go : Left(v, t) > 0}
      X    == {v \in go : Left(v, t) <= 0}
      st   == StoreD(e, t)
      \* what is held after the call, per the documentation
      kept == (HeldSet \ go) \ (IF e.op = "del" THEN {e.k} ELSE IF e.op = "clear" THEN Keys ELSE {})
      heldAfter == kept \cup (IF st # <<>> THEN {e.k} ELSE {})
  IN   (IF st # <<>> THEN
            (IF \/ U = {}
                \/ /\ ~HeldD(e.k) /\ Cardinality(U) = 1 /\ Cardinality(HeldSet) >= Cfg.cap
                   /\ \A v \in U : v = Oldest(HeldSet) \/ v = Oldest(HeldSet \ X)
               THEN {} ELSE {"EvictLru"})
        ELSE (IF \E v \in U : ~(e.op = "del" /\ v = e.k) /\ e.op # "clear" THEN {"Retained"} ELSE {}))
  \cup (IF e.op = "get" THEN
            (IF e.hit THEN DirectHit(e, t, e.aval, e.rc) ELSE IF HeldD(e.k) /\ Left(e.k, t) > 0 THEN {"ServedWhileFresh"} ELSE {})
        ELSE {})
  \cup (IF e.op = "q" THEN
            (IF OverD(e) THEN
                  (IF e.hit \/ e.err \/ e.ups # <<>>
                      \/ ~(\/ (e.c \in wall /\ e.rc = 0 /\ e.aval = 8) \/ (1 \in block /\ e.rc = 3 /\ e.aval = 0))
                     THEN {"OverrideWins"} ELSE {})
             \cup (IF ~HeldD(e.k) /\ e.stored THEN {"OverrideNotCached"} ELSE {})
             ELSE IF e.hit THEN
                  DirectHit(e, t, e.aval, e.rc)
             \cup (IF e.ups # <<>> THEN {"ServedWhileFresh"} ELSE {})
             \cup (IF HeldD(e.k) /\ e.aval \notin {0, 9} /\ e.attl > Max2(H[e.k][1].top - (t - H[e.k][1].at), 0) * Cfg.unit THEN {"TtlAged"} ELSE {})
             ELSE (IF HeldD(e.k) /\ Left(e.k, t) > 0 THEN {"ServedWhileFresh"} ELSE {})
             \cup (IF ~e.err /\ e.aval = 9 THEN {"NoPoison"} ELSE {})
             \cup (IF ~e.err /\ e.aval # 9 /\ (e.ups = <<>> \/ <<e.rc, e.aval>> # GenuineD(e)) THEN {"Faithful"} ELSE {})
             \cup (IF e.stored /\ e.err THEN {"NegativeOnlyNx"} ELSE {}))
        \cup (IF rr # 0 /\ e.ups # <<>> /\ e.ups[1] # (rr % Cfg.nup) + 1 THEN {"RoundRobin"} ELSE {})
        ELSE {})
  \cup (IF e.op = "cleanup" /\ (e.n # Cardinality(go) \/ \E v \in HeldSet \ go : Left(v, t) < 0) THEN {"CleanupExact"} ELSE {})
  \* the observation after the call
  \cup (IF Cardinality(obsKeys) > Cfg.cap THEN {"Capacity"} ELSE {})
  \cup (IF obsKeys \ heldAfter # {} THEN {IF e.op \in {"del", "clear"} THEN "DeleteEffective" ELSE "Faithful"} ELSE {})
  \cup (IF \E v \in heldAfter \ obsKeys : (IF st # <<>> /\ v = e.k THEN st[1].life ELSE Left(v, t)) > 0 THEN {"Retained"} ELSE {})

\* ---- one step ---------------------------------------------------------------------------------
Universe == IF Mode = "cache" THEN CacheEdges ELSE ResEdges

Next ==
  /\ ~flagged
  /\ steps < MaxSteps
  /\ steps' = steps + 1
  /\ \E e \in Universe, obsKeys \in SUBSET Keys :
       LET t    == now + e.dt
           obs  == [size |-> Cardinality(obsKeys), keys |-> SeqOf(obsKeys)]
           g2   == Step(Cfg, g, e, obs)
           cl   == (EdgeClauses(Cfg, g, e) \cup NodeClauses(Cfg, g2, obs, e.op)) \cap Judged
           d    == Direct(e, obsKeys)
           st   == StoreD(e, t)
           go   == Range(e.gone) \cup (IF e.op = "del" THEN {e.k} ELSE IF e.op = "clear" THEN Keys ELSE {})
           used == (e.op = "get" \/ (e.op = "q" /\ ~OverD(e))) /\ e.hit /\ HeldD(e.k) /\ e.k \notin go
       IN /\ last' = [contract |-> cl, direct |-> d]
          /\ flagged' = (cl # {})
          /\ g' = g2
          /\ now' = t
          /\ clock' = clock + 1
          /\ H' = [k \in Keys |-> IF st # <<>> /\ k = e.k THEN <<[at |-> st[1].at, life |-> st[1].life, top |-> st[1].top, val |-> st[1].val, rc |-> st[1].rc, used |-> clock + 1]>>
                                  ELSE IF k \in go THEN NoneH
                                  ELSE IF used /\ k = e.k THEN <<[H[k][1] EXCEPT !.used = clock + 1]>>
                                  ELSE H[k]]
          /\ wall' = IF e.op = "wall" THEN (IF e.on THEN wall \cup {e.c} ELSE wall \ {e.c}) ELSE wall
          /\ block' = IF e.op = "rule" THEN (IF e.on THEN block \cup {e.k} ELSE block \ {e.k}) ELSE block
          /\ rr' = IF e.op = "q" /\ e.ups # <<>> THEN e.ups[Len(e.ups)] ELSE rr

Init == /\ g = G0(Cfg) /\ steps = 0 /\ flagged = FALSE /\ last = [contract |-> {}, direct |-> {}]
        /\ now = 0 /\ clock = 0 /\ H = [k \in Keys |-> NoneH] /\ wall = {} /\ block = {} /\ rr = 0

Spec == Init /\ [][Next]_vars

Agree == last.contract = last.direct

\* until a step is flagged the ghost and the absolute history describe the same cache
GhostTracks == flagged \/ (/\ Range(g.lru) = HeldSet
                           /\ \A k \in HeldSet : /\ g.e[k].rem = (IF Left(k, now) < -1 THEN -1 ELSE Left(k, now))
                                                 /\ g.e[k].lim = Max2(H[k][1].top - (now - H[k][1].at), 0)
                                                 /\ g.e[k].val = H[k][1].val /\ g.e[k].rc = H[k][1].rc
                           /\ \A i, j \in 1..Len(g.lru) : i < j => H[g.lru[i]][1].used > H[g.lru[j]][1].used)

\* absolute time and the use counter only grow: the view keeps them relative
View == <<g, steps, flagged, last, [k \in Keys |-> IF H[k] = NoneH THEN <<>> ELSE <<H[k][1].at - now, H[k][1].life, H[k][1].top, H[k][1].val, H[k][1].rc,
           Cardinality({j \in Keys : H[j] # NoneH /\ H[j][1].used < H[k][1].used})>>], wall, block, rr>>
=============================================================================
