SPECIFICATION Spec
CONSTANTS Mode = "res"  MaxSteps = 3  NK = 1  CapK = 1
INVARIANTS Agree GhostTracks
VIEW View
CHECK_DEADLOCK FALSE
