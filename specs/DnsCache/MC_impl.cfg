SPECIFICATION Spec
CONSTANT Watch = {"NoStale", "ServedWhileFresh", "TtlAged", "Capacity", "EvictLru", "Retained", "DeleteEffective", "CleanupExact", "StatsTrue", "Faithful", "NegativeOnlyNx", "NoPoison", "OverrideWins", "OverrideNotCached", "RoundRobin"}
INVARIANTS Report
VIEW View
CHECK_DEADLOCK FALSE
