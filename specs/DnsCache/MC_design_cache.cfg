SPECIFICATION Spec
CONSTANTS Mode = "cache"  MaxSteps = 4  NK = 3  CapK = 2
INVARIANTS Agree GhostTracks
VIEW View
CHECK_DEADLOCK FALSE
