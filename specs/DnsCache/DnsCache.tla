------------------------------ MODULE DnsCache ------------------------------
(***************************************************************************)
(* Contract of pkg/dns: the DNS cache (cache.go) and the resolver's use of  *)
(* it (resolver.go: overrides, cache lookup before upstream, upstream       *)
(* selection, what is stored and what is handed to the client).  Extra      *)
(* family X06: none of the 20 listed properties; the sentences below were   *)
(* formulated from the package's own comments (quoted), weakest reading.    *)
(*                                                                         *)
(* The contract talks about what an outside observer sees: the answers of   *)
(* Cache.Get / Resolver.Resolve (found or not, from cache or not, response  *)
(* code, which data, which TTL), the queries the scripted upstreams         *)
(* received, which keys the cache holds before and after a call, the value  *)
(* Cleanup returns and the differences of the statistics counters.          *)
(*                                                                         *)
(* S1 "Get retrieves a cache entry if it exists and is not expired" /       *)
(*    "Apply TTL bounds" (CacheMinTTL "Minimum TTL", CacheMaxTTL "Maximum   *)
(*    TTL", CacheNegativeTTL "TTL for NXDOMAIN") / Resolve: "Check cache"   *)
(*    before "Forward to upstream":                                         *)
(*    NoStale            an entry is never returned (Get) or served         *)
(*                       (Resolve, FromCache) after its lifetime ended;     *)
(*                       lifetime = the TTL it was stored with (resolver:   *)
(*                       the minimum TTL of the upstream answer's records), *)
(*                       raised to the minimum and cut to the maximum TTL;  *)
(*                       negative entries: the negative TTL                 *)
(*    ServedWhileFresh   an entry that is held and whose lifetime has not   *)
(*                       ended is returned by Get; Resolve answers such a   *)
(*                       question from the cache and sends no upstream      *)
(*                       query (the instant lifetime = age is either)       *)
(*    TtlAged            the TTL of a record served from the cache is at    *)
(*                       most the TTL the upstream gave that record (or the *)
(*                       minimum TTL, if that is larger) minus the time the *)
(*                       entry has spent in the cache: it decreases with    *)
(*                       time.  The package nowhere says that it rewrites   *)
(*                       TTLs (RFC 1035 3.2.1/4.1.3, RFC 2181 8 do):        *)
(*                       separate clause                                    *)
(* S2 "Cache is an LRU cache" / CacheSize "Max cache entries" / "Evict if   *)
(*    at capacity" / "evictOldest removes the least recently used entry":   *)
(*    Capacity           the cache never holds more than its capacity       *)
(*    EvictLru           storing removes an unexpired entry only if the key *)
(*                       is new, the cache is full, and then exactly one:   *)
(*                       the least recently used (used = stored or returned *)
(*                       by Get) of the entries held (or of the unexpired   *)
(*                       ones, should expired ones be dropped first)        *)
(*    Retained           no other call loses an unexpired entry (expired    *)
(*                       entries may be dropped at any time)                *)
(* S3 "Delete removes a cache entry" / "Clear removes all cache entries" /  *)
(*    "Cleanup removes expired entries" (returns their number):             *)
(*    DeleteEffective    after Delete / Clear the entries are not held      *)
(*    CleanupExact       after Cleanup no expired entry is held and the     *)
(*                       value returned is the number of entries removed    *)
(* S4 "Stats returns cache statistics" (Size, Hits, Misses, Evictions) /    *)
(*    ServerStats (QueriesReceived, QueriesForwarded, QueriesFromCache,     *)
(*    QueriesBlocked, Errors):                                              *)
(*    StatsTrue          every counter moves by exactly the number of the   *)
(*                       events it names that happened in the call: one hit *)
(*                       or one miss per lookup, evictions = entries        *)
(*                       removed for capacity, one received per Resolve,    *)
(*                       one from-cache iff answered from the cache,        *)
(*                       forwarded = upstream queries sent, blocked iff a   *)
(*                       rule answered, errors iff Resolve failed           *)
(* S5 "SetNegative stores a negative (NXDOMAIN) cache entry" / "Cache the   *)
(*    response" / "Cache negative response" (only under Rcode ==            *)
(*    NameError) / CacheKey "generates a cache key from query parameters"   *)
(*    (name, type, class):                                                  *)
(*    Faithful           what Get returns / Resolve serves from the cache   *)
(*                       for a question is what was last stored for that    *)
(*                       very question (same data, same response code), and *)
(*                       an answer not from the cache is the upstream's     *)
(*    NegativeOnlyNx     upstream failures (SERVFAIL, unparsable reply,     *)
(*                       Resolve returning an error) are never cached       *)
(* S6 (RFC 1035 7.3, RFC 5452 4.2/9.1 - the package is silent: separate     *)
(*    clause) "the resolver matches a response to the outstanding query":   *)
(*    NoPoison           a datagram whose transaction id or question does   *)
(*                       not match the query is never handed to the client  *)
(*                       nor cached                                         *)
(* S7 Resolve: "Check walled garden" and "Check interception rules" come    *)
(*    before "Check cache"; "Redirect all queries to the walled garden      *)
(*    portal IP", "For other query types, return NXDOMAIN", "ActionBlock    *)
(*    returns NXDOMAIN":                                                    *)
(*    OverrideWins       a query of a walled-garden client / for a blocked  *)
(*                       name gets the override answer whatever the cache   *)
(*                       holds, never FromCache, without upstream query     *)
(*    OverrideNotCached  an override answer never enters the cache          *)
(*    RoundRobin         "Select upstream (round-robin)": consecutive       *)
(*                       upstream queries go to consecutive upstreams of    *)
(*                       the configured list                                *)
(*                                                                         *)
(* The harness' step "ffwd" puts the resolver's upstream counter where it   *)
(* stands after 2^31-1 upstream queries (which upstream is next is then     *)
(* open again); a call that panics is reported by the driver (clause Panic).*)
(* Unconstrained: the instant lifetime = age, whether expired entries are   *)
(* dropped early, which upstream is asked first, whether NXDOMAIN answers   *)
(* with records and NOERROR answers without records are cached (if they     *)
(* are, Faithful applies), rate limiting, DNS64, latency figures, query     *)
(* type statistics, QueriesBlocked for walled-garden clients, TTL 0.        *)
(* Environment assumptions: minimum <= negative TTL <= maximum TTL; time    *)
(* advances only between calls, in whole units of cfg.unit seconds.         *)
(***************************************************************************)
EXTENDS Integers, FiniteSets, Sequences, TLC

Range(s)   == {s[i] : i \in 1..Len(s)}
Max2(a, b) == IF a > b THEN a ELSE b
Without(s, X) == SelectSeq(s, LAMBDA y : y \notin X)
LastOf(s)  == s[Len(s)]

\* cfg = [impl, kind ("cache" | "res"), cap, min, max, neg (units), unit (seconds), nk, nc, nup,
\*        qname (question -> name index), qaddr (question -> is it an A/AAAA question), keycheck, ...]
\* ghost
\*   e[k]   what was last stored for question/key k: rem = lifetime left in units (-1: ended, 0: ends now),
\*          lim = the largest TTL (units) a record of it may still be served with (largest upstream record TTL or the
\*          minimum TTL, minus the time since), val = data version, rc = response code it is served with; meaningful
\*          while k is in lru
\*   lru    the keys held, most recently used first
\*   rr     the upstream that got the last upstream query (0: none yet)
\*   wall   clients in the walled garden        block  names with a block rule
None == [rem |-> 0, lim |-> 0, val |-> 0, rc |-> 0]
G0(cfg) == [e |-> [k \in 1..cfg.nk |-> None], lru |-> <<>>, rr |-> 0, wall |-> {}, block |-> {}]

Clamp(cfg, t) == IF t < cfg.min THEN cfg.min ELSE IF t > cfg.max THEN cfg.max ELSE t

Held(g, k) == k \in Range(g.lru)

\* time passes first: the ghost as it is when the call's effects are judged
Aged(g, dt) == [g EXCEPT !.e = [k \in DOMAIN g.e |-> [g.e[k] EXCEPT !.rem = Max2(@ - dt, -1), !.lim = Max2(@ - dt, 0)]]]

Gone(e) == Range(e.gone)

\* ---- what the upstream script hands back (resolver) ---------------------------------------------
\* scripts: ok (NOERROR, two records with data version val and TTLs ttl + 2 and ttl units), nx (NXDOMAIN, no records), nxc (NXDOMAIN with
\* a CNAME record, TTL ttl), nodata (NOERROR, no records), sf (SERVFAIL), junk (unparsable), spoofid / spoofq (a datagram
\* with a wrong id / another question and poison data, then the genuine ok answer)
Genuine(e) ==
  CASE e.s = "ok" -> [rc |-> 0, val |-> e.val]
    [] e.s = "spoofid" -> [rc |-> 0, val |-> e.val]
    [] e.s = "spoofq" -> [rc |-> 0, val |-> e.val]
    [] e.s = "nx" -> [rc |-> 3, val |-> 0]
    [] e.s = "nxc" -> [rc |-> 3, val |-> 7]
    [] e.s = "nodata" -> [rc |-> 0, val |-> 0]
    [] e.s = "sf" -> [rc |-> 2, val |-> 0]
    [] OTHER -> [rc |-> -1, val |-> -1]

TopTtl(e) == IF e.s = "nxc" THEN e.ttl ELSE e.ttl + 2      \* the largest record TTL of the genuine answer, in units

MustStore(e) == ~e.err /\ e.s \in {"ok", "spoofid", "spoofq", "nx"}
MayStore(e)  == ~e.err /\ e.s \in {"nxc", "nodata"}

Walled(g, e)     == e.c \in g.wall
Blocked(cfg, g, e) == cfg.qname[e.k] \in g.block
Overridden(cfg, g, e) == e.op = "q" /\ (Walled(g, e) \/ Blocked(cfg, g, e))
Forwarded(cfg, g, e)  == e.op = "q" /\ ~Overridden(cfg, g, e) /\ ~e.hit

\* the key this call stores and the entry the documentation gives it (<<>> if it stores nothing)
Stores(cfg, g, e) ==
  IF e.op = "set" THEN <<[k |-> e.k, ent |-> [rem |-> Clamp(cfg, e.ttl), lim |-> Max2(e.ttl, cfg.min), val |-> e.val, rc |-> 0]]>>
  ELSE IF e.op = "neg" THEN <<[k |-> e.k, ent |-> [rem |-> cfg.neg, lim |-> 0, val |-> 0, rc |-> 3]]>>
  ELSE IF Forwarded(cfg, g, e) /\ (MustStore(e) \/ (MayStore(e) /\ e.stored)) THEN
       <<[k |-> e.k, ent |-> IF e.s = "nx" THEN [rem |-> cfg.neg, lim |-> 0, val |-> 0, rc |-> 3]
                             ELSE IF e.s = "nodata" THEN [rem |-> cfg.max, lim |-> 0, val |-> 0, rc |-> 0]
                             ELSE [rem |-> Clamp(cfg, e.ttl), lim |-> Max2(TopTtl(e), cfg.min), val |-> Genuine(e).val, rc |-> Genuine(e).rc]]>>
  ELSE <<>>

\* ---- S2: capacity and eviction ------------------------------------------------------------------
Unexpired(g, X) == {v \in X : Held(g, v) /\ g.e[v].rem > 0}
MayGo(g, X)     == {v \in X : Held(g, v) /\ g.e[v].rem <= 0}

EvictClauses(cfg, g, e) ==
  LET st == Stores(cfg, g, e)
      U  == Unexpired(g, Gone(e))
  IN IF st # <<>> THEN
          LET k    == st[1].k
              lruX == Without(g.lru, MayGo(g, Gone(e)))
              ok   == \/ U = {}
                      \/ /\ ~Held(g, k) /\ Cardinality(U) = 1 /\ Len(g.lru) >= cfg.cap
                         /\ \A v \in U : v = LastOf(g.lru) \/ (lruX # <<>> /\ v = LastOf(lruX))
          IN IF ok THEN {} ELSE {"EvictLru"}
     ELSE IF \E v \in U : ~(e.op = "del" /\ v = e.k) /\ e.op # "clear" THEN {"Retained"} ELSE {}

\* ---- S1, S5, S6: lookups ------------------------------------------------------------------------
Content(cfg, g, e, val, rc) ==     \* a hit on key e.k returning (val, rc)
       (IF ~Held(g, e.k) THEN {"Faithful"} ELSE {})
  \cup (IF Held(g, e.k) /\ g.e[e.k].rem < 0 THEN {"NoStale"} ELSE {})
  \cup (IF val = 9 THEN {"NoPoison"} ELSE {})
  \cup (IF Held(g, e.k) /\ val # 9 /\ (val # g.e[e.k].val \/ rc # g.e[e.k].rc) THEN {"Faithful"} ELSE {})

GetClauses(cfg, g, e) ==
  IF e.hit THEN Content(cfg, g, e, e.aval, e.rc)
  ELSE IF Held(g, e.k) /\ g.e[e.k].rem > 0 THEN {"ServedWhileFresh"} ELSE {}

\* ---- S7: overrides ------------------------------------------------------------------------------
Portal(cfg, e)  == IF cfg.qaddr[e.k] THEN [rc |-> 0, val |-> 8] ELSE [rc |-> 3, val |-> 0]
OverrideAnswers(cfg, g, e) ==
  (IF Walled(g, e) THEN {Portal(cfg, e)} ELSE {}) \cup (IF Blocked(cfg, g, e) THEN {[rc |-> 3, val |-> 0]} ELSE {})

RECURSIVE RrBad(_, _, _, _)
RrBad(cfg, prev, s, i) ==
  IF i > Len(s) THEN FALSE
  ELSE (prev # 0 /\ s[i] # (prev % cfg.nup) + 1) \/ RrBad(cfg, s[i], s, i + 1)

QueryClauses(cfg, g, e) ==
  IF Overridden(cfg, g, e) THEN
       (IF e.hit \/ e.err \/ e.ups # <<>> \/ [rc |-> e.rc, val |-> e.aval] \notin OverrideAnswers(cfg, g, e) THEN {"OverrideWins"} ELSE {})
  \cup (IF ~Held(g, e.k) /\ e.stored THEN {"OverrideNotCached"} ELSE {})
  ELSE IF e.hit THEN
       Content(cfg, g, e, e.aval, e.rc)
  \cup (IF e.ups # <<>> THEN {"ServedWhileFresh"} ELSE {})
  \cup (IF Held(g, e.k) /\ e.aval \notin {0, 9} /\ e.attl > g.e[e.k].lim * cfg.unit THEN {"TtlAged"} ELSE {})
  ELSE
       (IF Held(g, e.k) /\ g.e[e.k].rem > 0 THEN {"ServedWhileFresh"} ELSE {})
  \cup (IF ~e.err /\ e.aval = 9 THEN {"NoPoison"} ELSE {})
  \cup (IF ~e.err /\ e.aval # 9 /\ (e.ups = <<>> \/ [rc |-> e.rc, val |-> e.aval] # Genuine(e)) THEN {"Faithful"} ELSE {})
  \cup (IF e.stored /\ ~MustStore(e) /\ ~MayStore(e) THEN {"NegativeOnlyNx"} ELSE {})

\* ---- S3 -----------------------------------------------------------------------------------------
CleanupClauses(cfg, g, e) ==
  IF e.op # "cleanup" THEN {}
  ELSE IF e.n # Cardinality({v \in Gone(e) : Held(g, v)}) \/ \E v \in Range(g.lru) : g.e[v].rem < 0 /\ v \notin Gone(e)
       THEN {"CleanupExact"} ELSE {}

\* ---- S4: statistics -----------------------------------------------------------------------------
StatClauses(cfg, g, e) ==
  LET lookup == e.op = "get" \/ (e.op = "q" /\ ~Overridden(cfg, g, e))
      hits   == IF lookup /\ e.hit THEN 1 ELSE 0
      misses == IF lookup /\ ~e.hit THEN 1 ELSE 0
      evLo   == IF Stores(cfg, g, e) # <<>> THEN Cardinality(Unexpired(g, Gone(e))) ELSE 0
      evHi   == IF Stores(cfg, g, e) # <<>> THEN Cardinality(Gone(e)) ELSE 0
      isq    == e.op = "q" /\ cfg.kind = "res"
      byRule == isq /\ Blocked(cfg, g, e) /\ ~Walled(g, e)
  IN IF \/ e.dh # hits \/ e.dm # misses \/ e.de < evLo \/ e.de > evHi
        \/ e.dr # (IF isq THEN 1 ELSE 0)
        \/ e.dc # (IF isq /\ ~Overridden(cfg, g, e) /\ e.hit THEN 1 ELSE 0)
        \/ e.df # (IF isq THEN Len(e.ups) ELSE 0)
        \/ e.dx # (IF isq /\ e.err THEN 1 ELSE 0)
        \/ (byRule /\ e.db # 1) \/ (~byRule /\ ~(isq /\ Walled(g, e)) /\ e.db # 0)
     THEN {"StatsTrue"} ELSE {}

\* ---- the contract -------------------------------------------------------------------------------
EdgeClauses(cfg, g0, e) ==
  LET g == Aged(g0, e.dt) IN
       EvictClauses(cfg, g, e)
  \cup (IF e.op = "get" THEN GetClauses(cfg, g, e) ELSE {})
  \cup (IF e.op = "q" THEN QueryClauses(cfg, g, e) \cup (IF RrBad(cfg, g.rr, e.ups, 1) THEN {"RoundRobin"} ELSE {}) ELSE {})
  \cup CleanupClauses(cfg, g, e)
  \cup StatClauses(cfg, g, e)

MoveFront(s, k) == <<k>> \o Without(s, {k})

Step(cfg, g0, e, obs) ==
  LET g    == Aged(g0, e.dt)
      st   == Stores(cfg, g, e)
      drop == Gone(e) \cup (IF e.op = "del" THEN {e.k} ELSE {}) \cup (IF e.op = "clear" THEN Range(g.lru) ELSE {})
      lru1 == Without(g.lru, drop)
      used == (e.op = "get" \/ (e.op = "q" /\ ~Overridden(cfg, g, e))) /\ e.hit /\ e.k \in Range(lru1)
      lru2 == IF st # <<>> THEN MoveFront(lru1, st[1].k) ELSE IF used THEN MoveFront(lru1, e.k) ELSE lru1
  IN [e     |-> [k \in DOMAIN g.e |-> IF st # <<>> /\ st[1].k = k THEN st[1].ent ELSE IF k \in Range(lru2) THEN g.e[k] ELSE None],
      lru   |-> lru2,
      rr    |-> IF e.op = "q" /\ e.ups # <<>> THEN LastOf(e.ups) ELSE IF e.op = "ffwd" THEN 0 ELSE g.rr,
      wall  |-> IF e.op = "wall" THEN (IF e.on THEN g.wall \cup {e.c} ELSE g.wall \ {e.c}) ELSE g.wall,
      block |-> IF e.op = "rule" THEN (IF e.on THEN g.block \cup {e.k} ELSE g.block \ {e.k}) ELSE g.block]

\* n = [size, keys]
NodeClauses(cfg, g, n, lastop) ==
       (IF n.size > cfg.cap THEN {"Capacity"} ELSE {})
  \cup (IF cfg.keycheck /\ Range(n.keys) \ Range(g.lru) # {}
          THEN {IF lastop \in {"del", "clear"} THEN "DeleteEffective" ELSE "Faithful"} ELSE {})
  \cup (IF cfg.keycheck /\ Unexpired(g, Range(g.lru) \ Range(n.keys)) # {} THEN {"Retained"} ELSE {})
  \cup (IF ~cfg.keycheck /\ n.size < Cardinality(Unexpired(g, Range(g.lru))) THEN {"Retained"} ELSE {})

\* clauses whose violation does not end a walk (the monitor goes on judging the rest of the history)
Soft == {"TtlAged"}
=============================================================================
