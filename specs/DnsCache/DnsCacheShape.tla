--------------------------- MODULE DnsCacheShape ---------------------------
(***************************************************************************)
(* Implementation-shaped design spec of pkg/dns/cache.go + resolver.go:     *)
(* one action per harness step, built from one operator per function /      *)
(* critical section of the code.                                            *)
(*                                                                         *)
(*   CGet(key)      Cache.Get: lookup, "Check expiry" (remove, miss), "Move  *)
(*                  to front", hit                                           *)
(*   CSet(entry)    Cache.Set: "Apply TTL bounds", "If entry exists, update  *)
(*                  it", "Evict if at capacity" (evictOldest), push front    *)
(*   Forward        Resolver.forwardQuery: round-robin index, one datagram   *)
(*                  read from the socket and unpacked                        *)
(*   Resolve        Resolver.Resolve: walled garden, interception rules,     *)
(*                  cache lookup, forward, cacheResponse ("Find minimum      *)
(*                  TTL") / SetNegative                                      *)
(*   KeyOf          CacheKey: name + TypeString(type) + class                *)
(*                                                                         *)
(* Time in units of 20 s; an entry carries the time it has left (the code    *)
(* keeps an absolute expiry and compares it with the clock).                 *)
(*                                                                         *)
(* Fixed = FALSE is the design as found.  Fixed = TRUE is a proposed repair: *)
(* forwardQuery skips datagrams whose id or question differ from the query,  *)
(* records served from the cache carry the time the entry has left, the      *)
(* cache key carries the numeric query type, and only NOERROR answers are    *)
(* stored as positive entries.  The spec carries the contract's ghost        *)
(* (DnsCache.tla) and judges each of its own steps with EdgeClauses /        *)
(* NodeClauses exactly as DnsCacheImpl does with the steps of the real code. *)
(* Every violating state is printed as <<"DESIGN-CEX", json([clauses,        *)
(* events])>> with events in the harness' alphabet; lib/fam_dnscache replays *)
(* the shortest history per clause set on the real resolver.                 *)
(***************************************************************************)
EXTENDS DnsCache, Json

CONSTANTS Fixed, MaxLen

Types == <<1, 43, 48>>      \* A, DS, DNSKEY: TypeString knows the first only
Cfg == [impl |-> "shape", kind |-> "res", cap |-> 2, min |-> 1, max |-> 3, neg |-> 2, unit |-> 20, nk |-> 3, nc |-> 2, nup |-> 2,
        qname |-> <<1, 1, 1>>, qaddr |-> <<TRUE, FALSE, FALSE>>, keycheck |-> TRUE,
        types |-> Types, pairs |-> << <<1, 2>> >>, scripts |-> <<"ok", "nx", "nxc", "spoofid">>, wall |-> TRUE, rule |-> TRUE, loop |-> FALSE,
        negop |-> FALSE, delops |-> FALSE, nsubs |-> 0]

Known(t) == t \in {1, 2, 5, 6, 12, 15, 16, 28, 33, 41, 255}
\* CacheKey: the least question with the same name and the same TypeString
KeyOf(q) == IF Fixed THEN q
            ELSE CHOOSE k \in 1..Cfg.nk : /\ Cfg.qname[k] = Cfg.qname[q]
                                          /\ (Types[k] = Types[q] \/ (~Known(Types[k]) /\ ~Known(Types[q])))
                                          /\ \A j \in 1..(k - 1) : ~(Cfg.qname[j] = Cfg.qname[q] /\ (Types[j] = Types[q] \/ (~Known(Types[j]) /\ ~Known(Types[q]))))

VARIABLES s, g, hist, bad
vars == <<s, g, hist, bad>>

\* cache entries, most recently used first: [key, own (the question whose answer it is), left, val, rc, ttl (largest record TTL, s)]
S0 == [cache |-> <<>>, idx |-> 0, wall |-> {}, rules |-> {}]

Pos(c, key) == IF \E i \in 1..Len(c) : c[i].key = key THEN CHOOSE i \in 1..Len(c) : c[i].key = key ELSE 0
RemoveAt(c, i) == SubSeq(c, 1, i - 1) \o SubSeq(c, i + 1, Len(c))

\* ---- Cache.Get -----------------------------------------------------------------------------------
\* returns [cache, hit, ent]
CGet(c, key) ==
  LET i == Pos(c, key) IN
  IF i = 0 THEN [cache |-> c, hit |-> FALSE, ent |-> <<>>]
  ELSE IF c[i].left < 0 THEN [cache |-> RemoveAt(c, i), hit |-> FALSE, ent |-> <<>>]     \* time.Now().After(ExpiresAt)
  ELSE [cache |-> <<c[i]>> \o RemoveAt(c, i), hit |-> TRUE, ent |-> <<c[i]>>]

\* ---- Cache.Set -----------------------------------------------------------------------------------
RECURSIVE Evict(_, _)
Evict(c, n) == IF Len(c) >= Cfg.cap /\ c # <<>> THEN Evict(SubSeq(c, 1, Len(c) - 1), n + 1) ELSE [cache |-> c, n |-> n]

\* returns [cache, ev (evictions)]
CSet(c, ent0) ==
  LET ent == [ent0 EXCEPT !.left = Clamp(Cfg, @)]
      i   == Pos(c, ent.key)
  IN IF i # 0 THEN [cache |-> <<ent>> \o RemoveAt(c, i), ev |-> 0]
     ELSE LET r == Evict(c, 0) IN [cache |-> <<ent>> \o r.cache, ev |-> r.n]

\* ---- forwardQuery: what the one datagram it reads turns into ---------------------------------------
\* [err, rc, val, minttl (units), ttl (largest record TTL, s), nans]
Reply(e) ==
  IF e.s = "junk" THEN [err |-> TRUE, rc |-> 0, val |-> 0, minttl |-> 0, ttl |-> 0, nans |-> 0]
  ELSE IF e.s \in {"spoofid", "spoofq"} /\ ~Fixed        \* the first datagram is taken, whatever id and question it carries
       THEN [err |-> FALSE, rc |-> 0, val |-> 9, minttl |-> 200, ttl |-> 4000, nans |-> 1]
  ELSE IF e.s \in {"ok", "spoofid", "spoofq"} THEN [err |-> FALSE, rc |-> 0, val |-> e.val, minttl |-> e.ttl, ttl |-> (e.ttl + 2) * Cfg.unit, nans |-> 2]
  ELSE IF e.s = "nx" THEN [err |-> FALSE, rc |-> 3, val |-> 0, minttl |-> 0, ttl |-> 0, nans |-> 0]
  ELSE IF e.s = "nxc" THEN [err |-> FALSE, rc |-> 3, val |-> 7, minttl |-> e.ttl, ttl |-> e.ttl * Cfg.unit, nans |-> 1]
  ELSE IF e.s = "nodata" THEN [err |-> FALSE, rc |-> 0, val |-> 0, minttl |-> 0, ttl |-> 0, nans |-> 0]
  ELSE [err |-> FALSE, rc |-> 2, val |-> 0, minttl |-> 0, ttl |-> 0, nans |-> 0]

\* ---- the harness' projection of a step ------------------------------------------------------------
Owners(c) == {c[i].own : i \in 1..Len(c)}
SortedSeq(S) == LET RECURSIVE F(_) F(T) == IF T = {} THEN <<>> ELSE LET m == CHOOSE x \in T : \A y \in T : x <= y IN <<m>> \o F(T \ {m}) IN F(S)

Base(hev) == [op |-> hev.op, k |-> hev.k, c |-> hev.c, ttl |-> hev.ttl, val |-> hev.val, s |-> hev.s, on |-> hev.on,
              hit |-> FALSE, err |-> FALSE, rc |-> 0, aval |-> 0, attl |-> 0, ups |-> <<>>, gone |-> <<>>, stored |-> FALSE, n |-> 0,
              dh |-> 0, dm |-> 0, de |-> 0, dr |-> 0, dc |-> 0, df |-> 0, db |-> 0, dx |-> 0, dt |-> 0]

\* entries that left the cache (by owner); an entry overwritten by another question's answer counts as gone
GoneOf(c0, c1, k) ==
  {c0[i].own : i \in {j \in 1..Len(c0) : Pos(c1, c0[j].key) = 0 \/ (c1[Pos(c1, c0[j].key)].own # c0[j].own)}}

NodeOfS(x) == [size |-> Len(x.cache), keys |-> SortedSeq(Owners(x.cache))]

Take(hev, e, x) ==
  LET g2 == Step(Cfg, g, e, <<>>) IN
  /\ s' = x
  /\ g' = g2
  /\ hist' = Append(hist, hev)
  /\ bad' = EdgeClauses(Cfg, g, e) \cup NodeClauses(Cfg, g2, NodeOfS(x), hev.op)

HEv(op, k, c, ttl, val, scr, on) == [op |-> op, k |-> k, c |-> c, ttl |-> ttl, val |-> val, s |-> scr, on |-> on]

\* ---- Resolver.Resolve -----------------------------------------------------------------------------
Resolve(c, k, scr) ==
  LET addr == Cfg.qaddr[k]
      pr   == Cfg.pairs[1]
      hev  == HEv("q", k, c, IF scr \in {"ok", "nxc", "spoofid", "spoofq"} THEN pr[2] ELSE 0,
                  IF scr \in {"ok", "nxc", "spoofid", "spoofq"} THEN (IF addr THEN pr[1] ELSE 1) ELSE 0, scr, FALSE)
      b    == [Base(hev) EXCEPT !.dr = 1]
      key  == KeyOf(k)
  IN IF c \in s.wall THEN                                            \* "Check walled garden"
          Take(hev, [b EXCEPT !.rc = IF addr THEN 0 ELSE 3, !.aval = IF addr THEN 8 ELSE 0, !.attl = IF addr THEN 300 ELSE 0,
                              !.stored = Pos(s.cache, key) # 0 /\ s.cache[Pos(s.cache, key)].own = k], s)
     ELSE IF Cfg.qname[k] \in s.rules THEN                           \* "Check interception rules"
          Take(hev, [b EXCEPT !.rc = 3, !.db = 1, !.stored = Pos(s.cache, key) # 0 /\ s.cache[Pos(s.cache, key)].own = k], s)
     ELSE LET gt == CGet(s.cache, key) IN                            \* "Check cache"
          IF gt.hit THEN
               LET ent == gt.ent[1]
                   x   == [s EXCEPT !.cache = gt.cache]
               IN Take(hev, [b EXCEPT !.hit = TRUE, !.rc = ent.rc, !.dh = 1, !.dc = 1,
                                      !.aval = IF ent.own = k \/ ent.val \in {0, 7, 9} THEN ent.val ELSE 97,
                                      !.attl = IF ent.val = 0 THEN 0 ELSE IF Fixed THEN ent.left * Cfg.unit ELSE ent.ttl,
                                      !.stored = ent.own = k], x)
          ELSE LET idx == (s.idx + 1) % Cfg.nup                      \* "Forward to upstream", "Select upstream (round-robin)"
                   rp  == Reply(hev)
                   b1  == [b EXCEPT !.dm = 1, !.df = 1, !.ups = <<idx + 1>>]
               IN IF rp.err THEN
                       LET x == [s EXCEPT !.cache = gt.cache, !.idx = idx] IN
                       Take(hev, [b1 EXCEPT !.err = TRUE, !.dx = 1, !.gone = SortedSeq(GoneOf(s.cache, x.cache, k))], x)
                  ELSE LET positive == rp.nans > 0 /\ (~Fixed \/ rp.rc = 0)   \* "Cache the response"
                           negative == rp.nans = 0 /\ rp.rc = 3             \* "Cache negative response"
                           st == IF positive THEN CSet(gt.cache, [key |-> key, own |-> k, left |-> rp.minttl, val |-> rp.val, rc |-> 0, ttl |-> rp.ttl])
                                 ELSE IF negative THEN CSet(gt.cache, [key |-> key, own |-> k, left |-> Cfg.neg, val |-> 0, rc |-> 3, ttl |-> 0])
                                 ELSE [cache |-> gt.cache, ev |-> 0]
                           x  == [s EXCEPT !.cache = st.cache, !.idx = idx]
                       IN Take(hev, [b1 EXCEPT !.rc = rp.rc, !.aval = rp.val, !.attl = rp.ttl, !.de = st.ev,
                                               !.gone = SortedSeq(GoneOf(s.cache, x.cache, k)),
                                               !.stored = Pos(x.cache, key) # 0 /\ x.cache[Pos(x.cache, key)].own = k], x)

Adv ==
  LET hev == HEv("adv", 0, 0, 0, 0, "", FALSE)
      x   == [s EXCEPT !.cache = [i \in 1..Len(s.cache) |-> [s.cache[i] EXCEPT !.left = Max2(@ - 1, -1)]]]
  IN Take(hev, [Base(hev) EXCEPT !.dt = 1], x)

Wall(on) ==
  LET hev == HEv("wall", 0, Cfg.nc, 0, 0, "", on)
      x   == [s EXCEPT !.wall = IF on THEN @ \cup {Cfg.nc} ELSE @ \ {Cfg.nc}]
  IN Take(hev, Base(hev), x)

Rule(on) ==
  LET hev == HEv("rule", 1, 0, 0, 0, "", on)
      x   == [s EXCEPT !.rules = IF on THEN @ \cup {1} ELSE @ \ {1}]
  IN Take(hev, Base(hev), x)

Init == s = S0 /\ g = G0(Cfg) /\ hist = <<>> /\ bad = {}

Next == /\ bad \subseteq Soft
        /\ Len(hist) < MaxLen
        /\ \/ \E c \in 1..Cfg.nc, k \in 1..Cfg.nk, i \in 1..Len(Cfg.scripts) : Resolve(c, k, Cfg.scripts[i])
           \/ Adv
           \/ \E on \in BOOLEAN : Wall(on) \/ Rule(on)

Spec == Init /\ [][Next]_vars

Report == bad = {} \/ PrintT(<<"DESIGN-CEX", ToJson([clauses |-> bad, events |-> hist])>>)
Clean  == bad = {}
\* the model's cache and the contract's ghost agree on what is held, in which order
GhostTracks == bad # {} \/ g.lru = [i \in 1..Len(s.cache) |-> s.cache[i].own]

View == <<s, g, bad>>
=============================================================================
