SPECIFICATION Spec
CONSTANTS Fixed = TRUE  MaxLen = 12
INVARIANTS Clean GhostTracks
VIEW View
CHECK_DEADLOCK FALSE
