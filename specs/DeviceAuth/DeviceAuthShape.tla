--------------------------- MODULE DeviceAuthShape ---------------------------
(***************************************************************************)
(* Implementation-shaped model of pkg/deviceauth/psk.go, one action per     *)
(* critical section, judged by the DeviceAuth contract (kind "psk").        *)
(*                                                                         *)
(*   RotatePSK(new): len(new) < 16 -> error;  mu.Lock;                      *)
(*                   [R1] for i := range psk { psk[i] = 0 }   (in place)    *)
(*                   [R2] psk = []byte(new);  mu.Unlock                     *)
(*   Close():        mu.Lock; zero in place; psk = nil; mu.Unlock           *)
(*   VerifySignature: as found takes NO lock: [V1] hmac.New(sha256, a.psk)  *)
(*                   reads whatever psk holds at that instant - between R1  *)
(*                   and R2 that is the old buffer, all zero bytes; with    *)
(*                   psk = nil (after Close) it is the empty key, and the   *)
(*                   code does not check that a key is loaded (Authenticate *)
(*                   does).                                                 *)
(* Fixed = TRUE models the proposed repair: VerifySignature takes mu.RLock  *)
(* and refuses when no key is loaded.                                       *)
(* psk values: 0 = nil / empty, 1..nk = a key, Z = nk+2 = 16 zero bytes.    *)
(* Histories are in the alphabet of harness/deviceauth (system "shape").    *)
(***************************************************************************)
EXTENDS DeviceAuth, Json, TLC

CONSTANTS Fixed, MaxLen

Cfg == [kind |-> "psk", nk |-> 2, k0 |-> 1, skew |-> 300]
Z == Cfg.nk + 2
Keys == 0..(Cfg.nk + 2)

VARIABLES s, g, hist, bad
vars == <<s, g, hist, bad>>

Ev(op, k, k2) == [op |-> op, k |-> k, k2 |-> k2, dt |-> 0, ok |-> TRUE, acc |-> FALSE, succ |-> FALSE, dev |-> TRUE, sk |-> -1,
                  leak |-> FALSE, fresh |-> TRUE, zacc |-> FALSE]

Take(e, s2) ==
  LET g2 == Step(Cfg, g, e, [n |-> 0])
  IN /\ s' = s2
     /\ g' = g2
     /\ hist' = Append(hist, e)
     /\ bad' = EdgeClauses(Cfg, g, e) \cup NodeClauses(Cfg, g2, [n |-> 0], e)

Rot(k)  == IF Long(Cfg, k) THEN Take(Ev("rot", k, 0), k) ELSE Take([Ev("rot", k, 0) EXCEPT !.ok = FALSE], s)
CloseA  == Take(Ev("close", 0, 0), 0)
\* [V1] the key read is s; as found nothing else is checked
Ver(k)  == Take([Ev("ver", k, 0) EXCEPT !.acc = (k = s /\ (~Fixed \/ s # 0))], s)
Auth    == Take([Ev("auth", 0, 0) EXCEPT !.succ = (s # 0), !.ok = (s # 0)], s)
\* rotation k1 -> k2 -> ... while a signature made with Z is presented: V1 falls before R1, between R1 and R2, or after R2
Race(k1, k2) ==
  \E seen \in (IF Fixed THEN {k1, k2} ELSE {k1, k2, Z}) :
     Take([Ev("race", k1, k2) EXCEPT !.zacc = (seen = Z)], k2)

Init == s = Cfg.k0 /\ g = G0(Cfg) /\ hist = <<>> /\ bad = {}

Next == /\ bad = {}
        /\ Len(hist) < MaxLen
        /\ \/ \E k \in 0..(Cfg.nk + 1) : Rot(k)
           \/ CloseA
           \/ \E k \in Keys : Ver(k)
           \/ Auth
           \/ Race(1, 2) \/ Race(2, 1)

Spec == Init /\ [][Next]_vars

Report == bad = {} \/ PrintT(<<"DESIGN-CEX", ToJson([clauses |-> bad, events |-> hist])>>)
Clean  == bad = {}
GhostTracks == bad # {} \/ g.cur = s

View == <<s, g, bad>>
=============================================================================
