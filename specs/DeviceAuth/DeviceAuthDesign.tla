--------------------------- MODULE DeviceAuthDesign ---------------------------
(***************************************************************************)
(* U1: the DeviceAuth contract implies the guarantees, stated here over     *)
(* ABSOLUTE histories (not over the contract's ghost).  Next = every event  *)
(* of the alphabet with EVERY possible answer; a step whose answer the      *)
(* contract accepts (no clause) is continued, and the invariants say that   *)
(* an accepted answer never                                                 *)
(*   psk:    accepts a signature made with a key other than the last key    *)
(*           successfully rotated in (GOnlyLast), with a key rotated out    *)
(*           (GNeverOld), after Close and before the next rotation (GClosed)*)
(*           or with a stale timestamp (GFresh); reports success from       *)
(*           Authenticate with no key loaded (GAuth);                       *)
(*   direct: reports success for an ONT for which the BSS has not said      *)
(*           `active` at any moment since the last InvalidateCache of that  *)
(*           ONT / SyncFromBSS (GRevoked), or that the BSS has never known  *)
(*           (GUnknown), or names another ONT's subscriber (GSub).          *)
(* Kind = "psk" | "direct" selects the half; small constants.               *)
(***************************************************************************)
EXTENDS DeviceAuth, TLC

CONSTANTS Kind, MaxSteps, NK, NO

Cfg == IF Kind = "psk" THEN [kind |-> "psk", nk |-> NK, k0 |-> 1, skew |-> 300]
       ELSE [kind |-> "direct", no |-> NO]

VARIABLES g, H, last, steps
vars == <<g, H, last, steps>>

B == {TRUE, FALSE}

\* ---- psk: H.keys = every key in force so far, oldest first (0 = cleared by Close) ----
PEv(op, k, k2, dt) == [op |-> op, k |-> k, k2 |-> k2, dt |-> dt, ok |-> TRUE, acc |-> FALSE, succ |-> FALSE, dev |-> TRUE, sk |-> -1,
                       leak |-> FALSE, fresh |-> TRUE, zacc |-> FALSE]
PskEvents ==
  {[PEv("rot", k, 0, 0) EXCEPT !.ok = b] : k \in 0..(NK + 1), b \in B}
  \cup {[PEv("ver", k, 0, dt) EXCEPT !.acc = b] : k \in 0..(NK + 2), dt \in {0, -360, 360}, b \in B}
  \cup {[PEv("auth", 0, 0, 0) EXCEPT !.succ = b, !.ok = c, !.dev = d] : b \in B, c \in B, d \in B}
  \cup {[PEv("hdr", 0, 0, 0) EXCEPT !.sk = k, !.leak = b, !.fresh = c] : k \in -1..(NK + 2), b \in B, c \in B}
  \cup {PEv("close", 0, 0, 0)}
  \cup {[PEv("race", k, k2, 0) EXCEPT !.zacc = b] : k \in 1..NK, k2 \in 1..NK, b \in B}
PskAfter(h, e) ==
  IF e.op = "rot" /\ e.k \in 1..NK THEN [keys |-> Append(h.keys, e.k)]
  ELSE IF e.op = "close" THEN [keys |-> Append(h.keys, 0)]
  ELSE IF e.op = "race" THEN [keys |-> h.keys \o <<e.k, e.k2>>]
  ELSE h
LastKey(h) == h.keys[Len(h.keys)]

\* ---- direct: H.bss = what the BSS says now, H.act[o] = it said active at some moment since the last inv(o) / sync, H.ever[o] ----
DEv(op, o, st, via) == [op |-> op, o |-> o, st |-> st, via |-> via, ok |-> TRUE, succ |-> FALSE, sub |-> 0, walled |-> FALSE]
DirEvents ==
  {DEv("bss", o, st, 0) : o \in 1..NO, st \in 0..3}
  \cup {[DEv("auth", o, 0, via) EXCEPT !.succ = b, !.sub = sb, !.walled = w] : o \in 1..NO, via \in {1, 2}, b \in B, sb \in 0..NO, w \in B}
  \cup {[DEv("auth", 0, 0, 0) EXCEPT !.succ = b, !.sub = sb] : b \in B, sb \in 0..NO}
  \cup {DEv("inv", o, 0, 0) : o \in 1..NO}
  \cup {[DEv("sync", 0, 0, 0) EXCEPT !.ok = b] : b \in B}
DirAfter(h, e) ==
  IF e.op = "bss" THEN [h EXCEPT !.bss[e.o] = e.st, !.act[e.o] = @ \/ Active(e.st), !.ever[e.o] = @ \/ e.st # 0]
  ELSE IF e.op = "inv" THEN [h EXCEPT !.act[e.o] = Active(h.bss[e.o])]
  ELSE IF e.op = "sync" /\ e.ok THEN [h EXCEPT !.act = [o \in 1..NO |-> Active(h.bss[o])]]
  ELSE h

Events == IF Kind = "psk" THEN PskEvents ELSE DirEvents
After(h, e) == IF Kind = "psk" THEN PskAfter(h, e) ELSE DirAfter(h, e)
ObsOf(h) == IF Kind = "psk" THEN [n |-> 0] ELSE [nser |-> Cardinality({o \in 1..NO : h.bss[o] # 0}), ncid |-> 0]

Init == /\ g = G0(Cfg) /\ steps = 0
        /\ H = IF Kind = "psk" THEN [keys |-> <<1>>]
               ELSE [bss |-> [o \in 1..NO |-> 0], act |-> [o \in 1..NO |-> FALSE], ever |-> [o \in 1..NO |-> FALSE]]
        /\ last = [accepted |-> FALSE, e |-> InitEv, h |-> H]

Next ==
  /\ steps < MaxSteps
  /\ steps' = steps + 1
  /\ \E e \in Events :
       LET h2 == After(H, e)
           g2 == Step(Cfg, g, e, ObsOf(h2))
           cl == EdgeClauses(Cfg, g, e) \cup NodeClauses(Cfg, g2, ObsOf(h2), e)
       IN /\ cl = {}                      \* only answers the contract accepts are continued
          /\ last' = [accepted |-> TRUE, e |-> e, h |-> H]
          /\ g' = g2 /\ H' = h2

Spec == Init /\ [][Next]_vars

\* ---- the guarantees, over the absolute history before the judged step (last.h) ----
Psk == Kind = "psk" /\ last.accepted
GOnlyLast == Psk /\ last.e.op = "ver" /\ last.e.acc => last.e.k = LastKey(last.h)
GNeverOld == Psk /\ last.e.op = "ver" /\ last.e.acc =>
               ~\E i \in 1..(Len(last.h.keys) - 1) : last.h.keys[i] = last.e.k /\ last.e.k # LastKey(last.h)
GClosed   == Psk /\ last.e.op = "ver" /\ last.e.acc => LastKey(last.h) # 0
GFresh    == Psk /\ last.e.op = "ver" /\ last.e.acc => Abs(last.e.dt) <= 300
GAuth     == Psk /\ last.e.op = "auth" /\ last.e.succ => LastKey(last.h) # 0 /\ last.e.ok /\ last.e.dev
GShort    == Psk /\ last.e.op = "rot" /\ last.e.ok => last.e.k \in 1..NK
GZero     == Psk /\ last.e.op = "race" => ~last.e.zacc
GhostPsk  == Kind = "psk" => g.cur = LastKey(H)

Dir == Kind = "direct" /\ last.accepted /\ last.e.op = "auth" /\ last.e.succ
GRevoked  == Dir => last.e.o # 0 /\ last.h.act[last.e.o]
GUnknown  == Dir => last.e.o # 0 /\ last.h.ever[last.e.o]
GSub      == Dir => last.e.sub = last.e.o
GWalled   == Kind = "direct" /\ last.accepted /\ last.e.op = "auth" /\ last.e.walled => ~last.e.succ

View == <<g, H, steps, last.accepted, last.e>>
=============================================================================
