SPECIFICATION Spec
CONSTANTS Fixed = TRUE  MaxLen = 4
INVARIANTS Clean GhostTracks
VIEW View
CHECK_DEADLOCK FALSE
