----------------------------- MODULE DeviceAuth -----------------------------
(***************************************************************************)
(* Contract of extra family X14 "DeviceAuth": pkg/deviceauth (PSK and mTLS  *)
(* authenticators) and pkg/direct/authenticator.go (RADIUS-less lookup).    *)
(* What the packages do NOT contain, and what is therefore not constrained: *)
(* no grace / overlap window after RotatePSK (the old key is gone at once), *)
(* no failed-attempt or lockout counters, no composite authenticator with   *)
(* an mTLS -> PSK fall-through (NewAuthenticator selects exactly one mode),  *)
(* no revocation list.                                                       *)
(*                                                                         *)
(* clause -> sentence of the package (weakest reading)                      *)
(*  cfg.kind = "psk"  (deviceauth.PSKAuthenticator; key index 0 = empty key, *)
(*  1..nk = keys of 16 characters, nk+1 = a key shorter than 16 characters,  *)
(*  nk+2 = 16 zero bytes; ghost cur = index of the key in force, 0 = none)   *)
(*   OnlyCurrentKey   `VerifySignature verifies a signature from a request.  *)
(*                    This is used server-side to validate incoming          *)
(*                    requests`, `The server should derive the same signature*)
(*                    using shared PSK`, RotatePSK `Clear old PSK / Set new  *)
(*                    PSK`, Close `Clear PSK from memory`: a signature is    *)
(*                    accepted only if made with the key in force; never     *)
(*                    with a key rotated out, never when no key is loaded    *)
(*   CurrentAccepted  same sentences, other direction: a signature made with *)
(*                    the key in force, timestamp well inside the skew, is   *)
(*                    accepted                                               *)
(*   FreshOnly        `MaxTimestampSkew is the maximum allowed time          *)
(*                    difference for requests` (5 minutes)                   *)
(*   RotateMinLen     `new PSK must be at least 16 characters`, `RotatePSK() *)
(*                    enforces the 16-char minimum`: a shorter key is        *)
(*                    refused (and the key in force stays: OnlyCurrentKey /  *)
(*                    CurrentAccepted of later steps); a long one is taken   *)
(*   RotateAtomic     psk is declared under `mu sync.RWMutex` and RotatePSK  *)
(*                    replaces it under the write lock: while keys k1, k2    *)
(*                    are rotated, no signature made with a third key (16    *)
(*                    zero bytes) is accepted                                *)
(*   AuthNeedsKey     Authenticate: `Check if PSK is loaded` / `no PSK       *)
(*                    configured` / `PSK is valid`                           *)
(*   ResultConsistent `Returns the authenticated device identity or an      *)
(*                    error`: Success = (error is nil)                       *)
(*   AuthIdentity     result.DeviceID is the identity's device id            *)
(*   HeadersSigned    GetHTTPHeaders: `Generate HMAC signature over device   *)
(*                    ID and timestamp` with the key in force, `Add          *)
(*                    timestamp for replay protection` = now                 *)
(*   NoRawKey         `Don't send raw PSK - send signature instead`          *)
(*  cfg.kind = "mtls" (deviceauth.MTLSAuthenticator; cfg.certs[c] = [cn, nb, *)
(*  na] in minutes; observations are made half a minute off; ghost c = the   *)
(*  certificate last loaded successfully)                                    *)
(*   CertValidity     `Check certificate expiry` / `certificate not yet      *)
(*                    valid` / `certificate expired`: no success outside     *)
(*                    NotBefore..NotAfter of the loaded certificate          *)
(*   ValidCertAccepted `Certificate is valid`: success inside it             *)
(*   ReloadTakesEffect `ReloadCertificates reloads certificates from disk    *)
(*                    (for rotation)`: good files -> nil, unreadable -> error*)
(*   IdentityOfLoaded `Extract device ID from certificate. Priority:        *)
(*                    explicit option > CN > ...`: identity (id, expiry) is  *)
(*                    that of the loaded certificate                         *)
(*   TlsOfLoaded      buildTLSConfig `Set client certificate`: GetTLSConfig  *)
(*                    presents the loaded certificate                        *)
(*   + ResultConsistent, AuthIdentity as above                               *)
(*  cfg.kind = "direct" (direct.Authenticator with a BSS client; statuses    *)
(*  0 absent 1 active 2 suspended 3 disconnected 4 "" ; ghost bss[o] = what  *)
(*  the BSS says now, cache[o] = what the cache may hold, 0 = nothing)       *)
(*   UnknownRejected  `ONT not found`: no success for a request without      *)
(*                    identifier or for an ONT neither cached nor in the BSS *)
(*   InactiveRejected `Check subscriber status` / `subscriber not active`:   *)
(*                    no success unless the cache or the BSS says active     *)
(*                    (or ""); `InvalidateCache removes a mapping from the   *)
(*                    cache`, SyncFromBSS `Clear existing cache / Populate   *)
(*                    from BSS`: after either only the BSS counts            *)
(*   KnownAccepted    `The ONT serial number or DHCP Option 82 circuit ID is *)
(*                    used to look up the subscriber directly in the BSS`:   *)
(*                    active in the BSS and not cached otherwise -> success  *)
(*   SubscriberOfMapping the result names the subscriber of that ONT        *)
(*   WalledOnlySuspended `WalledGarden: mapping.Status == "suspended"`       *)
(*   SyncExact        after SyncFromBSS the cache holds exactly the BSS's    *)
(*                    mappings (Stats)                                       *)
(***************************************************************************)
EXTENDS Integers, Sequences, FiniteSets

InitEv == [op |-> "init"]

Abs(x) == IF x < 0 THEN -x ELSE x
C(name, cond) == IF cond THEN {name} ELSE {}

\* ---- ghost ---------------------------------------------------------------
G0(cfg) ==
  IF cfg.kind = "psk" THEN [cur |-> cfg.k0]
  ELSE IF cfg.kind = "mtls" THEN [c |-> cfg.c0, now |-> 0]
  ELSE [bss |-> [o \in 1..cfg.no |-> 0], cache |-> [o \in 1..cfg.no |-> 0]]

Long(cfg, k) == k \in 1..cfg.nk
Active(st) == st \in {1, 4}

\* ---- psk -----------------------------------------------------------------
PskEdge(cfg, g, e) ==
  IF e.op = "rot" THEN C("RotateMinLen", e.ok # Long(cfg, e.k))
  ELSE IF e.op = "ver" THEN
       C("OnlyCurrentKey", e.acc /\ ~(e.k = g.cur /\ g.cur # 0))
       \cup C("FreshOnly", e.acc /\ Abs(e.dt) > cfg.skew)
       \cup C("CurrentAccepted", ~e.acc /\ e.k = g.cur /\ g.cur # 0 /\ Abs(e.dt) < cfg.skew)
  ELSE IF e.op = "auth" THEN
       C("AuthNeedsKey", e.succ # (g.cur # 0))
       \cup C("ResultConsistent", e.succ # e.ok)
       \cup C("AuthIdentity", e.succ /\ ~e.dev)
  ELSE IF e.op = "hdr" THEN
       C("HeadersSigned", g.cur # 0 /\ (e.sk # g.cur \/ ~e.fresh))
       \cup C("NoRawKey", e.leak)
  ELSE IF e.op = "race" THEN
       C("RotateAtomic", e.zacc)
  ELSE {}

PskStep(cfg, g, e) ==
  IF e.op = "rot" THEN [g EXCEPT !.cur = IF Long(cfg, e.k) THEN e.k ELSE @]
  ELSE IF e.op = "close" THEN [g EXCEPT !.cur = 0]
  ELSE IF e.op = "race" THEN [g EXCEPT !.cur = e.k2]
  ELSE g

\* ---- mtls ----------------------------------------------------------------
Valid(cfg, c, now) == cfg.certs[c].nb <= now /\ now < cfg.certs[c].na

MtlsEdge(cfg, g, e) ==
  IF e.op = "auth" THEN
       C("CertValidity", e.succ /\ ~Valid(cfg, g.c, g.now))
       \cup C("ValidCertAccepted", ~e.succ /\ Valid(cfg, g.c, g.now))
       \cup C("ResultConsistent", e.succ # e.ok)
       \cup C("AuthIdentity", e.succ /\ e.dev # cfg.certs[g.c].cn)
  ELSE IF e.op = "reload" THEN
       C("ReloadTakesEffect", e.ok # (e.c # 0))
  ELSE {}

MtlsStep(cfg, g, e, obs) ==
  [c |-> IF e.op = "reload" /\ e.c # 0 THEN e.c ELSE g.c, now |-> obs.now]

MtlsNode(cfg, g, n) ==
  C("IdentityOfLoaded", n.idc # cfg.certs[g.c].cn \/ n.expc # g.c)
  \cup C("TlsOfLoaded", n.tlsc # g.c)

\* ---- direct --------------------------------------------------------------
DirEdge(cfg, g, e) ==
  IF e.op = "auth" THEN
    LET known == e.via # 0 /\ e.o # 0
        cs == IF known THEN g.cache[e.o] ELSE 0
        bs == IF known THEN g.bss[e.o] ELSE 0
    IN C("UnknownRejected", e.succ /\ cs = 0 /\ bs = 0)
       \cup C("InactiveRejected", e.succ /\ (cs # 0 \/ bs # 0) /\ ~Active(cs) /\ ~Active(bs))
       \cup C("KnownAccepted", ~e.succ /\ known /\ Active(bs) /\ (cs = 0 \/ Active(cs)))
       \cup C("SubscriberOfMapping", e.succ /\ e.sub # e.o)
       \cup C("WalledOnlySuspended", e.walled /\ (e.succ \/ (cs # 2 /\ bs # 2)))
  ELSE {}

DirStep(cfg, g, e) ==
  IF e.op = "bss" THEN [g EXCEPT !.bss[e.o] = e.st]
  ELSE IF e.op = "auth" /\ e.via # 0 /\ e.o # 0 THEN [g EXCEPT !.cache[e.o] = IF @ # 0 THEN @ ELSE g.bss[e.o]]
  ELSE IF e.op = "inv" THEN [g EXCEPT !.cache[e.o] = 0]
  ELSE IF e.op = "sync" /\ e.ok THEN [g EXCEPT !.cache = g.bss]
  ELSE g

DirNode(cfg, g, n, e) ==
  IF e.op = "sync" /\ e.ok
  THEN C("SyncExact", n.nser # Cardinality({o \in 1..cfg.no : g.bss[o] # 0}))
  ELSE {}

\* ---- the contract --------------------------------------------------------
EdgeClauses(cfg, g, e) ==
  IF cfg.kind = "psk" THEN PskEdge(cfg, g, e)
  ELSE IF cfg.kind = "mtls" THEN MtlsEdge(cfg, g, e)
  ELSE DirEdge(cfg, g, e)

Step(cfg, g, e, obs) ==
  IF cfg.kind = "psk" THEN PskStep(cfg, g, e)
  ELSE IF cfg.kind = "mtls" THEN MtlsStep(cfg, g, e, obs)
  ELSE DirStep(cfg, g, e)

NodeClauses(cfg, g, n, e) ==
  IF cfg.kind = "psk" THEN {}
  ELSE IF cfg.kind = "mtls" THEN MtlsNode(cfg, g, n)
  ELSE DirNode(cfg, g, n, e)
=============================================================================
