SPECIFICATION Spec
CONSTANTS Kind = "direct"  MaxSteps = 5  NK = 1  NO = 2
INVARIANTS GRevoked GUnknown GSub GWalled
CHECK_DEADLOCK FALSE
