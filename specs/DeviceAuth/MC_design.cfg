SPECIFICATION Spec
CONSTANTS Kind = "psk"  MaxSteps = 4  NK = 2  NO = 1
INVARIANTS GOnlyLast GNeverOld GClosed GFresh GAuth GShort GZero GhostPsk
CHECK_DEADLOCK FALSE
