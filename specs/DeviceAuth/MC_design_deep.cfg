SPECIFICATION Spec
CONSTANTS Kind = "psk"  MaxSteps = 6  NK = 3  NO = 1
INVARIANTS GOnlyLast GNeverOld GClosed GFresh GAuth GShort GZero GhostPsk
CHECK_DEADLOCK FALSE
