SPECIFICATION Spec
CONSTANTS Fixed = FALSE  MaxLen = 3
INVARIANTS Report
VIEW View
CHECK_DEADLOCK FALSE
