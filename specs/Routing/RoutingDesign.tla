--------------------------- MODULE RoutingDesign ---------------------------
(***************************************************************************)
(* U1 + implementation-shaped model of subscriber_routes.go (one address,   *)
(* two sessions): one action per API call / retry pass, the cache update    *)
(* and the FRR command as the code orders them, the retry worker's queue    *)
(* with its retry counts.  The Routing contract runs next to it as monitor  *)
(* (exactly as RoutingImpl runs it over the real code) and the guarantee is *)
(* stated directly:                                                         *)
(*                                                                         *)
(*   Guarantee: whenever no operation is queued for retry and none has been *)
(*   given up since the last command FRR accepted from a call, FRR holds    *)
(*   the address's route iff a session's route is in the cache (installed   *)
(*   routes == routes of live subscribers).                                 *)
(*                                                                         *)
(* Fixed = FALSE (the code as found): the retry pass replays queued         *)
(* operations without looking at the cache - TLC finds the histories in     *)
(* which a queued injection re-installs the route of an ended session and a *)
(* queued withdrawal removes the route of a live one; every one the         *)
(* contract reports is printed (DESIGN-CEX) and replayed on the real code;  *)
(* invariant Caught: whatever breaks the guarantee is reported by the       *)
(* contract.  Fixed = TRUE (proposed repair: the retry pass drops an        *)
(* injection whose route has left the cache and a withdrawal whose address  *)
(* is cached again): the contract is silent (Silent) and Guarantee holds.   *)
(***************************************************************************)
EXTENDS Routing, Json, TLC

CONSTANTS MaxSteps, Fixed

Cfg == [kind |-> "srm", impl |-> "shape", ns |-> 2, ni |-> 1, maxr |-> 2, nu |-> 0, ipof |-> <<>>]

VARIABLES cache, frr, fail, q, lost, g, viol, hist
vars == <<cache, frr, fail, q, lost, g, viol, hist>>

Obs == [act |-> <<cache>>, frr |-> <<IF frr THEN 1 ELSE 0>>, n |-> IF cache # 0 THEN 1 ELSE 0]
Ev(op, s, a, ok) == [op |-> op, s |-> s, ip |-> IF op \in {"inject", "withdraw"} THEN 1 ELSE 0, a |-> a, ok |-> ok]

Init == /\ cache = 0 /\ frr = FALSE /\ fail = FALSE /\ q = <<>> /\ lost = FALSE
        /\ g = G0(Cfg) /\ viol = {} /\ hist = <<>>

\* the monitor, applied to the step just taken (primed model variables = the observation after it)
Judge(e) == LET o  == [act |-> <<cache'>>, frr |-> <<IF frr' THEN 1 ELSE 0>>, n |-> IF cache' # 0 THEN 1 ELSE 0]
                g2 == Step(Cfg, g, e, o)
            IN /\ g' = g2
               /\ viol' = EdgeClauses(Cfg, g, e) \cup NodeClauses(Cfg, g2, o, e)
               /\ hist' = Append(hist, [op |-> e.op, s |-> e.s, ip |-> e.ip, a |-> e.a])

Inject(s) ==
  IF cache # 0 THEN      \* "Route already exists, updated session info"
       /\ cache' = s /\ UNCHANGED <<frr, fail, q, lost>> /\ Judge(Ev("inject", s, 0, TRUE))
  ELSE IF fail THEN      \* cached, FRR refused: queued for retry, error returned
       /\ cache' = s /\ q' = Append(q, [t |-> "i", r |-> 0]) /\ UNCHANGED <<frr, fail, lost>> /\ Judge(Ev("inject", s, 0, FALSE))
  ELSE /\ cache' = s /\ frr' = TRUE /\ lost' = FALSE /\ UNCHANGED <<fail, q>> /\ Judge(Ev("inject", s, 0, TRUE))

Withdraw(s) ==
  IF cache = 0 THEN /\ UNCHANGED <<cache, frr, fail, q, lost>> /\ Judge(Ev("withdraw", s, 0, TRUE))
  ELSE IF cache # s THEN /\ UNCHANGED <<cache, frr, fail, q, lost>> /\ Judge(Ev("withdraw", s, 0, FALSE))
  ELSE IF fail THEN
       /\ cache' = 0 /\ q' = Append(q, [t |-> "w", r |-> 0]) /\ UNCHANGED <<frr, fail, lost>> /\ Judge(Ev("withdraw", s, 0, FALSE))
  ELSE /\ cache' = 0 /\ frr' = FALSE /\ lost' = FALSE /\ UNCHANGED <<fail, q>> /\ Judge(Ev("withdraw", s, 0, TRUE))

SetFail(b) == /\ fail' = b /\ UNCHANGED <<cache, frr, q, lost>> /\ Judge(Ev("fail", 0, IF b THEN 1 ELSE 0, TRUE))

\* one pass of retryWorker's ticker branch over the queue, in order
RECURSIVE Replay(_, _)
Replay(ops, f) == IF ops = <<>> THEN f
                  ELSE LET o == Head(ops)
                           skip == Fixed /\ ((o.t = "i" /\ cache = 0) \/ (o.t = "w" /\ cache # 0))
                       IN Replay(Tail(ops), IF skip THEN f ELSE (o.t = "i"))

Bump(ops) == [k \in 1..Len(ops) |-> [t |-> ops[k].t, r |-> ops[k].r + 1]]
Keep(o) == o.r < Cfg.maxr

Tick ==
  /\ IF fail THEN /\ q' = SelectSeq(Bump(q), Keep)
                  /\ lost' = (lost \/ \E k \in 1..Len(q) : q[k].r + 1 >= Cfg.maxr)
                  /\ UNCHANGED frr
     ELSE /\ q' = <<>> /\ frr' = Replay(q, frr) /\ UNCHANGED lost
  /\ UNCHANGED <<cache, fail>>
  /\ Judge(Ev("adv", 0, 0, TRUE))

Next == /\ viol = {}
        /\ Len(hist) < MaxSteps
        /\ \/ \E s \in 1..Cfg.ns : Inject(s) \/ Withdraw(s)
           \/ \E b \in BOOLEAN : b # fail /\ SetFail(b)
           \/ Tick

Spec == Init /\ [][Next]_vars

Guarantee == (q = <<>> /\ ~lost) => (frr <=> cache # 0)
Silent    == viol = {}
Caught    == Guarantee \/ viol # {}
Cex       == viol = {} \/ PrintT(<<"DESIGN-CEX", ToJson([clauses |-> viol, events |-> hist])>>)

View == <<cache, frr, fail, q, lost, g, viol, Len(hist)>>
=============================================================================
