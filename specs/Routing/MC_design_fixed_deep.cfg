SPECIFICATION Spec
CONSTANTS MaxSteps = 11  Fixed = TRUE
INVARIANTS Silent Guarantee
VIEW View
CHECK_DEADLOCK FALSE
