SPECIFICATION Spec
CONSTANTS MaxSteps = 7  Fixed = TRUE
INVARIANTS Silent Guarantee
VIEW View
CHECK_DEADLOCK FALSE
