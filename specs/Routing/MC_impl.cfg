SPECIFICATION Spec
CONSTANT Watch = {"CacheExact"}
INVARIANTS Report
VIEW View
CHECK_DEADLOCK FALSE
