SPECIFICATION Spec
CONSTANTS MaxSteps = 7  Fixed = FALSE
INVARIANTS Cex Caught
VIEW View
CHECK_DEADLOCK FALSE
