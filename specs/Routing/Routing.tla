------------------------------ MODULE Routing ------------------------------
(***************************************************************************)
(* Contract of pkg/routing other than BFD / HealthChecker (extra family     *)
(* X17): SubscriberRouteManager (kind "srm"), SessionRouteIntegration       *)
(* (kind "sri"), the route-table Manager (kind "mgr"), BGPController        *)
(* (kind "bgp").  Clauses restate the package's own comments, weakest       *)
(* reading; everything they are silent about is left open.                  *)
(*                                                                         *)
(* clause            sentence                                               *)
(* ----------------  ---------------------------------------------------- *)
(* CacheExact        subscriber_routes.go: "Active subscriber routes: IP -> *)
(*                   RouteInfo"; InjectRoute "injects a /32 route for a     *)
(*                   subscriber session", WithdrawRoute "Remove from active *)
(*                   routes"; "The route remains in activeRoutes cache      *)
(*                   despite the FRR injection failure": GetActiveRoutes is *)
(*                   exactly the routes injected and not withdrawn by their *)
(*                   session (sri: exactly the live sessions' addresses -   *)
(*                   "withdraws them on termination")                       *)
(* NoLeak            "WithdrawRoute withdraws a /32 route for a subscriber  *)
(*                   session", session_integration.go "It withdraws the /32 *)
(*                   route for the subscriber's IP address": once a         *)
(*                   withdrawal / termination has returned nil (or the      *)
(*                   retry worker / ReconcileRoutes had a healthy FRR to    *)
(*                   work with) FRR holds no route for an address no live   *)
(*                   session uses                                           *)
(* LiveInstalled     "InjectRoute injects a /32 route": once an injection   *)
(*                   of a new route has returned nil (or "the retry         *)
(*                   mechanism (retryWorker) will attempt to inject the     *)
(*                   route again" / "ReconcileRoutes ... re-injects all     *)
(*                   routes" succeeded) FRR holds the route as long as the  *)
(*                   session is live and FRR has not been restarted         *)
(* Idempotent        "Route already exists, updated session info" returns   *)
(*                   nil; "Idempotent - not an error" (withdrawal of an     *)
(*                   unknown route); "No tracked route for terminated       *)
(*                   session" returns nil                                   *)
(* Mismatch          "Verify session ID matches (prevent accidental         *)
(*                   withdrawal)": a withdrawal by another session fails    *)
(*                   and changes nothing                                    *)
(* ResultFollowsFrr  an operation that had to tell FRR returns nil when FRR *)
(*                   accepted the command and (inject / withdraw /          *)
(*                   activate) the error when FRR refused it                *)
(* TrackExact        session_integration.go: "Session tracking": a session  *)
(*                   is tracked from OnSessionActivate to OnSessionTerminate*)
(* SrmStatsTrue      RoutesActive = number of active routes                 *)
(* TableMirror       manager.go "Add to platform if available ... Add to    *)
(*                   local state" / "Remove from platform ... Remove from   *)
(*                   local state": a (destination, gateway) is in the       *)
(*                   manager's table iff it is in the platform (kernel);    *)
(*                   errors leave both consistent                           *)
(* RouteSet          AddRoute "adds a route to a routing table", DeleteRoute*)
(*                   "removes a route", "Remove routes using this upstream" *)
(*                   (RemoveUpstream): the platform holds exactly the routes*)
(*                   added and not deleted by calls that returned nil; a    *)
(*                   call that returned an error changed nothing            *)
(* StateFollowsHealth "handles upstream state changes from health checker": *)
(*                   an upstream becomes UP only while its health target    *)
(*                   answers, DOWN only while it does not, and only on a    *)
(*                   health-check tick                                      *)
(* CallbackOnChange  "OnUpstreamDown registers a callback for upstream      *)
(*                   failure" / "OnUpstreamUp ... for upstream recovery":   *)
(*                   exactly one call per change to DOWN / UP, none else    *)
(* MgrStatsTrue      Stats: UpstreamsTotal / UpstreamsUp / RoutesTotal are  *)
(*                   the counts over upstreams and the table                *)
(* BgpMirror         bgp.go "Local state cache ... announcements":          *)
(*                   ListAnnouncements = FRR's network statements           *)
(* BgpSet            AnnouncePrefix "advertises a prefix", WithdrawPrefix   *)
(*                   "removes a prefix advertisement": announced = announced*)
(*                   and not withdrawn by calls that returned nil; a failed *)
(*                   call changes nothing                                   *)
(* BgpResult         the call returns nil iff FRR accepted the command      *)
(* BgpStatsTrue      TotalAnnouncements = number of announcements           *)
(***************************************************************************)
EXTENDS Integers, Sequences, FiniteSets

IPs(cfg)  == 1..cfg.ni
Ups(cfg)  == 1..cfg.nu
Gws(cfg)  == 1..cfg.ns

InitEv == [op |-> "init", s |-> 0, ip |-> 0, a |-> 0, ok |-> TRUE]

G0(cfg) == [want |-> [i \in IPs(cfg) |-> 0], sure |-> [i \in IPs(cfg) |-> TRUE], pend |-> [i \in IPs(cfg) |-> -1],
            fail |-> FALSE, off |-> FALSE,
            rts  |-> [d \in IPs(cfg) |-> [x \in Gws(cfg) |-> FALSE]],
            ups  |-> [u \in Ups(cfg) |-> 0], pups |-> [u \in Ups(cfg) |-> 0], ping |-> [u \in Ups(cfg) |-> FALSE]]

IsSub(cfg) == cfg.kind \in {"srm", "sri"}
Inj(e) == e.op \in {"inject", "activate"}
Wd(e)  == e.op \in {"withdraw", "terminate"}

NeedsFrr(g, e) == \/ Inj(e) /\ g.want[e.ip] = 0
                  \/ Wd(e) /\ g.want[e.ip] = e.s

(* ---------------------------------------------------------------- edges *)
EdgeClauses(cfg, g, e) ==
  IF g.off THEN {}
  ELSE IF IsSub(cfg) THEN
       (IF \/ Inj(e) /\ g.want[e.ip] # 0 /\ (cfg.kind = "srm" \/ g.want[e.ip] = e.s) /\ ~e.ok
           \/ Wd(e) /\ g.want[e.ip] = 0 /\ ~e.ok
           \/ e.op = "terminate" /\ g.want[e.ip] # e.s /\ ~e.ok
        THEN {"Idempotent"} ELSE {})
       \cup (IF e.op = "withdraw" /\ g.want[e.ip] \notin {0, e.s} /\ e.ok THEN {"Mismatch"} ELSE {})
       \cup (IF (Inj(e) \/ Wd(e)) /\ NeedsFrr(g, e) /\ ((~g.fail /\ ~e.ok) \/ (g.fail /\ e.ok /\ e.op # "terminate"))
             THEN {"ResultFollowsFrr"} ELSE {})
  ELSE IF cfg.kind = "bgp" THEN
       (IF e.op \in {"announce", "unannounce"} /\ (e.ok = g.fail) THEN {"BgpResult"} ELSE {})
  ELSE {}

(* ---------------------------------------------------------------- ghost *)
SubStep(cfg, g, e) ==
  LET i == e.ip IN
  IF Inj(e) THEN
       IF g.want[i] = 0 THEN
            IF e.ok THEN [g EXCEPT !.want[i] = e.s, !.sure[i] = TRUE]
            ELSE [g EXCEPT !.want[i] = e.s, !.sure[i] = FALSE, !.pend[i] = 0]
       ELSE IF cfg.kind = "srm" THEN [g EXCEPT !.want[i] = e.s]
       ELSE IF g.want[i] = e.s THEN g
       ELSE [g EXCEPT !.off = TRUE]     \* one address for two live sessions: outside what the integration is specified for
  ELSE IF Wd(e) THEN
       IF g.want[i] = e.s THEN
            IF e.ok THEN [g EXCEPT !.want[i] = 0, !.sure[i] = TRUE]
            ELSE [g EXCEPT !.want[i] = 0, !.sure[i] = FALSE, !.pend[i] = 0]
       ELSE g
  ELSE IF e.op = "fail" THEN [g EXCEPT !.fail = (e.a = 1)]
  ELSE IF e.op = "reset" THEN [g EXCEPT !.sure = [j \in IPs(cfg) |-> FALSE]]
  ELSE IF e.op = "reconcile" THEN
       IF e.ok THEN [g EXCEPT !.sure = [j \in IPs(cfg) |-> g.sure[j] \/ g.want[j] # 0]] ELSE g
  ELSE IF e.op = "adv" THEN
       IF g.fail THEN [g EXCEPT !.pend = [j \in IPs(cfg) |-> IF g.pend[j] < 0 \/ g.pend[j] + 1 >= cfg.maxr THEN -1 ELSE g.pend[j] + 1]]
       ELSE [g EXCEPT !.sure = [j \in IPs(cfg) |-> g.sure[j] \/ g.pend[j] >= 0], !.pend = [j \in IPs(cfg) |-> -1]]
  ELSE g

MgrStep(cfg, g, e, obs) ==
  LET g1 == [g EXCEPT !.pups = g.ups, !.ups = obs.ups] IN
  IF e.op = "addroute" /\ e.ok THEN [g1 EXCEPT !.rts[e.ip][e.s] = TRUE]
  ELSE IF e.op = "delroute" /\ e.ok THEN [g1 EXCEPT !.rts[e.ip][e.s] = FALSE]
  ELSE IF e.op = "rmup" /\ e.ok /\ e.s \in Gws(cfg) THEN [g1 EXCEPT !.rts = [d \in IPs(cfg) |-> [x \in Gws(cfg) |-> IF x = e.s THEN FALSE ELSE g.rts[d][x]]]]
  ELSE IF e.op = "fail" THEN [g1 EXCEPT !.fail = (e.a = 1)]
  ELSE IF e.op = "ping" THEN [g1 EXCEPT !.ping[e.s] = (e.a = 1)]
  ELSE g1

BgpStep(cfg, g, e) ==
  IF e.op = "announce" /\ e.ok THEN [g EXCEPT !.want[e.ip] = 1]
  ELSE IF e.op = "unannounce" /\ e.ok THEN [g EXCEPT !.want[e.ip] = 0]
  ELSE IF e.op = "fail" THEN [g EXCEPT !.fail = (e.a = 1)]
  ELSE g

Step(cfg, g, e, obs) ==
  IF g.off THEN g
  ELSE IF IsSub(cfg) THEN SubStep(cfg, g, e)
  ELSE IF cfg.kind = "mgr" THEN MgrStep(cfg, g, e, obs)
  ELSE BgpStep(cfg, g, e)

(* ---------------------------------------------------------------- nodes *)
Count(S) == Cardinality(S)

SubNode(cfg, g, n) ==
     (IF \E i \in IPs(cfg) : n.act[i] # g.want[i] THEN {"CacheExact"} ELSE {})
\cup (IF \E i \in IPs(cfg) : g.sure[i] /\ g.want[i] = 0 /\ n.frr[i] = 1 THEN {"NoLeak"} ELSE {})
\cup (IF \E i \in IPs(cfg) : g.sure[i] /\ g.want[i] # 0 /\ n.frr[i] = 0 THEN {"LiveInstalled"} ELSE {})
\cup (IF n.n # Count({i \in IPs(cfg) : g.want[i] # 0}) THEN {"SrmStatsTrue"} ELSE {})
\cup (IF cfg.kind = "sri" /\ \E x \in 1..cfg.ns : n.trk[x] # (IF g.want[cfg.ipof[x]] = x THEN cfg.ipof[x] ELSE 0) THEN {"TrackExact"} ELSE {})

SumSeq(f, S) == LET RECURSIVE Sum(_)
                    Sum(T) == IF T = {} THEN 0 ELSE LET x == CHOOSE y \in T : TRUE IN f[x] + Sum(T \ {x})
                IN Sum(S)

MgrNode(cfg, g, n, e) ==
     (IF \E d \in IPs(cfg), x \in Gws(cfg) : (n.tab[d][x] > 0) # (n.plat[d][x] = 1) THEN {"TableMirror"} ELSE {})
\cup (IF \E d \in IPs(cfg), x \in Gws(cfg) : (n.plat[d][x] = 1) # g.rts[d][x] THEN {"RouteSet"} ELSE {})
\cup (IF \E u \in Ups(cfg) : \/ g.pups[u] # 2 /\ g.ups[u] = 2 /\ (e.op # "adv" \/ ~g.ping[u])
                             \/ g.pups[u] # 3 /\ g.ups[u] = 3 /\ (e.op # "adv" \/ g.ping[u])
      THEN {"StateFollowsHealth"} ELSE {})
\cup (IF e.op # "init" /\ \E u \in Ups(cfg) : \/ e.cbup[u] # (IF g.pups[u] # 2 /\ g.ups[u] = 2 THEN 1 ELSE 0)
                                              \/ e.cbdown[u] # (IF g.pups[u] # 3 /\ g.ups[u] = 3 THEN 1 ELSE 0)
      THEN {"CallbackOnChange"} ELSE {})
\cup (IF \/ n.sup # Count({u \in Ups(cfg) : n.ups[u] = 2})
         \/ n.stot # Count({u \in Ups(cfg) : n.ups[u] # 0})
         \/ n.sroutes # SumSeq([p \in IPs(cfg) \X Gws(cfg) |-> n.tab[p[1]][p[2]]], IPs(cfg) \X Gws(cfg))
      THEN {"MgrStatsTrue"} ELSE {})

BgpNode(cfg, g, n) ==
     (IF \E i \in IPs(cfg) : n.ann[i] # n.frr[i] THEN {"BgpMirror"} ELSE {})
\cup (IF \E i \in IPs(cfg) : n.ann[i] # g.want[i] THEN {"BgpSet"} ELSE {})
\cup (IF n.n # Count({i \in IPs(cfg) : n.ann[i] = 1}) THEN {"BgpStatsTrue"} ELSE {})

NodeClauses(cfg, g, n, e) ==
  IF g.off THEN {}
  ELSE IF IsSub(cfg) THEN SubNode(cfg, g, n)
  ELSE IF cfg.kind = "mgr" THEN MgrNode(cfg, g, n, e)
  ELSE BgpNode(cfg, g, n)
=============================================================================
