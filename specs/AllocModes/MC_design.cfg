SPECIFICATION Spec
CONSTANTS MaxSteps = 5  NREC = 2  BB = 1  SLen = 2
INVARIANTS Once Conserve Capacity Counted
VIEW View
CHECK_DEADLOCK FALSE
