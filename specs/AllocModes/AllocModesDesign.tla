-------------------------- MODULE AllocModesDesign --------------------------
(***************************************************************************)
(* U1 for the accounting-buffer part of the AllocModes contract (R3, R4):   *)
(* an arbitrary environment produces steps - BufferAccounting with either   *)
(* result, SyncBufferedAccounting passes that send ANY sequence of records  *)
(* with any outcomes and return any number - and after each step ANY        *)
(* observation of the buffer.  The guarantees are stated directly over the  *)
(* absolute history                                                         *)
(*   H.acc      records BufferAccounting accepted                           *)
(*   H.ok[id]   how often record id was delivered                           *)
(*   H.bad[id]  how often sending it failed                                 *)
(*   H.ret      sum of the passes' results                                  *)
(* Invariants, for histories the contract accepts (no clause reported):     *)
(*   Once      no record is delivered twice, none is sent that was not      *)
(*             accepted, none after it was delivered or failed 3 times      *)
(*   Conserve  every accepted record is exactly one of: buffered (as        *)
(*             observed), delivered, failed three times                     *)
(*   Capacity  never more than AccountingBufferSize records are buffered    *)
(*   Counted   the results add up to the number of records delivered, and   *)
(*             so does the ghost's `synced` statistic                       *)
(***************************************************************************)
EXTENDS AllocModes

CONSTANTS MaxSteps, NREC, BB, SLen

Cfg == [kind |-> "rad", impl |-> "design", ns |-> 1, T |-> 1, B |-> BB, nrec |-> NREC, nses |-> 0, deny |-> FALSE, auth0 |-> TRUE]
Ids == 1..NREC

VARIABLES g, steps, H, obs, bad
vars == <<g, steps, H, obs, bad>>

Ev(op) == [op |-> op, s |-> 0, v |-> 0, dt |-> 0, x |-> "", ok |-> TRUE, err |-> "", n |-> 0, n2 |-> 0, id |-> 0, sent |-> <<>>, skip |-> FALSE]
Items == {[id |-> i, r |-> r] : i \in Ids, r \in {"ok", "fail", "cancel"}}
Sents == {<<>>} \cup {<<a>> : a \in Items} \cup {<<a, b>> : a, b \in Items} \cup (IF SLen >= 3 THEN {<<a, b, c>> : a, b, c \in Items} ELSE {})
Recs == {[id |-> i, att |-> a] : i \in Ids, a \in 0..2}
SeqOf(S) == LET RECURSIVE F(_) F(T) == IF T = {} THEN <<>> ELSE LET x == CHOOSE y \in T : TRUE IN <<x>> \o F(T \ {x}) IN F(S)
\* observations: any set of buffered records, each id once (a doubled id is one more falsification, tried separately)
ObsSets == {P \in SUBSET Recs : \A a, b \in P : a.id = b.id => a = b}

Obs(P, dup, st) == [cached |-> <<FALSE>>, ccount |-> 0, pend |-> IF dup /\ P # {} THEN SeqOf(P) \o <<CHOOSE x \in P : TRUE>> ELSE SeqOf(P),
                    pcount |-> Cardinality(P) + (IF dup /\ P # {} THEN 1 ELSE 0), stats |-> st, deg |-> <<0>>, rq |-> <<>>, rqlen |-> 0]

Count(sent, id, R) == Cardinality({i \in 1..Len(sent) : sent[i].id = id /\ sent[i].r \in R})

Init == /\ g = G0(Cfg) /\ steps = 0 /\ bad = FALSE
        /\ H = [acc |-> {}, ok |-> [i \in Ids |-> 0], bad |-> [i \in Ids |-> 0], ret |-> 0, next |-> 0]
        /\ obs = Obs({}, FALSE, G0(Cfg).st)

Do(e, P, dup) ==
  LET st == IF e.op = "sync" THEN RStatsAfter(g, e) ELSE Step(Cfg, g, e, obs).st
      o  == Obs(P, dup, st)
      g2 == Step(Cfg, g, e, o)
      cl == EdgeClauses(Cfg, g, e) \cup NodeClauses(Cfg, g, g2, o, e)
  IN /\ cl = {}          \* only histories the contract accepts
     /\ g' = g2 /\ obs' = o /\ steps' = steps + 1 /\ bad' = FALSE
     /\ H' = IF e.op = "buf" THEN [H EXCEPT !.next = @ + 1, !.acc = IF e.ok THEN @ \cup {e.id} ELSE @]
             ELSE [H EXCEPT !.ok = [i \in Ids |-> @[i] + Count(e.sent, i, {"ok"})],
                            !.bad = [i \in Ids |-> @[i] + Count(e.sent, i, {"fail", "cancel"})],
                            !.ret = @ + e.n]

Next == /\ steps < MaxSteps
        /\ \E P \in ObsSets, dup \in BOOLEAN :
             \/ /\ H.next < NREC
                /\ \E ok \in BOOLEAN : Do([Ev("buf") EXCEPT !.id = H.next + 1, !.ok = ok, !.err = IF ok THEN "" ELSE "full"], P, dup)
             \/ \E sent \in Sents, n \in 0..SLen : Do([Ev("sync") EXCEPT !.sent = sent, !.n = n, !.x = "any"], P, dup)

Spec == Init /\ [][Next]_vars

PendIds == {obs.pend[i].id : i \in 1..Len(obs.pend)}
Once == \A i \in Ids : /\ H.ok[i] <= 1
                       /\ (H.ok[i] + H.bad[i] > 0 => i \in H.acc)
                       /\ H.bad[i] <= 3 /\ (H.ok[i] = 1 => H.bad[i] < 3)
Conserve == \A i \in H.acc : Cardinality({k \in {1, 2, 3} : (k = 1 /\ i \in PendIds) \/ (k = 2 /\ H.ok[i] = 1) \/ (k = 3 /\ H.bad[i] >= 3)}) = 1
Capacity == Len(obs.pend) <= BB /\ Len(obs.pend) = Cardinality(PendIds)
Counted == H.ret = Cardinality({i \in Ids : H.ok[i] = 1})
View == <<g, H, obs>>
=============================================================================
