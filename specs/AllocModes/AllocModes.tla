----------------------------- MODULE AllocModes -----------------------------
(***************************************************************************)
(* Contract of extra family X16: pkg/allocator/modes.go (HybridAllocator,   *)
(* WiFiGatewayAllocator over LocalAllocator), pkg/resilience/               *)
(* pool_monitor.go (PoolMonitor) and pkg/resilience/radius_handler.go       *)
(* (RADIUSHandler).  Sentences from the files' own comments and from the    *)
(* comments of the types they use (pkg/resilience/types.go), quoted,        *)
(* weakest reading.  One system kind per component (cfg.kind).              *)
(*                                                                         *)
(* kind "hyb" - HybridAllocator                                             *)
(* H1 "HybridAllocator combines local allocation with Nexus                 *)
(*    synchronization. During network partition, it continues using local   *)
(*    allocation" / "Allocate allocates an IP/prefix for a subscriber from  *)
(*    a pool" / "Lookup returns allocations for a subscriber" / "Always     *)
(*    release locally" / "Stats returns allocation statistics for a pool":  *)
(*    HybAllocLocal      Allocate succeeds, Nexus reachable or not, while   *)
(*                       the pool has a free address (or the subscriber     *)
(*                       holds one); the address is one of the pool         *)
(*    HybNoCollision     Lookup shows for every subscriber exactly the      *)
(*                       address Allocate gave it (none after Release); no  *)
(*                       two subscribers hold one address                   *)
(*    HybRelease         Release of a held allocation succeeds              *)
(*    HybStats           Stats.allocated = number of subscribers holding    *)
(* H2 "marks allocations with a partition flag for later reconciliation" /  *)
(*    AllocationInfo.PartitionFlag "True if allocated during network        *)
(*    partition" / IsPartitionActive "returns true if allocations were made *)
(*    during Nexus partition" / reconcilePartitionAllocations "5. Clear     *)
(*    partition flag" (run by syncLoop "if h.nexusAvailable &&              *)
(*    h.partitionActive"):                                                  *)
(*    HybPartitionFlag   Lookup's PartitionFlag of an allocation = it was   *)
(*                       made while Nexus was unavailable                   *)
(*    HybPartitionActive IsPartitionActive = an allocation was made while   *)
(*                       Nexus was unavailable and no reconciliation ran    *)
(*                       since                                              *)
(*    HybReconcile       a sync period with Nexus available clears it, one  *)
(*                       with Nexus unavailable does not                    *)
(* kind "wifi" - WiFiGatewayAllocator                                       *)
(* H3 "AllocateGuest allocates an IP for a guest (unknown MAC) with short   *)
(*    lease" / "Default lease duration for WiFi guests" 5 minutes /         *)
(*    PoolConfig.LeaseDuration "Lease duration (0 for indefinite)":         *)
(*    WifiShortLease     a guest's allocation carries an expiry, at most    *)
(*                       LeaseDuration (5 minutes by default) ahead         *)
(*    (HybAllocLocal / HybNoCollision / HybStats apply as well)             *)
(*                                                                         *)
(* kind "mon" - PoolMonitor                                                 *)
(* M1 "LevelNormal indicates normal pool utilization (<80%)" /              *)
(*    "LevelWarning ... (80-90%)" / "LevelCritical ... (90-95%)" /          *)
(*    "LevelExhausted indicates pool is exhausted (>95% or no IPs           *)
(*    available)" / "calculateLevel determines the utilization level from   *)
(*    the ratio" / "GetUtilization returns the current utilization":        *)
(*    MonLevel           the status' Level is the band of the utilization   *)
(*                       last reported (at exactly 90% / 95%, named by two  *)
(*                       bands / by `>95%` and `Default: 0.95`, either)     *)
(*    MonExhaustedNoIPs  a pool reported with no address available is       *)
(*                       LevelExhausted                                     *)
(*    MonUtil            GetUtilization = the utilization last reported     *)
(* M2 "PoolAlertHandler is called when pool utilization crosses             *)
(*    thresholds" / "Level increased, send alert" / "Level decreased, log   *)
(*    recovery":                                                            *)
(*    MonAlertOnCrossing a report that raises a pool's level (above normal) *)
(*                       calls every registered handler exactly once, with  *)
(*                       that pool, the new level and the utilization       *)
(*    MonAlertOnce       a report that leaves the level where it was calls  *)
(*                       no handler (a lower level: unconstrained)          *)
(* M3 "Determine if short lease should be active" (ShortLeaseEnabled,       *)
(*    ShortLeaseThreshold) / "IsShortLeaseActive returns whether short      *)
(*    lease mode is active for a pool":                                     *)
(*    MonShortLease      active iff enabled and utilization >= threshold    *)
(*                       (exactly at the threshold: either)                 *)
(* M4 "GetPoolsAtLevel returns pools at or above a given level" /           *)
(*    "HasExhaustedPools returns true if any pool is exhausted":            *)
(*    MonLists           both agree with the levels GetPoolStatus shows     *)
(* M5 "monitorLoop periodically checks pool utilization" (10 s ticker):     *)
(*    a period with a provider set is a report of every pool the provider   *)
(*    lists (same clauses)                                                  *)
(*                                                                         *)
(* kind "rad" - RADIUSHandler                                               *)
(* R1 "GetCachedProfile returns a cached profile if valid" / "Check TTL" /  *)
(*    "PurgeExpiredProfiles removes expired cached profiles":               *)
(*    RadCacheValid      found iff cached, not purged and younger than      *)
(*                       CachedProfileTTL                                   *)
(*    RadPurgeExpired    PurgeExpiredProfiles removes exactly the expired   *)
(*                       ones and returns their number                      *)
(* R2 "AuthenticateDegraded performs degraded mode authentication using     *)
(*    cached profile" / NoCachedProfileError / ProfileExpiredError /        *)
(*    "RADIUSModeDeny rejects all new authentications during partition" /   *)
(*    "GetDegradedSessions returns all sessions needing re-authentication": *)
(*    RadNoAuthAfterExpiry no session is issued without a cached profile or *)
(*                       for one older than the TTL                         *)
(*    RadAuthError       the error says which (none cached / expired)       *)
(*    RadDegradedAuth    with a valid profile a session is issued; it needs *)
(*                       re-authentication and is listed                    *)
(*    RadModeDeny        configured RADIUSModeDeny, no session is issued    *)
(* R3 "BufferAccounting buffers an accounting record during partition" /    *)
(*    "Check buffer capacity" / BufferFullError:                            *)
(*    RadBufferCap       accepted iff fewer than AccountingBufferSize       *)
(*                       records are buffered                               *)
(* R4 "SyncBufferedAccounting syncs buffered accounting records to RADIUS"  *)
(*    / "Re-buffer remaining" / "Re-buffer if not too many attempts" (3) /  *)
(*    "No authenticator configured, cannot sync accounting" /               *)
(*    "GetBufferedAccountingCount returns the number of buffered accounting *)
(*    records":                                                             *)
(*    RadSyncOnce        a record is sent only while buffered: never one    *)
(*                       already delivered, never twice in one pass         *)
(*    RadSyncAll         a pass that is not cancelled sends every buffered  *)
(*                       record; nothing is sent after the cancellation     *)
(*    RadSyncCount       the result is the number delivered in the pass     *)
(*    RadNoLoss          a record accepted, not delivered and not dropped   *)
(*                       after three failed attempts is still buffered      *)
(*    RadKeptWithoutAuth the same for a pass without authenticator ("cannot *)
(*                       sync"): the buffer is as it was                    *)
(*    RadPending         nothing else is buffered, each record once, with   *)
(*                       its attempts counted; the count agrees             *)
(* R5 "ProcessReauths processes re-authentication queue" / "Re-queue        *)
(*    remaining" / "Re-queue if not too many attempts" (3):                 *)
(*    RadReauthDone      a session re-authenticated no longer needs it      *)
(*    RadRequeue         after a pass the queue holds exactly the sessions  *)
(*                       not yet tried (cancelled pass) and those whose     *)
(*                       attempt failed with an error fewer than 3 times,   *)
(*                       each once                                          *)
(*    RadReauthCount     the results are the numbers completed / failed     *)
(* R6 "Stats returns RADIUS handler statistics":                            *)
(*    RadStats           degraded auths issued, records buffered / synced / *)
(*                       dropped (buffer full or three failed attempts),    *)
(*                       re-auths completed / failed                        *)
(*    RadStatsCancel     the same after a pass that was cancelled (what it  *)
(*                       delivered / completed / failed before counts)      *)
(*                                                                         *)
(* Unconstrained: the ORDER in which buffered records / queued sessions are *)
(* sent (no comment of these files promises one), allocations of the other  *)
(* site (modes.go documents no local reserve and no rule about the peer),   *)
(* mode selection (AllocationMode / PoolConfig.Mode are declared, no code   *)
(* or comment says how they select), allocation rate / EstimatedTTL, a      *)
(* lower level's alert, ProcessReauths without authenticator, the instants  *)
(* age = TTL (the harness never calls at one).                              *)
(***************************************************************************)
EXTENDS Integers, FiniteSets, Sequences, TLC

ARange(s)   == {s[i] : i \in 1..Len(s)}
AMin2(a, b) == IF a < b THEN a ELSE b
ACount(s, P(_)) == Cardinality({i \in 1..Len(s) : P(s[i])})

InitEv == [op |-> "init", s |-> 0, v |-> 0, dt |-> 0, x |-> ""]

\* clauses whose violation leaves ghost and implementation in step: the monitor walks on from a state that violates only these
Soft == {"HybPartitionFlag", "WifiShortLease", "RadModeDeny", "MonExhaustedNoIPs", "RadStatsCancel"}

(***************************** kind hyb / wifi *****************************)
\* cfg = [kind, ns, total, L (wifi: lease minutes, 0 = default)]
\* e = [op (alloc | release | nexus | tick | guest), s, v, ok, a]
\* ghost: held[s] address index or 0, pf[s] 0 not in partition / 1 in partition / 2 either, anyp, avail
HSubs(cfg) == 1..cfg.ns
HG0(cfg) == [held |-> [s \in HSubs(cfg) |-> 0], pf |-> [s \in HSubs(cfg) |-> 0], anyp |-> FALSE, avail |-> FALSE]
HHolding(cfg, g) == Cardinality({s \in HSubs(cfg) : g.held[s] # 0})

HEdge(cfg, g, e) ==
  IF e.op \in {"alloc", "guest"} THEN
       (IF (g.held[e.s] # 0 \/ HHolding(cfg, g) < cfg.total) /\ ~(e.ok /\ e.a \in 1..cfg.total) THEN {"HybAllocLocal"} ELSE {})
  \cup (IF e.ok /\ \E t \in HSubs(cfg) : t # e.s /\ g.held[t] = e.a THEN {"HybNoCollision"} ELSE {})
  ELSE IF e.op = "release" THEN (IF g.held[e.s] # 0 /\ ~e.ok THEN {"HybRelease"} ELSE {})
  ELSE {}

HStep(cfg, g, e, obs) ==
  IF e.op \in {"alloc", "guest"} THEN
     (IF e.ok THEN LET f == IF g.avail THEN 0 ELSE 1
                   IN [g EXCEPT !.held[e.s] = e.a,
                                !.pf[e.s] = IF g.held[e.s] = 0 \/ g.pf[e.s] = f THEN f ELSE 2,
                                !.anyp = g.anyp \/ ~g.avail]
      ELSE g)
  ELSE IF e.op = "release" THEN (IF g.held[e.s] # 0 THEN [g EXCEPT !.held[e.s] = 0] ELSE g)
  ELSE IF e.op = "nexus" THEN [g EXCEPT !.avail = (e.v = 1)]
  ELSE IF e.op = "tick" THEN (IF g.avail /\ g.anyp THEN [g EXCEPT !.anyp = FALSE] ELSE g)
  ELSE g

\* n = [part, held (seq), flag (seq of BOOLEAN), nalloc, exp (seq: -1 nothing held, 0 no expiry, k minutes ahead, rounded up)]
HNode(cfg, g, n, e) ==
       (IF \E s \in HSubs(cfg) : n.held[s] # g.held[s] THEN {"HybNoCollision"} ELSE {})
  \cup (IF \E s, t \in HSubs(cfg) : s # t /\ n.held[s] # 0 /\ n.held[s] = n.held[t] THEN {"HybNoCollision"} ELSE {})
  \cup (IF n.nalloc # HHolding(cfg, g) THEN {"HybStats"} ELSE {})
  \cup (IF cfg.kind = "hyb" THEN
             (IF n.part # g.anyp THEN {IF e.op = "tick" THEN "HybReconcile" ELSE "HybPartitionActive"} ELSE {})
        \cup (IF \E s \in HSubs(cfg) : g.held[s] # 0 /\ n.held[s] # 0 /\ g.pf[s] \in {0, 1} /\ n.flag[s] # (g.pf[s] = 1) THEN {"HybPartitionFlag"} ELSE {})
        ELSE LET L == IF cfg.L = 0 THEN 5 ELSE cfg.L
             IN IF \E s \in HSubs(cfg) : g.held[s] # 0 /\ n.held[s] # 0 /\ n.exp[s] \notin 1..L THEN {"WifiShortLease"} ELSE {})

(******************************** kind mon *********************************)
\* cfg = [kind, W, C, X, SL (per cent), sle (BOOLEAN), np, nh]
\* e = [op (upd | set | poll), s (pool), v (utilization, per cent), dt (addresses available), alerts (seq of [h, p, lvl, u])]
\* ghost: lvl[p] level last shown (0 before any report), u[p] utilization last reported (-1 none), av[p], prov[p] = <<u, av>> what the provider says (<<>> nothing)
MPools(cfg) == 1..cfg.np
MG0(cfg) == [lvl |-> [p \in MPools(cfg) |-> 0], u |-> [p \in MPools(cfg) |-> -1], av |-> [p \in MPools(cfg) |-> 1], prov |-> [p \in MPools(cfg) |-> <<>>]]
MBands(cfg, u) == (IF u < cfg.W THEN {0} ELSE {}) \cup (IF u >= cfg.W /\ u <= cfg.C THEN {1} ELSE {})
             \cup (IF u >= cfg.C /\ u <= cfg.X THEN {2} ELSE {}) \cup (IF u >= cfg.X THEN {3} ELSE {})
\* the pools a step reports: <<p, u, av>>
MReports(cfg, g, e) == IF e.op = "upd" THEN {<<e.s, e.v, e.dt>>}
                       ELSE IF e.op = "poll" THEN {<<p, g.prov[p][1], g.prov[p][2]>> : p \in {q \in MPools(cfg) : g.prov[q] # <<>>}}
                       ELSE {}
MAlertsOf(e, p) == {i \in 1..Len(e.alerts) : e.alerts[i].p = p}

\* the alerts of a step are judged against the level the pool shows afterwards (obs), the level against the bands
MEdgeObs(cfg, g, e, obs) ==
  UNION { LET p == r[1]  new == obs.lvl[p]  old == g.lvl[p]  idx == MAlertsOf(e, p)
          IN IF new > old /\ new > 0 THEN
                  (IF \/ Cardinality(idx) # cfg.nh
                      \/ {e.alerts[i].h : i \in idx} # 1..cfg.nh
                      \/ \E i \in idx : e.alerts[i].lvl # new \/ e.alerts[i].u # r[2]
                     THEN {"MonAlertOnCrossing"} ELSE {})
             ELSE IF new = old THEN (IF idx # {} THEN {"MonAlertOnce"} ELSE {})
             ELSE {}
        : r \in MReports(cfg, g, e)}
  \cup (IF e.op \in {"upd", "poll", "set"} /\ \E i \in 1..Len(e.alerts) : \A r \in MReports(cfg, g, e) : r[1] # e.alerts[i].p THEN {"MonAlertOnce"} ELSE {})

MStep(cfg, g, e, obs) ==
  IF e.op = "set" THEN [g EXCEPT !.prov[e.s] = <<e.v, e.dt>>]
  ELSE LET R == MReports(cfg, g, e)
           rep(p) == CHOOSE r \in R : r[1] = p
           hit(p) == \E r \in R : r[1] = p
       IN [g EXCEPT !.lvl = [p \in MPools(cfg) |-> IF hit(p) /\ obs.lvl[p] \in 0..3 THEN obs.lvl[p] ELSE g.lvl[p]],
                    !.u   = [p \in MPools(cfg) |-> IF hit(p) THEN rep(p)[2] ELSE g.u[p]],
                    !.av  = [p \in MPools(cfg) |-> IF hit(p) THEN rep(p)[3] ELSE g.av[p]]]

\* n = [lvl (seq, -1 no status), util (seq, per cent, -1), short (seq), atw, atc (seq of pools, ascending), exh]
MNode(cfg, g, n, e) ==
  UNION {   (IF g.u[p] = -1 THEN (IF n.lvl[p] # -1 THEN {"MonLevel"} ELSE {})
             ELSE (IF n.lvl[p] \notin MBands(cfg, g.u[p]) THEN {"MonLevel"} ELSE {})
             \cup (IF g.av[p] = 0 /\ n.lvl[p] # 3 THEN {"MonExhaustedNoIPs"} ELSE {}))
       \cup (IF n.util[p] # (IF g.u[p] = -1 THEN 0 ELSE g.u[p]) THEN {"MonUtil"} ELSE {})
       \cup (IF g.u[p] # -1 /\ g.u[p] # cfg.SL /\ n.short[p] # (cfg.sle /\ g.u[p] > cfg.SL) THEN {"MonShortLease"} ELSE {})
       \cup (IF g.u[p] = -1 /\ n.short[p] THEN {"MonShortLease"} ELSE {})
     : p \in MPools(cfg)}
  \cup (IF \/ ARange(n.atw) # {p \in MPools(cfg) : n.lvl[p] >= 1} \/ Len(n.atw) # Cardinality(ARange(n.atw))
           \/ ARange(n.atc) # {p \in MPools(cfg) : n.lvl[p] >= 2} \/ Len(n.atc) # Cardinality(ARange(n.atc))
           \/ n.exh # (\E p \in MPools(cfg) : n.lvl[p] = 3)
          THEN {"MonLists"} ELSE {})

(******************************** kind rad *********************************)
\* cfg = [kind, ns, T (TTL, minutes), B (buffer size), nrec, nses, deny (BOOLEAN)]
\* e = [op (cache | get | auth | purge | purgeexp | adv | buf | sync | setauth | queue | proc), s, v, dt, x (what the RADIUS server does during
\*      the pass: ok | fail | fail1 | cancel1 | reject1), ok, err, n, n2, id, sent (seq of [id, r]), skip]
\* ghost: age[s] (-1 none, minutes, saturating at T), pend (set of [id, att]), deliv (set of ids), hasauth,
\*        st = [da, rc, rf, ab, as, ad], ses (seq over session index of [s, need, att]), rq (bag: seq of session indices)
RSubs(cfg) == 1..cfg.ns
RG0(cfg) == [age |-> [s \in RSubs(cfg) |-> -1], pend |-> {}, deliv |-> {}, hasauth |-> cfg.auth0,
             st |-> [da |-> 0, rc |-> 0, rf |-> 0, ab |-> 0, as |-> 0, ad |-> 0], ses |-> <<>>, rq |-> {}, rqdup |-> FALSE]
RValid(cfg, g, s) == g.age[s] >= 0 /\ g.age[s] < cfg.T
RExpired(cfg, g, s) == g.age[s] >= cfg.T
RIds(P) == {r.id : r \in P}
ROks(sent) == {sent[i].id : i \in {j \in 1..Len(sent) : sent[j].r = "ok"}}
RBad(sent) == {sent[i].id : i \in {j \in 1..Len(sent) : sent[j].r # "ok"}}
RCancelled(sent) == \E i \in 1..Len(sent) : sent[i].r = "cancel"
RAtt(P, id) == (CHOOSE r \in P : r.id = id).att

\* what is buffered after a pass that sent `sent` (by the comments): records not tried as they were, failed ones with one more attempt unless that is the third
RPendAfter(g, sent) ==
  LET tried == {sent[i].id : i \in 1..Len(sent)}
  IN {r \in g.pend : r.id \notin tried}
     \cup {[id |-> r.id, att |-> r.att + 1] : r \in {q \in g.pend : q.id \in RBad(sent) /\ q.att + 1 < 3}}
RDropped(g, sent) == {r \in g.pend : r.id \in RBad(sent) /\ r.att + 1 >= 3}

\* re-authentication: sent = seq of [id (session index), r (ok | fail | cancel | reject)]
RQAfter(g, sent) ==
  LET tried == {sent[i].id : i \in 1..Len(sent)}
      err   == {sent[i].id : i \in {j \in 1..Len(sent) : sent[j].r \in {"fail", "cancel"}}}
  IN (g.rq \ tried) \cup {k \in err : g.ses[k].att + 1 < 3}

REdge(cfg, g, e) ==
  IF e.skip THEN {}
  ELSE IF e.op = "get" THEN (IF e.ok # RValid(cfg, g, e.s) THEN {"RadCacheValid"} ELSE {})
  ELSE IF e.op = "auth" THEN
       (IF e.ok /\ ~RValid(cfg, g, e.s) THEN {"RadNoAuthAfterExpiry"} ELSE {})
  \cup (IF e.ok /\ cfg.deny THEN {"RadModeDeny"} ELSE {})
  \cup (IF ~e.ok /\ RValid(cfg, g, e.s) /\ ~cfg.deny THEN {"RadDegradedAuth"} ELSE {})
  \cup (IF ~e.ok /\ ~RValid(cfg, g, e.s) /\ e.err # (IF g.age[e.s] = -1 THEN "nocache" ELSE "expired") THEN {"RadAuthError"} ELSE {})
  ELSE IF e.op = "purgeexp" THEN (IF e.n # Cardinality({s \in RSubs(cfg) : RExpired(cfg, g, s)}) THEN {"RadPurgeExpired"} ELSE {})
  ELSE IF e.op = "buf" THEN (IF e.ok # (Cardinality(g.pend) < cfg.B) \/ (~e.ok /\ e.err # "full") THEN {"RadBufferCap"} ELSE {})
  ELSE IF e.op = "sync" THEN
       LET ids == [i \in 1..Len(e.sent) |-> e.sent[i].id]
       IN   (IF \/ \E i \in 1..Len(ids) : ids[i] \notin RIds(g.pend)
                \/ Cardinality(ARange(ids)) # Len(ids) THEN {"RadSyncOnce"} ELSE {})
       \cup (IF g.hasauth /\ (  (~RCancelled(e.sent) /\ ARange(ids) # RIds(g.pend))
                             \/ (RCancelled(e.sent) /\ e.sent[Len(e.sent)].r # "cancel")) THEN {"RadSyncAll"} ELSE {})
       \cup (IF e.n # Cardinality(ROks(e.sent)) THEN {"RadSyncCount"} ELSE {})
  ELSE IF e.op = "proc" /\ g.hasauth THEN
       LET ids == [i \in 1..Len(e.sent) |-> e.sent[i].id]
           nok == Cardinality({i \in 1..Len(e.sent) : e.sent[i].r = "ok"})
       IN  (IF e.n # nok \/ e.n2 # Len(e.sent) - nok THEN {"RadReauthCount"} ELSE {})
  ELSE {}

\* the statistics after a pass, by the comments
RStatsAfter(g, e) ==
  LET nok == Cardinality({i \in 1..Len(e.sent) : e.sent[i].r = "ok"})
  IN IF e.op = "sync" THEN [g.st EXCEPT !.as = @ + Cardinality(ROks(e.sent)), !.ad = @ + Cardinality(RDropped(g, e.sent))]
     ELSE [g.st EXCEPT !.rc = @ + nok, !.rf = @ + Len(e.sent) - nok]
\* a cancelled pass: judged by RadStatsCancel alone; the ghost goes on from what Stats shows
RStatsStep(g, e, obs) == IF RCancelled(e.sent) THEN obs.stats ELSE RStatsAfter(g, e)

RStep(cfg, g, e, obs) ==
  IF e.skip THEN g
  ELSE IF e.op = "cache" THEN [g EXCEPT !.age[e.s] = 0]
  ELSE IF e.op = "purge" THEN [g EXCEPT !.age[e.s] = -1]
  ELSE IF e.op = "purgeexp" THEN [g EXCEPT !.age = [s \in RSubs(cfg) |-> IF RExpired(cfg, g, s) THEN -1 ELSE g.age[s]]]
  ELSE IF e.op = "adv" THEN [g EXCEPT !.age = [s \in RSubs(cfg) |-> IF g.age[s] = -1 THEN -1 ELSE AMin2(g.age[s] + e.dt, cfg.T)]]
  ELSE IF e.op = "auth" THEN
       (IF e.ok THEN [g EXCEPT !.st.da = @ + 1, !.ses = Append(@, [s |-> e.s, need |-> TRUE, att |-> 0])] ELSE g)
  ELSE IF e.op = "buf" THEN
       (IF Cardinality(g.pend) < cfg.B THEN [g EXCEPT !.pend = @ \cup {[id |-> e.id, att |-> 0]}, !.st.ab = @ + 1]
        ELSE [g EXCEPT !.st.ad = @ + 1])
  ELSE IF e.op = "setauth" THEN [g EXCEPT !.hasauth = (e.v = 1)]
  ELSE IF e.op = "sync" THEN
       (IF ~g.hasauth THEN g
        ELSE [g EXCEPT !.pend = RPendAfter(g, e.sent), !.deliv = @ \cup ROks(e.sent), !.st = RStatsStep(g, e, obs)])
  ELSE IF e.op = "queue" THEN [g EXCEPT !.rq = @ \cup {e.id}, !.rqdup = @ \/ e.id \in g.rq]
  ELSE IF e.op = "proc" THEN
       (IF ~g.hasauth THEN [g EXCEPT !.rq = {}, !.rqdup = FALSE]
        ELSE LET nok == Cardinality({i \in 1..Len(e.sent) : e.sent[i].r = "ok"})
             IN [g EXCEPT !.rq = RQAfter(g, e.sent), !.rqdup = FALSE, !.st = RStatsStep(g, e, obs),
                          !.ses = [k \in 1..Len(g.ses) |->
                                     IF \E i \in 1..Len(e.sent) : e.sent[i].id = k /\ e.sent[i].r = "ok" THEN [g.ses[k] EXCEPT !.need = FALSE]
                                     ELSE IF \E i \in 1..Len(e.sent) : e.sent[i].id = k /\ e.sent[i].r \in {"fail", "cancel"} THEN [g.ses[k] EXCEPT !.att = @ + 1]
                                     ELSE g.ses[k]]])
  ELSE g

\* n = [cached (seq of BOOLEAN), ccount, pend (seq of [id, att]), pcount, stats, deg (seq over s: sessions listed as needing re-auth),
\*      rq (seq of session indices), rqlen]
RNode(cfg, g0, g, n, e) ==
  LET P == ARange(n.pend)
  IN   (IF \E s \in RSubs(cfg) : n.cached[s] # RValid(cfg, g, s) THEN {"RadCacheValid"} ELSE {})
  \cup (IF e.op = "purgeexp" /\ n.ccount # Cardinality({s \in RSubs(cfg) : g.age[s] # -1}) THEN {"RadPurgeExpired"} ELSE {})
  \cup (IF \E r \in g.pend : r.id \notin RIds(P) THEN {IF e.op = "sync" /\ ~g.hasauth THEN "RadKeptWithoutAuth" ELSE "RadNoLoss"} ELSE {})
  \cup (IF \/ \E r \in P : r.id \notin RIds(g.pend) \/ (r.id \in RIds(g.pend) /\ r.att # RAtt(g.pend, r.id))
           \/ Cardinality(RIds(P)) # Len(n.pend) \/ n.pcount # Len(n.pend) THEN {"RadPending"} ELSE {})
  \cup (IF n.stats # g.st THEN {"RadStats"} ELSE {})
  \cup (IF e.op \in {"sync", "proc"} /\ g.hasauth /\ RCancelled(e.sent) /\ n.stats # RStatsAfter(g0, e) THEN {"RadStatsCancel"} ELSE {})
  \cup (IF \E s \in RSubs(cfg) : n.deg[s] # Cardinality({k \in 1..Len(g.ses) : g.ses[k].s = s /\ g.ses[k].need})
          THEN {IF e.op = "proc" THEN "RadReauthDone" ELSE "RadDegradedAuth"} ELSE {})
  \cup (IF ~g.rqdup /\ (ARange(n.rq) # g.rq \/ Len(n.rq) # Cardinality(g.rq) \/ n.rqlen # Len(n.rq)) THEN {"RadRequeue"} ELSE {})

(******************************* dispatch **********************************)
G0(cfg) == IF cfg.kind \in {"hyb", "wifi"} THEN HG0(cfg) ELSE IF cfg.kind = "mon" THEN MG0(cfg) ELSE RG0(cfg)
EdgeClauses(cfg, g, e) == IF cfg.kind \in {"hyb", "wifi"} THEN HEdge(cfg, g, e) ELSE IF cfg.kind = "mon" THEN {} ELSE REdge(cfg, g, e)
Step(cfg, g, e, obs) == IF cfg.kind \in {"hyb", "wifi"} THEN HStep(cfg, g, e, obs) ELSE IF cfg.kind = "mon" THEN MStep(cfg, g, e, obs) ELSE RStep(cfg, g, e, obs)
\* g0 = ghost before the step (the monitor's alert clauses compare the level before and after), g = ghost after it
NodeClauses(cfg, g0, g, n, e) ==
  IF cfg.kind \in {"hyb", "wifi"} THEN HNode(cfg, g, n, e)
  ELSE IF cfg.kind = "mon" THEN MNode(cfg, g, n, e) \cup (IF e.op = "init" THEN {} ELSE MEdgeObs(cfg, g0, e, n))
  ELSE RNode(cfg, g0, g, n, e)
=============================================================================
