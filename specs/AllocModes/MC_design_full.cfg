SPECIFICATION Spec
CONSTANTS MaxSteps = 6  NREC = 2  BB = 2  SLen = 2
INVARIANTS Once Conserve Capacity Counted
VIEW View
CHECK_DEADLOCK FALSE
