SPECIFICATION Spec
CONSTANTS Delay = 2  Grace = 1  MaxT = 4  MaxCbs = 2  MaxEvs = 2  Mode = "both"
INVARIANTS Agree CountsAgree GhostRole
VIEW View
CHECK_DEADLOCK FALSE
