---------------------------- MODULE FailoverShape ----------------------------
(***************************************************************************)
(* Implementation-shaped design spec of pkg/ha/failover.go +                *)
(* health_monitor.go: one action per critical section of the code.          *)
(*                                                                         *)
(*   Probe(ok)      HealthMonitor.performCheck -> recordFailure/Success ->   *)
(*                  FailoverController.handleHealthEvent (thresholds 1/1)    *)
(*   Adv            one quantum of time: the 1 s evaluateState tick, then    *)
(*                  the timers that become due                               *)
(*   fire           a due timer starts its goroutine; with Gated the         *)
(*                  goroutine is held before it takes the lock (the window   *)
(*                  the verif gate opens at the top of executeFailover /     *)
(*                  executeFailback) and Run(k) lets it proceed              *)
(*   ExecFo/ExecFb  bodies of executeFailover / executeFailback (grace 0)    *)
(*   ForceFailover / ForceFailback / SetCb                                   *)
(*                                                                         *)
(* Fixed = FALSE is the design as found at the pinned commit; Fixed = TRUE   *)
(* is the design after the two repairs made in /repo (failover timer         *)
(* generations; ForceFailover completes the transition it starts).          *)
(*                                                                         *)
(* The spec carries the contract's ghost (Failover.tla) and judges each of  *)
(* its own steps with EdgeClauses/NodeClauses, exactly as FailoverImpl does *)
(* with the steps of the real code.  Every violating state is printed as    *)
(*   <<"DESIGN-CEX", json([clauses, events])>>                              *)
(* where events is the history in the harness' alphabet; lib/fam_failover   *)
(* replays the shortest history per clause on the real controller.          *)
(***************************************************************************)
EXTENDS Failover, Json

CONSTANTS Delay, FbDelay, Gated, Fixed, MaxLen

Cfg == [impl |-> "shape", orig |-> "standby", delay |-> Delay, fbdelay |-> FbDelay, grace |-> 0, failback |-> TRUE,
        failth |-> 1, recth |-> 1, gated |-> Gated, nsubs |-> 0]

VARIABLES s, g, hist, bad
vars == <<s, g, hist, bad>>

S0 == [st |-> "normal", role |-> "standby", healthy |-> TRUE,
       foT |-> None, foTGen |-> 0, fbT |-> None, foGen |-> 0,
       parked |-> <<>>, cbok |-> TRUE]

R(x, cbs, evs) == [s |-> x, cbs |-> cbs, evs |-> evs]
Cb(what, ok, off) == [what |-> what, ok |-> ok, off |-> off]
Ev(what, off)     == [what |-> what, ok |-> TRUE, off |-> off]

\* ---- executeFailover / executeFailback (grace period 0) ------------------------------------
ExecFo(r, gen, off) ==
  LET x == r.s IN
  IF Fixed /\ gen # 0 /\ gen # x.foGen THEN r                      \* repaired: a stale timer does nothing
  ELSE IF x.st \notin {"pending", "in_progress"} THEN r
  ELSE IF x.cbok
       THEN R([x EXCEPT !.role = "active", !.st = "complete"], Append(r.cbs, Cb("active", TRUE, off)),
              r.evs \o <<Ev("completed", off), Ev("role_changed", off)>>)
       ELSE R([x EXCEPT !.st = "normal"], Append(r.cbs, Cb("active", FALSE, off)), r.evs)

ExecFb(r, off) ==
  LET x == r.s IN
  IF x.st # "failback_pending" THEN r
  ELSE IF ~x.healthy THEN R([x EXCEPT !.st = "complete"], r.cbs, r.evs)
  ELSE IF x.cbok
       THEN R([x EXCEPT !.role = "standby", !.st = "normal"], Append(r.cbs, Cb("standby", TRUE, off)),
              r.evs \o <<Ev("failback_completed", off), Ev("role_changed", off)>>)
       ELSE R([x EXCEPT !.st = "complete"], Append(r.cbs, Cb("standby", FALSE, off)), r.evs)

\* ---- handleHealthEvent ----------------------------------------------------------------------
OnDown(x) ==
  IF x.role = "standby" /\ x.st = "normal"
    THEN [x EXCEPT !.st = "pending", !.foT = Delay, !.foGen = x.foGen + 1, !.foTGen = x.foGen + 1]
    ELSE x

OnUp(r) ==
  LET x == r.s IN
  IF x.st = "pending"
    THEN R([x EXCEPT !.st = "normal", !.foT = None, !.foGen = IF Fixed THEN x.foGen + 1 ELSE x.foGen],
           r.cbs, Append(r.evs, Ev("canceled", 0)))
  ELSE IF x.st = "complete"
    THEN R([x EXCEPT !.st = "failback_pending", !.fbT = FbDelay], r.cbs, r.evs)
  ELSE r

\* ---- one quantum of time --------------------------------------------------------------------
Tick(x) == IF x.st = "failback_pending" /\ ~x.healthy THEN [x EXCEPT !.st = "complete", !.fbT = None] ELSE x

Dec(t) == IF t = None THEN None ELSE t - 1

\* timers due at the same instant: failback first (the harness keeps held goroutines in this canonical order too)
FireFb(r) ==
  LET x == r.s IN
  IF x.fbT # 0 THEN r
  ELSE LET y == [x EXCEPT !.fbT = None] IN
       IF Gated THEN R([y EXCEPT !.parked = Append(y.parked, [k |-> "fb", gen |-> 0])], r.cbs, r.evs)
       ELSE ExecFb(R(y, r.cbs, r.evs), 1)

FireFo(r) ==
  LET x == r.s IN
  IF x.foT # 0 THEN r
  ELSE LET y == [x EXCEPT !.foT = None] IN
       IF Gated THEN R([y EXCEPT !.parked = Append(y.parked, [k |-> "fo", gen |-> x.foTGen])], r.cbs, r.evs)
       ELSE ExecFo(R(y, r.cbs, r.evs), x.foTGen, 1)

AdvOne(x) ==
  LET a == Tick(x)
      b == [a EXCEPT !.foT = Dec(a.foT), !.fbT = Dec(a.fbT)]
  IN FireFo(FireFb(R(b, <<>>, <<>>)))

\* ---- the step relation, in the harness' alphabet -------------------------------------------
HEv(op, ok, q) == [op |-> op, ok |-> ok, q |-> q]
Edge(hev, acc, dt, health, r) ==
  [op |-> hev.op, ok |-> hev.ok, q |-> hev.q, acc |-> acc, dt |-> dt, hev |-> health, role |-> r.s.role,
   healthy |-> r.s.healthy, cbs |-> r.cbs, evs |-> r.evs]

Stuck(x) == /\ x.st = "in_progress"
            /\ x.foT = None
            /\ ~\E i \in 1..Len(x.parked) : x.parked[i].k = "fo" /\ (~Fixed \/ x.parked[i].gen = x.foGen)
NodeOfS(x) == [state |-> x.st, settle |-> IF Stuck(x) THEN "in_progress" ELSE "left"]

Take(hev, e, r) ==
  LET g2 == Step(Cfg, g, e, <<>>) IN
  /\ s' = r.s
  /\ g' = g2
  /\ hist' = Append(hist, hev)
  /\ bad' = EdgeClauses(Cfg, g, e) \cup NodeClauses(Cfg, g2, NodeOfS(r.s), hev.op)

Probe(ok) ==
  LET r0 == R(s, <<>>, <<>>)
      down == ~ok /\ s.healthy
      up   == ok /\ ~s.healthy
      r == IF down THEN R(OnDown([s EXCEPT !.healthy = FALSE]), <<>>, <<>>)
           ELSE IF up THEN OnUp(R([s EXCEPT !.healthy = TRUE], <<>>, <<>>))
           ELSE r0
      hev == HEv("probe", ok, 0)
  IN Take(hev, Edge(hev, TRUE, 0, IF down THEN "down" ELSE IF up THEN "up" ELSE "none", r), r)

Adv ==
  LET r == AdvOne(s)
      hev == HEv("adv", TRUE, 1)
  IN Take(hev, Edge(hev, TRUE, 1, "none", r), r)

ForceFailover ==
  LET hev == HEv("force_failover", TRUE, 0) IN
  IF s.role = "active"
    THEN Take(hev, Edge(hev, FALSE, 0, "none", R(s, <<>>, <<>>)), R(s, <<>>, <<>>))
    ELSE LET r1 == R([s EXCEPT !.st = "in_progress"], <<>>, <<Ev("initiated", 0)>>)
             r  == IF Fixed THEN ExecFo(r1, 0, 0) ELSE r1      \* repaired: completes what it started
         IN Take(hev, Edge(hev, TRUE, 0, "none", r), r)

ForceFailback ==
  LET hev == HEv("force_failback", TRUE, 0)
      acc == s.role # "standby"
      r == R(s, <<>>, IF acc THEN <<Ev("failback_initiated", 0)>> ELSE <<>>)
  IN Take(hev, Edge(hev, acc, 0, "none", r), r)

SetCb(ok) ==
  LET hev == HEv("cb", ok, 0)
      r == R([s EXCEPT !.cbok = ok], <<>>, <<>>)
  IN /\ s.cbok # ok
     /\ Take(hev, Edge(hev, TRUE, 0, "none", r), r)

RemoveAt(q, i) == SubSeq(q, 1, i - 1) \o SubSeq(q, i + 1, Len(q))

Run(k) ==   \* k = 0: the goroutine held longest, k = 1: the one held most recently
  LET n == Len(s.parked)
      i == IF k = 0 THEN 1 ELSE n
      p == s.parked[i]
      x == [s EXCEPT !.parked = RemoveAt(s.parked, i)]
      r == IF p.k = "fo" THEN ExecFo(R(x, <<>>, <<>>), p.gen, 0) ELSE ExecFb(R(x, <<>>, <<>>), 0)
      hev == HEv("run", TRUE, k)
  IN /\ Gated /\ n > 0 /\ (k = 0 \/ n > 1)
     /\ Take(hev, Edge(hev, TRUE, 0, "none", r), r)

Init == s = S0 /\ g = G0(Cfg) /\ hist = <<>> /\ bad = {}

Next == /\ bad = {}
        /\ Len(hist) < MaxLen
        /\ \/ \E ok \in BOOLEAN : Probe(ok)
           \/ Adv
           \/ ForceFailover
           \/ ForceFailback
           \/ \E ok \in BOOLEAN : SetCb(ok)
           \/ \E k \in 0..1 : Run(k)

Spec == Init /\ [][Next]_vars

\* the harness never holds more than two goroutines (it lets the oldest go when a third arrives)
Bound == Len(s.parked) <= 2

Report == bad = {} \/ PrintT(<<"DESIGN-CEX", ToJson([clauses |-> bad, events |-> hist])>>)
Clean  == bad = {}

View == <<s, g, bad>>
=============================================================================
