SPECIFICATION Spec
CONSTANTS Delay = 2  FbDelay = 2  Gated = TRUE  Fixed = FALSE  MaxLen = 9
INVARIANTS Report
CONSTRAINT Bound
VIEW View
CHECK_DEADLOCK FALSE
