SPECIFICATION Spec
CONSTANTS Delay = 2  FbDelay = 2  Gated = TRUE  Fixed = TRUE  MaxLen = 12
INVARIANTS Clean
CONSTRAINT Bound
VIEW View
CHECK_DEADLOCK FALSE
