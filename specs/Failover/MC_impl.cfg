SPECIFICATION Spec
CONSTANT Watch = {"PromoteOnlyAfterDelay", "RecoveryCancels", "RoleAfterCallback", "OneCompletedPerPromotion", "FailbackOnlyHealthy", "NoStuckInProgress"}
INVARIANTS Report RoleTracks
VIEW View
CHECK_DEADLOCK FALSE
