SPECIFICATION Spec
CONSTANTS Delay = 2  Grace = 1  MaxT = 3  MaxCbs = 1  MaxEvs = 1  Mode = "promotion"
INVARIANTS Agree CountsAgree GhostRole
VIEW View
CHECK_DEADLOCK FALSE
