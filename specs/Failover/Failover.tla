------------------------------ MODULE Failover ------------------------------
(***************************************************************************)
(* Contract of the HA failover controller (property C14).  The contract    *)
(* talks about what an outside observer can see of one controller: the     *)
(* health events its monitor reported, the passage of time, the operator    *)
(* commands and whether they were accepted, the role-change callbacks that  *)
(* were invoked and what they answered, the failover events emitted, and    *)
(* the role the node reports.  It is silent about the controller's internal *)
(* state names (except "in_progress" in the last clause), about timers, and *)
(* about everything the operator forced.                                    *)
(*                                                                         *)
(* clause                   sentence of the property                        *)
(* -----------------------  ---------------------------------------------  *)
(* PromoteOnlyAfterDelay    "a standby becomes active only if the partner   *)
(*                          was reported down continuously for the          *)
(*                          configured failover delay"                      *)
(* RecoveryCancels          "a recovery before that cancels the promotion"  *)
(*                          (a promotion although the last health report    *)
(*                          was a recovery)                                 *)
(* RoleAfterCallback        "the node's reported role changes only after    *)
(*                          the role-change callback succeeded"             *)
(* OneCompletedPerPromotion "each promotion emits exactly one completed     *)
(*                          event"                                          *)
(* FailbackOnlyHealthy      "failback happens only while the partner is     *)
(*                          healthy" (healthy when the failback execution   *)
(*                          starts, i.e. at most one grace period before    *)
(*                          the role changes; DESIGN.md section 6)          *)
(* NoStuckInProgress        "the controller never remains in an in-progress *)
(*                          state with no transition pending"               *)
(*                                                                         *)
(* Weakest readings: a promotion is exempt from the first two clauses from  *)
(* the moment the operator's force-failover command was accepted until the  *)
(* role changes or the callback refuses the promotion; "reported down       *)
(* continuously" counts from the EARLIEST down report not followed by a     *)
(* recovery; a promotion is justified by a down period of at least the      *)
(* failover delay that is still going on or ended at most one grace period  *)
(* ago (the promotion was decided when the delay elapsed and takes effect    *)
(* after the grace period; a recovery AFTER the delay is not "a recovery     *)
(* before that"); within one observed step the most lenient instant is used. *)
(***************************************************************************)
EXTENDS Integers, FiniteSets, Sequences, TLC

None == -1

\* cfg = [orig, delay, fbdelay, grace, ...]   (all durations in one unit: ms in bundles, quanta in the design specs)
\* ghost g = [role, downFor, sinceQual, recovered, forced, unhFor]
\*   downFor   None, or for how long the partner has been reported down (saturates at cfg.delay)
\*   sinceQual None, or how long ago a down period of >= cfg.delay ended (forgotten after cfg.grace)
\*   recovered the last health report was a recovery
\*   forced    an accepted force-failover is outstanding
\*   unhFor    None, or for how long the monitor has called the partner unhealthy (saturates at grace+1)
G0(cfg) == [role |-> cfg.orig, downFor |-> None, sinceQual |-> None, recovered |-> FALSE, forced |-> FALSE, unhFor |-> None]

Min2(a, b) == IF a < b THEN a ELSE b
SetMax(S) == CHOOSE x \in S : \A y \in S : y <= x
SetMin(S) == CHOOSE x \in S : \A y \in S : x <= y

\* e = [op, ok, q, acc, dt, hev, role, healthy, cbs, evs]
\*   cbs  role-change callbacks invoked during the step: <<[what (requested role), ok, off]>>
\*   evs  failover events emitted during the step:        <<[what (type), ok, off]>>
\*   off  offset from the start of the step, dt = length of the step
CbIdx(e, r, ok) == {i \in 1..Len(e.cbs) : e.cbs[i].what = r /\ e.cbs[i].ok = ok}
NCompleted(e)   == Cardinality({i \in 1..Len(e.evs) : e.evs[i].what = "completed"})

Promoted(g, e)        == g.role = "standby" /\ e.role = "active"
FailedBack(cfg, g, e) == g.role # cfg.orig /\ e.role = cfg.orig
ForcedNow(g, e)       == g.forced \/ (e.op = "force_failover" /\ e.acc)

\* a step in which callbacks for both roles succeeded may hide a promotion that was undone within the
\* step (only the role before and after the step is observed): the number of promotions is then only
\* known to lie between the net change and the number of successful "active" callbacks
FlipFlop(e) == CbIdx(e, "active", TRUE) # {} /\ CbIdx(e, "standby", TRUE) # {}

\* latest instant at which the promotion can have happened / earliest instant of the failback
PromOff(e) == IF CbIdx(e, "active", TRUE) # {} THEN SetMax({e.cbs[i].off : i \in CbIdx(e, "active", TRUE)}) ELSE e.dt
PromOffEarly(e) == IF CbIdx(e, "active", TRUE) # {} THEN SetMin({e.cbs[i].off : i \in CbIdx(e, "active", TRUE)}) ELSE 0
BackOff(cfg, e) == IF CbIdx(e, cfg.orig, TRUE) # {} THEN SetMin({e.cbs[i].off : i \in CbIdx(e, cfg.orig, TRUE)}) ELSE 0

\* how long the partner had been reported down when the step began (a down report of this very step counts)
DownAtStart(g, e) == IF g.downFor = None /\ e.hev = "down" THEN 0 ELSE g.downFor

\* the promotion of step e is justified by a sufficiently long down period
DownLongEnough(cfg, g, e) == DownAtStart(g, e) # None /\ DownAtStart(g, e) + PromOff(e) >= cfg.delay
JustEnded(cfg, g, e) ==
     \/ g.sinceQual # None /\ g.sinceQual + PromOffEarly(e) <= cfg.grace
     \/ e.hev = "up" /\ g.downFor # None /\ g.downFor >= cfg.delay

EdgeClauses(cfg, g, e) ==
       (IF Promoted(g, e) /\ ~ForcedNow(g, e) /\ ~DownLongEnough(cfg, g, e) /\ ~JustEnded(cfg, g, e)
          THEN {IF DownAtStart(g, e) = None /\ g.recovered THEN "RecoveryCancels" ELSE "PromoteOnlyAfterDelay"}
          ELSE {})
  \cup (IF e.role # g.role /\ CbIdx(e, e.role, TRUE) = {} THEN {"RoleAfterCallback"} ELSE {})
  \cup (IF FlipFlop(e)
          THEN (IF NCompleted(e) < (IF Promoted(g, e) THEN 1 ELSE 0) \/ NCompleted(e) > Cardinality(CbIdx(e, "active", TRUE))
                  THEN {"OneCompletedPerPromotion"} ELSE {})
          ELSE (IF NCompleted(e) # (IF Promoted(g, e) THEN 1 ELSE 0) THEN {"OneCompletedPerPromotion"} ELSE {}))
  \cup (IF FailedBack(cfg, g, e) /\ g.unhFor # None /\ ~e.healthy /\ g.unhFor + BackOff(cfg, e) > cfg.grace
          THEN {"FailbackOnlyHealthy"} ELSE {})

\* ghost after step e (obs = the observation made after it; unused, the edge carries role and health)
Step(cfg, g, e, obs) ==
  LET d0 == IF g.downFor = None THEN None ELSE Min2(g.downFor + e.dt, cfg.delay)
      u0 == IF g.unhFor = None THEN None ELSE Min2(g.unhFor + e.dt, cfg.grace + 1)
      q0 == IF g.sinceQual = None \/ g.sinceQual + e.dt > cfg.grace THEN None ELSE g.sinceQual + e.dt
  IN [role      |-> e.role,
      sinceQual |-> IF e.hev = "up" /\ d0 # None /\ d0 >= cfg.delay THEN 0 ELSE q0,
      downFor   |-> IF e.hev = "down" THEN (IF d0 = None THEN 0 ELSE d0) ELSE IF e.hev = "up" THEN None ELSE d0,
      recovered |-> IF e.hev = "up" THEN TRUE ELSE IF e.hev = "down" THEN FALSE ELSE g.recovered,
      forced    |-> IF e.role # g.role \/ CbIdx(e, "active", FALSE) # {} THEN FALSE ELSE ForcedNow(g, e),
      unhFor    |-> IF e.healthy THEN None ELSE IF u0 = None THEN 0 ELSE u0]

\* n = [role, state, healthy, settle, ...]; settle = the controller's state after a long stretch of time
\* without any input (probe on a dedicated replay; "" when not probed)
NodeClauses(cfg, g, n, lastop) ==
  IF n.state = "in_progress" /\ n.settle = "in_progress" THEN {"NoStuckInProgress"} ELSE {}
=============================================================================
