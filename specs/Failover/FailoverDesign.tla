--------------------------- MODULE FailoverDesign ---------------------------
(***************************************************************************)
(* U1: the contract (Failover.tla) is itself model-checked.  The contract   *)
(* judges one observed step at a time with a small, saturating, relative-   *)
(* time ghost.  Here an arbitrary environment produces EVERY possible step  *)
(* (any callbacks, any events, any role answer, accepted or not by the      *)
(* contract) and the verdict of the contract is compared, step by step,     *)
(* with the property stated directly over absolute time:                    *)
(*                                                                         *)
(*   promotion at instant T, not forced, is legitimate iff the partner was   *)
(*   reported down without interruption during some [a,b] with b-a >= Delay  *)
(*   and T-Grace <= b <= T;                                                  *)
(*   failback at instant T is legitimate iff the monitor called the partner  *)
(*   healthy at some moment of [T-Grace, T].                                 *)
(*                                                                         *)
(* Invariant Agree: the contract flags a step iff the direct statement      *)
(* does (so the contract is neither weaker nor stronger than the sentence). *)
(* Invariant CountsAgree: as long as nothing was flagged, the number of      *)
(* completed events equals the number of promotions.                        *)
(***************************************************************************)
EXTENDS Failover

CONSTANTS Delay, Grace, MaxT,
          MaxCbs, MaxEvs,  \* how many callbacks / completed events one step may carry (1 or 2)
          Mode             \* "promotion": the health flag never changes; "failback": no health reports; "both"

Cfg == [orig |-> "standby", delay |-> Delay, fbdelay |-> 1, grace |-> Grace]
Roles == {"standby", "active"}

VARIABLES g,          \* the contract's ghost
          role,       \* reported role
          now,        \* absolute time
          downSince,  \* absolute time of the earliest down report not followed by a recovery (None)
          qualEnd,    \* absolute time at which the latest down period of length >= Delay ended (None)
          unhSince,   \* absolute time since which the monitor calls the partner unhealthy (None)
          forcedD,    \* an accepted force-failover is outstanding
          nProm, nComp, flagged, \* totals, and whether any step was flagged so far
          last        \* [contract, direct] verdicts of the last step

vars == <<g, role, now, downSince, qualEnd, unhSince, forcedD, nProm, nComp, flagged, last>>

CbRec(dt) == [what : Roles, ok : BOOLEAN, off : {0, dt}]
Cbs(dt)   == {<<>>} \cup {<<a>> : a \in CbRec(dt)}
             \cup (IF MaxCbs >= 2 THEN {<<a, b>> : a \in CbRec(dt), b \in CbRec(dt)} ELSE {})
Done      == [what |-> "completed", ok |-> TRUE, off |-> 0]
Evs       == {<<>>, <<Done>>} \cup (IF MaxEvs >= 2 THEN {<<Done, Done>>} ELSE {})

Edge(op, dt, hev, acc, r, h, cbs, evs) ==
  [op |-> op, ok |-> TRUE, q |-> dt, acc |-> acc, dt |-> dt, hev |-> hev, role |-> r, healthy |-> h, cbs |-> cbs, evs |-> evs]

Healthy == unhSince = None

Hevs == IF Mode = "failback" THEN {"none"} ELSE {"down", "up", "none"}

\* constant-level edge universe; AllowedNow filters the health answers that are possible in the current state
Edges ==
       UNION {{Edge("adv", dt, "none", TRUE, r, h, c, v) : r \in Roles, h \in BOOLEAN, c \in Cbs(dt), v \in Evs} : dt \in 1..2}
  \cup {Edge("probe", 0, hev, TRUE, r, h, c, v) : hev \in Hevs, r \in Roles, h \in BOOLEAN, c \in Cbs(0), v \in Evs}
  \cup {Edge("force_failover", 0, "none", a, r, h, c, v) : a \in BOOLEAN, r \in Roles, h \in BOOLEAN, c \in Cbs(0), v \in Evs}

AllowedNow(e) == IF e.op = "probe" /\ Mode # "promotion" THEN TRUE ELSE e.healthy = Healthy

\* ---- the property, stated directly over absolute time --------------------------------------
OkInstants(e, r) == IF CbIdx(e, r, TRUE) # {} THEN {now + e.cbs[i].off : i \in CbIdx(e, r, TRUE)} ELSE now..(now + e.dt)

DownSinceNow(e) == IF downSince = None /\ e.hev = "down" THEN now ELSE downSince
QualEndNow(e)   == IF e.hev = "up" /\ downSince # None /\ now - downSince >= Delay THEN now ELSE qualEnd

PromotionLegit(e) ==
  \E T \in OkInstants(e, "active") :
     \/ DownSinceNow(e) # None /\ T - DownSinceNow(e) >= Delay
     \/ QualEndNow(e) # None /\ T - QualEndNow(e) <= Grace /\ T >= QualEndNow(e)
     \/ qualEnd # None /\ T - qualEnd <= Grace

FailbackLegit(e) ==
  \E T \in OkInstants(e, Cfg.orig) :
     \/ unhSince = None
     \/ e.healthy
     \/ T - unhSince <= Grace

Direct(e) ==
       (IF role = "standby" /\ e.role = "active" /\ ~(forcedD \/ (e.op = "force_failover" /\ e.acc)) /\ ~PromotionLegit(e)
          THEN {"Promotion"} ELSE {})
  \cup (IF role # Cfg.orig /\ e.role = Cfg.orig /\ ~FailbackLegit(e) THEN {"FailbackOnlyHealthy"} ELSE {})

Rename(S) == {IF c \in {"PromoteOnlyAfterDelay", "RecoveryCancels"} THEN "Promotion" ELSE c : c \in S}
TimeClauses == {"Promotion", "FailbackOnlyHealthy"}

Init == /\ g = G0(Cfg) /\ role = Cfg.orig /\ now = 0 /\ downSince = None /\ qualEnd = None /\ unhSince = None
        /\ forcedD = FALSE /\ nProm = 0 /\ nComp = 0 /\ flagged = FALSE
        /\ last = [contract |-> {}, direct |-> {}]

Next == /\ now < MaxT
        /\ \E e \in Edges :
             LET cl == EdgeClauses(Cfg, g, e) IN
             /\ AllowedNow(e)
             /\ last' = [contract |-> Rename(cl) \cap TimeClauses, direct |-> Direct(e)]
             /\ g' = Step(Cfg, g, e, <<>>)
             /\ role' = e.role
             /\ now' = now + e.dt
             /\ downSince' = IF e.hev = "up" THEN None ELSE DownSinceNow(e)
             /\ qualEnd' = QualEndNow(e)
             /\ unhSince' = IF e.healthy THEN None ELSE IF unhSince = None THEN now ELSE unhSince
             /\ forcedD' = IF e.role # role \/ CbIdx(e, "active", FALSE) # {} THEN FALSE ELSE (forcedD \/ (e.op = "force_failover" /\ e.acc))
             /\ nProm' = IF nProm < 3 /\ role = "standby" /\ e.role = "active" THEN nProm + 1 ELSE nProm
             /\ nComp' = IF nComp < 3 THEN nComp + NCompleted(e) ELSE nComp
             /\ flagged' = (flagged \/ cl # {} \/ FlipFlop(e))   \* after a flip-flop step the number of promotions is unknown

Spec == Init /\ [][Next]_vars

Agree == last.contract = last.direct
CountsAgree == ~flagged /\ nProm < 3 /\ nComp < 3 => nProm = nComp
GhostRole == g.role = role

\* absolute times are only compared through differences; states that differ by a time shift behave alike,
\* but keeping "now" keeps the model simple and MaxT keeps it finite.
View == vars
=============================================================================
