---- MODULE @MODULE@ ----
(* Generated from one execution of bpf/qos_ratelimit.c (natively compiled) under a policy set *)
(* through the real qos.Manager.  Judged by Apalache against the window inequalities of       *)
(* TokenBucket.tla (Scale = 8e9: Rate is in bits per second, time in nanoseconds).            *)
EXTENDS Integers, Sequences
VARIABLE
  \* @type: Int;
  x
\* e = ns since the first arrival, cum = bytes admitted up to and including this event
\* @type: Seq({e: Int, size: Int, adm: Bool, cum: Int});
Trace == @TRACE@
Rate == @RATE@
Burst == @BURST@
MaxPkt == @MAXPKT@
Backlogged == @BACKLOGGED@
Scale == 8000000000
\* windows start at these events: all of them for short traces, a few anchors for long ones
Anchors == @ANCHORS@

Upper == Rate = 0 \/ \A i \in Anchors : \A j \in DOMAIN Trace :
   (i <= j /\ Trace[i].adm /\ Trace[j].adm) =>
      Scale * ((Trace[j].cum - Trace[i].cum + Trace[i].size) - Burst) <= Rate * (Trace[j].e - Trace[i].e)
\* the lower bound is claimed for Burst >= 2*MaxPkt only (TokenBucket.tla: below that the exact reference
\* bucket itself wastes accrual without bound when it is consulted only at arrivals)
Lower == (Rate = 0 \/ ~Backlogged \/ Burst < 2 * MaxPkt) \/ \A i \in Anchors : \A j \in DOMAIN Trace :
   (i <= j) => Scale * ((Trace[j].cum - Trace[i].cum) + Burst + MaxPkt) >= Rate * (Trace[j].e - Trace[i].e)
Unlimited == Rate # 0 \/ \A i \in DOMAIN Trace : Trace[i].adm
\* "never starves": a backlogged subscriber whose bucket holds at least one maximum-size packet gets something
\* admitted in every window in which two maximum-size packets' worth accrues (TokenBucket.tla, NoStarve)
NoStarve == (Rate = 0 \/ ~Backlogged \/ Burst < MaxPkt) \/ \A i \in Anchors : \A j \in DOMAIN Trace :
   (i <= j /\ Rate * (Trace[j].e - Trace[i].e) >= Scale * 2 * MaxPkt) => Trace[j].cum > Trace[i].cum
All == Upper /\ Lower /\ Unlimited /\ NoStarve
Init == x = 0
Next == x' = x
====
