SPECIFICATION SpecBacklogged
CONSTANTS Rate = 3  Scale = 2  Burst = 6  MaxPkt = 3  MaxGap = 3  MaxLen = 5
INVARIANTS Upper Lower
CHECK_DEADLOCK FALSE
