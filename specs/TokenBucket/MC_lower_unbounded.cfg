SPECIFICATION SpecBacklogged
CONSTANTS Rate = 3  Scale = 2  Burst = 8  MaxPkt = 4  MaxGap = 6  MaxLen = 0
INVARIANTS UpperP LowerP
VIEW PView
CHECK_DEADLOCK FALSE
