SPECIFICATION SpecBacklogged
CONSTANTS Rate = 3  Scale = 2  Burst = 3  MaxPkt = 3  MaxGap = 3  MaxLen = 6
INVARIANTS NoStarve
CHECK_DEADLOCK FALSE
