SPECIFICATION Spec
CONSTANTS Rate = 3  Scale = 2  Burst = 5  MaxPkt = 4  MaxGap = 6  MaxLen = 0
INVARIANTS UpperP
VIEW UView
CHECK_DEADLOCK FALSE
