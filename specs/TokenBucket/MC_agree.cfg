SPECIFICATION Spec
CONSTANTS Rate = 3  Scale = 2  Burst = 3  MaxPkt = 3  MaxGap = 4  MaxLen = 5
INVARIANTS Agree
CHECK_DEADLOCK FALSE
