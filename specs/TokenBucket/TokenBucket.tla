----------------------------- MODULE TokenBucket -----------------------------
(***************************************************************************)
(* Rate-limiter contract (property C19) and the reference bucket.           *)
(* Time t in integer time units, sizes and burst in bytes, Rate in bytes    *)
(* per time unit times Scale (admitted bytes accrue as Rate*dt/Scale), so   *)
(* that the contract is written without division:                           *)
(*                                                                         *)
(* Upper   "the bytes admitted for a subscriber in any time window never    *)
(*         exceed the configured burst plus rate times the window":         *)
(*         for all admitted events i <= j:                                  *)
(*           Scale * (admitted bytes of events i..j - Burst) <= Rate*(tj-ti) *)
(* Lower   "a subscriber that always has a packet waiting is admitted at    *)
(*         least rate times the window minus one burst and one maximum-size *)
(*         packet": for a backlogged trace, all events i <= j:              *)
(*           Scale * (admitted bytes of events i+1..j + Burst + MaxPkt)      *)
(*              >= Rate*(tj-ti)                                             *)
(* Unlimited "a rate of zero means unlimited": every packet is admitted     *)
(* NoStarve "never starves a subscriber": backlogged and Burst >= MaxPkt:   *)
(*         every window in which two maximum-size packets' worth accrues    *)
(*         contains an admission                                            *)
(* PolicyEnforced "the policy set through the control plane is the one      *)
(*         enforced": Rate is the rate handed to the control plane API, not *)
(*         what happens to be in the map                                    *)
(*                                                                         *)
(* A trace is "backlogged" when every offered packet is at least as large   *)
(* as the tokens accrued since the previous offer (offered load >= rate)    *)
(* and at most MaxPkt: the discrete counterpart of "always has a packet     *)
(* waiting" for a limiter that only runs when a packet arrives.  Lower is   *)
(* claimed only for Burst >= 2*MaxPkt: a limiter that is consulted only at  *)
(* arrivals wastes what accrues beyond the cap between two offers, and with *)
(* a smaller bucket even the exact reference bucket wastes without bound    *)
(* (MC_lower_tight.cfg is TLC's counterexample: Burst = MaxPkt).            *)
(*                                                                         *)
(* Model-checked here (TLC, small constants): the REFERENCE bucket - exact  *)
(* rational tokens kept as integer tok = tokens*Scale - satisfies Upper and *)
(* Lower on every arrival sequence.  Two formulations:                      *)
(*  - history: hist records the arrivals, Upper/Lower quantify over all     *)
(*    windows (bounded length MaxLen);                                      *)
(*  - potentials: lo = P(now) - min P over earlier arrivals with            *)
(*    P = Rate*t - Scale*(admitted so far), hi likewise for the upper bound; *)
(*    UpperP/LowerP bound them.  The state is finite without hist, so TLC   *)
(*    covers arrival sequences of EVERY length (MC_*_unbounded.cfg, VIEW    *)
(*    without now/hist); MC_agree.cfg checks that both formulations agree   *)
(*    on every bounded history.                                             *)
(* Real traces of bpf/qos_ratelimit.c are judged against the window         *)
(* inequalities by Apalache (64-bit values).                                *)
(***************************************************************************)
EXTENDS Integers, Sequences, TLC

CONSTANTS Rate, Scale, Burst, MaxPkt, MaxGap, MaxLen

VARIABLES tok, now, hist,  \* tok = tokens * Scale; hist = sequence of [t, size, adm]
          lo, hi, started, \* potentials (see above)
          dry              \* Rate * (time since the last admission, or since the first arrival)
vars == <<tok, now, hist, lo, hi, started, dry>>
PView == <<tok, lo, hi, started, dry>>

Init == tok = Burst * Scale /\ now = 0 /\ hist = <<>> /\ lo = 0 /\ hi = 0 /\ started = FALSE /\ dry = 0

Min(a, b) == IF a < b THEN a ELSE b
Max(a, b) == IF a > b THEN a ELSE b

\* a packet of `size` bytes arrives `gap` time units after the previous one
Arrive(gap, size) ==
  LET t2   == now + gap
      tok2 == Min(Burst * Scale, tok + Rate * gap)
      adm  == tok2 >= size * Scale
      g    == IF started THEN gap ELSE 0     \* windows begin at arrivals: time before the first one does not count
  IN /\ MaxLen = 0 \/ Len(hist) < MaxLen
     /\ now' = IF MaxLen = 0 THEN 0 ELSE t2
     /\ tok' = IF adm THEN tok2 - size * Scale ELSE tok2
     /\ hist' = IF MaxLen = 0 THEN hist ELSE Append(hist, [t |-> t2, size |-> size, adm |-> adm])
     /\ started' = TRUE
     /\ lo' = Max(0, lo + Rate * g - (IF adm THEN size * Scale ELSE 0))
     /\ hi' = IF adm THEN Max(hi + size * Scale - Rate * g, size * Scale) ELSE Max(0, hi - Rate * g)
     /\ dry' = IF adm THEN 0 ELSE Min(dry + Rate * g, Scale * 3 * MaxPkt)

\* offered load >= rate: the packet is at least as large as what accrued in the gap
Backlogged(gap, size) == size * Scale >= Rate * gap

Next == \E gap \in 0..MaxGap, size \in 1..MaxPkt : Arrive(gap, size)
NextBacklogged == \E gap \in 0..MaxGap, size \in 1..MaxPkt : Backlogged(gap, size) /\ Arrive(gap, size)

Spec == Init /\ [][Next]_vars
SpecBacklogged == Init /\ [][NextBacklogged]_vars

RECURSIVE Adm(_, _, _)
Adm(h, i, j) == IF i > j THEN 0 ELSE (IF h[i].adm THEN h[i].size ELSE 0) + Adm(h, i + 1, j)

Upper == \A i, j \in 1..Len(hist) : (i <= j /\ hist[i].adm /\ hist[j].adm) =>
            Scale * (Adm(hist, i, j) - Burst) <= Rate * (hist[j].t - hist[i].t)
Lower == \A i, j \in 1..Len(hist) : i <= j =>
            Scale * (Adm(hist, i + 1, j) + Burst + MaxPkt) >= Rate * (hist[j].t - hist[i].t)

\* "never starves" (Burst >= MaxPkt, backlogged): between two admissions less than two maximum-size packets' worth
\* accrues, so every window in which that much accrues contains an admission
NoStarveP == dry < Scale * 2 * MaxPkt
NoStarve == \A i, j \in 1..Len(hist) : (i <= j /\ Rate * (hist[j].t - hist[i].t) >= Scale * 2 * MaxPkt) => Adm(hist, i + 1, j) > 0
UpperP == hi <= Scale * Burst
LowerP == lo <= Scale * (Burst + MaxPkt)
\* both formulations agree on every history (checked with MaxLen > 0): the potentials speak about the windows
\* that end at the latest arrival
UpperNow == LET j == Len(hist) IN \A i \in 1..j : (hist[i].adm /\ hist[j].adm) =>
               Scale * (Adm(hist, i, j) - Burst) <= Rate * (hist[j].t - hist[i].t)
LowerNow == LET j == Len(hist) IN \A i \in 1..j :
               Scale * (Adm(hist, i + 1, j) + Burst + MaxPkt) >= Rate * (hist[j].t - hist[i].t)
Agree == hist # <<>> => /\ (hist[Len(hist)].adm => (UpperNow <=> UpperP))
                        /\ (LowerNow <=> LowerP)
UView == <<tok, hi, started>>
SView == <<tok, started, dry>>
=============================================================================
