SPECIFICATION SpecBacklogged
CONSTANTS Rate = 2  Scale = 7  Burst = 6  MaxPkt = 3  MaxGap = 12  MaxLen = 0
INVARIANTS UpperP LowerP
VIEW PView
CHECK_DEADLOCK FALSE
