SPECIFICATION Spec
CONSTANTS Rate = 3  Scale = 2  Burst = 4  MaxPkt = 3  MaxGap = 3  MaxLen = 5
INVARIANTS Upper
CHECK_DEADLOCK FALSE
