\* EXPECTED TO FAIL: with Burst < 2*MaxPkt the exact reference bucket itself wastes accrual without bound
SPECIFICATION SpecBacklogged
CONSTANTS Rate = 3  Scale = 2  Burst = 4  MaxPkt = 4  MaxGap = 6  MaxLen = 0
INVARIANTS LowerP
VIEW PView
CHECK_DEADLOCK FALSE
