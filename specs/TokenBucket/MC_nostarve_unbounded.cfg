SPECIFICATION SpecBacklogged
CONSTANTS Rate = 3  Scale = 2  Burst = 4  MaxPkt = 4  MaxGap = 6  MaxLen = 0
INVARIANTS NoStarveP
VIEW SView
CHECK_DEADLOCK FALSE
