SPECIFICATION Spec
CONSTANTS NSubs = 2  NKeys = 3  Unique = TRUE  InSet = {1}  SupSet = {2}  ReusableSet = {1}  Full = TRUE
INVARIANTS OneSubscriberPerKey HeldInRanges LookupsAreTheMap FreeKeysObtainable
PROPERTIES ReleaseIsLocal
VIEW View
CHECK_DEADLOCK FALSE
