------------------------------ MODULE KeyMaps ------------------------------
(***************************************************************************)
(* Contract of every map "subscriber-identifying key <-> subscriber" of the *)
(* gateway (property C20): QinQ (outer, inner) VLAN pairs, PPPoE session    *)
(* ids, relay circuit-id keys, and the secondary indexes (by IP, by MAC) of *)
(* the session / lease / allocation stores.                                 *)
(*                                                                         *)
(* Subscribers are 1..cfg.nsubs, keys 1..cfg.nkeys (the harness numbers the *)
(* key universe of each instance: pairs, ids, addresses; -2 is a value      *)
(* outside that universe, 0 is "none").  The ghost fwd[s] is the key the    *)
(* API has given subscriber s and not since taken back.  The contract is    *)
(* silent about WHICH free key an allocation returns.                       *)
(*                                                                         *)
(* cfg.unique = TRUE : the key is an identifier (VLAN pair, session id,     *)
(*                     circuit-id key): a partial bijection is required.    *)
(* cfg.unique = FALSE: the key is an attribute index that two live objects  *)
(*                     may share (GetSessionByMAC with two sessions of one  *)
(*                     CPE): the lookup by key must never return an object  *)
(*                     that is gone or has another key, must return some    *)
(*                     holder right after a holder was bound, and a release *)
(*                     must not change what any key leads to unless it led  *)
(*                     to the released object.  Which of several holders is *)
(*                     returned, and that an older holder is found again    *)
(*                     once the newer one is gone, is NOT required.         *)
(*                                                                         *)
(* clause              sentence of the property                             *)
(* ------------------  ------------------------------------------------    *)
(* Bijective           "each QinQ VLAN pair, each PPPoE session id and each *)
(*                     relay circuit-id key in use identifies at most one   *)
(*                     subscriber" (answers of the API and lookups)         *)
(* InRanges            "allocated VLAN pairs lie inside the configured      *)
(*                     ranges" (session ids: inside 1..65535); an outer tag *)
(*                     SUPPLIED by the caller and itself outside the range  *)
(*                     is not judged (DESIGN section 6)                     *)
(* LookupAgrees        "forward and reverse lookups agree (looking up a     *)
(*                     subscriber's key returns that subscriber and vice    *)
(*                     versa)": the key of s leads back to s (index: to an  *)
(*                     object having that key), a key that leads to s is    *)
(*                     the key of s, a key never leads to nothing, and the  *)
(*                     key looked up for s is the one the API gave it       *)
(* ReleaseLocal        "Releasing a key ... without disturbing any other    *)
(*                     mapping": the same consistency right after a         *)
(*                     release, for every subscriber but the released one   *)
(* ReuseAfterRelease   "Releasing a key makes it reusable": the released    *)
(*                     subscriber no longer holds it, and every key of the  *)
(*                     reusable universe that no subscriber holds can be    *)
(*                     obtained (probe: fresh subscribers take keys until   *)
(*                     refused)                                             *)
(*                                                                         *)
(* Unconstrained: whether a FAILED request keeps or drops the requesting     *)
(* subscriber's own key (the ghost follows the lookup); which of several    *)
(* stored records a bulk load keeps (the result must be a consistent map).  *)
(***************************************************************************)
EXTENDS Integers, FiniteSets, Sequences, TLC

None == 0
Subs(cfg) == 1..cfg.nsubs
Keys(cfg) == 1..cfg.nkeys
AsSet(q) == {q[i] : i \in 1..Len(q)}

\* ghost: fwd (table instances) and owner (circuit-id corpus instances: the set of pairs
\* <<key string, circuit-id number>> computed so far)
\* rev / prevrev: the reverse lookups observed after the last / the last but one step
G0(cfg) == [fwd |-> [s \in Subs(cfg) |-> None], owner |-> {},
            rev |-> [k \in Keys(cfg) |-> None], prevrev |-> [k \in Keys(cfg) |-> None]]

Held(g)          == {g.fwd[s] : s \in DOMAIN g.fwd} \ {None}
HeldByOthers(g, s) == {g.fwd[t] : t \in (DOMAIN g.fwd) \ {s}} \ {None}

\* cfg.inrange[k]: 0 = outside the configured ranges, 1 = inside, 2 = inside except for an outer
\* tag that is outside its range (acceptable only when the caller supplied that tag)
KeyOK(cfg, k, supplied) == k \in Keys(cfg) /\ (cfg.inrange[k] = 1 \/ (cfg.inrange[k] = 2 /\ supplied))

\* e = [op, sub, key, ok, sup]        op in bind / release / unbind / load / expire / noop
\* e = [op = "keys", subs, keys]      a batch of circuit-ids (numbers) and the keys computed for them
EdgeClauses(cfg, g, e) ==
  CASE e.op = "bind" ->
         (IF e.ok /\ cfg.unique /\ e.key \in HeldByOthers(g, e.sub) THEN {"Bijective"} ELSE {})
    \cup (IF e.ok /\ cfg.ranged /\ e.key # g.fwd[e.sub] /\ ~KeyOK(cfg, e.key, e.sup) THEN {"InRanges"} ELSE {})
    [] e.op = "keys" ->
         LET all == g.owner \cup {<<e.keys[i], e.subs[i]>> : i \in 1..Len(e.keys)} IN
         IF Cardinality({p[1] : p \in all}) < Cardinality(all) THEN {"Bijective"} ELSE {}
    [] OTHER -> {}

\* the ghost after step e; n = the observation made after it
Step1(cfg, g, e, n) ==
  CASE e.op = "bind" ->
         IF e.ok THEN [g EXCEPT !.fwd[e.sub] = e.key]
         ELSE IF n.fwd[e.sub] = None THEN [g EXCEPT !.fwd[e.sub] = None]   \* a refused request may drop the requester's own key
         ELSE g
    [] e.op = "release" -> [g EXCEPT !.fwd[e.sub] = None]
    [] e.op = "unbind"  -> [g EXCEPT !.fwd = [s \in DOMAIN g.fwd |-> IF g.fwd[s] = e.key THEN None ELSE g.fwd[s]]]
    [] e.op = "load"    -> [g EXCEPT !.fwd = [s \in DOMAIN g.fwd |-> IF s \in AsSet(e.subs) THEN n.fwd[s] ELSE g.fwd[s]]]
    [] e.op = "expire"  -> [g EXCEPT !.fwd = [s \in DOMAIN g.fwd |-> IF n.fwd[s] = None THEN None ELSE g.fwd[s]]]
    [] e.op = "keys"    -> [g EXCEPT !.owner = g.owner \cup {<<e.keys[i], e.subs[i]>> : i \in 1..Len(e.keys)}]
    [] OTHER -> g

Step(cfg, g, e, n) ==
  IF e.op = "keys" THEN Step1(cfg, g, e, n)
  ELSE [Step1(cfg, g, e, n) EXCEPT !.prevrev = g.rev, !.rev = n.rev]

\* n = [fwd (per subscriber: key, None, -2), rev (per key: subscriber, None, -1 = an entry that
\*      leads to no live object), probe (-1 = not probed)]
\* identifier maps: the lookups form a partial bijection, judged for the subscribers in W
Consistent(cfg, n, W) ==
  /\ \A s \in W : n.fwd[s] \in Keys(cfg) => n.rev[n.fwd[s]] = s
  /\ \A k \in Keys(cfg) :
        /\ n.rev[k] # -1
        /\ n.rev[k] \in W => n.fwd[n.rev[k]] = k

\* attribute indexes: no key leads to an object that is gone or has another key; the key just
\* bound leads to some holder; a release / expiry changes only what led to a removed object
IndexOK(cfg, g, n, last) ==
  /\ \A k \in Keys(cfg) : n.rev[k] # -1 /\ (n.rev[k] \in Subs(cfg) => n.fwd[n.rev[k]] = k)
  /\ (last.op = "bind" /\ last.ok /\ last.key \in Keys(cfg)) => n.rev[last.key] \in Subs(cfg)
  /\ last.op \in {"release", "expire"} =>
        \A k \in Keys(cfg) : (g.prevrev[k] \in Subs(cfg) /\ n.fwd[g.prevrev[k]] = k) => n.rev[k] = g.prevrev[k]

NodeClauses(cfg, g, n, last) ==
  IF Len(n.fwd) = 0 THEN {} ELSE      \* corpus instances observe nothing
  LET rel   == last.op \in {"release", "unbind", "expire"}
      W     == Subs(cfg) \ (IF last.op = "release" THEN {last.sub} ELSE {})
  IN
       (IF cfg.unique /\ \E a, b \in Subs(cfg) : a # b /\ n.fwd[a] # None /\ n.fwd[a] = n.fwd[b]
          THEN {"Bijective"} ELSE {})
  \cup (IF \/ (cfg.unique /\ ~Consistent(cfg, n, W))
           \/ (~cfg.unique /\ ~IndexOK(cfg, g, n, last))
           \/ \E s \in W : n.fwd[s] # g.fwd[s]
          THEN {IF rel THEN "ReleaseLocal" ELSE "LookupAgrees"} ELSE {})
  \cup (IF \/ (last.op = "release" /\ (n.fwd[last.sub] # None \/ \E k \in Keys(cfg) : n.rev[k] = last.sub))
           \/ (last.op = "unbind" /\ last.key \in Keys(cfg) /\ n.rev[last.key] # None)
           \/ (n.probe # -1 /\ n.probe # Cardinality(AsSet(cfg.reusable) \ Held(g)))
          THEN {"ReuseAfterRelease"} ELSE {})

\* ---- what the property ultimately says about the ghost (used by KeyMapsDesign) ----
Injective(f) == \A a, b \in DOMAIN f : a # b /\ f[a] # None => f[a] # f[b]
=============================================================================
