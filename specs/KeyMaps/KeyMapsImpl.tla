----------------------------- MODULE KeyMapsImpl -----------------------------
(***************************************************************************)
(* U2/U3: TLC model-checks the transition systems EXTRACTED FROM THE REAL   *)
(* key maps (bundle.json, written by harness/keymaps) against the KeyMaps   *)
(* contract.  A system is the breadth-first closure of one implementation   *)
(* object over a small alphabet (a graph: VLAN allocator, QinQ mapper,      *)
(* session manager, store indexes), one long random execution (a chain), or *)
(* the key computations of a corpus of circuit-ids (a chain of batches).    *)
(* The ghost g is what the API has given each subscriber.                   *)
(*                                                                         *)
(* Monitor style (as PoolImpl): a violated clause is recorded in viol, the  *)
(* violating state is printed as one JSON line and not explored further.    *)
(***************************************************************************)
EXTENDS KeyMaps, Json, SequencesExt

CONSTANT Watch        \* set of clause names this run is about

Bundle == JsonDeserialize("bundle.json")
Systems == Bundle.systems

VARIABLES sys, node, g, viol, path, lastop

vars == <<sys, node, g, viol, path, lastop>>

Cfg(i)   == Systems[i].cfg
NodeOf(i, n) == Systems[i].nodes[n]
EdgesOf(i, n) == Systems[i].edges[n]

Init == /\ sys \in 1..Len(Systems)
        /\ node = Systems[sys].init
        /\ g = G0(Cfg(sys))
        /\ lastop = "init"
        /\ viol = NodeClauses(Cfg(sys), g, NodeOf(sys, node), [op |-> "init"]) \cap Watch
        /\ path = <<>>

Next == /\ viol = {}
        /\ \E k \in 1..Len(EdgesOf(sys, node)) :
             LET ed == EdgesOf(sys, node)[k]
                 e  == ed.ev
                 g2 == Step(Cfg(sys), g, e, NodeOf(sys, ed.to))
             IN /\ node' = ed.to
                /\ g' = g2
                /\ lastop' = e.op
                /\ viol' = (EdgeClauses(Cfg(sys), g, e) \cup NodeClauses(Cfg(sys), g2, NodeOf(sys, ed.to), e)) \cap Watch
                /\ path' = Append(path, ed.id)
                /\ UNCHANGED sys

Spec == Init /\ [][Next]_vars

\* always TRUE; prints one line per distinct violating state
Report == viol = {} \/ PrintT(<<"VIOLATION", ToJson([system |-> Systems[sys].name, clauses |-> viol, path |-> path])>>)

\* the abstract safety property, on the ghost state reached through real transitions
Unique == (viol = {} /\ Cfg(sys).unique) => Injective(g.fwd)

View == <<sys, node, g, viol>>
=============================================================================
