SPECIFICATION Spec
CONSTANTS NSubs = 2  NKeys = 2  Unique = FALSE  InSet = {1, 2}  SupSet = {}  ReusableSet = {}  Full = TRUE
INVARIANTS NoStaleEntry
PROPERTIES ReleaseKeepsOthers
VIEW View
CHECK_DEADLOCK FALSE
