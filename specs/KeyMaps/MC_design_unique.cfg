SPECIFICATION Spec
CONSTANTS NSubs = 2  NKeys = 2  Unique = TRUE  InSet = {1}  SupSet = {2}  ReusableSet = {1}  Full = FALSE
INVARIANTS OneSubscriberPerKey HeldInRanges LookupsAreTheMap FreeKeysObtainable
PROPERTIES ReleaseIsLocal
VIEW View
CHECK_DEADLOCK FALSE
