---------------------------- MODULE KeyMapsDesign ----------------------------
(***************************************************************************)
(* U1 for C20: the contract really implies the property.  Next lets an      *)
(* arbitrary key map produce ANY answer and ANY lookups the contract        *)
(* accepts (no clause violated by the step or by the observation after it)  *)
(* for every operation of the alphabet; TLC checks that then, for every     *)
(* history,                                                                *)
(*   identifier maps (Unique = TRUE)                                        *)
(*     - no key is held by two subscribers (OneSubscriberPerKey),           *)
(*     - every held key is inside the ranges (HeldInRanges; a key whose     *)
(*       outer tag is outside only if the caller supplied that tag),        *)
(*     - forward and reverse lookups are inverse to each other and equal    *)
(*       what the API handed out (LookupsAreTheMap),                        *)
(*     - a release changes no other subscriber's key (ReleaseIsLocal) and   *)
(*       a probed state offers exactly the unheld reusable keys             *)
(*       (FreeKeysObtainable);                                              *)
(*   attribute indexes (Unique = FALSE)                                     *)
(*     - a key never leads to an object that is gone or has another key     *)
(*       (NoStaleEntry), and a release never redirects a key that led to    *)
(*       a surviving holder (ReleaseKeepsOthers).                           *)
(***************************************************************************)
EXTENDS KeyMaps, SequencesExt

CONSTANTS NSubs, NKeys, Unique,
          InSet,        \* keys inside the configured ranges
          SupSet,       \* keys whose outer tag is outside its range (acceptable when supplied by the caller)
          ReusableSet,  \* keys the probe may obtain
          Full          \* TRUE: lookups may also return a value outside the key universe / a dangling entry

InRangeSeq == [k \in 1..NKeys |-> IF k \in InSet THEN 1 ELSE IF k \in SupSet THEN 2 ELSE 0]
ReusableSeq == SetToSeq(ReusableSet)

Cfg == [nsubs |-> NSubs, nkeys |-> NKeys, unique |-> Unique, ranged |-> Unique, inrange |-> InRangeSeq, reusable |-> ReusableSeq]

VARIABLES g, n, last, sup   \* sup[s]: the key s holds was obtained with a caller-supplied outer tag

vars == <<g, n, last, sup>>

KeyVals == Keys(Cfg) \cup {-2}
ObsFR == [fwd : [Subs(Cfg) -> Keys(Cfg) \cup {None} \cup (IF Full THEN {-2} ELSE {})],
          rev : [Keys(Cfg) -> Subs(Cfg) \cup {None} \cup (IF Full THEN {-1} ELSE {})],
          probe : {-1}]
Probes == IF Unique THEN (-1)..Len(ReusableSeq) ELSE {-1}

Ev(op, s, k, ok, sp, ss) == [op |-> op, sub |-> s, key |-> k, ok |-> ok, sup |-> sp, subs |-> ss]

LoadSubs == {<<>>} \cup {<<s>> : s \in Subs(Cfg)} \cup {<<1, 2>>}

Events ==
       {Ev("bind", s, k, ok, sp, <<>>) : s \in Subs(Cfg), k \in KeyVals, ok \in BOOLEAN, sp \in BOOLEAN}
  \cup {Ev("release", s, None, TRUE, FALSE, <<>>) : s \in Subs(Cfg)}
  \cup {Ev("unbind", 0, k, TRUE, FALSE, <<>>) : k \in Keys(Cfg)}
  \cup {Ev("expire", 0, None, TRUE, FALSE, <<>>), Ev("noop", 0, None, TRUE, FALSE, <<>>)}
  \cup (IF Unique THEN {Ev("load", 0, None, TRUE, FALSE, ss) : ss \in LoadSubs} ELSE {})

Init == /\ g = G0(Cfg)
        /\ n = [fwd |-> [s \in Subs(Cfg) |-> None], rev |-> [k \in Keys(Cfg) |-> None], probe |-> -1]
        /\ last = Ev("noop", 0, None, TRUE, FALSE, <<>>)
        /\ sup = [s \in Subs(Cfg) |-> FALSE]

\* An observation is accepted without a probe result whenever it is accepted with one (the probe
\* disjunct is the only one that reads it), so the unprobed observation is tried first.
Next == \E e \in Events :
          /\ EdgeClauses(Cfg, g, e) = {}
          /\ \E o0 \in ObsFR :
               LET g2 == Step(Cfg, g, e, o0) IN
               /\ NodeClauses(Cfg, g2, o0, e) = {}
               /\ \E p \in Probes :
                    LET o == [o0 EXCEPT !.probe = p] IN
                    /\ NodeClauses(Cfg, g2, o, e) = {}
                    \* a bulk load hands out stored pairs: the harness loads in-range pairs only
                    /\ e.op = "load" => \A s \in AsSet(e.subs) : o.fwd[s] = None \/ KeyOK(Cfg, o.fwd[s], FALSE)
                    /\ g' = g2
                    /\ n' = o
                    /\ last' = e
                    /\ sup' = IF e.op = "bind" /\ e.ok /\ e.key # g.fwd[e.sub] THEN [sup EXCEPT ![e.sub] = e.sup]
                              ELSE IF e.op = "load" THEN [s \in Subs(Cfg) |-> IF s \in AsSet(e.subs) THEN FALSE ELSE sup[s]]
                              ELSE sup

Spec == Init /\ [][Next]_vars

\* ---- identifier maps ----
OneSubscriberPerKey == Unique => Injective(g.fwd)
HeldInRanges == Unique => \A s \in Subs(Cfg) : g.fwd[s] # None => KeyOK(Cfg, g.fwd[s], sup[s])
LookupsAreTheMap ==
  Unique => /\ \A s \in Subs(Cfg) : (last.op = "release" /\ last.sub = s) \/ n.fwd[s] = g.fwd[s]
            /\ \A k \in Keys(Cfg) : \A s \in Subs(Cfg) :
                 ~(last.op = "release" /\ last.sub = s) => (n.rev[k] = s <=> n.fwd[s] = k)
ReleaseIsLocal ==
  [][ \A t \in Subs(Cfg) : (last'.op = "release" /\ last'.sub # t) => g'.fwd[t] = g.fwd[t] ]_vars
FreeKeysObtainable ==
  (Unique /\ n.probe # -1) => n.probe = Cardinality(AsSet(ReusableSeq) \ Held(g))

\* ---- attribute indexes ----
NoStaleEntry ==
  ~Unique => \A k \in Keys(Cfg) : n.rev[k] # -1 /\ (n.rev[k] \in Subs(Cfg) => n.fwd[n.rev[k]] = k)
ReleaseKeepsOthers ==
  [][ (~Unique /\ last'.op \in {"release", "expire"}) =>
        \A k \in Keys(Cfg) : (n.rev[k] \in Subs(Cfg) /\ n'.fwd[n.rev[k]] = k) => n'.rev[k] = n.rev[k] ]_vars

View == <<g.fwd, (IF Unique THEN <<>> ELSE g.rev), n, last.op, (IF last.op = "release" THEN last.sub ELSE 0), sup>>
=============================================================================
