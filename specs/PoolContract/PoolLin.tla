------------------------------ MODULE PoolLin ------------------------------
(***************************************************************************)
(* C01 "... and under concurrent callers".  A concurrent history recorded   *)
(* on a real pool (calls of 3 goroutines, invocation/response positions     *)
(* from one atomic counter) is acceptable iff it has a LINEARIZATION the     *)
(* sequential PoolContract accepts: a total order of the calls that         *)
(* respects real time (a call that returned before another was invoked      *)
(* comes first), in which no call violates a contract clause, and after     *)
(* which the lookups observed at the end agree with the holdings.           *)
(* TLC searches the orders; a history for which the search never reaches    *)
(* "all calls placed" has no linearization and is reported.                 *)
(***************************************************************************)
EXTENDS PoolContract, Json, SequencesExt, TLCExt

Hs == JsonDeserialize("histories.json").histories

VARIABLES h, placed, g
vars == <<h, placed, g>>

Ops(i) == Hs[i].ops
Ids(i) == 1..Len(Ops(i))
AsEdge(o) == [op |-> o.op, sub |-> o.sub, arg |-> o.arg, ok |-> o.ok, unit |-> o.unit, err |-> o.err, fault |-> o.fault]

\* holdings before the concurrent phase (observed sequentially)
GPre(i) == [G0(Hs[i].cfg) EXCEPT !.held = [s \in Subs(Hs[i].cfg) |-> Hs[i].cfg.pre[s]]]

Init == /\ \A i \in 1..Len(Hs) : TLCSet(i, FALSE)
        /\ h \in 1..Len(Hs) /\ placed = {} /\ g = GPre(h)

CanPlace(i, k) == /\ k \notin placed
                  /\ \A m \in Ids(i) \ placed : m = k \/ ~(Ops(i)[m].ret < Ops(i)[k].inv)

Place(k) == /\ CanPlace(h, k)
            /\ EdgeClauses(Hs[h].cfg, g, AsEdge(Ops(h)[k])) \cap {"Unique", "InRange", "Idempotent"} = {}
            /\ g' = Step(Hs[h].cfg, g, AsEdge(Ops(h)[k]), g.held)
            /\ placed' = placed \cup {k}
            /\ UNCHANGED h

Next == \E k \in Ids(h) : Place(k)
Spec == Init /\ [][Next]_vars

Complete == placed = Ids(h) /\ \A s \in Subs(Hs[h].cfg) : Hs[h].final[s] = g.held[s]

\* a complete linearization was found: remember it (register = history index)
Mark == ~Complete \/ TLCSet(h, TRUE)

\* evaluated when the search is over: every history must have been completed
AllLinearizable ==
  \A i \in 1..Len(Hs) : TLCGet(i) = TRUE \/ PrintT(<<"VIOLATION", ToJson([system |-> Hs[i].name, clauses |-> {"Linearizable"}, path |-> <<>>])>>)
=============================================================================
