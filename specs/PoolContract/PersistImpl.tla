----------------------------- MODULE PersistImpl -----------------------------
(***************************************************************************)
(* C12 - allocations survive restart and replication unchanged.            *)
(* Walks tables extracted from the real allocator.DistributedAllocator     *)
(* running over a scripted store (store faults, restart from the store     *)
(* under every query order, changes announced by another node).  The       *)
(* observation of a node is <<lookup, store>>: what the allocator answers   *)
(* and what the store holds, per subscriber (unit index, -1 = nothing).    *)
(*                                                                         *)
(* clause           sentence of the property                                *)
(* ---------------  ----------------------------------------------------   *)
(* RestartSame      "each subscriber recorded in the store maps to the      *)
(*                  same address or prefix after restart as before"         *)
(* RestartUnique    "and no address is assigned to two subscribers"         *)
(* FailAgreement    "a store write failure leaves memory and store in       *)
(*                  agreement" (for the subscriber the failed call was for) *)
(* RemoteApplied    "a change announced by another node is applied with     *)
(*                  the address it announces" (unless that address is held  *)
(*                  locally by a different subscriber: the statement is     *)
(*                  silent about conflicts)                                 *)
(* ReloadSame       "serialising then restoring any allocator yields an     *)
(*                  allocator that answers every query identically"         *)
(*                  (lookups, statistics and the number of addresses still  *)
(*                  obtainable are the same after a marshal round trip)     *)
(***************************************************************************)
EXTENDS Integers, FiniteSets, Sequences, TLC, Json, SequencesExt

CONSTANT Watch

None == -1
Bundle == JsonDeserialize("bundle.json")
Systems == Bundle.systems

VARIABLES sys, node, viol, path, lastop
vars == <<sys, node, viol, path, lastop>>

Cfg(i) == Systems[i].cfg
NodeOf(i, n) == Systems[i].nodes[n]
EdgesOf(i, n) == Systems[i].edges[n]
Subs(i) == 1..Cfg(i).nsubs

Injective(f) == \A a, b \in DOMAIN f : a # b /\ f[a] # None => f[a] # f[b]

IsPersist(i) == "store" \in DOMAIN NodeOf(i, Systems[i].init)

Clauses(i, pre, e, post) ==
  LET s == e.sub IN
  CASE e.op = "restart" ->
         (IF \E t \in Subs(i) : post.store[t] # None /\ post.lookup[t] # post.store[t] THEN {"RestartSame"} ELSE {})
    \cup (IF ~Injective(post.lookup) THEN {"RestartUnique"} ELSE {})
  [] e.op \in {"allocf", "allocmf", "releasef", "renewf"} /\ IsPersist(i) ->
         (IF ~e.ok /\ post.lookup[s] # post.store[s] THEN {"FailAgreement"} ELSE {})
  [] e.op = "rput" /\ e.ok ->
         (IF (\A t \in Subs(i) \ {s} : pre.lookup[t] # e.arg) /\ post.lookup[s] # e.arg THEN {"RemoteApplied"} ELSE {})
    \cup (IF ~Injective(post.lookup) THEN {"RestartUnique"} ELSE {})
  [] e.op = "rdel" ->
         (IF post.lookup[s] # None THEN {"RemoteApplied"} ELSE {})
  [] e.op = "reload" ->
         (IF ~e.ok \/ post.lookup # pre.lookup \/ post.alloc # pre.alloc \/ post.total # pre.total
             \/ (pre.drain # -1 /\ post.drain # -1 /\ post.drain # pre.drain)
          THEN {"ReloadSame"} ELSE {})
  [] OTHER -> {}

Init == /\ sys \in 1..Len(Systems)
        /\ node = Systems[sys].init
        /\ lastop = "init"
        /\ viol = {}
        /\ path = <<>>

Next == /\ viol = {}
        /\ \E k \in 1..Len(EdgesOf(sys, node)) :
             LET ed == EdgesOf(sys, node)[k] IN
                /\ node' = ed.to
                /\ lastop' = ed.ev.op
                /\ viol' = Clauses(sys, NodeOf(sys, node), ed.ev, NodeOf(sys, ed.to)) \cap Watch
                /\ path' = Append(path, ed.id)
                /\ UNCHANGED sys

Spec == Init /\ [][Next]_vars

Report == viol = {} \/ PrintT(<<"VIOLATION", ToJson([system |-> Systems[sys].name, clauses |-> viol, path |-> path])>>)

View == <<sys, node, viol>>
=============================================================================
