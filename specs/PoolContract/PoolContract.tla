--------------------------- MODULE PoolContract ---------------------------
(***************************************************************************)
(* Contract of every address / prefix pool of the gateway (properties C01, *)
(* C05 and the reload clause of C12).  The contract talks about abstract   *)
(* units 0..N-1 of a pool (unit u = base + u * 2^(bits-alloc)) and about   *)
(* what the API has told each subscriber.  It is deliberately silent about *)
(* WHICH free unit an allocation returns.                                  *)
(*                                                                         *)
(* clause            sentence of the property                               *)
(* ----------------  --------------------------------------------------    *)
(* Unique            C01 "no address ... assigned to two different          *)
(*                   subscribers"                                           *)
(* InRange           C01 "every assigned value lies inside the pool's       *)
(*                   configured range"                                      *)
(* Idempotent        C01 "a subscriber that asks again while holding an     *)
(*                   assignment receives the same value"                    *)
(* LookupUnique      C01 (same sentence as Unique, on the lookup answers)   *)
(* FalseExhaustion   C05 "exhaustion is reported only when every usable     *)
(*                   address is held by a live subscriber"                  *)
(* ReleaseEffective  C05 "a release ... puts the address back"              *)
(* Retained          C05 "a lease that is renewed within its grace period   *)
(*                   is never reclaimed" / "held by exactly one live        *)
(*                   subscriber" (lookup answers = holdings)                *)
(* StatsTrue         C05 "reported allocated/total ... equal the true       *)
(*                   counts"                                                *)
(* Drain             C05 "every usable address is either held by exactly    *)
(*                   one live subscriber or can be obtained by a new        *)
(*                   subscriber" (incl. after expiry / failed persistence)  *)
(* ReloadSame        C12 "serialising then restoring ... answers every      *)
(*                   query identically" / "maps to the same address after   *)
(*                   restart"                                               *)
(***************************************************************************)
EXTENDS Integers, FiniteSets, Sequences, TLC

None == -1

\* cfg = [nsubs, usable (sequence of ints), mode, grace]
Subs(cfg)   == 1..cfg.nsubs
Usable(cfg) == {cfg.usable[i] : i \in 1..Len(cfg.usable)}
Lease(cfg)  == cfg.mode = "lease"

\* ghost state g = [held, stamp, stampHi : [Subs -> Int], epoch : Int]
G0(cfg) == [held  |-> [s \in Subs(cfg) |-> None],
            stamp |-> [s \in Subs(cfg) |-> 0],
            stampHi |-> [s \in Subs(cfg) |-> 0],
            epoch |-> 0]

HeldUnits(g)       == {g.held[s] : s \in DOMAIN g.held} \ {None}
HeldByOthers(g, s) == {g.held[t] : t \in (DOMAIN g.held) \ {s}} \ {None}

\* e = [op, sub, arg, ok, unit, err, fault]
\* the set of clause names violated by implementation step e taken in ghost state g
EdgeClauses(cfg, g, e) ==
  LET s == e.sub IN
  CASE e.op \in {"alloc", "allocf"} ->
         (IF e.ok /\ g.held[s] # None /\ e.unit # g.held[s] THEN {"Idempotent"} ELSE {})
    \cup (IF e.ok /\ g.held[s] = None /\ e.unit \in HeldUnits(g) THEN {"Unique"} ELSE {})
    \cup (IF e.ok /\ e.unit \notin Usable(cfg) THEN {"InRange"} ELSE {})
    \cup (IF ~e.ok /\ ~e.fault /\ g.held[s] # None THEN {"Idempotent"} ELSE {})
    \cup (IF ~e.ok /\ ~e.fault /\ g.held[s] = None /\ ~(Usable(cfg) \subseteq HeldUnits(g))
            THEN {"FalseExhaustion"} ELSE {})
  [] e.op = "release" ->
         (IF ~e.ok /\ ~e.fault /\ g.held[s] # None THEN {"ReleaseEffective"} ELSE {})
  [] e.op = "renew" ->
         (IF ~e.ok /\ ~e.fault /\ Lease(cfg) /\ g.held[s] # None THEN {"Retained"} ELSE {})
  [] e.op \in {"specific", "setalloc"} ->
         (IF e.ok /\ e.arg \in HeldByOthers(g, s) THEN {"Unique"} ELSE {})
    \cup (IF e.ok /\ e.arg \notin Usable(cfg) THEN {"InRange"} ELSE {})
    \cup (IF e.ok /\ e.op = "specific" /\ g.held[s] \notin {None, e.arg} THEN {"Idempotent"} ELSE {})
  [] OTHER -> {}

\* the ghost state after implementation step e; lk = the lookup answers observed after it.
\* A lease holding is certainly live while epoch - stamp <= grace, certainly lapsed once
\* epoch - stampHi > grace; stampHi > stamp only after a re-ask whose persistence failed (the
\* subscriber got an error, the pool may or may not have refreshed the lease): in between,
\* the ghost follows what the pool reports.
Step(cfg, g, e, lk) ==
  LET s == e.sub IN
  CASE e.op \in {"alloc", "allocf"} ->
         IF e.ok THEN [g EXCEPT !.held[s] = e.unit, !.stamp[s] = g.epoch, !.stampHi[s] = g.epoch]
         ELSE IF e.fault /\ g.held[s] # None THEN [g EXCEPT !.stampHi[s] = g.epoch]
         ELSE g
    [] e.op = "release" -> IF e.ok THEN [g EXCEPT !.held[s] = None] ELSE g
    [] e.op = "renew"   -> IF e.ok /\ g.held[s] # None THEN [g EXCEPT !.stamp[s] = g.epoch, !.stampHi[s] = g.epoch] ELSE g
    [] e.op = "advance" ->
         LET ep == g.epoch + 1 IN
         [g EXCEPT !.epoch = ep,
                   !.held  = [t \in DOMAIN g.held |->
                                IF ~Lease(cfg) \/ g.held[t] = None THEN g.held[t]
                                ELSE IF ep - g.stampHi[t] > cfg.grace THEN None
                                ELSE IF ep - g.stamp[t] <= cfg.grace THEN g.held[t]
                                ELSE IF lk[t] = None THEN None ELSE g.held[t]]]
    [] e.op \in {"specific", "setalloc"} ->
         IF e.ok THEN [g EXCEPT !.held[s] = e.arg, !.stamp[s] = g.epoch, !.stampHi[s] = g.epoch] ELSE g
    [] e.op = "relunit" ->
         IF e.ok THEN [g EXCEPT !.held = [t \in DOMAIN g.held |-> IF g.held[t] = e.arg THEN None ELSE g.held[t]]]
         ELSE g
    [] OTHER -> g   \* reload, lookups: no change of what subscribers hold

Injective(f) == \A a, b \in DOMAIN f : a # b /\ f[a] # None => f[a] # f[b]

\* the set of clause names violated by the observation n made in ghost state g
\* n = [lookup (sequence), alloc, total, drain]; negative stats = not reported by this pool
NodeClauses(cfg, g, n, lastop) ==
       (IF ~Injective(n.lookup) THEN {"LookupUnique"} ELSE {})
  \cup (IF \E s \in Subs(cfg) : n.lookup[s] # g.held[s]
          THEN {IF lastop = "reload" THEN "ReloadSame" ELSE "Retained"} ELSE {})
  \cup (IF n.alloc >= 0 /\ (n.alloc # Cardinality({s \in Subs(cfg) : g.held[s] # None})
                             \/ n.total # Cardinality(Usable(cfg)))
          THEN {"StatsTrue"} ELSE {})
  \cup (IF n.drain # -1 /\ n.drain # Cardinality(Usable(cfg) \ HeldUnits(g)) THEN {"Drain"} ELSE {})

\* state invariants of the abstract state (what the property ultimately says)
UniqueHoldings(g)  == Injective(g.held)
HoldingsInRange(cfg, g) == HeldUnits(g) \subseteq Usable(cfg)
=============================================================================
