--------------------------- MODULE PoolContract ---------------------------
(***************************************************************************)
(* Contract of every address / prefix pool of the gateway (properties C01, *)
(* C05 and the reload clause of C12).  The contract talks about abstract   *)
(* units 0..N-1 of a pool (unit u = base + u * 2^(bits-alloc)) and about   *)
(* what the API has told each subscriber.  It is deliberately silent about *)
(* WHICH free unit an allocation returns.                                  *)
(*                                                                         *)
(* clause            sentence of the property                               *)
(* ----------------  --------------------------------------------------    *)
(* Unique            C01 "no address ... assigned to two different          *)
(*                   subscribers"                                           *)
(* InRange           C01 "every assigned value lies inside the pool's       *)
(*                   configured range"                                      *)
(* Idempotent        C01 "a subscriber that asks again while holding an     *)
(*                   assignment receives the same value"                    *)
(* LookupUnique      C01 (same sentence as Unique, on the lookup answers)   *)
(* FalseExhaustion   C05 "exhaustion is reported only when every usable     *)
(*                   address is held by a live subscriber"                  *)
(* ReleaseEffective  C05 "a release ... puts the address back"              *)
(* Retained          C05 "a lease that is renewed within its grace period   *)
(*                   is never reclaimed" / "held by exactly one live        *)
(*                   subscriber" (lookup answers = holdings)                *)
(* StatsTrue         C05 "reported allocated/total ... equal the true       *)
(*                   counts"                                                *)
(* Drain             C05 "every usable address is either held by exactly    *)
(*                   one live subscriber or can be obtained by a new        *)
(*                   subscriber" (incl. after expiry / failed persistence)  *)
(* ReloadSame        C12 "serialising then restoring ... answers every      *)
(*                   query identically" / "maps to the same address after   *)
(*                   restart"                                               *)
(***************************************************************************)
EXTENDS Integers, FiniteSets, Sequences, TLC

None == -1

\* cfg = [nsubs, usable (sequence of ints), mode, grace]
Subs(cfg)   == 1..cfg.nsubs
Usable(cfg) == {cfg.usable[i] : i \in 1..Len(cfg.usable)}
Lease(cfg)  == cfg.mode = "lease"

\* ghost state g = [held, age, ageLo : [Subs -> Int]]: age = epochs since the holding was last
\* certainly stamped (allocated / renewed), ageLo = epochs since it was possibly stamped (a re-ask
\* or renew whose persistence failed may or may not have refreshed it); both capped at grace + 1,
\* so the ghost is finite whatever the number of epoch advances.
G0(cfg) == [held  |-> [s \in Subs(cfg) |-> None],
            age   |-> [s \in Subs(cfg) |-> 0],
            ageLo |-> [s \in Subs(cfg) |-> 0]]

\* allocation calls (alloc = Allocate, allocm = AllocateWithMAC; the f-variants run with the
\* persistence write failing)
AllocOps == {"alloc", "allocf", "allocm", "allocmf"}

HeldUnits(g)       == {g.held[s] : s \in DOMAIN g.held} \ {None}
HeldByOthers(g, s) == {g.held[t] : t \in (DOMAIN g.held) \ {s}} \ {None}

\* e = [op, sub, arg, ok, unit, err, fault]
\* the set of clause names violated by implementation step e taken in ghost state g
EdgeClauses(cfg, g, e) ==
  LET s == e.sub IN
  CASE e.op \in AllocOps ->
         (IF e.ok /\ g.held[s] # None /\ e.unit # g.held[s] THEN {"Idempotent"} ELSE {})
    \cup (IF e.ok /\ g.held[s] = None /\ e.unit \in HeldUnits(g) THEN {"Unique"} ELSE {})
    \cup (IF e.ok /\ e.unit \notin Usable(cfg) THEN {"InRange"} ELSE {})
    \cup (IF ~e.ok /\ ~e.fault /\ g.held[s] # None THEN {"Idempotent"} ELSE {})
    \cup (IF ~e.ok /\ ~e.fault /\ g.held[s] = None /\ ~(Usable(cfg) \subseteq HeldUnits(g))
            THEN {"FalseExhaustion"} ELSE {})
  [] e.op \in {"release", "releasef"} ->
         (IF ~e.ok /\ ~e.fault /\ g.held[s] # None THEN {"ReleaseEffective"} ELSE {})
  [] e.op \in {"renew", "renewf"} ->
         (IF ~e.ok /\ ~e.fault /\ Lease(cfg) /\ g.held[s] # None THEN {"Retained"} ELSE {})
  [] e.op \in {"specific", "setalloc"} ->
         (IF e.ok /\ e.arg \in HeldByOthers(g, s) THEN {"Unique"} ELSE {})
    \cup (IF e.ok /\ e.arg \notin Usable(cfg) THEN {"InRange"} ELSE {})
    \cup (IF e.ok /\ e.op = "specific" /\ g.held[s] \notin {None, e.arg} THEN {"Idempotent"} ELSE {})
  [] OTHER -> {}

\* the ghost state after implementation step e; lk = the lookup answers observed after it.
\* A lease holding is certainly live while age <= grace, certainly lapsed once ageLo > grace; in
\* between (only after a failed re-persist) the ghost follows what the pool reports.
Cap(cfg, n) == IF n > cfg.grace + 1 THEN cfg.grace + 1 ELSE n
Step(cfg, g, e, lk) ==
  LET s == e.sub IN
  CASE e.op \in AllocOps ->
         IF e.ok THEN [g EXCEPT !.held[s] = e.unit, !.age[s] = 0, !.ageLo[s] = 0]
         ELSE IF e.fault /\ g.held[s] # None THEN [g EXCEPT !.ageLo[s] = 0]
         ELSE g
    [] e.op \in {"release", "releasef"} -> IF e.ok THEN [g EXCEPT !.held[s] = None] ELSE g
    [] e.op \in {"renew", "renewf"} ->
         IF e.ok /\ g.held[s] # None THEN [g EXCEPT !.age[s] = 0, !.ageLo[s] = 0]
         ELSE IF e.fault /\ g.held[s] # None THEN [g EXCEPT !.ageLo[s] = 0]
         ELSE g
    [] e.op = "advance" ->
         LET a2(t)  == Cap(cfg, g.age[t] + 1)
             lo2(t) == Cap(cfg, g.ageLo[t] + 1)
             gone(t) == Lease(cfg) /\ g.held[t] # None /\
                          (lo2(t) > cfg.grace \/ (a2(t) > cfg.grace /\ lk[t] = None))
         IN [g EXCEPT !.held  = [t \in DOMAIN g.held |-> IF gone(t) THEN None ELSE g.held[t]],
                      !.age   = [t \in DOMAIN g.held |-> a2(t)],
                      !.ageLo = [t \in DOMAIN g.held |-> lo2(t)]]
    [] e.op \in {"specific", "setalloc"} ->
         IF e.ok THEN [g EXCEPT !.held[s] = e.arg, !.age[s] = 0, !.ageLo[s] = 0] ELSE g
    [] e.op = "relunit" ->
         IF e.ok THEN [g EXCEPT !.held = [t \in DOMAIN g.held |-> IF g.held[t] = e.arg THEN None ELSE g.held[t]]]
         ELSE g
    [] e.op = "rput" ->   \* another node announces s -> arg; not applicable when another subscriber holds arg here
         IF e.ok /\ e.arg \notin HeldByOthers(g, s)
         THEN [g EXCEPT !.held[s] = e.arg, !.age[s] = 0, !.ageLo[s] = 0] ELSE g
    [] e.op = "rdel" -> [g EXCEPT !.held[s] = None]
    [] e.op = "restart" ->   \* a restart reloads every stored lease as fresh
         [g EXCEPT !.age = [t \in DOMAIN g.held |-> 0], !.ageLo = [t \in DOMAIN g.held |-> 0]]
    [] OTHER -> g   \* reload, lookups: no change of what subscribers hold

Injective(f) == \A a, b \in DOMAIN f : a # b /\ f[a] # None => f[a] # f[b]

\* the set of clause names violated by the observation n made in ghost state g
\* n = [lookup (sequence), alloc, total, drain]; negative stats = not reported by this pool
NodeClauses(cfg, g, n, lastop) ==
       (IF ~Injective(n.lookup) THEN {"LookupUnique"} ELSE {})
  \cup (IF \E s \in Subs(cfg) : n.lookup[s] # g.held[s]
          THEN {IF lastop = "reload" THEN "ReloadSame" ELSE "Retained"} ELSE {})
  \cup (IF n.alloc >= 0 /\ (n.alloc # Cardinality({s \in Subs(cfg) : g.held[s] # None})
                             \/ n.total # Cardinality(Usable(cfg)))
          THEN {"StatsTrue"} ELSE {})
  \cup (IF n.drain # -1 /\ n.drain # Cardinality(Usable(cfg) \ HeldUnits(g)) THEN {"Drain"} ELSE {})
  \* the drain probe (fresh subscribers allocating until exhaustion) was handed one address twice
  \cup (IF n.drain = -2 THEN {"Unique"} ELSE {})

\* state invariants of the abstract state (what the property ultimately says)
UniqueHoldings(g)  == Injective(g.held)
HoldingsInRange(cfg, g) == HeldUnits(g) \subseteq Usable(cfg)
=============================================================================
