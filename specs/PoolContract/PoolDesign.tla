----------------------------- MODULE PoolDesign -----------------------------
(***************************************************************************)
(* U1: the contract really implies the property.  Next lets an arbitrary   *)
(* pool produce ANY answer the contract accepts (no clause violated); TLC   *)
(* checks that then no unit is ever held twice, every holding is usable,    *)
(* and a re-ask returns the same unit - for every history of the alphabet. *)
(***************************************************************************)
EXTENDS PoolContract, SequencesExt

CONSTANTS NSubs, NUnits, UsableSet, Mode, Grace

Cfg == [nsubs |-> NSubs, usable |-> SetToSeq(UsableSet), mode |-> Mode, grace |-> Grace]

VARIABLES g, last   \* last = the last accepted answer (for the action properties)

Ops == {"alloc", "release", "renew", "advance", "specific", "setalloc", "relunit", "reload"}

Answers == [op : Ops, sub : Subs(Cfg), arg : (-1)..(NUnits-1), ok : BOOLEAN, unit : (-2)..(NUnits-1),
            err : {""}, fault : {FALSE}]

Init == g = G0(Cfg) /\ last = [op |-> "reload", sub |-> 1, arg |-> -1, ok |-> TRUE, unit |-> -1, err |-> "", fault |-> FALSE]

Next == \E e \in Answers :
          /\ EdgeClauses(Cfg, g, e) = {}
          /\ (e.op \in {"alloc"} /\ ~e.ok => e.unit = -1)
          /\ g' = Step(Cfg, g, e, g.held)
          /\ last' = e

Spec == Init /\ [][Next]_<<g, last>>

Unique  == UniqueHoldings(g)
InRange == HoldingsInRange(Cfg, g)
\* a holder that asks again is told the same unit
Idem == [][ \A s \in Subs(Cfg) : (last'.op = "alloc" /\ last'.sub = s /\ last'.ok /\ g.held[s] # None)
                                   => last'.unit = g.held[s] ]_<<g, last>>
\* a renewed lease survives Grace further epochs
Kept == [][ \A s \in Subs(Cfg) : (Mode = "lease" /\ last'.op = "advance" /\ g.held[s] # None
                                    /\ g.age[s] + 1 <= Grace) => g'.held[s] = g.held[s] ]_<<g, last>>
View == g
=============================================================================
