------------------------------ MODULE PoolImpl ------------------------------
(***************************************************************************)
(* U2/U3: TLC model-checks the transition systems EXTRACTED FROM THE REAL   *)
(* pool implementations (bundle.json, written by harness/pools) against the *)
(* contract.  A system is either a breadth-first closure of an              *)
(* implementation over a small alphabet (a graph) or one long execution     *)
(* (a chain); both are walked the same way.  The ghost state g is what the  *)
(* contract says subscribers hold; every implementation answer and every    *)
(* observation is judged against it.                                        *)
(*                                                                         *)
(* Monitor style: a violated clause does not disable the step, it is        *)
(* recorded in viol; the violating state is reported (one JSON line via     *)
(* PrintT) and not explored further.  Only clauses in Watch are recorded, so *)
(* each property's check explores past the other properties' findings.      *)
(***************************************************************************)
EXTENDS PoolContract, Json, SequencesExt

CONSTANT Watch        \* set of clause names this run is about

Bundle == JsonDeserialize("bundle.json")
Systems == Bundle.systems

VARIABLES sys, node, g, viol, path, lastop

vars == <<sys, node, g, viol, path, lastop>>

Cfg(i)   == Systems[i].cfg
NodeOf(i, n) == Systems[i].nodes[n]
EdgesOf(i, n) == Systems[i].edges[n]

Init == /\ sys \in 1..Len(Systems)
        /\ node = Systems[sys].init
        /\ g = G0(Cfg(sys))
        /\ lastop = "init"
        /\ viol = NodeClauses(Cfg(sys), g, NodeOf(sys, node), "init") \cap Watch
        /\ path = <<>>

Next == /\ viol = {}
        /\ \E k \in 1..Len(EdgesOf(sys, node)) :
             LET ed == EdgesOf(sys, node)[k]
                 e  == ed.ev
                 g2 == Step(Cfg(sys), g, e, NodeOf(sys, ed.to).lookup)
             IN /\ node' = ed.to
                /\ g' = g2
                /\ lastop' = e.op
                /\ viol' = (EdgeClauses(Cfg(sys), g, e) \cup NodeClauses(Cfg(sys), g2, NodeOf(sys, ed.to), e.op)) \cap Watch
                /\ path' = Append(path, ed.id)
                /\ UNCHANGED sys

Spec == Init /\ [][Next]_vars

\* always TRUE; prints one line per distinct violating state
Report == viol = {} \/ PrintT(<<"VIOLATION", ToJson([system |-> Systems[sys].name, clauses |-> viol, path |-> path])>>)

\* the abstract safety properties, on the ghost state reached through real transitions
Unique  == viol = {} => UniqueHoldings(g)

View == <<sys, node, g, viol>>
=============================================================================
