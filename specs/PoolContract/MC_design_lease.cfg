SPECIFICATION Spec
CONSTANTS NSubs = 3  NUnits = 4  UsableSet = {1, 2}  Mode = "lease"  Grace = 1
INVARIANTS Unique InRange
PROPERTIES Idem Kept
VIEW View
CHECK_DEADLOCK FALSE
