SPECIFICATION Spec
CONSTANTS NSubs = 3  NUnits = 4  UsableSet = {1, 2, 3}  Mode = "session"  Grace = 0
INVARIANTS Unique InRange
PROPERTIES Idem
VIEW View
CHECK_DEADLOCK FALSE
