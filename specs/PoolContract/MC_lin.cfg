SPECIFICATION Spec
INVARIANTS Mark
POSTCONDITION AllLinearizable
CHECK_DEADLOCK FALSE
