SPECIFICATION Spec
CONSTANTS Subs = {1, 2, 3}  Units = {0, 1, 2}  ReplayByAllocate = FALSE  MaxFail = 2
INVARIANTS Unique StoreUnique RestartSame
CHECK_DEADLOCK FALSE
