SPECIFICATION Spec
CONSTANTS Subs = {1, 2, 3}  Units = {0, 1, 2}  ReplayByAllocate = TRUE  MaxFail = 1
INVARIANTS RestartSame
CHECK_DEADLOCK FALSE
