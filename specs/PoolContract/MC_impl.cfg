SPECIFICATION Spec
CONSTANT Watch = {"Unique", "InRange", "Idempotent", "LookupUnique", "FalseExhaustion", "ReleaseEffective", "Retained", "StatsTrue", "Drain", "ReloadSame"}
INVARIANTS Report
VIEW View
CHECK_DEADLOCK FALSE
