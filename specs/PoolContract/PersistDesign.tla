---------------------------- MODULE PersistDesign ----------------------------
(***************************************************************************)
(* Implementation-shaped model of allocator.DistributedAllocator           *)
(* (pkg/allocator/distributed.go) over a key-value store: one action per    *)
(* public call, each split at its store operation so that a failing store   *)
(* and a crash at any point are explored; restart replays the store in an   *)
(* arbitrary query order; remote changes arrive through the watch callback. *)
(*                                                                         *)
(* Shape of the code being modelled (after the fix: commits in /repo):      *)
(*   Allocate : existed := mem[s]#None; pick lowest free unit (or keep);    *)
(*              Put(store); on failure roll back only if ~existed           *)
(*   Release  : if held: Delete(store) first, failure => nothing changes;   *)
(*              then free the unit in memory                                *)
(*   load     : for each stored record in query order: SetAllocation(s,u)   *)
(*              (skipped when u is taken by another subscriber)             *)
(*   remote   : put => SetAllocation(s,u) unless already equal; del => free *)
(* ReplayByAllocate = TRUE models the lease-mode code before the fix        *)
(* (load / remote put re-Allocate instead of applying the stored address):  *)
(* TLC then reports RestartSame violated after <<alloc s1, alloc s2,        *)
(* restart with order s2,s1>> - the counterexample the harness replayed.    *)
(***************************************************************************)
EXTENDS Integers, FiniteSets, Sequences, TLC

CONSTANTS Subs, Units, ReplayByAllocate, MaxFail

None == -1
VARIABLES mem, store, fails, lastRestart   \* lastRestart: TRUE in the state right after a restart
vars == <<mem, store, fails, lastRestart>>

Free(m) == Units \ {m[s] : s \in Subs}
Lowest(S) == CHOOSE u \in S : \A v \in S : u <= v

Init == mem = [s \in Subs |-> None] /\ store = [s \in Subs |-> None] /\ fails = 0 /\ lastRestart = FALSE

AllocOk(s) ==
  /\ (mem[s] # None \/ Free(mem) # {})
  /\ LET u == IF mem[s] # None THEN mem[s] ELSE Lowest(Free(mem)) IN
       /\ mem' = [mem EXCEPT ![s] = u]
       /\ store' = [store EXCEPT ![s] = u]
  /\ UNCHANGED fails /\ lastRestart' = FALSE

AllocStoreFails(s) ==   \* Put fails: roll back only an allocation created by this call
  /\ fails < MaxFail
  /\ (mem[s] # None \/ Free(mem) # {})
  /\ UNCHANGED <<mem, store>>
  /\ fails' = fails + 1 /\ lastRestart' = FALSE

ReleaseOk(s) ==
  /\ mem[s] # None
  /\ store' = [store EXCEPT ![s] = None]
  /\ mem' = [mem EXCEPT ![s] = None]
  /\ UNCHANGED fails /\ lastRestart' = FALSE

ReleaseStoreFails(s) ==  \* Delete fails before memory is touched
  /\ fails < MaxFail /\ mem[s] # None
  /\ UNCHANGED <<mem, store>>
  /\ fails' = fails + 1 /\ lastRestart' = FALSE

\* apply the stored records in the order given by the sequence ord
RECURSIVE Load(_, _)
Load(m, ord) ==
  IF ord = <<>> THEN m
  ELSE LET s == Head(ord)
           u == store[s]
           m2 == IF u = None THEN m
                 ELSE IF ReplayByAllocate
                      THEN (IF Free(m) = {} THEN m ELSE [m EXCEPT ![s] = Lowest(Free(m))])
                      ELSE (IF \E t \in Subs \ {s} : m[t] = u THEN m ELSE [m EXCEPT ![s] = u])
       IN Load(m2, Tail(ord))

Perms == {f \in [1..Cardinality(Subs) -> Subs] : \A a, b \in 1..Cardinality(Subs) : a # b => f[a] # f[b]}

Restart ==   \* crash or clean stop: memory is lost, the store survives
  \E p \in Perms :
     /\ mem' = Load([s \in Subs |-> None], p)
     /\ UNCHANGED <<store, fails>> /\ lastRestart' = TRUE

RemotePut(s, u) ==   \* another node announces s -> u (never an address recorded for someone else)
  /\ \A t \in Subs \ {s} : store[t] # u
  /\ store' = [store EXCEPT ![s] = u]
  /\ mem' = IF mem[s] = u THEN mem
            ELSE IF ReplayByAllocate
                 THEN (IF mem[s] # None \/ Free(mem) = {} THEN mem ELSE [mem EXCEPT ![s] = Lowest(Free(mem))])
                 ELSE (IF \E t \in Subs \ {s} : mem[t] = u THEN mem ELSE [mem EXCEPT ![s] = u])
  /\ UNCHANGED fails /\ lastRestart' = FALSE

RemoteDel(s) ==
  /\ store' = [store EXCEPT ![s] = None]
  /\ mem' = [mem EXCEPT ![s] = None]
  /\ UNCHANGED fails /\ lastRestart' = FALSE

Next == \/ \E s \in Subs : AllocOk(s) \/ AllocStoreFails(s) \/ ReleaseOk(s) \/ ReleaseStoreFails(s) \/ RemoteDel(s)
        \/ \E s \in Subs, u \in Units : RemotePut(s, u)
        \/ Restart

Spec == Init /\ [][Next]_vars

\* C12 on the design
Unique      == \A a, b \in Subs : a # b /\ mem[a] # None => mem[a] # mem[b]
StoreUnique == \A a, b \in Subs : a # b /\ store[a] # None => store[a] # store[b]
RestartSame == lastRestart => \A s \in Subs : store[s] # None => mem[s] = store[s]
\* memory and store agree after every step of this node (store faults included)
Agreement   == \A s \in Subs : mem[s] = store[s] \/ (\E t \in Subs \ {s} : mem[t] = store[s] /\ store[s] # None)
=============================================================================
