-------------------------- MODULE WireGrammarImpl --------------------------
(***************************************************************************)
(* U3 for C09: TLC walks results.json written by harness/wire.  Every       *)
(* event is                                                                 *)
(*    (entry point, protocol state, abstract frame) -> outcome              *)
(* observed on the real decoder / handler: the abstract frame was turned    *)
(* into bytes (one or more seeded fillings; the event carries the worst      *)
(* outcome), delivered to a fresh object of the entry point in the stated    *)
(* state inside a child process, and the outcome recorded:                   *)
(*    ok | error | panic | crash | slow | skipped                            *)
(* Every event is judged by the contract of WireGrammar (EdgeClauses).       *)
(*                                                                         *)
(* Monitor style, without ghost state: the contract is about one input at a *)
(* time (every input goes to a fresh object), so every event is an initial   *)
(* state and is judged on its own.                                           *)
(*                                                                         *)
(* Coverage (not a property clause; a gap is an infrastructure failure):     *)
(* every abstract frame TLC wrote to frames.json was executed on every       *)
(* (entry point, state) its format applies to, and every such pair got its   *)
(* random byte strings (abstract class 0).                                   *)
(***************************************************************************)
EXTENDS WireGrammar, Integers, Json

CONSTANT Watch        \* set of clause names this run is about
CONSTANT CheckCoverage

Frames  == JsonDeserialize("frames.json")
Results == JsonDeserialize("results.json")

Events   == Results.events
EpName(e)  == Results.eps[e[1]]
StName(e)  == Results.states[e[2]]
Outcome(e) == Results.outcomes[e[5]]

\* the contract is WireGrammar!EdgeClauses (the grammar constants of WireGrammar are irrelevant here: the frames are
\* read from frames.json, which TLC wrote when it enumerated the grammar)

VARIABLES k, viol
vars == <<k, viol>>

Init == /\ k \in 1..Len(Events)
        /\ viol = EdgeClauses([outcome |-> Outcome(Events[k])]) \cap Watch
Next == FALSE /\ UNCHANGED vars
Spec == Init /\ [][Next]_vars

\* always TRUE; prints one line per violating event
Report == viol = {} \/ PrintT(<<"VIOLATION", ToJson([system |-> EpName(Events[k]), clauses |-> viol, path |-> <<k>>])>>)

TypeOK == /\ Outcome(Events[k]) \in Outcomes
          /\ Events[k][6] >= 1

(***************************************************************************)
(* Coverage                                                                 *)
(***************************************************************************)
Range(s) == {s[i] : i \in DOMAIN s}

\* (no big UNIONs here: TLC's UNION is quadratic; the executed events are one normalised set, membership is a search)
Executed == {<<e[1], e[2], e[3], e[4]>> : e \in Range(Events)}
EpIdx(n) == IF \E i \in DOMAIN Results.eps : Results.eps[i] = n THEN CHOOSE i \in DOMAIN Results.eps : Results.eps[i] = n ELSE 0
StIdx(n) == IF \E i \in DOMAIN Results.states : Results.states[i] = n THEN CHOOSE i \in DOMAIN Results.states : Results.states[i] = n ELSE 0
Applies  == [f \in DOMAIN Frames.formats |-> {<<EpIdx(a[1]), StIdx(a[2]), a[1], a[2]>> : a \in Range(Frames.formats[f].applies)}]

\* TRUE iff (entry point, state) a got abstract frame cls with code c; prints the first gap
Has(a, cls, c) == <<a[1], a[2], cls, c>> \in Executed
                  \/ (PrintT(<<"COVERAGE", ToJson([entry_point |-> a[3], state |-> a[4], frame |-> cls, code |-> c])>>) /\ FALSE)

CoveredBin  == \A i \in DOMAIN Frames.layouts : \A c \in Range(Frames.layouts[i].codes) : \A a \in Applies[Frames.layouts[i].fmt] : Has(a, i, c)
CoveredText == \A i \in DOMAIN Frames.texts : \A a \in Applies[Frames.texts[i].fmt] : Has(a, 0 - i, 0)
CoveredRand == \A f \in DOMAIN Frames.formats : \A a \in Applies[f] : Has(a, 0, 0 - 1)

\* evaluated once; never makes the run fail (the driver reads the COVERAGE line)
Coverage == ~CheckCoverage \/ (CoveredBin /\ CoveredText /\ CoveredRand) \/ TRUE

ASSUME Coverage
ASSUME PrintT(<<"COUNTS", ToJson([events |-> Len(Events), executed |-> Cardinality(Executed)])>>)

View == <<k, viol>>
=============================================================================
