-------------------------- MODULE WireGrammarGen --------------------------
(***************************************************************************)
(* U1 / generator for C09.  Every initial state is one abstract frame of    *)
(* WireGrammar: TLC's enumeration of the initial states IS the list of      *)
(* implementation tests ("distinct states" = number of abstract frames).    *)
(* The run                                                                  *)
(*   - checks the grammar itself on every frame (WellFormed, LayoutFits),    *)
(*   - checks that the class list is complete for the safe-slice case        *)
(*     analysis of every length-bearing level of every format               *)
(*     (ClassesComplete) and that every deviation class, cut and code is     *)
(*     really generated (NonVacuous),                                        *)
(*   - appends every frame as one JSON line to layouts.ndjson / texts.ndjson *)
(*     (invariant Emit, always TRUE) and writes formats.json:                *)
(*     the driver joins the three into frames.json together with the         *)
(*     level tables the concretiser needs and, per format, the (entry point, *)
(*     state) pairs each frame has to be executed on.  The harness never     *)
(*     writes that file; the coverage clause of WireGrammarImpl is           *)
(*     evaluated against it.                                                 *)
(***************************************************************************)
EXTENDS WireGrammar, Json, SequencesExt, IOUtils

VARIABLE fr
Init == \/ \E f \in Fmts : \E sh \in AllShapes(f) : \E v \in Variants(f, sh) : \E c \in CodesFor(f, sh) : fr = FrameOf(f, c, sh, v)
        \/ fr \in AllTexts
Next == FALSE /\ UNCHANGED fr
Spec == Init /\ [][Next]_fr

RECURSIVE MaxKids(_)
MaxKids(sh) == IF Len(sh) = 0 THEN 0
               ELSE MaxOf({MaxKids(sh[i]) : i \in 1..Len(sh)} \cup {Len(sh)})

IsText == fr.fmt \in TextFmts
TextWellFormed == /\ fr.fmt = "ha_sync" => fr.form \in HaForms /\ fr.dev \in {"ok"} \cup HaDevs \cup HaWraps
                  /\ fr.fmt = "sip" => fr.form \in SipForms /\ fr.dev \in {"ok"} \cup SipDevs
                  /\ fr.fmt = "ftp" => fr.form \in FtpForms /\ fr.where \in 0..FtpFields[fr.form] /\ (fr.where > 0 <=> fr.dev \in FtpNumDevs)

\* every frame is inside the stated bounds and internally consistent
WellFormed == IF IsText THEN TextWellFormed ELSE
  /\ fr.fmt \in Fmts
  /\ fr.code \in Formats[fr.fmt].codes
  /\ DepthOf(fr.shape) <= MaxDepthOf(fr.fmt)
  /\ MaxKids(fr.shape) <= (IF DepthOf(fr.shape) <= WideDepth /\ Wide > Sibs THEN Wide ELSE Sibs)
  /\ Cardinality(fr.devs) <= 2
  /\ \A x \in fr.devs : x.path \in Paths(fr.shape) /\ x.dev \in NodeDevs(fr.fmt, fr.shape, x.path)
  /\ fr.cut.at \in {"none", "hdr", "val"}
  /\ fr.cut.at # "none" => fr.cut.path \in Spine(fr.shape)
  /\ (fr.code \notin Formats[fr.fmt].main) => IsChain(fr.shape)

\* the layout arithmetic stays inside the property's quantifier ("byte strings up to 2 KiB")
LayoutFits == IsText \/ (LevelOf(fr.fmt, <<>>).hdr + Sums(fr, <<>>)[1] <= 2048)

(***************************************************************************)
(* Completeness of the class list for the safe-slice case analysis.         *)
(* Avail = bytes present from the start of node p to the end of the window   *)
(* its decoder works in (the parent's value; the input for the root).        *)
(* Evaluated on the frames of the small shapes only (chains and chains with  *)
(* one extra sibling, one deviation or one cut): they are among the          *)
(* enumerated frames for every setting of the bounds (first ASSUME), and     *)
(* reaching every region with them is enough - the others only add to it.    *)
(***************************************************************************)
NodeTotal(f, p) == LevelOf(f.fmt, p).hdr + VLen(f, p)

Avail(f, p) ==
  IF f.cut.at = "hdr" /\ f.cut.path = p THEN LevelOf(f.fmt, p).hdr - 1
  ELSE IF f.cut.at = "val" /\ f.cut.path = p THEN LevelOf(f.fmt, p).hdr + (IF VLen(f, p) > 0 THEN VLen(f, p) - 1 ELSE 0)
  ELSE IF p = <<>> THEN NodeTotal(f, p)
  ELSE LET par == ParentOf(p)
           i   == p[Len(p)]
           n   == Len(Sub(f.shape, par))
       IN SumSeq([j \in 1..(n - i + 1) |-> NodeTotal(f, par \o <<i + j - 1>>)])

CoreShapes(f) == {sh \in ShapesOf(MaxDepthOf(f), Least(Sibs, 2)) : Cardinality(Paths(sh)) <= MaxDepthOf(f) + 2}
BaseVariants(f, sh) == ({{}} \cup OneDev(f, sh)) \X {NoCut} \cup ({{}} \X Cuts(f, sh))
CoreLayouts(f) == UNION {{[fmt |-> f, shape |-> sh, devs |-> v[1], cut |-> v[2]] : v \in BaseVariants(f, sh)} : sh \in CoreShapes(f)}
CoreTable == [f \in Fmts |-> CoreLayouts(f)]

ASSUME \A f \in Fmts : \A x \in CoreTable[f] : x.shape \in AllShapes(f) /\ <<x.devs, x.cut>> \in Variants(f, x.shape)

RegionsReached(f, l) ==
  UNION {{Region(LevelOf(x.fmt, p), Declared(x, p), Avail(x, p)) : p \in {q \in Paths(x.shape) : Len(q) = l}} : x \in CoreTable[f]}

ClassesComplete ==
  \A f \in Fmts : \A l \in 0..MaxDepthOf(f) :
     LET lv == Formats[f].levels[l + 1] IN
     lv.width > 0 => Regions(lv) \subseteq RegionsReached(f, l)

\* every deviation class at every level, every cut and every code is really generated
NonVacuous ==
  \A f \in Fmts :
     /\ \A c \in Formats[f].codes : \E x \in CoreTable[f] : c \in CodesFor(f, x.shape)
     /\ \A l \in 0..MaxDepthOf(f) :
          /\ (Formats[f].levels[l + 1].width > 0 =>
                \A d \in DeclDevs : \E x \in CoreTable[f] : \E y \in x.devs : Len(y.path) = l /\ y.dev = d)
          /\ \A d \in SizeDevs : \E x \in CoreTable[f] : \E y \in x.devs : Len(y.path) = l /\ y.dev = d
          /\ \E x \in CoreTable[f] : x.cut.at = "val" /\ Len(x.cut.path) = l
          /\ (Formats[f].levels[l + 1].hdr > 0 => \E x \in CoreTable[f] : x.cut.at = "hdr" /\ Len(x.cut.path) = l)
     /\ \E x \in CoreTable[f] : x.devs = {} /\ x.cut.at = "none"          \* the well-formed frames are there too

ASSUME ClassesComplete
ASSUME NonVacuous
ASSUME \A f \in Fmts : EntryPoints[f] # {}
ASSUME \A f \in TextFmts : TextEntryPoints[f] # {} /\ \E x \in AllTexts : x.fmt = f /\ x.dev = "ok"

(***************************************************************************)
(* Output for the harness (one line per layout = frame without its code,     *)
(* printed when TLC visits the frame with the smallest code of the layout).  *)
(* chk = [total bytes, declared length of the root, sum of all declared      *)
(* lengths] under natural leaf sizes: the concretiser must arrive at the     *)
(* same numbers in its canonical filling (otherwise its arithmetic differs   *)
(* from this module: infrastructure failure, never a verdict).               *)
(***************************************************************************)
Chk(f) == LET s == Sums(f, <<>>) IN <<LevelOf(f.fmt, <<>>).hdr + s[1], DeclaredOf(LevelOf(f.fmt, <<>>), s[1], DevsOf(f, <<>>)), s[2]>>

MinOf(S) == CHOOSE m \in S : \A k \in S : m <= k
OutLayout(f) == [fmt |-> f.fmt, codes |-> SetToSeq(CodesFor(f.fmt, f.shape)), shape |-> f.shape, devs |-> SetToSeq(f.devs), cut |-> f.cut, chk |-> Chk(f)]
OutFormats  == [f \in Fmts \cup TextFmts |-> IF f \in Fmts THEN [levels |-> Formats[f].levels, applies |-> SetToSeq(EntryPoints[f]), codes |-> SetToSeq(Formats[f].codes)]
                                          ELSE [levels |-> <<>>, applies |-> SetToSeq(TextEntryPoints[f]), codes |-> <<>>]]

Append1(file, x) == Serialize(ToJson(x) \o "\n", file, [format |-> "TXT", charset |-> "UTF-8", openOptions |-> <<"WRITE", "CREATE", "APPEND">>]).exitValue = 0

Emit == IF IsText THEN Append1("texts.ndjson", fr)
        ELSE (fr.code = MinOf(CodesFor(fr.fmt, fr.shape))) => Append1("layouts.ndjson", OutLayout(fr))

ASSUME JsonSerialize("formats.json", [formats |-> OutFormats, bounds |-> [depth |-> Depth, sibs |-> Sibs, wide |-> Wide, widedepth |-> WideDepth, combobelow |-> ComboBelow]])

View == fr
=============================================================================
