SPECIFICATION Spec
CONSTANTS Depth = 3  Sibs = 2  Wide = 3  WideDepth = 1  ComboBelow = 3
INVARIANTS WellFormed LayoutFits Emit
VIEW View
CHECK_DEADLOCK FALSE
