---------------------------- MODULE WireGrammar ----------------------------
(***************************************************************************)
(* C09 - "No packet from the network can crash or hang the gateway".       *)
(*                                                                         *)
(* TLA+ cannot quantify over byte strings.  This module is the documented  *)
(* exception (DESIGN.md section 7, C09): the case analysis of every wire    *)
(* format the property lists is transcribed as a grammar of ABSTRACT       *)
(* FRAMES, TLC enumerates the grammar (WireGrammarGen), the harness turns   *)
(* every abstract frame into bytes and feeds it to the real decoder or      *)
(* handler, and TLC judges every observed outcome (WireGrammarImpl) with    *)
(* the contract at the end of this module.                                  *)
(*                                                                         *)
(*   clause    sentence of the property statement                          *)
(*   --------  ----------------------------------------------------------- *)
(*   NoPanic   "processing returns normally or with an error: it never      *)
(*             panics, never indexes outside its input"  (an out-of-range   *)
(*             index or slice is a run-time panic in Go; the harness hands  *)
(*             every input in a buffer whose capacity equals its length, so *)
(*             reading past the input cannot go unnoticed; a process that   *)
(*             dies while handling the input counts as a panic)             *)
(*   NoHang    "and completes within a bound linear in the input length"    *)
(*             (budget 50 ms + 50 ms per KiB; an overrun counts only if it  *)
(*             recurs three times in isolation)                             *)
(*                                                                         *)
(* Everything else (whether the input is accepted, what is answered) is     *)
(* left unconstrained: the property says "returns normally or with an       *)
(* error".  The decision is over the grammar's boundary classes, not over   *)
(* all byte strings (category: exploration).                                *)
(*                                                                         *)
(* An abstract frame is a small tree of length-bearing nodes:               *)
(*   fmt    the wire format (one per decoder family, table Formats)         *)
(*   code   the message code / type that selects the handler branch         *)
(*   shape  the tree: a node is the sequence of its children                *)
(*   devs   the nodes that deviate from a well-formed encoding, each with   *)
(*          its deviation class: declared length relative to the bytes      *)
(*          actually present (zero, hdrm1, hdr, actm1, actp1, max, swap) or, *)
(*          for a leaf, the size of its value relative to the natural size  *)
(*          of the field (s0, s1, natm1, natp1, big)                        *)
(*   cut    truncation point: none, or the byte string ends inside the      *)
(*          header / inside the value of a node on the rightmost spine      *)
(* Formats without length fields (HA sync JSON / SSE lines, FTP and SIP      *)
(* lines seen by the NAT ALG) are text frames: a form, one deviation from a  *)
(* well-formed instance, and the field it applies to (section "Text          *)
(* formats").  Bounds: nesting <= Depth, <= Sibs children (<= Wide for       *)
(* shapes of depth <= WideDepth), one deviation or one cut per frame; shapes *)
(* of depth < ComboBelow also get deviation x cut and (parent, child)        *)
(* deviation pairs.                                                          *)
(***************************************************************************)
EXTENDS Naturals, Sequences, FiniteSets, TLC

CONSTANTS Depth,     \* maximal nesting depth (root = level 0)
          Sibs,      \* maximal number of children of a node
          Wide,      \* additional child-count bound used with depth <= WideDepth shapes
          WideDepth,
          ComboBelow \* shapes of depth < ComboBelow additionally get: one deviant x every cut, and deviating
                     \* (parent, child) pairs (0: none)

(***************************************************************************)
(* One level of a format: hdr = bytes before the value (type, length and    *)
(* other fixed header fields), incl = the length field counts the header,   *)
(* width = bytes of the length field (0: the node has no length field),     *)
(* fixed = bytes of fixed fields at the start of the value when the node    *)
(* has children, nat = natural value size of a leaf.                        *)
(***************************************************************************)
L(h, i, w, f, n) == [hdr |-> h, incl |-> i, width |-> w, fixed |-> f, nat |-> n]

PppoeHdr == L(6, FALSE, 2, 0, 0)      \* ver/type, code, session id, length            ParsePPPoEHeader
PppoeSes == L(6, FALSE, 2, 2, 2)      \* ... followed by the 2-byte PPP protocol        handleSession
PppoeTag == L(4, FALSE, 2, 0, 4)      \* tag type, tag length                           ParseTags
PppPkt   == L(4, TRUE, 2, 0, 4)       \* code, identifier, length (counts the header)    ParseLCPPacket
PppOpt   == L(2, TRUE, 1, 0, 4)       \* option type, option length (counts the header)  ParseLCPOptions
LString  == L(1, FALSE, 1, 0, 4)      \* one length byte, then the string                receivePAP / receiveCHAP
Dhcp4Opt == L(2, FALSE, 1, 0, 4)      \* option code, length                             parseOption82 / parseVendorOptions
Dhcp6Msg == L(4, FALSE, 0, 0, 0)      \* msg-type, transaction id; no length field       ParseMessage
Dhcp6IA  == L(4, FALSE, 2, 12, 12)    \* option code, length; IAID, T1, T2               ParseIANA / ParseIAPD
Dhcp6Adr == L(4, FALSE, 2, 24, 24)    \* IAADDR: address, preferred, valid               ParseIAAddress
Dhcp6Pfx == L(4, FALSE, 2, 25, 25)    \* IAPREFIX: preferred, valid, length, prefix      ParseIAPrefix
Dhcp6Opt == L(4, FALSE, 2, 0, 10)     \* any other option                                ParseOptions
RadPkt   == L(20, TRUE, 2, 0, 0)      \* code, id, length, authenticator                 receiveLoop
RadAttr  == L(2, TRUE, 1, 4, 6)       \* type, length; (vendor id when it has children)  parseAttributes
RawBytes == L(0, FALSE, 0, 0, 4)      \* no header at all                                ParseEchoPacket
MacBytes == L(0, FALSE, 0, 0, 6)      \* a hardware address                              formatMAC

(***************************************************************************)
(* The formats.  codes: the values of the handler-selecting field; main:    *)
(* the codes whose handling looks at the lengths inside the frame (they get *)
(* every shape; the other codes only get the chains).                       *)
(***************************************************************************)
F(lv, cs, mn) == [levels |-> lv, codes |-> cs, main |-> mn]

Formats == [
  pppoe_disc   |-> F(<<PppoeHdr, PppoeTag>>, {9, 25, 167, 7, 0}, {9, 25, 167}),       \* PADI PADR PADT | PADO, 0
  pppoe_lcp    |-> F(<<PppoeSes, PppPkt, PppOpt>>, {1, 2, 3, 5, 9, 12}, {1, 9}),      \* LCP code inside a session frame
  pppoe_pap    |-> F(<<PppoeSes, PppPkt, LString>>, {1, 2, 0}, {1}),
  pppoe_ipcp   |-> F(<<PppoeSes, PppPkt, PppOpt>>, {1, 2, 3, 9}, {1}),
  pppoe_other  |-> F(<<PppoeSes>>, {33, 87, 49699, 0}, {33}),                         \* PPP protocol: IP, IPv6, CHAP, 0
  lcp          |-> F(<<PppPkt, PppOpt>>, {0, 1, 2, 3, 4, 5, 6, 7, 8, 9, 10, 11, 12, 255}, {1, 2, 3, 4, 7, 8, 9}),
  ipcp         |-> F(<<PppPkt, PppOpt>>, {0, 1, 2, 3, 4, 5, 6, 7, 9, 255}, {1, 2, 3, 4}),
  ipv6cp       |-> F(<<PppPkt, PppOpt>>, {0, 1, 2, 3, 4, 5, 6, 7, 9, 255}, {1, 2, 3, 4}),
  pap          |-> F(<<PppPkt, LString>>, {0, 1, 2, 3}, {1}),
  chap         |-> F(<<PppPkt, LString>>, {0, 1, 2, 3, 4}, {2}),
  echo         |-> F(<<RawBytes>>, {10}, {10}),
  opt82        |-> F(<<Dhcp4Opt, Dhcp4Opt>>, {1, 3, 4, 7, 8}, {1, 3}),                 \* DHCP message type of the carrier
  dhcp6_na     |-> F(<<Dhcp6Msg, Dhcp6IA, Dhcp6Adr, Dhcp6Opt>>, {1, 3, 4, 5, 6, 8, 9, 11, 2, 0}, {1, 3, 4, 5}),
  dhcp6_pd     |-> F(<<Dhcp6Msg, Dhcp6IA, Dhcp6Pfx, Dhcp6Opt>>, {1, 3, 4, 5, 6, 8, 9, 11, 2, 0}, {1, 3, 5}),
  dhcp6_opt    |-> F(<<Dhcp6Msg, Dhcp6Opt>>, {1, 3, 4, 5, 6, 8, 9, 11, 2, 12, 0}, {1, 3, 4, 8, 11}),       \* 12 = Relay-Forward
  radius       |-> F(<<RadPkt, RadAttr, PppOpt>>, {40, 43, 41, 1, 0}, {40, 43}),
  ztp43        |-> F(<<Dhcp4Opt, Dhcp4Opt>>, {5}, {5}),
  mac          |-> F(<<MacBytes>>, {0}, {0})
]
Fmts == DOMAIN Formats

(***************************************************************************)
(* Entry points of the implementation a format is delivered to, with the    *)
(* protocol states the receiving object is put in first.                    *)
(***************************************************************************)
FsmStates == {"Initial", "Starting", "Closed", "Stopped", "Req-Sent", "Ack-Rcvd", "Ack-Sent", "Opened", "Closing", "Stopping"}
E(ep, sts) == {<<ep, s>> : s \in sts}

EntryPoints == [
  pppoe_disc   |-> E("pppoe.ParseTags", {"-"}) \cup E("pppoe.ParsePADT", {"-"}) \cup E("pppoe.handleDiscovery", {"empty", "session"}),
  pppoe_lcp    |-> E("pppoe.handleSession", {"lcp", "auth", "established"}),
  pppoe_pap    |-> E("pppoe.handleSession", {"lcp", "auth", "established"}),
  pppoe_ipcp   |-> E("pppoe.handleSession", {"lcp", "ipcp", "established"}),
  pppoe_other  |-> E("pppoe.handleSession", {"lcp", "established"}),
  lcp          |-> E("pppoe.ParseLCPPacket", {"-"}) \cup E("lcp.ReceivePacket", FsmStates),
  ipcp         |-> E("ipcp.ReceivePacket", FsmStates),
  ipv6cp       |-> E("ipv6cp.ReceivePacket", FsmStates),
  pap          |-> E("auth.ReceivePacket/pap", {"fresh", "authenticated"}),
  chap         |-> E("auth.ReceivePacket/chap", {"idle", "challenged"}),
  echo         |-> E("keepalive.echo", {"pending", "idle"}),
  opt82        |-> E("dhcp.parseOption82", {"fresh", "bound"}) \cup E("dhcp.handleDHCP", {"fresh", "bound"}),
  dhcp6_na     |-> E("dhcpv6.Parse", {"-"}) \cup E("dhcpv6.handleMessage", {"fresh", "bound"}),
  dhcp6_pd     |-> E("dhcpv6.Parse", {"-"}) \cup E("dhcpv6.handleMessage", {"fresh", "bound"}),
  dhcp6_opt    |-> E("dhcpv6.Parse", {"-"}) \cup E("dhcpv6.handleMessage", {"fresh", "bound"}),
  radius       |-> E("radius.CoAServer", {"signed", "unsigned"}),
  ztp43        |-> E("ztp.parseVendorOptions", {"-"}) \cup E("ztp.extractNexusURL", {"-"}),
  mac          |-> E("radius.Client/acct", {"-"}) \cup E("radius.Client/auth", {"-"}) \cup E("dhcp.handleDHCP/hlen", {"fresh", "radius"})
]

(***************************************************************************)
(* Shapes: a node is the sequence of its children; <<>> is a leaf.          *)
(***************************************************************************)
RECURSIVE ShapesOf(_, _)
ShapesOf(d, s) == IF d = 0 THEN {<<>>} ELSE UNION {[1..k -> ShapesOf(d - 1, s)] : k \in 0..s}

Least(a, b) == IF a < b THEN a ELSE b
MaxDepthOf(f) == Least(Depth, Len(Formats[f].levels) - 1)
AllShapes(f)  == ShapesOf(MaxDepthOf(f), Sibs) \cup ShapesOf(Least(MaxDepthOf(f), WideDepth), Wide)

RECURSIVE Paths(_)
Paths(sh) == {<<>>} \cup UNION {{<<i>> \o p : p \in Paths(sh[i])} : i \in 1..Len(sh)}

RECURSIVE Sub(_, _)
Sub(sh, p) == IF p = <<>> THEN sh ELSE Sub(sh[Head(p)], Tail(p))

IsLeaf(sh, p) == Len(Sub(sh, p)) = 0

RECURSIVE Spine(_)      \* the nodes on the rightmost path: the only places a byte string can end in
Spine(sh) == {<<>>} \cup (IF Len(sh) = 0 THEN {} ELSE {<<Len(sh)>> \o p : p \in Spine(sh[Len(sh)])})

MaxOf(S) == CHOOSE m \in S : \A k \in S : k <= m
RECURSIVE DepthOf(_)
DepthOf(sh) == IF Len(sh) = 0 THEN 0 ELSE 1 + MaxOf({DepthOf(sh[i]) : i \in 1..Len(sh)})

RECURSIVE IsChain(_)    \* every node has at most one child
IsChain(sh) == Len(sh) = 0 \/ (Len(sh) = 1 /\ IsChain(sh[1]))

(***************************************************************************)
(* Deviation classes.                                                       *)
(*   declared length, relative to the bytes actually present (act):         *)
(*     zero 0 | hdrm1 header-1 | hdr header | actm1 act-1 | actp1 act+1 |    *)
(*     max all ones | swap act counted the other way (with the header where  *)
(*     the format excludes it, without where it includes it)                *)
(*   size of a leaf value, relative to the field's natural size (nat):      *)
(*     s0 empty | s1 one byte | natm1 | natp1 | big (more than one length     *)
(*     byte can express)                                                    *)
(***************************************************************************)
DeclDevs == {"zero", "hdrm1", "hdr", "actm1", "actp1", "max", "swap"}
SizeDevs == {"s0", "s1", "natm1", "natp1", "big"}

LevelOf(f, p) == Formats[f].levels[Len(p) + 1]

NodeDevs(f, sh, p) == (IF LevelOf(f, p).width > 0 THEN DeclDevs ELSE {}) \cup (IF IsLeaf(sh, p) THEN SizeDevs ELSE {})

NoCut == [path |-> <<>>, at |-> "none"]
Cuts(f, sh) == {[path |-> p, at |-> "val"] : p \in Spine(sh)} \cup {[path |-> p, at |-> "hdr"] : p \in {q \in Spine(sh) : LevelOf(f, q).hdr > 0}}

OneDev(f, sh)  == UNION {{{[path |-> p, dev |-> d]} : d \in NodeDevs(f, sh, p)} : p \in Paths(sh)}
ParentOf(p)    == SubSeq(p, 1, Len(p) - 1)
PairDevs(f, sh) == {{[path |-> ParentOf(p), dev |-> a], [path |-> p, dev |-> b]} :
                      p \in {q \in Paths(sh) : q # <<>> /\ LevelOf(f, q).width > 0 /\ LevelOf(f, ParentOf(q)).width > 0},
                      a \in DeclDevs, b \in DeclDevs}

\* which (devs, cut) combinations a shape is enumerated with
Variants(f, sh) ==
  LET base == ({{}} \cup OneDev(f, sh)) \X {NoCut} \cup ({{}} \X Cuts(f, sh))
  IN IF DepthOf(sh) < ComboBelow THEN base \cup (OneDev(f, sh) \X Cuts(f, sh)) \cup (PairDevs(f, sh) \X {NoCut}) ELSE base

\* A layout is a frame without its code (the code does not influence the byte layout).
\* every shape for the main codes, chains for the others
CodesFor(f, sh) == IF IsChain(sh) THEN Formats[f].codes ELSE Formats[f].main

\* The abstract frames.  (Stated as a predicate that TLC enumerates lazily; building the set with UNION is quadratic
\* in TLC.)  fr is an abstract frame iff IsFrame(fr).
FrameOf(f, c, sh, v) == [fmt |-> f, code |-> c, shape |-> sh, devs |-> v[1], cut |-> v[2]]
IsFrame(fr) == \E f \in Fmts : \E sh \in AllShapes(f) : \E v \in Variants(f, sh) : \E c \in CodesFor(f, sh) : fr = FrameOf(f, c, sh, v)

(***************************************************************************)
(* Text formats (no length fields): HA sync messages (JSON, carried in an   *)
(* SSE "data:" line or in the body of the full-sync response) and FTP        *)
(* control lines seen by the NAT ALG.  An abstract text frame is             *)
(*   form   which message / command it is                                    *)
(*   dev    the one deviation from a well-formed instance ("ok": none)        *)
(*   where  which field the deviation applies to (0: the whole text)          *)
(* The case analysis follows the decoders: json.Unmarshal into SyncMessage /  *)
(* the SSE line reader of connectToStream, and the four regular expressions  *)
(* plus strconv.Atoi / net.IPv4(byte(..)) arithmetic of pkg/nat/alg.go, and   *)
(* the line scanner of the SIP ALG.                                          *)
(***************************************************************************)
HaForms == {"heartbeat", "add", "update", "delete", "full", "unknown", "notype"}
HaDevs  == {"empty", "ws", "null", "number", "string", "array", "trunc_key", "trunc_str", "trunc_arr", "trunc_obj",
            "sessions_null", "sessions_obj", "sessions_str", "sessions_num", "session_null_elem", "session_nested_arr",
            "field_wrong_type", "deep_nest", "huge_number", "neg_number", "float_number", "bad_utf8", "dup_keys", "nul_byte",
            "long_string", "many_sessions", "bad_time", "trailing_garbage", "empty_session_id"}
HaWraps == {"data_nospace", "data_only", "noprefix", "crlf", "no_newline", "two_events", "long_line", "event_field", "blank_lines"}

FtpForms   == {"PORT", "EPRT", "PASV", "EPSV"}
FtpFields  == [PORT |-> 6, EPRT |-> 2, PASV |-> 6, EPSV |-> 1]
FtpNumDevs == {"empty", "zero", "n255", "n256", "n65535", "n65536", "huge", "neg", "alpha", "space"}
FtpDevs    == {"lower", "lf_only", "no_eol", "two_lines", "many_lines", "cut_keyword", "cut_fields", "fewer_fields", "more_fields",
               "long_ws", "bin_prefix", "long_line", "eprt_v6", "eprt_badip", "eprt_proto2", "nested_parens", "nul_byte"}

SipForms == {"INVITE", "OK200"}
SipDevs  == {"empty", "lf_only", "no_eol", "many_ips", "ip_in_every_header", "long_line", "bin_prefix", "nul_byte", "no_body", "only_body"}

TextFrame(f, fo, d, w) == [fmt |-> f, form |-> fo, dev |-> d, where |-> w]

HaFrames  == {TextFrame("ha_sync", fo, d, 0) : fo \in HaForms, d \in {"ok"} \cup HaDevs}
             \cup {TextFrame("ha_sync", fo, w, 1) : fo \in HaForms, w \in HaWraps}
FtpFrames == {TextFrame("ftp", fo, d, 0) : fo \in FtpForms, d \in {"ok"} \cup FtpDevs}
             \cup UNION {{TextFrame("ftp", fo, d, i) : d \in FtpNumDevs, i \in 1..FtpFields[fo]} : fo \in FtpForms}
SipFrames == {TextFrame("sip", fo, d, 0) : fo \in SipForms, d \in {"ok"} \cup SipDevs}
AllTexts  == HaFrames \cup FtpFrames \cup SipFrames

TextEntryPoints == [
  ha_sync |-> E("ha.DecodeSyncMessage", {"-"}) \cup E("ha.handleSSEData", {"empty", "populated"})
              \cup E("ha.connectToStream", {"empty"}) \cup E("ha.performFullSync", {"empty", "populated"}),
  ftp     |-> E("nat.FTPALG.ProcessOutbound", {"-"}) \cup E("nat.FTPALG.ProcessInbound", {"-"}) \cup E("nat.ALGHandler.ProcessPacket", {"out", "in"}),
  sip     |-> E("nat.SIPALG.ProcessOutbound", {"-"}) \cup E("nat.SIPALG.ProcessInbound", {"-"})
]
TextFmts == DOMAIN TextEntryPoints

(***************************************************************************)
(* Layout arithmetic (used by the completeness check of the class list and  *)
(* mirrored by the concretiser): value length and declared length.          *)
(***************************************************************************)
MaxLen(lv) == IF lv.width = 1 THEN 255 ELSE IF lv.width = 2 THEN 65535 ELSE 0
Big(lv)    == IF lv.width = 1 THEN 300 ELSE 600

DevsOf(fr, p) == {x.dev : x \in {y \in fr.devs : y.path = p}}

LeafSize(lv, ds) == IF "s0" \in ds THEN 0 ELSE IF "s1" \in ds THEN 1 ELSE IF "natm1" \in ds THEN (IF lv.nat > 0 THEN lv.nat - 1 ELSE 0)
                    ELSE IF "natp1" \in ds THEN lv.nat + 1 ELSE IF "big" \in ds THEN Big(lv) ELSE lv.nat

RECURSIVE SumSeq(_)
SumSeq(s) == IF s = <<>> THEN 0 ELSE Head(s) + SumSeq(Tail(s))

RECURSIVE VLen(_, _)     \* bytes of the value of node p before truncation
VLen(fr, p) == LET sh == Sub(fr.shape, p)
                   lv == LevelOf(fr.fmt, p)
               IN IF Len(sh) = 0 THEN LeafSize(lv, DevsOf(fr, p))
                  ELSE lv.fixed + SumSeq([i \in 1..Len(sh) |-> LevelOf(fr.fmt, p \o <<i>>).hdr + VLen(fr, p \o <<i>>)])

Clamp(x, lv) == IF x > MaxLen(lv) THEN MaxLen(lv) ELSE x

\* the number written into the length field of a node of level lv whose value has v bytes, with deviations ds
DeclaredOf(lv, v, ds) ==
  LET act == IF lv.incl THEN lv.hdr + v ELSE v
  IN Clamp(IF "zero" \in ds THEN 0
           ELSE IF "hdrm1" \in ds THEN lv.hdr - 1
           ELSE IF "hdr" \in ds THEN lv.hdr
           ELSE IF "actm1" \in ds THEN (IF act > 0 THEN act - 1 ELSE 0)
           ELSE IF "actp1" \in ds THEN act + 1
           ELSE IF "max" \in ds THEN MaxLen(lv)
           ELSE IF "swap" \in ds THEN (IF lv.incl THEN v ELSE lv.hdr + v)
           ELSE act, lv)

Declared(fr, p) == DeclaredOf(LevelOf(fr.fmt, p), VLen(fr, p), DevsOf(fr, p))

\* one pass over the subtree of p: <<value length, sum of the declared lengths in the subtree, largest excess of a
\* declared length over its field>> (the same numbers as VLen / Declared, computed once per node)
RECURSIVE Sums(_, _)
Sums(fr, p) ==
  LET sh == Sub(fr.shape, p)
      lv == LevelOf(fr.fmt, p)
      ds == DevsOf(fr, p)
      ks == [i \in 1..Len(sh) |-> Sums(fr, p \o <<i>>)]
      v  == IF Len(sh) = 0 THEN LeafSize(lv, ds)
            ELSE lv.fixed + SumSeq([i \in 1..Len(sh) |-> LevelOf(fr.fmt, p \o <<i>>).hdr + ks[i][1]])
  IN <<v, DeclaredOf(lv, v, ds) + SumSeq([i \in 1..Len(sh) |-> ks[i][2]])>>

(***************************************************************************)
(* Why these classes: the canonical slice a decoder takes for a             *)
(* length-bearing construct is buf[hdr : end] with end = declared (length   *)
(* counts the header) or hdr + declared (it does not), over avail bytes.    *)
(* The slice is safe iff hdr <= end <= avail.  Region names the cases of     *)
(* that predicate and their boundaries; ClassesComplete (checked by TLC in   *)
(* WireGrammarGen) says the frames TLC enumerates reach every region for     *)
(* every level of every format.                                             *)
(***************************************************************************)
Region(lv, declared, avail) ==
  LET end == IF lv.incl THEN declared ELSE lv.hdr + declared IN
  IF avail < lv.hdr THEN "header-truncated"
  ELSE IF end < lv.hdr THEN "end-before-header-end"
  ELSE IF end = lv.hdr THEN "empty-value"
  ELSE IF end < avail THEN "inside"
  ELSE IF end = avail THEN "exact"
  ELSE IF end = avail + 1 THEN "one-past"
  ELSE "far-past"

Regions(lv) == {"header-truncated", "empty-value", "inside", "exact", "one-past", "far-past"} \cup (IF lv.incl THEN {"end-before-header-end"} ELSE {})

(***************************************************************************)
(* The contract: what an observed outcome must not be.                      *)
(*   e.outcome in {"ok", "error", "panic", "crash", "slow", "skipped"}      *)
(*   ok = returned normally, error = returned an error / rejected,           *)
(*   panic = a Go panic reached the harness' recover, crash = the process    *)
(*   hosting the code died while the input was being handled,                *)
(*   slow = over budget (or never returned) in three isolated measurements.  *)
(***************************************************************************)
EdgeClauses(e) == (IF e.outcome \in {"panic", "crash"} THEN {"NoPanic"} ELSE {})
             \cup (IF e.outcome = "slow" THEN {"NoHang"} ELSE {})

Outcomes == {"ok", "error", "panic", "crash", "slow", "skipped"}
=============================================================================
