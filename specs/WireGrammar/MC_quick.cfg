SPECIFICATION Spec
CONSTANTS Depth = 2  Sibs = 2  Wide = 2  WideDepth = 0  ComboBelow = 0
INVARIANTS WellFormed LayoutFits Emit
VIEW View
CHECK_DEADLOCK FALSE
