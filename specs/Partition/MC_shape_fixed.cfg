SPECIFICATION Spec
CONSTANTS Retries = 1  QSize = 1  Fixed = TRUE  MaxLen = 9
INVARIANTS Clean GhostTracks
VIEW View
CHECK_DEADLOCK FALSE
