SPECIFICATION Spec
CONSTANT Watch = {"PartitionAfterRetries", "RecoverOnSuccess", "OnlineAfterReconciliation", "OneReconciliationPerRecovery", "HandlerPerTransition", "HandlerOrder", "QueueAcceptance", "Capacity", "NoProcessAfterExpiry", "AtMostOnce", "FifoOrder", "ExpireOnlyExpired", "ConflictDetected", "ConflictRule", "ConflictSymmetric", "ConflictTieSymmetric"}
INVARIANTS Report GhostTracks
VIEW View
CHECK_DEADLOCK FALSE
