------------------------------ MODULE Partition ------------------------------
(***************************************************************************)
(* Contract of pkg/resilience: the partition Manager (manager.go), its      *)
(* RequestQueue (request_queue.go) and the conflict resolution run by the   *)
(* reconciliation (conflict_detector.go + Manager.resolveConflict).  Extra  *)
(* family X01: none of the 20 listed properties; the sentences below were   *)
(* formulated from the package's own comments (quoted).                     *)
(*                                                                         *)
(* The contract talks about what an outside observer sees: the results of   *)
(* the health checks the manager performed, the state it reports, the        *)
(* PartitionEvents delivered to each registered handler, the invocations of  *)
(* the request handler, the answers of QueueRequest/Enqueue/Dequeue, the     *)
(* queue length, the number of reconciliations started (fetches of the       *)
(* remote allocations) and the conflicts notified through OnConflict.        *)
(*                                                                         *)
(* S1 "Transition to partitioned after threshold failures" / "Transition    *)
(*    back to online if partitioned" (checkHealth):                          *)
(*    PartitionAfterRetries  the manager leaves online (for partitioned)     *)
(*                           only at a failed health check that completes a  *)
(*                           run of >= HealthCheckRetries consecutive        *)
(*                           failed checks                                   *)
(*    RecoverOnSuccess       it leaves partitioned (for recovering) only at  *)
(*                           a successful health check                       *)
(* S2 "StateRecovering indicates partition is healing and reconciliation    *)
(*    is in progress" / "Start reconciliation in background" / "Transition   *)
(*    to online" at the end of performReconciliation:                        *)
(*    OnlineAfterReconciliation   it leaves recovering (for online) only     *)
(*                           after the reconciliation stopped handling       *)
(*                           queued requests: no request-handler invocation  *)
(*                           is under way while the state is not recovering, *)
(*                           and none starts after the online event          *)
(*    OneReconciliationPerRecovery  exactly one reconciliation is started    *)
(*                           per stay in recovering, none in other states    *)
(* S3 "PartitionEventHandler is called when partition state changes":       *)
(*    HandlerPerTransition   every registered handler is invoked exactly     *)
(*                           once per state change, with OldState/NewState   *)
(*                           of that change; never without a change          *)
(*    HandlerOrder           each handler sees the changes in the order in   *)
(*                           which they happened (the documentation is       *)
(*                           silent about order; kept as a separate clause)  *)
(* S4 "QueueRequest queues a request during partition" / "not in partition  *)
(*    state, cannot queue request" / "request queue full (max %d)":          *)
(*    QueueAcceptance        a request is accepted only while the manager is *)
(*                           not online, and refused only when it is online  *)
(*                           or the queue is at capacity                     *)
(*    Capacity               the queue never holds more than                 *)
(*                           RequestQueueSize requests                       *)
(* S5 "Check if expired" / "Re-queue if still valid" / ProcessAll:          *)
(*    NoProcessAfterExpiry   the request handler is never given a request    *)
(*                           after its expiry time (weakest reading: after   *)
(*                           the LATEST accepted submission for that MAC     *)
(*                           plus the queue timeout)                         *)
(*    AtMostOnce             the handler is given only requests that are     *)
(*                           queued; a request it processed successfully,    *)
(*                           or that was removed/dequeued, is never given    *)
(*                           to it again (unless submitted again)            *)
(* S6 "Dequeue removes and returns the oldest request" / "ExpireOld removes *)
(*    expired requests":                                                     *)
(*    FifoOrder              Dequeue and ProcessAll take requests in arrival *)
(*                           order (a request that failed and was re-queued  *)
(*                           goes to the back); a request is skipped only if *)
(*                           it may have expired; the position of a request  *)
(*                           whose first submission has expired is not       *)
(*                           constrained                                     *)
(*    ExpireOnlyExpired      a request that has not expired is never lost    *)
(*                           (queue length >= number of surely live ones)    *)
(* S7 "Resolution strategy: 1. same MAC, keep the most recent one 2.        *)
(*    different MACs, prefer pre-partition allocation (Nexus is source of    *)
(*    truth) 3. both during partition, prefer most recent" / DetectConflicts *)
(*    comments "Same subscriber - no conflict", "Different sites allocated   *)
(*    the same IP - conflict!":                                              *)
(*    ConflictDetected       exactly one notification per reconciliation for *)
(*                           every IP held locally and remotely by different *)
(*                           subscribers of different sites, none otherwise  *)
(*    ConflictRule           the winner is the one the strategy names (equal *)
(*                           timestamps: unconstrained); the affected MAC is *)
(*                           the loser's (none for the same MAC)             *)
(*    ConflictSymmetric      the two sites looking at the same pair of       *)
(*                           allocations (local/remote swapped) keep the     *)
(*                           same allocation, timestamps different           *)
(*    ConflictTieSymmetric   the same for equal timestamps (the strategy     *)
(*                           names no winner then; that both sites must      *)
(*                           still agree is not written down anywhere:       *)
(*                           separate clause)                                *)
(*                                                                         *)
(* Unconstrained: everything else (statistics, Retries counters, what       *)
(* happens to the data of merged requests, how long reconciliation takes,   *)
(* whether a refused/merged request keeps its own expiry, log output).      *)
(* Environment assumption of the state clauses: at most one health check    *)
(* completes per observed step, so fewer than three state changes happen in *)
(* a step and the changes of a step are the shortest path on the cycle      *)
(* online -> partitioned -> recovering -> online.                           *)
(***************************************************************************)
EXTENDS Integers, FiniteSets, Sequences, TLC

Min2(a, b) == IF a < b THEN a ELSE b
Range(s)   == {s[i] : i \in 1..Len(s)}

States == <<"online", "partitioned", "recovering">>
Idx(s)    == CHOOSE i \in 1..3 : States[i] = s
NextSt(s) == States[(Idx(s) % 3) + 1]
\* the state changes of one step, as the sequence of states entered
Path(a, b) == IF a = b THEN <<>> ELSE IF NextSt(a) = b THEN <<b>> ELSE <<NextSt(a), b>>

\* cfg = [impl, kind ("mgr" | "queue"), st0, retries, qsize, ttl, nh, nmac, ...]      times in ms
\* ghost
\*   st      reported state                     fails   run of failed checks (saturates at retries)
\*   recons  reconciliations started during the current stay in recovering (saturates at 2)
\*   pend    per handler: state changes that happened and were not yet delivered to it
\*   qlen    queue length observed after the last step
\*   q       per MAC: q queued (as far as the contract knows), hi/lo time since the first/latest
\*           accepted submission (saturating at ttl+1), amb: re-submitted after the first submission had expired
\*           (merged into the old request or a new arrival: position unknown), fl handed to the handler and not yet returned,
\*           fhi/flo the ages of the copy in the handler's hands
\*   ord     MACs in arrival order
Absent == [q |-> FALSE, hi |-> 0, lo |-> 0, amb |-> FALSE, fl |-> FALSE, fhi |-> 0, flo |-> 0]
G0(cfg) == [st |-> cfg.st0, fails |-> 0, recons |-> 0, pend |-> [h \in 1..cfg.nh |-> <<>>], qlen |-> 0,
            q |-> [m \in 1..cfg.nmac |-> Absent], ord |-> <<>>]

Cap(cfg)       == cfg.ttl + 1
Age(cfg, a, d) == Min2(a + d, Cap(cfg))

IndexOf(s, x)   == IF \E i \in 1..Len(s) : s[i] = x THEN CHOOSE i \in 1..Len(s) : s[i] = x /\ \A j \in 1..(i - 1) : s[j] # x ELSE 0
DropUpTo(s, i)  == SubSeq(s, i + 1, Len(s))
Without(s, x)   == SelectSeq(s, LAMBDA y : y # x)
RemoveAt(s, i)  == SubSeq(s, 1, i - 1) \o SubSeq(s, i + 1, Len(s))

\* ---- S1: health checks ---------------------------------------------------------------------
RECURSIVE RunAfter(_, _, _)
RunAfter(cfg, f, s) == IF s = <<>> THEN f ELSE RunAfter(cfg, IF Head(s).ok THEN 0 ELSE Min2(f + 1, cfg.retries), Tail(s))

PartitionJustified(cfg, g, e) == \E i \in 1..Len(e.chk) : ~e.chk[i].ok /\ RunAfter(cfg, g.fails, SubSeq(e.chk, 1, i)) >= cfg.retries
RecoverJustified(e)           == \E i \in 1..Len(e.chk) : e.chk[i].ok

StateClauses(cfg, g, e) ==
  LET p == Range(Path(g.st, e.st)) IN
       (IF "partitioned" \in p /\ ~PartitionJustified(cfg, g, e) THEN {"PartitionAfterRetries"} ELSE {})
  \cup (IF "recovering" \in p /\ ~RecoverJustified(e) THEN {"RecoverOnSuccess"} ELSE {})

\* ---- S2: reconciliation --------------------------------------------------------------------
EnterR(g, e) == "recovering" \in Range(Path(g.st, e.st))
LeaveR(g, e) == "online" \in Range(Path(g.st, e.st))
InR(g, e)    == g.st = "recovering" \/ EnterR(g, e)
ReconTotal(g, e) == (IF EnterR(g, e) THEN 0 ELSE g.recons) + e.recons

ReconClauses(cfg, g, e) ==
       (IF \/ e.recons > 0 /\ ~InR(g, e)
           \/ InR(g, e) /\ ReconTotal(g, e) > 1
           \/ LeaveR(g, e) /\ ReconTotal(g, e) # 1
          THEN {"OneReconciliationPerRecovery"} ELSE {})
  \cup (IF LeaveR(g, e) /\ \E i \in 1..Len(e.evs), j \in 1..Len(e.rqs) :
                              e.evs[i].new = "online" /\ e.rqs[j].k = "start" /\ e.rqs[j].off > e.evs[i].off
          THEN {"OnlineAfterReconciliation"} ELSE {})

\* ---- S3: event handlers --------------------------------------------------------------------
\* acc = [pend, bad]; d = [h, old, new, off]
EvOne(acc, d) ==
  LET s == acc.pend[d.h]
      i == IndexOf(s, d.new)
  IN IF d.new # NextSt(d.old) \/ i = 0
       THEN [acc EXCEPT !.bad = @ \cup {"HandlerPerTransition"}]
       ELSE [pend |-> [acc.pend EXCEPT ![d.h] = RemoveAt(s, i)],
             bad  |-> acc.bad \cup (IF i # 1 THEN {"HandlerOrder"} ELSE {})]

RECURSIVE EvFold(_, _, _)
EvFold(acc, s, i) == IF i > Len(s) THEN acc ELSE EvFold(EvOne(acc, s[i]), s, i + 1)

EvResult(cfg, g, e) ==
  EvFold([pend |-> [h \in 1..cfg.nh |-> g.pend[h] \o Path(g.st, e.st)], bad |-> {}], e.evs, 1)

HandlerClauses(cfg, g, e) ==
  LET r == EvResult(cfg, g, e) IN
  r.bad \cup (IF e.hfl = 0 /\ \E h \in 1..cfg.nh : r.pend[h] # <<>> THEN {"HandlerPerTransition"} ELSE {})

\* ---- S4-S6: the queue ----------------------------------------------------------------------
Expired(cfg, a, off) == a + off > cfg.ttl

\* handing out the request at position i of ord: the ones ahead of it were skipped (expired) and are gone
Skip(q, ord, i) == [m \in DOMAIN q |-> IF \E j \in 1..(i - 1) : ord[j] = m THEN [q[m] EXCEPT !.q = FALSE, !.hi = 0, !.lo = 0, !.amb = FALSE] ELSE q[m]]
\* request m is handed out: unless its own position is unknown (amb), everything ahead of it is gone
Taken(q, ord, m)    == IF q[m].amb THEN q ELSE Skip(q, ord, IndexOf(ord, m))
OrdAfter(q, ord, m) == IF q[m].amb THEN Without(ord, m) ELSE DropUpTo(ord, IndexOf(ord, m))

\* effect of the operation itself (at offset 0) on [q, ord]
OpEffect(cfg, g, e) ==
  IF e.op = "enq" /\ e.acc THEN
       IF g.q[e.a].q THEN
            \* merged into the queued request - unless that one has meanwhile expired and was dropped, in which case this
            \* is a new arrival at the back: if the first submission has expired the position is taken to be the back
            IF Expired(cfg, g.q[e.a].hi, 0)     \* (every time: the latest possible position)
              THEN [q |-> [g.q EXCEPT ![e.a].lo = 0, ![e.a].amb = TRUE], ord |-> Append(Without(g.ord, e.a), e.a)]
              ELSE [q |-> [g.q EXCEPT ![e.a].lo = 0], ord |-> g.ord]
       ELSE [q |-> [g.q EXCEPT ![e.a].q = TRUE, ![e.a].hi = 0, ![e.a].lo = 0, ![e.a].amb = FALSE], ord |-> Append(g.ord, e.a)]
  ELSE IF e.op = "deq" /\ e.ret > 0 THEN
       [q |-> [Taken(g.q, g.ord, e.ret) EXCEPT ![e.ret].q = FALSE, ![e.ret].hi = 0, ![e.ret].lo = 0, ![e.ret].amb = FALSE],
        ord |-> OrdAfter(g.q, g.ord, e.ret)]
  ELSE IF e.op = "rem" THEN
       [q |-> [g.q EXCEPT ![e.a].q = FALSE, ![e.a].hi = 0, ![e.a].lo = 0, ![e.a].amb = FALSE], ord |-> Without(g.ord, e.a)]
  ELSE [q |-> g.q, ord |-> g.ord]

\* requests ahead of position i that surely have not expired at offset off
LiveAhead(cfg, q, ord, i, off) == {j \in 1..(i - 1) : ~Expired(cfg, q[ord[j]].hi, off)}

OpClauses(cfg, g, e) ==
  IF e.op = "enq" THEN
       (IF \/ e.acc /\ cfg.kind = "mgr" /\ g.st = "online"
           \/ ~e.acc /\ g.qlen < cfg.qsize /\ (cfg.kind # "mgr" \/ g.st # "online")
          THEN {"QueueAcceptance"} ELSE {})
  ELSE IF e.op = "deq" THEN
       IF e.ret = 0 THEN (IF LiveAhead(cfg, g.q, g.ord, Len(g.ord) + 1, 0) # {} THEN {"FifoOrder"} ELSE {})
       ELSE IF ~g.q[e.ret].q THEN {"AtMostOnce"}
       ELSE IF ~g.q[e.ret].amb /\ ~Expired(cfg, g.q[e.ret].hi, 0) /\ LiveAhead(cfg, g.q, g.ord, IndexOf(g.ord, e.ret), 0) # {} THEN {"FifoOrder"} ELSE {}
  ELSE {}

\* an upper bound of the queue length: the contract's q is a superset of the queue's content
MaybeQueued(q) == Cardinality({m \in DOMAIN q : q[m].q})

\* acc = [q, ord, bad]; r = [k ("start" | "end"), m, ok, off]
RqOne(cfg, acc, r) ==
  LET x == acc.q[r.m]
      i == IndexOf(acc.ord, r.m)
  IN IF r.k = "start" THEN
       [q   |-> [Taken(acc.q, acc.ord, r.m) EXCEPT ![r.m] = [q |-> FALSE, hi |-> 0, lo |-> 0, amb |-> FALSE, fl |-> TRUE, fhi |-> x.hi, flo |-> x.lo]],
        ord |-> IF i = 0 THEN acc.ord ELSE OrdAfter(acc.q, acc.ord, r.m),
        bad |-> acc.bad
                \cup (IF ~x.q THEN {"AtMostOnce"} ELSE {})
                \cup (IF x.q /\ Expired(cfg, x.lo, r.off) THEN {"NoProcessAfterExpiry"} ELSE {})
                \cup (IF x.q /\ i > 0 /\ ~x.amb /\ ~Expired(cfg, x.hi, r.off) /\ LiveAhead(cfg, acc.q, acc.ord, i, r.off) # {} THEN {"FifoOrder"} ELSE {})]
     ELSE IF r.ok \/ ~x.fl \/ x.q \/ Expired(cfg, x.flo, r.off) THEN
       [acc EXCEPT !.q[r.m].fl = FALSE, !.q[r.m].fhi = 0, !.q[r.m].flo = 0]
     ELSE      \* failed, still valid: "Re-queue if still valid" (to the back).  If the queue may have filled up
               \* meanwhile ("request queue full") the request may have been dropped instead: it is then kept
               \* as "possibly gone" (hi saturated), i.e. it neither counts as surely live nor blocks later ones
       [q   |-> [acc.q EXCEPT ![r.m] = [q |-> TRUE, hi |-> IF MaybeQueued(acc.q) >= cfg.qsize THEN Cap(cfg) ELSE x.fhi,
                                        lo |-> x.flo, amb |-> FALSE, fl |-> FALSE, fhi |-> 0, flo |-> 0]],
        ord |-> Append(acc.ord, r.m),
        bad |-> acc.bad]

RECURSIVE RqFold(_, _, _, _)
RqFold(cfg, acc, s, i) == IF i > Len(s) THEN acc ELSE RqFold(cfg, RqOne(cfg, acc, s[i]), s, i + 1)

RqResult(cfg, g, e) ==
  LET o == OpEffect(cfg, g, e) IN RqFold(cfg, [q |-> o.q, ord |-> o.ord, bad |-> {}], e.rqs, 1)

Aged(cfg, q, dt) ==
  [m \in DOMAIN q |-> [q[m] EXCEPT !.hi = IF q[m].q THEN Age(cfg, @, dt) ELSE 0, !.lo = IF q[m].q THEN Age(cfg, @, dt) ELSE 0,
                                    !.fhi = IF q[m].fl THEN Age(cfg, @, dt) ELSE 0, !.flo = IF q[m].fl THEN Age(cfg, @, dt) ELSE 0]]

\* ---- S7: conflicts ------------------------------------------------------------------------
\* e.inst: the pairs of allocations present when the step began, <<[k, side, samemac, samesub, samesite, lpart, rpart, cmp]>>
\*         cmp = which allocation is more recent: "local" | "remote" | "tie"
\* e.cfs : notifications <<[k, side, res ("local_wins" | "remote_wins" | ...), aff ("local" | "remote" | "none")]>>
IsConflict(c) == ~(c.samemac /\ c.samesub) /\ ~c.samesite
InstOf(e, k, side) == CHOOSE c \in Range(e.inst) : c.k = k /\ c.side = side
Notes(e, k, side)  == {i \in 1..Len(e.cfs) : e.cfs[i].k = k /\ e.cfs[i].side = side}

Expect(c) ==  \* the winner the documented strategy names, "any" when it names none
  IF c.samemac THEN (IF c.cmp = "tie" THEN "any" ELSE c.cmp)
  ELSE IF ~c.lpart /\ c.rpart THEN "local"
  ELSE IF c.lpart /\ ~c.rpart THEN "remote"
  ELSE IF c.cmp = "tie" THEN "any" ELSE c.cmp

Winner(n) == IF n.res = "local_wins" THEN "local" ELSE IF n.res = "remote_wins" THEN "remote" ELSE "other"
Other(w)  == IF w = "local" THEN "remote" ELSE IF w = "remote" THEN "local" ELSE "other"

ConflictClauses(cfg, g, e) ==
       (IF \/ \E i \in 1..Len(e.cfs) : ~\E c \in Range(e.inst) : c.k = e.cfs[i].k /\ c.side = e.cfs[i].side /\ IsConflict(c)
           \/ \E c \in Range(e.inst) : IsConflict(c) /\ Cardinality(Notes(e, c.k, c.side)) # e.recons
          THEN {"ConflictDetected"} ELSE {})
  \cup (IF \E i \in 1..Len(e.cfs) : \E c \in Range(e.inst) :
              /\ c.k = e.cfs[i].k /\ c.side = e.cfs[i].side
              /\ \/ Expect(c) # "any" /\ Winner(e.cfs[i]) # Expect(c)
                 \/ Winner(e.cfs[i]) = "other"
                 \/ e.cfs[i].aff # (IF c.samemac THEN "none" ELSE Other(Winner(e.cfs[i])))
          THEN {"ConflictRule"} ELSE {})
  \cup UNION {IF /\ e.cfs[i].k = e.cfs[j].k /\ e.cfs[i].side = "fwd" /\ e.cfs[j].side = "rev"
                 /\ Winner(e.cfs[i]) # Other(Winner(e.cfs[j]))
                THEN {IF \E c \in Range(e.inst) : c.k = e.cfs[i].k /\ c.cmp = "tie" THEN "ConflictTieSymmetric" ELSE "ConflictSymmetric"}
                ELSE {} : i \in 1..Len(e.cfs), j \in 1..Len(e.cfs)}

\* ---- the contract -------------------------------------------------------------------------
EdgeClauses(cfg, g, e) ==
  StateClauses(cfg, g, e) \cup ReconClauses(cfg, g, e) \cup HandlerClauses(cfg, g, e)
  \cup OpClauses(cfg, g, e) \cup RqResult(cfg, g, e).bad \cup ConflictClauses(cfg, g, e)

Step(cfg, g, e, obs) ==
  LET r == RqResult(cfg, g, e) IN
  [st     |-> e.st,
   fails  |-> RunAfter(cfg, g.fails, e.chk),
   recons |-> IF e.st = "recovering" THEN Min2(ReconTotal(g, e), 2) ELSE 0,
   pend   |-> EvResult(cfg, g, e).pend,
   qlen   |-> e.qlen,
   q      |-> Aged(cfg, r.q, e.dt),
   ord    |-> r.ord]

\* n = [st, qlen, rfl, hfl, ...]
SureLive(cfg, g) == {m \in DOMAIN g.q : g.q[m].q /\ g.q[m].hi <= cfg.ttl}

NodeClauses(cfg, g, n, lastop) ==
       (IF n.qlen > cfg.qsize THEN {"Capacity"} ELSE {})
  \cup (IF n.qlen < Cardinality(SureLive(cfg, g)) THEN {"ExpireOnlyExpired"} ELSE {})
  \cup (IF cfg.kind = "mgr" /\ n.rfl > 0 /\ n.st # "recovering" THEN {"OnlineAfterReconciliation"} ELSE {})
=============================================================================
