--------------------------- MODULE PartitionDesign ---------------------------
(***************************************************************************)
(* U1: the contract (Partition.tla) is itself model-checked.  The contract  *)
(* judges one observed step at a time with a small, saturating, relative-   *)
(* time ghost (run of failed checks capped at the threshold, reconciliation *)
(* counter capped at 2, per-handler lists of undelivered changes, request   *)
(* ages capped at ttl+1).  Here an arbitrary environment produces EVERY     *)
(* possible step (any check result, any reported state, any deliveries,     *)
(* any handler invocations - accepted or not by the contract) and the       *)
(* contract's verdict is compared, step by step, with the guarantees stated *)
(* directly over the full history kept in absolute terms:                   *)
(*                                                                         *)
(* Mode "state"                                                             *)
(*   - online -> partitioned at a step is legitimate iff the complete list   *)
(*     of check results, cut after some failed check of this step, ends with *)
(*     Retries failures;  partitioned -> recovering iff the step has a       *)
(*     successful check                                                      *)
(*   - reconciliations are counted without saturation: one per stay in       *)
(*     recovering, none elsewhere                                            *)
(*   - the list D of state changes delivered to the handler is a prefix of   *)
(*     the list T of state changes that happened, equal to it whenever no    *)
(*     delivery is under way, and every delivered event is a legal change    *)
(* Mode "queue"  (absolute submission times, a logical arrival counter)      *)
(*   - the handler / Dequeue gets request m at time t legitimately iff m has *)
(*     a pending submission, t - (latest submission) <= ttl, and no other    *)
(*     pending request that arrived earlier is still unexpired               *)
(*                                                                         *)
(* Invariant Agree: the contract flags a step iff the direct statement is   *)
(* broken by it (neither weaker nor stronger), for as long as no earlier    *)
(* step was flagged.  Invariant Prefix: D is a prefix of T until then.       *)
(***************************************************************************)
EXTENDS Partition

CONSTANTS Mode, Retries, MaxSteps

Cfg == [impl |-> "design", kind |-> IF Mode = "state" THEN "mgr" ELSE "queue", st0 |-> IF Mode = "state" THEN "online" ELSE "partitioned",
        retries |-> Retries, qsize |-> 3, ttl |-> 2, nh |-> 1, nmac |-> 2]

StateSet == {"online", "partitioned", "recovering"}
None == <<>>

VARIABLES g,        \* the contract's ghost
          steps, flagged, last,
          H,        \* state mode: all check results so far
          T, D,     \* state mode: changes that happened / were delivered (states entered)
          cnt,      \* state mode: reconciliations started during the current stay in recovering (not saturated)
          st,       \* reported state
          now, seq, \* queue mode: absolute time, arrival counter
          pend,     \* queue mode: per MAC None or <<[first, last, qt, amb]>>
          hand      \* queue mode: per MAC None or <<[first, last]>>
vars == <<g, steps, flagged, last, H, T, D, cnt, st, now, seq, pend, hand>>

Base(op, a, acc, ret, dt, s2) ==
  [op |-> op, a |-> a, ok |-> TRUE, acc |-> acc, ret |-> ret, dt |-> dt, st |-> s2, chk |-> <<>>, evs |-> <<>>, hfl |-> 0,
   rqs |-> <<>>, rfl |-> 0, recons |-> 0, qlen |-> 0, cfs |-> <<>>, inst |-> <<>>]

\* ---- mode "state": the edge universe ---------------------------------------------------------
EvRec  == {[h |-> 1, old |-> o, new |-> n, off |-> 0] : o \in StateSet, n \in StateSet}
EvSeqs == {<<>>} \cup {<<a>> : a \in EvRec} \cup {<<a, b>> : a \in EvRec, b \in EvRec}
Chks   == {<<>>, <<[ok |-> TRUE, off |-> 0]>>, <<[ok |-> FALSE, off |-> 0]>>}
StateEdges ==
  {[Base("tick", 0, TRUE, 0, 1, s2) EXCEPT !.chk = c, !.evs = v, !.hfl = f, !.recons = r] :
      s2 \in StateSet, c \in Chks, v \in EvSeqs, f \in 0..1, r \in 0..2}

StateTime == {"PartitionAfterRetries", "RecoverOnSuccess", "OneReconciliationPerRecovery", "HandlerPerTransition", "HandlerOrder"}

LastN(s, n) == IF Len(s) < n THEN <<>> ELSE SubSeq(s, Len(s) - n + 1, Len(s))
AllFailed(s) == s # <<>> /\ \A i \in 1..Len(s) : ~s[i]
Oks(c) == [i \in 1..Len(c) |-> c[i].ok]

IsPrefix(a, b) == Len(a) <= Len(b) /\ SubSeq(b, 1, Len(a)) = a

DirectState(e) ==
  LET p    == Path(st, e.st)
      pr   == Range(p)
      T2   == T \o p
      D2   == D \o [i \in 1..Len(e.evs) |-> e.evs[i].new]
      inR  == st = "recovering" \/ "recovering" \in pr
      tot  == (IF "recovering" \in pr THEN 0 ELSE cnt) + e.recons
  IN   (IF "partitioned" \in pr /\ ~\E i \in 1..Len(e.chk) : ~e.chk[i].ok /\ AllFailed(LastN(H \o Oks(SubSeq(e.chk, 1, i)), Retries))
          THEN {"PartitionAfterRetries"} ELSE {})
  \cup (IF "recovering" \in pr /\ ~\E i \in 1..Len(e.chk) : e.chk[i].ok THEN {"RecoverOnSuccess"} ELSE {})
  \cup (IF (e.recons > 0 /\ ~inR) \/ (inR /\ tot > 1) \/ ("online" \in pr /\ tot # 1) THEN {"OneReconciliationPerRecovery"} ELSE {})
  \cup (IF \/ \E i \in 1..Len(e.evs) : e.evs[i].new # NextSt(e.evs[i].old)
           \/ ~IsPrefix(D2, T2)
           \/ e.hfl = 0 /\ D2 # T2
          THEN {"Handler"} ELSE {})

RenameH(S) == {IF c \in {"HandlerPerTransition", "HandlerOrder"} THEN "Handler" ELSE c : c \in S}

NextState ==
  \E e \in StateEdges :
    LET cl == EdgeClauses(Cfg, g, e) \cap StateTime
        p  == Path(st, e.st)
    IN /\ last' = [contract |-> RenameH(cl), direct |-> DirectState(e)]
       /\ flagged' = (cl # {})
       /\ g' = Step(Cfg, g, e, <<>>)
       /\ H' = H \o Oks(e.chk)
       /\ T' = T \o p
       /\ D' = D \o [i \in 1..Len(e.evs) |-> e.evs[i].new]
       /\ cnt' = IF e.st = "recovering" THEN (IF "recovering" \in Range(p) THEN 0 ELSE cnt) + e.recons ELSE 0
       /\ st' = e.st
       /\ UNCHANGED <<now, seq, pend, hand>>

\* ---- mode "queue" ----------------------------------------------------------------------------
Macs == 1..2
RqRec  == {[k |-> k, m |-> m, ok |-> ok, off |-> 0] : k \in {"start", "end"}, m \in Macs, ok \in BOOLEAN}
RqSeqs == {<<>>} \cup {<<a>> : a \in RqRec} \cup {<<a, b>> : a \in RqRec, b \in RqRec}
          \cup {<<a, b, c>> : a \in {r \in RqRec : r.k = "start"}, b \in {r \in RqRec : r.k = "end"}, c \in {r \in RqRec : r.k = "start"}}
QueueEdges ==
       {Base("enq", m, acc, 0, 0, "partitioned") : m \in Macs, acc \in BOOLEAN}
  \cup {Base("adv", 1, TRUE, 0, d, "partitioned") : d \in 1..2}
  \cup {Base("deq", 0, TRUE, r, 0, "partitioned") : r \in 0..2}
  \cup {Base("rem", m, TRUE, 0, 0, "partitioned") : m \in Macs}
  \cup {[Base("proc", 0, TRUE, 0, d, "partitioned") EXCEPT !.rqs = q] : q \in RqSeqs, d \in 0..1}

QueueTime == {"NoProcessAfterExpiry", "AtMostOnce", "FifoOrder"}

\* acc = [pend, hand, seq, bad]; absolute time t
Ahead(pd, m, t) == {x \in Macs : x # m /\ pd[x] # None /\ pd[x][1].qt < pd[m][1].qt /\ t - pd[x][1].first <= Cfg.ttl}
\* what is left after m was handed out: everything that arrived before it is gone - unless m's own position is unknown
Behind(pd, m)   == [x \in Macs |-> IF pd[m] = None THEN pd[x]
                                   ELSE IF x = m THEN None
                                   ELSE IF pd[x] # None /\ ~pd[m][1].amb /\ pd[x][1].qt <= pd[m][1].qt THEN None ELSE pd[x]]

DTake(acc, m, t, checkExpiry) ==   \* the queue hands out request m at time t
  [pend |-> Behind(acc.pend, m),
   hand |-> IF checkExpiry THEN [acc.hand EXCEPT ![m] = IF acc.pend[m] = None THEN <<[first |-> t, last |-> t]>> ELSE <<[first |-> acc.pend[m][1].first, last |-> acc.pend[m][1].last]>>]
            ELSE acc.hand,
   seq  |-> acc.seq,
   bad  |-> acc.bad
            \cup (IF acc.pend[m] = None THEN {"AtMostOnce"} ELSE {})
            \cup (IF checkExpiry /\ acc.pend[m] # None /\ t - acc.pend[m][1].last > Cfg.ttl THEN {"NoProcessAfterExpiry"} ELSE {})
            \cup (IF acc.pend[m] # None /\ ~acc.pend[m][1].amb /\ t - acc.pend[m][1].first <= Cfg.ttl /\ Ahead(acc.pend, m, t) # {} THEN {"FifoOrder"} ELSE {})]

DEnd(acc, m, ok, t) ==
  IF ok \/ acc.hand[m] = None \/ acc.pend[m] # None \/ t - acc.hand[m][1].last > Cfg.ttl
    THEN [acc EXCEPT !.hand[m] = None]
    ELSE [acc EXCEPT !.hand[m] = None,
                     !.pend[m] = <<[first |-> acc.hand[m][1].first, last |-> acc.hand[m][1].last, qt |-> acc.seq, amb |-> FALSE]>>,
                     !.seq = @ + 1]

RECURSIVE DFold(_, _, _, _)
DFold(acc, s, i, t) ==
  IF i > Len(s) THEN acc
  ELSE DFold(IF s[i].k = "start" THEN DTake(acc, s[i].m, t, TRUE) ELSE DEnd(acc, s[i].m, s[i].ok, t), s, i + 1, t)

DOp(e) ==
  LET a0 == [pend |-> pend, hand |-> hand, seq |-> seq, bad |-> {}] IN
  IF e.op = "enq" /\ e.acc THEN
       IF pend[e.a] # None THEN
            IF now - pend[e.a][1].first > Cfg.ttl      \* possibly dropped meanwhile: merged, or a new arrival at the back (latest possible position)
              THEN [a0 EXCEPT !.pend[e.a] = <<[@[1] EXCEPT !.last = now, !.qt = seq, !.amb = TRUE]>>, !.seq = @ + 1]
              ELSE [a0 EXCEPT !.pend[e.a] = <<[@[1] EXCEPT !.last = now]>>]
       ELSE [a0 EXCEPT !.pend[e.a] = <<[first |-> now, last |-> now, qt |-> seq, amb |-> FALSE]>>, !.seq = @ + 1]
  ELSE IF e.op = "deq" THEN
       IF e.ret = 0 THEN [a0 EXCEPT !.bad = IF \E x \in Macs : pend[x] # None /\ now - pend[x][1].first <= Cfg.ttl THEN {"FifoOrder"} ELSE {}]
       ELSE DTake(a0, e.ret, now, FALSE)
  ELSE IF e.op = "rem" THEN [a0 EXCEPT !.pend[e.a] = None]
  ELSE a0

DirectQueue(e) == DFold(DOp(e), e.rqs, 1, now)

NextQueue ==
  \E e \in QueueEdges :
    LET cl == EdgeClauses(Cfg, g, e) \cap QueueTime
        d  == DirectQueue(e)
    IN /\ last' = [contract |-> cl, direct |-> d.bad]
       /\ flagged' = (cl # {})
       /\ g' = Step(Cfg, g, e, <<>>)
       /\ pend' = d.pend /\ hand' = d.hand /\ seq' = d.seq
       /\ now' = now + e.dt
       /\ UNCHANGED <<H, T, D, cnt, st>>

\* ---- spec ---------------------------------------------------------------------------------------
Init == /\ g = G0(Cfg) /\ steps = 0 /\ flagged = FALSE /\ last = [contract |-> {}, direct |-> {}]
        /\ H = <<>> /\ T = <<>> /\ D = <<>> /\ cnt = 0 /\ st = Cfg.st0
        /\ now = 0 /\ seq = 0 /\ pend = [m \in Macs |-> None] /\ hand = [m \in Macs |-> None]

Next == /\ ~flagged
        /\ steps < MaxSteps
        /\ steps' = steps + 1
        /\ IF Mode = "state" THEN NextState ELSE NextQueue

Spec == Init /\ [][Next]_vars

\* after the first violation inside one step the two bookkeepings may diverge (what is "still queued" after an
\* out-of-order hand-out): the verdicts must agree on whether the step is flagged and share a clause
Agree  == /\ (last.contract = {}) = (last.direct = {})
          /\ last.contract # {} => last.contract \cap last.direct # {}
          /\ Mode = "state" => last.contract = last.direct
Prefix == ~flagged => IsPrefix(D, T)
GhostTracks == g.st = st

View == vars
=============================================================================
