SPECIFICATION Spec
CONSTANTS Retries = 1  QSize = 1  Fixed = FALSE  MaxLen = 7
INVARIANTS Report
VIEW View
CHECK_DEADLOCK FALSE
