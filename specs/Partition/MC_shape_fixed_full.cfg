SPECIFICATION Spec
CONSTANTS Retries = 2  QSize = 2  Fixed = TRUE  MaxLen = 12
INVARIANTS Clean GhostTracks
VIEW View
CHECK_DEADLOCK FALSE
