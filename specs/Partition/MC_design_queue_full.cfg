SPECIFICATION Spec
CONSTANTS Mode = "queue"  Retries = 1  MaxSteps = 6
INVARIANTS Agree
VIEW View
CHECK_DEADLOCK FALSE
