--------------------------- MODULE PartitionShape ---------------------------
(***************************************************************************)
(* Implementation-shaped design spec of pkg/resilience/manager.go +        *)
(* request_queue.go: one action per harness step, built from one operator   *)
(* per critical section / goroutine step of the code.                       *)
(*                                                                         *)
(*   Check(ok)      checkHealth: counters and decision under m.mu            *)
(*   Deliver        the handler loops of transitionToPartitioned /           *)
(*                  transitionToRecovering (health goroutine) and of         *)
(*                  performReconciliation (reconciliation goroutine), all    *)
(*                  run WITHOUT m.mu; a handler that does not return parks   *)
(*                  the goroutine that called it                             *)
(*   Recon          performReconciliation: DetectConflicts + resolveConflict *)
(*                  (Resolve), RequestQueue.ProcessAll (ProcAll: Dequeue,    *)
(*                  expiry check, handler, "Re-queue if still valid" through *)
(*                  Enqueue with its capacity check), then state := online   *)
(*                  and the handler loop                                     *)
(*   Expire         processQueueLoop: ExpireOld while recovering or online   *)
(*   Enq            Manager.QueueRequest + RequestQueue.Enqueue              *)
(*                                                                         *)
(* Time: one quantum (health check interval) = 4 units, the harness acts     *)
(* half a quantum after each health tick, a queued request lives 9 units.   *)
(*                                                                         *)
(* Fixed = FALSE is the design as found.  Fixed = TRUE is a proposed repair: *)
(* partition events are put on one ordered queue and delivered by a single   *)
(* dispatcher; equal timestamps are broken by comparing the allocations'     *)
(* identities.  The spec carries the contract's ghost (Partition.tla) and    *)
(* judges each of its own steps with EdgeClauses/NodeClauses exactly as      *)
(* PartitionImpl does with the steps of the real code.  Every violating      *)
(* state is printed as <<"DESIGN-CEX", json([clauses, events])>> with events *)
(* in the harness' alphabet; lib/fam_partition replays the shortest history  *)
(* per clause set on the real manager.                                       *)
(***************************************************************************)
EXTENDS Partition, Json

CONSTANTS Retries, QSize, Fixed, MaxLen

Q == 4
H == 2
Cfg == [impl |-> "shape", kind |-> "mgr", hkind |-> "mgr", st0 |-> "online", retries |-> Retries, qsize |-> QSize, ttl |-> 9,
        nh |-> 2, nmac |-> 2, modes |-> <<"ok", "hold">>, hold |-> TRUE, hgate |-> TRUE, rdfail |-> FALSE, scen |-> <<1, 2>>, nsubs |-> 0]

VARIABLES s, g, hist, bad
vars == <<s, g, hist, bad>>

\* queue entries [m, age]; hand = <<>> or <<[m, age]>>; parked = events whose delivery stopped inside handler 1
S0 == [st |-> "online", fails |-> 0, queue |-> <<>>, mode |-> "ok", hand |-> <<>>, armed |-> FALSE,
       parked |-> <<>>, evq |-> <<>>, scen |-> {}]

R0(x) == [s |-> x, chk |-> <<>>, evs |-> <<>>, rqs |-> <<>>, recons |-> 0, cfs |-> <<>>]

Ev(h, old, new, off) == [h |-> h, old |-> old, new |-> new, off |-> off]

\* ---- delivery of one partition event -------------------------------------------------------
\* the calling goroutine invokes handler 1, then handler 2; handler 1 may hold its next "online" event
Call(r, ev, off) ==
  LET r1 == [r EXCEPT !.evs = Append(@, Ev(1, ev.old, ev.new, off))] IN
  IF ev.new = "online" /\ r.s.armed
    THEN [r1 EXCEPT !.s.armed = FALSE, !.s.parked = Append(@, ev)]
    ELSE [r1 EXCEPT !.evs = Append(@, Ev(2, ev.old, ev.new, off))]

\* repaired design: a single dispatcher takes events from an ordered queue
RECURSIVE Drain(_, _)
Drain(r, off) ==
  IF r.s.parked # <<>> \/ r.s.evq = <<>> THEN r
  ELSE Drain(Call([r EXCEPT !.s.evq = Tail(@)], Head(r.s.evq), off), off)

Deliver(r, old, new, off) ==
  LET ev == [old |-> old, new |-> new] IN
  IF Fixed THEN Drain([r EXCEPT !.s.evq = Append(@, ev)], off) ELSE Call(r, ev, off)

\* ---- RequestQueue ---------------------------------------------------------------------------
InQueue(q, m) == \E i \in 1..Len(q) : q[i].m = m
Enqueue(q, ent) == IF Len(q) >= QSize THEN q                \* "request queue full": the error is ignored by ProcessAll
                   ELSE IF InQueue(q, ent.m) THEN q        \* merged into the existing request
                   ELSE Append(q, ent)

ExpireOld(x, d) == IF x.st \in {"recovering", "online"}
                     THEN [x EXCEPT !.queue = SelectSeq(@, LAMBDA ent : ent.age + d <= Cfg.ttl)] ELSE x

\* ---- conflicts ------------------------------------------------------------------------------
Rec(k, side) ==
  IF k = 1 THEN [k |-> 1, side |-> side, samemac |-> FALSE, samesub |-> FALSE, samesite |-> FALSE, lpart |-> TRUE, rpart |-> TRUE,
                 cmp |-> IF side = "fwd" THEN "local" ELSE "remote"]
  ELSE [k |-> 2, side |-> side, samemac |-> FALSE, samesub |-> FALSE, samesite |-> FALSE, lpart |-> TRUE, rpart |-> TRUE, cmp |-> "tie"]
Inst(scen) == (IF 1 \in scen THEN <<Rec(1, "fwd"), Rec(1, "rev")>> ELSE <<>>) \o (IF 2 \in scen THEN <<Rec(2, "fwd"), Rec(2, "rev")>> ELSE <<>>)

\* Manager.resolveConflict
Resolve(c) ==
  LET localNewer == \/ c.cmp = "local"
                    \/ Fixed /\ c.cmp = "tie" /\ c.side = "fwd"    \* repaired: the lower identity wins on both sites
      res == IF c.samemac THEN (IF localNewer THEN "local_wins" ELSE "remote_wins")
             ELSE IF ~c.lpart /\ c.rpart THEN "local_wins"
             ELSE IF c.lpart /\ ~c.rpart THEN "remote_wins"
             ELSE IF localNewer THEN "local_wins" ELSE "remote_wins"
  IN [k |-> c.k, side |-> c.side, res |-> res, aff |-> IF c.samemac THEN "none" ELSE IF res = "local_wins" THEN "remote" ELSE "local"]

ResolveAll(inst) == [i \in 1..Len(inst) |-> Resolve(inst[i])]

\* ---- performReconciliation ------------------------------------------------------------------
Rq(k, m, ok, off) == [k |-> k, m |-> m, ok |-> ok, off |-> off]

Finish(r, off) == Deliver([r EXCEPT !.s.st = "online"], "recovering", "online", off)

RECURSIVE ProcAll(_, _)
ProcAll(r, off) ==
  IF r.s.queue = <<>> THEN Finish(r, off)
  ELSE LET ent == Head(r.s.queue)
           r1  == [r EXCEPT !.s.queue = Tail(@)]
       IN IF ent.age + off > Cfg.ttl THEN ProcAll(r1, off)                                   \* "Check if expired"
          ELSE IF r.s.mode = "ok"
            THEN ProcAll([r1 EXCEPT !.rqs = @ \o <<Rq("start", ent.m, TRUE, off), Rq("end", ent.m, TRUE, off)>>], off)
            ELSE [r1 EXCEPT !.rqs = Append(@, Rq("start", ent.m, FALSE, off)), !.s.hand = <<ent>>]   \* the handler does not return yet

Recon(r, off) ==
  ProcAll([r EXCEPT !.recons = @ + 1, !.cfs = @ \o ResolveAll(Inst(r.s.scen))], off)

\* ---- checkHealth ------------------------------------------------------------------------------
Check(r, ok, off) ==
  LET r1 == [r EXCEPT !.chk = Append(@, [ok |-> ok, off |-> off])] IN
  IF ~ok THEN
       LET f  == Min2(r.s.fails + 1, Retries)
           r2 == [r1 EXCEPT !.s.fails = f]
       IN IF f >= Retries /\ r.s.st = "online"
            THEN Deliver([r2 EXCEPT !.s.st = "partitioned"], "online", "partitioned", off)
            ELSE r2
  ELSE LET r2 == [r1 EXCEPT !.s.fails = 0] IN
       IF r.s.st = "partitioned"
         THEN Recon(Deliver([r2 EXCEPT !.s.st = "recovering"], "partitioned", "recovering", off), off)
         ELSE r2

AgeSeq(q, d)  == [i \in 1..Len(q) |-> [m |-> q[i].m, age |-> Min2(q[i].age + d, Cap(Cfg))]]
AgeAll(x, d) == [x EXCEPT !.queue = AgeSeq(x.queue, d), !.hand = AgeSeq(x.hand, d)]

\* ---- the step relation, in the harness' alphabet ---------------------------------------------
HEv(op, a, ok) == [op |-> op, a |-> a, ok |-> ok]
Edge(hev, acc, dt, inst, r) ==
  [op |-> hev.op, a |-> hev.a, ok |-> hev.ok, acc |-> acc, ret |-> 0, dt |-> dt, st |-> r.s.st, chk |-> r.chk, evs |-> r.evs,
   hfl |-> Len(r.s.parked), rqs |-> r.rqs, rfl |-> Len(r.s.hand), recons |-> r.recons, qlen |-> Len(r.s.queue), cfs |-> r.cfs, inst |-> inst]

NodeOfS(x) == [st |-> x.st, qlen |-> Len(x.queue), rfl |-> Len(x.hand), hfl |-> Len(x.parked)]

Take(hev, e, r) ==
  LET g2 == Step(Cfg, g, e, <<>>) IN
  /\ s' = r.s
  /\ g' = g2
  /\ hist' = Append(hist, hev)
  /\ bad' = EdgeClauses(Cfg, g, e) \cup NodeClauses(Cfg, g2, NodeOfS(r.s), hev.op)

Tick(ok) ==
  LET x1  == ExpireOld(s, H)                                    \* the expiry loop during the first half of the step
      r1  == Check(R0(x1), ok, H)                                \* the health tick
      x2  == AgeAll(ExpireOld(r1.s, Q), Q)                      \* the expiry loop during the second half
      r   == [r1 EXCEPT !.s = x2]
      hev == HEv("tick", IF ok THEN 0 ELSE 1, ok)
  IN Take(hev, Edge(hev, TRUE, Q, Inst(s.scen), r), r)

Enq(m) ==
  LET hev == HEv("enq", m, TRUE)
      acc == s.st # "online" /\ Len(s.queue) < QSize
      x   == IF acc /\ ~InQueue(s.queue, m) THEN [s EXCEPT !.queue = Append(@, [m |-> m, age |-> 0])] ELSE s
      r   == R0(x)
  IN Take(hev, Edge(hev, acc, 0, Inst(s.scen), r), r)

Mode(i) ==
  LET hev == HEv("mode", i, TRUE)
      md  == Cfg.modes[i + 1]
      r   == R0([s EXCEPT !.mode = md])
  IN /\ s.mode # md
     /\ Take(hev, Edge(hev, TRUE, 0, Inst(s.scen), r), r)

Rel(ok) ==
  LET hev == HEv("rel", 0, ok) IN
  IF s.hand = <<>> THEN Take(hev, Edge(hev, FALSE, 0, Inst(s.scen), R0(s)), R0(s))
  ELSE LET ent == s.hand[1]
           x   == [s EXCEPT !.hand = <<>>,
                            !.queue = IF ~ok /\ ent.age < Cfg.ttl THEN Enqueue(@, ent) ELSE @]   \* "Re-queue if still valid"
           r   == ProcAll([R0(x) EXCEPT !.rqs = <<Rq("end", ent.m, ok, 0)>>], 0)
       IN Take(hev, Edge(hev, TRUE, 0, Inst(s.scen), r), r)

HHold ==
  LET hev == HEv("hhold", 0, TRUE)
      acc == s.parked = <<>> /\ ~s.armed
      r   == R0(IF acc THEN [s EXCEPT !.armed = TRUE] ELSE s)
  IN Take(hev, Edge(hev, acc, 0, Inst(s.scen), r), r)

HRel ==
  LET hev == HEv("hrel", 0, TRUE) IN
  IF s.parked = <<>> THEN Take(hev, Edge(hev, FALSE, 0, Inst(s.scen), R0(s)), R0(s))
  ELSE LET ev == s.parked[1]
           r1 == [R0([s EXCEPT !.parked = Tail(@)]) EXCEPT !.evs = <<Ev(2, ev.old, ev.new, 0)>>]   \* the parked goroutine goes on to handler 2
           r  == IF Fixed THEN Drain(r1, 0) ELSE r1
       IN Take(hev, Edge(hev, TRUE, 0, Inst(s.scen), r), r)

Conf(k) ==
  LET hev == HEv("conf", k, TRUE)
      r   == R0([s EXCEPT !.scen = @ \cup {k}])
  IN /\ k \notin s.scen
     /\ Take(hev, Edge(hev, TRUE, 0, Inst(s.scen), r), r)

Init == s = S0 /\ g = G0(Cfg) /\ hist = <<>> /\ bad = {}

Next == /\ bad = {}
        /\ Len(hist) < MaxLen
        /\ \/ \E ok \in BOOLEAN : Tick(ok)
           \/ \E m \in 1..2 : Enq(m)
           \/ \E i \in 0..1 : Mode(i)
           \/ \E ok \in BOOLEAN : Rel(ok)
           \/ HHold
           \/ HRel
           \/ \E k \in 1..2 : Conf(k)

Spec == Init /\ [][Next]_vars

Report == bad = {} \/ PrintT(<<"DESIGN-CEX", ToJson([clauses |-> bad, events |-> hist])>>)
Clean  == bad = {}
\* the model's state and the contract's ghost agree
GhostTracks == g.st = s.st /\ g.qlen = Len(s.queue)

View == <<s, g, bad>>
=============================================================================
