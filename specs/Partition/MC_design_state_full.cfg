SPECIFICATION Spec
CONSTANTS Mode = "state"  Retries = 2  MaxSteps = 4
INVARIANTS Agree Prefix GhostTracks
VIEW View
CHECK_DEADLOCK FALSE
