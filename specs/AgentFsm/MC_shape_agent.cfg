SPECIFICATION Spec
CONSTANTS Kind = "agent"  Fixed = FALSE  MaxLen = 8  MaxRetries = 2  Retry = 2
INVARIANTS Clean
VIEW View
CHECK_DEADLOCK FALSE
