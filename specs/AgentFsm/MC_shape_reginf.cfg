SPECIFICATION Spec
CONSTANTS Kind = "reg"  Fixed = FALSE  MaxLen = 8  MaxRetries = 0  Retry = 1
INVARIANTS Clean
VIEW View
CHECK_DEADLOCK FALSE
