---------------------------- MODULE AgentFsmDesign ----------------------------
(***************************************************************************)
(* U1: the contract of AgentFsm.tla (relative, capped ghost; judged step by  *)
(* step) implies the guarantees stated directly over the ABSOLUTE history of *)
(* a run.  Next = the environment picks any event of the harness' alphabet   *)
(* and the component gives ANY answer (requests sent, call returned or not,  *)
(* new state, handler calls, heartbeats, Stop returned or not) that the      *)
(* contract accepts (no clause fires); what the Nexus and the http client do *)
(* (answers, abandoned requests) is the environment's free choice.  A TLC    *)
(* state is one accepted history; the invariants below are the guarantees.   *)
(*                                                                         *)
(* Mode "reg": RegisterWithRetry alone (its return is observed).             *)
(* Mode "agent": the Agent (state, one handler, heartbeats, Stop).           *)
(* Mode "tab": the subscriber table with one churn handler (answers = the    *)
(* handler calls; the lookups are functions of the table in the contract     *)
(* itself and are not re-stated here).                                       *)
(***************************************************************************)
EXTENDS AgentFsm

CONSTANTS Mode, MaxT, MaxRetries, Retry

HB == 2
Scr == {"approved", "pending", "rejected", "s500"}

Cfg == [impl |-> "design", kind |-> Mode, maxretries |-> MaxRetries, retry |-> Retry, hb |-> HB, nh |-> IF Mode = "agent" THEN 1 ELSE 0,
        nid |-> 2, macs |-> <<>>, ntes |-> <<>>, isps |-> <<"", "ispA", "ispB">>, nch |-> 1, nser |-> 0]

VARIABLES g, env, h, k
vars == <<g, env, h, k>>

States == {"bootstrap", "connected", "partitioned"}

Env0 == [started |-> FALSE, flight |-> FALSE, state |-> "bootstrap", stopped |-> FALSE, devid |-> ""]
H0 == [now |-> 0, reqs |-> <<>>, ends |-> <<>>, cancelled |-> FALSE, reqsAtCancel |-> 0, ret |-> "", connAt |-> -1, stopAt |-> -1, hbn |-> 0,
       changes |-> <<>>, calls |-> <<>>, t |-> [i \in 1..2 |-> ""], churns |-> 0, moves |-> 0]

Last(s) == s[Len(s)]

(***************************************************************************)
(* one step of registration / life cycle                                    *)
(***************************************************************************)
RStep(ev, nreq, ret, abort, nstate, callsel, nhb, stopret, devid) ==
    LET stopop == IF Mode = "agent" THEN "stop" ELSE "cancel"
        noop == (ev.op = "start" /\ env.started) \/ (ev.op = "ans" /\ ~env.flight) \/ (ev.op = "stop" /\ env.stopped)
        now2 == h.now + ev.d
        ended == env.flight /\ ((ev.op = "ans") \/ abort)
        cls == IF ev.op = "ans" THEN Class(ev.s) ELSE "retry"
        call(o, n) == [h |-> 1, old |-> o, new |-> n, locked |-> FALSE]
        calls == IF callsel = 0 THEN <<>> ELSE IF callsel = 1 THEN <<call(env.state, nstate)>>
                 ELSE IF callsel = 2 THEN <<call(env.state, nstate), call(env.state, nstate)>> ELSE <<call(nstate, env.state)>>
        hbs == [i \in 1..nhb |-> [status |-> "connected", subs |-> 0, ntes |-> 0]]
        e == [op |-> ev.op, s |-> ev.s, d |-> ev.d, noop |-> noop, nreq |-> nreq,
              gap |-> IF nreq >= 1 /\ Len(h.ends) > 0 THEN now2 - Last(h.ends).t ELSE -1,
              wf |-> TRUE, abort |-> abort, asince |-> 0, ret |-> ret, rdev |-> IF ret = "ok" THEN devid ELSE "",
              calls |-> calls, hbs |-> hbs, stopret |-> stopret]
        n == [flight |-> (env.flight /\ ~ended) \/ nreq >= 1, state |-> IF Mode = "agent" THEN nstate ELSE "",
              online |-> nstate = "connected", healthok |-> TRUE, devid |-> devid, hascfg |-> devid = "dev-7", nh |-> Cfg.nh, subs |-> 0, ntes |-> 0]
        g2 == Step(Cfg, g, e, n)
        cancelnow == ev.op = stopop /\ ~noop
    IN /\ abort => env.flight /\ ev.op \in {"adv", stopop}
       /\ (cancelnow /\ env.flight) => abort            \* the transport honours the context
       /\ Mode = "reg" => nstate = "bootstrap" /\ callsel = 0 /\ nhb = 0 /\ ~stopret /\ (ret = "ok" \/ devid = "")
       /\ Mode = "agent" => ret = ""
       /\ EdgeClauses(Cfg, g, e) \cup NodeClauses(Cfg, g2, n, ev.op) = {}
       /\ g' = g2
       /\ env' = [started |-> env.started \/ ev.op = "start", flight |-> n.flight, state |-> nstate, stopped |-> env.stopped \/ ev.op = "stop", devid |-> devid]
       /\ h' = [h EXCEPT !.now = now2,
                         !.reqs = h.reqs \o [i \in 1..nreq |-> now2],
                         !.ends = IF ended THEN Append(h.ends, [t |-> now2, cls |-> cls]) ELSE h.ends,
                         !.cancelled = h.cancelled \/ cancelnow,
                         !.reqsAtCancel = IF cancelnow /\ ~h.cancelled THEN Len(h.reqs) ELSE h.reqsAtCancel,
                         !.ret = IF ret # "" THEN ret ELSE h.ret,
                         !.connAt = IF nstate = "connected" /\ env.state # "connected" THEN now2 ELSE h.connAt,
                         !.stopAt = IF ev.op = "stop" /\ ~noop THEN now2 ELSE h.stopAt,
                         !.hbn = h.hbn + nhb,
                         !.changes = IF nstate # env.state THEN Append(h.changes, <<env.state, nstate>>) ELSE h.changes,
                         !.calls = h.calls \o [i \in 1..Len(calls) |-> <<calls[i].old, calls[i].new>>]]
       /\ k' = k + 1

REvents == {[op |-> "start", s |-> "", d |-> 0], [op |-> "adv", s |-> "", d |-> 1], [op |-> IF Mode = "agent" THEN "stop" ELSE "cancel", s |-> "", d |-> 0]}
           \cup {[op |-> "ans", s |-> sc, d |-> 0] : sc \in Scr}

A == Mode = "agent"
RNext == \E ev \in REvents, nreq \in (IF A THEN 0..1 ELSE 0..2), ret \in (IF A THEN {""} ELSE {"", "ok", "err"}), abort \in BOOLEAN,
            nstate \in (IF A THEN States ELSE {"bootstrap"}), callsel \in (IF A THEN 0..3 ELSE {0}), nhb \in (IF A THEN 0..2 ELSE {0}),
            stopret \in (IF A THEN BOOLEAN ELSE {FALSE}), devid \in {"", "dev-7"} :
              RStep(ev, nreq, ret, abort, nstate, callsel, nhb, stopret, devid)

(***************************************************************************)
(* one step of the subscriber table (ISP only; one churn handler)            *)
(***************************************************************************)
TStep(id, isp, rm, ncalls, truth) ==
    LET old == g.t[id]
        e == [op |-> IF rm THEN "rm" ELSE "set", id |-> id, mac |-> "m", nte |-> "n", isp |-> isp, port |-> 0,
              churn |-> [i \in 1..ncalls |-> [h |-> 1, sub |-> id, old |-> IF truth THEN old.isp ELSE isp, new |-> isp, locked |-> FALSE]]]
        g2 == Step(Cfg, g, e, <<>>)
    IN /\ EdgeClauses(Cfg, g, e) = {}
       /\ g' = g2
       /\ h' = [h EXCEPT !.churns = h.churns + ncalls,
                         !.moves = h.moves + (IF ~rm /\ old.present /\ old.isp # "" /\ isp # "" /\ old.isp # isp THEN 1 ELSE 0)]
       /\ env' = env
       /\ k' = k + 1

TNext == \E id \in 1..2, isp \in {"ispA", "ispB"}, rm \in BOOLEAN, ncalls \in 0..2, truth \in BOOLEAN : TStep(id, isp, rm, ncalls, truth)

Init == g = G0(Cfg) /\ env = Env0 /\ h = H0 /\ k = 0
Next == k < MaxT /\ IF Mode = "tab" THEN TNext ELSE RNext
Spec == Init /\ [][Next]_vars

(***************************************************************************)
(* the guarantees, over the absolute history                                 *)
(***************************************************************************)
NR == Len(h.reqs)
NE == Len(h.ends)
Decided == NE > 0 /\ Last(h.ends).cls \in {"approved", "rejected"}
Approved == NE > 0 /\ Last(h.ends).cls = "approved"
Used == MaxRetries > 0 /\ NE >= MaxRetries

\* never more than MaxRetries attempts
InvBudget == MaxRetries > 0 => NR <= MaxRetries
\* one request at a time, the next one at least RetryInterval after the previous attempt ended
InvSpacing == /\ NR <= NE + 1
              /\ \A i \in 2..NR : h.reqs[i] - h.ends[i - 1].t >= Retry
\* an approved or rejected answer is the last thing that ever happened on the wire
InvFinal == \A i \in 1..NE : h.ends[i].cls \in {"approved", "rejected"} => (i = NE /\ NR = i)
\* nothing is sent after the cancellation
InvCancel == h.cancelled => NR = h.reqsAtCancel
\* the call returns a response exactly when the (last) answer was an approval, an error exactly when it was rejected,
\* when the budget is used up or when it was cancelled after having been started
InvReturn == Mode = "reg" =>
              /\ (h.ret = "ok") = Approved
              /\ (h.ret = "err") = (~Approved /\ env.started /\ ((Decided /\ Last(h.ends).cls = "rejected") \/ (Used /\ ~env.flight /\ NR = NE) \/ h.cancelled))
\* while undecided, not cancelled and with budget left the next request is never overdue
InvProgress == (env.started /\ ~env.flight /\ ~Decided /\ ~Used /\ ~h.cancelled) => (NE > 0 /\ h.now - Last(h.ends).t < Retry)
\* the agent leaves bootstrap only through an approval, it is connected at the very moment of the approval, its state
\* moves along the documented edges only, and the device id is the approved one
InvOnline == Mode = "agent" =>
              /\ (env.state # "bootstrap") => Approved
              /\ Approved => h.connAt = Last(h.ends).t
              /\ \A i \in 1..Len(h.changes) : h.changes[i] \in AllowedEdges
              /\ (Approved => env.devid = "dev-7") /\ (~Approved => env.devid = "")
\* every change reported exactly once with its true old and new state
InvHandlers == Mode = "agent" => h.calls = h.changes
\* one heartbeat per interval from the connection to Stop
InvHeartbeat == Mode = "agent" =>
                 h.hbn = IF h.connAt < 0 THEN 0 ELSE ((IF h.stopAt >= h.connAt THEN h.stopAt ELSE h.now) - h.connAt) \div HB
\* churn events = ISP changes
InvChurn == Mode = "tab" => h.churns = h.moves

View == <<g, env, h>>
=============================================================================
