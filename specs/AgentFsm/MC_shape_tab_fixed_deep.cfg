SPECIFICATION Spec
CONSTANTS Kind = "tab"  Fixed = TRUE  MaxLen = 7  MaxRetries = 0  Retry = 1
INVARIANTS Clean
VIEW View
CHECK_DEADLOCK FALSE
