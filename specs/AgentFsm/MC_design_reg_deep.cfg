SPECIFICATION Spec
CONSTANTS Mode = "reg"  MaxT = 10  MaxRetries = 3  Retry = 2
INVARIANTS InvBudget InvSpacing InvFinal InvCancel InvReturn InvProgress InvOnline InvHandlers InvHeartbeat InvChurn
VIEW View
CHECK_DEADLOCK FALSE
