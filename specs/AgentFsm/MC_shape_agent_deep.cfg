SPECIFICATION Spec
CONSTANTS Kind = "agent"  Fixed = FALSE  MaxLen = 11  MaxRetries = 0  Retry = 2
INVARIANTS Clean
VIEW View
CHECK_DEADLOCK FALSE
