SPECIFICATION Spec
CONSTANTS Kind = "reg"  Fixed = FALSE  MaxLen = 9  MaxRetries = 2  Retry = 2
INVARIANTS Clean
VIEW View
CHECK_DEADLOCK FALSE
