SPECIFICATION Spec
CONSTANTS Mode = "agent"  MaxT = 4  MaxRetries = 0  Retry = 1
INVARIANTS InvBudget InvSpacing InvFinal InvCancel InvReturn InvProgress InvOnline InvHandlers InvHeartbeat InvChurn
VIEW View
CHECK_DEADLOCK FALSE
