------------------------------ MODULE AgentFsm ------------------------------
(***************************************************************************)
(* Contract of pkg/agent (extra family X11, not one of the 20 listed        *)
(* properties): the registration protocol of bootstrap.go                   *)
(* (Register / RegisterWithRetry / BootstrapWithZTP with ZTP disabled), the *)
(* Agent life cycle of agent.go (New, OnStateChange, Start, bootstrapLoop,  *)
(* heartbeatLoop, Stop, State / IsOnline / DeviceID / DeviceConfig / Health)*)
(* and the agent's subscriber and NTE tables (Set / Remove / Get, the       *)
(* by-MAC and by-NTE lookups, the counts, ISP churn detection).             *)
(*                                                                         *)
(* What the component is on this tree.  RegisterWithRetry waits a FIXED     *)
(* RetryInterval between attempts (no growing / capped backoff exists, so   *)
(* none is demanded).  The only state change the code ever performs is      *)
(* bootstrap -> connected; StatePartitioned / StateRecovering are declared  *)
(* but never entered, heartbeat failures do not exist (the heartbeat is     *)
(* built and logged, "TODO: Send heartbeat to CLSet. For now, just log it"),*)
(* watchLoop only waits for Stop.  The heartbeat is therefore observed      *)
(* where the code puts it: in the logger.                                   *)
(*                                                                         *)
(* clause               guarantee (source in the code / documentation)       *)
(* -------------------  --------------------------------------------------  *)
(* RetrySpacing         "RetryInterval is how long to wait between           *)
(*                      registration attempts": a new request reaches the    *)
(*                      Nexus only as the first one after the call started   *)
(*                      or at least RetryInterval after the previous attempt *)
(*                      ended (answer received, transport error, or given up *)
(*                      by the http client); never two at a time             *)
(* AttemptBudget        "MaxRetries is the maximum number of registration    *)
(*                      attempts (0 = infinite)": never more than MaxRetries *)
(*                      requests, and when the MaxRetries-th attempt has     *)
(*                      ended undecided the call returns an error            *)
(* RejectedStops        `case "rejected": return ... "registration           *)
(*                      rejected"`: a rejected answer ends the call with an  *)
(*                      error at once; no request is sent afterwards         *)
(* CancelStops          "until success or context cancellation": once the    *)
(*                      context is cancelled (Agent.Stop) the call returns   *)
(*                      an error without waiting and no request is sent      *)
(*                      afterwards                                           *)
(* ApprovedReturns      "Status: approved | pending | rejected": the call    *)
(*                      returns a response (nil error) exactly when an       *)
(*                      answer with HTTP 200/202 and status "approved" was   *)
(*                      received, it returns THAT answer (device id) at      *)
(*                      once, and sends nothing afterwards                   *)
(* RetriesUntilDecided  "attempts registration with retries until success    *)
(*                      or context cancellation": a pending answer, an       *)
(*                      unknown status, an HTTP error (401, 403, 5xx), an    *)
(*                      unparsable body, a transport error or a timed-out    *)
(*                      request does not end the call (unless the budget is  *)
(*                      used up): the next request is on the wire when       *)
(*                      RetryInterval has elapsed                            *)
(* RequestWellFormed    every request is POST <NexusServerURL>               *)
(*                      /api/v1/devices/register, Content-Type               *)
(*                      application/json, carrying the device's serial and   *)
(*                      the agent version                                    *)
(* OnlineOnlyApproved   "StateBootstrap is the initial state", "IsOnline     *)
(*                      returns true if the agent is connected": the state   *)
(*                      is connected only after an approved answer; IsOnline *)
(*                      = (State = connected); Health reports the same       *)
(*                      state, online flag, device id and counts             *)
(* ApprovedConnects     "Bootstrap complete ... Transition to connected      *)
(*                      state", "DeviceID returns the assigned device ID":   *)
(*                      after an approved answer the agent is connected and  *)
(*                      DeviceID / DeviceConfig are those of that answer;    *)
(*                      they never change otherwise                          *)
(* DocumentedEdges      the state changes only along bootstrap -> connected, *)
(*                      connected -> partitioned, partitioned -> recovering, *)
(*                      recovering -> connected | partitioned (the meaning   *)
(*                      given to the four states in types.go); a rejected,   *)
(*                      exhausted or cancelled registration leaves the agent *)
(*                      in bootstrap                                         *)
(* HandlerPerChange     "StateChangeHandler is called when the agent state   *)
(*                      changes": every handler registered before the change *)
(*                      is called exactly once per change with the true old  *)
(*                      and new state, and never without a change            *)
(* HandlersUnlocked     state-change and churn handlers are called with none *)
(*                      of the agent's locks held, so that a handler may     *)
(*                      call the agent's accessors (setState and             *)
(*                      handleISPChurn copy the handler list and release     *)
(*                      a.mu before calling - the design intent; NOT a       *)
(*                      written promise, recorded as robustness)             *)
(* HeartbeatCadence     "heartbeatLoop sends periodic heartbeats" every      *)
(*                      HeartbeatInterval: exactly one heartbeat per         *)
(*                      interval while connected and not stopped, counted    *)
(*                      from the moment of connection; none before, none     *)
(*                      after Stop                                           *)
(* HeartbeatTruth       a heartbeat carries status "connected" and the       *)
(*                      current subscriber and NTE counts                    *)
(* StopQuiesces         "Stop stops the agent gracefully": Stop returns      *)
(*                      (also with a request in flight, which is abandoned)  *)
(*                      and afterwards the state does not change             *)
(* LookupAgrees         GetSubscriber(id) returns what the last              *)
(*                      SetSubscriber for id stored, nil after               *)
(*                      RemoveSubscriber / if never set                      *)
(* NoStaleMatch         GetSubscriberByMAC / ByNTE return nil iff no stored  *)
(*                      subscriber has that MAC / NTE, otherwise one that is *)
(*                      stored NOW and has it (a replaced or removed record  *)
(*                      never matches); which one of several is left open    *)
(* CountsTrue           GetSubscriberCount = size of the table,              *)
(*                      GetSubscriberCountByISP = number of stored           *)
(*                      subscribers per ISP (no other non-zero entries)      *)
(* ChurnOnce            "ISPChurnHandler is called when a subscriber changes *)
(*                      ISPs": SetSubscriber of a stored subscriber whose    *)
(*                      (non-empty) ISP differs from the new (non-empty) one *)
(*                      calls every churn handler exactly once with the      *)
(*                      subscriber, the old and the new ISP                  *)
(* ChurnOnlyOnChange    no churn event for a new subscriber, for an          *)
(*                      unchanged ISP, or for Remove / NTE operations; any   *)
(*                      event that is delivered names the true old and new   *)
(*                      ISP, at most once per handler                        *)
(* NteAgrees            GetNTE(serial) returns what the last SetNTE stored,  *)
(*                      nil after RemoveNTE; GetNTECount = size              *)
(*                                                                         *)
(* Weakest readings.  An ISP change from or to the empty ISP id may or may   *)
(* not be reported (the code reports old # "" only).  Nothing is demanded    *)
(* about the ORDER in which several handlers are called, about unknown       *)
(* status strings other than "they are not a decision", about the http       *)
(* client's own timeout (an abandoned request is an environment fact, `abort`*)
(* - the contract only says that it counts as an attempt that ended          *)
(* undecided), about the state after Stop (it stays what it was).            *)
(*                                                                         *)
(* Time is counted in units (harness: 10 s); RetryInterval = cfg.retry,      *)
(* HeartbeatInterval = cfg.hb units; the ghost keeps capped relative ages.   *)
(***************************************************************************)
EXTENDS Integers, FiniteSets, Sequences, TLC

Min2(a, b) == IF a < b THEN a ELSE b
SeqSet(s) == {s[i] : i \in 1..Len(s)}

Class(s) == IF s \in {"approved", "approved202"} THEN "approved" ELSE IF s = "rejected" THEN "rejected" ELSE "retry"
Dev(s)   == IF s = "approved" THEN "dev-7" ELSE IF s = "approved202" THEN "dev-8" ELSE ""
WithCfg(s) == s = "approved"

IsTab(cfg)   == cfg.kind = "tab"
IsAgent(cfg) == cfg.kind = "agent"
IsReg(cfg)   == cfg.kind \in {"reg", "ztp"}

AllowedEdges == {<<"bootstrap", "connected">>, <<"connected", "partitioned">>, <<"partitioned", "recovering">>,
                 <<"recovering", "connected">>, <<"recovering", "partitioned">>}

(***************************************************************************)
(* registration + life cycle                                                *)
(* ghost g = [ph, att, wait, cancelled, why, state, devid, hascfg, nh,       *)
(*            hbph, stopped, subs, ntes, p]                                  *)
(*   ph     idle | flight | wait | done   (of the registration call)         *)
(*   att    requests seen so far, capped at maxretries+1 (0 if unlimited)    *)
(*   wait   units since the last attempt ended, capped at retry              *)
(*   why    "" | approved | rejected | exhausted | cancelled                 *)
(*   hbph   units since the last heartbeat was due (-1: no heartbeat loop)   *)
(*   p      what the step that led here did (for the clauses that need the   *)
(*          observation after the step)                                      *)
(* edge e = [op, s, d, ...,  noop, nreq, gap, wf, abort, asince, ret, rdev,  *)
(*           calls, hbs, stopret]                                            *)
(***************************************************************************)
NoP == [state |-> "bootstrap", nh |-> 0, calls |-> <<>>, dec |-> "", dev |-> "", hascfg |-> FALSE, devid |-> "", oldcfg |-> FALSE,
        stopnow |-> FALSE, stopret |-> FALSE, wasstopped |-> FALSE]

RG0(cfg) == [ph |-> "idle", att |-> 0, wait |-> 0, cancelled |-> FALSE, why |-> "", state |-> "bootstrap", devid |-> "", hascfg |-> FALSE,
             nh |-> cfg.nh, hbph |-> -1, stopped |-> FALSE, subs |-> 0, ntes |-> 0, p |-> [NoP EXCEPT !.nh = cfg.nh]]

AttCap(cfg) == IF cfg.maxretries > 0 THEN cfg.maxretries + 1 ELSE 0

\* how the attempt that was in flight ended in this step
EndCls(g, e) == IF g.ph = "flight" /\ e.op = "ans" /\ ~e.noop THEN Class(e.s)
                ELSE IF g.ph = "flight" /\ e.abort THEN "retry"
                ELSE "none"
Cancelling(e) == e.op \in {"cancel", "stop"} /\ ~e.noop
Exhausted(cfg, g) == cfg.maxretries > 0 /\ g.att >= cfg.maxretries

\* the decision this step brings about ("" = none)
Decide(cfg, g, e) ==
    IF g.ph = "done" THEN ""
    ELSE IF g.ph = "idle" THEN (IF e.op = "start" /\ ~e.noop /\ g.cancelled THEN "cancelled" ELSE "")
    ELSE IF Cancelling(e) THEN "cancelled"
    ELSE IF EndCls(g, e) = "approved" THEN "approved"
    ELSE IF EndCls(g, e) = "rejected" THEN "rejected"
    ELSE IF EndCls(g, e) = "retry" /\ Exhausted(cfg, g) THEN "exhausted"
    ELSE ""

Why2(cfg, g, e) == IF g.why # "" THEN g.why ELSE Decide(cfg, g, e)

\* a new request is due in this step
Due(cfg, g, e) == /\ ~g.cancelled /\ ~Cancelling(e)
                  /\ \/ e.op = "start" /\ ~e.noop /\ g.ph = "idle"
                     \/ e.op = "adv" /\ g.ph = "wait" /\ g.wait + e.d >= cfg.retry

RegEdge(cfg, g, e) ==
    LET dec == Decide(cfg, g, e)
        why == Why2(cfg, g, e)
        due == Due(cfg, g, e)
    IN  (IF e.nreq = 0 /\ due THEN {"RetriesUntilDecided"} ELSE {})
   \cup (IF e.nreq >= 1 /\ ~due
           THEN (IF g.cancelled \/ Cancelling(e) THEN {"CancelStops"}
                 ELSE IF why = "rejected" THEN {"RejectedStops"}
                 ELSE IF why = "approved" THEN {"ApprovedReturns"}
                 ELSE IF why = "exhausted" THEN {"AttemptBudget"}
                 ELSE {"RetrySpacing"})
           ELSE {})
   \cup (IF e.nreq >= 1 /\ due /\ (e.nreq > 1 \/ (e.op = "adv" /\ e.gap < cfg.retry)) THEN {"RetrySpacing"} ELSE {})
   \cup (IF cfg.maxretries > 0 /\ g.att + e.nreq > cfg.maxretries THEN {"AttemptBudget"} ELSE {})
   \cup (IF ~e.wf THEN {"RequestWellFormed"} ELSE {})
   \cup (IF IsReg(cfg)
           THEN (IF dec = "approved" /\ ~(e.ret = "ok" /\ e.rdev = Dev(e.s)) THEN {"ApprovedReturns"} ELSE {})
           \cup (IF dec = "rejected" /\ e.ret # "err" THEN {"RejectedStops"} ELSE {})
           \cup (IF dec = "cancelled" /\ e.ret # "err" THEN {"CancelStops"} ELSE {})
           \cup (IF dec = "exhausted" /\ e.ret # "err" THEN {"AttemptBudget"} ELSE {})
           \cup (IF dec = "" /\ e.ret = "ok" THEN {"ApprovedReturns"} ELSE {})
           \cup (IF dec = "" /\ e.ret = "err" THEN {"RetriesUntilDecided"} ELSE {})
           ELSE {})

HbDue(cfg, g, e) == IF g.hbph >= 0 /\ e.op = "adv" THEN (g.hbph + e.d) \div cfg.hb ELSE 0

AgentEdge(cfg, g, e) ==
      (IF Len(e.hbs) # HbDue(cfg, g, e) THEN {"HeartbeatCadence"} ELSE {})
 \cup (IF \E i \in 1..Len(e.hbs) : ~(e.hbs[i].status = "connected" /\ e.hbs[i].subs = g.subs /\ e.hbs[i].ntes = g.ntes) THEN {"HeartbeatTruth"} ELSE {})
 \cup (IF \E i \in 1..Len(e.calls) : e.calls[i].locked THEN {"HandlersUnlocked"} ELSE {})

RegStep(cfg, g, e, n) ==
    LET dec == Decide(cfg, g, e)
        why == Why2(cfg, g, e)
        cls == EndCls(g, e)
        ph2 == IF why # "" THEN "done" ELSE IF n.flight THEN "flight" ELSE IF cls = "retry" THEN "wait" ELSE g.ph
    IN [ph        |-> ph2,
        att       |-> Min2(g.att + e.nreq, AttCap(cfg)),
        wait      |-> IF cls # "none" THEN (IF e.abort THEN Min2(e.asince, cfg.retry) ELSE 0)
                      ELSE IF g.ph = "wait" /\ e.op = "adv" THEN Min2(g.wait + e.d, cfg.retry) ELSE g.wait,
        cancelled |-> g.cancelled \/ Cancelling(e),
        why       |-> why,
        state     |-> n.state, devid |-> n.devid, hascfg |-> n.hascfg, nh |-> n.nh, subs |-> n.subs, ntes |-> n.ntes,
        stopped   |-> g.stopped \/ (e.op = "stop" /\ ~e.noop),
        hbph      |-> IF ~IsAgent(cfg) \/ Cancelling(e) \/ g.stopped THEN -1
                      ELSE IF dec = "approved" THEN 0
                      ELSE IF g.hbph >= 0 /\ e.op = "adv" THEN (g.hbph + e.d) % cfg.hb ELSE g.hbph,
        p         |-> [state |-> g.state, nh |-> g.nh, calls |-> e.calls, dec |-> dec, dev |-> Dev(e.s), hascfg |-> WithCfg(e.s),
                       devid |-> g.devid, oldcfg |-> g.hascfg, stopnow |-> (e.op = "stop" /\ ~e.noop), stopret |-> e.stopret, wasstopped |-> g.stopped]]

AgentNode(cfg, g, n) ==
    LET p == g.p
        changed == p.state # n.state
        CallsOf(h) == {i \in 1..Len(p.calls) : p.calls[i].h = h}
    IN  (IF changed /\ <<p.state, n.state>> \notin AllowedEdges THEN {"DocumentedEdges"} ELSE {})
   \cup (IF (n.state = "connected" /\ g.why # "approved") \/ n.online # (n.state = "connected") \/ ~n.healthok THEN {"OnlineOnlyApproved"} ELSE {})
   \cup (IF p.dec = "approved" /\ ~(n.state = "connected" /\ n.devid = p.dev /\ n.hascfg = p.hascfg) THEN {"ApprovedConnects"} ELSE {})
   \cup (IF p.dec # "approved" /\ ~(n.devid = p.devid /\ n.hascfg = p.oldcfg) THEN {"ApprovedConnects"} ELSE {})
   \cup (IF \/ \E i \in 1..Len(p.calls) : p.calls[i].h \notin 1..p.nh
           \/ \E h \in 1..p.nh : IF changed THEN ~(Cardinality(CallsOf(h)) = 1 /\ \A i \in CallsOf(h) : p.calls[i].old = p.state /\ p.calls[i].new = n.state)
                                 ELSE CallsOf(h) # {}
         THEN {"HandlerPerChange"} ELSE {})
   \cup (IF (p.stopnow /\ ~p.stopret) \/ (p.wasstopped /\ changed) THEN {"StopQuiesces"} ELSE {})

(***************************************************************************)
(* tables                                                                   *)
(* ghost g = [t, nt]: t[i] = [present, mac, nte, isp] what SetSubscriber     *)
(* last stored for s<i>; nt[k] = [present, port]                             *)
(* edge e = [op (set|rm|nset|nrm), id, mac, nte, isp, port, churn]           *)
(*   churn  <<[h, sub, old, new, locked]>> churn handler invocations         *)
(* node n = [subs, bymac, bynte, count, byisp, byispkeys, ntes, ncount]      *)
(*   bymac[k] = [none, ids, keyok, live]: the lookup of cfg.macs[k] repeated: *)
(*   it returned nil at least once / the ids it returned / every returned     *)
(*   record carried the key / every returned record is the one stored now     *)
(***************************************************************************)
NoSub == [present |-> FALSE, mac |-> "", nte |-> "", isp |-> ""]
NoNte == [present |-> FALSE, port |-> 0]
TG0(cfg) == [t |-> [i \in 1..cfg.nid |-> NoSub], nt |-> [k \in 1..cfg.nser |-> NoNte]]

TabEdge(cfg, g, e) ==
    LET Of(h) == {i \in 1..Len(e.churn) : e.churn[i].h = h}
        unl == IF \E i \in 1..Len(e.churn) : e.churn[i].locked THEN {"HandlersUnlocked"} ELSE {}
    IN IF e.op = "set"
       THEN LET old  == g.t[e.id]
                must == old.present /\ old.isp # "" /\ e.isp # "" /\ old.isp # e.isp
                none == ~old.present \/ old.isp = e.isp
                True(i) == e.churn[i].sub = e.id /\ e.churn[i].old = old.isp /\ e.churn[i].new = e.isp
            IN  unl
           \cup (IF must /\ \E h \in 1..cfg.nch : ~(Cardinality(Of(h)) = 1 /\ \A i \in Of(h) : True(i)) THEN {"ChurnOnce"} ELSE {})
           \cup (IF \/ none /\ Len(e.churn) > 0
                    \/ \E i \in 1..Len(e.churn) : ~True(i) \/ e.churn[i].h \notin 1..cfg.nch
                    \/ \E h \in 1..cfg.nch : Cardinality(Of(h)) > 1
                 THEN {"ChurnOnlyOnChange"} ELSE {})
       ELSE unl \cup (IF Len(e.churn) > 0 THEN {"ChurnOnlyOnChange"} ELSE {})

TabStep(cfg, g, e, n) ==
    [t  |-> IF e.op = "set" THEN [g.t EXCEPT ![e.id] = [present |-> TRUE, mac |-> e.mac, nte |-> e.nte, isp |-> e.isp]]
            ELSE IF e.op = "rm" THEN [g.t EXCEPT ![e.id] = NoSub] ELSE g.t,
     nt |-> IF e.op = "nset" THEN [g.nt EXCEPT ![e.id] = [present |-> TRUE, port |-> e.port]]
            ELSE IF e.op = "nrm" THEN [g.nt EXCEPT ![e.id] = NoNte] ELSE g.nt]

TabNode(cfg, g, n) ==
    LET Present == {i \in 1..cfg.nid : g.t[i].present}
        HoldM(k) == {i \in Present : g.t[i].mac = cfg.macs[k]}
        HoldN(k) == {i \in Present : g.t[i].nte = cfg.ntes[k]}
        Bad(l, holders) == \/ ~l.keyok \/ ~l.live
                           \/ ~(SeqSet(l.ids) \subseteq holders)
                           \/ (holders = {}) # (l.ids = <<>>)
                           \/ (holders # {} /\ l.none)
        Isps == {g.t[i].isp : i \in Present}
    IN  (IF \E i \in 1..cfg.nid : n.subs[i] # g.t[i] THEN {"LookupAgrees"} ELSE {})
   \cup (IF (\E k \in 1..Len(cfg.macs) : Bad(n.bymac[k], HoldM(k))) \/ (\E k \in 1..Len(cfg.ntes) : Bad(n.bynte[k], HoldN(k))) THEN {"NoStaleMatch"} ELSE {})
   \cup (IF \/ n.count # Cardinality(Present)
            \/ \E k \in 1..Len(cfg.isps) : n.byisp[k] # Cardinality({i \in Present : g.t[i].isp = cfg.isps[k]})
            \/ n.byispkeys # Cardinality(Isps)
            \/ ~n.healthok
         THEN {"CountsTrue"} ELSE {})
   \cup (IF (\E k \in 1..cfg.nser : n.ntes[k] # g.nt[k]) \/ n.ncount # Cardinality({k \in 1..cfg.nser : g.nt[k].present}) THEN {"NteAgrees"} ELSE {})
   \cup (IF n.state # "bootstrap" THEN {"OnlineOnlyApproved"} ELSE {})

(***************************************************************************)
(* the three operators the design spec and the monitor use                   *)
(***************************************************************************)
G0(cfg) == IF IsTab(cfg) THEN TG0(cfg) ELSE RG0(cfg)

EdgeClauses(cfg, g, e) == IF IsTab(cfg) THEN TabEdge(cfg, g, e)
                          ELSE RegEdge(cfg, g, e) \cup (IF IsAgent(cfg) THEN AgentEdge(cfg, g, e) ELSE {})

Step(cfg, g, e, n) == IF IsTab(cfg) THEN TabStep(cfg, g, e, n) ELSE RegStep(cfg, g, e, n)

NodeClauses(cfg, g, n, lastop) == IF IsTab(cfg) THEN TabNode(cfg, g, n)
                                  ELSE IF IsAgent(cfg) THEN AgentNode(cfg, g, n) ELSE {}

AllClauses == {"RetrySpacing", "AttemptBudget", "RejectedStops", "CancelStops", "ApprovedReturns", "RetriesUntilDecided", "RequestWellFormed",
               "OnlineOnlyApproved", "ApprovedConnects", "DocumentedEdges", "HandlerPerChange", "HandlersUnlocked", "HeartbeatCadence",
               "HeartbeatTruth", "StopQuiesces", "LookupAgrees", "NoStaleMatch", "CountsTrue", "ChurnOnce", "ChurnOnlyOnChange", "NteAgrees"}
=============================================================================
