SPECIFICATION Spec
CONSTANTS Kind = "tab"  Fixed = FALSE  MaxLen = 3  MaxRetries = 0  Retry = 1
INVARIANTS Report
VIEW View
CHECK_DEADLOCK FALSE
