SPECIFICATION Spec
CONSTANTS Kind = "reg"  Fixed = FALSE  MaxLen = 13  MaxRetries = 3  Retry = 2
INVARIANTS Clean
VIEW View
CHECK_DEADLOCK FALSE
