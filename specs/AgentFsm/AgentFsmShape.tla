---------------------------- MODULE AgentFsmShape ----------------------------
(***************************************************************************)
(* Implementation-shaped design spec of pkg/agent: one operator per          *)
(* function / critical section / goroutine step of agent.go and bootstrap.go,*)
(* the Nexus and the clock as environment.                                   *)
(*                                                                         *)
(*   SendRegistration(sc)  sendRegistration's reading of an answer: 401, 403 *)
(*                         and every code other than 200/202 are errors, an  *)
(*                         unparsable body is an error, otherwise the JSON   *)
(*                         status decides                                    *)
(*   AfterAttempt          the rest of RegisterWithRetry's loop body:        *)
(*                         approved -> return resp; rejected -> return error;*)
(*                         otherwise MaxRetries check, then                  *)
(*                         select { ctx.Done -> error; time.After -> loop }  *)
(*   Loop                  attempt++, Register(ctx): the request goes out    *)
(*                         unless the context is already over                *)
(*   Bootstrapped          bootstrapLoop after a successful return: store    *)
(*                         device id / config under a.mu, setState(connected)*)
(*                         (state written under a.mu, handlers called after  *)
(*                         the unlock), start heartbeatLoop and watchLoop    *)
(*   Tick                  heartbeatLoop: one heartbeat per ticker period    *)
(*   StopAgent             cancel, wg.Wait                                   *)
(*   SetSubscriber         under subscribersMu: compare with the stored      *)
(*                         record, handleISPChurn (handlers called HERE, the *)
(*                         lock still held), store                           *)
(*                                                                         *)
(* One harness event = the code run to quiescence (what synctest.Wait gives).*)
(* Fixed = FALSE is the code as found.  Fixed = TRUE is the proposed repair  *)
(* of SetSubscriber: the churn event is built under the lock and the         *)
(* handlers are called after the unlock.                                     *)
(*                                                                         *)
(* The spec carries the contract's ghost (AgentFsm.tla) and judges each of   *)
(* its own steps with EdgeClauses/NodeClauses, exactly as AgentFsmImpl does  *)
(* with the steps of the real code.  Every violating state is printed as     *)
(*   <<"DESIGN-CEX", json([clauses, events])>>                               *)
(* where events is the history in the harness' alphabet; lib/fam_agentfsm.py *)
(* replays the shortest history per clause set on the real code.             *)
(***************************************************************************)
EXTENDS AgentFsm, Json, SequencesExt

CONSTANTS Kind, Fixed, MaxLen, MaxRetries, Retry

Tmo == 3   \* the http client's 30 s in units
HB  == 2

M1 == "02:00:00:00:00:01"
M2 == "02:00:00:00:00:02"
MF == "02:00:00:00:00:ff"
Scripts == <<"approved", "approved202", "pending", "rejected", "unknown", "empty", "s500", "s401", "s403", "junk", "neterr">>

\* must describe the same configurations as SHAPE_CFGS in lib/fam_agentfsm.py
Cfg == IF Kind = "tab"
       THEN [impl |-> "shape-tab", kind |-> "tab", maxretries |-> 0, retry |-> 1, hb |-> 3, nh |-> 0, scripts |-> <<>>, adv |-> <<>>,
             nid |-> 2, macs |-> <<M1, M2, MF>>, amac |-> 2, ntes |-> <<"ont-1", "ont-ff">>, ante |-> 1, isps |-> <<"", "ispA", "ispB">>,
             nch |-> 2, nser |-> 1, ports |-> 1, nosub |-> TRUE, nsubs |-> 0]
       ELSE [impl |-> "shape-" \o Kind, kind |-> Kind, maxretries |-> MaxRetries, retry |-> Retry, hb |-> HB, nh |-> 2, scripts |-> Scripts, adv |-> <<1>>,
             nid |-> 0, macs |-> <<>>, amac |-> 0, ntes |-> <<>>, ante |-> 0, isps |-> <<>>, nch |-> 0, nser |-> 0, ports |-> 0, nosub |-> FALSE, nsubs |-> 0]

VARIABLES s, g, hist, bad
vars == <<s, g, hist, bad>>

HEv(op, sc, d, id, mac, nte, isp, port) == [op |-> op, s |-> sc, d |-> d, id |-> id, mac |-> mac, nte |-> nte, isp |-> isp, port |-> port]

(***************************************************************************)
(* registration and life cycle                                              *)
(* s = [pc, started, attempt, timer, fage, ctxdone, res, rdev,               *)
(*      state, devid, hascfg, nh, hbrun, hbt, stopped, subs, ntes]           *)
(*   pc   init | flight | sleep | ret                                        *)
(***************************************************************************)
RS0 == [pc |-> "init", started |-> FALSE, attempt |-> 0, timer |-> 0, fage |-> 0, ctxdone |-> FALSE, res |-> "", rdev |-> "",
        state |-> "bootstrap", devid |-> "", hascfg |-> FALSE, nh |-> 2, hbrun |-> FALSE, hbt |-> 0, stopped |-> FALSE, subs |-> 0, ntes |-> 0]

\* what one run to quiescence produced besides the new state
Out0 == [nreq |-> 0, gap |-> -1, abort |-> FALSE, ret |-> "", rdev |-> "", calls |-> <<>>, hbs |-> <<>>, stopret |-> FALSE]

SendRegistration(sc) ==
    IF sc \in {"s401", "s403", "s500", "junk", "neterr"} THEN "error"
    ELSE IF sc \in {"approved", "approved202"} THEN "approved"
    ELSE IF sc = "rejected" THEN "rejected"
    ELSE "other"          \* pending, unknown status, empty status

Handlers(x, old, new) == [h \in 1..x.nh |-> [h |-> h, old |-> old, new |-> new, locked |-> FALSE]]

\* bootstrapLoop after RegisterWithRetry returned resp, nil
Bootstrapped(x, o, sc) ==
    LET y == [x EXCEPT !.devid = Dev(sc), !.hascfg = WithCfg(sc), !.state = "connected", !.hbrun = TRUE, !.hbt = 0]
    IN <<y, [o EXCEPT !.calls = IF x.state = "connected" THEN <<>> ELSE Handlers(x, x.state, "connected")]>>

Return(x, o, res, sc) ==
    LET y == [x EXCEPT !.pc = "ret", !.res = res, !.rdev = IF res = "ok" THEN Dev(sc) ELSE ""]
        o2 == [o EXCEPT !.ret = res, !.rdev = y.rdev]
    IN IF Kind = "agent" /\ res = "ok" THEN Bootstrapped(y, o2, sc) ELSE <<y, o2>>

AfterAttempt(x, o, outcome, sc) ==
    IF outcome = "approved" THEN Return(x, o, "ok", sc)
    ELSE IF outcome = "rejected" THEN Return(x, o, "err", sc)
    ELSE IF MaxRetries > 0 /\ x.attempt >= MaxRetries THEN Return(x, o, "err", sc)
    ELSE IF x.ctxdone THEN Return(x, o, "err", sc)
    ELSE <<[x EXCEPT !.pc = "sleep", !.timer = 0], o>>

Loop(x, o, gap) ==
    LET y == [x EXCEPT !.attempt = x.attempt + 1]
    IN IF y.ctxdone THEN AfterAttempt(y, o, "error", "")
       ELSE <<[y EXCEPT !.pc = "flight", !.fage = 0], [o EXCEPT !.nreq = o.nreq + 1, !.gap = gap]>>

Tick(x, o, d) ==
    IF x.hbrun /\ x.hbt + d >= HB
    THEN <<[x EXCEPT !.hbt = (x.hbt + d) % HB], [o EXCEPT !.hbs = <<[status |-> x.state, subs |-> x.subs, ntes |-> x.ntes]>>]>>
    ELSE <<[x EXCEPT !.hbt = IF x.hbrun THEN x.hbt + d ELSE 0], o>>

RNode(x) == [flight |-> x.pc = "flight", done |-> x.pc = "ret", att |-> Min2(x.attempt, AttCap(Cfg)),
             state |-> IF Kind = "agent" THEN x.state ELSE "", online |-> Kind = "agent" /\ x.state = "connected", devid |-> x.devid, hascfg |-> x.hascfg,
             nh |-> IF Kind = "agent" THEN x.nh ELSE 0, subs |-> x.subs, ntes |-> x.ntes, stopped |-> x.stopped, healthok |-> TRUE]

REdge(hev, noop, o) == [op |-> hev.op, s |-> hev.s, d |-> hev.d, id |-> 0, mac |-> "", nte |-> "", isp |-> "", port |-> 0,
                        noop |-> noop, nreq |-> o.nreq, gap |-> o.gap, wf |-> TRUE, abort |-> o.abort, asince |-> 0,
                        ret |-> IF Kind = "agent" THEN "" ELSE o.ret, rdev |-> IF Kind = "agent" THEN "" ELSE o.rdev,
                        calls |-> o.calls, hbs |-> o.hbs, stopret |-> o.stopret]

Take(hev, e, x, n) ==
    LET g2 == Step(Cfg, g, e, n) IN
    /\ s' = x
    /\ g' = g2
    /\ hist' = Append(hist, hev)
    /\ bad' = EdgeClauses(Cfg, g, e) \cup NodeClauses(Cfg, g2, n, hev.op)

RTake(hev, noop, xo) == Take(hev, REdge(hev, noop, xo[2]), xo[1], RNode(xo[1]))

Start == LET hev == HEv("start", "", 0, 0, "", "", "", 0) IN
         IF s.started THEN RTake(hev, TRUE, <<s, Out0>>)
         ELSE RTake(hev, FALSE, Loop([s EXCEPT !.started = TRUE], Out0, -1))

Ans(sc) == LET hev == HEv("ans", sc, 0, 0, "", "", "", 0) IN
           IF s.pc # "flight" THEN RTake(hev, TRUE, <<s, Out0>>)
           ELSE RTake(hev, FALSE, AfterAttempt(s, Out0, SendRegistration(sc), sc))

Adv == LET hev == HEv("adv", "", 1, 0, "", "", "", 0)
           t   == Tick(s, Out0, 1)
           x   == t[1]
           o   == t[2]
       IN IF x.pc = "flight"
          THEN (IF x.fage + 1 >= Tmo THEN RTake(hev, FALSE, AfterAttempt(x, [o EXCEPT !.abort = TRUE], "error", ""))
                ELSE RTake(hev, FALSE, <<[x EXCEPT !.fage = x.fage + 1], o>>))
          ELSE IF x.pc = "sleep"
          THEN (IF x.timer + 1 >= Retry THEN RTake(hev, FALSE, Loop(x, o, x.timer + 1))
                ELSE RTake(hev, FALSE, <<[x EXCEPT !.timer = x.timer + 1], o>>))
          ELSE RTake(hev, FALSE, <<x, o>>)

\* cancel (reg) / Agent.Stop (agent): the context ends; a request in flight is abandoned by the transport
Cancel == LET op  == IF Kind = "agent" THEN "stop" ELSE "cancel"
              hev == HEv(op, "", 0, 0, "", "", "", 0)
              x   == [s EXCEPT !.ctxdone = TRUE, !.stopped = (Kind = "agent"), !.hbrun = FALSE]
              o   == [Out0 EXCEPT !.stopret = (Kind = "agent")]
          IN IF Kind = "agent" /\ s.stopped THEN RTake(hev, TRUE, <<s, Out0>>)
             ELSE IF s.pc = "flight" THEN RTake(hev, FALSE, AfterAttempt(x, [o EXCEPT !.abort = TRUE], "error", ""))
             ELSE IF s.pc = "sleep" THEN RTake(hev, FALSE, Return(x, o, "err", ""))
             ELSE RTake(hev, FALSE, <<x, o>>)

AddH == LET hev == HEv("addh", "", 0, 0, "", "", "", 0) IN
        IF s.nh >= 3 THEN RTake(hev, TRUE, <<s, Out0>>) ELSE RTake(hev, FALSE, <<[s EXCEPT !.nh = s.nh + 1], Out0>>)

Sub == RTake(HEv("sub", "", 0, 0, "", "", "", 0), FALSE, <<[s EXCEPT !.subs = 1 - s.subs], Out0>>)

(***************************************************************************)
(* tables: s = [t, nt]                                                       *)
(***************************************************************************)
TS0 == [t |-> [i \in 1..2 |-> NoSub], nt |-> [k \in 1..1 |-> NoNte]]

SetToSortOrder(S) == IF S = {} THEN <<>> ELSE IF S = {1} THEN <<1>> ELSE IF S = {2} THEN <<2>> ELSE <<1, 2>>

LookBy(x, key, f(_)) ==
    LET holders == {i \in 1..2 : x.t[i].present /\ f(x.t[i]) = key}
    IN [none |-> holders = {}, ids |-> SetToSortOrder(holders), keyok |-> TRUE, live |-> TRUE]

MacOf(r) == r.mac
NteOf(r) == r.nte

TNode(x) ==
    LET Present == {i \in 1..2 : x.t[i].present} IN
    [subs |-> x.t,
     bymac |-> [k \in 1..3 |-> LookBy(x, Cfg.macs[k], MacOf)],
     bynte |-> [k \in 1..2 |-> LookBy(x, Cfg.ntes[k], NteOf)],
     count |-> Cardinality(Present),
     byisp |-> [k \in 1..3 |-> Cardinality({i \in Present : x.t[i].isp = Cfg.isps[k]})],
     byispkeys |-> Cardinality({x.t[i].isp : i \in Present}),
     ntes |-> x.nt, ncount |-> Cardinality({k \in 1..1 : x.nt[k].present}), healthok |-> TRUE, state |-> "bootstrap"]

TEdge(hev, churn) == [op |-> hev.op, s |-> "", d |-> 0, id |-> hev.id, mac |-> hev.mac, nte |-> hev.nte, isp |-> hev.isp, port |-> hev.port,
                      noop |-> FALSE, churn |-> churn]

\* SetSubscriber: the handlers run inside the subscribersMu critical section (as found) or after it (Fixed)
SetSubscriber(id, mac, isp) ==
    LET hev == HEv("set", "", 0, id, mac, "ont-1", isp, 0)
        ex  == s.t[id]
        churn == IF ex.present /\ ex.isp # isp /\ ex.isp # ""
                 THEN [h \in 1..2 |-> [h |-> h, sub |-> id, old |-> ex.isp, new |-> isp, locked |-> ~Fixed]]
                 ELSE <<>>
        x   == [s EXCEPT !.t[id] = [present |-> TRUE, mac |-> mac, nte |-> "ont-1", isp |-> isp]]
    IN Take(hev, TEdge(hev, churn), x, TNode(x))

RemoveSubscriber(id) ==
    LET hev == HEv("rm", "", 0, id, "", "", "", 0)
        x   == [s EXCEPT !.t[id] = NoSub]
    IN Take(hev, TEdge(hev, <<>>), x, TNode(x))

SetNTE == LET hev == HEv("nset", "", 0, 1, "", "", "", 1)
              x   == [s EXCEPT !.nt[1] = [present |-> TRUE, port |-> 1]]
          IN Take(hev, TEdge(hev, <<>>), x, TNode(x))

RemoveNTE == LET hev == HEv("nrm", "", 0, 1, "", "", "", 0)
                 x   == [s EXCEPT !.nt[1] = NoNte]
             IN Take(hev, TEdge(hev, <<>>), x, TNode(x))

(***************************************************************************)
Init == /\ s = IF Kind = "tab" THEN TS0 ELSE RS0
        /\ g = G0(Cfg) /\ hist = <<>> /\ bad = {}

Next == /\ bad = {}
        /\ Len(hist) < MaxLen
        /\ IF Kind = "tab"
           THEN \/ \E id \in 1..2, mac \in {M1, M2}, isp \in {"", "ispA", "ispB"} : SetSubscriber(id, mac, isp)
                \/ \E id \in 1..2 : RemoveSubscriber(id)
                \/ SetNTE \/ RemoveNTE
           ELSE \/ Start \/ Adv \/ Cancel
                \/ \E i \in 1..Len(Scripts) : Ans(Scripts[i])
                \/ (Kind = "agent" /\ (AddH \/ Sub))

Spec == Init /\ [][Next]_vars

Report == bad = {} \/ PrintT(<<"DESIGN-CEX", ToJson([clauses |-> bad, events |-> hist])>>)
Clean  == bad = {}

View == <<s, g, bad>>
=============================================================================
