---------------------------- MODULE AgentFsmImpl ----------------------------
(***************************************************************************)
(* U2/U3: TLC walks the transition tables and chains EXTRACTED FROM THE     *)
(* REAL pkg/agent (bundle.json, written by harness/agentfsm: the real        *)
(* Bootstrap.RegisterWithRetry / BootstrapWithZTP against a scripted Nexus,  *)
(* the real Agent with its goroutines, both under testing/synctest virtual   *)
(* time, and the real subscriber / NTE tables) with the AgentFsm contract as *)
(* monitor.  Tables that are closed under their alphabet give a verdict for  *)
(* event sequences of any length over that alphabet.                         *)
(*                                                                         *)
(* States behind a violating step are not explored further, except behind a  *)
(* step that only violated HandlersUnlocked (that clause has no influence on *)
(* the ghost; on the tree as found every churn step violates it and stopping *)
(* there would leave the tables unchecked behind the first ISP change).      *)
(***************************************************************************)
EXTENDS AgentFsm, Json, SequencesExt

CONSTANT Watch

Bundle == JsonDeserialize("bundle.json")
Systems == Bundle.systems

VARIABLES sys, node, g, viol, path, lastop
vars == <<sys, node, g, viol, path, lastop>>

Cfg(i)        == Systems[i].cfg
NodeOf(i, n)  == Systems[i].nodes[n]
EdgesOf(i, n) == Systems[i].edges[n]

Init == /\ sys \in 1..Len(Systems)
        /\ node = Systems[sys].init
        /\ g = G0(Cfg(sys))
        /\ lastop = "init"
        /\ viol = NodeClauses(Cfg(sys), g, NodeOf(sys, node), "init") \cap Watch
        /\ path = <<>>

Next == /\ viol \subseteq {"HandlersUnlocked"}
        /\ \E k \in 1..Len(EdgesOf(sys, node)) :
             LET ed == EdgesOf(sys, node)[k]
                 e  == ed.ev
                 g2 == Step(Cfg(sys), g, e, NodeOf(sys, ed.to))
             IN /\ node' = ed.to
                /\ g' = g2
                /\ lastop' = e.op
                /\ viol' = (EdgeClauses(Cfg(sys), g, e) \cup NodeClauses(Cfg(sys), g2, NodeOf(sys, ed.to), e.op)) \cap Watch
                /\ path' = Append(path, ed.id)
                /\ UNCHANGED sys

Spec == Init /\ [][Next]_vars

Report == viol = {} \/ PrintT(<<"VIOLATION", ToJson([system |-> Systems[sys].name, clauses |-> viol, path |-> path])>>)

\* sanity of the binding (a failure is an infrastructure failure, not a verdict): the harness calls an `ans` event a
\* no-op exactly when no request is waiting, and - as long as nothing was violated - the ghost's idea of the call's
\* phase agrees with what the Nexus sees
GhostTracks == IsTab(Cfg(sys)) \/ viol # {} \/
               /\ (g.ph = "flight") = NodeOf(sys, node).flight
               /\ \A k \in 1..Len(EdgesOf(sys, node)) : LET e == EdgesOf(sys, node)[k].ev IN
                      e.op = "ans" => (e.noop = ~NodeOf(sys, node).flight)

View == <<sys, node, g, viol>>
=============================================================================
