SPECIFICATION Spec
CONSTANT Watch = {"RetrySpacing", "AttemptBudget", "RejectedStops", "CancelStops", "ApprovedReturns", "RetriesUntilDecided", "RequestWellFormed", "OnlineOnlyApproved", "ApprovedConnects", "DocumentedEdges", "HandlerPerChange", "HandlersUnlocked", "HeartbeatCadence", "HeartbeatTruth", "StopQuiesces", "LookupAgrees", "NoStaleMatch", "CountsTrue", "ChurnOnce", "ChurnOnlyOnChange", "NteAgrees"}
INVARIANTS Report GhostTracks
VIEW View
CHECK_DEADLOCK FALSE
