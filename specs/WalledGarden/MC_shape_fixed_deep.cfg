SPECIFICATION Spec
CONSTANTS Fixed = TRUE  MaxLen = 8
INVARIANTS Clean GhostTracks
VIEW View
CHECK_DEADLOCK FALSE
