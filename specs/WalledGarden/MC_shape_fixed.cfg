SPECIFICATION Spec
CONSTANTS Fixed = TRUE  MaxLen = 5
INVARIANTS Clean GhostTracks
VIEW View
CHECK_DEADLOCK FALSE
