------------------------- MODULE WalledGardenShape -------------------------
(***************************************************************************)
(* Implementation-shaped design spec of pkg/walledgarden/manager.go: one    *)
(* action per harness step, built from one operator per critical section /  *)
(* kernel-map call / checker pass of the code.                              *)
(*                                                                         *)
(*   CacheWrite(m, st)    "m.mu.Lock(); m.cache[macKey] = state; Unlock()"   *)
(*   MapPut(m, st, vl)    "m.subscriberMap.Put(&macKey, &entry)" with        *)
(*                        ExpiryTime = now + DefaultTimeout; fails when the  *)
(*                        map is full and the key is new                     *)
(*   CacheDelete(m)       "delete(m.cache, macKey)" under the lock           *)
(*   MapDelete(m)         "m.subscriberMap.Delete(&macKey)": an error when   *)
(*                        the key is absent; RemoveMAC compares the error's  *)
(*                        text with "key does not exist" (the library wraps  *)
(*                        it: "delete: key does not exist")                  *)
(*   Scan / Sweep         checkExpiredEntries: iterate the map, collect the  *)
(*                        keys with "ExpiryTime > 0 && ExpiryTime < now",    *)
(*                        then delete each from map and cache                *)
(*                                                                         *)
(*   SetSubscriberState / AddToWalledGarden = CacheWrite ; MapPut (the lock  *)
(*   is released in between); RemoveMAC = CacheDelete ; MapDelete; a minute  *)
(*   of time = every entry a minute older, then one checker pass.  Step      *)
(*   "race" = two such calls on one MAC at once: any interleaving of their   *)
(*   four sections that respects each call's own order.  Step "trace" = a    *)
(*   set call at the instant of the checker pass that has collected the same *)
(*   MAC: the pass' two deletes and the call's two sections interleave.      *)
(*                                                                         *)
(* Time in minutes; an entry carries the minutes left until its ExpiryTime   *)
(* (the code keeps an absolute Unix time and compares it with the clock);    *)
(* calls happen half a minute off the checker's ticks.                       *)
(*                                                                         *)
(* Fixed = FALSE is the design as found.  Fixed = TRUE is a proposed repair: *)
(* RemoveMAC recognises the wrapped not-found error (errors.Is), the checker *)
(* only expires entries whose state is UNKNOWN or WALLED_GARDEN, and the set *)
(* operations hold the lock across kernel write and table write and touch    *)
(* the table only after the kernel accepted the entry (so two calls at once  *)
(* are serialised).  The spec carries the contract's ghost (WalledGarden.tla)*)
(* and judges each of its own steps with EdgeClauses / NodeClauses exactly   *)
(* as WalledGardenImpl does with the steps of the real code.  Every          *)
(* violating state is printed as <<"DESIGN-CEX", json([clauses, events])>>   *)
(* with events in the harness' alphabet; lib/fam_walledgarden replays the    *)
(* shortest history per clause set on the real manager.                      *)
(***************************************************************************)
EXTENDS WalledGarden, Json

CONSTANTS Fixed, MaxLen

Cfg == [impl |-> "shape", nm |-> 2, maps |-> TRUE, T |-> 1, cap |-> 4, full |-> 1, order |-> FALSE,
        dns |-> <<1>>, portal |-> <<3, 8080>>, custom |-> <<>>]
M == Macs(Cfg)

VARIABLES s, g, hist, bad
vars == <<s, g, hist, bad>>

NoE == [p |-> FALSE, st |-> 0, vl |-> 0, left |-> 0]
S0  == [cache |-> [m \in M |-> -1], map |-> [m \in M |-> NoE]]

\* ---- the critical sections ------------------------------------------------------------------------
CacheWrite(x, m, st) == [x EXCEPT !.cache[m] = st]
CacheDelete(x, m)    == [x EXCEPT !.cache[m] = -1]
Used(x)              == Cardinality({m \in M : x.map[m].p})
PutFails(x, m)       == ~x.map[m].p /\ Used(x) >= Cfg.full
MapPut(x, m, st, vl) == IF PutFails(x, m) THEN x ELSE [x EXCEPT !.map[m] = [p |-> TRUE, st |-> st, vl |-> vl, left |-> Cfg.T]]
MapDelete(x, m)      == [x EXCEPT !.map[m] = NoE]

\* one minute passes, then the checker's pass: Scan collects, Sweep deletes
Older(x)  == [x EXCEPT !.map = [m \in M |-> IF x.map[m].p THEN [x.map[m] EXCEPT !.left = IF @ > -1 THEN @ - 1 ELSE -1] ELSE NoE]]
Scan(x)   == {m \in M : x.map[m].p /\ x.map[m].left < 0 /\ (~Fixed \/ x.map[m].st \in {0, 1})}
Sweep(x, K) == [cache |-> [m \in M |-> IF m \in K THEN -1 ELSE x.cache[m]], map |-> [m \in M |-> IF m \in K THEN NoE ELSE x.map[m]]]
Minute(x) == LET y == Older(x) IN Sweep(y, Scan(y))
RECURSIVE Minutes(_, _)
Minutes(x, n) == IF n = 0 THEN x ELSE Minutes(Minute(x), n - 1)

\* ---- what the harness sees ------------------------------------------------------------------------
SeqOf(S) == LET RECURSIVE F(_) F(T) == IF T = {} THEN <<>> ELSE LET m == CHOOSE y \in T : \A z \in T : y <= z IN <<m>> \o F(T \ {m}) IN F(S)
AEnt(ip, port, proto, reason) == [ip |-> ip, order |-> "net", port |-> port, proto |-> proto, reason |-> reason, kip |-> ip, kport |-> port, kproto |-> proto, kpad |-> 0]
Obs(x) == [macs  |-> [m \in M |-> [tracked |-> x.cache[m] # -1, get |-> IF x.cache[m] = -1 THEN 0 ELSE x.cache[m], inlist |-> IF x.cache[m] = 1 THEN 1 ELSE 0,
                                   present |-> x.map[m].p, mst |-> x.map[m].st, mvlan |-> x.map[m].vl, mpip |-> "net", left |-> x.map[m].left]],
           stats |-> [total |-> Cardinality({m \in M : x.cache[m] # -1}), unk |-> Cardinality({m \in M : x.cache[m] = 0}), wg |-> Cardinality({m \in M : x.cache[m] = 1}),
                      prov |-> Cardinality({m \in M : x.cache[m] = 2}), blk |-> Cardinality({m \in M : x.cache[m] = 3})],
           alien |-> 0, listalien |-> 0,
           allowed |-> <<AEnt(1, 53, 17, 1), AEnt(3, 8080, 6, 2)>>]

HEv(op, m, st, v, dt) == [op |-> op, m |-> m, s |-> st, v |-> v, dt |-> dt]
Take(hev, ok, x) ==
  LET e  == [op |-> hev.op, m |-> hev.m, s |-> hev.s, v |-> hev.v, dt |-> hev.dt, ok |-> ok,
             gone |-> SeqOf({m \in M : s.cache[m] # -1 /\ x.cache[m] = -1})]
      o  == Obs(x)
      g2 == Step(Cfg, g, e, o)
  IN /\ s' = x
     /\ g' = g2
     /\ hist' = Append(hist, hev)
     /\ bad' = EdgeClauses(Cfg, g, e) \cup NodeClauses(Cfg, g2, o, e)

\* ---- the calls ------------------------------------------------------------------------------------
\* SetSubscriberState / AddToWalledGarden / ReleaseFromWalledGarden / BlockMAC
SetCall(op, m, st, v) ==
  LET e   == [op |-> op, m |-> m, s |-> st, v |-> v]
      nst == NewSt(e)
      nvl == NewVl(e)
  IN IF Fixed THEN (IF PutFails(s, m) THEN Take(HEv(op, m, st, v, 0), FALSE, s)
                    ELSE Take(HEv(op, m, st, v, 0), TRUE, CacheWrite(MapPut(s, m, nst, nvl), m, nst)))
     ELSE LET x == CacheWrite(s, m, nst) IN Take(HEv(op, m, st, v, 0), ~PutFails(x, m), MapPut(x, m, nst, nvl))

\* RemoveMAC
RmCall(m) ==
  LET x  == CacheDelete(s, m)
      nf == ~x.map[m].p               \* Delete returns "delete: key does not exist"
  IN Take(HEv("rm", m, 0, 0, 0), Fixed \/ ~nf, MapDelete(x, m))

Adv(dt) == Take(HEv("adv", 0, 0, 0, dt), TRUE, Minutes(s, dt))

\* two set calls on MAC m at once (codes 1 add with VLAN 5, 2 release, 3 block): every interleaving of their sections
Orders == {<<1, 1, 2, 2>>, <<1, 2, 1, 2>>, <<1, 2, 2, 1>>, <<2, 1, 1, 2>>, <<2, 1, 2, 1>>, <<2, 2, 1, 1>>}
Vl(c) == IF c = 1 THEN 5 ELSE 0
RECURSIVE Run(_, _, _, _, _)
\* done[i]: sections of call i already executed; o: the order still to run
Run(x, m, code, done, o) ==
  IF o = <<>> THEN x
  ELSE LET i == Head(o)
           y == IF done[i] = 0 THEN CacheWrite(x, m, code[i]) ELSE MapPut(x, m, code[i], Vl(code[i]))
       IN Run(y, m, code, [done EXCEPT ![i] = @ + 1], Tail(o))
\* the repaired call is one critical section
FixedSet(x, m, c) == IF PutFails(x, m) THEN x ELSE CacheWrite(MapPut(x, m, c, Vl(c)), m, c)
Race(m, a, b) ==
  IF Fixed THEN \/ Take(HEv("race", m, a, b, 0), ~PutFails(s, m), FixedSet(FixedSet(s, m, a), m, b))
                \/ Take(HEv("race", m, a, b, 0), ~PutFails(s, m), FixedSet(FixedSet(s, m, b), m, a))
  ELSE \E o \in Orders : Take(HEv("race", m, a, b, 0), ~PutFails(s, m), Run(s, m, <<a, b>>, <<0, 0>>, o))

\* AddToWalledGarden(m, 5) called at the instant of the checker pass that finds m's previous entry expired ("trace"; the harness
\* first adds m and lets DefaultTimeout + 1 minute pass up to that tick).  The checker has collected m (Scan); its two deletes
\* (kernel map, then table) and the call's two sections (table, then kernel map) interleave; or the call comes first / last.
RECURSIVE RunT(_, _, _, _)
RunT(x, m, done, o) ==
  IF o = <<>> THEN x
  ELSE LET i == Head(o)
           y == IF i = 1 THEN (IF done[1] = 0 THEN CacheWrite(x, m, 1) ELSE MapPut(x, m, 1, 5))
                ELSE (IF done[2] = 0 THEN MapDelete(x, m) ELSE CacheDelete(x, m))
       IN RunT(y, m, [done EXCEPT ![i] = @ + 1], Tail(o))
TickRace(m) ==
  LET x0 == MapPut(CacheWrite(s, m, 1), m, 1, 5)           \* the first add
      x1 == Older(Minutes(x0, Cfg.T))                       \* DefaultTimeout + 1 minutes later, before the pass
  IN /\ ~PutFails(s, m) /\ \A k \in M \ {m} : s.cache[k] = -1 /\ ~s.map[k].p     \* (the harness runs it on an otherwise empty manager)
     /\ \/ LET y == MapPut(CacheWrite(x1, m, 1), m, 1, 5) IN Take(HEv("trace", m, 0, 0, 0), TRUE, Sweep(y, Scan(y)))      \* call first, then the pass: refreshed, kept
        \/ Take(HEv("trace", m, 0, 0, 0), TRUE, MapPut(CacheWrite(Sweep(x1, Scan(x1)), m, 1), m, 1, 5))  \* pass first, then the call
        \/ /\ ~Fixed       \* the repaired checker deletes under the lock after re-reading the entry: only the two serial orders
           /\ m \in Scan(x1)
           /\ \E o \in Orders : Take(HEv("trace", m, 0, 0, 0), TRUE, RunT(x1, m, <<0, 0>>, o))

Init == s = S0 /\ g = G0(Cfg) /\ hist = <<>> /\ bad = {}

Next == /\ bad = {}
        /\ Len(hist) < MaxLen
        /\ (IF hist = <<>> THEN TRUE ELSE hist[Len(hist)].op # "trace")      \* a trace step ends on the checker's tick: the harness makes it the last step
        /\ \/ \E m \in M : \/ SetCall("add", m, 0, 5) \/ SetCall("rel", m, 0, 0) \/ SetCall("blk", m, 0, 0) \/ SetCall("set", m, 0, 0)
                           \/ RmCall(m)
           \/ Adv(1)
           \/ Race(1, 2, 3) \/ Race(1, 1, 2)
           \/ TickRace(1)

Spec == Init /\ [][Next]_vars

Report == bad = {} \/ PrintT(<<"DESIGN-CEX", ToJson([clauses |-> bad, events |-> hist])>>)
Clean  == bad = {}
\* until a step is flagged the contract's ghost describes the model's table
GhostTracks == bad # {} \/ \A m \in M : g.st[m] = s.cache[m]

View == <<s, g, bad>>
=============================================================================
