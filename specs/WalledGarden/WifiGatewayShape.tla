------------------------- MODULE WifiGatewayShape -------------------------
(***************************************************************************)
(* Implementation-shaped design spec of pkg/wifi/gateway.go: the two maps   *)
(* of wifi.Manager (sessions: MAC -> session, byIP: address -> MAC) and one *)
(* action per exported call / cleanup pass (each holds m.mu throughout, so  *)
(* a call is one critical section).                                         *)
(*                                                                         *)
(*   Create    existing MAC: renew the lease, return the session; else a    *)
(*             new session, sessions[mac] = s, byIP[ip] = mac               *)
(*   Renew / Auth   error if there is no session                            *)
(*   Release   delete(sessions, mac); delete(byIP, session.IP)              *)
(*   Cleanup   every session with now.After(LeaseExpiry), or in grace,      *)
(*             unauthenticated and now.After(GracePeriodEnds): deleted from *)
(*             both maps the same way, expire callback                      *)
(*                                                                         *)
(* One address, two MACs (the harness' gw-reuse configuration): the address *)
(* is given to the second MAC while the first still has its session.        *)
(* Fixed = FALSE is the design as found; Fixed = TRUE the proposed repair   *)
(* (an index entry is deleted only if it points at the session removed;     *)
(* CreateSession ends the session byIP still records for the address).      *)
(* Judged with the contract (WifiGateway.tla) exactly as the monitor judges *)
(* the real code; violating states are printed as DESIGN-CEX histories in   *)
(* the harness' alphabet and replayed on the real wifi.Manager.             *)
(***************************************************************************)
EXTENDS WifiGateway, Json

CONSTANTS Fixed, MaxLen

Cfg == [kind |-> "gw", impl |-> "shape-gw", nm |-> 2, nip |-> 1, L |-> 2, GP |-> 1, portal |-> TRUE, cap |-> 5]
M == GwMacs(Cfg)

VARIABLES s, g, hist, bad
vars == <<s, g, hist, bad>>

NoS == [on |-> FALSE, auth |-> FALSE, ll |-> 0, gl |-> 0]
S0  == [sess |-> [m \in M |-> NoS], byip |-> 0]

SeqOf(S) == LET RECURSIVE F(_) F(T) == IF T = {} THEN <<>> ELSE LET x == CHOOSE y \in T : \A z \in T : y <= z IN <<x>> \o F(T \ {x}) IN F(S)
Dec(x) == IF x > -3 THEN x - 1 ELSE -3

Obs(x) ==
  LET on(m) == x.sess[m].on IN
  [macs |-> [m \in M |-> [has |-> on(m), ip |-> IF on(m) THEN 1 ELSE 0, auth |-> on(m) /\ x.sess[m].auth,
                          state |-> IF ~on(m) THEN "" ELSE IF x.sess[m].auth THEN "authenticated" ELSE "grace_period",
                          left |-> IF on(m) THEN x.sess[m].ll ELSE 0, needs |-> ~(on(m) /\ x.sess[m].auth),
                          ingrace |-> on(m) /\ ~x.sess[m].auth /\ x.sess[m].gl > 0, inlist |-> IF on(m) THEN 1 ELSE 0]],
   ips |-> <<[byip |-> IF x.byip # 0 /\ x.sess[x.byip].on THEN x.byip ELSE 0]>>,      \* GetSessionByIP: byIP, then sessions
   listalien |-> 0,
   stats |-> [active |-> Cardinality({m \in M : on(m)}), authd |-> Cardinality({m \in M : on(m) /\ x.sess[m].auth}),
              grace |-> Cardinality({m \in M : on(m) /\ ~x.sess[m].auth /\ x.sess[m].gl > 0})]]

HEv(op, m, ip, dt) == [op |-> op, m |-> m, ip |-> ip, dt |-> dt]
Take(hev, res, x) ==
  LET e  == [op |-> hev.op, m |-> hev.m, ip |-> hev.ip, dt |-> hev.dt, ok |-> res.ok, same |-> TRUE, rip |-> res.rip,
             gone |-> SeqOf({m \in M : s.sess[m].on /\ ~x.sess[m].on}), created |-> res.created, authed |-> res.authed, expired |-> res.expired]
      o  == Obs(x)
      g2 == GwStep(Cfg, g, e, o)
  IN /\ s' = x
     /\ g' = g2
     /\ hist' = Append(hist, hev)
     /\ bad' = GwEdgeClauses(Cfg, g, e) \cup GwNodeClauses(Cfg, g2, o, e)
R0 == [ok |-> TRUE, rip |-> 0, created |-> <<>>, authed |-> <<>>, expired |-> <<>>]

\* removing session m: delete(m.byIP, session.IP) whoever it points at (as found)
Unindex(x, m) == IF Fixed /\ x.byip # m THEN x.byip ELSE 0

Create(m) ==
  IF s.sess[m].on THEN Take(HEv("create", m, 1, 0), [R0 EXCEPT !.rip = 1], [s EXCEPT !.sess[m].ll = Cfg.L])
  ELSE LET stale == IF Fixed /\ s.byip \notin {0, m} /\ s.sess[s.byip].on THEN {s.byip} ELSE {}
           x == [sess |-> [k \in M |-> IF k = m THEN [on |-> TRUE, auth |-> FALSE, ll |-> Cfg.L, gl |-> Cfg.GP] ELSE IF k \in stale THEN NoS ELSE s.sess[k]],
                 byip |-> m]
       IN Take(HEv("create", m, 1, 0), [R0 EXCEPT !.rip = 1, !.created = <<m>>, !.expired = SeqOf(stale)], x)

Renew(m) == IF s.sess[m].on THEN Take(HEv("renew", m, 0, 0), R0, [s EXCEPT !.sess[m].ll = Cfg.L])
            ELSE Take(HEv("renew", m, 0, 0), [R0 EXCEPT !.ok = FALSE], s)
Auth(m)  == IF s.sess[m].on THEN Take(HEv("auth", m, 0, 0), [R0 EXCEPT !.authed = <<m>>], [s EXCEPT !.sess[m].auth = TRUE])
            ELSE Take(HEv("auth", m, 0, 0), [R0 EXCEPT !.ok = FALSE], s)
Release(m) == IF s.sess[m].on THEN Take(HEv("release", m, 0, 0), [R0 EXCEPT !.expired = <<m>>], [sess |-> [s.sess EXCEPT ![m] = NoS], byip |-> Unindex(s, m)])
              ELSE Take(HEv("release", m, 0, 0), R0, s)

\* a minute passes, then the cleanup pass
RECURSIVE Sweep(_, _)
Sweep(x, K) == IF K = {} THEN x ELSE LET m == CHOOSE k \in K : TRUE IN Sweep([sess |-> [x.sess EXCEPT ![m] = NoS], byip |-> Unindex(x, m)], K \ {m})
Adv ==
  LET y == [s EXCEPT !.sess = [m \in M |-> IF s.sess[m].on THEN [s.sess[m] EXCEPT !.ll = Dec(@), !.gl = Dec(@)] ELSE NoS]]
      K == {m \in M : y.sess[m].on /\ (y.sess[m].ll < 0 \/ (~y.sess[m].auth /\ y.sess[m].gl < 0))}
  IN Take(HEv("adv", 0, 0, 1), [R0 EXCEPT !.expired = SeqOf(K)], Sweep(y, K))

Init == s = S0 /\ g = GwG0(Cfg) /\ hist = <<>> /\ bad = {}

Next == /\ bad = {}
        /\ Len(hist) < MaxLen
        /\ \/ \E m \in M : Create(m) \/ Renew(m) \/ Auth(m) \/ Release(m)
           \/ Adv

Spec == Init /\ [][Next]_vars

Report == bad = {} \/ PrintT(<<"DESIGN-CEX", ToJson([clauses |-> bad, events |-> hist])>>)
Clean  == bad = {}
GhostTracks == bad # {} \/ \A m \in M : g.live[m] = s.sess[m].on

View == <<s, g, bad>>
=============================================================================
