SPECIFICATION Spec
CONSTANTS MaxSteps = 3  NM = 2  LL = 2  GG = 1
INVARIANTS Agree GhostTracks
VIEW View
CHECK_DEADLOCK FALSE
