----------------------------- MODULE WifiGateway -----------------------------
(***************************************************************************)
(* Contract of pkg/wifi (gateway.go): the WiFi-gateway session Manager, the *)
(* second component of extra family X09 (systems with cfg.kind = "gw"; the  *)
(* walled-garden Manager's contract is WalledGarden.tla).  Sentences from   *)
(* the package's own comments (quoted), weakest reading.                    *)
(*                                                                         *)
(* Observed after every call: what the call returned, GetSession,           *)
(* GetSessionByIP for every address, ListSessions, NeedsAuthentication,     *)
(* IsInGracePeriod, Stats, and which callbacks (OnSessionCreate / Auth /    *)
(* Expire) were invoked for which MAC during the step.                      *)
(*                                                                         *)
(* W1 "sessions: MAC string -> Session" / "CreateSession creates a new      *)
(*    session for a DHCP DISCOVER" / "Renew existing session" /             *)
(*    "AuthenticateSession marks a session as authenticated" /              *)
(*    "ReleaseSession releases a session" / "GetSession returns a session   *)
(*    by MAC address":                                                      *)
(*    SessionTable     GetSession(mac) finds a session iff one was created  *)
(*                     for the MAC and neither released nor expired; it     *)
(*                     carries the address it was created with, is          *)
(*                     Authenticated iff AuthenticateSession succeeded for  *)
(*                     it, and its State is authenticated / grace_period    *)
(*                     (captive portal enabled) / new accordingly           *)
(*    GwIsolation      a call naming one MAC changes no other MAC's session *)
(*                     (CreateSession may end the session of a MAC that     *)
(*                     still holds the address it is given)                 *)
(*    RenewSame        CreateSession for a MAC that has a session returns   *)
(*                     that same session (same ID, same address)            *)
(*    CreateResult     CreateSession returns nil and, for a new MAC, a      *)
(*                     session with the address given                       *)
(*    NotFoundError    RenewSession / AuthenticateSession return an error   *)
(*                     ("session not found") iff the MAC has no session     *)
(*    ReleaseIdempotent ReleaseSession: "Already released" - nil always     *)
(*    LeaseStamp       LeaseExpiry = time of creation or last renewal (also *)
(*                     by CreateSession) + LeaseDuration                    *)
(* W2 "byIP: IP string -> MAC string" / "GetSessionByIP returns a session   *)
(*    by IP address" / "ListSessions returns all active sessions":          *)
(*    IndexExact       GetSessionByIP(ip) finds the session that holds ip   *)
(*                     (one of them, should two hold it), nothing if none   *)
(*    GwListExact      ListSessions = exactly the sessions, each once       *)
(* W3 "cleanupExpiredSessions removes expired sessions" / "Check lease      *)
(*    expiry" / "Check grace period expiry for unauthenticated sessions" /  *)
(*    GracePeriod "is the time allowed for captive portal authentication    *)
(*    before the session is terminated":                                    *)
(*    GwNoEarlyExpiry  a session disappears without ReleaseSession only     *)
(*                     when its lease has run out or, unauthenticated with  *)
(*                     the captive portal enabled, its grace period         *)
(*    ExpiredCleaned   such a session is gone two cleanup periods (1 minute *)
(*                     each) later at the latest                            *)
(*    GraceFlag        IsInGracePeriod iff the session exists, is not       *)
(*                     authenticated and its grace period has not ended     *)
(*    NeedsAuth        NeedsAuthentication iff the captive portal is        *)
(*                     enabled and the MAC has no authenticated session     *)
(*                     ("No session = needs auth")                          *)
(* W4 "OnSessionCreate registers a callback for session creation" / Auth /  *)
(*    Expire:                                                               *)
(*    CallbackOnce     the create callback runs once per session created    *)
(*                     (not for renewals), the auth callback once per       *)
(*                     successful AuthenticateSession, the expire callback  *)
(*                     once per session released or expired                 *)
(* W5 "Stats returns WiFi gateway statistics":                              *)
(*    GwStatsTrue      ActiveSessions / AuthenticatedSessions /             *)
(*                     GracePeriodSessions = the numbers of such sessions   *)
(*                                                                         *)
(* Unconstrained: traffic counters, hostnames, pool ids, the instants age = *)
(* LeaseDuration and age = GracePeriod, which of two sessions holding one   *)
(* address is found by it.  Environment: time advances between calls in     *)
(* whole minutes, calls half a minute off the cleanup ticks; an address is  *)
(* given to a second MAC while the first still has its session only in the  *)
(* systems made for it (cfg.reuse).                                         *)
(***************************************************************************)
EXTENDS Integers, FiniteSets, Sequences, TLC

GRange(s)   == {s[i] : i \in 1..Len(s)}
GMin2(a, b) == IF a < b THEN a ELSE b

\* cfg = [kind = "gw", nm, nip, L, GP (minutes), portal (BOOLEAN), cap (where ages saturate: max(L, GP) + 3)]
\* event e = [op (create | renew | auth | release | adv), m, ip, dt, ok, same, rip, gone, created, authed, expired]
\* ghost: per MAC live, ip, auth, lage (minutes since creation / last renewal), gage (minutes since creation)
GwMacs(cfg) == 1..cfg.nm
GwG0(cfg) == [live |-> [m \in GwMacs(cfg) |-> FALSE], ip |-> [m \in GwMacs(cfg) |-> 0], auth |-> [m \in GwMacs(cfg) |-> FALSE],
              lage |-> [m \in GwMacs(cfg) |-> 0], gage |-> [m \in GwMacs(cfg) |-> 0]]
GwInitEv == [op |-> "init", m |-> 0, ip |-> 0, dt |-> 0, ok |-> TRUE, same |-> TRUE, rip |-> 0, gone |-> <<>>, created |-> <<>>, authed |-> <<>>, expired |-> <<>>]

Unauth(cfg, g, m) == cfg.portal /\ ~g.auth[m]

GwEdgeClauses(cfg, g, e) ==
  LET live == e.op # "adv" /\ g.live[e.m]
      one  == <<e.m>>
      wantC == IF e.op = "create" /\ ~live THEN one ELSE <<>>
      wantA == IF e.op = "auth" /\ live THEN one ELSE <<>>
  IN   (IF e.created # wantC \/ e.authed # wantA THEN {"CallbackOnce"} ELSE {})
  \cup (IF e.op = "adv" THEN
             (IF \E m \in GRange(e.gone) : /\ g.live[m]
                                           /\ GMin2(g.lage[m] + e.dt, cfg.cap) <= cfg.L
                                           /\ ~(Unauth(cfg, g, m) /\ GMin2(g.gage[m] + e.dt, cfg.cap) > cfg.GP)
                THEN {"GwNoEarlyExpiry"} ELSE {})
        \cup (IF GRange(e.expired) # GRange(e.gone) \/ Len(e.expired) # Cardinality(GRange(e.gone)) THEN {"CallbackOnce"} ELSE {})
        ELSE IF e.op = "release" THEN
             (IF ~e.ok THEN {"ReleaseIdempotent"} ELSE {})
        \cup (IF e.expired # (IF live THEN one ELSE <<>>) THEN {"CallbackOnce"} ELSE {})
        ELSE (IF (e.op # "create" /\ e.expired # <<>>) \/ (e.op = "create" /\ (GRange(e.expired) # GRange(e.gone) \/ Len(e.expired) # Len(e.gone)))
                 THEN {"CallbackOnce"} ELSE {})
        \* CreateSession may end the sessions of other MACs that hold the address it is given (a stale holder), nothing else
        \cup (IF e.op = "create" /\ \E k \in GRange(e.gone) : ~(~live /\ k # e.m /\ g.live[k] /\ g.ip[k] = e.ip) THEN {"GwIsolation"} ELSE {})
        \cup (IF e.op = "create" THEN
                   (IF ~e.ok \/ (~live /\ e.rip # e.ip) THEN {"CreateResult"} ELSE {})
              \cup (IF live /\ e.ok /\ (~e.same \/ e.rip # g.ip[e.m]) THEN {"RenewSame"} ELSE {})
              ELSE IF e.op \in {"renew", "auth"} THEN (IF e.ok # live THEN {"NotFoundError"} ELSE {})
              ELSE {}))

GwStep(cfg, g, e, obs) ==
  IF e.op = "adv" THEN
     [g EXCEPT !.lage = [m \in GwMacs(cfg) |-> GMin2(g.lage[m] + e.dt, cfg.cap)],
               !.gage = [m \in GwMacs(cfg) |-> GMin2(g.gage[m] + e.dt, cfg.cap)],
               !.live = [m \in GwMacs(cfg) |-> g.live[m] /\ m \notin GRange(e.gone)]]
  ELSE IF e.op = "create" THEN
     (IF g.live[e.m] THEN [g EXCEPT !.lage[e.m] = 0]
      ELSE [g EXCEPT !.live = [k \in GwMacs(cfg) |-> k = e.m \/ (g.live[k] /\ k \notin GRange(e.gone))],
                     !.ip[e.m] = e.ip, !.auth[e.m] = FALSE, !.lage[e.m] = 0, !.gage[e.m] = 0])
  ELSE IF e.op = "renew" THEN (IF g.live[e.m] THEN [g EXCEPT !.lage[e.m] = 0] ELSE g)
  ELSE IF e.op = "auth" THEN (IF g.live[e.m] THEN [g EXCEPT !.auth[e.m] = TRUE] ELSE g)
  ELSE IF e.op = "release" THEN [g EXCEPT !.live[e.m] = FALSE]
  ELSE g

\* n = [macs |-> sequence of [has, ip, auth, state, left, needs, ingrace, inlist], ips |-> sequence of [byip], listalien,
\*      stats |-> [active, authd, grace]]
GwOwn(e, m) == e.op \in {"init", "adv"} \/ m = e.m
GwNodeClauses(cfg, g, n, e) ==
  LET o(m) == n.macs[m]
      want(m) == IF g.auth[m] THEN "authenticated" ELSE IF cfg.portal THEN "grace_period" ELSE "new"
      inG(m)  == g.live[m] /\ Unauth(cfg, g, m)
      sure    == Cardinality({m \in GwMacs(cfg) : inG(m) /\ g.gage[m] < cfg.GP})
      may     == Cardinality({m \in GwMacs(cfg) : inG(m) /\ g.gage[m] <= cfg.GP})
  IN   UNION {   (IF o(m).has # g.live[m] \/ (g.live[m] /\ (o(m).ip # g.ip[m] \/ o(m).auth # g.auth[m] \/ o(m).state # want(m)))
                    THEN {IF GwOwn(e, m) THEN "SessionTable" ELSE "GwIsolation"} ELSE {})
            \cup (IF g.live[m] /\ o(m).has /\ g.lage[m] < cfg.cap /\ o(m).left # cfg.L - g.lage[m] THEN {"LeaseStamp"} ELSE {})
            \cup (IF o(m).needs # (cfg.portal /\ ~(g.live[m] /\ g.auth[m])) THEN {"NeedsAuth"} ELSE {})
            \cup (IF (o(m).ingrace /\ ~(inG(m) /\ g.gage[m] <= cfg.GP)) \/ (~o(m).ingrace /\ inG(m) /\ g.gage[m] < cfg.GP) THEN {"GraceFlag"} ELSE {})
            \cup (IF g.live[m] /\ (g.lage[m] >= cfg.L + 2 \/ (Unauth(cfg, g, m) /\ g.gage[m] >= cfg.GP + 2)) THEN {"ExpiredCleaned"} ELSE {})
            \cup (IF o(m).inlist # (IF g.live[m] THEN 1 ELSE 0) THEN {"GwListExact"} ELSE {})
            : m \in GwMacs(cfg)}
  \cup UNION { LET holders == {m \in GwMacs(cfg) : g.live[m] /\ g.ip[m] = i}
               IN IF (holders = {} /\ n.ips[i].byip # 0) \/ (holders # {} /\ n.ips[i].byip \notin holders) THEN {"IndexExact"} ELSE {}
             : i \in 1..cfg.nip}
  \cup (IF n.listalien # 0 THEN {"GwListExact"} ELSE {})
  \cup (IF \/ n.stats.active # Cardinality({m \in GwMacs(cfg) : g.live[m]})
           \/ n.stats.authd # Cardinality({m \in GwMacs(cfg) : g.live[m] /\ g.auth[m]})
           \/ n.stats.grace < sure \/ n.stats.grace > may
          THEN {"GwStatsTrue"} ELSE {})
=============================================================================
