SPECIFICATION Spec
CONSTANTS MaxSteps = 3  NM = 2  TT = 1  Lean = FALSE
INVARIANTS Agree GhostTracks
VIEW View
CHECK_DEADLOCK FALSE
