------------------------- MODULE WalledGardenImpl -------------------------
(***************************************************************************)
(* U2/U3: TLC walks the transition tables and chains EXTRACTED FROM THE     *)
(* REAL walledgarden.Manager (bundle.json, written by harness/walledgarden  *)
(* under testing/synctest virtual time, real kernel maps created by the     *)
(* harness) with the WalledGarden contract as monitor, and those of the     *)
(* real wifi.Manager (systems with cfg.kind = "gw") with the WifiGateway    *)
(* contract.  Tables that are                                               *)
(* closed under their alphabet give a verdict for event sequences of any    *)
(* length over it.                                                          *)
(*                                                                         *)
(* Monitor style: a violated clause does not disable the step, it is        *)
(* recorded in viol; the violating state is reported (one JSON line via     *)
(* PrintT); a state violating only clauses in Soft (NetOrder: the same in   *)
(* every state) is explored further, any other violating state is not;      *)
(* only clauses in Watch are recorded.                                      *)
(***************************************************************************)
EXTENDS WalledGarden, WifiGateway, Json, SequencesExt

CONSTANT Watch

Bundle == JsonDeserialize("bundle.json")
Systems == Bundle.systems

VARIABLES sys, node, g, viol, path, lastop
vars == <<sys, node, g, viol, path, lastop>>

Cfg(i)        == Systems[i].cfg
NodeOf(i, n)  == Systems[i].nodes[n]
EdgesOf(i, n) == Systems[i].edges[n]

IsGw(i) == Cfg(i).kind = "gw"
G0Of(i)            == IF IsGw(i) THEN GwG0(Cfg(i)) ELSE G0(Cfg(i))
StepOf(i, gg, e, o) == IF IsGw(i) THEN GwStep(Cfg(i), gg, e, o) ELSE Step(Cfg(i), gg, e, o)
EdgeOf(i, gg, e)    == IF IsGw(i) THEN GwEdgeClauses(Cfg(i), gg, e) ELSE EdgeClauses(Cfg(i), gg, e)
NodeOfC(i, gg, o, e) == IF IsGw(i) THEN GwNodeClauses(Cfg(i), gg, o, e) ELSE NodeClauses(Cfg(i), gg, o, e)

Init == /\ sys \in 1..Len(Systems)
        /\ node = Systems[sys].init
        /\ g = G0Of(sys)
        /\ lastop = "init"
        /\ viol = NodeOfC(sys, g, NodeOf(sys, node), IF IsGw(sys) THEN GwInitEv ELSE InitEv) \cap Watch
        /\ path = <<>>

Next == /\ viol \subseteq Soft
        /\ \E k \in 1..Len(EdgesOf(sys, node)) :
             LET ed == EdgesOf(sys, node)[k]
                 e  == ed.ev
                 g2 == StepOf(sys, g, e, NodeOf(sys, ed.to))
             IN /\ node' = ed.to
                /\ g' = g2
                /\ lastop' = e.op
                /\ viol' = (EdgeOf(sys, g, e) \cup NodeOfC(sys, g2, NodeOf(sys, ed.to), e)) \cap Watch
                /\ path' = Append(path, ed.id)
                /\ UNCHANGED sys

Spec == Init /\ [][Next]_vars

Report == viol = {} \/ PrintT(<<"VIOLATION", ToJson([system |-> Systems[sys].name, clauses |-> viol, path |-> path])>>)

View == <<sys, node, g, viol>>
=============================================================================
