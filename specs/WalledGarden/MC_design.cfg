SPECIFICATION Spec
CONSTANTS MaxSteps = 3  NM = 2  TT = 1  Lean = TRUE
INVARIANTS Agree GhostTracks
VIEW View
CHECK_DEADLOCK FALSE
