------------------------- MODULE WalledGardenDesign -------------------------
(***************************************************************************)
(* U1: the contract (WalledGarden.tla) is itself model-checked.  The        *)
(* contract judges one observed step at a time with a small relative ghost  *)
(* (per MAC the state, the VLAN and the minutes since it was last set,      *)
(* saturating).  Here an arbitrary environment produces steps - every call  *)
(* with either result, a failed call with or without effect, any set of     *)
(* tracked MACs vanishing while time passes - and, after each step, either  *)
(* the observation the documentation describes or that observation with one *)
(* component falsified (a wrong state answered, a kernel entry missing /    *)
(* stale / with a wrong state, VLAN, portal address, byte order or expiry   *)
(* stamp, a MAC missing from or wrongly in the list, a statistics field off *)
(* by one, a kernel entry under a foreign key, an allowed destination       *)
(* missing or under a wrong key).  The guarantees are stated directly over  *)
(* the history kept in absolute terms:                                      *)
(*                                                                         *)
(*   H[m]   the last call that set MAC m and has not been undone by         *)
(*          RemoveMAC or expiry: the absolute time of the call, the state   *)
(*          and the VLAN                                                    *)
(*                                                                         *)
(*   - the manager answers and tracks, and the kernel map holds, exactly H; *)
(*     statistics and list are the counts over H; a garden entry's          *)
(*     ExpiryTime is H[m].at + T                                            *)
(*   - a MAC vanishes while time passes only if now - H[m].at > T and its   *)
(*     state is UNKNOWN or WALLED_GARDEN; none such is left with            *)
(*     now - H[m].at >= T + 2                                               *)
(*   - RemoveMAC of a MAC without H[m] returns nil                          *)
(*   - a call that returned an error has either taken effect in both        *)
(*     manager and kernel map or in neither                                 *)
(*                                                                         *)
(* Invariant Agree: the contract accepts a step iff it is legitimate by the *)
(* direct statement (neither weaker nor stronger); only accepted steps are  *)
(* continued.  Invariant GhostTracks: after accepted steps the ghost and    *)
(* the absolute history describe the same table.                            *)
(***************************************************************************)
EXTENDS WalledGarden

CONSTANTS MaxSteps, NM, TT, Lean    \* Lean: a smaller step universe (add, release, remove, time) for the quick tier

Cfg == [impl |-> "design", nm |-> NM, maps |-> TRUE, T |-> TT, cap |-> TT + 3, full |-> 0, order |-> TRUE,
        dns |-> <<1, 2>>, portal |-> <<3, 8080>>, custom |-> << <<1, 53, 6>> >>]
M == Macs(Cfg)
NoneH == <<>>

VARIABLES g, steps, last, now, H
vars == <<g, steps, last, now, H>>

Ev(op, m, st, v, dt, ok, gone) == [op |-> op, m |-> m, s |-> st, v |-> v, dt |-> dt, ok |-> ok, gone |-> gone]
SeqOf(S) == LET RECURSIVE F(_) F(T) == IF T = {} THEN <<>> ELSE LET x == CHOOSE y \in T : \A z \in T : y <= z IN <<x>> \o F(T \ {x}) IN F(S)

Tracked == {m \in M : H[m] # NoneH}

\* ---- the step universe: <<event, took effect>> ----------------------------------------------------
Steps ==
       {x \in {<<Ev(op, m, 0, IF op = "add" THEN 5 ELSE 0, 0, ok, <<>>), eff>> : op \in (IF Lean THEN {"add", "rel", "rm"} ELSE {"add", "rel", "blk", "set", "rm"}), m \in M, ok \in BOOLEAN, eff \in BOOLEAN} :
              x[1].ok => x[2]}
  \cup {<<Ev("race", m, 2, 3, 0, TRUE, <<>>), TRUE>> : m \in (IF Lean THEN {} ELSE M)}
  \cup {<<Ev("adv", 0, 0, 0, dt, TRUE, SeqOf(go)), TRUE>> : dt \in {1, 2}, go \in SUBSET Tracked}

\* the history after the step, per the documentation (a race ends in the second call's state here)
After(e, eff, t) ==
  [m \in M |->
     IF e.op = "adv" THEN (IF m \in Range(e.gone) THEN NoneH ELSE H[m])
     ELSE IF m # e.m \/ ~(e.ok \/ eff) THEN H[m]
     ELSE IF e.op = "rm" THEN NoneH
     ELSE IF e.op = "race" THEN <<[at |-> t, st |-> e.v, vl |-> 0]>>
     ELSE <<[at |-> t, st |-> NewSt(e), vl |-> NewVl(e)]>>]

\* is the step itself legitimate by the direct statement
LegitStep(e, eff, t) ==
  /\ e.op = "adv" => \A m \in Range(e.gone) : t - H[m][1].at > TT /\ H[m][1].st \in {0, 1}
  /\ e.op = "adv" => \A m \in Tracked \ Range(e.gone) : ~(H[m][1].st \in {0, 1} /\ t - H[m][1].at >= TT + 2)
  /\ ~(e.op = "rm" /\ ~e.ok /\ H[e.m] = NoneH)

\* ---- the documented observation and its falsifications -------------------------------------------
AEnt(ip, port, proto, reason) == [ip |-> ip, order |-> "net", port |-> port, proto |-> proto, reason |-> reason, kip |-> ip, kport |-> port, kproto |-> proto, kpad |-> 0]
Doc(h, t) ==
  LET tr(m) == h[m] # NoneH
      st(m) == IF tr(m) THEN h[m][1].st ELSE -1
  IN [macs  |-> [m \in M |-> [tracked |-> tr(m), get |-> IF tr(m) THEN st(m) ELSE 0, inlist |-> IF st(m) = 1 THEN 1 ELSE 0,
                              present |-> tr(m), mst |-> IF tr(m) THEN st(m) ELSE 0, mvlan |-> IF tr(m) THEN h[m][1].vl ELSE 0, mpip |-> "net",
                              left |-> IF tr(m) THEN h[m][1].at + TT - t ELSE 0]],
      stats |-> [total |-> Cardinality({m \in M : tr(m)}), unk |-> Cardinality({m \in M : st(m) = 0}), wg |-> Cardinality({m \in M : st(m) = 1}),
                 prov |-> Cardinality({m \in M : st(m) = 2}), blk |-> Cardinality({m \in M : st(m) = 3})],
      alien |-> 0, listalien |-> 0,
      allowed |-> <<AEnt(1, 53, 6, 3), AEnt(1, 53, 17, 1), AEnt(2, 53, 17, 1), AEnt(3, 8080, 6, 2)>>]

\* falsifications that are visible whatever the state
Always == {<<"tracked", m>> : m \in M} \cup {<<"get", m>> : m \in M} \cup {<<"present", m>> : m \in M} \cup {<<"inlist", m>> : m \in M}
     \cup {<<"total", 0>>, <<"wg", 0>>, <<"unk", 0>>, <<"prov", 0>>, <<"blk", 0>>, <<"alien", 0>>, <<"listalien", 0>>,
           <<"drop", 0>>, <<"extra", 0>>, <<"value", 0>>, <<"reason", 0>>, <<"key", 0>>, <<"pad", 0>>, <<"arev", 0>>}
\* falsifications of a kernel entry that exists
OfEntry(h, t) == UNION {{<<"mst", m>>, <<"mvlan", m>>, <<"mpip", m>>, <<"mrev", m>>} : m \in {x \in M : h[x] # NoneH}}
            \cup {<<"left", m>> : m \in {x \in M : h[x] # NoneH /\ h[x][1].st \in {0, 1} /\ t - h[x][1].at < Cfg.cap}}

Falsify(o, p) ==
  LET k == p[1]  m == p[2] IN
  CASE k = "none"    -> o
    [] k = "tracked" -> [o EXCEPT !.macs[m].tracked = ~@]
    [] k = "get"     -> [o EXCEPT !.macs[m].get = (@ + 1) % 4]
    [] k = "present" -> [o EXCEPT !.macs[m].present = ~@]
    [] k = "inlist"  -> [o EXCEPT !.macs[m].inlist = 1 - @]
    [] k = "mst"     -> [o EXCEPT !.macs[m].mst = (@ + 1) % 4]
    [] k = "mvlan"   -> [o EXCEPT !.macs[m].mvlan = 5 - @]
    [] k = "mpip"    -> [o EXCEPT !.macs[m].mpip = "other"]
    [] k = "mrev"    -> [o EXCEPT !.macs[m].mpip = "rev"]
    [] k = "left"    -> [o EXCEPT !.macs[m].left = @ + 1]
    [] k = "total"   -> [o EXCEPT !.stats.total = @ + 1]
    [] k = "wg"      -> [o EXCEPT !.stats.wg = @ + 1]
    [] k = "unk"     -> [o EXCEPT !.stats.unk = @ + 1]
    [] k = "prov"    -> [o EXCEPT !.stats.prov = @ + 1]
    [] k = "blk"     -> [o EXCEPT !.stats.blk = @ + 1]
    [] k = "alien"   -> [o EXCEPT !.alien = 1]
    [] k = "listalien" -> [o EXCEPT !.listalien = 1]
    [] k = "drop"    -> [o EXCEPT !.allowed = Tail(@)]
    [] k = "extra"   -> [o EXCEPT !.allowed = Append(@, AEnt(4, 443, 6, 3))]
    [] k = "value"   -> [o EXCEPT !.allowed[2].port = 17, !.allowed[2].kport = 17]
    [] k = "reason"  -> [o EXCEPT !.allowed[4].reason = 3]
    [] k = "key"     -> [o EXCEPT !.allowed[1].kproto = 17]
    [] k = "pad"     -> [o EXCEPT !.allowed[3].kpad = 1]
    [] k = "arev"    -> [o EXCEPT !.allowed[3].order = "rev"]

\* a failed call whose effect shows in the manager but not in the kernel map (or the other way round)
Split(e, t) == {x \in {<<"mgr">>, <<"map">>} : e.op \in {"add", "rel", "blk", "set", "rm"} /\ ~e.ok}
SplitObs(e, t, which) ==
  LET old == Doc(H, t)
      new == Doc(After(e, TRUE, t), t)
      a   == IF which = "mgr" THEN new ELSE old       \* whom the manager's answers follow
      b   == IF which = "mgr" THEN old ELSE new       \* whom the kernel map follows
  IN [a EXCEPT !.macs[e.m].present = b.macs[e.m].present, !.macs[e.m].mst = b.macs[e.m].mst, !.macs[e.m].mvlan = b.macs[e.m].mvlan,
               !.macs[e.m].left = b.macs[e.m].left]
SplitVisible(e, t) == Doc(H, t).macs[e.m] # Doc(After(e, TRUE, t), t).macs[e.m]
                      /\ (\/ Doc(H, t).macs[e.m].present # Doc(After(e, TRUE, t), t).macs[e.m].present
                          \/ Doc(H, t).macs[e.m].mst # Doc(After(e, TRUE, t), t).macs[e.m].mst
                          \/ Doc(H, t).macs[e.m].mvlan # Doc(After(e, TRUE, t), t).macs[e.m].mvlan)

Judge(e, obs, g2) == EdgeClauses(Cfg, g, e) \cup NodeClauses(Cfg, g2, obs, e)

Next ==
  /\ last.accepted
  /\ steps < MaxSteps
  /\ steps' = steps + 1
  /\ \E se \in Steps :
       LET e == se[1]  eff == se[2]  t == now + e.dt  h2 == After(e, eff, t)  doc == Doc(h2, t)  legit == LegitStep(e, eff, t)
       IN \/ \E p \in ({<<"none", 0>>} \cup Always \cup OfEntry(h2, t)) \ (IF e.ok THEN {} ELSE {<<"left", e.m>>}) :   \* (a fresh stamp after a failed call = it took effect)
               LET obs == Falsify(doc, p)
                   g2  == Step(Cfg, g, e, obs)
                   cl  == Judge(e, obs, g2)
               IN /\ last' = [accepted |-> cl = {}, legit |-> p[1] = "none" /\ legit, cl |-> cl, why |-> p, e |-> e]
                  /\ g' = g2 /\ H' = h2 /\ now' = t
          \/ \E w \in Split(e, t) :
               LET obs == SplitObs(e, t, w[1])
                   g2  == Step(Cfg, g, e, obs)
                   cl  == Judge(e, obs, g2)
               IN /\ SplitVisible(e, t)
                  /\ last' = [accepted |-> cl = {}, legit |-> FALSE, cl |-> cl, why |-> <<"split", 0>>, e |-> e]
                  /\ g' = g2 /\ H' = h2 /\ now' = t

Init == /\ g = G0(Cfg) /\ steps = 0 /\ now = 0 /\ H = [m \in M |-> NoneH]
        /\ last = [accepted |-> TRUE, legit |-> TRUE, cl |-> {}, why |-> <<"none", 0>>, e |-> InitEv]

Spec == Init /\ [][Next]_vars

\* the contract accepts exactly the legitimate steps
Agree == last.accepted = last.legit

\* after accepted steps the ghost and the absolute history describe the same table
GhostTracks == ~last.accepted \/ \A m \in M : /\ g.st[m] = (IF H[m] = NoneH THEN -1 ELSE H[m][1].st)
                                              /\ H[m] # NoneH => /\ g.vl[m] = H[m][1].vl
                                                                 /\ g.age[m] = Min2(now - H[m][1].at, Cfg.cap)

\* non-vacuity: the guarantees in absolute terms hold of whatever the contract accepted (checked on the documented observation)
\* rejected steps are not continued: only the verdicts matter in them
View == <<steps, last.accepted, last.legit, IF last.accepted THEN <<g, [m \in M |-> IF H[m] = NoneH THEN <<>> ELSE <<Min2(now - H[m][1].at, Cfg.cap + 1), H[m][1].st, H[m][1].vl>>]>> ELSE <<>> >>
=============================================================================
