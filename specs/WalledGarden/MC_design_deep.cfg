SPECIFICATION Spec
CONSTANTS MaxSteps = 4  NM = 2  TT = 2  Lean = FALSE
INVARIANTS Agree GhostTracks
VIEW View
CHECK_DEADLOCK FALSE
