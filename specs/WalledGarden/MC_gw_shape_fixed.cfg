SPECIFICATION Spec
CONSTANTS Fixed = TRUE  MaxLen = 7
INVARIANTS Clean GhostTracks
VIEW View
CHECK_DEADLOCK FALSE
