------------------------- MODULE WifiGatewayDesign -------------------------
(***************************************************************************)
(* U1 for the WiFi-gateway contract (WifiGateway.tla), in the manner of     *)
(* WalledGardenDesign: an arbitrary environment produces steps (every call  *)
(* with the documented or a falsified result, any set of sessions vanishing *)
(* while time passes, callbacks as documented or dropped / doubled) and,    *)
(* after each step, the observation the documentation describes or that     *)
(* observation with one component falsified.  The guarantees are stated     *)
(* directly over the absolute history                                       *)
(*                                                                         *)
(*   H[m]   the session of MAC m: absolute time of creation, of the last    *)
(*          renewal, the address, authenticated or not                      *)
(*                                                                         *)
(*   - GetSession / ListSessions / Stats / NeedsAuthentication /            *)
(*     IsInGracePeriod describe exactly H; GetSessionByIP(ip) finds a       *)
(*     session of H that holds ip                                           *)
(*   - a session vanishes while time passes only if now - renewed > L or,   *)
(*     unauthenticated with the portal on, now - created > GP; none such is *)
(*     left two minutes later                                               *)
(*   - results and callbacks as documented                                  *)
(*                                                                         *)
(* Invariant Agree: the contract accepts a step iff it is legitimate by the *)
(* direct statement; GhostTracks: after accepted steps ghost and history    *)
(* describe the same sessions.                                              *)
(***************************************************************************)
EXTENDS WifiGateway

CONSTANTS MaxSteps, NM, LL, GG

Cfg == [kind |-> "gw", impl |-> "design", nm |-> NM, nip |-> 1, L |-> LL, GP |-> GG, portal |-> TRUE, cap |-> (IF LL > GG THEN LL ELSE GG) + 3]
M == GwMacs(Cfg)
NoneH == <<>>

VARIABLES g, steps, last, now, H
vars == <<g, steps, last, now, H>>

Live == {m \in M : H[m] # NoneH}
SeqOf(S) == LET RECURSIVE F(_) F(T) == IF T = {} THEN <<>> ELSE LET x == CHOOSE y \in T : \A z \in T : y <= z IN <<x>> \o F(T \ {x}) IN F(S)

Ev(op, m, ip, dt) == [op |-> op, m |-> m, ip |-> ip, dt |-> dt, ok |-> TRUE, same |-> TRUE, rip |-> 0, gone |-> <<>>, created |-> <<>>, authed |-> <<>>, expired |-> <<>>]

\* the documented result of a call in history H
Documented(op, m, go) ==
  LET live == op # "adv" /\ H[m] # NoneH
      b == Ev(op, m, IF op = "create" THEN 1 ELSE 0, 0)
  IN CASE op = "create"  -> [b EXCEPT !.rip = 1, !.created = IF live THEN <<>> ELSE <<m>>]
       [] op = "renew"   -> [b EXCEPT !.ok = live]
       [] op = "auth"    -> [b EXCEPT !.ok = live, !.authed = IF live THEN <<m>> ELSE <<>>]
       [] op = "release" -> [b EXCEPT !.expired = IF live THEN <<m>> ELSE <<>>]

\* falsified results
Wrong(e) == {[e EXCEPT !.ok = ~@]} \cup {[e EXCEPT !.created = @ \o <<e.m>>], [e EXCEPT !.authed = @ \o <<e.m>>], [e EXCEPT !.expired = @ \o <<e.m>>]}
       \cup (IF e.op = "create" THEN {[e EXCEPT !.rip = 0]} \cup (IF H[e.m] # NoneH THEN {[e EXCEPT !.same = FALSE]} ELSE {}) ELSE {})

Calls == {Documented(op, m, {}) : op \in {"create", "renew", "auth", "release"}, m \in M}
Advs  == {[Ev("adv", 0, 0, dt) EXCEPT !.gone = SeqOf(go), !.expired = SeqOf(go)] : dt \in {1, 2}, go \in SUBSET Live}
WrongAdvs == {[a EXCEPT !.expired = Tail(@)] : a \in {x \in Advs : x.gone # <<>>}} \cup {[a EXCEPT !.expired = @ \o <<1>>] : a \in Advs}

After(e, t) ==
  [m \in M |->
     IF e.op = "adv" THEN (IF m \in GRange(e.gone) THEN NoneH ELSE H[m])
     ELSE IF m # e.m THEN H[m]
     ELSE IF e.op = "create" THEN (IF H[m] = NoneH THEN <<[cat |-> t, at |-> t, ip |-> e.ip, auth |-> FALSE]>> ELSE <<[H[m][1] EXCEPT !.at = t]>>)
     ELSE IF e.op = "renew" THEN (IF H[m] = NoneH THEN NoneH ELSE <<[H[m][1] EXCEPT !.at = t]>>)
     ELSE IF e.op = "auth" THEN (IF H[m] = NoneH THEN NoneH ELSE <<[H[m][1] EXCEPT !.auth = TRUE]>>)
     ELSE NoneH]

MayGo(h, t)  == t - h.at > LL \/ (~h.auth /\ t - h.cat > GG)
MustGo(h, t) == t - h.at >= LL + 2 \/ (~h.auth /\ t - h.cat >= GG + 2)
LegitAdv(e, t) == /\ \A m \in GRange(e.gone) : MayGo(H[m][1], t)
                  /\ \A m \in Live \ GRange(e.gone) : ~MustGo(H[m][1], t)

Doc(h, t) ==
  LET lv(m) == h[m] # NoneH
      un(m) == lv(m) /\ ~h[m][1].auth
      holders == {m \in M : lv(m)}      \* one address
  IN [macs |-> [m \in M |-> [has |-> lv(m), ip |-> IF lv(m) THEN h[m][1].ip ELSE 0, auth |-> lv(m) /\ h[m][1].auth,
                             state |-> IF ~lv(m) THEN "" ELSE IF h[m][1].auth THEN "authenticated" ELSE "grace_period",
                             left |-> IF lv(m) THEN h[m][1].at + LL - t ELSE 0, needs |-> ~(lv(m) /\ h[m][1].auth),
                             ingrace |-> un(m) /\ t - h[m][1].cat < GG, inlist |-> IF lv(m) THEN 1 ELSE 0]],
      ips |-> <<[byip |-> IF holders = {} THEN 0 ELSE CHOOSE m \in holders : \A k \in holders : m <= k]>>,
      listalien |-> 0,
      stats |-> [active |-> Cardinality({m \in M : lv(m)}), authd |-> Cardinality({m \in M : lv(m) /\ h[m][1].auth}),
                 grace |-> Cardinality({m \in M : un(m) /\ t - h[m][1].cat < GG})]]

Always(h, t) == {<<"has", m>> : m \in M} \cup {<<"needs", m>> : m \in M} \cup {<<"inlist", m>> : m \in M}
           \cup {<<"ingrace", m>> : m \in {x \in M : ~(h[x] # NoneH /\ ~h[x][1].auth /\ t - h[x][1].cat = GG)}}
           \cup {<<"byip", 0>>, <<"listalien", 0>>, <<"active", 0>>, <<"authd", 0>>, <<"grace", 0>>}
OfSession(h, t) == UNION {{<<"ip", m>>, <<"auth", m>>, <<"state", m>>} : m \in {x \in M : h[x] # NoneH}}
              \cup {<<"left", m>> : m \in {x \in M : h[x] # NoneH /\ t - h[x][1].at < Cfg.cap}}

Falsify(o, p, h) ==
  LET k == p[1]  m == p[2] IN
  CASE k = "none"    -> o
    [] k = "has"     -> [o EXCEPT !.macs[m].has = ~@]
    [] k = "needs"   -> [o EXCEPT !.macs[m].needs = ~@]
    [] k = "inlist"  -> [o EXCEPT !.macs[m].inlist = 1 - @]
    [] k = "ingrace" -> [o EXCEPT !.macs[m].ingrace = ~@]
    [] k = "ip"      -> [o EXCEPT !.macs[m].ip = 0]
    [] k = "auth"    -> [o EXCEPT !.macs[m].auth = ~@]
    [] k = "state"   -> [o EXCEPT !.macs[m].state = "new"]
    [] k = "left"    -> [o EXCEPT !.macs[m].left = @ - 1]
    [] k = "byip"    -> [o EXCEPT !.ips[1].byip = IF {x \in M : h[x] # NoneH} = {} THEN 1 ELSE 0]
    [] k = "listalien" -> [o EXCEPT !.listalien = 1]
    [] k = "active"  -> [o EXCEPT !.stats.active = @ + 1]
    [] k = "authd"   -> [o EXCEPT !.stats.authd = @ + 1]
    [] k = "grace"   -> [o EXCEPT !.stats.grace = @ + 5]

Next ==
  /\ last.accepted
  /\ steps < MaxSteps
  /\ steps' = steps + 1
  /\ \E d \in Calls \cup Advs :
       LET t == now + d.dt  h2 == After(d, t)  doc == Doc(h2, t)
       IN \/ \E p \in {<<"none", 0>>} \cup Always(h2, t) \cup OfSession(h2, t) :
               LET obs == Falsify(doc, p, h2)
                   g2  == GwStep(Cfg, g, d, obs)
                   cl  == GwEdgeClauses(Cfg, g, d) \cup GwNodeClauses(Cfg, g2, obs, d)
               IN /\ last' = [accepted |-> cl = {}, legit |-> p[1] = "none" /\ (d.op = "adv" => LegitAdv(d, t)), cl |-> cl, why |-> p, e |-> d]
                  /\ g' = g2 /\ H' = h2 /\ now' = t
          \* a falsified result with the documented observation
          \/ \E w \in (IF d.op = "adv" THEN {x \in WrongAdvs : x.gone = d.gone /\ x.dt = d.dt} ELSE Wrong(d)) :
               LET g2  == GwStep(Cfg, g, w, doc)
                   cl  == GwEdgeClauses(Cfg, g, w) \cup GwNodeClauses(Cfg, g2, doc, w)
               IN /\ last' = [accepted |-> cl = {}, legit |-> FALSE, cl |-> cl, why |-> <<"result", 0>>, e |-> w]
                  /\ g' = g2 /\ H' = h2 /\ now' = t

Init == /\ g = GwG0(Cfg) /\ steps = 0 /\ now = 0 /\ H = [m \in M |-> NoneH]
        /\ last = [accepted |-> TRUE, legit |-> TRUE, cl |-> {}, why |-> <<"none", 0>>, e |-> GwInitEv]

Spec == Init /\ [][Next]_vars

Agree == last.accepted = last.legit

GhostTracks == ~last.accepted \/ \A m \in M : /\ g.live[m] = (H[m] # NoneH)
                                              /\ H[m] # NoneH => /\ g.ip[m] = H[m][1].ip /\ g.auth[m] = H[m][1].auth
                                                                 /\ g.lage[m] = GMin2(now - H[m][1].at, Cfg.cap)
                                                                 /\ g.gage[m] = GMin2(now - H[m][1].cat, Cfg.cap)

View == <<steps, last.accepted, last.legit, IF last.accepted THEN <<g, [m \in M |-> IF H[m] = NoneH THEN <<>> ELSE
            <<GMin2(now - H[m][1].at, Cfg.cap + 1), GMin2(now - H[m][1].cat, Cfg.cap + 1), H[m][1].ip, H[m][1].auth>>]>> ELSE <<>> >>
=============================================================================
