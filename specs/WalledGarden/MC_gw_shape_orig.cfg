SPECIFICATION Spec
CONSTANTS Fixed = FALSE  MaxLen = 5
INVARIANTS Report
VIEW View
CHECK_DEADLOCK FALSE
