---------------------------- MODULE WalledGarden ----------------------------
(***************************************************************************)
(* Contract of pkg/walledgarden (manager.go): the walled-garden Manager -   *)
(* per-MAC subscriber state, its mirror in the kernel (eBPF) maps handed     *)
(* over with SetEBPFMaps, the expiry checker, the allowed-destination table, *)
(* statistics and the MAC list.  Extra family X09: none of the 20 listed     *)
(* properties; the sentences below were formulated from the package's own    *)
(* comments (quoted), weakest reading.                                       *)
(*                                                                         *)
(* The contract talks about what an outside observer sees after every call:  *)
(* what each call returned (nil or an error), GetSubscriberState, Stats,     *)
(* ListWalledGardenMACs, which MACs the manager tracks, and the raw contents *)
(* of the kernel maps (real maps created by the harness, read back with      *)
(* plain lookups / iteration).                                               *)
(*                                                                         *)
(* S1 "SetSubscriberState sets the state for a MAC address" /               *)
(*    "GetSubscriberState returns the state for a MAC address" /            *)
(*    "AddToWalledGarden adds a MAC to the walled garden" /                 *)
(*    "ReleaseFromWalledGarden releases a MAC from the walled garden        *)
(*    (provisioned)" / "BlockMAC blocks a MAC from all network access" /    *)
(*    "RemoveMAC removes a MAC from tracking completely" / StateUnknown     *)
(*    "subscriber is not known":                                            *)
(*    LastSet          GetSubscriberState answers the state set last for    *)
(*                     that MAC (add: WALLED_GARDEN, release: PROVISIONED,  *)
(*                     block: BLOCKED, set: the state given), UNKNOWN for a *)
(*                     MAC never set, removed or expired; the manager       *)
(*                     tracks exactly the MACs set and not removed/expired  *)
(*    Isolation        a call naming one MAC changes nothing about another  *)
(*                     MAC: neither its state nor its kernel entry          *)
(*    RemovedAbsent    after RemoveMAC the MAC is not tracked and has no    *)
(*                     kernel entry                                         *)
(*    NotFoundIgnored  RemoveMAC: "Ignore not found errors" - removing a    *)
(*                     MAC that has no kernel entry returns nil             *)
(* S2 "Update eBPF map if loaded" / "Local cache for quick lookups" /       *)
(*    WalledGardenEntry "represents an entry in the walled garden eBPF map. *)
(*    Key: MAC address (uint64)" (State, VlanID, PortalIP "IP to redirect   *)
(*    HTTP to"):                                                            *)
(*    Mirror           with maps attached, after every call that returned   *)
(*                     nil the kernel map holds an entry for a MAC iff the  *)
(*                     manager tracks it, with the manager's state, the     *)
(*                     VLAN given to AddToWalledGarden (0 otherwise) and    *)
(*                     the configured portal address; no entry under any    *)
(*                     other key                                            *)
(*    MirrorOnError    a call that returned an error leaves manager and     *)
(*                     kernel map in agreement about that MAC (both the old *)
(*                     or both the new state): what GetSubscriberState and  *)
(*                     Stats report is what the data plane enforces         *)
(*    MirrorConcurrent "mu sync.RWMutex" (the manager is made for concurrent *)
(*                     callers): after two set calls for one MAC made at    *)
(*                     the same time have both returned, GetSubscriberState *)
(*                     answers one of the two states and the kernel entry   *)
(*                     carries that same state                              *)
(*    NetOrder         "PortalIP uint32 // Network byte order", "IP uint32  *)
(*                     // Network byte order": the four bytes of these      *)
(*                     fields in the map are the address bytes in order     *)
(* S3 Config.DefaultTimeout "is how long unknown MACs stay in walled garden *)
(*    before re-check" / "ExpiryTime uint64 // Unix timestamp when entry    *)
(*    expires" / "expiryChecker periodically checks for expired entries" /  *)
(*    "checkExpiredEntries removes expired entries from the map":           *)
(*    NoEarlyExpiry    an entry disappears without RemoveMAC only when more *)
(*                     than DefaultTimeout has passed since it was last set *)
(*    FreshKept        the same when the call that sets the entry again and *)
(*                     the checker run at the same time ("mu sync.RWMutex": *)
(*                     made for concurrent callers): after both are done    *)
(*                     the entry set at that instant is tracked and in the  *)
(*                     kernel map (whichever came first, the entry is not   *)
(*                     older than DefaultTimeout)                           *)
(*    ExpiryOnlyGarden only entries in the walled garden (WALLED_GARDEN, or *)
(*                     UNKNOWN = "not known, apply walled garden") expire;  *)
(*                     a PROVISIONED ("bypass walled garden") or BLOCKED    *)
(*                     ("blocked from all access") MAC keeps its state      *)
(*                     until a call changes it                              *)
(*    ExpiryDue        with maps attached (the checker works off the kernel *)
(*                     map) a garden entry older than DefaultTimeout plus   *)
(*                     two checker periods (1 minute each) is gone          *)
(*    ExpiryStamp      a garden entry's ExpiryTime is the time it was last  *)
(*                     set plus DefaultTimeout                              *)
(*    (the successor of an expired entry is "removed": LastSet / Mirror     *)
(*    judge the state after the step - UNKNOWN, untracked, no kernel entry) *)
(* S4 "initAllowedDestinations populates the allowed destinations map":     *)
(*    "Add DNS servers" (port 53, UDP), "Add portal server" (PortalPort,    *)
(*    TCP), "Add additional allowed destinations"; allowedDestKey "Key: IP  *)
(*    (32 bits) | Port (16 bits) | Proto (8 bits) | padding (8 bits)":      *)
(*    AllowedExact     after Start the allowed-destination map holds        *)
(*                     exactly the configured destinations (one entry per   *)
(*                     distinct address/port/protocol triple, value fields  *)
(*                     = the triple, reason = one of the configured ones),  *)
(*                     and no later call changes it                         *)
(*    KeyEncoding      every key is the documented encoding of its entry's  *)
(*                     triple (so distinct triples have distinct keys)      *)
(* S5 "Stats returns walled garden statistics" (Total, InWalledGarden,      *)
(*    Provisioned, Blocked, Unknown) / "ListWalledGardenMACs returns all    *)
(*    MACs currently in the walled garden":                                 *)
(*    StatsTrue        Total = number of tracked MACs, every other field =  *)
(*                     number of tracked MACs in that state                 *)
(*    ListExact        the list holds exactly the MACs whose state is       *)
(*                     WALLED_GARDEN, each once, and nothing else           *)
(*                                                                         *)
(* Unconstrained: whether a call returns an error when the kernel refuses    *)
(* (only what the state is afterwards), the instant age = DefaultTimeout,    *)
(* ExpiryTime of PROVISIONED / BLOCKED entries, the statistics map, logging, *)
(* OnRedirect, managers without maps never expiring anything, maps attached  *)
(* after entries exist, MACs that are not 6 bytes long, IPv6 destinations.   *)
(* Environment: time advances only between calls, in whole minutes, calls    *)
(* happen half a minute off the checker's ticks.                             *)
(***************************************************************************)
EXTENDS Integers, FiniteSets, Sequences, TLC

Range(s)   == {s[i] : i \in 1..Len(s)}
Min2(a, b) == IF a < b THEN a ELSE b

\* cfg = [impl, nm (MACs), maps (BOOLEAN), T (DefaultTimeout, minutes), cap (= T + 3, where ghost ages saturate),
\*        order (BOOLEAN: the byte order of address fields is judged in this system),
\*        dns (sequence of address indices), portal (<<address index, port>>), custom (sequence of <<address index, port, proto>>), ...]
\* event e = [op, m, s, v, dt, ok, gone]: op in add | rel | blk | rm | set | adv | race (m, first call s, second call v) | trace (m); gone = the MACs the manager tracked before the step and not after
\* ghost: st[m] in -1 (not tracked) .. 3, vl[m] the VLAN of the kernel entry, age[m] whole minutes since the MAC was last set (saturating at cfg.cap)
Macs(cfg) == 1..cfg.nm
G0(cfg) == [st |-> [m \in Macs(cfg) |-> -1], vl |-> [m \in Macs(cfg) |-> 0], age |-> [m \in Macs(cfg) |-> 0]]
InitEv == [op |-> "init", m |-> 0, s |-> 0, v |-> 0, dt |-> 0, ok |-> TRUE, gone |-> <<>>]

IsSet(e)  == e.op \in {"add", "rel", "blk", "set"}
NewSt(e)  == CASE e.op = "add" -> 1 [] e.op = "rel" -> 2 [] e.op = "blk" -> 3 [] OTHER -> e.s
NewVl(e)  == IF e.op = "add" THEN e.v ELSE 0
Garden(s) == s \in {0, 1}

\* a state violating only these is explored further by the monitor (the byte order is the same in every state)
Soft == {"NetOrder"}

\* ---- clauses judged on the step's own result ------------------------------------------------------
EdgeClauses(cfg, g, e) ==
  IF e.op = "adv" THEN
       (IF \E m \in Range(e.gone) : g.st[m] # -1 /\ Min2(g.age[m] + e.dt, cfg.cap) <= cfg.T THEN {"NoEarlyExpiry"} ELSE {})
  \cup (IF \E m \in Range(e.gone) : g.st[m] # -1 /\ ~Garden(g.st[m]) THEN {"ExpiryOnlyGarden"} ELSE {})
  ELSE IF e.op = "rm" THEN
       (IF ~e.ok /\ (~cfg.maps \/ g.st[e.m] = -1) THEN {"NotFoundIgnored"} ELSE {})
  ELSE {}

\* ---- next ghost -----------------------------------------------------------------------------------
\* a call that returned an error may have taken effect or not: the manager's own answer (tracked, get) decides which
\* (if the MAC already was in the state asked for, the kernel entry's fresh stamp tells)
TookEffect(cfg, g, e, obs) ==
  LET o == obs.macs[e.m] IN
  IF e.op = "rm" THEN ~o.tracked
  ELSE /\ o.tracked /\ o.get = NewSt(e)
       /\ (g.st[e.m] # NewSt(e) \/ ~cfg.maps \/ (o.present /\ o.left = cfg.T /\ o.mvlan = NewVl(e)))

Step(cfg, g, e, obs) ==
  IF e.op = "race" THEN   \* two set calls at once (codes e.s, e.v: 1 add with VLAN 5, 2 release, 3 block): either may have been last
     \* (a call the kernel refused - e.ok false - may also have left the old state)
     LET hit == obs.macs[e.m].tracked /\ obs.macs[e.m].get \in {e.s, e.v}
         st  == IF hit THEN obs.macs[e.m].get ELSE e.v
     IN IF ~hit /\ ~e.ok THEN g ELSE [g EXCEPT !.st[e.m] = st, !.vl[e.m] = IF st = 1 THEN 5 ELSE 0, !.age[e.m] = 0]
  ELSE IF e.op = "trace" THEN  \* AddToWalledGarden(m, 5) at the very instant of the checker pass in which m's previous entry is expired
     [g EXCEPT !.st[e.m] = 1, !.vl[e.m] = 5, !.age[e.m] = 0]
  ELSE IF e.op = "adv" THEN
     [g EXCEPT !.age = [m \in Macs(cfg) |-> Min2(g.age[m] + e.dt, cfg.cap)],
               !.st  = [m \in Macs(cfg) |-> IF m \in Range(e.gone) THEN -1 ELSE g.st[m]]]
  ELSE IF ~(e.ok \/ TookEffect(cfg, g, e, obs)) THEN g
  ELSE IF e.op = "rm" THEN [g EXCEPT !.st[e.m] = -1]
  ELSE IF IsSet(e) THEN [g EXCEPT !.st[e.m] = NewSt(e), !.vl[e.m] = NewVl(e), !.age[e.m] = 0]
  ELSE g

\* ---- clauses judged on the observation after the step ---------------------------------------------
\* n = [macs |-> sequence of [tracked, get, inlist, present, mst, mvlan, mpip ("net" | "rev" | "other"), left (minutes, 9999: not whole)],
\*      stats |-> [total, wg, prov, blk, unk], alien (kernel entries under other keys), listalien,
\*      allowed |-> sequence of [ip, order, port, proto, reason, kip, kport, kproto, kpad]]
Count(g, s) == Cardinality({m \in DOMAIN g.st : g.st[m] = s})

ExpectAllowed(cfg) ==
       {<<cfg.dns[i], 53, 17, 1>> : i \in 1..Len(cfg.dns)}
  \cup {<<cfg.portal[1], cfg.portal[2], 6, 2>>}
  \cup {<<cfg.custom[i][1], cfg.custom[i][2], cfg.custom[i][3], 3>> : i \in 1..Len(cfg.custom)}
Triple(x) == <<x[1], x[2], x[3]>>

Own(e, m) == e.op \in {"init", "adv"} \/ m = e.m

MgrName(e, m) == IF ~Own(e, m) THEN "Isolation" ELSE IF e.op = "trace" THEN "FreshKept" ELSE IF e.op = "rm" THEN "RemovedAbsent" ELSE "LastSet"
MapName(e, m) == IF ~Own(e, m) THEN "Isolation" ELSE IF e.op = "trace" THEN "FreshKept" ELSE IF e.op = "race" THEN "MirrorConcurrent" ELSE IF ~e.ok THEN "MirrorOnError" ELSE IF e.op = "rm" THEN "RemovedAbsent" ELSE "Mirror"

NodeClauses(cfg, g, n, e) ==
  LET mg(m) == n.macs[m]
      tr(m) == g.st[m] # -1
  IN   UNION {   (IF mg(m).tracked # tr(m) \/ mg(m).get # (IF tr(m) THEN g.st[m] ELSE 0) THEN {MgrName(e, m)} ELSE {})
            \cup (IF cfg.maps /\ (mg(m).present # tr(m) \/ (tr(m) /\ (mg(m).mst # g.st[m] \/ mg(m).mvlan # g.vl[m] \/ mg(m).mpip = "other")))
                     THEN {MapName(e, m)} ELSE {})
            \cup (IF cfg.maps /\ cfg.order /\ mg(m).present /\ mg(m).mpip = "rev" THEN {"NetOrder"} ELSE {})
            \cup (IF cfg.maps /\ tr(m) /\ mg(m).present /\ Garden(g.st[m]) /\ g.age[m] < cfg.cap /\ mg(m).left # cfg.T - g.age[m] THEN {"ExpiryStamp"} ELSE {})
            \cup (IF cfg.maps /\ tr(m) /\ Garden(g.st[m]) /\ g.age[m] >= cfg.T + 2 THEN {"ExpiryDue"} ELSE {})
            \cup (IF mg(m).inlist # (IF g.st[m] = 1 THEN 1 ELSE 0) THEN {"ListExact"} ELSE {})
            : m \in Macs(cfg)}
  \cup (IF cfg.maps /\ n.alien # 0 THEN {"Mirror"} ELSE {})
  \cup (IF n.listalien # 0 THEN {"ListExact"} ELSE {})
  \cup (IF \/ n.stats.total # Cardinality({m \in Macs(cfg) : tr(m)})
           \/ n.stats.unk # Count(g, 0) \/ n.stats.wg # Count(g, 1) \/ n.stats.prov # Count(g, 2) \/ n.stats.blk # Count(g, 3)
          THEN {"StatsTrue"} ELSE {})
  \cup (IF cfg.maps THEN
          LET A   == Range(n.allowed)
              exp == ExpectAllowed(cfg)
          IN   (IF \/ {<<a.ip, a.port, a.proto>> : a \in A} # {Triple(x) : x \in exp}
                   \/ Len(n.allowed) # Cardinality({Triple(x) : x \in exp})
                   \/ \E a \in A : <<a.ip, a.port, a.proto, a.reason>> \notin exp
                  THEN {"AllowedExact"} ELSE {})
          \cup (IF \E a \in A : a.kip # a.ip \/ a.kport # a.port \/ a.kproto # a.proto \/ a.kpad # 0 THEN {"KeyEncoding"} ELSE {})
          \cup (IF cfg.order /\ \E a \in A : a.order = "rev" THEN {"NetOrder"} ELSE {})
        ELSE {})
=============================================================================
