SPECIFICATION Spec
CONSTANT Watch = {"LastSet", "Isolation", "RemovedAbsent", "NotFoundIgnored", "Mirror", "MirrorOnError", "MirrorConcurrent", "NetOrder", "NoEarlyExpiry", "FreshKept", "ExpiryOnlyGarden", "ExpiryDue", "ExpiryStamp", "AllowedExact", "KeyEncoding", "StatsTrue", "ListExact"}
INVARIANTS Report
VIEW View
CHECK_DEADLOCK FALSE
