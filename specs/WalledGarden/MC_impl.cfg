SPECIFICATION Spec
CONSTANT Watch = {"LastSet", "Isolation", "RemovedAbsent", "NotFoundIgnored", "Mirror", "MirrorOnError", "MirrorConcurrent", "NetOrder", "NoEarlyExpiry", "FreshKept", "ExpiryOnlyGarden", "ExpiryDue", "ExpiryStamp", "AllowedExact", "KeyEncoding", "StatsTrue", "ListExact", "SessionTable", "GwIsolation", "RenewSame", "CreateResult", "NotFoundError", "ReleaseIdempotent", "LeaseStamp", "IndexExact", "GwListExact", "GwNoEarlyExpiry", "ExpiredCleaned", "GraceFlag", "NeedsAuth", "CallbackOnce", "GwStatsTrue"}
INVARIANTS Report
VIEW View
CHECK_DEADLOCK FALSE
