SPECIFICATION Spec
CONSTANTS MaxSteps = 5  NM = 2  LL = 1  GG = 2
INVARIANTS Agree GhostTracks
VIEW View
CHECK_DEADLOCK FALSE
