SPECIFICATION Spec
CONSTANTS N = 2  U = 2  ITO = 1  AdvQ = 2  Fixed = TRUE  MaxLen = 8  Rich = TRUE
INVARIANTS Report Clean
VIEW View
CHECK_DEADLOCK FALSE
