SPECIFICATION Spec
CONSTANTS N = 2  U = 2  ITO = 1  AdvQ = 2  Fixed = TRUE  MaxLen = 7  Rich = FALSE
INVARIANTS Report Clean
VIEW View
CHECK_DEADLOCK FALSE
