SPECIFICATION Spec
CONSTANTS N = 2  Max = 2  U = 2  STO = 3  ITO = 2  ASTO = 2  AITO = 1  MaxT = 6  MaxOps = 6
INVARIANTS Capacity Walled OneHolder StatsBalance EventChain AuthSticky Agree Consistent GhostSane
VIEW View
CHECK_DEADLOCK FALSE
