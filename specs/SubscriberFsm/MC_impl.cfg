SPECIFICATION Spec
CONSTANT Watch = {"Admission", "Successor", "WalledNotActive", "IndexExact", "StatsTrue", "EventsOnce", "TimeoutOnlyExpired", "ExpiredCleaned"}
INVARIANTS Report FluxTracks
VIEW View
CHECK_DEADLOCK FALSE
