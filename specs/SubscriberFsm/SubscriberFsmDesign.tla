------------------------- MODULE SubscriberFsmDesign -------------------------
(***************************************************************************)
(* U1: the contract (SubscriberFsm.tla) is itself model-checked.            *)
(*                                                                         *)
(* An arbitrary environment drives the contract: it chooses the call, the   *)
(* session, the authentication outcome, the unit the allocator returns (any *)
(* unit no other live session holds, or a refusal), how much time passes,   *)
(* and - for a cleanup pass - ANY set of sessions to end with ANY reasons.  *)
(* A step is taken only if the contract accepts it (EdgeClauses and         *)
(* NodeClauses empty).  TLC then checks that the guarantees, stated         *)
(* directly over absolute time and whole histories, follow:                 *)
(*                                                                         *)
(*   Capacity      never more than Max live sessions                        *)
(*   Walled        flag set => not active; walled_garden => flag set        *)
(*   OneHolder     no address held by two live sessions; every index        *)
(*                 answer the contract allows is unique                     *)
(*   StatsBalance  created - ended = number of live sessions                *)
(*   EventChain    the NewState of the latest event of a session is its     *)
(*                 state (unless AssignAddress ran since), every event's    *)
(*                 OldState is the NewState of the previous one (same       *)
(*                 proviso; authentication outcomes say authenticating),    *)
(*                 an ended session's last event is its termination         *)
(*   AuthSticky    authenticated is never lost while the session lives;     *)
(*                 state address_assign => authenticated                    *)
(*   Agree         for every candidate pass (accepted or not) the timeout   *)
(*                 clauses of the contract - which only keep saturated      *)
(*                 relative ages - flag it iff the statement over absolute  *)
(*                 time does: ended with session_timeout => now - created   *)
(*                 >= SessionTimeout > 0; with idle_timeout => now - last   *)
(*                 activity >= IdleTimeout > 0; nobody left with            *)
(*                 now - created > SessionTimeout or now - last activity >  *)
(*                 IdleTimeout                                              *)
(*   Consistent    the step the contract itself predicts is accepted        *)
(*   MutantsDie    and every single-field corruption of it (result flag,    *)
(*                 events dropped / doubled / differing between handlers,   *)
(*                 each statistics delta, observed state, index answers,    *)
(*                 counts) is rejected - each clause is effective           *)
(***************************************************************************)
EXTENDS SubscriberFsm

CONSTANTS N, Max, U, STO, ITO, ASTO, AITO, MaxT, MaxOps

Max2(a, b) == IF a > b THEN a ELSE b
Cap == Max2(Max2(STO, ITO), Max2(ASTO, AITO)) + 1
Cfg == [n |-> N, max |-> Max, sto |-> STO, ito |-> ITO, asto |-> ASTO, aito |-> AITO, cap |-> Cap, u4 |-> U, u6 |-> 0]
Slots == 1..N
Units == 1..U

VARIABLES g,        \* the contract's ghost
          now,      \* absolute time
          born, act,\* per slot: absolute time of creation / of the last activity
          diff,     \* created - ended (from the accepted statistics deltas)
          lastN,    \* per slot: NewState of the latest event about its session ("" = none yet)
          silent,   \* per slot: AssignAddress changed the state since that event
          wasAu,    \* per slot: the session was authenticated at some point of its life
          chain,    \* every event so far continued its session's chain
          ops,      \* number of steps taken
          last      \* verdicts about the last candidate pass: [contract, direct]
vars == <<g, now, born, act, diff, lastN, silent, wasAu, chain, ops, last>>

\* ---- canonical observation of a ghost state ------------------------------------------------
HolderOf(gg, u) == IF Hold4(gg, u) = {} THEN 0 ELSE CHOOSE k \in Hold4(gg, u) : TRUE
ObsOf(gg) == [ss |-> [k \in Slots |-> Proj(gg.s[k])],
              bymac |-> [k \in Slots |-> IF gg.s[k].live THEN k ELSE 0],
              by4 |-> [u \in Units |-> HolderOf(gg, u)], by6 |-> <<>>,
              active |-> Cardinality(LiveSet(gg)), walled |-> Cardinality({k \in LiveSet(gg) : gg.s[k].wg}),
              nlist |-> Cardinality(LiveSet(gg)), fx |-> ""]

\* ---- the step the contract predicts for a call -----------------------------------------------
Calls == [op : {"create", "activate", "walled", "unwalled", "activity"}, a : {""}]
         \cup [op : {"auth"}, a : {"ok", "okto", "walled", "fail", "err"}]
         \cup [op : {"assign"}, a : {"a", "6"}]
         \cup [op : {"term"}, a : {"admin", "user"}]

\* units the allocator may return to session k: none (0), or one no other live session holds
Offer(k, c) == IF c.op = "assign" /\ c.a = "a" THEN {0} \cup {u \in Units : Hold4(g, u) \subseteq {k}} ELSE {0}

Canon(c, k, u) ==
  LET r   == g.s[k]
      e0  == [op |-> c.op, s |-> k, a |-> c.a, q |-> 0, ok |-> TRUE, done |-> TRUE, skip |-> FALSE, u4 |-> u, u6 |-> 0,
              evs |-> <<>>, evs2 |-> <<>>, dc |-> 0, de |-> 0, dok |-> 0, dfail |-> 0]
      okx == ExpOk(Cfg, g, r, c.op, c.a, e0)
      e1  == [e0 EXCEPT !.ok = okx]
      r2  == After(Cfg, r, c.op, c.a, e1)
      evs == ExpEvs(r, r2, c.op, k, c.a, e1)
  IN [e1 EXCEPT !.evs = evs, !.evs2 = evs,
                !.dc = IF c.op = "create" /\ okx THEN 1 ELSE 0,
                !.de = IF r.live /\ ~r2.live THEN 1 ELSE 0,
                !.dok = IF c.op = "auth" /\ r.live /\ AuthOK(c.a) THEN 1 ELSE 0,
                !.dfail = IF c.op = "auth" /\ r.live /\ ~AuthOK(c.a) THEN 1 ELSE 0]

Verdict(e, obs) == EdgeClauses(Cfg, g, e, obs) \cup NodeClauses(Cfg, Step(Cfg, g, e, obs), obs, e.op)
Accepts(e, obs) == Verdict(e, obs) = {}

\* ---- single-field corruptions of a predicted step -------------------------------------------
Bogus(k) == Ev(k, "session_update", "init", "init", "")
OtherSt(st) == IF st = "active" THEN "init" ELSE "active"
Mutants(e, obs, k) ==
  {<<[e EXCEPT !.ok = ~e.ok], obs>>,
   <<[e EXCEPT !.evs = IF e.evs = <<>> THEN <<Bogus(k)>> ELSE <<>>, !.evs2 = IF e.evs = <<>> THEN <<Bogus(k)>> ELSE <<>>], obs>>,
   <<[e EXCEPT !.evs = e.evs \o <<Bogus(k)>>, !.evs2 = e.evs \o <<Bogus(k)>>], obs>>,
   <<[e EXCEPT !.evs2 = e.evs \o <<Bogus(k)>>], obs>>,
   <<[e EXCEPT !.dc = 1 - e.dc], obs>>, <<[e EXCEPT !.de = 1 - e.de], obs>>,
   <<[e EXCEPT !.dok = 1 - e.dok], obs>>, <<[e EXCEPT !.dfail = 1 - e.dfail], obs>>,
   <<e, [obs EXCEPT !.ss[k].st = OtherSt(obs.ss[k].st)]>>,
   <<e, [obs EXCEPT !.ss[k].live = ~obs.ss[k].live]>>,
   <<e, [obs EXCEPT !.ss[k].au = ~obs.ss[k].au]>>,
   <<e, [obs EXCEPT !.ss[k].wg = ~obs.ss[k].wg]>>,
   <<e, [obs EXCEPT !.ss[k].a4 = IF obs.ss[k].a4 = 0 THEN 1 ELSE 0]>>,
   <<e, [obs EXCEPT !.bymac[k] = IF obs.bymac[k] = 0 THEN k ELSE 0]>>,
   <<e, [obs EXCEPT !.bymac[k] = -1]>>,
   <<e, [obs EXCEPT !.by4[1] = IF obs.by4[1] = 0 THEN k ELSE 0]>>,
   <<e, [obs EXCEPT !.by4[1] = -1]>>,
   <<e, [obs EXCEPT !.active = obs.active + 1]>>,
   <<e, [obs EXCEPT !.walled = obs.walled + 1]>>,
   <<e, [obs EXCEPT !.nlist = obs.nlist + 1]>>}

\* ---- bookkeeping of the direct statements ----------------------------------------------------
ChainOK(e) ==
  \A i \in 1..Len(e.evs) :
     LET x == e.evs[i] IN
     \/ x.t = "session_create" /\ lastN[x.k] \in {"", "terminated"}
     \/ x.t \in {"session_auth", "session_auth_fail"} /\ x.o = "authenticating"
     \/ x.t \notin {"session_create", "session_auth", "session_auth_fail"} /\ (silent[x.k] \/ x.o = lastN[x.k])

LastNAfter(e) == [k \in Slots |-> IF \E i \in 1..Len(e.evs) : e.evs[i].k = k
                                    THEN (LET i == CHOOSE i \in 1..Len(e.evs) : e.evs[i].k = k /\ \A j \in 1..Len(e.evs) : e.evs[j].k = k => j <= i
                                          IN e.evs[i].n)
                                    ELSE lastN[k]]

Apply(e, obs) ==
  LET g2 == Step(Cfg, g, e, obs) IN
  /\ g' = g2
  /\ diff' = diff + e.dc - e.de
  /\ chain' = (chain /\ ChainOK(e))
  /\ lastN' = LastNAfter(e)
  /\ silent' = [k \in Slots |-> IF \E i \in 1..Len(e.evs) : e.evs[i].k = k THEN FALSE
                                 ELSE IF Base(e.op) = "assign" /\ e.s = k /\ g.s[k].live /\ g2.s[k].st # g.s[k].st THEN TRUE ELSE silent[k]]
  /\ wasAu' = [k \in Slots |-> IF ~g2.s[k].live THEN FALSE ELSE wasAu[k] \/ g2.s[k].au]
  /\ born' = [k \in Slots |-> IF g2.s[k].live /\ ~g.s[k].live THEN now ELSE IF g2.s[k].live THEN born[k] ELSE 0]
  /\ act' = [k \in Slots |-> IF ~g2.s[k].live THEN 0
                              ELSE IF e.s = k /\ (~g.s[k].live \/ (g.s[k].live /\ Base(e.op) \in {"activate", "activity"})) THEN now ELSE act[k]]
  /\ ops' = ops + 1

\* ---- the property over absolute time ---------------------------------------------------------
Reasons == {"session_timeout", "idle_timeout"}
DirectPass(V, rs) ==
       (IF \E v \in V : ~(\/ rs[v] = "session_timeout" /\ g.s[v].sto > 0 /\ now - born[v] >= g.s[v].sto
                          \/ rs[v] = "idle_timeout" /\ g.s[v].ito > 0 /\ now - act[v] >= g.s[v].ito)
          THEN {"TimeoutOnlyExpired"} ELSE {})
  \cup (IF \E j \in LiveSet(g) \ V : \/ g.s[j].sto > 0 /\ now - born[j] > g.s[j].sto
                                     \/ g.s[j].ito > 0 /\ now - act[j] > g.s[j].ito
          THEN {"ExpiredCleaned"} ELSE {})

SeqOf(S) == CHOOSE f \in [1..Cardinality(S) -> S] : \A i, j \in 1..Cardinality(S) : i < j => f[i] < f[j]
PassEdge(V, rs) ==
  LET sq  == SeqOf(V)
      evs == [i \in 1..Cardinality(V) |-> Ev(sq[i], "session_terminate", g.s[sq[i]].st, "terminated", rs[sq[i]])]
  IN [op |-> "tick", s |-> 0, a |-> "", q |-> 0, ok |-> TRUE, done |-> TRUE, skip |-> FALSE, u4 |-> 0, u6 |-> 0,
      evs |-> evs, evs2 |-> evs, dc |-> 0, de |-> Cardinality(V), dok |-> 0, dfail |-> 0]
PassObs(V) == ObsOf([g EXCEPT !.s = [k \in Slots |-> IF k \in V THEN Dead ELSE g.s[k]]])

Init == /\ g = G0(Cfg) /\ now = 0 /\ born = [k \in Slots |-> 0] /\ act = [k \in Slots |-> 0] /\ diff = 0
        /\ lastN = [k \in Slots |-> ""] /\ silent = [k \in Slots |-> FALSE] /\ wasAu = [k \in Slots |-> FALSE]
        /\ chain = TRUE /\ ops = 0 /\ last = [contract |-> {}, direct |-> {}]

CallStep ==
  \E k \in Slots : \E c \in Calls : \E u \in Offer(k, c) :
     LET e   == Canon(c, k, u)
         obs == ObsOf(Step(Cfg, g, e, ObsOf(g)))
     IN /\ Accepts(e, obs)
        /\ Apply(e, obs)
        /\ UNCHANGED <<now, last>>

TimeStep ==
  \E q \in 1..2 :
     LET e == [op |-> "adv", s |-> 0, a |-> "", q |-> q, ok |-> TRUE, done |-> TRUE, skip |-> FALSE, u4 |-> 0, u6 |-> 0,
               evs |-> <<>>, evs2 |-> <<>>, dc |-> 0, de |-> 0, dok |-> 0, dfail |-> 0]
     IN /\ now + q <= MaxT
        /\ now' = now + q
        /\ g' = Step(Cfg, g, e, ObsOf(g))
        /\ ops' = ops + 1
        /\ UNCHANGED <<born, act, diff, lastN, silent, wasAu, chain, last>>

PassStep ==
  \E V \in SUBSET LiveSet(g) : \E rs \in [V -> Reasons] :
     LET e   == PassEdge(V, rs)
         obs == PassObs(V)
         cl  == Verdict(e, obs)
     IN /\ last' = [contract |-> cl \cap {"TimeoutOnlyExpired", "ExpiredCleaned"}, direct |-> DirectPass(V, rs)]
        /\ IF cl = {} THEN Apply(e, obs) /\ UNCHANGED now
           ELSE UNCHANGED <<g, now, born, act, diff, lastN, silent, wasAu, chain, ops>>

Next == ops < MaxOps /\ (CallStep \/ TimeStep \/ PassStep)
Spec == Init /\ [][Next]_vars

\* ---- what TLC checks --------------------------------------------------------------------------
Capacity     == Cardinality(LiveSet(g)) <= Max
Walled       == \A k \in LiveSet(g) : (g.s[k].wg => g.s[k].st # "active") /\ (g.s[k].st = "walled_garden" => g.s[k].wg)
OneHolder    == \A u \in Units : Cardinality(Hold4(g, u)) <= 1 /\ Cardinality(AllowedIdx(g, Hold4(g, u), {})) = 1
StatsBalance == diff = Cardinality(LiveSet(g))
EventChain   == /\ chain
                /\ \A k \in Slots : IF g.s[k].live THEN silent[k] \/ lastN[k] = g.s[k].st ELSE lastN[k] \in {"", "terminated"}
AuthSticky   == \A k \in LiveSet(g) : (wasAu[k] => g.s[k].au) /\ (g.s[k].st = "address_assign" => g.s[k].au)
Agree        == last.contract = last.direct
Consistent   == \A k \in Slots : \A c \in Calls : \A u \in Offer(k, c) :
                   LET e == Canon(c, k, u) IN Accepts(e, ObsOf(Step(Cfg, g, e, ObsOf(g))))
MutantsDie   == \A k \in Slots : \A c \in Calls : \A u \in Offer(k, c) :
                   LET e == Canon(c, k, u)
                       obs == ObsOf(Step(Cfg, g, e, ObsOf(g)))
                   IN \A mu \in Mutants(e, obs, k) : ~Accepts(mu[1], mu[2])
GhostSane    == NodeClauses(Cfg, g, ObsOf(g), "") = {}

View == <<g, now, born, act, diff, lastN, silent, wasAu, chain, last>>
=============================================================================
