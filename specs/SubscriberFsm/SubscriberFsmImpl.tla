------------------------- MODULE SubscriberFsmImpl -------------------------
(***************************************************************************)
(* U2/U3: TLC walks the transition tables and chains EXTRACTED FROM THE     *)
(* REAL subscriber.Manager (bundle.json, written by harness/subscriberfsm   *)
(* under testing/synctest virtual time) with the SubscriberFsm contract as  *)
(* monitor: every clause at every step and at every observed state.  Tables *)
(* that are closed under their alphabet give a verdict for event sequences  *)
(* of any length over that alphabet.                                        *)
(***************************************************************************)
EXTENDS SubscriberFsm, Json, SequencesExt

CONSTANT Watch

Bundle == JsonDeserialize("bundle.json")
Systems == Bundle.systems

VARIABLES sys, node, g, viol, path, lastop
vars == <<sys, node, g, viol, path, lastop>>

Cfg(i)        == Systems[i].cfg
NodeOf(i, n)  == Systems[i].nodes[n]
EdgesOf(i, n) == Systems[i].edges[n]

Init == /\ sys \in 1..Len(Systems)
        /\ node = Systems[sys].init
        /\ g = G0(Cfg(sys))
        /\ lastop = "init"
        /\ viol = NodeClauses(Cfg(sys), g, NodeOf(sys, node), "init") \cap Watch
        /\ path = <<>>

Next == /\ viol = {}
        /\ \E k \in 1..Len(EdgesOf(sys, node)) :
             LET ed   == EdgesOf(sys, node)[k]
                 e    == ed.ev
                 post == NodeOf(sys, ed.to)
                 g2   == Step(Cfg(sys), g, e, post)
             IN /\ node' = ed.to
                /\ g' = g2
                /\ lastop' = e.op
                /\ viol' = (EdgeClauses(Cfg(sys), g, e, post) \cup NodeClauses(Cfg(sys), g2, post, e.op)) \cap Watch
                /\ path' = Append(path, ed.id)
                /\ UNCHANGED sys

Spec == Init /\ [][Next]_vars

Report == viol = {} \/ PrintT(<<"VIOLATION", ToJson([system |-> Systems[sys].name, clauses |-> viol, path |-> path])>>)

\* sanity of the binding: the ghost's in-flight call is the one the harness reports
FluxTracks == viol # {} \/ g.fx.kind = NodeOf(sys, node).fx

View == <<sys, node, g, viol>>
=============================================================================
