SPECIFICATION Spec
CONSTANTS N = 2  Max = 1  U = 1  STO = 0  ITO = 0  ASTO = 0  AITO = 0  MaxT = 0  MaxOps = 5
INVARIANTS Capacity Walled OneHolder StatsBalance EventChain AuthSticky Consistent MutantsDie GhostSane
VIEW View
CHECK_DEADLOCK FALSE
