---------------------------- MODULE SubscriberFsm ----------------------------
(***************************************************************************)
(* Contract of the subscriber session manager (pkg/subscriber/manager.go,   *)
(* types.go): the session state machine itself.  Not one of the 20 listed   *)
(* properties (extra family X02); C16 (specs/SessionLifecycle) covers what  *)
(* ENDING a session releases and is not repeated here.                      *)
(*                                                                         *)
(* The sentences below were formulated from the package's own comments,     *)
(* type and constant names and error texts (quoted), weakest reading;       *)
(* what the package does not promise is left unconstrained (see the end of  *)
(* this header).                                                            *)
(*                                                                         *)
(* clause              guarantee a user of the manager relies on            *)
(* ------------------  --------------------------------------------------  *)
(* Admission           CreateSession creates a session exactly when the     *)
(*                     MAC has no session yet and fewer than MaxSessions    *)
(*                     sessions exist ("max sessions reached", "session     *)
(*                     already exists for MAC"): never two sessions of one  *)
(*                     MAC, never more than MaxSessions.                    *)
(* Successor           Every call moves exactly the session it names to the *)
(*                     state its comment states and leaves every other      *)
(*                     session alone: create -> init; Authenticate success  *)
(*                     -> authenticated and address_assign, or              *)
(*                     walled_garden when the result says so ("Handle       *)
(*                     walled garden"), with the result's timeouts ("Apply  *)
(*                     session attributes"); failure -> the state it had    *)
(*                     ("session.State = oldState"); AssignAddress ->       *)
(*                     establishing, holding the addresses the allocator    *)
(*                     returned ("IPv6 failure is not fatal", an IPv4       *)
(*                     failure changes nothing); ActivateSession -> active, *)
(*                     or walled_garden if the session is walled;           *)
(*                     SetWalledGarden -> walled_garden; ClearWalledGarden  *)
(*                     -> active ("Already not walled": nothing);           *)
(*                     TerminateSession -> gone; a call naming a session    *)
(*                     that does not exist reports "session not found" and  *)
(*                     changes nothing.                                     *)
(* WalledNotActive     A session whose WalledGarden flag is set is never in *)
(*                     state active, and a session in state walled_garden   *)
(*                     has the flag set ("SetWalledGarden puts a session in *)
(*                     walled garden state", "ClearWalledGarden removes a   *)
(*                     session from walled garden") - at every moment, also *)
(*                     while calls overlap.                                 *)
(* IndexExact          GetSessionByMAC / GetSessionByIP ("returns a session *)
(*                     by MAC address / by IP address") answer with the     *)
(*                     live session that has that MAC / currently holds     *)
(*                     that address, and with "not found" when there is     *)
(*                     none: no entry for an ended session, no entry        *)
(*                     pointing at another session, no live holder missing. *)
(* StatsTrue           Stats(): ActiveSessions = number of sessions in the  *)
(*                     table (= ListSessions, "all active sessions"),       *)
(*                     WalledGardenSessions = how many of them are walled   *)
(*                     ("Count walled garden sessions"); TotalSessions-     *)
(*                     Created / Ended, AuthSuccesses / AuthFailures grow   *)
(*                     by exactly one per created session / ended session / *)
(*                     authentication outcome.                              *)
(* EventsOnce          "EventHandler is called when session events occur",  *)
(*                     "emitEvent sends an event to all handlers": every    *)
(*                     call that changes a session is reported exactly once *)
(*                     to every handler, in the same order, with the        *)
(*                     session's id, the event type of the call, OldState = *)
(*                     the state before (authenticating for authentication  *)
(*                     outcomes) and NewState = the state after (terminated *)
(*                     for terminations, with the caller's reason); calls   *)
(*                     that change nothing report nothing.                  *)
(* TimeoutOnlyExpired  "cleanupExpiredSessions terminates expired           *)
(*                     sessions": the cleanup pass ends a session with      *)
(*                     reason session_timeout only if it has existed for at *)
(*                     least its SessionTimeout, with idle_timeout only if  *)
(*                     it showed no activity (creation, activation,         *)
(*                     UpdateActivity) for at least its IdleTimeout - never *)
(*                     a session that had activity within the window; a     *)
(*                     timeout of 0 never fires.                            *)
(* ExpiredCleaned      ... and after a pass no session is left that is      *)
(*                     older than its SessionTimeout or idle for longer     *)
(*                     than its IdleTimeout.                                *)
(*                                                                         *)
(* Left unconstrained (the package promises nothing): which calls are legal *)
(* in which state - no call has a precondition other than "the session      *)
(* exists" (ActivateSession activates a session that never authenticated,   *)
(* AssignAddress puts an active session back to establishing; so "an active *)
(* session is authenticated and has an address" is NOT a guarantee of this  *)
(* package and is not claimed); reason texts of events other than           *)
(* terminations; traffic counters; the order in which one pass ends several *)
(* sessions; the order of events of DIFFERENT calls that overlap; the       *)
(* successor state of a session two overlapping calls both write (only      *)
(* WalledNotActive, IndexExact, StatsTrue and the timeout clauses are       *)
(* judged there).  A session is at its timeout boundary (age = timeout) may *)
(* or may not be ended by a pass.                                           *)
(*                                                                         *)
(* Ghost: per slot (= MAC address) the abstract session record, plus the    *)
(* call that is in flight (parked between two of its critical sections).    *)
(***************************************************************************)
EXTENDS Integers, FiniteSets, Sequences, TLC

\* cfg = [n, max, sto, ito, asto, aito, cap, u4, u6, ...]  (timeouts and ages in quanta)
Dead       == [live |-> FALSE, st |-> "none", au |-> FALSE, wg |-> FALSE, a4 |-> 0, a6 |-> 0, age |-> 0, idle |-> 0, sto |-> 0, ito |-> 0]
Fresh(cfg) == [live |-> TRUE, st |-> "init", au |-> FALSE, wg |-> FALSE, a4 |-> 0, a6 |-> 0, age |-> 0, idle |-> 0, sto |-> cfg.sto, ito |-> cfg.ito]
\* the call in flight: kind "" (none) | "auth" | "term" | "assign" | "tick"; k its session (tick: the session being ended);
\* a its variant; u the unit the allocator chose (assign); old the session's state when the call began;
\* touched: another call wrote the same session meanwhile
NoFx       == [kind |-> "", k |-> 0, a |-> "", u |-> 0, old |-> "", touched |-> FALSE]
G0(cfg)    == [s |-> [k \in 1..cfg.n |-> Dead], fx |-> NoFx]

LiveSet(g) == {k \in DOMAIN g.s : g.s[k].live}
\* a session that is being ended (its termination is between "mark" and "remove")
Ending(g)  == IF g.fx.kind \in {"term", "tick"} /\ g.fx.k # 0 THEN {g.fx.k} ELSE {}
Sat(x, c)  == IF x > c THEN c ELSE x

Base(op) == CASE op = "auth_begin" -> "auth" [] op = "term_begin" -> "term" [] op = "assign_begin" -> "assign"
              [] op = "tick_begin" -> "tick" [] OTHER -> op

\* variants: authentication outcome; pools named by AssignAddress
AuthOK(a) == a \in {"ok", "walled", "okto"}
P4(a)     == CASE a = "a" -> "a" [] a = "b6" -> "b" [] a = "x6" -> "x" [] a = "a-" -> "a" [] OTHER -> ""
\* e.u4 / e.u6: the unit the allocator (the manager's environment) returned during the step, 0 = none
AssignOK(e, a) == P4(a) = "" \/ e.u4 > 0
Reason(a) == IF a = "user" THEN "user_request" ELSE "admin_reset"

AfterAuth(cfg, r, a) ==
  CASE a = "ok"     -> [r EXCEPT !.au = TRUE, !.st = "address_assign"]
    [] a = "okto"   -> [r EXCEPT !.au = TRUE, !.st = "address_assign",
                                 !.sto = IF cfg.asto > 0 THEN cfg.asto ELSE @, !.ito = IF cfg.aito > 0 THEN cfg.aito ELSE @]
    [] a = "walled" -> [r EXCEPT !.au = TRUE, !.wg = TRUE, !.st = "walled_garden"]
    [] OTHER        -> r

\* the session record after a completed call `op` (variant a, results e) on a session with record r
After(cfg, r, op, a, e) ==
  IF op = "create" THEN (IF e.ok THEN Fresh(cfg) ELSE r)
  ELSE IF ~r.live THEN r
  ELSE CASE op = "auth"     -> AfterAuth(cfg, r, a)
         [] op = "assign"   -> IF AssignOK(e, a)
                                 THEN [r EXCEPT !.st = "establishing", !.a4 = IF P4(a) # "" THEN e.u4 ELSE @, !.a6 = IF e.u6 > 0 THEN e.u6 ELSE @]
                                 ELSE r
         [] op = "activate" -> [r EXCEPT !.st = IF r.wg THEN "walled_garden" ELSE "active", !.idle = 0]
         [] op = "walled"   -> [r EXCEPT !.wg = TRUE, !.st = "walled_garden"]
         [] op = "unwalled" -> IF r.wg THEN [r EXCEPT !.wg = FALSE, !.st = "active"] ELSE r
         [] op = "activity" -> [r EXCEPT !.idle = 0]
         [] op = "term"     -> Dead
         [] OTHER           -> r

ExpOk(cfg, g, r, op, a, e) ==
  IF op = "create" THEN ~r.live /\ Cardinality(LiveSet(g)) < cfg.max
  ELSE IF ~r.live THEN FALSE
  ELSE CASE op = "auth" -> a # "err" [] op = "assign" -> AssignOK(e, a) [] OTHER -> TRUE

Ev(k, t, o, n, rr) == [k |-> k, t |-> t, o |-> o, n |-> n, r |-> rr]

ExpEvs(r, r2, op, k, a, e) ==
  IF op = "create" THEN (IF e.ok THEN <<Ev(k, "session_create", "", "init", "")>> ELSE <<>>)
  ELSE IF ~r.live THEN <<>>
  ELSE CASE op = "auth"     -> <<Ev(k, IF AuthOK(a) THEN "session_auth" ELSE "session_auth_fail", "authenticating", r2.st, "")>>
         [] op = "activate" -> <<Ev(k, "session_activate", r.st, r2.st, "")>>
         [] op = "walled"   -> <<Ev(k, "session_walled", r.st, "walled_garden", "")>>
         [] op = "unwalled" -> IF r.wg THEN <<Ev(k, "session_unwalled", r.st, "active", "")>> ELSE <<>>
         [] op = "term"     -> <<Ev(k, "session_terminate", r.st, "terminated", Reason(a))>>
         [] OTHER           -> <<>>

Quiet(e) == e.evs = <<>> /\ e.evs2 = <<>>
NoStats(e) == e.dc = 0 /\ e.de = 0 /\ e.dok = 0 /\ e.dfail = 0

\* clauses violated by a completed call `op` on session k whose record before the call was r
OpClauses(cfg, g, r, op, k, a, e) ==
  LET r2   == After(cfg, r, op, a, e)
      okx  == ExpOk(cfg, g, r, op, a, e)
      died == IF r.live /\ ~r2.live THEN 1 ELSE 0
  IN   (IF e.ok # okx THEN {IF op = "create" THEN "Admission" ELSE "Successor"} ELSE {})
  \cup (IF e.evs # ExpEvs(r, r2, op, k, a, e) \/ e.evs2 # e.evs THEN {"EventsOnce"} ELSE {})
  \cup (IF \/ e.dc # (IF op = "create" /\ e.ok THEN 1 ELSE 0)
           \/ e.de # died
           \/ e.dok # (IF op = "auth" /\ r.live /\ AuthOK(a) THEN 1 ELSE 0)
           \/ e.dfail # (IF op = "auth" /\ r.live /\ ~AuthOK(a) THEN 1 ELSE 0)
          THEN {"StatsTrue"} ELSE {})

\* ---- timeouts ---------------------------------------------------------------------------
MayS(r)  == r.sto > 0 /\ r.age >= r.sto
MayI(r)  == r.ito > 0 /\ r.idle >= r.ito
May(r)   == MayS(r) \/ MayI(r)
Must(r)  == (r.sto > 0 /\ r.age > r.sto) \/ (r.ito > 0 /\ r.idle > r.ito)
Just(r, reason) == (reason = "session_timeout" /\ MayS(r)) \/ (reason = "idle_timeout" /\ MayI(r))

\* sessions a pass ended / marked during the step, read from the observation after it
Ended(g, obs)  == {j \in LiveSet(g) : ~obs.ss[j].live}
Marked(g, obs) == {j \in LiveSet(g) : obs.ss[j].st = "terminating" /\ g.s[j].st # "terminating"}

TickClauses(cfg, g, e, obs) ==
  LET V == Ended(g, obs) IN
       (IF \E v \in V : ~May(g.s[v]) \/ \E i \in 1..Len(e.evs) : e.evs[i].k = v /\ ~Just(g.s[v], e.evs[i].r)
          THEN {"TimeoutOnlyExpired"} ELSE {})
  \cup (IF \E j \in LiveSet(g) \ V : Must(g.s[j]) THEN {"ExpiredCleaned"} ELSE {})
  \cup (IF \/ Len(e.evs) # Cardinality(V) \/ e.evs2 # e.evs
           \/ \E v \in V : ~\E i \in 1..Len(e.evs) : /\ e.evs[i].k = v /\ e.evs[i].t = "session_terminate"
                                                    /\ e.evs[i].o = g.s[v].st /\ e.evs[i].n = "terminated"
          THEN {"EventsOnce"} ELSE {})
  \cup (IF e.dc # 0 \/ e.de # Cardinality(V) \/ e.dok # 0 \/ e.dfail # 0 THEN {"StatsTrue"} ELSE {})

\* a call that parked between two of its critical sections: nothing is reported yet
BeginClauses(cfg, g, e, obs) ==
       (IF ~Quiet(e) THEN {"EventsOnce"} ELSE {})
  \cup (IF ~NoStats(e) THEN {"StatsTrue"} ELSE {})
  \cup (IF e.op # "tick_begin" /\ ~g.s[e.s].live THEN {"Successor"} ELSE {})
  \cup (IF e.op = "tick_begin" /\ \E v \in Marked(g, obs) : ~May(g.s[v]) THEN {"TimeoutOnlyExpired"} ELSE {})

\* the call in flight runs on to its next park point (e.done = FALSE) or to completion
ContClauses(cfg, g, e, obs) ==
  LET k == g.fx.k IN
  CASE g.fx.kind = "auth" ->
         IF ~g.fx.touched
           THEN OpClauses(cfg, g, [g.s[k] EXCEPT !.st = g.fx.old], "auth", k, g.fx.a, e)
           ELSE   \* another call wrote the session meanwhile: only the report itself is judged
                (IF \/ Len(e.evs) # 1 \/ e.evs2 # e.evs
                    \/ Len(e.evs) = 1 /\ ~(/\ e.evs[1].k = k /\ e.evs[1].o = "authenticating"
                                           /\ e.evs[1].t = (IF AuthOK(g.fx.a) THEN "session_auth" ELSE "session_auth_fail"))
                   THEN {"EventsOnce"} ELSE {})
           \cup (IF e.dc # 0 \/ e.de # 0 \/ e.dok # (IF AuthOK(g.fx.a) THEN 1 ELSE 0) \/ e.dfail # (IF AuthOK(g.fx.a) THEN 0 ELSE 1)
                   THEN {"StatsTrue"} ELSE {})
    [] g.fx.kind = "term" ->
         IF e.done THEN OpClauses(cfg, g, [g.s[k] EXCEPT !.st = g.fx.old], "term", k, g.fx.a, e)
         ELSE (IF ~Quiet(e) THEN {"EventsOnce"} ELSE {}) \cup (IF ~NoStats(e) THEN {"StatsTrue"} ELSE {})
    [] g.fx.kind = "assign" ->
         IF g.s[k].live THEN OpClauses(cfg, g, g.s[k], "assign", k, g.fx.a, [e EXCEPT !.u4 = g.fx.u])
         ELSE (IF ~Quiet(e) THEN {"EventsOnce"} ELSE {}) \cup (IF ~NoStats(e) THEN {"StatsTrue"} ELSE {})
    [] g.fx.kind = "tick" ->
         LET r == [g.s[k] EXCEPT !.st = g.fx.old]
             g1 == [g EXCEPT !.s[k] = Dead]
         IN   (IF \/ Len(e.evs) # 1 \/ e.evs2 # e.evs
                  \/ Len(e.evs) = 1 /\ ~(/\ e.evs[1].k = k /\ e.evs[1].t = "session_terminate" /\ e.evs[1].o = r.st /\ e.evs[1].n = "terminated")
                 THEN {"EventsOnce"} ELSE {})
         \cup (IF Len(e.evs) = 1 /\ ~Just(r, e.evs[1].r) THEN {"TimeoutOnlyExpired"} ELSE {})
         \cup (IF e.dc # 0 \/ e.de # 1 \/ e.dok # 0 \/ e.dfail # 0 THEN {"StatsTrue"} ELSE {})
         \cup (IF ~e.done /\ \E w \in Marked(g1, obs) : ~May(g1.s[w]) THEN {"TimeoutOnlyExpired"} ELSE {})
         \cup (IF e.done /\ \E j \in LiveSet(g1) : obs.ss[j].live /\ Must(g1.s[j]) THEN {"ExpiredCleaned"} ELSE {})
    [] OTHER -> {}

\* clauses violated by implementation step e in ghost state g (obs = the observation after the step)
EdgeClauses(cfg, g, e, obs) ==
  IF e.skip THEN {}
  ELSE IF e.op = "adv" THEN (IF ~Quiet(e) THEN {"EventsOnce"} ELSE {}) \cup (IF ~NoStats(e) THEN {"StatsTrue"} ELSE {})
  ELSE IF e.op = "cont" THEN ContClauses(cfg, g, e, obs)
  ELSE IF ~e.done THEN BeginClauses(cfg, g, e, obs)
  ELSE IF Base(e.op) = "tick" THEN TickClauses(cfg, g, e, obs)
  ELSE IF e.s = 0 THEN   \* UpdateActivity for every session that is not being ended: nothing is reported
         (IF ~e.ok THEN {"Successor"} ELSE {}) \cup (IF ~Quiet(e) THEN {"EventsOnce"} ELSE {}) \cup (IF ~NoStats(e) THEN {"StatsTrue"} ELSE {})
  ELSE OpClauses(cfg, g, g.s[e.s], Base(e.op), e.s, e.a, e)

\* ---- next ghost ---------------------------------------------------------------------------
Fx(kind, k, a, u, old) == [kind |-> kind, k |-> k, a |-> a, u |-> u, old |-> old, touched |-> FALSE]

MarkVictim(g, obs) ==
  LET V == Marked(g, obs) IN
  IF V = {} THEN g
  ELSE LET v == CHOOSE v \in V : TRUE IN [g EXCEPT !.s[v].st = "terminating", !.fx = Fx("tick", v, "", 0, g.s[v].st)]

BeginStep(cfg, g, e, obs) ==
  LET k == e.s IN
  CASE e.op = "auth_begin"   -> [g EXCEPT !.s[k].st = "authenticating", !.fx = Fx("auth", k, e.a, 0, g.s[k].st)]
    [] e.op = "term_begin"   -> [g EXCEPT !.s[k].st = "terminating", !.fx = Fx("term", k, e.a, 0, g.s[k].st)]
    [] e.op = "assign_begin" -> [g EXCEPT !.fx = Fx("assign", k, e.a, e.u4, g.s[k].st)]
    [] e.op = "tick_begin"   -> MarkVictim(g, obs)
    [] OTHER                 -> g

ContStep(cfg, g, e, obs) ==
  LET k == g.fx.k IN
  CASE g.fx.kind = "auth" ->
         LET r0 == [g.s[k] EXCEPT !.st = IF g.fx.touched THEN @ ELSE g.fx.old]
             r1 == AfterAuth(cfg, r0, g.fx.a)
             \* both calls wrote the session: the contract does not say which write wins
             r2 == IF g.fx.touched THEN [r1 EXCEPT !.st = obs.ss[k].st, !.au = obs.ss[k].au, !.wg = obs.ss[k].wg] ELSE r1
         IN [g EXCEPT !.s[k] = r2, !.fx = NoFx]
    [] g.fx.kind = "term"   -> IF e.done THEN [g EXCEPT !.s[k] = Dead, !.fx = NoFx] ELSE g
    [] g.fx.kind = "assign" -> [g EXCEPT !.s[k] = After(cfg, g.s[k], "assign", g.fx.a, [e EXCEPT !.u4 = g.fx.u]), !.fx = NoFx]
    [] g.fx.kind = "tick"   -> LET g1 == [g EXCEPT !.s[k] = Dead, !.fx = NoFx] IN IF e.done THEN g1 ELSE MarkVictim(g1, obs)
    [] OTHER -> g

Step(cfg, g, e, obs) ==
  IF e.skip THEN g
  ELSE IF e.op = "adv"
    THEN [g EXCEPT !.s = [k \in DOMAIN g.s |-> IF g.s[k].live
                            THEN [g.s[k] EXCEPT !.age = Sat(@ + e.q, cfg.cap), !.idle = Sat(@ + e.q, cfg.cap)] ELSE g.s[k]]]
  ELSE IF e.op = "cont" THEN ContStep(cfg, g, e, obs)
  ELSE IF ~e.done THEN BeginStep(cfg, g, e, obs)
  ELSE IF Base(e.op) = "tick" THEN [g EXCEPT !.s = [k \in DOMAIN g.s |-> IF k \in Ended(g, obs) THEN Dead ELSE g.s[k]]]
  ELSE IF e.s = 0 THEN [g EXCEPT !.s = [k \in DOMAIN g.s |-> IF k \in Ending(g) THEN g.s[k] ELSE After(cfg, g.s[k], Base(e.op), e.a, e)]]
  ELSE LET k  == e.s
           g1 == [g EXCEPT !.s[k] = After(cfg, g.s[k], Base(e.op), e.a, e)]
       IN IF g.fx.kind = "auth" /\ g.fx.k = k THEN [g1 EXCEPT !.fx.touched = TRUE] ELSE g1

\* ---- observations -------------------------------------------------------------------------
\* n = [ss (per slot [live, st, au, wg, a4, a6]), bymac, by4, by6 (per key: slot found, 0 not found,
\*      -1 found without a live session), active, walled, nlist, fx]
Proj(r) == [live |-> r.live, st |-> r.st, au |-> r.au, wg |-> r.wg, a4 |-> r.a4, a6 |-> r.a6]

\* answers an index may give for a key whose holders (per ghost) are H; pend: a session whose
\* index update is still outstanding (AssignAddress in flight, allocator has answered)
AllowedIdx(g, H, pend) ==
  LET F == H \cap Ending(g)
      firm == H \ F
  IN IF firm # {} THEN firm \cup F ELSE IF F # {} THEN F \cup {0} ELSE {0} \cup pend

Hold4(g, u) == {k \in LiveSet(g) : g.s[k].a4 = u}
Hold6(g, u) == {k \in LiveSet(g) : g.s[k].a6 = u}
Pend4(g, u) == IF g.fx.kind = "assign" /\ g.fx.u = u /\ g.s[g.fx.k].live THEN {g.fx.k} ELSE {}

NodeClauses(cfg, g, n, lastop) ==
       (IF \E k \in DOMAIN g.s : n.ss[k] # Proj(g.s[k]) THEN {"Successor"} ELSE {})
  \cup (IF \E k \in DOMAIN g.s : n.ss[k].live /\ (\/ n.ss[k].wg /\ n.ss[k].st = "active"
                                                  \/ n.ss[k].st = "walled_garden" /\ ~n.ss[k].wg)
          THEN {"WalledNotActive"} ELSE {})
  \cup (IF \/ \E k \in DOMAIN g.s : n.bymac[k] \notin AllowedIdx(g, IF g.s[k].live THEN {k} ELSE {}, {})
           \/ \E u \in 1..Len(n.by4) : n.by4[u] \notin AllowedIdx(g, Hold4(g, u), Pend4(g, u))
           \/ \E u \in 1..Len(n.by6) : n.by6[u] \notin AllowedIdx(g, Hold6(g, u), {})
          THEN {"IndexExact"} ELSE {})
  \cup (IF \/ n.active # Cardinality(LiveSet(g)) \/ n.nlist # n.active
           \/ n.walled # Cardinality({k \in LiveSet(g) : g.s[k].wg})
          THEN {"StatsTrue"} ELSE {})
  \cup (IF n.nlist > cfg.max THEN {"Admission"} ELSE {})
=============================================================================
