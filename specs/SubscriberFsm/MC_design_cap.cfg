SPECIFICATION Spec
CONSTANTS N = 3  Max = 2  U = 2  STO = 0  ITO = 0  ASTO = 0  AITO = 0  MaxT = 0  MaxOps = 6
INVARIANTS Capacity Walled OneHolder StatsBalance EventChain AuthSticky Agree Consistent GhostSane
VIEW View
CHECK_DEADLOCK FALSE
