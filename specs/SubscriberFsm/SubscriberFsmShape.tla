------------------------- MODULE SubscriberFsmShape -------------------------
(***************************************************************************)
(* Implementation-shaped design spec of pkg/subscriber/manager.go: one      *)
(* action per critical section (stretch of code under m.mu) of the calls    *)
(* that consist of several, with the calls out of the manager in between.   *)
(*                                                                         *)
(*   Authenticate     CS1 lookup, remember oldState, State = authenticating *)
(*                    -- Authenticator.Authenticate (no lock held) --        *)
(*                    CS2 write the outcome (failure: State = oldState)      *)
(*   AssignAddress    CS1 lookup                                             *)
(*                    -- AddressAllocator.AllocateIPv4 (no lock held) --     *)
(*                    CS2 drop own old by-IP entry, IPv4 = ip, byIP[ip] = id *)
(*                    CS3 State = establishing                               *)
(*   TerminateSession CS1 lookup, (already terminating: return), mark        *)
(*                    -- verif gate "terminate.afterMark" --                 *)
(*                    -- AddressAllocator.ReleaseIPv4 (no lock held) --      *)
(*                    CS2 delete byMAC / byIP entries and the session        *)
(*   cleanup pass     collect under RLock every expired session, then one    *)
(*                    TerminateSession per collected session                 *)
(*   CreateSession, ActivateSession, SetWalledGarden, ClearWalledGarden,     *)
(*   UpdateActivity: one critical section each.                              *)
(*                                                                         *)
(* Exactly the schedules the harness can produce: at most one call is in     *)
(* flight (parked at one of the "--" points), every other call runs to       *)
(* completion meanwhile; the actions are the harness' events, so a history   *)
(* of this model is a replay file for the real code.                         *)
(*                                                                         *)
(* Fixed = FALSE is the code as it is.  Fixed = TRUE is the design with the  *)
(* four repairs proposed in proposals/subscriberfsm.json:                    *)
(*   (a) TerminateSession CS2 deletes a by-IP entry only if it still names   *)
(*       this session;                                                       *)
(*   (b) AssignAddress CS2 re-checks that the session is still in the table  *)
(*       (else gives the address back and reports "session not found");      *)
(*   (c) a failed authentication restores oldState only if the state is      *)
(*       still authenticating;                                               *)
(*   (d) a timeout termination re-checks the expiry under the lock in CS1.   *)
(*                                                                         *)
(* The spec carries the contract's ghost (SubscriberFsm.tla) and judges each *)
(* of its own steps with EdgeClauses / NodeClauses, exactly as               *)
(* SubscriberFsmImpl does with the steps of the real code.  Every violating  *)
(* state is printed as <<"DESIGN-CEX", json([clauses, flux, events])>>;      *)
(* lib/fam_subscriberfsm replays the shortest history per (clauses, call in  *)
(* flight) on the real manager.                                              *)
(***************************************************************************)
EXTENDS SubscriberFsm, Json

CONSTANTS N,       \* sessions (MAC addresses)
          U,       \* IPv4 units of pool "a"
          ITO,     \* default idle timeout (quanta); no session timeout
          AdvQ,    \* the one time step of the alphabet
          Fixed, MaxLen,
          Rich     \* the larger alphabet (thorough tier)

Slots == 1..N
Units == 1..U
Cfg == [impl |-> "shape", n |-> N, max |-> N, sto |-> 0, ito |-> ITO, asto |-> 0, aito |-> 0, cap |-> ITO + 1, u4 |-> U, u6 |-> 0, nsubs |-> N]

VARIABLES m,      \* the manager + allocator + the call in flight
          g,      \* the contract's ghost
          hist,   \* events so far (harness alphabet)
          bad,    \* clauses violated by the last step
          fl      \* the call in flight during the last step
vars == <<m, g, hist, bad, fl>>

\* a session object in the table
DeadS == [ex |-> FALSE, st |-> "none", au |-> FALSE, wg |-> FALSE, a4 |-> 0, idle |-> 0]
\* the goroutine in flight: kind, its session k, variant a, state at start old, unit chosen u,
\* cur = its session object is still the one in the table, vs = sessions the pass still has to end
NoW == [kind |-> "", k |-> 0, a |-> "", pc |-> "", old |-> "", u |-> 0, cur |-> TRUE, vs |-> <<>>]
\* bymac / by4: slot, 0 = no entry, -1 = entry naming a session that is not in the table;
\* own (allocator): slot, 0 = free, -1 = held by a session that is not in the table
M0 == [ses |-> [k \in Slots |-> DeadS], bymac |-> [k \in Slots |-> 0], by4 |-> [u \in Units |-> 0], own |-> [u \in Units |-> 0], w |-> NoW]

\* result of running some code: new state, what the caller and the handlers saw, statistics deltas
R(mm, ok, done, u4, evs, dc, de, dok, dfail) ==
  [m |-> mm, ok |-> ok, done |-> done, u4 |-> u4, evs |-> evs, dc |-> dc, de |-> de, dok |-> dok, dfail |-> dfail]
Plain(mm, ok) == R(mm, ok, TRUE, 0, <<>>, 0, 0, 0, 0)
Parked(mm)    == R(mm, TRUE, FALSE, 0, <<>>, 0, 0, 0, 0)

InTable(mm) == {j \in Slots : mm.ses[j].ex}
MinS(S) == CHOOSE x \in S : \A y \in S : x <= y

\* ---- CreateSession ------------------------------------------------------------------------
Create(mm, k) ==
  IF Cardinality(InTable(mm)) >= Cfg.max \/ mm.bymac[k] # 0 THEN Plain(mm, FALSE)
  ELSE R([mm EXCEPT !.ses[k] = [ex |-> TRUE, st |-> "init", au |-> FALSE, wg |-> FALSE, a4 |-> 0, idle |-> 0], !.bymac[k] = k],
         TRUE, TRUE, 0, <<Ev(k, "session_create", "", "init", "")>>, 1, 0, 0, 0)

\* ---- Authenticate -------------------------------------------------------------------------
AuthCS1(mm, k) == [mm EXCEPT !.ses[k].st = "authenticating"]
AuthCS2(mm, k, a, old) ==
  LET s == mm.ses[k] IN
  IF AuthOK(a)
    THEN LET s2 == IF a = "walled" THEN [s EXCEPT !.au = TRUE, !.wg = TRUE, !.st = "walled_garden"]
                   ELSE [s EXCEPT !.au = TRUE, !.st = "address_assign"]
         IN R([mm EXCEPT !.ses[k] = s2], TRUE, TRUE, 0, <<Ev(k, "session_auth", "authenticating", s2.st, "")>>, 0, 0, 1, 0)
    ELSE LET s2 == IF Fixed /\ s.st # "authenticating" THEN s ELSE [s EXCEPT !.st = old]      \* repair (c)
         IN R([mm EXCEPT !.ses[k] = s2], a # "err", TRUE, 0, <<Ev(k, "session_auth_fail", "authenticating", s2.st, "")>>, 0, 0, 0, 1)

\* ---- AssignAddress (pool "a") -------------------------------------------------------------
Mine(mm, k) == {u \in Units : mm.own[u] = k}
FreeU(mm)   == {u \in Units : mm.own[u] = 0}
Pick(mm, k) == IF Mine(mm, k) # {} THEN MinS(Mine(mm, k)) ELSE IF FreeU(mm) # {} THEN MinS(FreeU(mm)) ELSE 0
AllocDo(mm, k, u) == [mm EXCEPT !.own = [x \in Units |-> IF x = u THEN k ELSE IF mm.own[x] = k THEN 0 ELSE mm.own[x]]]
AssignCS23(mm, k, u, cur) ==
  IF ~cur
    THEN IF Fixed THEN Plain([mm EXCEPT !.own[u] = 0], FALSE)        \* repair (b): session gone, give the address back
         ELSE Plain([mm EXCEPT !.by4[u] = -1], TRUE)                 \* as it is: by-IP entry for a session that is not in the table
    ELSE LET s  == mm.ses[k]
             b1 == IF s.a4 # 0 /\ s.a4 # u /\ mm.by4[s.a4] = k THEN [mm.by4 EXCEPT ![s.a4] = 0] ELSE mm.by4
         IN Plain([mm EXCEPT !.by4 = [b1 EXCEPT ![u] = k], !.ses[k].a4 = u, !.ses[k].st = "establishing"], TRUE)

\* ---- TerminateSession ---------------------------------------------------------------------
TermRel(mm, k) == LET a4 == mm.ses[k].a4 IN IF a4 # 0 THEN [mm EXCEPT !.own[a4] = 0] ELSE mm
TermCS2(mm, k, old, reason) ==
  LET a4   == mm.ses[k].a4
      b4   == IF a4 # 0 /\ ~(Fixed /\ mm.by4[a4] # k) THEN [mm.by4 EXCEPT ![a4] = 0] ELSE mm.by4       \* repair (a)
      own2 == [x \in Units |-> IF mm.own[x] = k THEN -1 ELSE mm.own[x]]
      w2   == IF mm.w.kind = "assign" /\ mm.w.k = k THEN [mm.w EXCEPT !.cur = FALSE] ELSE mm.w
  IN R([mm EXCEPT !.ses[k] = DeadS, !.bymac[k] = 0, !.by4 = b4, !.own = own2, !.w = w2], TRUE, TRUE, 0,
       <<Ev(k, "session_terminate", old, "terminated", reason)>>, 0, 1, 0, 0)
Mark(mm, k) == [mm EXCEPT !.ses[k].st = "terminating"]

\* ---- the calls, run to completion ---------------------------------------------------------
Atomic(mm, op, k, a) ==
  LET s == mm.ses[k] IN
  CASE op = "create" -> Create(mm, k)
    [] op = "auth" -> IF ~s.ex THEN Plain(mm, FALSE) ELSE AuthCS2(AuthCS1(mm, k), k, a, s.st)
    [] op = "assign" -> IF ~s.ex THEN Plain(mm, FALSE)
                        ELSE LET u == Pick(mm, k) IN
                             IF u = 0 THEN Plain(mm, FALSE) ELSE [AssignCS23(AllocDo(mm, k, u), k, u, TRUE) EXCEPT !.u4 = u]
    [] op = "activate" -> IF ~s.ex THEN Plain(mm, FALSE)
                          ELSE LET n == IF s.wg THEN "walled_garden" ELSE "active" IN
                               R([mm EXCEPT !.ses[k].st = n, !.ses[k].idle = 0], TRUE, TRUE, 0, <<Ev(k, "session_activate", s.st, n, "")>>, 0, 0, 0, 0)
    [] op = "walled" -> IF ~s.ex THEN Plain(mm, FALSE)
                        ELSE R([mm EXCEPT !.ses[k].st = "walled_garden", !.ses[k].wg = TRUE], TRUE, TRUE, 0,
                               <<Ev(k, "session_walled", s.st, "walled_garden", "")>>, 0, 0, 0, 0)
    [] op = "unwalled" -> IF ~s.ex THEN Plain(mm, FALSE)
                          ELSE IF ~s.wg THEN Plain(mm, TRUE)
                          ELSE R([mm EXCEPT !.ses[k].st = "active", !.ses[k].wg = FALSE], TRUE, TRUE, 0,
                                 <<Ev(k, "session_unwalled", s.st, "active", "")>>, 0, 0, 0, 0)
    [] op = "activity" -> IF ~s.ex THEN Plain(mm, FALSE) ELSE Plain([mm EXCEPT !.ses[k].idle = 0], TRUE)
    [] op = "term" -> IF ~s.ex THEN Plain(mm, FALSE)
                      ELSE IF s.st = "terminating" THEN Plain(mm, TRUE)
                      ELSE TermCS2(TermRel(Mark(mm, k), k), k, s.st, Reason(a))

\* ---- the cleanup pass ---------------------------------------------------------------------
Expired(s) == s.ex /\ ITO > 0 /\ s.idle > ITO
Victims(mm) == {k \in Slots : Expired(mm.ses[k])}
Orders(S) == {f \in [1..Cardinality(S) -> S] : \A i, j \in 1..Cardinality(S) : i # j => f[i] # f[j]}
\* would TerminateSession(v, idle_timeout) pass its first critical section?
Passes(mm, v) == mm.ses[v].ex /\ mm.ses[v].st # "terminating" /\ (~Fixed \/ Expired(mm.ses[v]))      \* repair (d)

RECURSIVE TickRun(_, _)
TickRun(r, vs) ==   \* the pass ends the collected sessions vs one after the other, without interruption
  IF vs = <<>> THEN r
  ELSE LET v == Head(vs) mm == r.m IN
       IF ~Passes(mm, v) THEN TickRun(r, Tail(vs))
       ELSE LET t == TermCS2(TermRel(Mark(mm, v), v), v, mm.ses[v].st, "idle_timeout")
            IN TickRun([t EXCEPT !.evs = r.evs \o t.evs, !.de = r.de + 1], Tail(vs))
SortedSeq(S) == CHOOSE f \in Orders(S) : \A i, j \in 1..Cardinality(S) : i < j => f[i] < f[j]
Tick(mm) == TickRun(Plain(mm, TRUE), SortedSeq(Victims(mm)))   \* the harness reports the events sorted by slot

\* the pass on its own goroutine: runs until the next TerminateSession has marked its session (gate), or to the end
RECURSIVE TickNext(_, _)
TickNext(r, vs) ==
  IF vs = <<>> THEN [r EXCEPT !.m.w = NoW, !.done = TRUE]
  ELSE LET v == Head(vs) mm == r.m IN
       IF ~Passes(mm, v) THEN TickNext(r, Tail(vs))
       ELSE [r EXCEPT !.m = [Mark(mm, v) EXCEPT !.w = [NoW EXCEPT !.kind = "tick", !.k = v, !.pc = "mark", !.old = mm.ses[v].st, !.vs = Tail(vs)]],
                      !.done = FALSE]
TickBegin(mm, ord) == TickNext(Plain(mm, TRUE), ord)

\* ---- calls started on their own goroutine: run to the first park point ----------------------
AuthBegin(mm, k, a) ==
  IF ~mm.ses[k].ex THEN Plain(mm, FALSE)
  ELSE Parked([AuthCS1(mm, k) EXCEPT !.w = [NoW EXCEPT !.kind = "auth", !.k = k, !.a = a, !.pc = "auth", !.old = mm.ses[k].st]])
TermBegin(mm, k, a) ==
  IF ~mm.ses[k].ex THEN Plain(mm, FALSE)
  ELSE Parked([Mark(mm, k) EXCEPT !.w = [NoW EXCEPT !.kind = "term", !.k = k, !.a = a, !.pc = "mark", !.old = mm.ses[k].st]])
AssignBegin(mm, k, a) ==
  IF ~mm.ses[k].ex THEN Plain(mm, FALSE)
  ELSE LET u == Pick(mm, k) IN
       IF u = 0 THEN Plain(mm, FALSE)
       ELSE [Parked([AllocDo(mm, k, u) EXCEPT !.w = [NoW EXCEPT !.kind = "assign", !.k = k, !.a = a, !.pc = "alloc4", !.u = u]]) EXCEPT !.u4 = u]

\* the goroutine in flight runs on to its next park point or to the end
Cont(mm) ==
  LET w == mm.w  k == w.k  m0 == [mm EXCEPT !.w = NoW] IN
  CASE w.kind = "auth" -> AuthCS2(m0, k, w.a, w.old)
    [] w.kind = "term" ->
         IF w.pc = "mark" /\ mm.ses[k].a4 # 0 THEN Parked([TermRel(mm, k) EXCEPT !.w.pc = "release4"])
         ELSE TermCS2(TermRel(m0, k), k, w.old, Reason(w.a))
    [] w.kind = "assign" -> AssignCS23(m0, k, w.u, w.cur)
    [] w.kind = "tick" ->
         LET t == TermCS2(TermRel(mm, k), k, w.old, "idle_timeout") IN TickNext(t, w.vs)

\* UpdateActivity for every session except the one the parked pass is ending
ActivityAll(mm) == Plain([mm EXCEPT !.ses = [k \in Slots |-> IF mm.ses[k].ex /\ ~(mm.w.kind = "tick" /\ mm.w.k = k) THEN [mm.ses[k] EXCEPT !.idle = 0] ELSE mm.ses[k]]], TRUE)

Adv(mm, q) == Plain([mm EXCEPT !.ses = [k \in Slots |-> IF mm.ses[k].ex THEN [mm.ses[k] EXCEPT !.idle = Sat(@ + q, Cfg.cap)] ELSE mm.ses[k]]], TRUE)

\* ---- the step relation, in the harness' alphabet --------------------------------------------
HEv(op, s, a, q) == [op |-> op, s |-> s, a |-> a, q |-> q]
Edge(hev, r) == [op |-> hev.op, s |-> hev.s, a |-> hev.a, q |-> hev.q, ok |-> r.ok, done |-> r.done, skip |-> FALSE, u4 |-> r.u4, u6 |-> 0,
                 evs |-> r.evs, evs2 |-> r.evs, dc |-> r.dc, de |-> r.de, dok |-> r.dok, dfail |-> r.dfail]
ObsOf(mm) ==
  [ss |-> [k \in Slots |-> LET s == mm.ses[k] IN
             IF s.ex THEN [live |-> TRUE, st |-> s.st, au |-> s.au, wg |-> s.wg, a4 |-> s.a4, a6 |-> 0] ELSE Proj(Dead)],
   bymac |-> mm.bymac, by4 |-> mm.by4, by6 |-> <<>>,
   active |-> Cardinality(InTable(mm)), walled |-> Cardinality({k \in InTable(mm) : mm.ses[k].wg}), nlist |-> Cardinality(InTable(mm)),
   fx |-> mm.w.kind]

Take(hev, r) ==
  LET e   == Edge(hev, r)
      obs == ObsOf(r.m)
      g2  == Step(Cfg, g, e, obs)
  IN /\ m' = r.m
     /\ g' = g2
     /\ hist' = Append(hist, hev)
     /\ bad' = EdgeClauses(Cfg, g, e, obs) \cup NodeClauses(Cfg, g2, obs, hev.op)
     /\ fl' = IF m.w.kind # "" THEN m.w.kind \o "_begin" ELSE IF r.m.w.kind # "" THEN r.m.w.kind \o "_begin" ELSE ""

\* Rich = FALSE leaves out the calls that add nothing to the races (successful authentication, UpdateActivity of one session)
AtomicOps == {[op |-> "create", a |-> ""], [op |-> "auth", a |-> "fail"], [op |-> "assign", a |-> "a"],
              [op |-> "activate", a |-> ""], [op |-> "walled", a |-> ""], [op |-> "unwalled", a |-> ""], [op |-> "term", a |-> "admin"]}
             \cup (IF Rich THEN {[op |-> "auth", a |-> "ok"], [op |-> "activity", a |-> ""]} ELSE {})
AuthVariants == IF Rich THEN {"ok", "fail"} ELSE {"fail"}

\* what the harness schedules while a call is parked (everything else it skips)
Allowed(op, k) ==
  LET w == m.w IN
  CASE w.kind = ""       -> TRUE
    [] w.kind = "auth"   -> k # w.k \/ op \in {"walled", "unwalled", "activate", "activity"}
    [] w.kind = "term"   -> k # w.k
    [] w.kind = "assign" -> k # w.k \/ op = "term"
    [] w.kind = "tick"   -> FALSE

Init == m = M0 /\ g = G0(Cfg) /\ hist = <<>> /\ bad = {} /\ fl = ""

Next == /\ bad = {}
        /\ Len(hist) < MaxLen
        /\ \/ \E k \in Slots : \E oa \in AtomicOps : Allowed(oa.op, k) /\ Take(HEv(oa.op, k, oa.a, 0), Atomic(m, oa.op, k, oa.a))
           \/ m.w.kind \in {"", "tick"} /\ Take(HEv("activity", 0, "", 0), ActivityAll(m))
           \/ m.w.kind = "" /\ Take(HEv("adv", 0, "", AdvQ), Adv(m, AdvQ))
           \/ m.w.kind = "" /\ Take(HEv("tick", 0, "", 0), Tick(m))
           \/ m.w.kind = "" /\ \E k \in Slots : \E a \in AuthVariants : Take(HEv("auth_begin", k, a, 0), AuthBegin(m, k, a))
           \/ m.w.kind = "" /\ \E k \in Slots : Take(HEv("term_begin", k, "admin", 0), TermBegin(m, k, "admin"))
           \/ m.w.kind = "" /\ \E k \in Slots : Take(HEv("assign_begin", k, "a", 0), AssignBegin(m, k, "a"))
           \/ m.w.kind = "" /\ \E ord \in Orders(Victims(m)) : Take(HEv("tick_begin", 0, "", 0), TickBegin(m, ord))
           \/ m.w.kind # "" /\ Take(HEv("cont", 0, "", 0), Cont(m))

Spec == Init /\ [][Next]_vars

Report == bad = {} \/ PrintT(<<"DESIGN-CEX", ToJson([clauses |-> bad, flux |-> fl, events |-> hist])>>)
Clean  == bad = {}

View == <<m, g, bad>>
=============================================================================
