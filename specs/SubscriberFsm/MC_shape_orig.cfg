SPECIFICATION Spec
CONSTANTS N = 2  U = 2  ITO = 1  AdvQ = 2  Fixed = FALSE  MaxLen = 7  Rich = FALSE
INVARIANTS Report
VIEW View
CHECK_DEADLOCK FALSE
