SPECIFICATION Spec
CONSTANTS N = 2  Max = 2  U = 1  STO = 2  ITO = 1  ASTO = 0  AITO = 2  MaxT = 4  MaxOps = 5
INVARIANTS Capacity Walled OneHolder StatsBalance EventChain AuthSticky Agree Consistent GhostSane
VIEW View
CHECK_DEADLOCK FALSE
