----------------------------- MODULE SlaacShape -----------------------------
(***************************************************************************)
(* Implementation-shaped model of radvd.go's life cycle, one action per     *)
(* critical section:                                                        *)
(*   Start            new socket, running := 1, `go sendPeriodicRAs`        *)
(*   Stop             running := 0, socket closed (nothing wakes the sender) *)
(*   SenderInit(l)    `Send initial RA`, first interval drawn               *)
(*   SenderWake(l)    `case <-time.After(interval)`: sendRA on s.conn (the  *)
(*                    CURRENT socket), next interval drawn, and only then   *)
(*                    the loop condition `for running == 1` is looked at    *)
(*   Tick             one unit of time (no timer due)                       *)
(* Fixed = FALSE is the code as found; Fixed = TRUE is the proposed repair  *)
(* (Stop ends the sender it started: per-Start done channel).               *)
(* Guarantee (clause IntervalBounds / StopSilent of the contract): while    *)
(* running, two unsolicited advertisements are never closer than MinI; no   *)
(* send is attempted on a closed socket.  Each violating state is printed   *)
(* as a history in the harness' alphabet (DESIGN-CEX) and executed on the   *)
(* real daemon as chain shape#cex<i>.                                       *)
(***************************************************************************)
EXTENDS Integers, Sequences, FiniteSets, TLC, Json

CONSTANTS Fixed, MinI, MaxI, MaxStarts, MaxT

VARIABLES running, open, loops, nid, now, lastU, starts, hist, bad
vars == <<running, open, loops, nid, now, lastU, starts, hist, bad>>

\* loops: set of [id, pc, timer]
Init == /\ running = FALSE /\ open = FALSE /\ loops = {} /\ nid = 1 /\ now = 0 /\ lastU = 0 - 100 /\ starts = 0 /\ hist = <<>> /\ bad = {}

E(op, dt) == [op |-> op, p |-> 0, v |-> 0, dt |-> dt]

Quiet == \A l \in loops : l.pc = "sleep" /\ l.timer > 0      \* the harness acts only when every goroutine is blocked (synctest.Wait)

Start == /\ Quiet /\ ~running /\ starts < MaxStarts
         /\ running' = TRUE /\ open' = TRUE /\ starts' = starts + 1
         /\ loops' = loops \cup {[id |-> nid, pc |-> "init", timer |-> 0]} /\ nid' = nid + 1
         /\ hist' = Append(hist, E("start", 0))
         /\ UNCHANGED <<now, lastU, bad>>

Stop == /\ Quiet /\ running
        /\ running' = FALSE /\ open' = FALSE
        /\ loops' = IF Fixed THEN {} ELSE loops
        /\ hist' = Append(hist, E("stop", 0))
        /\ UNCHANGED <<nid, now, lastU, starts, bad>>

Send(isInit) ==   \* sendRA on the current socket: what the link sees, judged
  /\ bad' = bad \cup (IF ~open THEN {"SendOnClosed"} ELSE {})
                \cup (IF open /\ running /\ ~isInit /\ now - lastU < MinI THEN {"IntervalBounds"} ELSE {})
  /\ lastU' = IF open THEN now ELSE lastU

SenderInit(l) == /\ l.pc = "init"
                 /\ Send(TRUE)
                 /\ \E d \in MinI..MaxI : loops' = (loops \ {l}) \cup {[l EXCEPT !.pc = "sleep", !.timer = d]}
                 /\ UNCHANGED <<running, open, nid, now, starts, hist>>

SenderWake(l) == /\ l.pc = "sleep" /\ l.timer = 0
                 /\ Send(FALSE)
                 /\ IF running THEN \E d \in MinI..MaxI : loops' = (loops \ {l}) \cup {[l EXCEPT !.timer = d]}
                               ELSE loops' = loops \ {l}
                 /\ UNCHANGED <<running, open, nid, now, starts, hist>>

Tick == /\ Quiet /\ now < MaxT
        /\ now' = now + 1
        /\ loops' = {[l EXCEPT !.timer = l.timer - 1] : l \in loops}
        /\ hist' = Append(hist, E("adv", 1))
        /\ UNCHANGED <<running, open, nid, lastU, starts, bad>>

Next == /\ bad = {}
        /\ \/ Start \/ Stop \/ Tick
           \/ \E l \in loops : SenderInit(l) \/ SenderWake(l)

Spec == Init /\ [][Next]_vars

Clean == bad = {}
Report == bad = {} \/ PrintT(<<"DESIGN-CEX", ToJson([clauses |-> bad, events |-> hist])>>)
View == <<running, open, {[pc |-> l.pc, timer |-> l.timer] : l \in loops}, now - lastU, starts, bad, now>>
=============================================================================
