----------------------------- MODULE SlaacImpl -----------------------------
(***************************************************************************)
(* U2/U3: TLC walks the transition tables and chains EXTRACTED FROM THE     *)
(* REAL slaac.Server (bundle.json, written by harness/slaac: the daemon on  *)
(* one end of a veth pair in a private network namespace, the harness       *)
(* reading the other end; testing/synctest virtual time for the periodic    *)
(* sender, real time for the systems of kind "wire") with the Slaac         *)
(* contract as monitor.  Tables closed under their alphabet give a verdict  *)
(* for event sequences of any length over it.                               *)
(*                                                                         *)
(* Monitor style: a violated clause does not disable the step, it is        *)
(* recorded in viol; the violating state is reported (one JSON line via     *)
(* PrintT); a state violating only clauses in Soft (HopLimit255,            *)
(* NotDefaultRouter: properties of every advertisement of a configuration,  *)
(* the same in every state) is explored further, any other violating state  *)
(* is not; only clauses in Watch are recorded.                              *)
(***************************************************************************)
EXTENDS Slaac, Json, SequencesExt

CONSTANT Watch

Soft == {"HopLimit255", "NotDefaultRouter"}

Bundle == JsonDeserialize("bundle.json")
Systems == Bundle.systems

VARIABLES sys, node, g, viol, path, lastop
vars == <<sys, node, g, viol, path, lastop>>

Cfg(i)        == Systems[i].cfg
NodeOf(i, n)  == Systems[i].nodes[n]
EdgesOf(i, n) == Systems[i].edges[n]

Init == /\ sys \in 1..Len(Systems)
        /\ node = Systems[sys].init
        /\ g = G0(Cfg(sys))
        /\ lastop = "init"
        /\ viol = NodeClauses(Cfg(sys), g, NodeOf(sys, node), InitEv) \cap Watch
        /\ path = <<>>

Next == /\ viol \subseteq Soft
        /\ \E k \in 1..Len(EdgesOf(sys, node)) :
             LET ed == EdgesOf(sys, node)[k]
                 e  == ed.ev
                 g2 == Step(Cfg(sys), g, e, NodeOf(sys, ed.to))
             IN /\ node' = ed.to
                /\ g' = g2
                /\ lastop' = e.op
                /\ viol' = (EdgeClauses(Cfg(sys), g, e) \cup NodeClauses(Cfg(sys), g2, NodeOf(sys, ed.to), e)) \cap Watch
                /\ path' = Append(path, ed.id)
                /\ UNCHANGED sys

Spec == Init /\ [][Next]_vars

Report == viol = {} \/ PrintT(<<"VIOLATION", ToJson([system |-> Systems[sys].name, clauses |-> viol, path |-> path])>>)

View == <<sys, node, g, viol>>
=============================================================================
