------------------------------- MODULE Slaac -------------------------------
(***************************************************************************)
(* Contract of pkg/slaac (radvd.go, types.go): the Router Advertisement     *)
(* daemon.  Extra family X15: none of the 20 listed properties; the         *)
(* sentences below are the package's own comments (quoted), weakest         *)
(* reading.  RFC 4861 is used only where the code names it (`Default        *)
(* intervals per RFC 4861`, `Random interval between min and max per RFC    *)
(* 4861`) and, for HopLimit255, for the meaning of the one call the code     *)
(* makes `for outgoing packets`.                                            *)
(*                                                                         *)
(* The observer sits on the link: every step e carries e.ras, the sequence  *)
(* of datagrams the kernel delivered on the other end of the daemon's link  *)
(* during the step (decoded: r.wf, r.hop, r.dst, r.m, r.o, r.rlt, r.mtu,    *)
(* r.pios, r.rdnss ...; r.t = instant in ms from the start of the step),    *)
(* e.dur (virtual ms the step took), e.dsent (growth of GetStats            *)
(* ras_sent).                                                              *)
(*                                                                         *)
(* S1 "buildRA builds a Router Advertisement message" / "length in 8-byte   *)
(*    units" / "Multicast to all-nodes" / "Set hop limit for outgoing       *)
(*    packets" (SetHopLimit(255)):                                          *)
(*    WellFormed       every datagram is ICMPv6 type 134 code 0, at least   *)
(*                     16 bytes, followed by options each with a non-zero   *)
(*                     length in 8-byte units that add up exactly to the    *)
(*                     datagram; MTU option 8, prefix information 32 bytes  *)
(*    Dst              every advertisement goes to ff02::1                  *)
(*    HopLimit255      every advertisement is on the link with hop limit    *)
(*                     255 (the value the daemon sets `for outgoing         *)
(*                     packets`; RFC 4861 6.1.2: receivers discard others); *)
(*                     judged in the systems with cfg.hop only              *)
(* S2 Config: "Set M flag (use DHCPv6 for addresses)" / "Set O flag" /      *)
(*    "Router lifetime in seconds (0 = not a default router)" / MTU (types: *)
(*    "Link MTU (0 = don't advertise)") / "Lifetime = 3x router lifetime":  *)
(*    Flags            M set iff Config.Managed, O set iff Config.Other     *)
(*    RouterLifetime   Config.DefaultLifetime > 0: the router lifetime      *)
(*                     field carries it                                     *)
(*    NotDefaultRouter Config.DefaultLifetime = 0: the field is 0           *)
(*    MtuOption        one MTU option with Config.MTU iff Config.MTU > 0    *)
(*    DnsOptions       RDNSS lists exactly the configured IPv6 servers      *)
(*                     (none: no option), DNSSL the configured number of    *)
(*                     domains; both lifetimes = 3 x the router lifetime    *)
(*                     field of the same advertisement                      *)
(* S3 "CIDR prefixes to advertise" / "SLAAC if not managed" / "30 days" /   *)
(*    "7 days" / "AddPrefix dynamically adds a prefix to advertise" /       *)
(*    "RemovePrefix removes a prefix from advertisements":                  *)
(*    PrefixesExact    the prefix information options of every              *)
(*                     advertisement are exactly the configured prefixes    *)
(*                     (on-link, autonomous iff not managed, valid 2592000, *)
(*                     preferred 604800) plus those added and minus those   *)
(*                     removed before it (flags and lifetimes as given to   *)
(*                     AddPrefix; lifetimes are fixed, never decremented)   *)
(* S4 "Start starts the Router Advertisement daemon" / "Send initial RA" /  *)
(*    "Random interval between min and max per RFC 4861" / "Default         *)
(*    intervals per RFC 4861" (200 s, 600 s) / "Stop stops the ... daemon": *)
(*    InitialRA        a successful Start puts an advertisement on the link *)
(*                     at once                                              *)
(*    IntervalBounds   while running, an unsolicited advertisement follows  *)
(*                     the previous unsolicited one (or the initial one) no *)
(*                     sooner than MinRAInterval and no later than          *)
(*                     MaxRAInterval (only judged for Min <= Max)           *)
(*    PeriodicDue      while running, never more than MaxRAInterval passes  *)
(*                     without an unsolicited advertisement                 *)
(*    StopSilent       after Stop returned nothing is advertised until the  *)
(*                     next Start                                           *)
(* S5 "handleRouterSolicitation ... Send RA in response" / "SendImmediateRA *)
(*    sends an immediate Router Advertisement (for configuration changes)" /*)
(*    GetStats "ras_sent":                                                  *)
(*    SolicitedAnswered  a solicitation handled while running is answered   *)
(*                     by at least one advertisement                        *)
(*    ImmediateSent    SendImmediateRA while running: at least one          *)
(*                     advertisement                                        *)
(*    StatsTrue        ras_sent grows by the number of advertisements that  *)
(*                     reached the link during the step                     *)
(* (Panic: an exported method that panics - reported by the harness.)       *)
(*                                                                         *)
(* Silent (unconstrained): rate limiting of solicited advertisements, a     *)
(* final advertisement with lifetime 0 on Stop, deprecation of removed      *)
(* prefixes, unicast answers, cur-hop-limit / reachable / retrans values,   *)
(* the source link-layer option, the order of options - the package         *)
(* documents none of them.                                                  *)
(***************************************************************************)
EXTENDS Integers, Sequences, FiniteSets

Rng(s) == {s[i] : i \in 1..Len(s)}

\* ghost: run - between a successful Start and the next Stop; since - ms since the last unsolicited (or initial)
\* advertisement of this run; pfx - the set of prefix records to advertise
G0(cfg) == [run |-> FALSE, since |-> 0, pfx |-> Rng(cfg.cfgp)]

InitEv == [op |-> "init"]

Started(e) == e.op = "start" /\ ~e.skip /\ e.err = ""

\* per-advertisement clauses
RaClauses(cfg, g, r) ==
     (IF ~r.wf THEN {"WellFormed"} ELSE {})
  \cup (IF r.dst # "allnodes" THEN {"Dst"} ELSE {})
  \cup (IF cfg.hop /\ r.hop # 255 THEN {"HopLimit255"} ELSE {})
  \cup (IF r.wf /\ (r.m # cfg.managed \/ r.o # cfg.other) THEN {"Flags"} ELSE {})
  \cup (IF r.wf /\ cfg.life > 0 /\ r.rlt # cfg.life THEN {"RouterLifetime"} ELSE {})
  \cup (IF r.wf /\ cfg.life = 0 /\ r.rlt # 0 THEN {"NotDefaultRouter"} ELSE {})
  \cup (IF r.wf /\ (r.mtu # cfg.mtu \/ r.nmtu # (IF cfg.mtu > 0 THEN 1 ELSE 0)) THEN {"MtuOption"} ELSE {})
  \cup (IF r.wf /\ (  r.rdnss # cfg.dns \/ r.nrdnss # (IF Len(cfg.dns) > 0 THEN 1 ELSE 0)
                   \/ (Len(cfg.dns) > 0 /\ r.rdnsslt # 3 * r.rlt)
                   \/ r.ndom # cfg.ndom \/ r.ndnssl # (IF cfg.ndom > 0 THEN 1 ELSE 0)
                   \/ (cfg.ndom > 0 /\ r.dnssllt # 3 * r.rlt)) THEN {"DnsOptions"} ELSE {})
  \cup (IF r.wf /\ (Rng(r.pios) # g.pfx \/ Len(r.pios) # Cardinality(g.pfx)) THEN {"PrefixesExact"} ELSE {})

\* gaps between unsolicited advertisements during a step in which time passes
RECURSIVE GapsBad(_, _, _, _)
GapsBad(cfg, ras, i, last) ==      \* last: instant (relative to the step, may be negative) of the previous unsolicited one
  IF i > Len(ras) THEN FALSE
  ELSE LET d == ras[i].t - last
       IN d < cfg.min_ms - cfg.tol_ms \/ d > cfg.max_ms + cfg.tol_ms \/ GapsBad(cfg, ras, i + 1, ras[i].t)

LastT(e, g) == IF Len(e.ras) > 0 THEN e.ras[Len(e.ras)].t ELSE 0 - g.since

EdgeClauses(cfg, g, e) ==
     UNION {RaClauses(cfg, g, e.ras[i]) : i \in 1..Len(e.ras)}
  \cup (IF Started(e) /\ Len(e.ras) = 0 THEN {"InitialRA"} ELSE {})
  \cup (IF e.op = "adv" /\ g.run /\ cfg.min_ms <= cfg.max_ms /\ GapsBad(cfg, e.ras, 1, 0 - g.since) THEN {"IntervalBounds"} ELSE {})
  \cup (IF e.op = "adv" /\ g.run /\ e.dur - LastT(e, g) > cfg.max_ms + cfg.tol_ms THEN {"PeriodicDue"} ELSE {})
  \cup (IF ~g.run /\ ~Started(e) /\ Len(e.ras) > 0 THEN {"StopSilent"} ELSE {})
  \cup (IF e.op = "rs" /\ ~e.skip /\ g.run /\ Len(e.ras) = 0 THEN {"SolicitedAnswered"} ELSE {})
  \cup (IF e.op = "imm" /\ g.run /\ Len(e.ras) = 0 THEN {"ImmediateSent"} ELSE {})
  \cup (IF e.dsent # Len(e.ras) THEN {"StatsTrue"} ELSE {})

Step(cfg, g, e, obs) ==
  [run   |-> IF Started(e) THEN TRUE ELSE IF e.op = "stop" THEN FALSE ELSE g.run,
   since |-> IF Started(e) THEN 0
             ELSE IF e.op = "adv" /\ g.run THEN e.dur - LastT(e, g)
             ELSE IF g.run THEN g.since + e.dur ELSE 0,
   pfx   |-> IF e.op = "addp" /\ ~e.skip THEN g.pfx \cup {e.rec}
             ELSE IF e.op = "rmp" THEN {x \in g.pfx : x.p # e.p}
             ELSE g.pfx]

NodeClauses(cfg, g, n, e) == {}
=============================================================================
