SPECIFICATION Spec
CONSTANTS MaxSteps = 4  MinI = 2  MaxI = 3  NP = 2
INVARIANTS AcceptsIffLegit GhostTracks
VIEW View
CHECK_DEADLOCK FALSE
