---------------------------- MODULE SlaacDesign ----------------------------
(***************************************************************************)
(* U1: the Slaac contract is model-checked against the guarantees stated    *)
(* DIRECTLY over absolute histories (absolute clock, absolute instants of   *)
(* the unsolicited advertisements, the prefix set kept by the environment). *)
(* Every step offers the contract every candidate answer of a small family  *)
(* (0..2 advertisements at any instant of the step, each correct or with    *)
(* one component falsified, the counter right or wrong); the contract must  *)
(* accept a candidate iff the direct statement does (AcceptsIffLegit), the   *)
(* walk continues through accepted answers only, and the ghost must keep     *)
(* tracking the absolute state (GhostTracks).  Time in units (tol = 0).     *)
(***************************************************************************)
EXTENDS Slaac, SequencesExt, TLC

CONSTANTS MaxSteps, MinI, MaxI, NP

Rec(p) == [p |-> p, plen |-> 64, l |-> TRUE, a |-> TRUE, vh |-> 0, vl |-> 100, ph |-> 0, pl |-> 50]
Cfg == [min_ms |-> MinI, max_ms |-> MaxI, tol_ms |-> 0, hop |-> TRUE, managed |-> FALSE, other |-> TRUE, life |-> 5, mtu |-> 0,
        dns |-> <<>>, ndom |-> 0, cfgp |-> <<Rec(1)>>]

VARIABLES g, run, now, lastU, pfx, steps, ok, legit
vars == <<g, run, now, lastU, pfx, steps, ok, legit>>

Good(t, pf) == [wf |-> TRUE, dst |-> "allnodes", hop |-> 255, m |-> FALSE, o |-> TRUE, rlt |-> 5, mtu |-> 0, nmtu |-> 0, rdnss |-> <<>>, nrdnss |-> 0,
                rdnsslt |-> 0 - 1, ndom |-> 0, ndnssl |-> 0, dnssllt |-> 0 - 1, pios |-> SetToSeq(pf), t |-> t]
Variants(r) == {r, [r EXCEPT !.hop = 1], [r EXCEPT !.dst = "other"], [r EXCEPT !.wf = FALSE], [r EXCEPT !.m = TRUE], [r EXCEPT !.o = FALSE],
                [r EXCEPT !.rlt = 0], [r EXCEPT !.mtu = 1500, !.nmtu = 1], [r EXCEPT !.pios = SetToSeq({Rec(p) : p \in 1..NP} \ Rng(r.pios))],
                [r EXCEPT !.pios = Append(r.pios, Rec(1))]}

\* the direct statement, one advertisement
LegitRA(r) == /\ r.wf /\ r.dst = "allnodes" /\ r.hop = 255 /\ ~r.m /\ r.o /\ r.rlt = 5 /\ r.nmtu = 0 /\ r.mtu = 0
              /\ Rng(r.pios) = pfx /\ Len(r.pios) = Cardinality(pfx)

\* the direct statement, one step (absolute instants)
Chain(ras, d) ==   \* unsolicited advertisements of an adv step against the absolute clock
  LET abs(i) == IF i = 0 THEN lastU ELSE now + ras[i].t
  IN /\ \A i \in 1..Len(ras) : abs(i) - abs(i - 1) >= MinI /\ abs(i) - abs(i - 1) <= MaxI
     /\ now + d - abs(Len(ras)) <= MaxI
Legit(e) == /\ \A i \in 1..Len(e.ras) : LegitRA(e.ras[i])
            /\ (~run /\ e.op # "start") => e.ras = <<>>
            /\ e.op = "start" => Len(e.ras) >= 1
            /\ (e.op \in {"rs", "imm"} /\ run) => Len(e.ras) >= 1
            /\ (e.op = "adv" /\ run) => Chain(e.ras, e.dur)
            /\ e.dsent = Len(e.ras)

Ev(op, p, d, ras, ds) == [op |-> op, p |-> p, dur |-> d, ras |-> ras, dsent |-> ds, skip |-> FALSE, err |-> "", rec |-> Rec(p)]

Candidates(op, d) ==
  LET one == UNION {Variants(Good(t, pfx)) : t \in 0..d}
      two == {<<Good(t1, pfx), Good(t2, pfx)>> : t1 \in 0..d, t2 \in 0..d}
  IN {<<>>} \cup {<<r>> : r \in one} \cup {s \in two : s[1].t <= s[2].t}

Init == /\ g = G0(Cfg) /\ run = FALSE /\ now = 0 /\ lastU = 0 /\ pfx = {Rec(1)} /\ steps = 0 /\ ok = TRUE /\ legit = TRUE

Do(e) == /\ ok' = (EdgeClauses(Cfg, g, e) = {})
         /\ legit' = Legit(e)
         /\ g' = Step(Cfg, g, e, [x |-> 0])
         /\ run' = IF e.op = "start" THEN TRUE ELSE IF e.op = "stop" THEN FALSE ELSE run
         /\ now' = now + e.dur
         /\ lastU' = IF e.op = "start" THEN now
                     ELSE IF e.op = "adv" /\ run /\ Len(e.ras) > 0 THEN now + e.ras[Len(e.ras)].t ELSE lastU
         /\ pfx' = IF e.op = "addp" THEN pfx \cup {Rec(e.p)} ELSE IF e.op = "rmp" THEN pfx \ {Rec(e.p)} ELSE pfx
         /\ steps' = steps + 1

Next == /\ ok /\ legit /\ steps < MaxSteps
        /\ \/ \E op \in {"stop", "rs", "imm"} : \E ras \in Candidates(op, 0), ds \in 0..1 : Do(Ev(op, 0, 0, ras, Len(ras) + ds))
           \/ ~run /\ \E ras \in Candidates("start", 0) : Do(Ev("start", 0, 0, ras, Len(ras)))
           \/ \E p \in 1..NP, op \in {"addp", "rmp"} : \E ras \in Candidates(op, 0) : Do(Ev(op, p, 0, ras, Len(ras)))
           \/ \E d \in 1..(MaxI + 1) : \E ras \in Candidates("adv", d) : Do(Ev("adv", 0, d, ras, Len(ras)))

Spec == Init /\ [][Next]_vars

AcceptsIffLegit == ok = legit
GhostTracks == (ok /\ legit) => /\ g.run = run /\ g.pfx = pfx
                                 /\ run => g.since = now - lastU
View == <<g, run, now - lastU, pfx, steps, ok, legit>>
=============================================================================
