SPECIFICATION Spec
CONSTANTS Fixed = TRUE  MinI = 2  MaxI = 3  MaxStarts = 3  MaxT = 8
INVARIANTS Clean
VIEW View
CHECK_DEADLOCK FALSE
