SPECIFICATION Spec
CONSTANTS Fixed = FALSE  MinI = 2  MaxI = 2  MaxStarts = 2  MaxT = 5
INVARIANTS Report
VIEW View
CHECK_DEADLOCK FALSE
