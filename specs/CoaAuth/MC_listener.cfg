SPECIFICATION Spec
CONSTANTS Listener = TRUE  LengthGuard = TRUE
INVARIANTS InvListener InvIff InvDrop InvResp InvEither
CHECK_DEADLOCK FALSE
