--------------------------- MODULE CoaAuthDesign ---------------------------
(***************************************************************************)
(* U1 for C15.  TLC enumerates the finite abstract datagram space and,     *)
(* for each datagram, every outcome the contract CoaAuth accepts           *)
(* (EdgeClauses = {}), and checks that the accepted outcomes are exactly    *)
(* what the property statement allows (invariants below, written from the  *)
(* statement, not from the clause definitions).  It also checks that the   *)
(* three classes partition the space and that the contract is satisfiable  *)
(* for every datagram, and writes the abstract classes to classes.json:    *)
(* the harness concretises every class into real bytes (generator).        *)
(*                                                                         *)
(* With Listener = TRUE the outcome is not free but the one the listener   *)
(* algorithm of pkg/radius/coa.go receiveLoop produces on the abstract     *)
(* datagram (implementation-shaped check of the code's design);            *)
(* LengthGuard = FALSE models the code before the declared-length guard    *)
(* (TLC then reports the class len >= 20, declared < 20 as Crash).         *)
(***************************************************************************)
EXTENDS CoaAuth, Json, SequencesExt

CONSTANTS Listener, LengthGuard

Lens  == {0, 1, 3, 4, 19, 20, 21, 22, 40, 4096, 4097}
Decls == {-1, 0, 4, 19, 20, 21, 22, 40, 41, 4096, 4097, 65535}
Codes == {-1, 0, 1, 4, 40, 41, 43, 44, 255}
Ids   == {-1, 7}

Consistent(d) ==
  /\ (d.len = 0) <=> (d.code = -1)
  /\ (d.len < 2) <=> (d.id = -1)
  /\ (d.len < 4) <=> (d.declared = -1)
  /\ d.authOK  => Complete(d)
  /\ d.attrsWF => Complete(d)
  /\ (Complete(d) /\ d.declared = 20) => d.attrsWF       \* no attributes at all
  /\ (Complete(d) /\ d.declared = 21) => ~d.attrsWF      \* one stray byte

Datagrams == {d \in [len : Lens, declared : Decls, code : Codes, id : Ids, authOK : BOOLEAN, attrsWF : BOOLEAN] : Consistent(d)}

RespRecs == [id : {7, 8}, code : {41, 45, 3}, authOK : BOOLEAN]
RespSeqs == {<<>>} \cup {<<r>> : r \in RespRecs} \cup {<<r, s>> : r \in RespRecs, s \in {[id |-> 7, code |-> 41, authOK |-> TRUE], [id |-> 8, code |-> 3, authOK |-> FALSE]}}
Outcomes == [crashed : BOOLEAN, dead : BOOLEAN, hcalls : 0..1, effects : 0..1, resps : RespSeqs]

Event(d, o) == [op |-> "dgram", len |-> d.len, declared |-> d.declared, code |-> d.code, id |-> d.id, authOK |-> d.authOK,
                attrsWF |-> d.attrsWF, crashed |-> o.crashed, dead |-> o.dead, hcalls |-> o.hcalls, effects |-> o.effects, resps |-> o.resps]

Silent == [crashed |-> FALSE, dead |-> FALSE, hcalls |-> 0, effects |-> 0, resps |-> <<>>]
Acts(d) == [crashed |-> FALSE, dead |-> FALSE, hcalls |-> 1, effects |-> 0, resps |-> <<[id |-> d.id, code |-> 45, authOK |-> TRUE]>>]

\* receiveLoop of pkg/radius/coa.go on an abstract datagram (n = min(len, 4096) bytes are read)
ListenerOutcome(d) ==
  LET n == IF d.len > 4096 THEN 4096 ELSE d.len IN
  IF n < 20 THEN Silent
  ELSE IF LengthGuard /\ d.declared < 20 THEN Silent
  ELSE IF d.declared > n THEN Silent
  ELSE IF d.declared < 20 THEN [Silent EXCEPT !.crashed = TRUE]      \* packet[20:] with len(packet) < 20
  ELSE IF ~d.authOK THEN Silent
  ELSE IF ~d.attrsWF THEN CHOOSE o \in {Silent, Acts(d)} : TRUE        \* parser ignores one stray trailing byte, rejects the rest
  ELSE IF d.code \in ReqCodes THEN Acts(d)
  ELSE Silent

VARIABLES d, o
vars == <<d, o>>

Init == /\ d \in Datagrams
        /\ o \in (IF Listener THEN {ListenerOutcome(d)} ELSE Outcomes)
        /\ (~Listener => EdgeClauses([x |-> 0], G0([x |-> 0]), Event(d, o)) = {})
Next == UNCHANGED vars
Spec == Init /\ [][Next]_vars

\* --- the property statement, restated --------------------------------------------------------
IsRequest      == d.code \in {40, 43}
CompleteAuth   == d.len >= 20 /\ 20 <= d.declared /\ d.declared <= d.len /\ d.authOK
Disputed       == CompleteAuth /\ IsRequest /\ (~d.attrsWF \/ d.declared > 4096)
ActedOn        == o.hcalls > 0 /\ \E i \in 1..Len(o.resps) : o.resps[i].code \in {41, 42, 44, 45}
NoEffect       == o.hcalls = 0 /\ o.effects = 0 /\ o.resps = <<>> /\ ~o.crashed /\ ~o.dead

\* "invokes a handler and sends an ACK or NAK if and only if ... complete ... verifies" (codes 40/43)
InvIff    == (IsRequest /\ ~Disputed) => (ActedOn <=> CompleteAuth)
\* "all other datagrams are dropped without effect"
InvDrop   == (~CompleteAuth \/ ~IsRequest) => NoEffect
\* "every response carries the request's identifier and a Response Authenticator that verifies"
InvResp   == \A i \in 1..Len(o.resps) : o.resps[i].id = d.id /\ o.resps[i].authOK
\* disputed datagrams: acted on entirely or not at all; never a crash
InvEither == Disputed => ((o.hcalls > 0) <=> (o.resps # <<>>)) /\ ~o.crashed /\ ~o.dead
\* implementation-shaped run: the listener algorithm violates no clause
InvListener == Listener => EdgeClauses([x |-> 0], G0([x |-> 0]), Event(d, o)) = {}

\* --- sanity of the contract itself ------------------------------------------------------------
ASSUME Listener \/ \A x \in Datagrams : Cardinality({c \in {"act", "drop", "either"} :
            (c = "act" /\ MustAct(x)) \/ (c = "drop" /\ MustDrop(x)) \/ (c = "either" /\ Either(x))}) = 1
ASSUME Listener \/ \A x \in Datagrams : EdgeClauses([x |-> 0], G0([x |-> 0]), Event(x, IF MustAct(x) THEN Acts(x) ELSE Silent)) = {}
ASSUME \E x \in Datagrams : MustAct(x)
ASSUME \E x \in Datagrams : Either(x)

\* --- generator: every abstract class, to be concretised by harness/coa ------------------------
Classes == {[len |-> x.len, declared |-> x.declared, code |-> x.code, id |-> x.id, authOK |-> x.authOK, attrsWF |-> x.attrsWF,
             expect |-> Expect(x)] : x \in Datagrams}
ASSUME Listener \/ JsonSerialize("classes.json", SetToSeq(Classes))

View == vars
=============================================================================
