SPECIFICATION Spec
CONSTANT Watch = {"Forged", "SpuriousResponse", "AuthenticIgnored", "AllOrNothing", "RespId", "RespAuth", "Crash"}
INVARIANTS Report
VIEW View
CHECK_DEADLOCK FALSE
