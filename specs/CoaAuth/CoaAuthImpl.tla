---------------------------- MODULE CoaAuthImpl ----------------------------
(***************************************************************************)
(* U3 for C15: TLC walks bundle.json written by harness/coa.  Every system  *)
(* is a chain of datagram events against one real radius.CoAServer (with    *)
(* the real radius.CoAProcessor behind it) on a loopback UDP socket; every  *)
(* event carries the abstract classification of the datagram (computed by   *)
(* the harness's own MD5) and what the listener really did.  Each event is  *)
(* judged by the contract CoaAuth.                                          *)
(*                                                                         *)
(* Monitor style: a violated clause is recorded in viol and reported (one   *)
(* JSON line via PrintT).  Unlike PoolImpl the walk continues past a        *)
(* violating event: the contract has no history-dependent ghost state (the  *)
(* harness starts a fresh listener after a crash), so every datagram of the *)
(* run is judged.                                                           *)
(***************************************************************************)
EXTENDS CoaAuth, Json, SequencesExt

CONSTANT Watch        \* set of clause names this run is about

Bundle == JsonDeserialize("bundle.json")
Systems == Bundle.systems

VARIABLES sys, node, g, viol, path, lastop

vars == <<sys, node, g, viol, path, lastop>>

Cfg(i)   == Systems[i].cfg
NodeOf(i, n) == Systems[i].nodes[n]
EdgesOf(i, n) == Systems[i].edges[n]

Init == /\ sys \in 1..Len(Systems)
        /\ node = Systems[sys].init
        /\ g = G0(Cfg(sys))
        /\ lastop = "init"
        /\ viol = NodeClauses(Cfg(sys), g, NodeOf(sys, node), "init") \cap Watch
        /\ path = <<>>

Next == \E k \in 1..Len(EdgesOf(sys, node)) :
             LET ed == EdgesOf(sys, node)[k]
                 e  == ed.ev
                 g2 == Step(Cfg(sys), g, e, NodeOf(sys, ed.to))
             IN /\ node' = ed.to
                /\ g' = g2
                /\ lastop' = e.op
                /\ viol' = (EdgeClauses(Cfg(sys), g, e) \cup NodeClauses(Cfg(sys), g2, NodeOf(sys, ed.to), e.op)) \cap Watch
                /\ path' = Append(path, ed.id)
                /\ UNCHANGED sys

Spec == Init /\ [][Next]_vars

\* always TRUE; prints one line per violating event
Report == viol = {} \/ PrintT(<<"VIOLATION", ToJson([system |-> Systems[sys].name, clauses |-> viol, path |-> path])>>)

View == <<sys, node, g, viol>>
=============================================================================
