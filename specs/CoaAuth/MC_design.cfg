SPECIFICATION Spec
CONSTANTS Listener = FALSE  LengthGuard = TRUE
INVARIANTS InvIff InvDrop InvResp InvEither
CHECK_DEADLOCK FALSE
