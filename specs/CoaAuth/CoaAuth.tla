------------------------------ MODULE CoaAuth ------------------------------
(***************************************************************************)
(* Decision contract of the CoA / Disconnect listener (property C15).       *)
(*                                                                         *)
(* A UDP datagram is abstracted by the harness (trusted decoding step, its  *)
(* own MD5) to                                                              *)
(*   d = [len      : number of bytes of the datagram,                       *)
(*        declared : the RADIUS Length field (bytes 2..3), -1 if len < 4,   *)
(*        code     : byte 0, -1 if len = 0,                                 *)
(*        id       : byte 1, -1 if len < 2,                                 *)
(*        authOK   : Complete(d) and bytes 4..19 = MD5(code, id, length,    *)
(*                   16 zero bytes, bytes 20..declared-1, listener secret), *)
(*        attrsWF  : Complete(d) and bytes 20..declared-1 are a sequence of *)
(*                   whole attributes (each length >= 2, no overrun)]       *)
(* and what the real listener did with it to                                *)
(*   [crashed : the process hosting the listener died on this datagram,     *)
(*    dead    : the listener no longer answers correctly signed requests,   *)
(*    hcalls  : invocations of the CoA / Disconnect handler caused by it,   *)
(*    effects : invocations of the session terminator / policy updater,     *)
(*    resps   : the datagrams sent back, each [id, code, authOK] with authOK *)
(*              = Response Authenticator verifies against the request]      *)
(*                                                                         *)
(* clause            sentence of the property                               *)
(* ----------------  --------------------------------------------------    *)
(* Forged            "invokes a session-changing handler ... [only] if the  *)
(*                   datagram is a complete RADIUS packet whose Request     *)
(*                   Authenticator verifies under the shared secret"        *)
(* SpuriousResponse  "sends an ACK or NAK [only] if ..." / "all other       *)
(*                   datagrams are dropped without effect"                  *)
(* AuthenticIgnored  "invokes a session-changing handler and sends an ACK   *)
(*                   or NAK if ... [authentic]"                             *)
(* AllOrNothing      "handler and ACK/NAK if and only if" for datagrams     *)
(*                   whose completeness is open to interpretation (below):  *)
(*                   either reading gives handler <=> response              *)
(* RespId            "every response carries the request's identifier"      *)
(* RespAuth          "... and a Response Authenticator that verifies        *)
(*                   against the request"                                   *)
(* Crash             "dropped without effect" - a datagram that kills or    *)
(*                   silences the listener had an effect; an authentic one  *)
(*                   that does so was not answered                          *)
(*                                                                         *)
(* Interpretation (weakest reading, DESIGN.md section 6):                   *)
(*  - "complete RADIUS packet": at least the 20 byte header is present and  *)
(*    the declared length lies in 20..len (trailing bytes are padding).     *)
(*  - "acted on iff authentic" is demanded for codes 40 (Disconnect-Request)*)
(*    and 43 (CoA-Request); an authentic packet with any other code must    *)
(*    produce neither a handler call nor a response.                        *)
(*  - The statement is silent about attributes.  An authentic request whose *)
(*    attribute area is not a sequence of whole attributes (overrun, length *)
(*    byte < 2, stray trailing byte) or whose declared length exceeds the   *)
(*    RADIUS maximum of 4096 may be read as "not a complete RADIUS packet"  *)
(*    or as one: both acting and dropping are accepted (only AllOrNothing,  *)
(*    RespId, RespAuth, Crash apply).                                       *)
(*  - Which ACK/NAK, how many copies, response attributes: unconstrained.   *)
(***************************************************************************)
EXTENDS Integers, Sequences, FiniteSets, TLC

MaxPacket == 4096
ReqCodes  == {40, 43}
AckNak    == {41, 42, 44, 45}

Complete(d)  == d.len >= 20 /\ d.declared >= 20 /\ d.declared <= d.len
Authentic(d) == Complete(d) /\ d.authOK
WellFormed(d) == d.attrsWF /\ d.declared <= MaxPacket

\* the three classes of datagrams
MustAct(d)  == Authentic(d) /\ d.code \in ReqCodes /\ WellFormed(d)
MustDrop(d) == ~Authentic(d) \/ d.code \notin ReqCodes
Either(d)   == Authentic(d) /\ d.code \in ReqCodes /\ ~WellFormed(d)

Expect(d) == IF MustAct(d) THEN "act" ELSE IF MustDrop(d) THEN "drop" ELSE "either"

Range(s) == {s[i] : i \in 1..Len(s)}
Responded(e) == Len(e.resps) > 0
Acked(e)     == \E r \in Range(e.resps) : r.code \in AckNak
Handled(e)   == e.hcalls > 0
Gone(e)      == e.crashed \/ e.dead

\* ghost state: nothing of the past matters for the decision; we only count
G0(cfg) == [n |-> 0, restarts |-> 0]

\* e = the abstract datagram fields and the observed outcome fields in one record
EdgeClauses(cfg, g, e) ==
  IF e.op # "dgram" THEN {} ELSE
       (IF Gone(e) THEN {"Crash"} ELSE {})
  \cup (IF ~e.crashed /\ MustDrop(e) /\ (Handled(e) \/ e.effects > 0) THEN {"Forged"} ELSE {})
  \cup (IF ~e.crashed /\ MustDrop(e) /\ Responded(e) THEN {"SpuriousResponse"} ELSE {})
  \cup (IF ~Gone(e) /\ MustAct(e) /\ ~(Handled(e) /\ Acked(e)) THEN {"AuthenticIgnored"} ELSE {})
  \cup (IF ~Gone(e) /\ Either(e) /\ (Handled(e) # Responded(e)) THEN {"AllOrNothing"} ELSE {})
  \cup (IF \E r \in Range(e.resps) : r.id # e.id THEN {"RespId"} ELSE {})
  \cup (IF \E r \in Range(e.resps) : ~r.authOK THEN {"RespAuth"} ELSE {})

Step(cfg, g, e, obs) == [n |-> g.n + 1, restarts |-> g.restarts + (IF e.op = "dgram" /\ Gone(e) THEN 1 ELSE 0)]

\* observations between datagrams carry only counters of the listener (informational)
NodeClauses(cfg, g, n, lastop) == {}

AllClauses == {"Forged", "SpuriousResponse", "AuthenticIgnored", "AllOrNothing", "RespId", "RespAuth", "Crash"}
=============================================================================
