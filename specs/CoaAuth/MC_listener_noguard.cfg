\* self-test / documentation: the listener as it was at the pinned commit. TLC must report InvListener violated
\* (len >= 20, declared < 20 -> Crash). Not part of the registered design runs.
SPECIFICATION Spec
CONSTANTS Listener = TRUE  LengthGuard = FALSE
INVARIANTS InvListener
CHECK_DEADLOCK FALSE
