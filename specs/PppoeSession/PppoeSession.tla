---------------------------- MODULE PppoeSession ----------------------------
(***************************************************************************)
(* Contract of the PPPoE access concentrator (property C04).               *)
(* Ghost per session id i: owner[i] (MAC that created it with its PADR) and *)
(* authed[i] (TRUE once a PAP request from the owner for THAT session was   *)
(* accepted - by the scripted RADIUS outcome, or unconditionally when no    *)
(* RADIUS server is configured).                                            *)
(*                                                                         *)
(* clause        sentence of the property                                   *)
(* ------------  ------------------------------------------------------    *)
(* AuthGate      "a session is reported established, is assigned a client   *)
(*               address, or has its IP-layer negotiation acknowledged only *)
(*               after that same session's PAP/CHAP exchange was accepted"  *)
(*               (session table: state Established / client IP / the        *)
(*               authenticated flag; wire: an IPCP Configure-Ack, or an     *)
(*               IPCP Nak/Ack carrying a non-zero address, sent for it)     *)
(* ForeignInert  "frames whose source MAC is not the session's owner never  *)
(*               change, advance or terminate that session"                 *)
(***************************************************************************)
EXTENDS Integers, FiniteSets, Sequences, TLC

Ids(n) == 1..Len(n.present)

G0(n) == [owner  |-> [i \in Ids(n) |-> IF n.present[i] THEN n.owner[i] ELSE 0],
          authed |-> [i \in Ids(n) |-> FALSE]]

Rec(n, i) == <<n.present[i], n.owner[i], n.state[i], n.authed[i], n.ip[i]>>

IsPap(op) == op \in {"PAPGOOD", "PAPBAD", "PAPSLOW", "PAPCHAL"}

\* ghost after event e observed between nodes pre and post
Step(g, pre, e, post) ==
  [owner  |-> [i \in Ids(post) |->
                 IF ~post.present[i] THEN 0
                 ELSE IF ~pre.present[i] THEN (IF e.op = "PADR" THEN e.m ELSE post.owner[i])
                 ELSE g.owner[i]],
   authed |-> [i \in Ids(post) |->
                 IF ~post.present[i] \/ ~pre.present[i] THEN FALSE
                 ELSE g.authed[i] \/ (IsPap(e.op) /\ e.sid = i /\ e.m = g.owner[i] /\ e.accept)]]

SeqToSet(s) == {s[k] : k \in 1..Len(s)}
Str(i) == ToString(i)

\* tokens of the frames the server sent: "IPCP/<sid>/c<code>/to<mac>[/ip]"
IpcpAckFor(e, i)  == \E t \in SeqToSet(e.out) : \E m \in 0..9 : t = "IPCP/" \o Str(i) \o "/c2/to" \o Str(m) \/ t = "IPCP/" \o Str(i) \o "/c2/to" \o Str(m) \o "/ip"
IpcpAddrFor(e, i) == \E t \in SeqToSet(e.out) : \E m \in 0..9 : \E c \in {2, 3} : t = "IPCP/" \o Str(i) \o "/c" \o Str(c) \o "/to" \o Str(m) \o "/ip"

Clauses(g, pre, e, post) ==
  LET g2 == Step(g, pre, e, post) IN
       (IF \E i \in Ids(post) : post.present[i] /\ ~g2.authed[i] /\
              (post.state[i] = "Established" \/ post.ip[i] # -1 \/ post.authed[i])
          THEN {"AuthGate"} ELSE {})
  \cup (IF \E i \in Ids(post) : ~g2.authed[i] /\ (IpcpAckFor(e, i) \/ IpcpAddrFor(e, i))
          THEN {"AuthGate"} ELSE {})
  \* whichever session id the frame names: no session of another owner changes (frames, i.e. e.m # 0, only)
  \cup (IF e.m # 0 /\ \E i \in Ids(pre) : pre.present[i] /\ e.m # g.owner[i] /\ Rec(pre, i) # Rec(post, i)
          THEN {"ForeignInert"} ELSE {})
  \* ... nor its traffic counters (the harness reports the sessions of other owners whose byte / packet counters a frame moved)
  \cup (IF e.m # 0 /\ Len(e.touched) > 0 THEN {"ForeignInert"} ELSE {})
=============================================================================
