SPECIFICATION Spec
CONSTANTS Macs = {1, 2}  MaxSessions = 2  Guarded = TRUE  Radius = TRUE
INVARIANTS AuthGate ForeignInert
CHECK_DEADLOCK FALSE
