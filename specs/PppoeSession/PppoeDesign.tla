----------------------------- MODULE PppoeDesign -----------------------------
(***************************************************************************)
(* Implementation-shaped model of pkg/pppoe/server.go: one action per frame *)
(* handler, sessions looked up by id, the phase advanced exactly as the     *)
(* handlers do it.  Guarded = TRUE is the code after the fix: commits       *)
(* (session frames and PADT must come from the owner MAC; IPCP is ignored   *)
(* until the session is authenticated).  Guarded = FALSE is the code as it  *)
(* was: TLC then reports AuthGate violated by <<PADR, IPCP Configure-Ack>>  *)
(* and ForeignInert by a foreign PADT - the histories the harness replayed. *)
(***************************************************************************)
EXTENDS Integers, FiniteSets, TLC

CONSTANTS Macs, MaxSessions, Guarded, Radius

VARIABLES sess, nextId, foreignChanged
vars == <<sess, nextId, foreignChanged>>

None == [present |-> FALSE, owner |-> 0, phase |-> "none", authed |-> FALSE, ip |-> FALSE, gauthed |-> FALSE]
Ids == 1..MaxSessions

Init == sess = [i \in Ids |-> None] /\ nextId = 1 /\ foreignChanged = FALSE

Owner(i, m) == ~Guarded \/ sess[i].owner = m
Upd(i, m, rec) == /\ sess' = [sess EXCEPT ![i] = rec]
                  /\ foreignChanged' = (foreignChanged \/ (sess[i].owner # m /\ rec # sess[i]))
                  /\ UNCHANGED nextId

PADR(m) == /\ nextId <= MaxSessions
           /\ sess' = [sess EXCEPT ![nextId] = [present |-> TRUE, owner |-> m, phase |-> "lcp", authed |-> FALSE, ip |-> FALSE, gauthed |-> FALSE]]
           /\ nextId' = nextId + 1 /\ UNCHANGED foreignChanged
PADT(m, i) == sess[i].present /\ Owner(i, m) /\ Upd(i, m, None)
LcpAck(m, i) == sess[i].present /\ Owner(i, m) /\ Upd(i, m, [sess[i] EXCEPT !.phase = "auth"])
LcpTerm(m, i) == sess[i].present /\ Owner(i, m) /\ Upd(i, m, None)
Pap(m, i, ok) == /\ sess[i].present /\ Owner(i, m)
                 /\ LET accept == ok \/ ~Radius IN
                    Upd(i, m, [sess[i] EXCEPT !.authed = accept,
                                              !.gauthed = sess[i].gauthed \/ (accept /\ sess[i].owner = m),
                                              !.phase = IF accept THEN "ipcp" ELSE "closed",
                                              !.ip = IF accept THEN TRUE ELSE sess[i].ip])
IpcpAck(m, i) == /\ sess[i].present /\ Owner(i, m)
                 /\ (Guarded => sess[i].authed)
                 /\ Upd(i, m, [sess[i] EXCEPT !.phase = "established"])

Next == \E m \in Macs :
          \/ PADR(m)
          \/ \E i \in Ids : PADT(m, i) \/ LcpAck(m, i) \/ LcpTerm(m, i) \/ Pap(m, i, TRUE) \/ Pap(m, i, FALSE) \/ IpcpAck(m, i)
Spec == Init /\ [][Next]_vars

AuthGate == \A i \in Ids : sess[i].present /\ (sess[i].phase = "established" \/ sess[i].ip \/ sess[i].authed) => sess[i].gauthed
ForeignInert == ~foreignChanged
=============================================================================
