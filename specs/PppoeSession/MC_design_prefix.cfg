SPECIFICATION Spec
CONSTANTS Macs = {1, 2}  MaxSessions = 2  Guarded = FALSE  Radius = TRUE
INVARIANTS AuthGate ForeignInert
CHECK_DEADLOCK FALSE
