------------------------------ MODULE PppoeImpl ------------------------------
(* Walks tables / traces extracted from the real pppoe.Server (bundle.json). *)
EXTENDS PppoeSession, Json, SequencesExt

CONSTANT Watch
Bundle == JsonDeserialize("bundle.json")
Systems == Bundle.systems

VARIABLES sys, node, g, viol, path, lastop
vars == <<sys, node, g, viol, path, lastop>>
NodeOf(i, n) == Systems[i].nodes[n]
EdgesOf(i, n) == Systems[i].edges[n]

Init == /\ sys \in 1..Len(Systems)
        /\ node = Systems[sys].init
        /\ g = G0(NodeOf(sys, node))
        /\ lastop = "init" /\ viol = {} /\ path = <<>>

Next == /\ viol = {}
        /\ \E k \in 1..Len(EdgesOf(sys, node)) :
             LET ed == EdgesOf(sys, node)[k] IN
                /\ node' = ed.to
                /\ g' = Step(g, NodeOf(sys, node), ed.ev, NodeOf(sys, ed.to))
                /\ lastop' = ed.ev.op
                /\ viol' = Clauses(g, NodeOf(sys, node), ed.ev, NodeOf(sys, ed.to)) \cap Watch
                /\ path' = Append(path, ed.id)
                /\ UNCHANGED sys
Spec == Init /\ [][Next]_vars
Report == viol = {} \/ PrintT(<<"VIOLATION", ToJson([system |-> Systems[sys].name, clauses |-> viol, path |-> path])>>)
View == <<sys, node, g, viol>>
=============================================================================
