/* Shim for <bpf/bpf_helpers.h>: lets bpf/*.c of the gateway compile as ordinary user-space C.
 * Maps keep their declarations (type/key/value/max_entries come from the program source);
 * the helpers are implemented by vmaps.h over in-memory tables the driver fills with the
 * bytes the Go control plane wrote into real kernel maps. */
#ifndef VERIF_BPF_HELPERS_H
#define VERIF_BPF_HELPERS_H
#include <stddef.h>
#include <linux/types.h>

#define SEC(name)
#ifndef __always_inline
#define __always_inline inline __attribute__((always_inline))
#endif
#define __uint(name, val) int (*name)[val]
#define __type(name, val) typeof(val) *name
#define __array(name, val) typeof(val) *name[]

void *bpf_map_lookup_elem(void *map, const void *key);
long bpf_map_update_elem(void *map, const void *key, const void *value, __u64 flags);
long bpf_map_delete_elem(void *map, const void *key);
__u64 bpf_ktime_get_ns(void);
long bpf_perf_event_output(void *ctx, void *map, __u64 flags, void *data, __u64 size);
void *bpf_ringbuf_reserve(void *ringbuf, __u64 size, __u64 flags);
void bpf_ringbuf_submit(void *data, __u64 flags);
long bpf_xdp_adjust_tail(void *xdp_md, int delta);
#define bpf_printk(fmt, ...) ((void)0)
#endif
