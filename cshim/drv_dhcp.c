#include "dhcp_fastpath.c"
#include "vmaps.h"
static void register_maps(void) {
	REGISTER(subscriber_pools);
	REGISTER(vlan_subscriber_pools);
	REGISTER(ip_pools);
	REGISTER(server_config);
	REGISTER(stats_map);
	REGISTER(circuit_id_map);
	REGISTER(circuit_id_subscribers);
}
static struct xdp_md *g_ctx;
static unsigned char *g_lo, *g_hi;
long bpf_xdp_adjust_tail(void *x, int delta) {
	struct xdp_md *ctx = x;
	long end = (long)ctx->data_end + delta;
	if (end < (long)ctx->data + 14 || end > (long)(unsigned long)g_hi) return -22;
	ctx->data_end = (__u32)end;
	return 0;
}
static int run_prog(const char *prog, unsigned char *pkt, int len, int tail, int *newlen, unsigned *aux) {
	struct xdp_md ctx; memset(&ctx, 0, sizeof ctx);
	ctx.data = (__u32)(unsigned long)pkt; ctx.data_end = (__u32)(unsigned long)(pkt + len);
	g_ctx = &ctx; g_lo = pkt; g_hi = pkt + len + 1024; /* tailroom like a real driver's frame */
	int v = dhcp_fastpath_prog(&ctx);
	*newlen = (int)(ctx.data_end - ctx.data);
	*aux = 0;
	return v;
}
