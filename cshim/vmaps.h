/* In-memory eBPF map runtime + line protocol of the native drivers (see DESIGN.md section 5).
 * Commands on stdin, one per line:
 *   maps                          -> one line per map: "map <name> <type> <keysize> <valsize> <max>", then "ok"
 *   reset                         -> clear all maps
 *   set <map> <keyhex> <valhex>   -> ok
 *   del <map> <keyhex>            -> ok
 *   get <map> <keyhex>            -> "val <hex>" | "none"
 *   time <ns>                     -> ok            (value returned by bpf_ktime_get_ns)
 *   run <prog> <pkthex> [tail]    -> "verdict <n> <pkthex-after> <aux>"   (tail = extra writable bytes after the frame)
 */
#ifndef VERIF_VMAPS_H
#define VERIF_VMAPS_H
#include <stdio.h>
#include <stdlib.h>
#include <string.h>
#include <sys/mman.h>
#include <linux/bpf.h>

struct vent { unsigned char *k, *v; struct vent *next; };
struct vmap { const char *name; void *addr; int type; unsigned ks, vs, max; struct vent *head; };
static struct vmap g_maps[32];
static int g_nmaps;
static __u64 g_time;
static unsigned g_events;

#define KSZ(m) ((unsigned)sizeof(*(m).key))
#define VSZ(m) ((unsigned)sizeof(*(m).value))
#define MTYPE(m) ((int)(sizeof(*(m).type) / sizeof(int)))
#define MMAX(m) ((unsigned)(sizeof(*(m).max_entries) / sizeof(int)))
#define REGISTER(m) vmap_register(#m, &(m), MTYPE(m), KSZ(m), VSZ(m), MMAX(m))
#define REGISTER_SIZES(m, ks, vs) vmap_register(#m, &(m), MTYPE(m), ks, vs, 0)

static void vmap_register(const char *name, void *addr, int type, unsigned ks, unsigned vs, unsigned max) {
	struct vmap *m = &g_maps[g_nmaps++];
	m->name = name; m->addr = addr; m->type = type; m->ks = ks; m->vs = vs; m->max = max; m->head = NULL;
}
static struct vmap *vmap_by_addr(void *a) { for (int i = 0; i < g_nmaps; i++) if (g_maps[i].addr == a) return &g_maps[i]; return NULL; }
static struct vmap *vmap_by_name(const char *n) { for (int i = 0; i < g_nmaps; i++) if (!strcmp(g_maps[i].name, n)) return &g_maps[i]; return NULL; }
static int is_array(struct vmap *m) { return m->type == BPF_MAP_TYPE_ARRAY || m->type == BPF_MAP_TYPE_PERCPU_ARRAY; }

static struct vent *vmap_find(struct vmap *m, const void *key) {
	for (struct vent *e = m->head; e; e = e->next) if (!memcmp(e->k, key, m->ks)) return e;
	return NULL;
}
static struct vent *vmap_insert(struct vmap *m, const void *key) {
	struct vent *e = calloc(1, sizeof *e);
	e->k = malloc(m->ks); memcpy(e->k, key, m->ks);
	e->v = calloc(1, m->vs ? m->vs : 1);
	e->next = m->head; m->head = e;
	return e;
}
static int prefix_match(const unsigned char *a, const unsigned char *b, unsigned bits) {
	unsigned full = bits / 8, rem = bits % 8;
	if (memcmp(a, b, full)) return 0;
	if (rem) { unsigned char mask = (unsigned char)(0xff << (8 - rem)); if ((a[full] & mask) != (b[full] & mask)) return 0; }
	return 1;
}
void *bpf_map_lookup_elem(void *map, const void *key) {
	struct vmap *m = vmap_by_addr(map);
	if (!m) return NULL;
	if (is_array(m)) {
		__u32 idx = *(const __u32 *)key;
		if (idx >= m->max) return NULL;
		struct vent *e = vmap_find(m, key);
		if (!e) e = vmap_insert(m, key); /* array slots always exist, zero-filled */
		return e->v;
	}
	if (m->type == BPF_MAP_TYPE_LPM_TRIE) {
		const unsigned char *k = key; __u32 want = *(const __u32 *)k; struct vent *best = NULL; __u32 bestlen = 0;
		for (struct vent *e = m->head; e; e = e->next) {
			__u32 plen = *(__u32 *)e->k;
			if (plen <= want && prefix_match(e->k + 4, k + 4, plen) && (!best || plen > bestlen)) { best = e; bestlen = plen; }
		}
		return best ? best->v : NULL;
	}
	struct vent *e = vmap_find(m, key);
	return e ? e->v : NULL;
}
long bpf_map_update_elem(void *map, const void *key, const void *value, __u64 flags) {
	struct vmap *m = vmap_by_addr(map);
	if (!m) return -1;
	struct vent *e = vmap_find(m, key);
	if (e && flags == BPF_NOEXIST) return -17;
	if (!e && flags == BPF_EXIST) return -2;
	if (!e) e = vmap_insert(m, key);
	memcpy(e->v, value, m->vs);
	return 0;
}
long bpf_map_delete_elem(void *map, const void *key) {
	struct vmap *m = vmap_by_addr(map);
	if (!m) return -1;
	for (struct vent **p = &m->head; *p; p = &(*p)->next)
		if (!memcmp((*p)->k, key, m->ks)) { struct vent *d = *p; *p = d->next; free(d->k); free(d->v); free(d); return 0; }
	return -2;
}
__u64 bpf_ktime_get_ns(void) { return g_time; }
long bpf_perf_event_output(void *ctx, void *map, __u64 flags, void *data, __u64 size) { g_events++; return 0; }
static unsigned char g_ringbuf[4096];
void *bpf_ringbuf_reserve(void *ringbuf, __u64 size, __u64 flags) { return size <= sizeof g_ringbuf ? g_ringbuf : NULL; }
void bpf_ringbuf_submit(void *data, __u64 flags) { g_events++; }

static int hexval(int c) { return c >= '0' && c <= '9' ? c - '0' : c >= 'a' && c <= 'f' ? c - 'a' + 10 : c >= 'A' && c <= 'F' ? c - 'A' + 10 : -1; }
static int unhex(const char *s, unsigned char *out, int max) {
	int n = 0;
	if (!strcmp(s, "-")) return 0;
	while (s[0] && s[1] && n < max) { int a = hexval(s[0]), b = hexval(s[1]); if (a < 0 || b < 0) return -1; out[n++] = (unsigned char)(a * 16 + b); s += 2; }
	return n;
}
static void puthex(const unsigned char *b, int n) { if (n == 0) { printf("-"); return; } for (int i = 0; i < n; i++) printf("%02x", b[i]); }

/* packet buffer below 4 GiB: struct xdp_md / __sk_buff carry 32-bit data pointers */
static unsigned char *g_pkt;
#define PKT_AREA 8192
#define PKT_HEADROOM 256
static void pkt_init(void) {
	g_pkt = mmap(NULL, PKT_AREA, PROT_READ | PROT_WRITE, MAP_PRIVATE | MAP_ANONYMOUS | MAP_32BIT, -1, 0);
	if (g_pkt == MAP_FAILED) { perror("mmap"); exit(3); }
}

/* provided by the per-program driver */
static void register_maps(void);
static int run_prog(const char *prog, unsigned char *pkt, int len, int tail, int *newlen, unsigned *aux);

static void vmap_reset(void) {
	for (int i = 0; i < g_nmaps; i++) {
		struct vent *e = g_maps[i].head;
		while (e) { struct vent *n = e->next; free(e->k); free(e->v); free(e); e = n; }
		g_maps[i].head = NULL;
	}
	g_events = 0;
}

int main(void) {
	static char line[70000], a[64], b[33000], c[33000];
	static unsigned char kb[1024], vb[4096];
	setvbuf(stdout, NULL, _IOLBF, 0);
	pkt_init();
	register_maps();
	while (fgets(line, sizeof line, stdin)) {
		a[0] = b[0] = c[0] = 0;
		char cmd[16] = {0};
		int n = sscanf(line, "%15s %63s %32999s %32999s", cmd, a, b, c);
		if (n < 1) continue;
		if (!strcmp(cmd, "maps")) {
			for (int i = 0; i < g_nmaps; i++) printf("map %s %d %u %u %u\n", g_maps[i].name, g_maps[i].type, g_maps[i].ks, g_maps[i].vs, g_maps[i].max);
			printf("ok\n");
		} else if (!strcmp(cmd, "reset")) { vmap_reset(); printf("ok\n");
		} else if (!strcmp(cmd, "time")) { g_time = strtoull(a, NULL, 10); printf("ok\n");
		} else if (!strcmp(cmd, "set") || !strcmp(cmd, "del") || !strcmp(cmd, "get")) {
			struct vmap *m = vmap_by_name(a);
			if (!m) { printf("err nomap\n"); continue; }
			if (unhex(b, kb, sizeof kb) != (int)m->ks) { printf("err keysize %u\n", m->ks); continue; }
			if (cmd[0] == 's') {
				if (unhex(c, vb, sizeof vb) != (int)m->vs) { printf("err valsize %u\n", m->vs); continue; }
				struct vent *e = vmap_find(m, kb); if (!e) e = vmap_insert(m, kb);
				memcpy(e->v, vb, m->vs); printf("ok\n");
			} else if (cmd[0] == 'd') { bpf_map_delete_elem(m->addr, kb); printf("ok\n");
			} else {
				struct vent *e = vmap_find(m, kb);
				if (!e) printf("none\n"); else { printf("val "); puthex(e->v, m->vs); printf("\n"); }
			}
		} else if (!strcmp(cmd, "run")) {
			int tail = c[0] ? atoi(c) : 0;
			memset(g_pkt, 0xEE, PKT_AREA);
			int len = unhex(b, g_pkt + PKT_HEADROOM, PKT_AREA - PKT_HEADROOM - 1024);
			if (len < 0) { printf("err hex\n"); continue; }
			int newlen = len; unsigned aux = 0;
			int v = run_prog(a, g_pkt + PKT_HEADROOM, len, tail, &newlen, &aux);
			printf("verdict %d ", v); puthex(g_pkt + PKT_HEADROOM, newlen); printf(" %u\n", aux);
		} else printf("err cmd\n");
	}
	return 0;
}
#endif
