#include "qos_ratelimit.c"
#include "vmaps.h"
static void register_maps(void) {
	REGISTER(qos_egress);
	REGISTER(qos_ingress);
	REGISTER(qos_stats_map);
}
long bpf_xdp_adjust_tail(void *x, int d) { return -1; }
static int run_prog(const char *prog, unsigned char *pkt, int len, int tail, int *newlen, unsigned *aux) {
	struct __sk_buff skb; memset(&skb, 0, sizeof skb);
	skb.data = (__u32)(unsigned long)pkt; skb.data_end = (__u32)(unsigned long)(pkt + len);
	skb.len = tail > 0 ? (__u32)tail : (__u32)len; /* tail>0: wire length of a frame whose linear part is len */
	int v = !strcmp(prog, "egress") ? qos_egress_prog(&skb) : qos_ingress_prog(&skb);
	*aux = skb.priority;
	return v;
}
