#include "nat44.c"
#include "vmaps.h"
/* Native driver of bpf/nat44.c (family X13). Besides the two TC programs ("egress", "ingress") and the XDP hairpin
 * detector ("xdp") it answers two read-only pseudo programs whose answers are produced by THIS compilation's view of
 * the structs declared in nat44.c (so the layout is the C compiler's, not the harness'):
 *   view : frame = 4 address bytes in wire order -> 1 byte found, then public_ip (4 raw bytes), port_start, port_end
 *          (2 bytes big-endian each), next_port (4 bytes big-endian) of subscriber_nat[that address as ip->saddr reads it]
 *   dump : every entry of nat_sessions / nat_reverse / eim_table / subscriber_nat that can influence a later verdict,
 *          one text line each (counters and timestamps left out) */
static void register_maps(void) {
	REGISTER(nat_sessions);
	REGISTER(nat_reverse);
	REGISTER(eim_table);
	REGISTER(subscriber_nat);
	REGISTER(nat_pool);
	REGISTER(hairpin_ips);
	REGISTER(nat_config_map);
	REGISTER(nat_stats_map);
	REGISTER(alg_ports);
	REGISTER(nat_private_ranges);
}
long bpf_xdp_adjust_tail(void *x, int d) { return -1; }
static int put16(unsigned char *p, unsigned v) { p[0] = (unsigned char)(v >> 8); p[1] = (unsigned char)v; return 2; }
static int put32(unsigned char *p, unsigned v) { put16(p, v >> 16); put16(p + 2, v & 0xffff); return 4; }
static int run_prog(const char *prog, unsigned char *pkt, int len, int tail, int *newlen, unsigned *aux) {
	*aux = 0;
	if (!strcmp(prog, "view")) {
		__u32 key; memcpy(&key, pkt, 4);
		struct subscriber_nat *s = bpf_map_lookup_elem(&subscriber_nat, &key);
		memset(pkt, 0, 13);
		if (s) {
			pkt[0] = 1; memcpy(pkt + 1, &s->block.public_ip, 4);
			put16(pkt + 5, s->block.port_start); put16(pkt + 7, s->block.port_end); put32(pkt + 9, s->block.next_port);
		}
		*newlen = 13;
		return 0;
	}
	if (!strcmp(prog, "dump")) {
		char *o = (char *)pkt; int n = 0, cap = PKT_AREA - PKT_HEADROOM - 64;
		struct vmap *m;
		if ((m = vmap_by_addr(&nat_sessions))) for (struct vent *e = m->head; e && n < cap - 200; e = e->next) {
			struct nat_key *k = (void *)e->k; struct nat_session *v = (void *)e->v;
			n += snprintf(o + n, cap - n, "S %08x>%08x %04x>%04x %u = %08x:%04x o %08x:%04x h%u\n", k->src_ip, k->dst_ip, k->src_port, k->dst_port, k->protocol,
				v->nat_ip, v->nat_port, v->orig_ip, v->orig_port, v->is_hairpin);
		}
		if ((m = vmap_by_addr(&nat_reverse))) for (struct vent *e = m->head; e && n < cap - 200; e = e->next) {
			struct nat_key *k = (void *)e->k; struct nat_key *v = (void *)e->v;
			n += snprintf(o + n, cap - n, "R %08x>%08x %04x>%04x %u = %08x>%08x %04x>%04x %u\n", k->src_ip, k->dst_ip, k->src_port, k->dst_port, k->protocol,
				v->src_ip, v->dst_ip, v->src_port, v->dst_port, v->protocol);
		}
		if ((m = vmap_by_addr(&eim_table))) for (struct vent *e = m->head; e && n < cap - 200; e = e->next) {
			struct eim_key *k = (void *)e->k; struct eim_mapping *v = (void *)e->v;
			n += snprintf(o + n, cap - n, "E %08x:%04x %u = %08x:%04x\n", k->internal_ip, k->internal_port, k->protocol, v->external_ip, v->external_port);
		}
		if ((m = vmap_by_addr(&subscriber_nat))) for (struct vent *e = m->head; e && n < cap - 200; e = e->next) {
			__u32 *k = (void *)e->k; struct subscriber_nat *v = (void *)e->v;
			n += snprintf(o + n, cap - n, "B %08x = %08x %u-%u next %u\n", *k, v->block.public_ip, v->block.port_start, v->block.port_end, v->block.next_port);
		}
		*newlen = n;
		*aux = (m = vmap_by_addr(&nat_sessions)) ? 1 : 0;
		return 0;
	}
	if (!strcmp(prog, "xdp")) {
		struct xdp_md ctx; memset(&ctx, 0, sizeof ctx);
		ctx.data = (__u32)(unsigned long)pkt; ctx.data_end = (__u32)(unsigned long)(pkt + len);
		return nat44_hairpin_xdp(&ctx);
	}
	struct __sk_buff skb; memset(&skb, 0, sizeof skb);
	skb.data = (__u32)(unsigned long)pkt; skb.data_end = (__u32)(unsigned long)(pkt + len); skb.len = (__u32)len;
	return !strcmp(prog, "egress") ? nat44_egress(&skb) : nat44_ingress(&skb);
}
