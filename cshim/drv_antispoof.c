#include "antispoof.c"
#include "vmaps.h"
static void register_maps(void) {
	REGISTER(subscriber_bindings);
	REGISTER(antispoof_config);
	REGISTER(antispoof_stats);
	REGISTER(allowed_ranges_v4);
	REGISTER_SIZES(spoof_events, 4, 4);
}
long bpf_xdp_adjust_tail(void *x, int d) { return -1; }
static int run_prog(const char *prog, unsigned char *pkt, int len, int tail, int *newlen, unsigned *aux) {
	struct __sk_buff skb; memset(&skb, 0, sizeof skb);
	skb.data = (__u32)(unsigned long)pkt; skb.data_end = (__u32)(unsigned long)(pkt + len); skb.len = (__u32)len;
	*aux = 0;
	return antispoof_ingress(&skb);
}
