//go:build verif

// Package nat44 binds the fourth kernel program bpf/nat44.c (compiled natively, cshim/drv_nat44.c) and the part of the
// real nat.Manager that feeds its maps to the Nat44 contract (extra family X13). The manager decides the port blocks and
// writes nat_config_map / alg_ports / hairpin_ips (and, in the mgr systems, subscriber_nat) through cilium/ebpf into REAL
// kernel maps created with the sizes the C source declares; the raw bytes are mirrored into the native program; frames
// are run through nat44_egress / nat44_ingress and the frame that comes out is projected (trusted byte-level step).
package nat44

import (
	"encoding/binary"
	"fmt"
	"net"
	"reflect"
	"sort"
	"strings"
	"sync"

	"github.com/cilium/ebpf"
	bngnat "github.com/codelaboratoryltd/bng/pkg/nat"
	"go.uber.org/zap"

	"verifharness/bpfnative"
	"verifharness/core"
)

var (
	DriverPath string
	poolMu     sync.Mutex
	pool       []*bpfnative.Driver
	mapInfos   []bpfnative.MapInfo
)

func getDriver() *bpfnative.Driver {
	poolMu.Lock()
	if n := len(pool); n > 0 {
		d := pool[n-1]
		pool = pool[:n-1]
		poolMu.Unlock()
		if err := d.Reset(); err != nil {
			panic(err)
		}
		return d
	}
	poolMu.Unlock()
	d, err := bpfnative.Start(DriverPath)
	if err != nil {
		panic(err)
	}
	return d
}
func putDriver(d *bpfnative.Driver) { poolMu.Lock(); pool = append(pool, d); poolMu.Unlock() }

// constants of the alphabet (none of the addresses reads the same backwards)
var (
	priv    = []net.IP{nil, net.IPv4(10, 0, 1, 2).To4(), net.IPv4(10, 0, 1, 3).To4(), net.IPv4(10, 0, 1, 4).To4()}
	pubs    = []net.IP{nil, net.IPv4(203, 0, 113, 1).To4(), net.IPv4(203, 0, 113, 2).To4()}
	privPrt = []int{0, 5004, 40001} // 5004 = 0x138c (even, high byte odd); 40001 = 0x9c41 (odd, high byte even)
	remIP   = []net.IP{nil, net.IPv4(198, 51, 100, 7).To4(), net.IPv4(198, 51, 100, 9).To4(), nil}
	remPrt  = []int{0, 53, 21, 53}
)

// Cfg is the configuration of one system (also the constants handed to the specification).
type Cfg struct {
	Impl    string `json:"impl"`
	Writer  string `json:"writer"` // "native": subscriber_nat encoded as nat44.c declares it | "mgr": written by nat.Manager into a map of the C size | "mgrpad": into a map of the size Go marshals, zero-padded when mirrored
	Lo      int    `json:"lo"`
	Hi      int    `json:"hi"`
	PPS     int    `json:"pps"`
	NPub    int    `json:"npub"`
	Eim     bool   `json:"eim"`
	Parity  bool   `json:"parity"`
	Hairpin bool   `json:"hairpin"`
	Alg     bool   `json:"alg"`
	Protos  []int  `json:"protos"`
	NSub    int    `json:"nsub"`  // subscribers that can be given a block (1..NSub); address NSub+1 never has one
	NP      int    `json:"np"`    // private ports used
	ND      int    `json:"nd"`    // remote endpoints used
	Dealloc bool   `json:"dealloc"`
	NSubs   int    `json:"nsubs"`
}

type Sys struct {
	C      Cfg
	name   string
	events []core.Event
}

func NewSys(name string, c Cfg) *Sys {
	s := &Sys{C: c, name: name}
	for i := 1; i <= c.NSub; i++ {
		s.events = append(s.events, core.Event{"op": "ALLOC", "s": i})
		if c.Dealloc {
			s.events = append(s.events, core.Event{"op": "DEALLOC", "s": i})
		}
	}
	for _, pr := range c.Protos {
		for i := 1; i <= c.NSub+1; i++ {
			for p := 1; p <= c.NP; p++ {
				for d := 1; d <= c.ND; d++ {
					s.events = append(s.events, core.Event{"op": "OUT", "s": i, "p": p, "d": d, "pr": pr})
				}
			}
		}
		for k := 1; k <= c.NPub; k++ {
			for port := c.Lo; port <= c.Hi+1; port++ {
				for d := 1; d <= c.ND; d++ {
					s.events = append(s.events, core.Event{"op": "IN", "pub": k, "port": port, "d": d, "pr": pr})
				}
			}
		}
	}
	return s
}
func (s *Sys) Name() string { return s.name }
func (s *Sys) Config() map[string]any {
	c := s.C
	algd := []int{} // remote endpoints whose port has an ALG trigger entry (FTP control, TCP 21)
	if c.Alg {
		algd = []int{2}
	}
	return map[string]any{"impl": c.Impl, "writer": c.Writer, "lo": c.Lo, "hi": c.Hi, "pps": c.PPS, "npub": c.NPub, "eim": c.Eim, "parity": c.Parity,
		"hairpin": c.Hairpin, "alg": c.Alg, "protos": c.Protos, "nsub": c.NSub, "np": c.NP, "nd": c.ND, "dealloc": c.Dealloc, "nsubs": 0,
		"privports": privPrt[1 : c.NP+1], "algd": algd}
}
func (s *Sys) Events() []core.Event { return s.events }

type inst struct {
	s    *Sys
	mgr  *bngnat.Manager
	drv  *bpfnative.Driver
	maps map[string]*ebpf.Map
	last map[string]map[string]string
}

func mapInfo(name string) bpfnative.MapInfo {
	for _, mi := range mapInfos {
		if mi.Name == name {
			return mi
		}
	}
	panic("no map " + name + " in the native program")
}

func (s *Sys) New() core.Instance {
	c := s.C
	mgr, err := bngnat.NewManager(bngnat.ManagerConfig{Interface: "verif0", PortsPerSubscriber: c.PPS, PortRangeStart: c.Lo, PortRangeEnd: c.Hi,
		EnableEIM: c.Eim, EnablePortParity: c.Parity, EnableHairpin: c.Hairpin, EnableFTPALG: c.Alg}, zap.NewNop())
	if err != nil {
		panic(err)
	}
	in := &inst{s: s, mgr: mgr, drv: getDriver(), maps: map[string]*ebpf.Map{}, last: map[string]map[string]string{}}
	fields := map[string]string{"nat_config_map": "natConfigMap", "alg_ports": "algPorts", "hairpin_ips": "hairpinIPs"}
	if c.Writer != "native" {
		fields["subscriber_nat"] = "subscriberNAT"
	}
	for name, f := range fields {
		mi := mapInfo(name)
		if name == "subscriber_nat" && c.Writer == "mgrpad" {
			mi.ValueSize = binary.Size(bngnat.SubscriberNAT{})
		}
		km, err := bpfnative.NewKernelMap(mi)
		if err != nil {
			panic(fmt.Sprintf("cannot create kernel map %s: %v", name, err))
		}
		in.maps[name] = km
		core.Field(mgr, f).Set(reflect.ValueOf(km))
	}
	for k := 1; k <= c.NPub; k++ {
		if err := mgr.AddPublicIP(pubs[k]); err != nil {
			panic(err)
		}
	}
	// Manager.Start (needs the compiled object and a network interface) writes exactly this entry: flags from buildFlags(),
	// which is read back here from the pool entry AddPublicIP stamped with it, so the flag bits are the real code's.
	flags := mgr.GetPoolStats()[0].Flags
	ncfg := bngnat.NATConfig{Flags: flags, PortRangeStart: uint16(c.Lo), PortRangeEnd: uint16(c.Hi), DefaultPortsPerSub: uint32(c.PPS)}
	var zero uint32
	if err := in.maps["nat_config_map"].Put(&zero, &ncfg); err != nil {
		panic(err)
	}
	if c.Alg {
		if err := mgr.ConfigureALG(21, 6, bngnat.ALGTypeFTP, true); err != nil {
			panic(err)
		}
	}
	in.mirror()
	return in
}

// mirror carries the changes of the kernel maps (and only those) over to the native program, so that fields the C
// program updates itself (next_port) survive until the manager writes the entry again - as with one shared kernel map.
func (in *inst) mirror() {
	for name, km := range in.maps {
		cur, err := bpfnative.Dump(km)
		if err != nil {
			panic(err)
		}
		now := map[string]string{}
		for _, kv := range cur {
			now[string(kv[0])] = string(kv[1])
		}
		old := in.last[name]
		for k := range old {
			if _, ok := now[k]; !ok {
				if err := in.drv.Del(name, []byte(k)); err != nil {
					panic(err)
				}
			}
		}
		want := mapInfo(name).ValueSize
		for k, v := range now {
			if ov, ok := old[k]; ok && ov == v {
				continue
			}
			vb := []byte(v)
			for len(vb) < want { // mgrpad only
				vb = append(vb, 0)
			}
			if err := in.drv.Set(name, []byte(k), vb); err != nil {
				panic(err)
			}
		}
		in.last[name] = now
	}
}

func toInt(v any) int {
	switch x := v.(type) {
	case int:
		return x
	case float64:
		return int(x)
	}
	return 0
}

func pubIndex(ip []byte) int {
	for k := 1; k < len(pubs); k++ {
		if net.IP(ip).Equal(pubs[k]) {
			return k
		}
	}
	return -1
}
func privIndex(ip []byte) int {
	for k := 1; k < len(priv); k++ {
		if net.IP(ip).Equal(priv[k]) {
			return k
		}
	}
	return -1
}

// encodeNative lays a subscriber_nat value out as bpf/nat44.c declares struct subscriber_nat (x86-64 / BPF ABI).
func encodeNative(a *bngnat.Allocation, pps int) []byte {
	v := make([]byte, mapInfo("subscriber_nat").ValueSize)
	copy(v[0:4], a.PublicIP.To4())
	binary.LittleEndian.PutUint16(v[4:], a.PortStart)
	binary.LittleEndian.PutUint16(v[6:], a.PortEnd)
	binary.LittleEndian.PutUint32(v[8:], uint32(a.PortStart))
	binary.LittleEndian.PutUint32(v[24:], a.SubscriberID)
	l := 0
	for n := pps; n > 1; n >>= 1 {
		l++
	}
	v[28] = byte(l)
	return v
}

func (in *inst) Apply(ev core.Event) map[string]any {
	c := in.s.C
	switch op := ev["op"].(string); op {
	case "ALLOC":
		s := toInt(ev["s"])
		had := in.mgr.GetAllocation(priv[s]) != nil
		a, err := in.mgr.AllocateNAT(priv[s])
		if err != nil {
			in.mirror()
			return map[string]any{"ok": false, "pubx": 0, "blo": 0, "bhi": 0, "err": err.Error()}
		}
		if c.Writer == "native" && !had {
			if err := in.drv.Set("subscriber_nat", []byte(priv[s]), encodeNative(a, c.PPS)); err != nil {
				panic(err)
			}
		}
		in.mirror()
		return map[string]any{"ok": true, "pubx": pubIndex(a.PublicIP.To4()), "blo": int(a.PortStart), "bhi": int(a.PortEnd), "err": ""}
	case "DEALLOC":
		s := toInt(ev["s"])
		err := in.mgr.DeallocateNAT(priv[s])
		if c.Writer == "native" {
			if e := in.drv.Del("subscriber_nat", []byte(priv[s])); e != nil {
				panic(e)
			}
		}
		in.mirror()
		return map[string]any{"ok": err == nil, "pubx": 0, "blo": 0, "bhi": 0, "err": ""}
	case "OUT":
		s, p, d, pr := toInt(ev["s"]), toInt(ev["p"]), toInt(ev["d"]), toInt(ev["pr"])
		dip := remIP[d]
		if dip == nil {
			dip = pubs[1] // d = 3: one of the gateway's own public addresses (hairpin)
		}
		f := buildFrame(priv[s], dip, privPrt[p], remPrt[d], pr, false)
		v, after, _, err := in.drv.Run("egress", f, 0)
		if err != nil {
			panic(err)
		}
		return project(f, after, v, true)
	case "IN":
		k, port, d, pr := toInt(ev["pub"]), toInt(ev["port"]), toInt(ev["d"]), toInt(ev["pr"])
		sip := remIP[d]
		if sip == nil {
			sip = pubs[1]
		}
		f := buildFrame(sip, pubs[k], remPrt[d], port, pr, true)
		v, after, _, err := in.drv.Run("ingress", f, 0)
		if err != nil {
			panic(err)
		}
		return project(f, after, v, false)
	default:
		panic("unknown op " + op)
	}
}

// ---- frames (trusted byte-level step) ----

func csum(b []byte, init uint32) uint16 {
	sum := init
	for i := 0; i+1 < len(b); i += 2 {
		sum += uint32(b[i])<<8 | uint32(b[i+1])
	}
	if len(b)%2 == 1 {
		sum += uint32(b[len(b)-1]) << 8
	}
	for sum>>16 != 0 {
		sum = sum&0xffff + sum>>16
	}
	return ^uint16(sum)
}

func pseudo(ip []byte, l4len int) uint32 {
	var s uint32
	for i := 12; i < 20; i += 2 {
		s += uint32(ip[i])<<8 | uint32(ip[i+1])
	}
	return s + uint32(ip[9]) + uint32(l4len)
}

// buildFrame: Ethernet + IPv4 (no options) + UDP / TCP / ICMP echo with correct checksums. For ICMP the "port" of the
// subscriber side is the echo identifier (request outbound, reply inbound).
func buildFrame(src, dst net.IP, sport, dport, proto int, inbound bool) []byte {
	var l4 []byte
	switch proto {
	case 17:
		l4 = make([]byte, 12)
		binary.BigEndian.PutUint16(l4[0:], uint16(sport))
		binary.BigEndian.PutUint16(l4[2:], uint16(dport))
		binary.BigEndian.PutUint16(l4[4:], 12)
		copy(l4[8:], "ping")
	case 6:
		l4 = make([]byte, 24)
		binary.BigEndian.PutUint16(l4[0:], uint16(sport))
		binary.BigEndian.PutUint16(l4[2:], uint16(dport))
		binary.BigEndian.PutUint32(l4[4:], 0x01020304)
		l4[12] = 5 << 4
		l4[13] = 0x02 // SYN
		if inbound {
			l4[13] = 0x12
		}
		binary.BigEndian.PutUint16(l4[14:], 65535)
		copy(l4[20:], "data")
	case 1:
		l4 = make([]byte, 12)
		l4[0] = 8
		id := sport
		if inbound {
			l4[0] = 0
			id = dport
		}
		binary.BigEndian.PutUint16(l4[4:], uint16(id))
		binary.BigEndian.PutUint16(l4[6:], 1)
		copy(l4[8:], "echo")
	}
	ip := make([]byte, 20)
	ip[0], ip[8], ip[9] = 0x45, 64, byte(proto)
	binary.BigEndian.PutUint16(ip[2:], uint16(20+len(l4)))
	binary.BigEndian.PutUint16(ip[4:], 0x1234)
	copy(ip[12:16], src.To4())
	copy(ip[16:20], dst.To4())
	binary.BigEndian.PutUint16(ip[10:], csum(ip, 0))
	switch proto {
	case 17:
		c := csum(l4, pseudo(ip, len(l4)))
		if c == 0 {
			c = 0xffff
		}
		binary.BigEndian.PutUint16(l4[6:], c)
	case 6:
		binary.BigEndian.PutUint16(l4[16:], csum(l4, pseudo(ip, len(l4))))
	case 1:
		binary.BigEndian.PutUint16(l4[2:], csum(l4, 0))
	}
	eth := make([]byte, 14)
	copy(eth[0:6], []byte{0x02, 0xff, 0, 0, 0, 1})
	copy(eth[6:12], []byte{0x02, 0x11, 0x22, 0x33, 0x44, 0x55})
	binary.BigEndian.PutUint16(eth[12:], 0x0800)
	return append(append(eth, ip...), l4...)
}

// project describes the frame that came out relative to the one that went in.
//   same: byte-identical; xip/xport: the (source if egress, destination if ingress) address as index (k > 0: public
//   address k on egress / private address k on ingress, 0: unchanged, -1: anything else) and port (or echo id);
//   rest: every byte outside that address, that port and the two checksums is unchanged; ipck/l4ck: checksums verify.
func project(before, after []byte, verdict int, egress bool) map[string]any {
	r := map[string]any{"v": verdict, "same": string(before) == string(after), "xip": 0, "xport": 0, "rest": true, "ipck": true, "l4ck": true}
	if len(after) != len(before) {
		r["rest"] = false
		return r
	}
	ipb, ipa := before[14:34], after[14:34]
	proto := int(ipb[9])
	ao, po, co := 12, 0, 6 // address offset in ip, port offset in l4, checksum offset in l4
	if !egress {
		ao, po = 16, 2
	}
	switch proto {
	case 6:
		co = 16
	case 1:
		po, co = 4, 2
	}
	l4a := after[34:]
	if string(ipa[ao:ao+4]) != string(ipb[ao:ao+4]) {
		if egress {
			r["xip"] = pubIndex(ipa[ao : ao+4])
		} else {
			r["xip"] = privIndex(ipa[ao : ao+4])
		}
	}
	r["xport"] = int(binary.BigEndian.Uint16(l4a[po:]))
	mask := func(f []byte) []byte {
		m := append([]byte{}, f...)
		for _, o := range []int{14 + ao, 14 + ao + 1, 14 + ao + 2, 14 + ao + 3, 14 + 10, 14 + 11, 34 + po, 34 + po + 1, 34 + co, 34 + co + 1} {
			m[o] = 0
		}
		return m
	}
	r["rest"] = string(mask(before)) == string(mask(after))
	r["ipck"] = csum(ipa, 0) == 0
	switch proto {
	case 17, 6:
		r["l4ck"] = csum(l4a, pseudo(ipa, len(l4a))) == 0
	case 1:
		r["l4ck"] = csum(l4a, 0) == 0
	}
	return r
}

// Observe: per address 1..NSub+1 what the manager says it allocated and what the C program sees under that address.
func (in *inst) Observe() map[string]any {
	in.mirror()
	n := in.s.C.NSub + 1
	mg := make([]map[string]any, n)
	cv := make([]map[string]any, n)
	for s := 1; s <= n; s++ {
		m := map[string]any{"has": false, "pubx": 0, "blo": 0, "bhi": 0}
		if a := in.mgr.GetAllocation(priv[s]); a != nil {
			m = map[string]any{"has": true, "pubx": pubIndex(a.PublicIP.To4()), "blo": int(a.PortStart), "bhi": int(a.PortEnd)}
		}
		mg[s-1] = m
		_, out, _, err := in.drv.Run("view", []byte(priv[s]), 0)
		if err != nil {
			panic(err)
		}
		v := map[string]any{"has": false, "pubx": 0, "blo": 0, "bhi": 0, "next": 0}
		if len(out) == 13 && out[0] == 1 {
			v = map[string]any{"has": true, "pubx": pubIndex(out[1:5]), "blo": int(binary.BigEndian.Uint16(out[5:])), "bhi": int(binary.BigEndian.Uint16(out[7:])),
				"next": int(binary.BigEndian.Uint32(out[9:]))}
		}
		cv[s-1] = v
	}
	return map[string]any{"mgr": mg, "cview": cv}
}

func (in *inst) Fingerprint() string {
	_, out, _, err := in.drv.Run("dump", []byte{0}, 0)
	if err != nil {
		panic(err)
	}
	lines := strings.Split(strings.TrimSpace(string(out)), "\n")
	sort.Strings(lines)
	var parts []string
	for name, km := range in.maps {
		d, err := bpfnative.Dump(km)
		if err != nil {
			panic(err)
		}
		var es []string
		for _, kv := range d {
			v := kv[1]
			if name == "subscriber_nat" && len(v) >= 20 { // allocation timestamp left out
				v = append(append([]byte{}, v[:12]...), v[20:]...)
			}
			es = append(es, fmt.Sprintf("%x=%x", kv[0], v))
		}
		sort.Strings(es)
		parts = append(parts, name+":"+strings.Join(es, ","))
	}
	sort.Strings(parts)
	var al []string
	for s := 1; s <= in.s.C.NSub+1; s++ {
		if a := in.mgr.GetAllocation(priv[s]); a != nil {
			al = append(al, fmt.Sprintf("%d:%s:%d-%d", s, a.PublicIP, a.PortStart, a.PortEnd))
		}
	}
	return strings.Join(lines, ";") + "|" + strings.Join(parts, "|") + "|" + strings.Join(al, ",")
}

func (in *inst) Probe() map[string]any { return nil }
func (in *inst) Close() {
	for _, km := range in.maps {
		km.Close()
	}
	putDriver(in.drv)
}
