//go:build verif

package nat44

import (
	"encoding/json"
	"fmt"
	"math/rand"
	"os"
	"strings"
	"testing"

	"verifharness/bpfnative"
	"verifharness/core"
)

type replayCase struct {
	ID     string          `json:"id"`
	System string          `json:"system"`
	Events []core.Event    `json:"events"`
	Cfg    json.RawMessage `json:"cfg"`
}
type replayFile struct {
	Cases []replayCase `json:"cases"`
}
type runStats struct {
	Systems     int                `json:"systems"`
	Nodes       int                `json:"nodes"`
	Edges       int                `json:"edges"`
	Chains      int                `json:"chains"`
	ChainEvents int                `json:"chain_events"`
	Closed      int                `json:"closed_systems"`
	Panics      []core.PanicRecord `json:"panics"`
}

func setup(t *testing.T, out string) {
	p, err := bpfnative.Build("nat44", out)
	if err != nil {
		t.Fatal(err)
	}
	DriverPath = p
	d, err := bpfnative.Start(p)
	if err != nil {
		t.Fatal(err)
	}
	mapInfos, err = d.Maps()
	if err != nil {
		t.Fatal(err)
	}
	putDriver(d)
}

func base(impl string) Cfg {
	return Cfg{Impl: impl, Writer: "native", Lo: 1024, Hi: 1027, PPS: 2, NPub: 1, Protos: []int{17}, NSub: 2, NP: 2, ND: 2}
}

type sysDef struct {
	name  string
	c     Cfg
	depth [2]int // quick, thorough
	nodes [2]int
}

func systems() []sysDef {
	var out []sysDef
	add := func(name string, depth, nodes [2]int, f func(c *Cfg)) {
		c := base(strings.SplitN(name, "/", 2)[0])
		f(&c)
		out = append(out, sysDef{name, c, depth, nodes})
	}
	// the data plane alone on blocks decided by the real manager, encoded as the C source declares them
	add("dp-udp/pps2", [2]int{4, 5}, [2]int{1500, 12000}, func(c *Cfg) { c.NSub = 1 })
	add("dp-udp2/pps2", [2]int{3, 4}, [2]int{1500, 12000}, func(c *Cfg) { c.NP = 1; c.ND = 1 })
	add("dp-eim/pps2", [2]int{3, 4}, [2]int{1500, 12000}, func(c *Cfg) { c.Eim = true; c.NSub = 1 })
	add("dp-tcp-alg/pps2", [2]int{3, 4}, [2]int{1500, 12000}, func(c *Cfg) { c.Protos = []int{6}; c.Alg = true; c.NSub = 1; c.NP = 1 })
	add("dp-icmp/pps2", [2]int{3, 4}, [2]int{1500, 12000}, func(c *Cfg) { c.Protos = []int{1}; c.NSub = 1; c.ND = 1 })
	add("dp-parity/pps4", [2]int{3, 4}, [2]int{1500, 12000}, func(c *Cfg) { c.Parity = true; c.PPS = 4; c.NSub = 1; c.ND = 1 })
	add("dp-parity-eim/pps4", [2]int{3, 4}, [2]int{1500, 12000}, func(c *Cfg) { c.Parity = true; c.Eim = true; c.PPS = 4; c.NSub = 1; c.ND = 1 })
	add("dp-realloc/pps2", [2]int{6, 7}, [2]int{4000, 30000}, func(c *Cfg) { c.Dealloc = true; c.NP = 1; c.ND = 1 })
	add("dp-2pub/pps2", [2]int{3, 4}, [2]int{1500, 12000}, func(c *Cfg) { c.NPub = 2; c.Hi = 1025; c.NP = 1; c.ND = 1 })
	// the manager writes subscriber_nat itself
	add("mgr/pps2", [2]int{3, 3}, [2]int{500, 2000}, func(c *Cfg) { c.Writer = "mgr"; c.NP = 1; c.ND = 1; c.Dealloc = true })
	add("mgrpad/pps2", [2]int{3, 3}, [2]int{500, 2000}, func(c *Cfg) { c.Writer = "mgrpad"; c.NP = 1; c.ND = 1; c.Dealloc = true })
	return out
}

func TestExplore(t *testing.T) {
	out := core.OutDir()
	setup(t, out)
	tier, seed := core.Tier(), core.Seed()
	ti := 0
	if tier == "thorough" {
		ti = 1
	}
	bundle := &core.Bundle{}
	st := runStats{}
	if rf := os.Getenv("VERIF_REPLAY"); rf != "" {
		b, err := os.ReadFile(rf)
		if err != nil {
			t.Fatal(err)
		}
		var f replayFile
		if err := json.Unmarshal(b, &f); err != nil {
			t.Fatal(err)
		}
		for _, c := range f.Cases {
			var cfg Cfg
			if err := json.Unmarshal(c.Cfg, &cfg); err != nil {
				t.Fatalf("replay case %s: cfg: %v", c.ID, err)
			}
			name := strings.SplitN(c.System, "#", 2)[0]
			s := NewSys(name, cfg)
			tab, pr := core.Chain(s, name+"#"+c.ID, c.Events, false)
			if pr != nil {
				st.Panics = append(st.Panics, *pr)
				continue
			}
			bundle.Systems = append(bundle.Systems, tab)
			st.Chains++
		}
	} else {
		nchains, chainLen := 6, 40
		if ti == 1 {
			nchains, chainLen = 40, 120
		}
		rng := rand.New(rand.NewSource(seed))
		for _, d := range systems() {
			s := NewSys(d.name, d.c)
			tab, panics, err := core.Explore(s, core.ExploreOptions{MaxDepth: d.depth[ti], MaxNodes: d.nodes[ti], AdequacySample: 3, Seed: seed, Workers: 4})
			if err != nil {
				t.Fatalf("explore %s: %v", d.name, err)
			}
			st.Panics = append(st.Panics, panics...)
			bundle.Systems = append(bundle.Systems, tab)
			st.Systems++
			st.Nodes += len(tab.Nodes)
			for _, es := range tab.Edges {
				st.Edges += len(es)
			}
			if tab.Closed {
				st.Closed++
			}
		}
		// random chains on a larger configuration: all three protocols, 8 ports per subscriber, two subscribers, release and re-allocation
		big := base("rnd")
		big.Protos, big.PPS, big.Hi, big.Dealloc, big.Eim = []int{17, 6, 1}, 8, 1024+15, true, seed%2 == 0
		bs := NewSys("rnd/pps8", big)
		evs := bs.Events()
		for c := 0; c < nchains; c++ {
			seqv := []core.Event{{"op": "ALLOC", "s": 1}, {"op": "ALLOC", "s": 2}}
			for i := 0; i < chainLen; i++ {
				seqv = append(seqv, evs[rng.Intn(len(evs))])
			}
			tab, pr := core.Chain(bs, fmt.Sprintf("%s#%d", bs.Name(), c), seqv, false)
			if pr != nil {
				st.Panics = append(st.Panics, *pr)
				continue
			}
			bundle.Systems = append(bundle.Systems, tab)
			st.Chains++
			st.ChainEvents += len(seqv)
		}
	}
	if err := core.WriteJSON(out, "bundle.json", bundle); err != nil {
		t.Fatal(err)
	}
	if err := core.WriteJSON(out, "stats.json", st); err != nil {
		t.Fatal(err)
	}
}
