package failover

import (
	"encoding/json"
	"fmt"
	"math/rand"
	"os"
	"strings"
	"testing"

	"verifharness/core"
)

type replayCase struct {
	ID     string         `json:"id"`
	System string         `json:"system"`
	Events []core.Event   `json:"events"`
	Cfg    map[string]any `json:"cfg"`
}

type replayFile struct {
	Property string       `json:"property"`
	Cases    []replayCase `json:"cases"`
}

type runStats struct {
	Systems     int                `json:"systems"`
	Nodes       int                `json:"nodes"`
	Edges       int                `json:"edges"`
	Chains      int                `json:"chains"`
	ChainEvents int                `json:"chain_events"`
	Closed      int                `json:"closed_systems"`
	Panics      []core.PanicRecord `json:"panics"`
	PerSystem   map[string][3]int  `json:"per_system"`
}

// Catalogue: the controller configurations whose transition tables are extracted.
func Catalogue(tier string) []*FSystem {
	l := []*FSystem{
		{name: "ctl-d4-fb2", Orig: "standby", Delay: 4, FbDelay: 2, Grace: 0, Failback: true, FailTh: 1, RecTh: 1, Advs: []int{1, 2, 4}},
		{name: "ctl-d2-nofb", Orig: "standby", Delay: 2, FbDelay: 2, Grace: 0, Failback: false, FailTh: 1, RecTh: 1, Advs: []int{1, 2}},
		{name: "ctl-d2-th2", Orig: "standby", Delay: 2, FbDelay: 1, Grace: 0, Failback: true, FailTh: 2, RecTh: 2, Advs: []int{1, 2}},
		{name: "ctl-d2-grace1", Orig: "standby", Delay: 2, FbDelay: 2, Grace: 1, Failback: true, FailTh: 1, RecTh: 1, Advs: []int{1, 2}},
		{name: "ctl-d2-gated", Orig: "standby", Delay: 2, FbDelay: 2, Grace: 0, Failback: true, FailTh: 1, RecTh: 1, Gated: true, Advs: []int{1, 2}, MaxDepth: 0},
		{name: "ctl-active", Orig: "active", Delay: 2, FbDelay: 2, Grace: 0, Failback: true, FailTh: 1, RecTh: 1, Advs: []int{1, 2}},
	}
	l = append(l, &FSystem{name: "ctl-d3-gated-grace1", Orig: "standby", Delay: 3, FbDelay: 2, Grace: 1, Failback: true, FailTh: 1, RecTh: 1, Gated: true, Advs: []int{1, 3}})
	if tier == "thorough" {
		l = append(l,
			&FSystem{name: "ctl-d4-grace2", Orig: "standby", Delay: 4, FbDelay: 3, Grace: 2, Failback: true, FailTh: 1, RecTh: 1, Advs: []int{1, 2, 4}},
			&FSystem{name: "ctl-d3-gated-th2", Orig: "standby", Delay: 3, FbDelay: 3, Grace: 0, Failback: true, FailTh: 2, RecTh: 2, Gated: true, Advs: []int{1, 2, 3}},
		)
	}
	return l
}

// ChainCatalogue: configurations driven by long random sequences (no fingerprint involved).
func ChainCatalogue() []*FSystem {
	return []*FSystem{
		{name: "rnd-d5-fb3-g2", Orig: "standby", Delay: 5, FbDelay: 3, Grace: 2, Failback: true, FailTh: 2, RecTh: 1, Advs: []int{1, 2, 3, 5}},
		{name: "rnd-d3-gated-g1", Orig: "standby", Delay: 3, FbDelay: 2, Grace: 1, Failback: true, FailTh: 1, RecTh: 2, Gated: true, Advs: []int{1, 2, 3}},
	}
}

func find(name string) *FSystem {
	for _, s := range append(Catalogue("thorough"), ChainCatalogue()...) {
		if s.name == name {
			return s
		}
	}
	return nil
}

// fromCfg builds a system from a replay case's cfg (design counterexamples carry their own constants).
func fromCfg(name string, cfg map[string]any) *FSystem {
	if cfg == nil || cfg["delay_q"] == nil {
		return nil
	}
	b := func(k string) bool { v, _ := cfg[k].(bool); return v }
	s := &FSystem{name: name, Orig: fmt.Sprint(cfg["orig"]), Delay: toInt(cfg["delay_q"]), FbDelay: toInt(cfg["fbdelay_q"]), Grace: toInt(cfg["grace_q"]),
		Failback: b("failback"), FailTh: toInt(cfg["failth"]), RecTh: toInt(cfg["recth"]), Gated: b("gated")}
	if s.FailTh < 1 {
		s.FailTh = 1
	}
	if s.RecTh < 1 {
		s.RecTh = 1
	}
	return s
}

func TestExplore(t *testing.T) {
	theT = t
	defer func() {
		harnessErrs.Lock()
		defer harnessErrs.Unlock()
		if len(harnessErrs.l) > 0 {
			t.Fatalf("harness cannot represent the observed behaviour (infrastructure failure, not a verdict):\n%s", strings.Join(harnessErrs.l, "\n"))
		}
	}()
	out := core.OutDir()
	if rf := os.Getenv("VERIF_REPLAY"); rf != "" {
		replay(t, rf, out)
		return
	}
	tier := core.Tier()
	seed := core.Seed()
	maxNodes := 6000
	if v := os.Getenv("VERIF_MAXNODES"); v != "" {
		fmt.Sscan(v, &maxNodes)
	}
	nchains, chainLen := 8, 150
	if tier == "thorough" {
		maxNodes = 60000
		nchains, chainLen = 60, 400
	}
	bundle := &core.Bundle{}
	st := runStats{PerSystem: map[string][3]int{}}
	for _, sys := range Catalogue(tier) {
		if only := os.Getenv("VERIF_ONLY"); only != "" && only != sys.Name() {
			continue
		}
		d := sys.MaxDepth
		if d > 0 && tier == "thorough" {
			d += 2
		}
		tab, panics, err := core.Explore(sys, core.ExploreOptions{MaxDepth: d, MaxNodes: maxNodes, AdequacySample: 25, Seed: seed})
		if err != nil {
			t.Fatalf("explore %s: %v", sys.Name(), err)
		}
		st.Panics = append(st.Panics, panics...)
		bundle.Systems = append(bundle.Systems, tab)
		ne := 0
		for _, es := range tab.Edges {
			ne += len(es)
		}
		c := 0
		if tab.Closed {
			c = 1
			st.Closed++
		}
		st.PerSystem[sys.Name()] = [3]int{len(tab.Nodes), ne, c}
		st.Systems++
		st.Nodes += len(tab.Nodes)
		st.Edges += ne
	}
	rng := rand.New(rand.NewSource(seed))
	for _, sys := range ChainCatalogue() {
		evs := sys.Events()
		for c := 0; c < nchains; c++ {
			var seqv []core.Event
			for i := 0; i < chainLen; i++ {
				seqv = append(seqv, evs[rng.Intn(len(evs))])
			}
			tab, pr := core.Chain(sys, fmt.Sprintf("%s#%d", sys.Name(), c), seqv, true)
			if pr != nil {
				st.Panics = append(st.Panics, *pr)
				continue
			}
			bundle.Systems = append(bundle.Systems, tab)
			st.Chains++
			st.ChainEvents += len(seqv)
		}
	}
	// histories found by TLC on the implementation-shaped design spec, executed on the real code
	if xf := os.Getenv("VERIF_EXTRA_CASES"); xf != "" {
		b, err := os.ReadFile(xf)
		if err != nil {
			t.Fatal(err)
		}
		var rf replayFile
		if err := json.Unmarshal(b, &rf); err != nil {
			t.Fatal(err)
		}
		for _, c := range rf.Cases {
			sys := fromCfg(c.System, c.Cfg)
			if sys == nil {
				t.Fatalf("extra case %s: no configuration", c.ID)
			}
			tab, pr := core.Chain(sys, c.System+"#"+c.ID, c.Events, true)
			if pr != nil {
				st.Panics = append(st.Panics, *pr)
				continue
			}
			bundle.Systems = append(bundle.Systems, tab)
			st.Chains++
			st.ChainEvents += len(c.Events)
		}
	}
	if err := core.WriteJSON(out, "bundle.json", bundle); err != nil {
		t.Fatal(err)
	}
	if err := core.WriteJSON(out, "stats.json", st); err != nil {
		t.Fatal(err)
	}
}

func replay(t *testing.T, file, out string) {
	b, err := os.ReadFile(file)
	if err != nil {
		t.Fatal(err)
	}
	var rf replayFile
	if err := json.Unmarshal(b, &rf); err != nil {
		t.Fatal(err)
	}
	st := runStats{PerSystem: map[string][3]int{}}
	bundle := &core.Bundle{}
	for _, c := range rf.Cases {
		name := c.System
		if i := strings.IndexByte(name, '#'); i >= 0 {
			name = name[:i]
		}
		sys := find(name)
		if sys == nil {
			sys = fromCfg(name, c.Cfg)
		}
		if sys == nil {
			t.Fatalf("unknown system %q", c.System)
		}
		tab, pr := core.Chain(sys, name+"#"+c.ID, c.Events, true)
		if pr != nil {
			st.Panics = append(st.Panics, *pr)
			continue
		}
		bundle.Systems = append(bundle.Systems, tab)
		st.Chains++
		st.ChainEvents += len(c.Events)
	}
	if err := core.WriteJSON(out, "bundle.json", bundle); err != nil {
		t.Fatal(err)
	}
	core.WriteJSON(out, "stats.json", st)
}
