// Package failover binds the Failover contract (specs/Failover) to the real
// ha.FailoverController + ha.HealthMonitor of /repo, driven under testing/synctest
// virtual time. Health events are produced by the REAL monitor: every "probe" event is one
// HealthMonitor.CheckNow() whose HTTP round trip is answered by an in-process transport
// (http.DefaultTransport is replaced in this test binary), so partner_down / partner_up
// reach the controller exactly the way they do in production (thresholds, handler
// registration, IsPartnerHealthy()).
package failover

import (
	"fmt"
	"io"
	"net/http"
	"reflect"
	"runtime"
	"runtime/debug"
	"sort"
	"strconv"
	"strings"
	"sync"
	"sync/atomic"
	"testing"
	"testing/synctest"
	"time"

	"github.com/codelaboratoryltd/bng/pkg/ha"
	"go.uber.org/zap"

	"verifharness/core"
)

// Quantum is the virtual-time unit of the alphabet. The controller's own 1 s state
// evaluation ticker is started at bubble time 0; every harness action happens at
// 0.5 s + k*Quantum (a step that consumes a fraction of a quantum is padded to the next
// boundary), so a tick never coincides with a harness action or a timer. Grace periods are
// off the grid (GraceDur) so that sleepers never wake at an instant at which a timer fires.
const Quantum = time.Second

// Unit is the resolution in which durations are reported to the specification.
const Unit = time.Millisecond
const offset = 500 * time.Millisecond

// theT is the *testing.T of the running TestExplore (synctest needs one).
var theT *testing.T

// --- in-process partner -------------------------------------------------------------

var partnerUp sync.Map // host -> *atomic.Bool
var instSeq atomic.Int64

type fakeTransport struct{}

func (fakeTransport) RoundTrip(req *http.Request) (*http.Response, error) {
	v, ok := partnerUp.Load(req.URL.Host)
	up := ok && v.(*atomic.Bool).Load()
	if up {
		return &http.Response{StatusCode: 200, Status: "200 OK", Header: http.Header{"Content-Type": {"application/json"}},
			Body: io.NopCloser(strings.NewReader(`{"status":"healthy","role":"active","node_id":"partner"}`)), Request: req}, nil
	}
	return &http.Response{StatusCode: 503, Status: "503 Service Unavailable", Header: http.Header{},
		Body: io.NopCloser(strings.NewReader("unavailable")), Request: req}, nil
}

// harnessFail records a condition the harness cannot represent faithfully; TestExplore then fails
// (infrastructure failure, never a verdict).
var harnessErrs struct {
	sync.Mutex
	l []string
}

func harnessFail(msg string) {
	harnessErrs.Lock()
	if len(harnessErrs.l) < 20 {
		harnessErrs.l = append(harnessErrs.l, msg)
	}
	harnessErrs.Unlock()
}

// --- gates ---------------------------------------------------------------------------

type parked struct {
	point string
	ch    chan struct{}
	at    time.Time
	gens  [2]uint64 // the controller's timer generations when the goroutine arrived at the gate
}

// gens reads the controller's timer generation counters (present since the stale-timer repair).
// They only ever grow; what can influence behaviour is whether a held goroutine's generation is
// still the current one, so the fingerprint renders that relation instead of the numbers. A
// timer cannot fire after it was canceled or re-armed (both stop it), hence a goroutine that
// arrives at the gate carries the generation that is current at that moment.
func gens(c *ha.FailoverController) (g [2]uint64) {
	v := reflect.ValueOf(c).Elem()
	for i, n := range []string{"failoverGen", "failbackGen"} {
		if f := v.FieldByName(n); f.IsValid() && f.Kind() == reflect.Uint64 {
			g[i] = f.Uint()
		}
	}
	return
}

const maxParked = 2

// go1.25.0 runtime bug (fixed in later releases by taking mheap_.speciallock around
// specialBubbleAlloc.alloc in getOrSetBubbleSpecial): the first WaitGroup.Add inside a synctest
// bubble allocates a "bubble special" from a fixalloc without holding its lock, so concurrent
// bubbles (or the sweeper freeing specials) corrupt it and a later Add dies with the spurious
// "sync: WaitGroup.Add called from multiple synctest bubbles". Workaround: the only such Add in
// this harness is the one in FailoverController.Start, which is serialised by startMu, and the
// collector only runs at points where startMu is held (automatic GC is switched off).
var startMu sync.Mutex
var startCount int

func init() { debug.SetGCPercent(-1) }

func guardedStart(c *ha.FailoverController) error {
	startMu.Lock()
	defer startMu.Unlock()
	startCount++
	if startCount%4000 == 0 {
		runtime.GC()
	}
	return c.Start()
}

var gated sync.Map // *ha.FailoverController -> *inst

func init() {
	http.DefaultTransport = fakeTransport{}
	ha.VerifGate = func(c *ha.FailoverController, point string) {
		v, ok := gated.Load(c)
		if !ok {
			return
		}
		in := v.(*inst)
		g := goid()
		in.mu.Lock()
		if strings.HasSuffix(point, ":exit") {
			delete(in.inflight, g)
			in.mu.Unlock()
			return
		}
		if g == in.callerG || !in.gating { // only timer goroutines are held, never the operator's own call
			in.inflight[g] = entry{point: point, at: time.Now()}
			in.mu.Unlock()
			return
		}
		p := &parked{point: point, ch: make(chan struct{}), at: time.Now(), gens: gens(c)}
		if len(in.parked) >= maxParked {
			// bound the model: the longest-held goroutine proceeds the moment another timer fires
			close(in.parked[0].ch)
			in.parked = append([]*parked{}, in.parked[1:]...)
		}
		in.parked = append(in.parked, p)
		// timers due at the same virtual instant fire in an order the runtime randomises: keep a canonical order
		sort.SliceStable(in.parked, func(i, j int) bool {
			a, b := in.parked[i], in.parked[j]
			if !a.at.Equal(b.at) {
				return a.at.Before(b.at)
			}
			return a.point < b.point
		})
		in.mu.Unlock()
		<-p.ch
		in.mu.Lock()
		in.inflight[g] = entry{point: point, at: time.Now()}
		in.mu.Unlock()
	}
}

// --- system ----------------------------------------------------------------------------

// FSystem is one configuration of controller + monitor.
type FSystem struct {
	name     string
	Orig     string // original role
	Delay    int    // failover delay, quanta
	FbDelay  int    // failback delay, quanta
	Grace    int    // grace period, quanta
	Failback bool
	FailTh   int
	RecTh    int
	Gated    bool // timer goroutines are parked before they take the lock ("fired, not yet running")
	Advs     []int
	MaxDepth int // exploration bound (0 = until closed)
}

// GraceDur is the configured grace period: Grace quanta plus 10%, so that a goroutine that sleeps
// through it never wakes at an instant at which a timer fires (the runtime runs same-instant
// events in random order, which would make the extracted tables non-deterministic).
func (s *FSystem) GraceDur() time.Duration {
	return time.Duration(s.Grace)*Quantum + time.Duration(s.Grace)*Quantum/10
}

func (s *FSystem) Name() string { return s.name }
func (s *FSystem) Config() map[string]any {
	// the contract sees times in milliseconds (so that any delay the code might use is representable);
	// the *_q fields are the same delays in quanta, from which a replay rebuilds the system
	ms := int(Quantum / Unit)
	return map[string]any{"impl": s.name, "orig": s.Orig, "delay": s.Delay * ms, "fbdelay": s.FbDelay * ms, "grace": int(s.GraceDur() / Unit),
		"delay_q": s.Delay, "fbdelay_q": s.FbDelay, "grace_q": s.Grace,
		"failback": s.Failback, "failth": s.FailTh, "recth": s.RecTh, "gated": s.Gated, "nsubs": 0}
}

func (s *FSystem) Events() []core.Event {
	evs := []core.Event{
		{"op": "probe", "ok": false, "q": 0}, {"op": "probe", "ok": true, "q": 0},
		{"op": "force_failover", "ok": true, "q": 0}, {"op": "force_failback", "ok": true, "q": 0},
		{"op": "cb", "ok": true, "q": 0}, {"op": "cb", "ok": false, "q": 0},
	}
	for _, q := range s.Advs {
		evs = append(evs, core.Event{"op": "adv", "ok": true, "q": q})
	}
	if s.Gated {
		evs = append(evs, core.Event{"op": "run", "ok": true, "q": 0}, core.Event{"op": "run", "ok": true, "q": 1})
	}
	return evs
}

// Wrap runs every replay in its own synctest bubble.
func (s *FSystem) Wrap(f func()) {
	synctest.Test(theT, func(t *testing.T) { f() })
}

func (s *FSystem) New() core.Instance {
	in := &inst{s: s, cbOK: true, inflight: map[uint64]entry{}, host: fmt.Sprintf("partner-%d.verif:9000", instSeq.Add(1))}
	in.up = &atomic.Bool{}
	in.up.Store(true)
	partnerUp.Store(in.host, in.up)
	hc := ha.HealthConfig{CheckInterval: 24 * time.Hour, Timeout: 3 * time.Second, FailureThreshold: s.FailTh, RecoveryThreshold: s.RecTh}
	in.m = ha.NewHealthMonitor(hc, &ha.PartnerInfo{NodeID: "partner", Endpoint: in.host}, zap.NewNop())
	fc := ha.FailoverConfig{Enabled: true, FailoverDelay: time.Duration(s.Delay) * Quantum, FailbackDelay: time.Duration(s.FbDelay) * Quantum,
		FailbackEnabled: s.Failback, GracePeriod: s.GraceDur()}
	in.c = ha.NewFailoverController(fc, "node", ha.Role(s.Orig), 1, in.m, zap.NewNop())
	in.c.SetRoleChangeCallback(func(r ha.Role) error {
		ok := in.cbOK
		in.addLog(micro{kind: "cb", what: string(r), ok: ok, at: time.Now()})
		if !ok {
			return fmt.Errorf("role change refused")
		}
		return nil
	})
	in.c.OnFailoverEvent(func(e ha.FailoverEvent) {
		in.addLog(micro{kind: "ev", what: string(e.Type), ok: true, at: time.Now()})
	})
	in.gating = s.Gated
	gated.Store(in.c, in)
	if err := guardedStart(in.c); err != nil { // registers handleHealthEvent with the monitor, starts the 1 s evaluation loop
		panic(err)
	}
	in.m.OnHealthChange(func(e ha.HealthEvent) {
		switch e.Type {
		case ha.HealthEventPartnerDown:
			in.hev = append(in.hev, "down")
		case ha.HealthEventPartnerUp:
			in.hev = append(in.hev, "up")
		}
	})
	time.Sleep(offset)
	synctest.Wait()
	return in
}

type micro struct {
	kind string // "cb" | "ev"
	what string
	ok   bool
	at   time.Time
}

type inst struct {
	s    *FSystem
	host string
	up   *atomic.Bool
	m    *ha.HealthMonitor
	c    *ha.FailoverController
	cbOK bool

	mu     sync.Mutex
	gating bool
	parked []*parked

	log      []micro // appended from controller goroutines; read only after synctest.Wait()
	hev      []string
	callerG  uint64           // goroutine currently inside ForceFailover/ForceFailback (0 = none)
	inflight map[uint64]entry // executions of executeFailover/executeFailback under way (entered, not yet returned), by goroutine
}

type entry struct {
	point string
	at    time.Time
}

// armed reports whether the controller's timer `field` is pending and, if so, in how long it
// fires. time.Timer has no getter: Stop() says whether the timer was pending, and a pending
// timer is re-armed for the same deadline (the deadline is the failoverTime/failbackTime field
// written together with the timer), which leaves the controller's behaviour unchanged.
func (in *inst) armed(timerField, deadlineField string) string {
	tv := core.Field(in.c, timerField)
	if tv.IsNil() {
		return "-"
	}
	tm := tv.Interface().(*time.Timer)
	if !tm.Stop() {
		return "-"
	}
	d := core.Field(in.c, deadlineField).Interface().(time.Time).Sub(time.Now())
	if d <= 0 {
		harnessFail(fmt.Sprintf("%s: %s pending although its recorded deadline passed %v ago (timer peek impossible)", in.s.name, timerField, -d))
		d = time.Nanosecond
	}
	tm.Reset(d)
	return d.String()
}

func (in *inst) settle() { synctest.Wait() }

func (in *inst) setCaller(g uint64) {
	in.mu.Lock()
	in.callerG = g
	in.mu.Unlock()
}

// goid returns the current goroutine's id (parsed from the stack header; used only at gate calls).
func goid() uint64 {
	var buf [64]byte
	n := runtime.Stack(buf[:], false)
	f := strings.Fields(string(buf[:n]))
	if len(f) < 2 {
		return 0
	}
	id, _ := strconv.ParseUint(f[1], 10, 64)
	return id
}

func (in *inst) addLog(m micro) {
	in.mu.Lock()
	in.log = append(in.log, m)
	in.mu.Unlock()
}

func (in *inst) Apply(ev core.Event) map[string]any {
	op := ev["op"].(string)
	okArg, _ := ev["ok"].(bool)
	q := toInt(ev["q"])
	start := time.Now()
	in.log = in.log[:0]
	in.hev = in.hev[:0]
	acc := true
	dt := 0
	switch op {
	case "probe":
		in.up.Store(okArg)
		in.m.CheckNow()
	case "adv":
		time.Sleep(time.Duration(q) * Quantum)
		dt = q
	case "advms": // directed histories only: an advance by q milliseconds, off the quantum grid (never onto a whole second)
		time.Sleep(time.Duration(q) * time.Millisecond)
	case "force_failover":
		if in.s.Grace > 0 {
			// the operator's command never falls on the very instant at which a timer goroutine started
			// its grace period: both would wake at the same instant, in an order the runtime randomises
			time.Sleep(time.Millisecond)
			in.settle()
		}
		in.setCaller(goid())
		acc = in.c.ForceFailover("operator") == nil
		in.setCaller(0)
	case "force_failback":
		in.setCaller(goid())
		acc = in.c.ForceFailback("operator") == nil
		in.setCaller(0)
	case "cb":
		in.cbOK = okArg
	case "run":
		in.mu.Lock()
		var p *parked
		if n := len(in.parked); n > 0 {
			i := 0
			if q == 1 {
				i = n - 1
			}
			p = in.parked[i]
			in.parked = append(append([]*parked{}, in.parked[:i]...), in.parked[i+1:]...)
		}
		in.mu.Unlock()
		if p == nil {
			acc = false
		} else {
			close(p.ch)
		}
	default:
		panic("unknown op " + op)
	}
	in.settle()
	// the step lasts as long as the call took in virtual time (ForceFailover may sit out the grace
	// period); the harness then waits for the next quantum boundary so that its actions stay on the grid
	if r := time.Since(start) % Quantum; r != 0 && op != "advms" {
		time.Sleep(Quantum - r)
		in.settle()
	}
	d := time.Since(start)
	if d%Unit != 0 || (op == "adv" && d != time.Duration(q)*Quantum) {
		harnessFail(fmt.Sprintf("%s: step %s took %v of virtual time (requested %d quanta)", in.s.name, op, d, dt))
	}
	dt = int(d / Unit)
	hev := "none"
	if len(in.hev) == 1 {
		hev = in.hev[0]
	} else if len(in.hev) > 1 {
		harnessFail(fmt.Sprintf("%s: more than one health transition in one probe: %v", in.s.name, in.hev))
	}
	cbs := []map[string]any{}
	evs := []map[string]any{}
	for _, m := range in.log {
		off := m.at.Sub(start)
		if off%Unit != 0 {
			harnessFail(fmt.Sprintf("%s: callback/event %s at %v after the step began: finer than the reporting unit", in.s.name, m.what, off))
		}
		rec := map[string]any{"what": m.what, "ok": m.ok, "off": int(off / Unit)}
		if m.kind == "cb" {
			cbs = append(cbs, rec)
		} else {
			evs = append(evs, rec)
		}
	}
	return map[string]any{"acc": acc, "dt": dt, "hev": hev, "role": string(in.c.CurrentRole()), "healthy": in.m.IsPartnerHealthy(),
		"cbs": cbs, "evs": evs}
}

func (in *inst) Observe() map[string]any {
	in.mu.Lock()
	np := len(in.parked)
	in.mu.Unlock()
	return map[string]any{"role": string(in.c.CurrentRole()), "state": in.c.State().String(), "healthy": in.m.IsPartnerHealthy(),
		"failedover": in.c.IsFailedOver(), "parked": np, "cbok": in.cbOK}
}

var fpOpt = &core.FPOptions{SkipFields: map[string]bool{
	// monotone statistics that no code path reads back
	"failoversInitiated": true, "failoversCompleted": true, "failoversCanceled": true, "failbacksCompleted": true,
	"totalChecks": true, "totalFailures": true, "totalRecovery": true,
	// per-instance naming of the in-process partner / text of the last probe error
	"Endpoint": true, "LastError": true,
	// rendered separately (saturated at the thresholds)
	"ConsecutiveFailures": true, "ConsecutiveSuccesses": true,
	// rendered separately (relation to the generations carried by held goroutines)
	"failoverGen": true, "failbackGen": true,
}}

func sat(v, cap int) int {
	if v > cap {
		return cap
	}
	return v
}

// Fingerprint = every field of controller and monitor (reflection) + what the generic walker
// cannot see: which timers are pending and when they fire, timer goroutines held at the gate,
// and executions of executeFailover/executeFailback that are under way (entered and not yet
// returned: sleeping in the grace period), with the time since they started.
func (in *inst) Fingerprint() string {
	now := time.Now()
	h := in.m.Health()
	in.mu.Lock()
	pk := []string{}
	cur := gens(in.c)
	for _, p := range in.parked {
		pk = append(pk, fmt.Sprintf("%s/current=%t", p.point, p.gens == cur))
	}
	sl := []string{}
	for _, e := range in.inflight {
		sl = append(sl, fmt.Sprintf("%s@%v", e.point, now.Sub(e.at)))
	}
	sort.Strings(sl)
	in.mu.Unlock()
	return core.Fingerprint(in.c, fpOpt) + fmt.Sprintf("|fo=%s|fb=%s|cf=%d|cs=%d|cb=%t|parked=%v|sleep=%v",
		in.armed("failoverTimer", "failoverTime"), in.armed("failbackTimer", "failbackTime"),
		sat(h.ConsecutiveFailures, in.s.FailTh), sat(h.ConsecutiveSuccesses, in.s.RecTh), in.cbOK, pk, sl)
}

// Probe (dedicated replay): release every held timer goroutine, then let a long stretch of
// virtual time pass with no input at all; "settle" is the state the controller is in afterwards.
// Every delay of the controller is far shorter than the stretch.
func (in *inst) Probe() map[string]any {
	in.releaseAll()
	synctest.Wait()
	long := time.Duration(20*(in.s.Delay+in.s.FbDelay+in.s.Grace+2)) * Quantum
	time.Sleep(long)
	synctest.Wait()
	return map[string]any{"settle": in.c.State().String()}
}

func (in *inst) releaseAll() {
	in.mu.Lock()
	in.gating = false
	ps := in.parked
	in.parked = nil
	in.mu.Unlock()
	for _, p := range ps {
		close(p.ch)
	}
}

func (in *inst) Close() {
	in.releaseAll()
	synctest.Wait()
	in.c.Stop()
	// let grace-period sleepers and timers that already fired run to completion
	time.Sleep(time.Duration(2*in.s.Grace+in.s.Delay+in.s.FbDelay+2) * Quantum)
	synctest.Wait()
	gated.Delete(in.c)
	partnerUp.Delete(in.host)
}

func toInt(v any) int {
	switch x := v.(type) {
	case int:
		return x
	case int64:
		return int(x)
	case float64:
		return int(x)
	}
	return 0
}
