package acct

import (
	"fmt"
	"math/rand"
	"sort"
	"strconv"
)

// Special 64-bit counter values (property text: "64-bit traffic counters exactly through the
// low-word/gigaword split").
var specials = []uint64{0, 1<<32 - 1, 1 << 32, 1<<32 + 1, 1 << 63, 1<<64 - 1, 0xFFFF, 0x10000, 1<<48 + 0xABCD, 0x00000001FFFFFFFF}

func pickCounters(rng *rand.Rand, nsess int) map[string][][2]string {
	out := map[string][][2]string{}
	v := func() uint64 {
		if rng.Intn(4) == 0 {
			return rng.Uint64()
		}
		return specials[rng.Intn(len(specials))]
	}
	for k := 1; k <= nsess; k++ {
		var l [][2]string
		for i := 0; i < 3; i++ {
			l = append(l, [2]string{strconv.FormatUint(v(), 10), strconv.FormatUint(v(), 10)})
		}
		out[strconv.Itoa(k)] = l
	}
	return out
}

// fixed counters used by the canonical cases: every special value appears
func canonCounters(nsess int) map[string][][2]string {
	out := map[string][][2]string{}
	i := 1
	for k := 1; k <= nsess; k++ {
		var l [][2]string
		for j := 0; j < 3; j++ {
			l = append(l, [2]string{strconv.FormatUint(specials[i%len(specials)], 10), strconv.FormatUint(specials[(i+3)%len(specials)], 10)})
			i++
		}
		out[strconv.Itoa(k)] = l
	}
	return out
}

func ops(spec ...string) []opSpec {
	var out []opSpec
	for _, s := range spec {
		o := opSpec{Op: s}
		for _, name := range []string{"start", "stop", "interim"} {
			if len(s) == len(name)+1 && s[:len(name)] == name {
				o.Op = name
				o.Sid = int(s[len(name)] - '0')
			}
		}
		out = append(out, o)
	}
	return out
}

// canonical (history, refusal script) pairs: always run, and crashed at every crash-point hit
func canonical(budget int) []caseSpec {
	mk := func(fail map[string]int, o ...string) caseSpec {
		n := 1
		for _, op := range ops(o...) {
			if op.Sid > n {
				n = op.Sid
			}
		}
		if fail == nil {
			fail = map[string]int{}
		}
		return caseSpec{NSess: n, Budget: budget, Ops: ops(o...), Fail: fail, Counters: canonCounters(n), Origin: "canonical"}
	}
	B := budget
	return []caseSpec{
		mk(nil, "start1", "stop1"),
		mk(map[string]int{"stop:1": 1}, "start1", "stop1"),
		mk(map[string]int{"stop:1": B}, "start1", "stop1"),
		mk(map[string]int{"start:1": 1}, "start1", "stop1"),
		mk(map[string]int{"start:1": B}, "start1", "pump", "stop1"),
		mk(map[string]int{"interim:1": 1}, "start1", "interim1", "stop1"),
		mk(nil, "start1", "interim1", "interim1", "stop1"),
		mk(map[string]int{"stop:2": 1}, "start1", "start2", "stop2", "graceful"),
		mk(nil, "start1", "graceful"),
		mk(map[string]int{"stop:1": 1}, "start1", "graceful"),
		mk(map[string]int{"stop:1": B}, "start1", "stop1", "graceful"),
		mk(map[string]int{"start:1": B, "stop:2": 1}, "start1", "start2", "stop2", "tick", "pump", "pump", "pump"),
		mk(map[string]int{"start:1": 1, "stop:1": 1}, "start1", "stop1", "settle"),
		mk(map[string]int{"stop:1": B + 1}, "start1", "stop1"), // beyond the retry budget: liveness waived, safety still judged
		// graceful stop without drain: whatever is pending or active is left to the next incarnation
		nodrain(mk(map[string]int{"interim:1": 1}, "start1", "interim1", "graceful")),
		nodrain(mk(map[string]int{"interim:1": B}, "start1", "start2", "interim1", "graceful", "stop2")),
		nodrain(mk(nil, "start1", "interim1", "graceful")),
		nodrain(mk(map[string]int{"start:1": 1}, "start1", "graceful")),
		// the outage outlasts EVERY session: all sessions are stopped while RADIUS is unreachable (the
		// last StopSession leaves no persisted session behind), the pump uses up the second refusal,
		// the graceful Stop() has nothing to drain and only persists the queued Stops; RADIUS is back
		// for the next incarnation, which must deliver them
		mk(map[string]int{"stop:1": B}, "start1", "stop1", "pump", "graceful"),
		mk(map[string]int{"stop:1": B, "stop:2": B}, "start1", "start2", "stop1", "stop2", "pump", "pump", "graceful"),
		mk(map[string]int{"start:1": 1, "stop:1": B}, "start1", "pump", "stop1", "pump", "graceful", "start2", "stop2"),
		// StopSession for an identifier that is not in the session table (never started / already
		// stopped - e.g. a Disconnect-Request for a session that has ended, or two teardown paths),
		// followed by ordinary operations
		mk(nil, "start1", "stop2", "stop1"),
		mk(nil, "start1", "stop1", "stop1", "start2", "stop2"),
		mk(nil, "start1", "stop2", "graceful"),
		mk(nil, "start1", "interim1", "stop2", "interim1", "stop1"),
		mk(map[string]int{"stop:1": 1}, "start1", "start2", "stop1", "stop1", "pump", "stop2"),
		nodrain(mk(nil, "start1", "stop2", "graceful")),
		// without drain AND with Stops queued during an outage: the graceful Stop() must still leave the queue on disk
		nodrain(mk(map[string]int{"stop:1": 1}, "start1", "stop1", "graceful")),
		nodrain(mk(map[string]int{"stop:1": B}, "start1", "stop1", "pump", "graceful")),
		nodrain(mk(map[string]int{"stop:1": B, "stop:2": B}, "start1", "start2", "stop1", "stop2", "pump", "pump", "graceful")),
		nodrain(mk(map[string]int{"stop:2": B}, "start1", "start2", "stop2", "graceful", "stop1")),
	}
}

// withUnknownStop inserts, at a seeded position, one StopSession for an identifier that is not in
// the session table at that point: a session that was already stopped, one that an earlier
// incarnation held (before a graceful stop), or one that has not been started (yet).
func withUnknownStop(rng *rand.Rand, h []opSpec, nsess int) ([]opSpec, int) {
	pos := rng.Intn(len(h)) // the rest of the history follows the unknown stop
	inTable := map[int]bool{}
	for _, o := range h[:pos] {
		switch o.Op {
		case "start":
			inTable[o.Sid] = true
		case "stop":
			delete(inTable, o.Sid)
		case "graceful":
			inTable = map[int]bool{}
		}
	}
	var cand []int
	for k := 1; k <= nsess+1; k++ {
		if !inTable[k] {
			cand = append(cand, k)
		}
	}
	k := cand[rng.Intn(len(cand))]
	out := append([]opSpec{}, h[:pos]...)
	out = append(out, opSpec{Op: "stop", Sid: k})
	out = append(out, h[pos:]...)
	ns := nsess
	if k > ns {
		ns = k
	}
	return out, ns
}

// sampleUnknownStop: n seeded histories with one such StopSession each.
func sampleUnknownStop(rng *rand.Rand, n, nsess, depth, budget int) []caseSpec {
	hs := histories(nsess, depth)
	var out []caseSpec
	for i := 0; i < n; i++ {
		h := hs[rng.Intn(len(hs))]
		ns := 1
		for _, o := range h {
			if o.Sid > ns {
				ns = o.Sid
			}
		}
		h2, ns2 := withUnknownStop(rng, h, ns)
		out = append(out, caseSpec{NSess: ns2, Budget: budget, Ops: h2, Fail: randomScript(rng, h, budget), Counters: pickCounters(rng, ns2), Origin: "sampled-unknown-stop"})
	}
	return out
}

func nodrain(c caseSpec) caseSpec {
	c.NoDrain = true
	c.Origin = "canonical-nodrain"
	return c
}

// histories enumerates all event sequences of length 2..depth over nsess sessions (sessions are
// started in index order, each at most once; stop/interim only on a started, unstopped session).
func histories(nsess, depth int) [][]opSpec {
	var out [][]opSpec
	type st struct {
		started, stopped       int // bitmasks
		interims               [4]int
		pumps, ticks, grace, n int
	}
	var rec func(cur []opSpec, s st)
	rec = func(cur []opSpec, s st) {
		if len(cur) >= 2 && s.started != 0 {
			out = append(out, append([]opSpec{}, cur...))
		}
		if len(cur) == depth {
			return
		}
		nstarted := 0
		for k := 1; k <= nsess; k++ {
			if s.started&(1<<k) != 0 {
				nstarted++
			}
		}
		if nstarted < nsess {
			k := nstarted + 1
			t := s
			t.started |= 1 << k
			rec(append(cur, opSpec{Op: "start", Sid: k}), t)
		}
		for k := 1; k <= nsess; k++ {
			if s.started&(1<<k) != 0 && s.stopped&(1<<k) == 0 {
				t := s
				t.stopped |= 1 << k
				rec(append(cur, opSpec{Op: "stop", Sid: k}), t)
				if s.interims[k] < 1 {
					t = s
					t.interims[k]++
					rec(append(cur, opSpec{Op: "interim", Sid: k}), t)
				}
			}
		}
		if s.started != 0 {
			if s.pumps < 2 {
				t := s
				t.pumps++
				rec(append(cur, opSpec{Op: "pump"}), t)
			}
			if s.ticks < 1 {
				t := s
				t.ticks++
				rec(append(cur, opSpec{Op: "tick"}), t)
			}
			if s.grace < 1 {
				t := s
				t.grace++
				rec(append(cur, opSpec{Op: "graceful"}), t)
			}
		}
	}
	rec(nil, st{})
	return out
}

// kinds of records a history can make the manager emit
func kindsOf(h []opSpec) []string {
	set := map[string]bool{}
	for _, o := range h {
		switch o.Op {
		case "start":
			set[fmt.Sprintf("start:%d", o.Sid)] = true
			set[fmt.Sprintf("stop:%d", o.Sid)] = true // by stop, drain or recovery
		case "interim":
			set[fmt.Sprintf("interim:%d", o.Sid)] = true
		}
	}
	var out []string
	for k := range set {
		out = append(out, k)
	}
	sort.Strings(out)
	return out
}

func randomScript(rng *rand.Rand, h []opSpec, budget int) map[string]int {
	ks := kindsOf(h)
	fail := map[string]int{}
	switch rng.Intn(6) {
	case 0: // no outage
	case 1: // every record refused once (outage at each first transmission)
		for _, k := range ks {
			fail[k] = 1
		}
	case 2: // every record refused as often as the budget allows
		for _, k := range ks {
			fail[k] = budget
		}
	default:
		n := 1 + rng.Intn(2)
		for i := 0; i < n && len(ks) > 0; i++ {
			fail[ks[rng.Intn(len(ks))]] = 1 + rng.Intn(budget)
		}
	}
	return fail
}

func sampleBases(rng *rand.Rand, n, nsess, depth, budget int) []caseSpec {
	hs := histories(nsess, depth)
	var out []caseSpec
	for i := 0; i < n; i++ {
		h := hs[rng.Intn(len(hs))]
		ns := 1
		for _, o := range h {
			if o.Sid > ns {
				ns = o.Sid
			}
		}
		out = append(out, caseSpec{NSess: ns, Budget: budget, Ops: h, Fail: randomScript(rng, h, budget), Counters: pickCounters(rng, ns), Origin: "sampled"})
	}
	return out
}

// crashVariants: one case per distinct (point, occurrence) hit of the given epoch in a finished run.
func crashVariants(base caseSpec, hits []hitRec, epoch int) []caseSpec {
	seen := map[string]bool{}
	var out []caseSpec
	for _, h := range hits {
		if h.Epoch != epoch {
			continue
		}
		key := fmt.Sprintf("%s#%d", h.Point, h.Hit)
		if seen[key] {
			continue
		}
		seen[key] = true
		c := base
		c.Crashes = append(append([]CrashSpec{}, base.Crashes...), CrashSpec{Point: h.Point, Hit: h.Hit})
		out = append(out, c)
	}
	return out
}
