package acct

import (
	"net"
	"strconv"
	"strings"
	"sync/atomic"

	lradius "layeh.com/radius"
	"layeh.com/radius/rfc2865"
	"layeh.com/radius/rfc2866"
	"layeh.com/radius/rfc2869"
)

const secret = "verif-secret"

// Identifiers handed to StartSession for session k (1-based). Every attribute of every
// session is distinct, so a record carrying another session's identifier is visible.
func sessID(k int) string   { return "sess-" + strconv.Itoa(k) }
func sessUser(k int) string { return "user-" + strconv.Itoa(k) }
func sessMAC(k int) net.HardwareAddr {
	return net.HardwareAddr{0x02, 0, 0, 0, 0, byte(k)}
}
func sessIP(k int) net.IP    { return net.IPv4(10, 0, 0, byte(k)).To4() }
func sessPort(k int) uint32  { return uint32(100 + k) }
func sessClass(k int) string { return "class-" + strconv.Itoa(k) }

// index of the session whose identifier equals v; 0 = attribute absent, -1 = matches no session
func projStr(v string, present bool, f func(int) string, n int) int {
	if !present {
		return 0
	}
	for k := 1; k <= n; k++ {
		if f(k) == v {
			return k
		}
	}
	return -1
}

func limbs32(v uint32) []int { return []int{int(v & 0xFFFF), int(v >> 16)} }

// Limbs64 splits a 64-bit value into four 16-bit limbs, least significant first (TLC integers are 32-bit).
func Limbs64(v uint64) []int {
	return []int{int(v & 0xFFFF), int((v >> 16) & 0xFFFF), int((v >> 32) & 0xFFFF), int((v >> 48) & 0xFFFF)}
}

// peer is the RADIUS accounting server of ONE manager incarnation (own UDP socket on loopback).
type peer struct {
	conn *net.UDPConn
	port int
	run  *run
	inc  *incarnation
	done chan struct{}
	recv int64 // datagrams read
}

func newPeer(r *run, inc *incarnation) (*peer, error) {
	c, err := net.ListenUDP("udp4", &net.UDPAddr{IP: net.IPv4(127, 0, 0, 1), Port: 0})
	if err != nil {
		return nil, err
	}
	p := &peer{conn: c, port: c.LocalAddr().(*net.UDPAddr).Port, run: r, inc: inc, done: make(chan struct{})}
	go p.loop()
	return p, nil
}

func (p *peer) close() {
	p.conn.Close()
	<-p.done
}

func typName(t rfc2866.AcctStatusType) string {
	switch t {
	case rfc2866.AcctStatusType_Value_Start:
		return "start"
	case rfc2866.AcctStatusType_Value_Stop:
		return "stop"
	case rfc2866.AcctStatusType_Value_InterimUpdate:
		return "interim"
	}
	return "other"
}

func (p *peer) loop() {
	defer close(p.done)
	buf := make([]byte, 4096)
	for {
		n, addr, err := p.conn.ReadFromUDP(buf)
		if err != nil {
			return
		}
		atomic.AddInt64(&p.recv, 1)
		pkt, err := lradius.Parse(buf[:n], []byte(secret))
		if err != nil || pkt.Code != lradius.CodeAccountingRequest {
			p.run.note("peer: undecodable datagram")
			continue
		}
		ev := p.decode(pkt)
		// decision and logging are atomic with crash marking (run lock)
		if !p.run.peerDecide(p.inc, ev) {
			continue // down for this request, or the incarnation is dead: no answer
		}
		resp := pkt.Response(lradius.CodeAccountingResponse)
		wire, err := resp.Encode()
		if err != nil {
			p.run.note("peer: encode response: " + err.Error())
			continue
		}
		p.conn.WriteToUDP(wire, addr)
	}
}

// decode projects the wire attributes of an Accounting-Request to the abstract event.
// This is the trusted decoding step of the check: attribute presence and value -> session
// index, 32-bit words -> 16-bit limbs.  No judgement is made here.
func (p *peer) decode(pkt *lradius.Packet) map[string]any {
	n := p.run.c.NSess
	ev := map[string]any{}
	st, _ := rfc2866.AcctStatusType_Lookup(pkt)
	ev["typ"] = typName(st)
	sid, err := rfc2866.AcctSessionID_LookupString(pkt)
	ev["sid"] = projStr(sid, err == nil, sessID, n)
	user, err := rfc2865.UserName_LookupString(pkt)
	ev["user"] = projStr(user, err == nil, sessUser, n)
	mac, err := rfc2865.CallingStationID_LookupString(pkt)
	ev["mac"] = projStr(strings.ToUpper(mac), err == nil, func(k int) string {
		m := sessMAC(k)
		return strings.ToUpper(strings.ReplaceAll(m.String(), ":", "-"))
	}, n)
	ip, err := rfc2865.FramedIPAddress_Lookup(pkt)
	ev["ip"] = projStr(ip.String(), err == nil, func(k int) string { return sessIP(k).String() }, n)
	port, err := rfc2865.NASPort_Lookup(pkt)
	ev["port"] = projStr(strconv.Itoa(int(port)), err == nil, func(k int) string { return strconv.Itoa(int(sessPort(k))) }, n)
	class, err := rfc2865.Class_LookupString(pkt)
	ev["class"] = projStr(class, err == nil, sessClass, n)
	inLo, _ := rfc2866.AcctInputOctets_Lookup(pkt)
	outLo, _ := rfc2866.AcctOutputOctets_Lookup(pkt)
	inGw, _ := rfc2869.AcctInputGigawords_Lookup(pkt)
	outGw, _ := rfc2869.AcctOutputGigawords_Lookup(pkt)
	ev["in_lo"] = limbs32(uint32(inLo))
	ev["in_gw"] = limbs32(uint32(inGw))
	ev["out_lo"] = limbs32(uint32(outLo))
	ev["out_gw"] = limbs32(uint32(outGw))
	return ev
}
