package acct

import (
	"encoding/json"
	"fmt"
	"math/rand"
	"os"
	"sort"
	"strconv"
	"strings"
	"sync"
	"testing"

	"verifharness/core"
)

type chain struct {
	Name  string           `json:"name"`
	Cfg   map[string]any   `json:"cfg"`
	Init  int              `json:"init"`
	Nodes []map[string]any `json:"nodes"`
	Edges [][]core.Edge    `json:"edges"`
}

type bundle struct {
	Systems []*chain `json:"systems"`
}

type runStats struct {
	Runs           int            `json:"runs"`
	Conclusive     int            `json:"conclusive"`
	Inconclusive   int            `json:"inconclusive"`
	InconclusiveBy map[string]int `json:"inconclusive_by"`
	CrashRuns      int            `json:"crash_runs"`
	CrashUnfired   int            `json:"crash_unfired"`
	DoubleCrash    int            `json:"double_crash_runs"`
	Events         int            `json:"events"`
	Accepted       int            `json:"records_accepted"`
	Refused        int            `json:"records_refused"`
	CrashPoints    map[string]int `json:"crash_points_fired"`
	PointsSeen     map[string]int `json:"crash_points_hit"`
	Bases          int            `json:"base_histories"`
	Hangs          int            `json:"hang_runs"` // runs that ended in a blocked API call (event "hang")
	Panics         []string       `json:"panics"`
	Parallel       int            `json:"parallel"`
}

const system = "AccountingManager"

func toChain(c caseSpec, res *result) *chain {
	spec, _ := json.Marshal(c)
	cp := "none"
	if len(c.Crashes) > 0 {
		var ps []string
		for _, x := range c.Crashes {
			ps = append(ps, x.Point)
		}
		cp = strings.Join(ps, "+")
	}
	ch := &chain{Name: system + "#" + c.ID, Init: 1,
		Cfg: map[string]any{"impl": system, "nsess": c.NSess, "budget": c.Budget, "crash": cp, "fired": res.Fired, "origin": c.Origin, "spec": string(spec)}}
	ch.Nodes = append(ch.Nodes, map[string]any{"i": 0})
	for i, e := range res.Events {
		ch.Nodes = append(ch.Nodes, map[string]any{"i": i + 1})
		ch.Edges = append(ch.Edges, []core.Edge{{ID: i + 1, To: i + 2, Ev: e}})
	}
	ch.Edges = append(ch.Edges, []core.Edge{})
	return ch
}

func parallelism() int {
	if v, err := strconv.Atoi(os.Getenv("VERIF_ACCT_PAR")); err == nil && v > 0 {
		return v
	}
	return 96
}

// runAll executes the cases concurrently (runs are sleep-bound: real 1 s retry ticker).
func runAll(cases []caseSpec) []*result {
	out := make([]*result, len(cases))
	var wg sync.WaitGroup
	ch := make(chan int)
	for w := 0; w < parallelism(); w++ {
		wg.Add(1)
		go func() {
			defer wg.Done()
			for i := range ch {
				out[i] = safeExecute(cases[i])
			}
		}()
	}
	for i := range cases {
		ch <- i
	}
	close(ch)
	wg.Wait()
	return out
}

func safeExecute(c caseSpec) (res *result) {
	defer func() {
		if e := recover(); e != nil {
			res = &result{Inconclusive: fmt.Sprintf("harness panic: %v", e)}
		}
	}()
	return execute(c)
}

func account(st *runStats, b *bundle, cases []caseSpec, results []*result) {
	for i, res := range results {
		c := cases[i]
		st.Runs++
		if len(c.Crashes) > 0 {
			st.CrashRuns++
			if res.Fired < len(c.Crashes) {
				st.CrashUnfired++
			}
			if res.Fired >= 2 {
				st.DoubleCrash++
			}
		}
		if res.Inconclusive != "" {
			st.Inconclusive++
			key := res.Inconclusive
			if j := strings.IndexAny(key, ":("); j > 0 {
				key = key[:j]
			}
			st.InconclusiveBy[key]++
			if os.Getenv("VERIF_DBG") != "" {
				sp, _ := json.Marshal(c)
				fmt.Printf("INCONCLUSIVE %s: %s\n   %s\n", c.ID, res.Inconclusive, sp)
			}
			continue
		}
		st.Conclusive++
		st.Events += len(res.Events)
		for _, e := range res.Events {
			switch e["op"] {
			case "recv":
				st.Accepted++
			case "drop":
				st.Refused++
			case "crash":
				st.CrashPoints[e["point"].(string)]++
			case "hang":
				st.Hangs++
			}
		}
		for _, h := range res.Hits {
			st.PointsSeen[h.Point]++
		}
		b.Systems = append(b.Systems, toChain(c, res))
	}
}

func TestExplore(t *testing.T) {
	out := core.OutDir()
	st := &runStats{InconclusiveBy: map[string]int{}, CrashPoints: map[string]int{}, PointsSeen: map[string]int{}, Parallel: parallelism()}
	b := &bundle{}
	if rf := os.Getenv("VERIF_REPLAY"); rf != "" {
		cases := loadCases(t, rf)
		account(st, b, cases, runAll(cases))
		write(t, out, b, st)
		return
	}
	tier, seed := core.Tier(), core.Seed()
	rng := rand.New(rand.NewSource(seed))
	budget := 2
	nSampled, nsess, depth, maxCrashPerSampled, nDouble, nUnknown := 36, 2, 4, 3, 0, 8
	if tier == "thorough" {
		nSampled, nsess, depth, maxCrashPerSampled, nDouble, nUnknown = 500, 3, 5, 8, 400, 100
	}
	bases := canonical(budget)
	ncanon := len(bases)
	bases = append(bases, sampleBases(rng, nSampled, nsess, depth, budget)...)
	// histories with a StopSession for an identifier that is not in the table; own generator, so
	// that the sample above is the same as without them
	bases = append(bases, sampleUnknownStop(rand.New(rand.NewSource(seed+7919)), nUnknown, nsess, depth, budget)...)
	for i := range bases {
		bases[i].ID = fmt.Sprintf("b%d", i)
	}
	st.Bases = len(bases)
	baseRes := runAll(bases)
	account(st, b, bases, baseRes)

	// one crash at every crash-point hit (canonical: all; sampled: a seeded subset)
	var crashCases []caseSpec
	for i, res := range baseRes {
		if res.Inconclusive != "" {
			continue
		}
		vs := crashVariants(bases[i], res.Hits, 0)
		if i >= ncanon && len(vs) > maxCrashPerSampled {
			rng.Shuffle(len(vs), func(a, b int) { vs[a], vs[b] = vs[b], vs[a] })
			vs = vs[:maxCrashPerSampled]
		}
		for j := range vs {
			vs[j].ID = fmt.Sprintf("%s.c%d", bases[i].ID, j)
		}
		crashCases = append(crashCases, vs...)
	}
	crashRes := runAll(crashCases)
	account(st, b, crashCases, crashRes)

	// a second crash (typically during recovery) for a seeded subset
	if nDouble > 0 {
		var dbl []caseSpec
		for i, res := range crashRes {
			if res.Inconclusive != "" || res.Fired != 1 {
				continue
			}
			vs := crashVariants(crashCases[i], res.Hits, 1)
			for j := range vs {
				vs[j].ID = fmt.Sprintf("%s.d%d", crashCases[i].ID, j)
			}
			dbl = append(dbl, vs...)
		}
		rng.Shuffle(len(dbl), func(a, b int) { dbl[a], dbl[b] = dbl[b], dbl[a] })
		if len(dbl) > nDouble {
			dbl = dbl[:nDouble]
		}
		sort.Slice(dbl, func(a, b int) bool { return dbl[a].ID < dbl[b].ID })
		account(st, b, dbl, runAll(dbl))
	}

	// extra cases (counterexamples of the design-level TLC run, translated by the driver)
	if xf := os.Getenv("VERIF_EXTRA"); xf != "" {
		cases := loadCases(t, xf)
		account(st, b, cases, runAll(cases))
	}
	write(t, out, b, st)
}

func write(t *testing.T, out string, b *bundle, st *runStats) {
	if err := core.WriteJSON(out, "bundle.json", b); err != nil {
		t.Fatal(err)
	}
	if err := core.WriteJSON(out, "stats.json", st); err != nil {
		t.Fatal(err)
	}
}

type replayCase struct {
	ID     string         `json:"id"`
	System string         `json:"system"`
	NSubs  int            `json:"nsubs"`
	Events []opSpec       `json:"events"`
	Cfg    map[string]any `json:"cfg"`
}

func loadCases(t *testing.T, file string) []caseSpec {
	raw, err := os.ReadFile(file)
	if err != nil {
		t.Fatal(err)
	}
	var rf struct {
		Cases []replayCase `json:"cases"`
	}
	if err := json.Unmarshal(raw, &rf); err != nil {
		t.Fatal(err)
	}
	var out []caseSpec
	for _, rc := range rf.Cases {
		var c caseSpec
		if s, ok := rc.Cfg["spec"].(string); ok && s != "" {
			if err := json.Unmarshal([]byte(s), &c); err != nil {
				t.Fatalf("case %s: bad spec: %v", rc.ID, err)
			}
		} else {
			// plain form: cfg holds nsess, budget, fail, crashes, counters
			bb, _ := json.Marshal(rc.Cfg)
			if err := json.Unmarshal(bb, &c); err != nil {
				t.Fatalf("case %s: bad cfg: %v", rc.ID, err)
			}
		}
		if len(rc.Events) > 0 {
			c.Ops = rc.Events
		}
		if c.NSess == 0 {
			c.NSess = rc.NSubs
		}
		if c.NSess == 0 {
			c.NSess = 2
		}
		if c.Budget == 0 {
			c.Budget = 2
		}
		if c.Fail == nil {
			c.Fail = map[string]int{}
		}
		if c.Counters == nil {
			c.Counters = canonCounters(c.NSess)
		}
		c.ID = rc.ID
		if o, ok := rc.Cfg["origin"].(string); ok && c.Origin == "" {
			c.Origin = o
		}
		out = append(out, c)
	}
	return out
}

// TestSmoke prints the observed event log of a few cases (development aid, not part of the check).
func TestSmoke(t *testing.T) {
	if os.Getenv("VERIF_SMOKE") == "" {
		t.Skip()
	}
	cs := canonical(2)
	for i := range cs {
		cs[i].ID = fmt.Sprintf("s%d", i)
	}
	if c := os.Getenv("VERIF_SMOKE_CRASH"); c != "" {
		parts := strings.Split(c, "#")
		n, _ := strconv.Atoi(parts[1])
		for i := range cs {
			cs[i].Crashes = []CrashSpec{{Point: parts[0], Hit: n}}
		}
	}
	rs := runAll(cs)
	for i, r := range rs {
		bb, _ := json.Marshal(cs[i].Ops)
		fmt.Printf("== %s ops=%s fail=%v inconclusive=%q fired=%d\n", cs[i].ID, bb, cs[i].Fail, r.Inconclusive, r.Fired)
		for _, e := range r.Events {
			eb, _ := json.Marshal(e)
			fmt.Printf("   %s\n", eb)
		}
		var hs []string
		for _, h := range r.Hits {
			hs = append(hs, fmt.Sprintf("%s#%d@%d", h.Point, h.Hit, h.Op))
		}
		fmt.Printf("   hits: %s\n", strings.Join(hs, " "))
	}
}
