package acct

import (
	"bytes"
	"encoding/json"
	"fmt"
	"io"
	"math"
	"os"
	"path/filepath"
	"runtime"
	"sort"
	"strconv"
	"strings"
	"sync"
	"sync/atomic"
	"time"
	"unsafe"

	"github.com/codelaboratoryltd/bng/pkg/radius"
	"go.uber.org/zap"
	"go.uber.org/zap/zapcore"
	"golang.org/x/time/rate"

	"verifharness/core"
)

// Timing parameters (real time: the manager's retry ticker is a hard-coded 1 s ticker).
// None of them can turn into a verdict: a wait that expires makes the run INCONCLUSIVE.
var (
	clientTimeout = 800 * time.Millisecond // < 1 s so that layeh's client sends exactly one datagram per SendAccounting
	pumpTimeout   = 8 * time.Second
	finalTimeout  = 25 * time.Second
	startTimeout  = 25 * time.Second
	tickSleep     = 1250 * time.Millisecond
	stableFor     = 1300 * time.Millisecond
	// Watchdog for API calls of the manager.  Unlike the waits above, its expiry IS an observation
	// (event "hang"): the longest a call of the unchanged code can take is bounded by its own timeouts
	// (StartSession/StopSession: one exchange, < 2 client timeouts; Stop(): ShutdownTimeout 4 s + one
	// exchange), i.e. about 6 s; the bound is far above that, and a window in which the scheduler
	// was starved for a substantial part (stall detector) is dropped as inconclusive instead.
	callTimeout  = 20 * time.Second
	callStallMax = 5 * time.Second
)

type Event = map[string]any

// Stall detector: a goroutine that sleeps 5 ms at a time; a wake-up that comes much later than
// that means the process (or the machine) was starved, and a reply may have missed the client
// timeout for reasons that have nothing to do with the code under test.  Runs that overlap a
// stall are dropped as inconclusive.
var stalls = struct {
	sync.Mutex
	iv   [][2]time.Time
	once sync.Once
}{}

const stallThreshold = 250 * time.Millisecond

func startStallDetector() {
	stalls.once.Do(func() {
		go func() {
			for {
				t0 := time.Now()
				time.Sleep(5 * time.Millisecond)
				if t1 := time.Now(); t1.Sub(t0) > stallThreshold {
					stalls.Lock()
					stalls.iv = append(stalls.iv, [2]time.Time{t0, t1})
					stalls.Unlock()
				}
			}
		}()
	})
}

// stalledFor: total length of the recorded stalls that overlap [a, b]
func stalledFor(a, b time.Time) time.Duration {
	stalls.Lock()
	defer stalls.Unlock()
	var d time.Duration
	for _, iv := range stalls.iv {
		if iv[0].Before(b) && iv[1].After(a) {
			d += iv[1].Sub(iv[0])
		}
	}
	return d
}

func stalledBetween(a, b time.Time) bool {
	stalls.Lock()
	defer stalls.Unlock()
	for _, iv := range stalls.iv {
		if iv[0].Before(b) && iv[1].After(a) {
			return true
		}
	}
	return false
}

// CrashSpec: crash at the Hit-th occurrence (1-based, counted from the run's start or from the
// previous crash) of crash point Point.
type CrashSpec struct {
	Point string `json:"point"`
	Hit   int    `json:"hit"`
}

type opSpec struct {
	Op  string `json:"op"`
	Sid int    `json:"sid,omitempty"`
}

// caseSpec is one run: a history, a per-record-kind refusal script, crash injections, counters.
type caseSpec struct {
	ID       string                 `json:"id"`
	NSess    int                    `json:"nsess"`
	Budget   int                    `json:"budget"` // MaxRetries
	Ops      []opSpec               `json:"events"`
	Fail     map[string]int         `json:"fail"`     // "stop:1" -> number of arrivals of that record kind the peer refuses first
	Crashes  []CrashSpec            `json:"crashes"`  // in order
	Counters map[string][][2]string `json:"counters"` // session -> successive (input, output) octet values (decimal strings)
	Origin   string                 `json:"origin,omitempty"`
	NoDrain  bool                   `json:"nodrain,omitempty"` // DrainOnShutdown = false: a graceful stop leaves sessions and pending records to the next incarnation
}

type hitRec struct {
	Point string `json:"point"`
	Hit   int    `json:"hit"`
	Op    int    `json:"op"`    // index of the history event during which the point was hit (-1 boot, len = final phase)
	Epoch int    `json:"epoch"` // number of crashes that fired before this hit
}

type result struct {
	Events       []Event
	Hits         []hitRec
	Inconclusive string
	Notes        []string
	Fired        int
}

type incarnation struct {
	id       int
	am       *radius.AccountingManager
	peer     *peer
	dir      string
	dead     bool // crashed or ended: nothing it does is observed any more
	crashed  bool
	snapshot string
	// processor scheduling
	procBusy, procWaiting, procEnds int
	accepted                        int   // records the peer accepted (answered)
	arrived                         int   // Accounting-Requests that reached the peer while the incarnation was alive
	success                         int64 // SendAccounting calls the client saw succeed
	client                          *radius.Client
}

// The client's rate limiter is configured with a practically infinite burst and no refill, so
// burst - Tokens() is the exact number of SendAccounting calls made so far.
const limiterBurst = 1 << 30

func (inc *incarnation) calls() int {
	if inc.client == nil {
		return 0
	}
	l := core.Field(inc.client, "limiters").Index(0).Interface().(*rate.Limiter)
	return int(math.Round(float64(limiterBurst) - l.Tokens()))
}

type run struct {
	mu   sync.Mutex
	cv   *sync.Cond
	c    caseSpec
	log  []Event
	hits map[string]int
	hl   []hitRec
	opIx int

	crashes []CrashSpec
	fired   int
	cur     *incarnation
	incs    []*incarnation
	fail    map[string]int
	used    map[int]bool
	fetchIx map[int]int

	gateOpen bool
	permits  int
	final    bool // final phase: only the processor sends, so crash instants there are exchange-free too
	writing  bool // Stop() is between shutdown.drained and shutdown.persisted (writing pending.json)

	inconclusive string
	notes        []string
	base         string
	goids        []int64
	ended        bool // the observation ended before the end of the history (event "hang")
}

// ---------------------------------------------------------------------------------------------
// goroutine -> run resolution (the hook is a package-level func(string) in pkg/radius)

type binding struct {
	r   *run
	inc *incarnation // nil: the run's driver goroutine (-> current incarnation)
}

var reg = struct {
	sync.RWMutex
	m map[int64]*binding
}{m: map[int64]*binding{}}

var hookOnce sync.Once

func installHook() { hookOnce.Do(func() { radius.VerifSetCrashPointFn(hook) }) }

func goid() int64 {
	var buf [64]byte
	n := runtime.Stack(buf[:], false)
	// "goroutine 123 [running]:"
	s := buf[10:n]
	i := bytes.IndexByte(s, ' ')
	if i < 0 {
		return -1
	}
	id, _ := strconv.ParseInt(string(s[:i]), 10, 64)
	return id
}

func parentGoid() int64 {
	sz := 16 << 10
	for {
		buf := make([]byte, sz)
		n := runtime.Stack(buf, false)
		if n == sz && sz < 1<<20 {
			sz *= 4
			continue
		}
		s := string(buf[:n])
		i := strings.LastIndex(s, " in goroutine ")
		if i < 0 {
			return -1
		}
		rest := s[i+len(" in goroutine "):]
		j := strings.IndexAny(rest, "\n ")
		if j >= 0 {
			rest = rest[:j]
		}
		id, err := strconv.ParseInt(rest, 10, 64)
		if err != nil {
			return -1
		}
		return id
	}
}

func lookup(g int64) *binding {
	reg.RLock()
	b := reg.m[g]
	reg.RUnlock()
	return b
}

func (r *run) register(g int64, inc *incarnation) {
	reg.Lock()
	reg.m[g] = &binding{r: r, inc: inc}
	reg.Unlock()
	r.mu.Lock()
	r.goids = append(r.goids, g)
	r.mu.Unlock()
}

func hook(name string) {
	g := goid()
	b := lookup(g)
	if b == nil {
		pb := lookup(parentGoid())
		if pb == nil {
			return
		}
		inc := pb.inc
		if inc == nil {
			pb.r.mu.Lock()
			inc = pb.r.cur
			pb.r.mu.Unlock()
		}
		pb.r.register(g, inc)
		b = lookup(g)
	}
	b.r.hook(name, b.inc)
}

func (r *run) hook(name string, inc *incarnation) {
	r.mu.Lock()
	if inc == nil {
		inc = r.cur
	}
	if inc == nil || inc.dead {
		r.mu.Unlock()
		return
	}
	if name == "proc.begin" {
		// the gate: in scheduled mode the processor proceeds only when the driver pumps it, i.e.
		// while no API call is executing; the crash point is evaluated on release, so a crash
		// here never coincides with a file write of an API call (writes are treated as atomic)
		inc.procWaiting++
		for !r.gateOpen && r.permits == 0 && !inc.dead {
			r.cv.Wait()
		}
		inc.procWaiting--
		if inc.dead {
			r.cv.Broadcast()
			r.mu.Unlock()
			return
		}
		if !r.gateOpen && r.permits > 0 {
			r.permits--
		}
		inc.procBusy++
		r.cv.Broadcast()
	}
	if name == "shutdown.persisted" {
		r.writing = false
	}
	r.hits[name]++
	n := r.hits[name]
	r.hl = append(r.hl, hitRec{Point: name, Hit: n, Op: r.opIx, Epoch: r.fired})
	// while Stop() writes pending.json, a marker passed by another goroutine is not a crash instant
	if len(r.crashes) > 0 && r.crashes[0].Point == name && r.crashes[0].Hit == n && !r.writing {
		// CRASH: from here on nothing this incarnation does is observed; the new incarnation
		// starts from the directory as it is at this instant.
		r.crashes = r.crashes[1:]
		r.fired++
		exact := !r.gateOpen || r.final // no exchange can be in flight at this instant
		if exact && int64(inc.accepted) != atomic.LoadInt64(&inc.success) && r.inconclusive == "" {
			r.inconclusive = "timing-ack: a reply arrived after the client timeout (before the crash)"
		}
		if exact && inc.calls() != inc.arrived && r.inconclusive == "" {
			r.inconclusive = "environment-send: a request did not reach the peer (before the crash)"
		}
		inc.dead, inc.crashed = true, true
		r.log = append(r.log, Event{"op": "crash", "point": name, "inc": inc.id})
		snap := filepath.Join(r.base, fmt.Sprintf("snap%d", inc.id))
		if err := copyDir(inc.dir, snap); err != nil {
			r.inconclusive = "snapshot failed: " + err.Error()
		}
		inc.snapshot = snap
		r.hits = map[string]int{}
		r.writing = false
		r.cv.Broadcast()
		am := inc.am
		r.mu.Unlock()
		am.VerifKill()
		return
	}
	switch name {
	case "shutdown.drained":
		r.writing = true
	case "proc.end":
		inc.procBusy--
		inc.procEnds++
		r.cv.Broadcast()
	}
	r.mu.Unlock()
}

// ---------------------------------------------------------------------------------------------

func (r *run) note(s string) {
	r.mu.Lock()
	r.notes = append(r.notes, s)
	r.mu.Unlock()
}

func (r *run) setInconclusive(s string) {
	r.mu.Lock()
	if r.inconclusive == "" {
		r.inconclusive = s
	}
	r.mu.Unlock()
}

// peerDecide is called by the peer for every decodable Accounting-Request of incarnation inc.
func (r *run) peerDecide(inc *incarnation, ev Event) bool {
	r.mu.Lock()
	defer r.mu.Unlock()
	if inc.dead {
		return false
	}
	inc.arrived++
	ev["inc"] = inc.id
	kind := fmt.Sprintf("%v:%v", ev["typ"], ev["sid"])
	if r.fail[kind] > 0 {
		r.fail[kind]--
		r.log = append(r.log, Event{"op": "drop", "inc": inc.id, "typ": ev["typ"], "sid": ev["sid"]})
		return false
	}
	ev["op"] = "recv"
	r.log = append(r.log, ev)
	inc.accepted++
	return true
}

func (r *run) fetcher(inc *incarnation) radius.CounterFetcher {
	return func(sessionID string) (*radius.SessionCounters, error) {
		k := 0
		for i := 1; i <= r.c.NSess; i++ {
			if sessID(i) == sessionID {
				k = i
			}
		}
		if k == 0 {
			return nil, fmt.Errorf("unknown session")
		}
		r.mu.Lock()
		defer r.mu.Unlock()
		vals := r.c.Counters[strconv.Itoa(k)]
		if len(vals) == 0 {
			return nil, fmt.Errorf("no counters")
		}
		i := r.fetchIx[k]
		if i >= len(vals) {
			i = len(vals) - 1
		}
		r.fetchIx[k]++
		in, _ := strconv.ParseUint(vals[i][0], 10, 64)
		out, _ := strconv.ParseUint(vals[i][1], 10, 64)
		if !inc.dead {
			r.log = append(r.log, Event{"op": "fetch", "sid": k, "inl": Limbs64(in), "outl": Limbs64(out)})
		}
		return &radius.SessionCounters{InputOctets: in, OutputOctets: out, InputPackets: in / 1500, OutputPackets: out / 1500}, nil
	}
}

func copyDir(src, dst string) error {
	return filepath.Walk(src, func(p string, info os.FileInfo, err error) error {
		if err != nil {
			return err
		}
		rel, _ := filepath.Rel(src, p)
		t := filepath.Join(dst, rel)
		if info.IsDir() {
			return os.MkdirAll(t, 0o755)
		}
		b, err := os.ReadFile(p)
		if err != nil {
			return err
		}
		return os.WriteFile(t, b, 0o600)
	})
}

func (r *run) startIncarnation(dir string) {
	inc := &incarnation{id: len(r.incs) + 1, dir: dir}
	p, err := newPeer(r, inc)
	if err != nil {
		r.setInconclusive("peer socket: " + err.Error())
		return
	}
	inc.peer = p
	core0 := zapcore.NewCore(zapcore.NewJSONEncoder(zap.NewProductionEncoderConfig()), zapcore.AddSync(io.Discard), zapcore.DebugLevel)
	clog := zap.New(core0, zap.Hooks(func(e zapcore.Entry) error {
		if e.Message == "RADIUS accounting sent" {
			atomic.AddInt64(&inc.success, 1)
		}
		return nil
	}))
	cl, err := radius.NewClient(radius.ClientConfig{
		Servers: []radius.ServerConfig{{Host: "127.0.0.1", Port: p.port - 1, Secret: secret}},
		NASID:   "verif-nas", Timeout: clientTimeout, Retries: 1,
		RateLimit: radius.RateLimitConfig{RequestsPerSecond: 1e-9, BurstSize: limiterBurst},
	}, clog)
	if err != nil {
		r.setInconclusive("client: " + err.Error())
		return
	}
	am, err := radius.NewAccountingManager(cl, radius.AccountingConfig{
		DefaultInterimInterval: time.Hour, InterimEnabled: false,
		MaxRetries: r.c.Budget, RetryBaseDelay: time.Millisecond, RetryMaxDelay: 4 * time.Millisecond,
		QueueSize: 256, PersistPath: dir, ShutdownTimeout: 4 * time.Second, DrainOnShutdown: !r.c.NoDrain,
	}, zap.NewNop())
	if err != nil {
		r.setInconclusive("manager: " + err.Error())
		return
	}
	am.SetCounterFetcher(r.fetcher(inc))
	inc.am = am
	inc.client = cl
	r.mu.Lock()
	r.incs = append(r.incs, inc)
	r.cur = inc
	r.gateOpen, r.permits, r.final = false, 0, false
	r.log = append(r.log, Event{"op": "boot", "inc": inc.id})
	r.mu.Unlock()
	done := make(chan error, 1)
	go func() {
		r.register(goid(), inc)
		done <- am.Start()
	}()
	select {
	case err := <-done:
		if err != nil {
			r.setInconclusive("Start(): " + err.Error())
		}
		r.ackCheck(inc) // recovery sends are sequential and complete here
	case <-time.After(startTimeout):
		r.setInconclusive("Start() did not return")
	}
}

func (r *run) isEnded() bool {
	r.mu.Lock()
	defer r.mu.Unlock()
	return r.ended
}

func (r *run) ok() bool {
	r.mu.Lock()
	defer r.mu.Unlock()
	return r.inconclusive == ""
}

// ensureLive restarts the manager after a crash (on the snapshot) or a graceful stop (same directory).
func (r *run) ensureLive() {
	for i := 0; i < 6 && r.ok(); i++ {
		r.mu.Lock()
		cur := r.cur
		dead := cur == nil || cur.dead
		r.mu.Unlock()
		if !dead {
			return
		}
		dir := filepath.Join(r.base, "inc1")
		if cur != nil {
			dir = cur.dir
			if cur.crashed {
				dir = cur.snapshot
			}
		}
		r.startIncarnation(dir)
	}
}

// depth reads the manager's pending-record count and channel length.  Not through GetStats():
// that takes the session-table lock, and a manager whose session table is blocked must not be
// able to block the harness.
func (r *run) depth(inc *incarnation) (int, int) {
	p := (*uint64)(unsafe.Pointer(core.Field(inc.am, "pendingQueueDepth").UnsafeAddr()))
	d := int(atomic.LoadUint64(p))
	l := core.Field(inc.am, "pendingQueue").Len()
	return d, l
}

// ackCheck: environment assumption "no acknowledgement is lost after acceptance" (DESIGN section 6).
// Called only at instants where no exchange of the incarnation can be in flight.
func (r *run) ackCheck(inc *incarnation) {
	r.mu.Lock()
	defer r.mu.Unlock()
	if inc.dead && inc.crashed {
		return
	}
	if int64(inc.accepted) != atomic.LoadInt64(&inc.success) && r.inconclusive == "" {
		r.inconclusive = fmt.Sprintf("timing-ack: peer answered %d requests but the client saw %d answers (reply arrived after the client timeout)", inc.accepted, atomic.LoadInt64(&inc.success))
	}
	// ... and "a request that fails was refused by the peer": every SendAccounting call reached the peer
	if c := inc.calls(); c != inc.arrived && r.inconclusive == "" {
		r.inconclusive = fmt.Sprintf("environment-send: the client issued %d requests but %d reached the peer (a send failed locally)", c, inc.arrived)
	}
}

func (r *run) quiescentLocked(inc *incarnation) bool {
	d, l := r.depth(inc)
	return d == 0 && l == 0 && inc.procBusy == 0 && inc.procWaiting == 0
}

// pump lets the pending-record processor perform exactly one processPendingRecord.
func (r *run) pump() string {
	r.mu.Lock()
	inc := r.cur
	if inc.dead {
		r.mu.Unlock()
		return "dead"
	}
	if r.quiescentLocked(inc) {
		r.log = append(r.log, Event{"op": "sched", "what": "pump-noop"})
		r.mu.Unlock()
		return "noop"
	}
	target := inc.procEnds + 1
	r.permits++
	r.cv.Broadcast()
	deadline := time.Now().Add(pumpTimeout)
	for inc.procEnds < target && !inc.dead {
		r.mu.Unlock()
		time.Sleep(2 * time.Millisecond)
		r.mu.Lock()
		if time.Now().After(deadline) {
			if r.inconclusive == "" {
				r.inconclusive = "pump: processor made no step although records are pending"
			}
			r.permits = 0
			r.mu.Unlock()
			return "timeout"
		}
	}
	if !inc.dead {
		r.log = append(r.log, Event{"op": "sched", "what": "pump"})
	}
	r.mu.Unlock()
	r.ackCheck(inc)
	return "ok"
}

func (r *run) settle() {
	for i := 0; i < 60 && r.ok(); i++ {
		if s := r.pump(); s != "ok" {
			return
		}
	}
}

func (r *run) session(k int) *radius.AccountingSession {
	return &radius.AccountingSession{
		SessionID: sessID(k), Username: sessUser(k), MAC: sessMAC(k), FramedIP: sessIP(k), NASPort: sessPort(k),
		CircuitID: "circuit-" + strconv.Itoa(k), RemoteID: "remote-" + strconv.Itoa(k), Class: []byte(sessClass(k)),
	}
}

func (r *run) logEv(e Event) {
	r.mu.Lock()
	r.log = append(r.log, e)
	r.mu.Unlock()
}

// ret logs the return of an API call unless the incarnation crashed inside the call.
func (r *run) ret(inc *incarnation, call string, sid int, ok bool) {
	r.mu.Lock()
	if !inc.dead {
		r.log = append(r.log, Event{"op": "ret", "call": call, "sid": sid, "ok": ok})
	}
	r.mu.Unlock()
	r.ackCheck(inc)
}

func (r *run) apply(op opSpec) {
	r.mu.Lock()
	inc := r.cur
	r.mu.Unlock()
	switch op.Op {
	case "start":
		if r.used[op.Sid] {
			return // session identifiers are never reused
		}
		r.used[op.Sid] = true
		r.logEv(Event{"op": "call", "call": "start", "sid": op.Sid})
		var err error
		if r.guarded(inc, "start", op.Sid, func() { err = inc.am.StartSession(r.session(op.Sid)) }) {
			r.ret(inc, "start", op.Sid, err == nil)
		}
	case "stop":
		// the session need not be in the table (never started, already stopped, held by an earlier incarnation)
		r.logEv(Event{"op": "call", "call": "stop", "sid": op.Sid})
		var err error
		if r.guarded(inc, "stop", op.Sid, func() { err = inc.am.StopSession(sessID(op.Sid), radius.TerminateCauseUserRequest) }) {
			r.ret(inc, "stop", op.Sid, err == nil)
		}
	case "interim":
		r.logEv(Event{"op": "call", "call": "interim", "sid": op.Sid})
		var ok bool
		if r.guarded(inc, "interim", op.Sid, func() { ok = inc.am.VerifSendInterim(sessID(op.Sid)) }) {
			r.ret(inc, "interim", op.Sid, ok)
		}
	case "pump":
		r.pump()
	case "settle":
		r.settle()
	case "tick":
		time.Sleep(tickSleep)
		r.logEv(Event{"op": "sched", "what": "tick"})
	case "graceful":
		r.mu.Lock()
		r.gateOpen = true
		r.log = append(r.log, Event{"op": "call", "call": "graceful", "sid": 0})
		r.cv.Broadcast()
		r.mu.Unlock()
		g0 := time.Now()
		if !r.guarded(inc, "graceful", 0, func() { inc.am.Stop() }) {
			return
		}
		if stalledBetween(g0.Add(-clientTimeout), time.Now()) {
			r.setInconclusive("timing-stall: scheduler stall while the manager was shutting down")
		}
		r.mu.Lock()
		crashed := inc.dead
		if !inc.dead {
			r.log = append(r.log, Event{"op": "ret", "call": "graceful", "sid": 0, "ok": true})
			inc.dead = true
		}
		r.mu.Unlock()
		// no ackCheck here: Stop() cancels the context, which legitimately abandons an exchange
		// in flight; starvation artefacts in this phase are caught by the stall detector (above)
		_ = crashed
	}
}

// durable lists the sessions for which the persistence directory holds a record from which a
// later incarnation sends an Accounting-Stop: a persisted session file, or a Stop in pending.json.
func (r *run) durable(dir string) []int {
	set := map[int]bool{}
	idx := func(id string) int {
		for k := 1; k <= r.c.NSess; k++ {
			if sessID(k) == id {
				return k
			}
		}
		return 0
	}
	ents, _ := os.ReadDir(filepath.Join(dir, "sessions"))
	for _, e := range ents {
		b, err := os.ReadFile(filepath.Join(dir, "sessions", e.Name()))
		if err != nil {
			continue
		}
		var s struct{ SessionID string }
		if json.Unmarshal(b, &s) == nil {
			if k := idx(s.SessionID); k > 0 {
				set[k] = true
			}
		}
	}
	if b, err := os.ReadFile(filepath.Join(dir, "pending.json")); err == nil {
		var recs map[string]struct {
			Request struct {
				SessionID  string
				StatusType uint32
			} `json:"request"`
		}
		if json.Unmarshal(b, &recs) == nil {
			for _, rec := range recs {
				if rec.Request.StatusType == 2 {
					if k := idx(rec.Request.SessionID); k > 0 {
						set[k] = true
					}
				}
			}
		}
	}
	out := []int{}
	for k := range set {
		out = append(out, k)
	}
	sort.Ints(out)
	return out
}

// downLocked lists the sessions for whose Accounting-Stop the peer is still unreachable: the
// refusal script would refuse the next Stop of that session ("while the server stays down").
func (r *run) downLocked() []int {
	out := []int{}
	for k := 1; k <= r.c.NSess; k++ {
		if r.fail[fmt.Sprintf("stop:%d", k)] > 0 {
			out = append(out, k)
		}
	}
	return out
}

// guarded runs one API call of incarnation inc under the watchdog.  The call executes on its own
// goroutine, so a call that blocks for ever cannot block the run (the goroutine is abandoned with
// its incarnation).  Reports whether the call returned.
func (r *run) guarded(inc *incarnation, call string, sid int, fn func()) bool {
	done := make(chan struct{})
	t0 := time.Now()
	go func() {
		defer close(done)
		r.register(goid(), inc)
		fn()
	}()
	tm := time.NewTimer(callTimeout)
	defer tm.Stop()
	select {
	case <-done:
		return true
	case <-tm.C:
	}
	r.hang(inc, call, sid, t0, done)
	return false
}

// hang: an API call of inc has not returned within callTimeout.  If the incarnation crashed
// meanwhile (crash point inside the call or in the processor) the process is dead anyway and the
// run goes on with the next incarnation.  Otherwise the processor is left free-running until
// everything it can still deliver is delivered (as in the final phase), the observation "hang" is
// recorded with what the persistence directory holds, and the run ends: the blocked incarnation
// is abandoned (killed at teardown, unobserved).
func (r *run) hang(inc *incarnation, call string, sid int, t0 time.Time, done <-chan struct{}) {
	if stalledFor(t0, time.Now()) > callStallMax {
		r.setInconclusive("timing-stall: scheduler stalls while an API call was pending")
		return
	}
	r.mu.Lock()
	r.gateOpen, r.final = true, true
	r.cv.Broadcast()
	r.mu.Unlock()
	deadline := time.Now().Add(finalTimeout)
	var stable time.Time
	for {
		r.mu.Lock()
		dead := inc.dead
		q := r.quiescentLocked(inc)
		r.mu.Unlock()
		if dead {
			return // crashed: nothing this incarnation does (or fails to do) is observed any more
		}
		now := time.Now()
		if q {
			if stable.IsZero() {
				stable = now
			} else if now.Sub(stable) >= stableFor {
				break
			}
		} else {
			stable = time.Time{}
		}
		if now.After(deadline) {
			r.setInconclusive("hang: the pending queue did not drain")
			return
		}
		time.Sleep(10 * time.Millisecond)
	}
	r.ackCheck(inc)
	select {
	case <-done:
		// it did return after all (at least callTimeout + stableFor late): not a blocked call, and
		// not a run whose timing can be trusted
		r.setInconclusive("timing-late: an API call returned after the watchdog bound")
		return
	default:
	}
	r.mu.Lock()
	if !inc.dead && r.inconclusive == "" {
		r.log = append(r.log, Event{"op": "hang", "call": call, "sid": sid, "inc": inc.id, "durable": r.durable(inc.dir), "down": r.downLocked()})
		inc.dead = true
		r.ended = true
	}
	r.mu.Unlock()
}

// finalPhase: free-running processor, wait for quiescence (all retries drained), observe.
func (r *run) finalPhase() {
	for round := 0; round < 6 && r.ok(); round++ {
		r.ensureLive()
		if !r.ok() {
			return
		}
		r.mu.Lock()
		inc := r.cur
		r.gateOpen = true
		r.final = true
		r.cv.Broadcast()
		r.mu.Unlock()
		deadline := time.Now().Add(finalTimeout)
		var stable time.Time
		crashed := false
		for {
			r.mu.Lock()
			if inc.dead {
				crashed = true
				r.mu.Unlock()
				break
			}
			q := r.quiescentLocked(inc)
			r.mu.Unlock()
			now := time.Now()
			if q {
				if stable.IsZero() {
					stable = now
				} else if now.Sub(stable) >= stableFor {
					break
				}
			} else {
				stable = time.Time{}
			}
			if now.After(deadline) {
				r.setInconclusive("final phase: the pending queue did not drain")
				return
			}
			time.Sleep(10 * time.Millisecond)
		}
		if crashed {
			// the free-running phase ended in a crash: no exact acknowledgement check is possible
			if stalledBetween(deadline.Add(-finalTimeout-clientTimeout), time.Now()) {
				r.setInconclusive("timing-stall: scheduler stall in a free-running phase that ended in a crash")
			}
			continue
		}
		r.ackCheck(inc)
		r.mu.Lock()
		if !inc.dead {
			r.log = append(r.log, Event{"op": "quiesce", "inc": inc.id, "durable": r.durable(inc.dir), "down": r.downLocked()})
			inc.dead = true // observation over; nothing later is recorded
		}
		r.mu.Unlock()
		return
	}
}

func execute(c caseSpec) *result {
	installHook()
	startStallDetector()
	t0 := time.Now()
	base, err := os.MkdirTemp("", "acct-run-")
	if err != nil {
		return &result{Inconclusive: "tempdir: " + err.Error()}
	}
	r := &run{c: c, hits: map[string]int{}, fail: map[string]int{}, used: map[int]bool{}, fetchIx: map[int]int{}, base: base, opIx: -1}
	r.cv = sync.NewCond(&r.mu)
	for k, v := range c.Fail {
		r.fail[k] = v
	}
	r.crashes = append(r.crashes, c.Crashes...)
	res := &result{}
	done := make(chan struct{})
	go func() {
		defer close(done)
		r.register(goid(), nil)
		os.MkdirAll(filepath.Join(base, "inc1"), 0o755)
		r.ensureLive()
		for i, op := range c.Ops {
			if !r.ok() || r.isEnded() {
				break
			}
			r.mu.Lock()
			r.opIx = i
			r.mu.Unlock()
			r.ensureLive()
			if !r.ok() {
				break
			}
			r.apply(op)
		}
		r.mu.Lock()
		r.opIx = len(c.Ops)
		r.mu.Unlock()
		if r.ok() && !r.isEnded() {
			r.finalPhase()
		}
	}()
	<-done
	// teardown: every incarnation dies, gates open
	r.mu.Lock()
	for _, inc := range r.incs {
		inc.dead = true
	}
	r.gateOpen = true
	r.cv.Broadcast()
	incs := append([]*incarnation{}, r.incs...)
	goids := append([]int64{}, r.goids...)
	r.mu.Unlock()
	for _, inc := range incs {
		if inc.am != nil {
			inc.am.VerifKill()
		}
		if inc.peer != nil {
			inc.peer.close()
		}
	}
	reg.Lock()
	for _, g := range goids {
		delete(reg.m, g)
	}
	reg.Unlock()
	os.RemoveAll(base)
	r.mu.Lock()
	defer r.mu.Unlock()
	res.Events = r.log
	res.Hits = r.hl
	res.Inconclusive = r.inconclusive
	_ = t0
	res.Notes = r.notes
	res.Fired = r.fired
	return res
}
