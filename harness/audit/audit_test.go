//go:build verif

package audit

import (
	"encoding/json"
	"fmt"
	"math/rand"
	"os"
	"strings"
	"testing"

	"verifharness/core"
)

type replayCase struct {
	ID     string         `json:"id"`
	System string         `json:"system"`
	Events []core.Event   `json:"events"`
	Cfg    map[string]any `json:"cfg"`
}

type replayFile struct {
	Property string       `json:"property"`
	Cases    []replayCase `json:"cases"`
}

type runStats struct {
	Systems     int                `json:"systems"`
	Nodes       int                `json:"nodes"`
	Edges       int                `json:"edges"`
	Chains      int                `json:"chains"`
	ChainEvents int                `json:"chain_events"`
	Closed      int                `json:"closed_systems"`
	Panics      []core.PanicRecord `json:"panics"`
	PerSystem   map[string][3]int  `json:"per_system"`
}

// event type indexes (see types in system.go)
const (
	tSessStart = 1
	tSessStop  = 2
	tAuthFail  = 3
	tNat       = 4
	tDhcpAck   = 5
	tSysErr    = 8
	tConfig    = 9
	tBrute     = 10

	cSession = 1
	cAuth    = 2
	cNat     = 3
	cDhcp    = 4
	cSystem  = 5
)

func q(f func(*QuerySpec)) QuerySpec {
	s := QuerySpec{}
	f(&s)
	return s
}

var smallSlots = []Slot{
	{Ty: tSessStart, Sub: 1, Sess: 1, IP: 1, Mac: 1, Isp: 1, Ts: 0, HasExp: true, Exp: 1},
	{Ty: tSessStop, Sub: 1, Sess: 1, IP: 1, Mac: 1, Isp: 1, Ts: 1, HasExp: true, Exp: 2},
	{Ty: tAuthFail, Sub: 2, Sess: 0, IP: 2, Mac: 2, Isp: 1, Ts: 2},
	{Ty: tNat, Sub: 2, Sess: 2, IP: 0, Mac: 0, Isp: 2, Ts: -1, HasExp: true, Exp: 1},
}

var smallQueries = []QuerySpec{
	{},
	{Asc: true},
	{Limit: 2},
	{Limit: 1, Offset: 1, Asc: true},
	{Offset: 3},
	{Has0: true, T0: 1},
	{Has1: true, T1: 1, Asc: true},
	{Has0: true, T0: -1, Has1: true, T1: 3, Limit: 3, Offset: 1},
	{Sub: 1},
	{Sub: 2, MinSev: 1},
	{Sess: 1, Limit: 1},
	{Types: []int{tSessStart, tNat}},
	{Cats: []int{cSession, cAuth}, Asc: true},
	{IP: 1},
	{Mac: 2},
	{Isp: 1, Offset: 1},
	{MinSev: 3},
	{Types: []int{tSessStop}, Sub: 2},
}

var bigSlots = []Slot{
	{Ty: tSessStart, Sub: 1, Sess: 1, IP: 1, Mac: 1, Isp: 1, Ts: -2, HasExp: true, Exp: 1},
	{Ty: tSessStop, Sub: 1, Sess: 1, IP: 1, Mac: 1, Isp: 1, Ts: 0, HasExp: true, Exp: 3},
	{Ty: tAuthFail, Sub: 2, Sess: 0, IP: 2, Mac: 2, Isp: 1, Ts: 0},
	{Ty: tNat, Sub: 2, Sess: 2, IP: 2, Mac: 2, Isp: 2, Ts: 1, HasExp: true, Exp: 2},
	{Ty: tNat, Sub: 3, Sess: 3, IP: 3, Mac: 3, Isp: 2, Ts: 1, HasExp: true, Exp: 2},
	{Ty: tDhcpAck, Sub: 3, Sess: 0, IP: 3, Mac: 3, Isp: 0, Ts: 2, HasExp: true, Exp: 5},
	{Ty: tSysErr, Sub: 0, Sess: 0, Ts: 3, HasExp: true, Exp: 4},
	{Ty: tBrute, Sub: 1, Sess: 0, IP: 1, Mac: 0, Isp: 1, Ts: 3},
	{Ty: tSessStart, Sub: 3, Sess: 3, IP: 3, Mac: 3, Isp: 2, Ts: 4, HasExp: true, Exp: 6},
	{Ty: tConfig, Sub: 0, Sess: 0, Ts: -1, HasExp: true, Exp: 0},
}

// distinctTs gives every slot its own timestamp: with equal timestamps the page a query returns depends on Go's map iteration
// order (which of the tied events, and in which order, is open in the contract) and a transition table needs determinism.
func distinctTs(in []Slot) []Slot {
	out := append([]Slot{}, in...)
	for i := range out {
		out[i].Ts = i - 2
	}
	return out
}

// bigQueries: every filter alone and pseudo-random combinations (fixed: part of the configuration's identity).
func bigQueries() []QuerySpec {
	l := append([]QuerySpec{}, smallQueries...)
	rng := rand.New(rand.NewSource(20260923))
	for len(l) < 60 {
		s := QuerySpec{}
		if rng.Intn(3) == 0 {
			s.Has0, s.T0 = true, 2*rng.Intn(6)-5
		}
		if rng.Intn(3) == 0 {
			s.Has1, s.T1 = true, 2*rng.Intn(6)-1
		}
		switch rng.Intn(6) {
		case 0:
			s.Types = []int{1 + rng.Intn(10), 1 + rng.Intn(10)}
		case 1:
			s.Cats = []int{1 + rng.Intn(7)}
		}
		switch rng.Intn(8) {
		case 0:
			s.Sub = 1 + rng.Intn(3)
		case 1:
			s.Sess = 1 + rng.Intn(3)
		case 2:
			s.IP = 1 + rng.Intn(3)
		case 3:
			s.Mac = 1 + rng.Intn(3)
		case 4:
			s.Isp = 1 + rng.Intn(2)
		}
		if rng.Intn(4) == 0 {
			s.MinSev = rng.Intn(5)
		}
		if rng.Intn(2) == 0 {
			s.Limit = 1 + rng.Intn(4)
		}
		if rng.Intn(2) == 0 {
			s.Offset = rng.Intn(4)
		}
		s.Asc = rng.Intn(2) == 0
		l = append(l, s)
	}
	return l
}

var retSlots = []Slot{
	{Ty: tSessStart, Sub: 1, Sess: 1, IP: 1, Mac: 1, Ts: 0},
	{Ty: tAuthFail, Sub: 2, Sess: 0, IP: 2, Mac: 2, Ts: 2},
	{Ty: tSessStart, Sub: 2, Sess: 2, IP: 0, Mac: 0, Ts: 4},
}

var retHolds = []HoldSpec{
	{Subs: []int{1}, Life: 2},
	{Subs: []int{2, 3}, Types: []int{tAuthFail}, Life: 0},
	{Has0: true, T0: 3, Has1: true, T1: 9, Life: 1},
}

var retHoldsBig = []HoldSpec{
	{Subs: []int{1}, Life: 2},
	{Subs: []int{2, 3}, Types: []int{tAuthFail}, Life: 0},
	{Has0: true, T0: 3, Has1: true, T1: 9, Life: 1},
	{Sess: []int{1, 2}, IPs: []int{1}, Life: 3},
	{Macs: []int{2}, Has1: true, T1: 3, Life: 4},
	{Types: []int{tSessStart}, IPs: []int{1, 2}, Macs: []int{1, 2}, Life: 0},
}

func catret(kv ...int) []int {
	l := []int{-1, -1, -1, -1, -1, -1, -1}
	for i := 0; i+1 < len(kv); i += 2 {
		l[kv[i]-1] = kv[i+1]
	}
	return l
}

var logTmpls = []Tmpl{{Ty: tSessStart, Sub: 1, Sess: 1}, {Ty: tNat, Sub: 2, Sess: 2}}

// Catalogue: configurations whose transition tables are extracted (until closed).
func Catalogue(tier string) []*ASystem {
	l := []*ASystem{
		{Impl: "store-small", Kind: "store", Slots: smallSlots, Queries: smallQueries[:12], Dels: [][]int{{1}, {2}, {3}, {4}, {1, 3}, {2, 4, 2}}, Batches: [][]int{{1, 2}, {3, 4, 1}}},
		{Impl: "ret-pol", Kind: "ret", DefRet: 90, CatRet: catret(cSession, 365, cNat, 30), SetDays: []int{7, 365}, SetCats: []int{cSession, cAuth}, SetTys: []int{tSessStart, tAuthFail}},
		{Impl: "ret-hold", Kind: "ret", DefRet: 90, Slots: retSlots, Holds: retHolds},
		// the system in which the known finding about re-stored ids lives
		{Impl: "store-dup", Kind: "store", Dup: true, Slots: smallSlots[:2], Queries: smallQueries[:2], Dels: [][]int{{1}, {2}}, MaxDepth: 4}, // every restore grows the raw indexes: bounded by depth
		// the logger, SyncWrites
		{Impl: "log-sync", Kind: "log", Sync: true, Buf: 4, DefRet: 3, CatRet: catret(cSession, 2, cNat, 1, cSystem, 1), Tmpls: logTmpls, NX: 1, MaxLog: 2, MaxDay: 2, StopOp: true, PreStart: true},
		// the logger, asynchronous
		{Impl: "log-async", Kind: "log", Buf: 4, DefRet: 3, CatRet: catret(cSession, 2, cNat, 1), Tmpls: logTmpls, NX: 2, MaxLog: 2, MaxDay: 4, StopOp: true},
		{Impl: "log-async-pre", Kind: "log", Buf: 2, DefRet: 3, CatRet: catret(cSession, 2), Tmpls: logTmpls[:1], NX: 1, MaxLog: 3, MaxDay: 3, PreStart: true, StopOp: true},
		{Impl: "log-async-flt", Kind: "log", Buf: 4, DefRet: 2, MinSev: 1, Enabled: []int{cSession, cNat, cAuth}, Tmpls: []Tmpl{{Ty: tSessStart, Sub: 1}, {Ty: tNat, Sub: 1}, {Ty: tSysErr}},
			NX: 1, MaxLog: 2, MaxDay: 2, XFail: true},
		// systems in which the known findings live: legal holds / per-type retention on the logger's own RetentionManager
		{Impl: "log-hold", Kind: "log", Buf: 4, DefRet: 1, Tmpls: logTmpls, NX: 0, MaxLog: 2, MaxDay: 4, HoldOps: true,
			Holds: []HoldSpec{{Subs: []int{1}, Life: 3}, {Subs: []int{2}, Life: 0}}},
		{Impl: "log-tret", Kind: "log", Sync: true, Buf: 4, DefRet: 3, CatRet: catret(cSession, 2), Tmpls: logTmpls, NX: 0, MaxLog: 2, MaxDay: 1, TypeOps: true, SetTys: []int{tSessStart}, SetDays: []int{1}},
	}
	if tier == "thorough" {
		l = append(l,
			&ASystem{Impl: "store-mid", Kind: "store", Slots: distinctTs(bigSlots[:6]), Queries: bigQueries()[:40], Dels: [][]int{{1}, {2}, {3}, {4}, {5}, {6}, {1, 2, 3}, {4, 6}}, Batches: [][]int{{1, 2, 3}, {4, 5, 6}}},
			&ASystem{Impl: "ret-hold-big", Kind: "ret", DefRet: 90, Slots: retSlots, Holds: retHoldsBig[:5]},
			&ASystem{Impl: "log-async-3", Kind: "log", Buf: 4, DefRet: 3, CatRet: catret(cSession, 2, cNat, 2, cSystem, 2), Tmpls: logTmpls, NX: 2, MaxLog: 3, MaxDay: 5, StopOp: true, XFail: true, PreStart: true},
			&ASystem{Impl: "log-sync-3", Kind: "log", Sync: true, Buf: 1, DefRet: 3, CatRet: catret(cSession, 2, cNat, 1, cSystem, 2), Tmpls: logTmpls, NX: 1, MaxLog: 3, MaxDay: 5, StopOp: true, XFail: true, PreStart: true},
		)
	}
	for _, s := range l {
		s.fill()
	}
	return l
}

// ChainCatalogue: configurations driven by long seeded random sequences.
func ChainCatalogue() []*ASystem {
	all := []int{1, 2, 3, 4, 5, 6, 7, 8, 9, 10}
	var dels [][]int
	for _, i := range all {
		dels = append(dels, []int{i})
	}
	dels = append(dels, []int{1, 2, 3}, []int{8, 9, 10, 8}, []int{4, 5})
	l := []*ASystem{
		{Impl: "rnd-store", Kind: "store", Slots: bigSlots, Queries: bigQueries(), Dels: dels, Batches: [][]int{{1, 2, 3, 4}, {5, 6, 7}, {8, 9, 10, 1}}},
		{Impl: "rnd-ret", Kind: "ret", DefRet: 90, CatRet: catret(cSession, 365, cNat, 30, cSystem, 7), SetDays: []int{1, 30, 730}, SetCats: []int{cSession, cAuth, cNat, cDhcp}, SetTys: []int{tSessStart, tAuthFail, tNat, tBrute},
			Slots: append(append([]Slot{}, retSlots...), bigSlots[3:8]...), Holds: retHoldsBig},
		{Impl: "rnd-log-async", Kind: "log", Buf: 3, DefRet: 4, CatRet: catret(cSession, 2, cNat, 2, cSystem, 3), MinSev: 0, Tmpls: []Tmpl{{Ty: tSessStart, Sub: 1, Sess: 1}, {Ty: tNat, Sub: 2, Sess: 2}, {Ty: tAuthFail, Sub: 2}, {Ty: tSysErr}},
			NX: 2, MaxLog: 40, MaxDay: 40, StopOp: true, XFail: true, PreStart: true},
		{Impl: "rnd-log-sync", Kind: "log", Sync: true, Buf: 3, DefRet: 4, CatRet: catret(cSession, 2, cNat, 1, cSystem, 3), MinSev: 1, Enabled: []int{cSession, cAuth, cSystem}, Tmpls: []Tmpl{{Ty: tSessStart, Sub: 1, Sess: 1}, {Ty: tNat, Sub: 2, Sess: 2}, {Ty: tAuthFail, Sub: 2}, {Ty: tSysErr}},
			NX: 2, MaxLog: 40, MaxDay: 40, StopOp: true, XFail: true, PreStart: true},
	}
	for _, s := range l {
		s.fill()
	}
	return l
}

func find(name string) *ASystem {
	for _, s := range append(Catalogue("thorough"), ChainCatalogue()...) {
		if s.Name() == name {
			return s
		}
	}
	return nil
}

// randomChain draws events; the logger's stop is rare (it ends the interesting part of a history).
func randomChain(sys *ASystem, rng *rand.Rand, n int) []core.Event {
	evs := sys.Events()
	var weighted []core.Event
	for _, e := range evs {
		w := 4
		switch e["op"] {
		case "adv":
			w = 4 * (1 + len(evs)/6)
		case "stop":
			w = 1
		case "q", "held", "ret", "retc":
			w = 2
		case "log", "start":
			w = 12
		}
		for i := 0; i < w; i++ {
			weighted = append(weighted, e)
		}
	}
	var out []core.Event
	if sys.Kind == "log" && rng.Intn(3) > 0 {
		out = append(out, ev("start"))
	}
	for len(out) < n {
		out = append(out, weighted[rng.Intn(len(weighted))])
	}
	return out
}

func TestExplore(t *testing.T) {
	theT = t
	defer func() {
		harnessErrs.Lock()
		defer harnessErrs.Unlock()
		if len(harnessErrs.l) > 0 {
			t.Fatalf("harness cannot represent the observed behaviour (infrastructure failure, not a verdict):\n%s", strings.Join(harnessErrs.l, "\n"))
		}
	}()
	out := core.OutDir()
	if rf := os.Getenv("VERIF_REPLAY"); rf != "" {
		replay(t, rf, out)
		return
	}
	tier := core.Tier()
	seed := core.Seed()
	maxNodes := 8000
	if v := os.Getenv("VERIF_MAXNODES"); v != "" {
		fmt.Sscan(v, &maxNodes)
	}
	nchains, chainLen := 6, 120
	if tier == "thorough" {
		maxNodes = 60000
		nchains, chainLen = 40, 300
	}
	bundle := &core.Bundle{}
	st := runStats{PerSystem: map[string][3]int{}}
	for _, sys := range Catalogue(tier) {
		if only := os.Getenv("VERIF_ONLY"); only != "" && only != sys.Name() {
			continue
		}
		// bubbles strictly one after the other (go1.25.0 bubbles must not overlap)
		tab, panics, err := core.Explore(sys, core.ExploreOptions{MaxDepth: sys.MaxDepth, MaxNodes: maxNodes, AdequacySample: 20, Seed: seed, Workers: 1})
		if err != nil {
			t.Fatalf("explore %s: %v", sys.Name(), err)
		}
		st.Panics = append(st.Panics, panics...)
		bundle.Systems = append(bundle.Systems, tab)
		ne := 0
		for _, es := range tab.Edges {
			ne += len(es)
		}
		c := 0
		if tab.Closed {
			c = 1
			st.Closed++
		}
		st.PerSystem[sys.Name()] = [3]int{len(tab.Nodes), ne, c}
		st.Systems++
		st.Nodes += len(tab.Nodes)
		st.Edges += ne
	}
	rng := rand.New(rand.NewSource(seed))
	for _, sys := range ChainCatalogue() {
		if only := os.Getenv("VERIF_ONLY"); only != "" && only != sys.Name() {
			continue
		}
		for c := 0; c < nchains; c++ {
			seqv := randomChain(sys, rng, chainLen)
			tab, pr := core.Chain(sys, fmt.Sprintf("%s#%d", sys.Name(), c), seqv, false)
			if pr != nil {
				st.Panics = append(st.Panics, *pr)
				continue
			}
			bundle.Systems = append(bundle.Systems, tab)
			st.Chains++
			st.ChainEvents += len(seqv)
		}
	}
	// histories found by TLC on the implementation-shaped design spec, executed on the real code
	if xf := os.Getenv("VERIF_EXTRA_CASES"); xf != "" {
		b, err := os.ReadFile(xf)
		if err != nil {
			t.Fatal(err)
		}
		var rf replayFile
		if err := json.Unmarshal(b, &rf); err != nil {
			t.Fatal(err)
		}
		for _, c := range rf.Cases {
			sys := fromCfg(c.System, c.Cfg)
			if sys == nil {
				t.Fatalf("extra case %s: no configuration", c.ID)
			}
			evs := clean(c.Events)
			tab, pr := core.Chain(sys, c.System+"#"+c.ID, evs, false)
			if pr != nil {
				st.Panics = append(st.Panics, *pr)
				continue
			}
			bundle.Systems = append(bundle.Systems, tab)
			st.Chains++
			st.ChainEvents += len(evs)
		}
	}
	if err := core.WriteJSON(out, "bundle.json", bundle); err != nil {
		t.Fatal(err)
	}
	if err := core.WriteJSON(out, "stats.json", st); err != nil {
		t.Fatal(err)
	}
}

// clean keeps only the alphabet part of recorded events (results are observed afresh).
func clean(in []core.Event) []core.Event {
	evs := make([]core.Event, 0, len(in))
	for _, e := range in {
		c := core.Event{"op": fmt.Sprint(e["op"])}
		for _, k := range []string{"i", "j", "c", "t", "d", "h", "x"} {
			if v, ok := e[k]; ok {
				c[k] = toInt(v)
			}
		}
		if v, ok := e["is"]; ok {
			c["is"] = toInts(v)
		}
		if v, ok := e["on"]; ok {
			c["on"] = toBool(v)
		}
		evs = append(evs, c)
	}
	return evs
}

func replay(t *testing.T, file, out string) {
	b, err := os.ReadFile(file)
	if err != nil {
		t.Fatal(err)
	}
	var rf replayFile
	if err := json.Unmarshal(b, &rf); err != nil {
		t.Fatal(err)
	}
	st := runStats{PerSystem: map[string][3]int{}}
	bundle := &core.Bundle{}
	for _, c := range rf.Cases {
		name := c.System
		if i := strings.IndexByte(name, '#'); i >= 0 {
			name = name[:i]
		}
		sys := find(name)
		if sys == nil {
			sys = fromCfg(name, c.Cfg)
		}
		if sys == nil {
			t.Fatalf("unknown system %q", c.System)
		}
		evs := clean(c.Events)
		tab, pr := core.Chain(sys, name+"#"+c.ID, evs, false)
		if pr != nil {
			st.Panics = append(st.Panics, *pr)
			continue
		}
		bundle.Systems = append(bundle.Systems, tab)
		st.Chains++
		st.ChainEvents += len(evs)
	}
	if err := core.WriteJSON(out, "bundle.json", bundle); err != nil {
		t.Fatal(err)
	}
	core.WriteJSON(out, "stats.json", st)
}
