//go:build verif

// Package audit binds the Audit contract (specs/Audit) to the real audit.MemoryStorage,
// audit.RetentionManager and audit.Logger of /repo.  Time is the virtual clock of a testing/synctest
// bubble (every replay its own bubble, bubbles strictly one after the other); one unit of the
// specification's time is one day.  The harness executes, observes and projects (event id -> slot /
// sequence number, instants -> whole days); it judges nothing.
package audit

import (
	"context"
	"encoding/json"
	"errors"
	"fmt"
	"net"
	"runtime"
	"runtime/debug"
	"sort"
	"sync"
	"testing"
	"testing/synctest"
	"time"

	"github.com/codelaboratoryltd/bng/pkg/audit"
	"go.uber.org/zap"

	"verifharness/core"
)

const Day = 24 * time.Hour

// the logger's flush ticker: two or three ticks per day, never at the instant of the daily clean-up or of a harness action
// (601 minutes and 1440 minutes meet after 601 days)
const FlushEvery = 601 * time.Minute

var theT *testing.T

var harnessErrs struct {
	sync.Mutex
	l []string
}

func harnessFail(msg string) {
	harnessErrs.Lock()
	if len(harnessErrs.l) < 20 {
		harnessErrs.l = append(harnessErrs.l, msg)
	}
	harnessErrs.Unlock()
}

// go1.25.0: the first WaitGroup.Add inside a bubble (Logger.Start) allocates a "bubble special" without
// holding the allocator's lock (see harness/failover). Bubbles of this harness never run concurrently; the
// collector is switched off and run between bubbles.
func init() { debug.SetGCPercent(-1) }

var wraps int

// The event types the harness uses (index 1..): category and severity are read from the package's own
// tables (EventType.Category / GetSeverity) and handed to the specification as configuration.
var types = []audit.EventType{"",
	audit.EventSessionStart, audit.EventSessionStop, audit.EventAuthFailure, audit.EventNATMapping, audit.EventDHCPAck,
	audit.EventSystemStart, audit.EventSystemStop, audit.EventSystemError, audit.EventConfigChange, audit.EventBruteForceDetected}

const (
	tyStart = 6
	tyStop  = 7
)

var cats = []string{"", "session", "auth", "nat", "dhcp", "system", "admin", "security"}

func catIdx(name string) int {
	for i, c := range cats {
		if c == name && i > 0 {
			return i
		}
	}
	return 0
}

func typeIdx(t audit.EventType) int {
	for i, x := range types {
		if x == t && i > 0 {
			return i
		}
	}
	return 0
}

// Slot is one event of the storage / retention systems (fixed attributes, id "ev-<index>").
type Slot struct {
	Ty     int  `json:"ty"`
	Cat    int  `json:"cat"` // filled from the package's Category()
	Sev    int  `json:"sev"` // filled from the package's GetSeverity()
	Sub    int  `json:"sub"`
	Sess   int  `json:"sess"`
	IP     int  `json:"ip"`
	Mac    int  `json:"mac"`
	Isp    int  `json:"isp"`
	Ts     int  `json:"ts"` // Timestamp = T0 + ts days
	HasExp bool `json:"hasexp"`
	Exp    int  `json:"exp"` // ExpiresAt = T0 + exp days
}

// QuerySpec is one query of the alphabet. Time bounds are in half days (odd: never equal to a timestamp).
type QuerySpec struct {
	Has0   bool  `json:"has0"`
	T0     int   `json:"t0"`
	Has1   bool  `json:"has1"`
	T1     int   `json:"t1"`
	Types  []int `json:"types"`
	Cats   []int `json:"cats"`
	Sub    int   `json:"sub"`
	Sess   int   `json:"sess"`
	IP     int   `json:"ip"`
	Mac    int   `json:"mac"`
	Isp    int   `json:"isp"`
	MinSev int   `json:"minsev"`
	Limit  int   `json:"limit"`
	Offset int   `json:"offset"`
	Asc    bool  `json:"asc"`
}

// HoldSpec is one legal hold of the alphabet (id "hold-<index>"); Life = days until it expires (0: never).
type HoldSpec struct {
	Subs  []int `json:"subs"`
	Sess  []int `json:"sess"`
	Types []int `json:"types"`
	IPs   []int `json:"ips"`
	Macs  []int `json:"macs"`
	Has0  bool  `json:"has0"`
	T0    int   `json:"t0"`
	Has1  bool  `json:"has1"`
	T1    int   `json:"t1"`
	Life  int   `json:"life"`
}

// Tmpl is one event template of the logger systems.
type Tmpl struct {
	Ty   int `json:"ty"`
	Cat  int `json:"cat"`
	Sev  int `json:"sev"`
	Sub  int `json:"sub"`
	Sess int `json:"sess"`
}

// ASystem is one configuration.
type ASystem struct {
	Impl string `json:"impl"`
	Kind string `json:"kind"` // "store" | "ret" | "log"
	// store / ret
	Slots   []Slot      `json:"slots"`
	Queries []QuerySpec `json:"queries"`
	Dels    [][]int     `json:"dels"`    // store: id lists offered to Delete
	Batches [][]int     `json:"batches"` // store: slot lists offered to StoreBatch
	NSub    int         `json:"nsub"`
	NSess   int         `json:"nsess"`
	NType   int         `json:"ntype"`
	NTy     int         `json:"nty"` // store: the largest type index among the slots (GetByType is observed for 1..nty)
	NCat    int         `json:"ncat"`
	TCat    []int       `json:"tcat"` // type index -> category index (from the package)
	MaxDay  int         `json:"maxday"`
	Dup     bool        `json:"dup"` // store: "restore" (Store of an id that is already stored) is in the alphabet
	// ret / log
	DefRet  int        `json:"defret"`
	CatRet  []int      `json:"catret"`  // per category index, -1 = not configured
	Holds   []HoldSpec `json:"holds"`   // hold templates
	SetDays []int      `json:"setdays"` // values offered to SetCategoryRetention / SetEventTypeRetention
	SetCats []int      `json:"setcats"` // categories / types that can be (re)configured
	SetTys  []int      `json:"settys"`
	// log
	Sync     bool   `json:"sync"`
	Buf      int    `json:"buf"`
	MinSev   int    `json:"minsev"`
	Enabled  []int  `json:"enabled"`
	Tmpls    []Tmpl `json:"tmpl"`
	TStart   int    `json:"tstart"` // template index of the logger's own SYSTEM_START / SYSTEM_STOP event
	TStop    int    `json:"tstop"`
	NX       int    `json:"nx"`
	MaxLog   int    `json:"maxlog"`
	PreStart bool   `json:"prestart"` // LogEvent before Start is in the alphabet
	XFail    bool   `json:"xfail"`    // exporter 1 can be switched to failing
	HoldOps  bool   `json:"holdops"`  // legal holds are put on the logger's RetentionManager (reflection; the logger offers no accessor)
	TypeOps  bool   `json:"typeops"`  // per-event-type retention is set on the logger's RetentionManager (reflection)
	StopOp   bool   `json:"stopop"`
	NSubs    int    `json:"nsubs"`
	MaxDepth int    `json:"-"`
}

func (s *ASystem) Name() string { return s.Impl }

// fill derives the package-defined attributes and the bounds.
func (s *ASystem) fill() *ASystem {
	s.NType, s.NCat = len(types)-1, len(cats)-1
	s.TCat = nil
	for t := 1; t <= s.NType; t++ {
		s.TCat = append(s.TCat, catIdx(types[t].Category()))
	}
	for i := range s.Slots {
		sl := &s.Slots[i]
		sl.Cat, sl.Sev = catIdx(types[sl.Ty].Category()), int(types[sl.Ty].GetSeverity())
		if sl.Sub > s.NSub {
			s.NSub = sl.Sub
		}
		if sl.Sess > s.NSess {
			s.NSess = sl.Sess
		}
		if sl.Ty > s.NTy {
			s.NTy = sl.Ty
		}
		if s.Kind == "store" && sl.HasExp && sl.Exp+1 > s.MaxDay {
			s.MaxDay = sl.Exp + 1
		}
	}
	if s.Kind == "log" {
		has := func(ty int) int {
			for i, t := range s.Tmpls {
				if t.Ty == ty && t.Sub == 0 && t.Sess == 0 {
					return i + 1
				}
			}
			s.Tmpls = append(s.Tmpls, Tmpl{Ty: ty})
			return len(s.Tmpls)
		}
		s.TStart, s.TStop = has(tyStart), has(tyStop)
		for i := range s.Tmpls {
			t := &s.Tmpls[i]
			t.Cat, t.Sev = catIdx(types[t.Ty].Category()), int(types[t.Ty].GetSeverity())
		}
	}
	if len(s.CatRet) == 0 {
		for c := 1; c <= s.NCat; c++ {
			s.CatRet = append(s.CatRet, -1)
		}
	}
	return s
}

func (s *ASystem) Config() map[string]any {
	b, _ := json.Marshal(s)
	var m map[string]any
	json.Unmarshal(b, &m)
	return noNull(m).(map[string]any)
}

// noNull replaces JSON nulls (nil slices) by empty arrays: the specification reads sequences.
func noNull(v any) any {
	switch x := v.(type) {
	case nil:
		return []any{}
	case map[string]any:
		for k, e := range x {
			x[k] = noNull(e)
		}
		return x
	case []any:
		for i, e := range x {
			x[i] = noNull(e)
		}
		return x
	}
	return v
}

// fromCfg rebuilds a system from the cfg of a replay case.
func fromCfg(name string, cfg map[string]any) *ASystem {
	if cfg == nil || cfg["kind"] == nil {
		return nil
	}
	b, _ := json.Marshal(cfg)
	s := &ASystem{}
	if err := json.Unmarshal(b, s); err != nil {
		return nil
	}
	s.Impl = name
	if i, ok := cfg["impl"].(string); ok && i != "" {
		s.Impl = i
	}
	return s.fill()
}

func toInt(v any) int {
	switch x := v.(type) {
	case int:
		return x
	case int64:
		return int(x)
	case float64:
		return int(x)
	}
	return 0
}

func toBool(v any) bool { b, _ := v.(bool); return b }

func toInts(v any) []int {
	out := []int{}
	switch x := v.(type) {
	case []int:
		return append(out, x...)
	case []any:
		for _, e := range x {
			out = append(out, toInt(e))
		}
	}
	return out
}

func ev(op string, kv ...any) core.Event {
	e := core.Event{"op": op}
	for i := 0; i+1 < len(kv); i += 2 {
		e[kv[i].(string)] = kv[i+1]
	}
	return e
}

func (s *ASystem) Events() []core.Event {
	var l []core.Event
	switch s.Kind {
	case "store":
		for i := range s.Slots {
			l = append(l, ev("store", "i", i+1))
		}
		if s.Dup {
			for i := range s.Slots {
				l = append(l, ev("restore", "i", i+1))
			}
		}
		for _, b := range s.Batches {
			l = append(l, ev("batch", "is", append([]int{}, b...)))
		}
		for _, d := range s.Dels {
			l = append(l, ev("del", "is", append([]int{}, d...)))
		}
		l = append(l, ev("delx"), ev("adv"))
		for j := range s.Queries {
			l = append(l, ev("q", "j", j+1))
		}
	case "ret":
		for _, c := range s.SetCats {
			for _, d := range s.SetDays {
				l = append(l, ev("setcat", "c", c, "d", d))
			}
		}
		for _, t := range s.SetTys {
			for _, d := range s.SetDays {
				l = append(l, ev("settype", "t", t, "d", d))
			}
		}
		seenT, seenC := map[int]bool{}, map[int]bool{}
		for _, t := range s.SetTys {
			seenT[t] = true
		}
		for _, c := range s.SetCats {
			seenC[c] = true
			for t := 1; t <= s.NType; t++ { // the first type of the category: answered from the category's retention
				if s.TCat[t-1] == c {
					seenT[t] = true
					break
				}
			}
		}
		if len(s.SetCats) > 0 {
			seenC[s.NCat], seenT[s.NType] = true, true // one category / type nobody configures: the default
		}
		for t := 1; t <= s.NType; t++ {
			if seenT[t] {
				l = append(l, ev("ret", "t", t))
			}
		}
		for c := 1; c <= s.NCat; c++ {
			if seenC[c] {
				l = append(l, ev("retc", "c", c))
			}
		}
		for h := range s.Holds {
			l = append(l, ev("hold", "h", h+1), ev("unhold", "h", h+1))
		}
		if len(s.Holds) > 0 {
			l = append(l, ev("cleanup"), ev("adv"))
		}
		for i := range s.Slots {
			l = append(l, ev("held", "i", i+1))
		}
	case "log":
		l = append(l, ev("start"))
		for t := range s.Tmpls {
			if t+1 != s.TStart && t+1 != s.TStop {
				l = append(l, ev("log", "t", t+1))
			}
		}
		l = append(l, ev("adv"))
		if s.StopOp {
			l = append(l, ev("stop"))
		}
		if s.XFail {
			l = append(l, ev("xmode", "x", 1, "on", true), ev("xmode", "x", 1, "on", false))
		}
		if s.HoldOps {
			for h := range s.Holds {
				l = append(l, ev("hold", "h", h+1))
			}
		}
		if s.TypeOps {
			for _, t := range s.SetTys {
				for _, d := range s.SetDays {
					l = append(l, ev("settype", "t", t, "d", d))
				}
			}
		}
	}
	return l
}

func (s *ASystem) Wrap(f func()) {
	wraps++
	if wraps%1500 == 0 {
		runtime.GC()
	}
	synctest.Test(theT, func(t *testing.T) { f() })
}

func (s *ASystem) New() core.Instance {
	switch s.Kind {
	case "store":
		return newStore(s)
	case "ret":
		return newRet(s)
	}
	return newLog(s)
}

// --- shared projections ---------------------------------------------------------------------

func subID(n int) string {
	if n == 0 {
		return ""
	}
	return fmt.Sprintf("sub-%d", n)
}
func sessID(n int) string {
	if n == 0 {
		return ""
	}
	return fmt.Sprintf("sess-%d", n)
}
func ispID(n int) string {
	if n == 0 {
		return ""
	}
	return fmt.Sprintf("isp-%d", n)
}
func ipOf(n int) net.IP {
	if n == 0 {
		return nil
	}
	return net.IPv4(10, 0, 0, byte(n))
}
func macOf(n int) net.HardwareAddr {
	if n == 0 {
		return nil
	}
	return net.HardwareAddr{2, 0, 0, 0, 0, byte(n)}
}

func slotEvent(t0 time.Time, i int, sl Slot) *audit.Event {
	e := &audit.Event{ID: fmt.Sprintf("ev-%d", i), Type: types[sl.Ty], Timestamp: t0.Add(time.Duration(sl.Ts) * Day),
		SubscriberID: subID(sl.Sub), SessionID: sessID(sl.Sess), IPv4: ipOf(sl.IP), MAC: macOf(sl.Mac), ISPID: ispID(sl.Isp)}
	if sl.HasExp {
		e.ExpiresAt = t0.Add(time.Duration(sl.Exp) * Day)
	}
	return e
}

func slotOf(id string) int {
	var i int
	if n, _ := fmt.Sscanf(id, "ev-%d", &i); n == 1 {
		return i
	}
	return 0
}

func strs(f func(int) string, l []int) []string {
	var out []string
	for _, x := range l {
		out = append(out, f(x))
	}
	return out
}

func holdOf(t0, now time.Time, h int, hs HoldSpec) *audit.LegalHold {
	lh := &audit.LegalHold{ID: fmt.Sprintf("hold-%d", h), Description: "harness",
		SubscriberIDs: strs(subID, hs.Subs), SessionIDs: strs(sessID, hs.Sess),
		IPAddresses:  strs(func(n int) string { return ipOf(n).String() }, hs.IPs),
		MACAddresses: strs(func(n int) string { return macOf(n).String() }, hs.Macs)}
	for _, t := range hs.Types {
		lh.EventTypes = append(lh.EventTypes, types[t])
	}
	if hs.Has0 {
		lh.StartTime = t0.Add(time.Duration(hs.T0) * Day / 2)
	}
	if hs.Has1 {
		lh.EndTime = t0.Add(time.Duration(hs.T1) * Day / 2)
	}
	if hs.Life > 0 {
		// six hours before the harness' time slot of the day it expires: never equal to an instant the code compares it with
		lh.ExpiresAt = now.Add(time.Duration(hs.Life)*Day - 6*time.Hour)
	}
	return lh
}

func sortedInts(l []int) []int {
	out := append([]int{}, l...)
	sort.Ints(out)
	return out
}

// --- kind "store": audit.MemoryStorage ------------------------------------------------------

type storeInst struct {
	s   *ASystem
	st  *audit.MemoryStorage
	t0  time.Time
	day int
}

func newStore(s *ASystem) *storeInst {
	in := &storeInst{s: s, t0: time.Now(), st: audit.NewMemoryStorage()}
	time.Sleep(12 * time.Hour) // the harness acts at noon; timestamps and expiries are at midnight
	return in
}

func (in *storeInst) Close() {}

func (in *storeInst) ids(evs []*audit.Event) []int {
	out := []int{}
	for _, e := range evs {
		out = append(out, slotOf(e.ID))
	}
	return out
}

func (in *storeInst) present() map[int]bool {
	m := map[int]bool{}
	evs, _ := in.st.Query(context.Background(), &audit.Query{Ascending: true})
	for _, e := range evs {
		m[slotOf(e.ID)] = true
	}
	return m
}

func (in *storeInst) query(q QuerySpec) *audit.Query {
	aq := &audit.Query{SubscriberID: subID(q.Sub), SessionID: sessID(q.Sess), ISPID: ispID(q.Isp), MinSeverity: audit.Severity(q.MinSev),
		Limit: q.Limit, Offset: q.Offset, Ascending: q.Asc}
	if q.Has0 {
		aq.StartTime = in.t0.Add(time.Duration(q.T0) * Day / 2)
	}
	if q.Has1 {
		aq.EndTime = in.t0.Add(time.Duration(q.T1) * Day / 2)
	}
	for _, t := range q.Types {
		aq.Types = append(aq.Types, types[t])
	}
	for _, c := range q.Cats {
		aq.Categories = append(aq.Categories, cats[c])
	}
	if q.IP > 0 {
		aq.IPv4 = ipOf(q.IP).String()
	}
	if q.Mac > 0 {
		aq.MAC = macOf(q.Mac).String()
	}
	return aq
}

func (in *storeInst) Apply(e core.Event) map[string]any {
	ctx := context.Background()
	res := map[string]any{}
	switch e["op"] {
	case "store":
		i := toInt(e["i"])
		if in.present()[i] {
			res["skip"] = true
			return res
		}
		res["skip"] = false
		res["err"] = in.st.Store(ctx, slotEvent(in.t0, i, in.s.Slots[i-1])) != nil
	case "restore":
		i := toInt(e["i"])
		if !in.present()[i] {
			res["skip"] = true
			return res
		}
		res["skip"] = false
		res["err"] = in.st.Store(ctx, slotEvent(in.t0, i, in.s.Slots[i-1])) != nil
	case "batch":
		var evs []*audit.Event
		done := []int{}
		pr := in.present()
		for _, i := range toInts(e["is"]) {
			if !pr[i] {
				evs = append(evs, slotEvent(in.t0, i, in.s.Slots[i-1]))
				done = append(done, i)
			}
		}
		res["done"] = done
		res["err"] = in.st.StoreBatch(ctx, evs) != nil
	case "del":
		var ids []string
		for _, i := range toInts(e["is"]) {
			ids = append(ids, fmt.Sprintf("ev-%d", i))
		}
		res["err"] = in.st.Delete(ctx, ids) != nil
	case "delx":
		n, err := in.st.DeleteExpired(ctx)
		res["n"], res["err"] = int(n), err != nil
	case "adv":
		time.Sleep(Day)
		in.day++
	case "q":
		out, err := in.st.Query(ctx, in.query(in.s.Queries[toInt(e["j"])-1]))
		res["res"], res["err"] = in.ids(out), err != nil
	default:
		harnessFail(fmt.Sprintf("store: unknown op %v", e["op"]))
	}
	return res
}

func (in *storeInst) Observe() map[string]any {
	ctx := context.Background()
	all, _ := in.st.Query(ctx, &audit.Query{Ascending: true})
	byTime, _ := in.st.Query(ctx, &audit.Query{StartTime: in.t0.Add(-3650 * Day), Ascending: true})
	st := in.st.Stats()
	bysub, bysess, bytype := [][]int{}, [][]int{}, [][]int{}
	for n := 1; n <= in.s.NSub; n++ {
		bysub = append(bysub, sortedInts(in.ids(in.st.GetBySubscriber(subID(n)))))
	}
	for n := 1; n <= in.s.NSess; n++ {
		bysess = append(bysess, sortedInts(in.ids(in.st.GetBySession(sessID(n)))))
	}
	for t := 1; t <= in.s.NTy; t++ {
		bytype = append(bytype, sortedInts(in.ids(in.st.GetByType(types[t]))))
	}
	return map[string]any{"scan": sortedInts(in.ids(all)), "tscan": sortedInts(in.ids(byTime)), "count": in.st.Count(),
		"total": st.TotalEvents, "nsub": st.Subscribers, "nsess": st.Sessions, "ntype": st.EventTypes,
		"bysub": bysub, "bysess": bysess, "bytype": bytype}
}

func (in *storeInst) Probe() map[string]any { return nil }

func (in *storeInst) Fingerprint() string {
	d := in.day
	if d > in.s.MaxDay {
		d = in.s.MaxDay
	}
	// the raw index maps: which keys exist and how many ids each carries (stale keys and entries influence Stats and later calls)
	raw := []string{}
	for _, f := range []string{"bySubscriber", "bySession", "byType"} {
		m := core.Field(in.st, f)
		var ks []string
		for _, k := range m.MapKeys() {
			ks = append(ks, fmt.Sprintf("%s/%v=%d", f, k.Interface(), m.MapIndex(k).Len()))
		}
		sort.Strings(ks)
		raw = append(raw, ks...)
	}
	raw = append(raw, fmt.Sprint(core.Field(in.st, "byTime").Len()))
	b, _ := json.Marshal([]any{in.Observe(), d, raw})
	return string(b)
}

// --- kind "ret": audit.RetentionManager -----------------------------------------------------

type retInst struct {
	s   *ASystem
	rm  *audit.RetentionManager
	t0  time.Time
	day int
}

func catMap(catret []int) map[string]int {
	m := map[string]int{}
	for c, d := range catret {
		if d >= 0 {
			m[cats[c+1]] = d
		}
	}
	return m
}

func newRet(s *ASystem) *retInst {
	in := &retInst{s: s, t0: time.Now()}
	in.rm = audit.NewRetentionManager(s.DefRet, catMap(s.CatRet))
	time.Sleep(12 * time.Hour)
	return in
}

func (in *retInst) Close() {}

// registered: hold template -> days it has left (-1: never expires, 0: expired), read from the manager's list
func registered(rm *audit.RetentionManager) map[int]int {
	out := map[int]int{}
	l := core.Field(rm, "legalHolds")
	now := time.Now()
	for i := 0; i < l.Len(); i++ {
		h := l.Index(i).Interface().(*audit.LegalHold)
		var n int
		fmt.Sscanf(h.ID, "hold-%d", &n)
		left := -1
		if !h.ExpiresAt.IsZero() {
			left = 0
			if h.ExpiresAt.After(now) {
				left = int(h.ExpiresAt.Sub(now)/Day) + 1
			}
		}
		if _, dup := out[n]; dup {
			harnessFail("a hold id is registered twice")
		}
		out[n] = left
	}
	return out
}

func (in *retInst) Apply(e core.Event) map[string]any {
	res := map[string]any{}
	switch e["op"] {
	case "setcat":
		in.rm.SetCategoryRetention(cats[toInt(e["c"])], toInt(e["d"]))
	case "settype":
		in.rm.SetEventTypeRetention(types[toInt(e["t"])], toInt(e["d"]))
	case "ret":
		res["r"] = in.rm.GetRetentionForEvent(types[toInt(e["t"])])
	case "retc":
		res["r"] = in.rm.GetRetention(cats[toInt(e["c"])])
	case "hold":
		h := toInt(e["h"])
		if _, ok := registered(in.rm)[h]; ok {
			res["skip"] = true
			return res
		}
		res["skip"] = false
		in.rm.AddLegalHold(holdOf(in.t0, time.Now(), h, in.s.Holds[h-1]))
	case "unhold":
		res["ok"] = in.rm.RemoveLegalHold(fmt.Sprintf("hold-%d", toInt(e["h"])))
	case "cleanup":
		res["n"] = in.rm.CleanupExpiredHolds()
	case "adv":
		time.Sleep(Day)
		in.day++
	case "held":
		i := toInt(e["i"])
		res["r"] = in.rm.IsUnderLegalHold(slotEvent(in.t0, i, in.s.Slots[i-1]))
	default:
		harnessFail(fmt.Sprintf("ret: unknown op %v", e["op"]))
	}
	return res
}

func policy(s *ASystem, rm *audit.RetentionManager) (int, []int, []int) {
	sum := rm.GetPolicySummary()
	pcat, ptyp := []int{}, []int{}
	for c := 1; c <= s.NCat; c++ {
		d, ok := sum["category:"+cats[c]]
		if !ok {
			d = -1
		}
		pcat = append(pcat, d)
	}
	for t := 1; t <= s.NType; t++ {
		d, ok := sum["event:"+string(types[t])]
		if !ok {
			d = -1
		}
		ptyp = append(ptyp, d)
	}
	return sum["default"], pcat, ptyp
}

func (in *retInst) Observe() map[string]any {
	active := []int{}
	for _, h := range in.rm.GetLegalHolds() {
		var n int
		fmt.Sscanf(h.ID, "hold-%d", &n)
		active = append(active, n)
	}
	pdef, pcat, ptyp := policy(in.s, in.rm)
	return map[string]any{"active": sortedInts(active), "pdef": pdef, "pcat": pcat, "ptyp": ptyp}
}

func (in *retInst) Probe() map[string]any { return nil }

func (in *retInst) Fingerprint() string {
	reg := registered(in.rm)
	var l []int
	for h := 1; h <= len(in.s.Holds); h++ {
		if v, ok := reg[h]; ok {
			l = append(l, h, v)
		}
	}
	b, _ := json.Marshal([]any{in.Observe(), l})
	return string(b)
}

// --- kind "log": audit.Logger + MemoryStorage + recording exporters --------------------------

type recExporter struct {
	in     *logInst
	name   string
	mu     sync.Mutex
	fail   bool
	got    []*audit.Event // what the exporter was handed in this step (projected to numbers when the step is over)
	failed int
	okEvs  int
	closes int
}

func (x *recExporter) Name() string { return x.name }

func (x *recExporter) take(evs []*audit.Event) error {
	x.mu.Lock()
	defer x.mu.Unlock()
	x.got = append(x.got, evs...)
	if x.fail {
		x.failed++
		return errors.New("scripted exporter failure")
	}
	x.okEvs += len(evs)
	return nil
}

func (x *recExporter) Export(ctx context.Context, e *audit.Event) error { return x.take([]*audit.Event{e}) }
func (x *recExporter) ExportBatch(ctx context.Context, evs []*audit.Event) error {
	return x.take(evs)
}
func (x *recExporter) Close() error {
	x.mu.Lock()
	x.closes++
	x.mu.Unlock()
	return nil
}

type evInfo struct {
	t, day int
}

type logInst struct {
	s       *ASystem
	l       *audit.Logger
	st      *audit.MemoryStorage
	rm      *audit.RetentionManager
	xs      []*recExporter
	t0      time.Time
	mu      sync.Mutex
	ids     map[string]int
	pendSys map[audit.EventType]int
	info    map[int]evInfo
	nseq    int
	nlog    int
	started bool
	stopped bool
	day     int
	stored  map[int]bool
	stats   audit.LoggerStats
	typ     map[int]int
}

func newLog(s *ASystem) *logInst {
	in := &logInst{s: s, t0: time.Now(), ids: map[string]int{}, pendSys: map[audit.EventType]int{}, info: map[int]evInfo{},
		stored: map[int]bool{}, typ: map[int]int{}}
	cfg := audit.Config{DeviceID: "bng-1", BufferSize: s.Buf, FlushInterval: FlushEvery, DefaultRetentionDays: s.DefRet,
		RetentionByCategory: catMap(s.CatRet), MinSeverity: audit.Severity(s.MinSev), SyncWrites: s.Sync}
	for _, c := range s.Enabled {
		cfg.EnabledCategories = append(cfg.EnabledCategories, cats[c])
	}
	in.st = audit.NewMemoryStorage()
	in.l = audit.NewLogger(cfg, in.st, zap.NewNop())
	in.rm = core.Field(in.l, "retention").Interface().(*audit.RetentionManager)
	for x := 1; x <= s.NX; x++ {
		rx := &recExporter{in: in, name: fmt.Sprintf("rec-%d", x)}
		in.xs = append(in.xs, rx)
		in.l.AddExporter(rx)
	}
	time.Sleep(time.Hour) // the harness' time slot before Start: one o'clock
	return in
}

func (in *logInst) Close() {
	if in.started && !in.stopped {
		in.l.Stop()
		in.stopped = true
	}
}

// num projects an event id to the number of the LogEvent call that produced it (0: an id the harness never saw).
func (in *logInst) num(e *audit.Event) int {
	in.mu.Lock()
	defer in.mu.Unlock()
	if n, ok := in.ids[e.ID]; ok {
		return n
	}
	if n, ok := in.pendSys[e.Type]; ok {
		delete(in.pendSys, e.Type)
		in.ids[e.ID] = n
		return n
	}
	return 0
}

func (in *logInst) table() []*audit.Event {
	evs, _ := in.st.Query(context.Background(), &audit.Query{StartTime: in.t0.Add(-3650 * Day), Ascending: true})
	return evs
}

func (in *logInst) Apply(e core.Event) map[string]any {
	res := map[string]any{"skip": false, "n": 0}
	for _, x := range in.xs {
		x.mu.Lock()
		x.got, x.failed, x.okEvs, x.closes = nil, 0, 0, 0
		x.mu.Unlock()
	}
	switch e["op"] {
	case "log":
		t := toInt(e["t"])
		if in.stopped || in.nlog >= in.s.MaxLog || (!in.started && !in.s.PreStart) {
			return map[string]any{"skip": true}
		}
		tm := in.s.Tmpls[t-1]
		evn := &audit.Event{Type: types[tm.Ty], SubscriberID: subID(tm.Sub), SessionID: sessID(tm.Sess)}
		in.l.LogEvent(evn)
		synctest.Wait()
		in.nlog++
		in.nseq++
		in.mu.Lock()
		n, seen := in.ids[evn.ID]
		if !seen {
			n = in.nseq
			in.ids[evn.ID] = n
			in.info[n] = evInfo{t, in.day}
		}
		in.mu.Unlock()
		res["n"] = n
	case "start":
		if in.started {
			return map[string]any{"skip": true}
		}
		time.Sleep(20 * time.Minute) // the logger's daily tickers fire at 1:20, the harness acts at 1:40
		in.nseq++
		in.mu.Lock()
		in.pendSys[audit.EventSystemStart] = in.nseq
		in.info[in.nseq] = evInfo{in.s.TStart, in.day}
		in.mu.Unlock()
		res["n"] = in.nseq
		if err := in.l.Start(); err != nil {
			harnessFail("Start: " + err.Error())
		}
		in.started = true
		synctest.Wait()
		time.Sleep(20 * time.Minute)
		synctest.Wait()
	case "stop":
		if !in.started || in.stopped {
			return map[string]any{"skip": true}
		}
		in.nseq++
		in.mu.Lock()
		in.pendSys[audit.EventSystemStop] = in.nseq
		in.info[in.nseq] = evInfo{in.s.TStop, in.day}
		in.mu.Unlock()
		res["n"] = in.nseq
		in.l.Stop()
		in.stopped = true
		synctest.Wait()
	case "adv":
		// buffered writes: no day passes before Start (an event would be past its expiry while it still waits in the buffer)
		if in.day >= in.s.MaxDay || (!in.s.Sync && !in.started) {
			return map[string]any{"skip": true}
		}
		time.Sleep(Day)
		synctest.Wait()
		in.day++
	case "xmode":
		x := in.xs[toInt(e["x"])-1]
		x.mu.Lock()
		x.fail = toBool(e["on"])
		x.mu.Unlock()
	case "settype":
		in.rm.SetEventTypeRetention(types[toInt(e["t"])], toInt(e["d"]))
		in.typ[toInt(e["t"])] = toInt(e["d"])
	case "hold":
		h := toInt(e["h"])
		if _, ok := registered(in.rm)[h]; ok || !in.started || in.stopped {
			return map[string]any{"skip": true}
		}
		in.rm.AddLegalHold(holdOf(in.t0, time.Now(), h, in.s.Holds[h-1]))
	default:
		harnessFail(fmt.Sprintf("log: unknown op %v", e["op"]))
	}
	// what the step did, as differences
	now := map[int]bool{}
	for _, sev := range in.table() {
		now[in.num(sev)] = true
	}
	sd, gone := []int{}, []int{}
	for n := range now {
		if !in.stored[n] {
			sd = append(sd, n)
		}
	}
	for n := range in.stored {
		if !now[n] {
			gone = append(gone, n)
		}
	}
	in.stored = now
	res["sd"], res["gone"] = sortedInts(sd), sortedInts(gone)
	xd, xc := [][]int{}, []int{}
	xf, xok := 0, 0
	for _, x := range in.xs {
		x.mu.Lock()
		nums := []int{}
		for _, ge := range x.got {
			nums = append(nums, in.num(ge))
		}
		xd = append(xd, nums)
		xc = append(xc, x.closes)
		xf += x.failed
		xok += x.okEvs
		x.mu.Unlock()
	}
	res["xd"], res["xc"], res["xf"], res["xok"] = xd, xc, xf, xok
	st := in.l.Stats()
	res["dl"], res["dx"], res["dd"] = int(st.EventsLogged-in.stats.EventsLogged), int(st.EventsExported-in.stats.EventsExported), int(st.EventsDropped-in.stats.EventsDropped)
	res["de"], res["dse"], res["dxe"] = int(st.EventsExpired-in.stats.EventsExpired), int(st.StorageErrors-in.stats.StorageErrors), int(st.ExportErrors-in.stats.ExportErrors)
	in.stats = st
	return res
}

func (in *logInst) Observe() map[string]any {
	tab := []map[string]any{}
	evs := in.table()
	sort.SliceStable(evs, func(i, j int) bool { return in.num(evs[i]) < in.num(evs[j]) })
	for _, e := range evs {
		expd := -1
		if d := e.ExpiresAt.Sub(e.Timestamp); d >= 0 && d%Day == 0 {
			expd = int(d / Day)
		}
		tsd := -1
		if d := e.Timestamp.Sub(in.t0); d >= 0 {
			tsd = int(d / Day)
		}
		tab = append(tab, map[string]any{"n": in.num(e), "ret": e.RetentionDays, "expd": expd, "tsd": tsd})
	}
	return map[string]any{"tab": tab, "count": in.st.Count()}
}

func (in *logInst) Probe() map[string]any { return nil }

func (in *logInst) Fingerprint() string {
	var evs []any
	for n := 1; n <= in.nseq; n++ {
		evs = append(evs, []any{n, in.info[n].t, in.info[n].day, in.stored[n]})
	}
	buf := []int{}
	b := core.Field(in.l, "buffer")
	for i := 0; i < b.Len(); i++ {
		buf = append(buf, in.num(b.Index(i).Interface().(*audit.Event)))
	}
	chn := core.Field(in.l, "eventChan").Len()
	var modes []bool
	for _, x := range in.xs {
		modes = append(modes, x.fail)
	}
	reg := registered(in.rm)
	var holds []int
	for h := 1; h <= len(in.s.Holds); h++ {
		if v, ok := reg[h]; ok {
			holds = append(holds, h, v)
		}
	}
	var typ []int
	for t := 1; t <= in.s.NType; t++ {
		if d, ok := in.typ[t]; ok {
			typ = append(typ, t, d)
		}
	}
	out, _ := json.Marshal([]any{in.Observe(), evs, buf, chn, modes, holds, typ, in.started, in.stopped, in.day, in.nlog})
	return string(b2s(out))
}

func b2s(b []byte) string { return string(b) }
