//go:build verif

package deviceauth

import (
	"bytes"
	"crypto/ecdsa"
	"crypto/elliptic"
	"crypto/rand"
	"crypto/x509"
	"crypto/x509/pkix"
	"encoding/pem"
	"fmt"
	"math/big"
	"os"
	"path/filepath"
	"strings"
	"sync"
	"testing"
	"testing/synctest"
	"time"

	da "github.com/codelaboratoryltd/bng/pkg/deviceauth"
	"go.uber.org/zap"

	"verifharness/core"
)

var theT *testing.T

// ---------------------------------------------------------------------------------------------------------------
// mTLS: the real MTLSAuthenticator reading certificate files written by the harness, inside a testing/synctest bubble
// (the bubble's clock starts at 2000-01-01T00:00:00Z; certificates are made once with absolute validity bounds at
// whole minutes from that instant; every call is made half a minute off).

type MSystem struct {
	name   string
	Certs  [][3]int // cn index, NotBefore, NotAfter in minutes from the start of the bubble
	C0     int
	Advs   []int
	MaxNow int
}

var bubbleStart = time.Date(2000, 1, 1, 0, 0, 0, 0, time.UTC)

func (s *MSystem) Name() string { return s.name }

func (s *MSystem) Config() map[string]any {
	impl := s.name
	if i := strings.IndexByte(impl, '#'); i >= 0 {
		impl = impl[:i]
	}
	certs := []map[string]any{}
	for _, c := range s.Certs {
		certs = append(certs, map[string]any{"cn": c[0], "nb": c[1], "na": c[2]})
	}
	return map[string]any{"kind": "mtls", "impl": impl, "certs": certs, "c0": s.C0, "advs": s.Advs, "maxnow": s.MaxNow, "nsubs": 0}
}

func mtlsFromCfg(name string, c map[string]any) *MSystem {
	s := &MSystem{name: name, C0: toInt(c["c0"]), MaxNow: toInt(c["maxnow"])}
	if l, ok := c["certs"].([]any); ok {
		for _, x := range l {
			if m, ok := x.(map[string]any); ok {
				s.Certs = append(s.Certs, [3]int{toInt(m["cn"]), toInt(m["nb"]), toInt(m["na"])})
			}
		}
	}
	if l, ok := c["advs"].([]any); ok {
		for _, x := range l {
			s.Advs = append(s.Advs, toInt(x))
		}
	}
	return s
}

func mmk(op string, c, dt int) core.Event { return core.Event{"op": op, "c": c, "dt": dt} }

func (s *MSystem) Events() []core.Event {
	l := []core.Event{mmk("auth", 0, 0)}
	for c := 0; c <= len(s.Certs); c++ {
		l = append(l, mmk("reload", c, 0))
	}
	for _, dt := range s.Advs {
		l = append(l, mmk("adv", 0, dt))
	}
	return l
}

var wraps int

func (s *MSystem) Wrap(f func()) {
	wraps++
	synctest.Test(theT, func(t *testing.T) { f() })
}

type certMat struct {
	certPEM, keyPEM, der []byte
}

var (
	certMu    sync.Mutex
	certCache = map[[3]int]*certMat{}
	serialNo  int64
)

func material(spec [3]int) *certMat {
	certMu.Lock()
	defer certMu.Unlock()
	if m, ok := certCache[spec]; ok {
		return m
	}
	key, err := ecdsa.GenerateKey(elliptic.P256(), rand.Reader)
	if err != nil {
		panic(err)
	}
	serialNo++
	tpl := &x509.Certificate{
		SerialNumber: big.NewInt(1000 + serialNo),
		Subject:      pkix.Name{CommonName: fmt.Sprintf("dev-%d", spec[0]), Organization: []string{"verif"}},
		NotBefore:    bubbleStart.Add(time.Duration(spec[1]) * time.Minute),
		NotAfter:     bubbleStart.Add(time.Duration(spec[2]) * time.Minute),
		KeyUsage:     x509.KeyUsageDigitalSignature,
		ExtKeyUsage:  []x509.ExtKeyUsage{x509.ExtKeyUsageClientAuth},
	}
	der, err := x509.CreateCertificate(rand.Reader, tpl, tpl, &key.PublicKey, key)
	if err != nil {
		panic(err)
	}
	kb, err := x509.MarshalECPrivateKey(key)
	if err != nil {
		panic(err)
	}
	m := &certMat{
		certPEM: pem.EncodeToMemory(&pem.Block{Type: "CERTIFICATE", Bytes: der}),
		keyPEM:  pem.EncodeToMemory(&pem.Block{Type: "EC PRIVATE KEY", Bytes: kb}),
		der:     der,
	}
	certCache[spec] = m
	return m
}

type minst struct {
	s   *MSystem
	a   *da.MTLSAuthenticator
	dir string
}

func (in *minst) put(c int) {
	cf, kf := filepath.Join(in.dir, "cert.pem"), filepath.Join(in.dir, "key.pem")
	if c == 0 {
		if err := os.WriteFile(cf, []byte("not a certificate\n"), 0o600); err != nil {
			panic(err)
		}
		return
	}
	m := material(in.s.Certs[c-1])
	if err := os.WriteFile(cf, m.certPEM, 0o600); err != nil {
		panic(err)
	}
	if err := os.WriteFile(kf, m.keyPEM, 0o600); err != nil {
		panic(err)
	}
}

func (s *MSystem) New() core.Instance {
	dir, err := os.MkdirTemp("", "x14mtls")
	if err != nil {
		panic(err)
	}
	in := &minst{s: s, dir: dir}
	in.put(s.C0)
	a, err := da.NewMTLSAuthenticator(&da.MTLSConfig{CertFile: filepath.Join(dir, "cert.pem"), KeyFile: filepath.Join(dir, "key.pem"), InsecureSkipVerify: true},
		zap.NewNop())
	if err != nil {
		os.RemoveAll(dir)
		panic(fmt.Sprintf("NewMTLSAuthenticator: %v", err))
	}
	in.a = a
	time.Sleep(30 * time.Second)
	return in
}

func (in *minst) Close() {
	in.a.Close()
	os.RemoveAll(in.dir)
}

func (in *minst) now() int { return int(time.Since(bubbleStart) / time.Minute) }

func (in *minst) Apply(ev core.Event) map[string]any {
	op := fmt.Sprint(ev["op"])
	c, dt := toInt(ev["c"]), toInt(ev["dt"])
	res := map[string]any{"ok": true, "succ": false, "dev": 0, "err": ""}
	switch op {
	case "auth":
		r, err := in.a.Authenticate()
		if err != nil {
			res["ok"] = false
			res["err"] = err.Error()
		}
		if r != nil {
			res["succ"] = r.Success
			res["dev"] = cnIndex(r.DeviceID)
		}
	case "reload":
		in.put(c)
		if err := in.a.ReloadCertificates(); err != nil {
			res["ok"] = false
			res["err"] = "reload failed"
		}
	case "adv":
		if in.now()+dt <= in.s.MaxNow {
			time.Sleep(time.Duration(dt) * time.Minute)
			synctest.Wait()
		}
	default:
		panic("unknown op " + op)
	}
	return res
}

func cnIndex(id string) int {
	var i int
	if _, err := fmt.Sscanf(id, "dev-%d", &i); err == nil {
		return i
	}
	if id == "" {
		return 0
	}
	return -1
}

func (in *minst) certIndex(der []byte) int {
	for i, spec := range in.s.Certs {
		if bytes.Equal(material(spec).der, der) {
			return i + 1
		}
	}
	return 0
}

func (in *minst) Observe() map[string]any {
	o := map[string]any{"now": in.now(), "idc": 0, "expc": 0, "tlsc": 0}
	if id := in.a.Identity(); id != nil {
		o["idc"] = cnIndex(id.DeviceID)
		if id.Certificate != nil {
			if i := in.certIndex(id.Certificate.Raw); i > 0 && id.CertificateExpiry.Equal(id.Certificate.NotAfter) {
				o["expc"] = i
			}
		}
	}
	if tc := in.a.GetTLSConfig(); tc != nil && len(tc.Certificates) == 1 && len(tc.Certificates[0].Certificate) > 0 {
		o["tlsc"] = in.certIndex(tc.Certificates[0].Certificate[0])
	}
	return o
}

func (in *minst) Fingerprint() string {
	o := in.Observe()
	return fmt.Sprintf("now=%v id=%v exp=%v tls=%v", o["now"], o["idc"], o["expc"], o["tlsc"])
}

func (in *minst) Probe() map[string]any { return nil }
