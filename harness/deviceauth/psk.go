//go:build verif

// Package deviceauth binds the real deviceauth.PSKAuthenticator, deviceauth.MTLSAuthenticator (pkg/deviceauth) and
// direct.Authenticator (pkg/direct/authenticator.go) of /repo to the DeviceAuth contract (extra family X14).
// The harness only drives the public API and projects what comes back; every verdict is TLC's.
package deviceauth

import (
	"crypto/hmac"
	"crypto/sha256"
	"encoding/hex"
	"fmt"
	"strings"
	"sync/atomic"
	"time"

	da "github.com/codelaboratoryltd/bng/pkg/deviceauth"
	"go.uber.org/zap"

	"verifharness/core"
)

func toInt(v any) int {
	switch x := v.(type) {
	case int:
		return x
	case int64:
		return int(x)
	case float64:
		return int(x)
	case bool:
		if x {
			return 1
		}
	}
	return 0
}

// ---------------------------------------------------------------------------------------------------------------
// PSK: one real PSKAuthenticator in the server role (VerifySignature) and the client role (GetHTTPHeaders).
// Key index: 0 = empty key, 1..NK = keys of exactly 16 characters, NK+1 = a 9-character key, NK+2 = 16 zero bytes.

type PSystem struct {
	name  string
	NK    int
	K0    int
	DTs   []int // timestamp offsets in seconds
	Ops   []string
	RaceN int
}

const pskDevice = "olt-verif-1"

func (s *PSystem) defaults() {
	if s.NK == 0 {
		s.NK = 2
	}
	if s.K0 == 0 {
		s.K0 = 1
	}
	if s.DTs == nil {
		s.DTs = []int{0}
	}
	if s.Ops == nil {
		s.Ops = []string{"rot", "ver", "auth", "hdr", "close"}
	}
	if s.RaceN == 0 {
		s.RaceN = 400000
	}
}

func (s *PSystem) Name() string { return s.name }

func (s *PSystem) Config() map[string]any {
	s.defaults()
	impl := s.name
	if i := strings.IndexByte(impl, '#'); i >= 0 {
		impl = impl[:i]
	}
	return map[string]any{"kind": "psk", "impl": impl, "nk": s.NK, "k0": s.K0, "skew": 300, "dts": s.DTs, "ops": s.Ops, "racen": s.RaceN, "nsubs": 0}
}

func pskFromCfg(name string, c map[string]any) *PSystem {
	s := &PSystem{name: name, NK: toInt(c["nk"]), K0: toInt(c["k0"]), RaceN: toInt(c["racen"])}
	if l, ok := c["dts"].([]any); ok {
		s.DTs = []int{}
		for _, x := range l {
			s.DTs = append(s.DTs, toInt(x))
		}
	}
	if l, ok := c["ops"].([]any); ok {
		s.Ops = []string{}
		for _, x := range l {
			s.Ops = append(s.Ops, fmt.Sprint(x))
		}
	}
	return s
}

func pmk(op string, k, k2, dt int) core.Event {
	return core.Event{"op": op, "k": k, "k2": k2, "dt": dt}
}

func (s *PSystem) has(op string) bool {
	for _, o := range s.Ops {
		if o == op {
			return true
		}
	}
	return false
}

func (s *PSystem) Events() []core.Event {
	s.defaults()
	var l []core.Event
	if s.has("rot") {
		for k := 0; k <= s.NK+1; k++ {
			l = append(l, pmk("rot", k, 0, 0))
		}
	}
	if s.has("ver") {
		for k := 0; k <= s.NK+2; k++ {
			for _, dt := range s.DTs {
				l = append(l, pmk("ver", k, 0, dt))
			}
		}
	}
	for _, op := range []string{"auth", "hdr", "close"} {
		if s.has(op) {
			l = append(l, pmk(op, 0, 0, 0))
		}
	}
	if s.has("race") {
		l = append(l, pmk("race", 1, 2, 0), pmk("race", 2, 1, 0))
	}
	return l
}

func (s *PSystem) key(k int) []byte {
	switch {
	case k == 0:
		return []byte{}
	case k <= s.NK:
		return []byte(fmt.Sprintf("verifkey-%07d", k))
	case k == s.NK+1:
		return []byte("short-key")
	default:
		return make([]byte, 16)
	}
}

func sign(key []byte, dev, ts string) string {
	m := hmac.New(sha256.New, key)
	m.Write([]byte(dev + ":" + ts))
	return hex.EncodeToString(m.Sum(nil))
}

type pinst struct {
	s *PSystem
	a *da.PSKAuthenticator
}

func (s *PSystem) New() core.Instance {
	s.defaults()
	a, err := da.NewPSKAuthenticator(&da.PSKConfig{Key: string(s.key(s.K0))}, zap.NewNop(), da.WithDeviceID(pskDevice))
	if err != nil {
		panic(fmt.Sprintf("NewPSKAuthenticator: %v", err))
	}
	return &pinst{s: s, a: a}
}

func (in *pinst) Close() {}

func (in *pinst) Apply(ev core.Event) map[string]any {
	op := fmt.Sprint(ev["op"])
	k, k2, dt := toInt(ev["k"]), toInt(ev["k2"]), toInt(ev["dt"])
	res := map[string]any{"ok": true, "acc": false, "succ": false, "dev": false, "sk": -1, "leak": false, "fresh": false, "zacc": false, "err": ""}
	fail := func(err error) {
		if err != nil {
			res["ok"] = false
			res["err"] = err.Error()
		}
	}
	switch op {
	case "rot":
		fail(in.a.RotatePSK(string(in.s.key(k))))
	case "ver":
		ts := time.Now().Add(time.Duration(dt) * time.Second).UTC().Format(time.RFC3339)
		err := in.a.VerifySignature(pskDevice, ts, sign(in.s.key(k), pskDevice, ts))
		res["acc"] = err == nil
		if err != nil { // the class of the refusal (the message carries the measured skew)
			switch msg := err.Error(); {
			case strings.Contains(msg, "skew"):
				res["err"] = "timestamp skew too large"
			case strings.Contains(msg, "mismatch"):
				res["err"] = "signature mismatch"
			default:
				res["err"] = "other"
			}
		}
	case "auth":
		r, err := in.a.Authenticate()
		fail(err)
		if r != nil {
			res["succ"] = r.Success
			id := in.a.Identity()
			res["dev"] = id != nil && r.DeviceID == id.DeviceID && r.DeviceID == pskDevice
		}
	case "hdr":
		h := in.a.GetHTTPHeaders()
		ts, sig, dev := h[da.PSKTimestampHeader], h[da.PSKSignatureHeader], h["X-Device-ID"]
		for i := 0; i <= in.s.NK+2; i++ {
			if sign(in.s.key(i), dev, ts) == sig {
				res["sk"] = i
				break
			}
		}
		if t, err := time.Parse(time.RFC3339, ts); err == nil {
			d := time.Since(t)
			res["fresh"] = d > -2*time.Second && d < 3*time.Second && dev == pskDevice
		}
		for i := 1; i <= in.s.NK+1; i++ {
			for _, v := range h {
				if strings.Contains(v, string(in.s.key(i))) {
					res["leak"] = true
				}
			}
		}
	case "close":
		fail(in.a.Close())
	case "race":
		res["zacc"] = in.race(k, k2)
	default:
		panic("unknown op " + op)
	}
	return res
}

// race: one goroutine rotates between keys k1 and k2 (ending with k2) while this one presents a signature made with
// 16 zero bytes, until it is accepted or the rotations are used up. No gate: the package has no hook and none was added.
func (in *pinst) race(k1, k2 int) bool {
	ts := time.Now().UTC().Format(time.RFC3339)
	sig := sign(make([]byte, 16), pskDevice, ts)
	var stop, done atomic.Bool
	s1, s2 := string(in.s.key(k1)), string(in.s.key(k2))
	go func() {
		defer done.Store(true)
		for i := 0; i < in.s.RaceN && !stop.Load(); i++ {
			in.a.RotatePSK(s1)
			in.a.RotatePSK(s2)
		}
	}()
	hit := false
	for !done.Load() {
		if in.a.VerifySignature(pskDevice, ts, sig) == nil {
			hit = true
			stop.Store(true)
			break
		}
	}
	for !done.Load() {
		time.Sleep(time.Microsecond)
	}
	in.a.RotatePSK(s2)
	return hit
}

func (in *pinst) pskBytes() string {
	mu := core.Field(in.a, "mu").Addr().Interface().(interface {
		RLock()
		RUnlock()
	})
	mu.RLock()
	defer mu.RUnlock()
	return hex.EncodeToString(core.Field(in.a, "psk").Bytes())
}

func (in *pinst) Observe() map[string]any { return map[string]any{"n": 0} }

func (in *pinst) Fingerprint() string { return "psk=" + in.pskBytes() }

func (in *pinst) Probe() map[string]any { return nil }
