//go:build verif

package deviceauth

import (
	"context"
	"fmt"
	"sort"
	"strings"

	"github.com/codelaboratoryltd/bng/pkg/direct"
	"github.com/codelaboratoryltd/bng/pkg/subscriber"
	"go.uber.org/zap"

	"verifharness/core"
)

// ---------------------------------------------------------------------------------------------------------------
// direct: the real direct.Authenticator with a BSS client that is a table owned by the harness (it returns a fresh
// copy of a record every time, so the cache never aliases it). Statuses: 0 absent 1 active 2 suspended 3 disconnected 4 "".

type DSystem struct {
	name string
	NO   int
	Sts  []int // statuses the BSS can be set to
	Vias []int // 0 no identifier, 1 ONUID, 2 circuit id, 3 both, 4 RemoteID, 5 NTEID
}

func (s *DSystem) defaults() {
	if s.NO == 0 {
		s.NO = 2
	}
	if s.Sts == nil {
		s.Sts = []int{0, 1, 2}
	}
	if s.Vias == nil {
		s.Vias = []int{1, 2}
	}
}

func (s *DSystem) Name() string { return s.name }

func (s *DSystem) Config() map[string]any {
	s.defaults()
	impl := s.name
	if i := strings.IndexByte(impl, '#'); i >= 0 {
		impl = impl[:i]
	}
	return map[string]any{"kind": "direct", "impl": impl, "no": s.NO, "sts": s.Sts, "vias": s.Vias, "nsubs": 0}
}

func directFromCfg(name string, c map[string]any) *DSystem {
	s := &DSystem{name: name, NO: toInt(c["no"])}
	if l, ok := c["sts"].([]any); ok {
		s.Sts = []int{}
		for _, x := range l {
			s.Sts = append(s.Sts, toInt(x))
		}
	}
	if l, ok := c["vias"].([]any); ok {
		s.Vias = []int{}
		for _, x := range l {
			s.Vias = append(s.Vias, toInt(x))
		}
	}
	return s
}

func dmk(op string, o, st, via int) core.Event {
	return core.Event{"op": op, "o": o, "st": st, "via": via}
}

func (s *DSystem) Events() []core.Event {
	s.defaults()
	var l []core.Event
	for o := 1; o <= s.NO; o++ {
		for _, st := range s.Sts {
			l = append(l, dmk("bss", o, st, 0))
		}
		for _, v := range s.Vias {
			if v != 0 {
				l = append(l, dmk("auth", o, 0, v))
			}
		}
		l = append(l, dmk("inv", o, 0, 0))
	}
	for _, v := range s.Vias {
		if v == 0 {
			l = append(l, dmk("auth", 0, 0, 0))
		}
	}
	l = append(l, dmk("sync", 0, 0, 0))
	return l
}

var statusNames = []string{"", "active", "suspended", "disconnected", ""}

func serialOf(o int) string  { return fmt.Sprintf("ONT%04d", o) }
func circuitOf(o int) string { return fmt.Sprintf("olt1/pon0/%d", o) }
func subOf(o int) string     { return fmt.Sprintf("sub-%d", o) }

type fakeBSS struct {
	st []int // by ONT index
}

func (b *fakeBSS) rec(o int) *direct.ONTMapping {
	if o < 1 || o >= len(b.st) || b.st[o] == 0 {
		return nil
	}
	return &direct.ONTMapping{ONTSerial: serialOf(o), CircuitID: circuitOf(o), SubscriberID: subOf(o), Status: statusNames[b.st[o]]}
}

func (b *fakeBSS) GetONTMapping(ctx context.Context, serial string) (*direct.ONTMapping, error) {
	for o := 1; o < len(b.st); o++ {
		if serialOf(o) == serial {
			if m := b.rec(o); m != nil {
				return m, nil
			}
		}
	}
	return nil, fmt.Errorf("not found")
}

func (b *fakeBSS) GetONTMappingByCircuitID(ctx context.Context, cid string) (*direct.ONTMapping, error) {
	for o := 1; o < len(b.st); o++ {
		if circuitOf(o) == cid {
			if m := b.rec(o); m != nil {
				return m, nil
			}
		}
	}
	return nil, fmt.Errorf("not found")
}

func (b *fakeBSS) ReportBinding(ctx context.Context, ev *direct.BindingEvent) error { return nil }

func (b *fakeBSS) SyncMappings(ctx context.Context) ([]*direct.ONTMapping, error) {
	var l []*direct.ONTMapping
	for o := 1; o < len(b.st); o++ {
		if m := b.rec(o); m != nil {
			l = append(l, m)
		}
	}
	return l, nil
}

type dinst struct {
	s   *DSystem
	a   *direct.Authenticator
	bss *fakeBSS
}

func (s *DSystem) New() core.Instance {
	s.defaults()
	in := &dinst{s: s, bss: &fakeBSS{st: make([]int, s.NO+1)}}
	in.a = direct.NewAuthenticator(direct.DefaultConfig(), nil, zap.NewNop())
	in.a.SetBSSClient(in.bss)
	return in
}

func (in *dinst) Close() {}

func (in *dinst) Apply(ev core.Event) map[string]any {
	op := fmt.Sprint(ev["op"])
	o, st, via := toInt(ev["o"]), toInt(ev["st"]), toInt(ev["via"])
	res := map[string]any{"ok": true, "succ": false, "sub": 0, "walled": false, "err": ""}
	switch op {
	case "bss":
		in.bss.st[o] = st
	case "auth":
		req := &subscriber.SessionRequest{}
		switch via {
		case 1:
			req.ONUID = serialOf(o)
		case 2:
			req.CircuitID = circuitOf(o)
		case 3:
			req.ONUID, req.CircuitID = serialOf(o), circuitOf(o)
		case 4:
			req.RemoteID = serialOf(o)
		case 5:
			req.NTEID = serialOf(o)
		}
		r, err := in.a.Authenticate(context.Background(), req)
		if err != nil {
			res["ok"] = false
			res["err"] = err.Error()
		}
		if r != nil {
			res["succ"] = r.Success
			res["walled"] = r.WalledGarden
			if res["err"] == "" {
				res["err"] = r.Error
			}
			for i := 1; i <= in.s.NO; i++ {
				if r.SubscriberID == subOf(i) {
					res["sub"] = i
				}
			}
			if r.SubscriberID != "" && res["sub"] == 0 {
				res["sub"] = -1
			}
		}
	case "inv":
		in.a.InvalidateCache(serialOf(o), circuitOf(o))
	case "sync":
		if err := in.a.SyncFromBSS(context.Background()); err != nil {
			res["ok"] = false
			res["err"] = err.Error()
		}
	default:
		panic("unknown op " + op)
	}
	return res
}

func (in *dinst) Observe() map[string]any {
	st := in.a.Stats()
	return map[string]any{"nser": st.CachedONTMappings, "ncid": st.CachedCircuitIDMappings}
}

// cache contents by reflection, under the authenticator's own read lock
func (in *dinst) Fingerprint() string {
	mu := core.Field(in.a, "mu").Addr().Interface().(interface {
		RLock()
		RUnlock()
	})
	mu.RLock()
	defer mu.RUnlock()
	var l []string
	for _, f := range []string{"ontCache", "circuitIDCache"} {
		it := core.Field(in.a, f).MapRange()
		for it.Next() {
			m := it.Value().Interface().(*direct.ONTMapping)
			l = append(l, fmt.Sprintf("%s:%s=%s/%s/%s/%s", f, it.Key().String(), m.ONTSerial, m.CircuitID, m.SubscriberID, m.Status))
		}
	}
	sort.Strings(l)
	return fmt.Sprintf("bss=%v cache=%v", in.bss.st, l)
}

func (in *dinst) Probe() map[string]any { return nil }
