//go:build verif

package deviceauth

import (
	"encoding/json"
	"fmt"
	"math/rand"
	"os"
	"strings"
	"testing"

	"verifharness/core"
)

type replayCase struct {
	ID     string         `json:"id"`
	System string         `json:"system"`
	Events []core.Event   `json:"events"`
	Cfg    map[string]any `json:"cfg"`
}

type replayFile struct {
	Property string       `json:"property"`
	Cases    []replayCase `json:"cases"`
}

type runStats struct {
	Systems     int                `json:"systems"`
	Nodes       int                `json:"nodes"`
	Edges       int                `json:"edges"`
	Chains      int                `json:"chains"`
	ChainEvents int                `json:"chain_events"`
	Closed      int                `json:"closed_systems"`
	Panics      []core.PanicRecord `json:"panics"`
	PerSystem   map[string][3]int  `json:"per_system"`
}

// Catalogue: configurations whose transition tables are extracted (until closed).
func Catalogue(tier string) []core.System {
	l := []core.System{
		&PSystem{name: "psk-2", NK: 2, K0: 1, DTs: []int{0, -240, -360, 360}},
		&PSystem{name: "psk-short0", NK: 1, K0: 2, DTs: []int{0}}, // configured with a short key (allowed with a warning)
		&DSystem{name: "direct-2", NO: 2, Sts: []int{0, 1, 2}, Vias: []int{0, 1, 2}},
		&DSystem{name: "direct-1", NO: 1, Sts: []int{0, 1, 2, 3, 4}, Vias: []int{0, 1, 2, 3, 4, 5}},
		&MSystem{name: "mtls-3", Certs: [][3]int{{1, -60, 10}, {2, 5, 30}, {1, -60, -1}}, C0: 1, Advs: []int{4, 8}, MaxNow: 40},
	}
	if tier == "thorough" {
		l = append(l,
			&PSystem{name: "psk-3", NK: 3, K0: 2, DTs: []int{0, 240, -299, -301, 301, -86400}},
			&DSystem{name: "direct-3", NO: 3, Sts: []int{0, 1, 2, 3}, Vias: []int{1, 2}},
			&MSystem{name: "mtls-4", Certs: [][3]int{{1, -60, 6}, {2, 3, 12}, {3, 9, 20}, {2, -60, -1}}, C0: 1, Advs: []int{1, 5}, MaxNow: 25},
		)
	}
	return l
}

// ChainCatalogue: configurations driven by long seeded random sequences.
func ChainCatalogue() []core.System {
	return []core.System{
		&PSystem{name: "rnd-psk", NK: 5, K0: 3, DTs: []int{0, 0, -200, 200, -400, 400, 3600}},
		&DSystem{name: "rnd-direct", NO: 5, Sts: []int{0, 1, 1, 2, 3, 4}, Vias: []int{0, 1, 2, 3, 4, 5}},
		&MSystem{name: "rnd-mtls", Certs: [][3]int{{1, -60, 20}, {2, 10, 60}, {3, 40, 90}, {1, 50, 55}, {2, -60, -1}}, C0: 1, Advs: []int{1, 1, 3, 7}, MaxNow: 120},
	}
}

func raceSystem() *PSystem {
	return &PSystem{name: "race", NK: 2, K0: 1, DTs: []int{0}, Ops: []string{"rot", "ver", "auth", "close", "race"}}
}

func find(name string) core.System {
	for _, s := range append(append(Catalogue("thorough"), ChainCatalogue()...), raceSystem()) {
		if s.Name() == name {
			return s
		}
	}
	return nil
}

func sysFromCfg(name string, c map[string]any) core.System {
	if c == nil {
		return nil
	}
	switch c["kind"] {
	case "psk":
		return pskFromCfg(name, c)
	case "direct":
		return directFromCfg(name, c)
	case "mtls":
		return mtlsFromCfg(name, c)
	}
	return nil
}

func randomChain(sys core.System, rng *rand.Rand, n int) []core.Event {
	evs := sys.Events()
	var out []core.Event
	for len(out) < n {
		out = append(out, evs[rng.Intn(len(evs))])
	}
	return out
}

func TestExplore(t *testing.T) {
	theT = t
	out := core.OutDir()
	if rf := os.Getenv("VERIF_REPLAY"); rf != "" {
		replay(t, rf, out)
		return
	}
	tier := core.Tier()
	seed := core.Seed()
	maxNodes := 8000
	nchains, chainLen := 6, 150
	if tier == "thorough" {
		maxNodes = 60000
		nchains, chainLen = 30, 300
	}
	bundle := &core.Bundle{}
	st := runStats{PerSystem: map[string][3]int{}}
	only := os.Getenv("VERIF_ONLY")
	for _, sys := range Catalogue(tier) {
		if only != "" && only != sys.Name() {
			continue
		}
		// synctest bubbles strictly one after the other
		tab, panics, err := core.Explore(sys, core.ExploreOptions{MaxNodes: maxNodes, AdequacySample: 20, Seed: seed, Workers: 1})
		if err != nil {
			t.Fatalf("explore %s: %v", sys.Name(), err)
		}
		st.Panics = append(st.Panics, panics...)
		bundle.Systems = append(bundle.Systems, tab)
		ne := 0
		for _, es := range tab.Edges {
			ne += len(es)
		}
		c := 0
		if tab.Closed {
			c = 1
			st.Closed++
		}
		st.PerSystem[sys.Name()] = [3]int{len(tab.Nodes), ne, c}
		st.Systems++
		st.Nodes += len(tab.Nodes)
		st.Edges += ne
	}
	add := func(sys core.System, name string, seqv []core.Event) {
		tab, pr := core.Chain(sys, name, seqv, false)
		if pr != nil {
			st.Panics = append(st.Panics, *pr)
			return
		}
		bundle.Systems = append(bundle.Systems, tab)
		st.Chains++
		st.ChainEvents += len(seqv)
	}
	rng := rand.New(rand.NewSource(seed))
	for _, sys := range ChainCatalogue() {
		if only != "" && only != sys.Name() {
			continue
		}
		for c := 0; c < nchains; c++ {
			add(sys, fmt.Sprintf("%s#%d", sys.Name(), c), randomChain(sys, rng, chainLen))
		}
	}
	// rotation and verification at once (plain goroutines): chains only, the outcome is the scheduler's
	if only == "" || only == "race" {
		rs := raceSystem()
		for c, seqv := range [][]core.Event{
			{pmk("race", 1, 2, 0), pmk("ver", 2, 0, 0), pmk("ver", 1, 0, 0)},
			{pmk("rot", 2, 0, 0), pmk("race", 2, 1, 0), pmk("auth", 0, 0, 0)},
		} {
			add(rs, fmt.Sprintf("race#%d", c), seqv)
		}
	}
	// histories found by TLC on the implementation-shaped design spec, executed on the real code
	if xf := os.Getenv("VERIF_EXTRA_CASES"); xf != "" {
		b, err := os.ReadFile(xf)
		if err != nil {
			t.Fatal(err)
		}
		var rf replayFile
		if err := json.Unmarshal(b, &rf); err != nil {
			t.Fatal(err)
		}
		for _, c := range rf.Cases {
			sys := sysFromCfg(c.System, c.Cfg)
			if sys == nil {
				t.Fatalf("extra case %s: no configuration", c.ID)
			}
			add(sys, c.System+"#"+c.ID, clean(c.Events))
		}
	}
	if err := core.WriteJSON(out, "bundle.json", bundle); err != nil {
		t.Fatal(err)
	}
	if err := core.WriteJSON(out, "stats.json", st); err != nil {
		t.Fatal(err)
	}
}

// clean keeps only the alphabet part of recorded events (results are observed afresh).
func clean(in []core.Event) []core.Event {
	evs := make([]core.Event, 0, len(in))
	for _, e := range in {
		op := fmt.Sprint(e["op"])
		switch {
		case has(e, "via"):
			evs = append(evs, dmk(op, toInt(e["o"]), toInt(e["st"]), toInt(e["via"])))
		case has(e, "c"):
			evs = append(evs, mmk(op, toInt(e["c"]), toInt(e["dt"])))
		default:
			evs = append(evs, pmk(op, toInt(e["k"]), toInt(e["k2"]), toInt(e["dt"])))
		}
	}
	return evs
}

func has(e core.Event, k string) bool { _, ok := e[k]; return ok }

func replay(t *testing.T, file, out string) {
	b, err := os.ReadFile(file)
	if err != nil {
		t.Fatal(err)
	}
	var rf replayFile
	if err := json.Unmarshal(b, &rf); err != nil {
		t.Fatal(err)
	}
	st := runStats{PerSystem: map[string][3]int{}}
	bundle := &core.Bundle{}
	for _, c := range rf.Cases {
		name := c.System
		if i := strings.IndexByte(name, '#'); i >= 0 {
			name = name[:i]
		}
		sys := sysFromCfg(name, c.Cfg)
		if sys == nil {
			sys = find(name)
		}
		if sys == nil {
			t.Fatalf("unknown system %q", c.System)
		}
		evs := clean(c.Events)
		tab, pr := core.Chain(sys, name+"#"+c.ID, evs, false)
		if pr != nil {
			st.Panics = append(st.Panics, *pr)
			continue
		}
		bundle.Systems = append(bundle.Systems, tab)
		st.Chains++
		st.ChainEvents += len(evs)
	}
	if err := core.WriteJSON(out, "bundle.json", bundle); err != nil {
		t.Fatal(err)
	}
	core.WriteJSON(out, "stats.json", st)
}
