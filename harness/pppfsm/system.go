package pppfsm

import (
	"encoding/hex"
	"fmt"
	"math/rand"
	"sync"
	"sync/atomic"
	"testing"
	"testing/synctest"
	"time"

	"github.com/codelaboratoryltd/bng/pkg/pppoe"

	"verifharness/core"
)

// T is the *testing.T of the running explorer; synctest bubbles are opened on it.
var T *testing.T

// gate registry: automaton pointer -> live instance (see pkg/pppoe/verif_hooks_fsm.go)
var registry sync.Map

func init() {
	pppoe.VerifFSMGate = func(point string, m any) {
		v, ok := registry.Load(m)
		if !ok {
			return
		}
		in := v.(*inst)
		if in.closing.Load() || !in.hold.Load() || in.parked.Load() > 0 {
			return
		}
		in.parked.Add(1)
		<-in.release
		in.parked.Add(-1)
	}
}

// Sys is one configured automaton as a core.System.
type Sys struct {
	V      Variant
	Gate   bool // alphabet contains the split timer events TimerFires / TimeoutRuns
	events []core.Event
}

// opt is one configuration option of a packet sent to the automaton. k is the class the
// alphabet gives it: "good" (must not be listed in a Nak/Reject), "bad" (offending),
// "ip" (IPCP address option: good iff it is the address assigned to the session).
type opt struct {
	t byte
	d []byte
	k string
}

func NewSys(v Variant, gate bool, extra bool) *Sys {
	s := &Sys{V: v, Gate: gate}
	ops := []string{"Up", "Down", "Open", "Close", "TO"}
	if gate {
		ops = append(ops, "TimerFires", "TimeoutRuns")
	}
	ops = append(ops, "RCR+", "RCR-nak", "RCR-rej", "RCA", "RCA-stale", "RCA-next", "RCN", "RCN-stale", "RCJ", "RCJ-stale", "RTR", "RTA",
		"CodeRej-crit", "CodeRej-other", "EchoReq", "EchoReq-short", "Unknown")
	if v.Proto == "lcp" {
		ops = append(ops, "ProtoRej-lcp", "ProtoRej-other")
	}
	if v.Proto == "ipcp" {
		ops = append(ops, "RCR-wrong", "RCR-dns0")
	}
	if extra {
		ops = append(ops, "RCR-mix", "RCR-empty", "RCR-bad", "Short", "EchoReply", "Discard")
	}
	for _, o := range ops {
		s.events = append(s.events, core.Event{"op": o})
	}
	return s
}

func (s *Sys) Name() string { return s.V.Name }
func (s *Sys) Config() map[string]any {
	return map[string]any{"impl": s.V.Name, "proto": s.V.Proto, "maxconf": s.V.MaxConf, "maxterm": s.V.MaxTerm,
		"static": s.V.Static, "pool": s.V.Pool, "nsubs": 1}
}
func (s *Sys) Events() []core.Event { return s.events }

// Wrap runs one replay inside a synctest bubble (virtual time, real timers).
func (s *Sys) Wrap(f func()) {
	synctest.Test(T, func(*testing.T) { f() })
}

type outPkt struct {
	proto uint16
	b     []byte
}

type inst struct {
	s       *Sys
	m       *mach
	out     []outPkt
	poolLog []map[string]any
	cur     int    // identifier of our latest Configure-Request seen on the send callback (-1: none yet)
	curOpts []byte // its option bytes (a Configure-Ack/Nak/Reject sent to the automaton repeats them)
	hold    atomic.Bool
	parked  atomic.Int32
	closing atomic.Bool
	release chan struct{}
}

func (s *Sys) New() core.Instance {
	in := &inst{s: s, cur: -1, release: make(chan struct{})}
	in.m = newMach(s.V, func(proto uint16, data []byte) {
		in.out = append(in.out, outPkt{proto, append([]byte{}, data...)})
	}, func(op, addr string) {
		in.poolLog = append(in.poolLog, map[string]any{"op": op, "addr": addr})
	})
	registry.Store(in.m.obj, in)
	return in
}

func packet(code, id byte, data []byte) []byte {
	b := make([]byte, 4+len(data))
	b[0], b[1] = code, id
	b[2], b[3] = byte((4+len(data))>>8), byte(4+len(data))
	copy(b[4:], data)
	return b
}

func serOpts(os []opt) []byte {
	var b []byte
	for _, o := range os {
		b = append(b, o.t, byte(2+len(o.d)))
		b = append(b, o.d...)
	}
	return b
}

func hx(s string) []byte {
	b, err := hex.DecodeString(s)
	if err != nil {
		panic(err)
	}
	return b
}

// reqOpts returns the options of the peer Configure-Request named op for this protocol.
func (in *inst) reqOpts(op string) []opt {
	switch in.s.V.Proto {
	case "lcp":
		mru := opt{1, hx("05d4"), "good"}   // 1492
		mruBig := opt{1, hx("07d0"), "bad"} // 2000 > PPPoE limit
		magic := opt{5, hx("11223344"), "good"}
		unk := opt{0x63, hx("abcd"), "bad"}
		switch op {
		case "RCR+":
			return []opt{mru, magic}
		case "RCR-nak":
			return []opt{mruBig, magic}
		case "RCR-rej":
			return []opt{mru, magic, unk}
		case "RCR-mix":
			return []opt{mruBig, unk, magic}
		}
	case "ipcp":
		ipA := opt{3, addrAssigned, "ip"}
		ipB := opt{3, addrOther, "ip"}
		ip0 := opt{3, hx("00000000"), "ip"}
		dns := opt{129, hx("08080808"), "good"}
		comp := opt{2, hx("002d0f01"), "bad"}
		switch op {
		case "RCR+":
			return []opt{ipA, dns}
		case "RCR-nak":
			return []opt{ip0, dns}
		case "RCR-rej":
			return []opt{ipA, comp}
		case "RCR-wrong":
			return []opt{ipB}
		case "RCR-dns0": // the client asks to be told both DNS servers (none is configured here: the policy is the automaton's)
			return []opt{ipA, {129, hx("00000000"), "any"}, {131, hx("00000000"), "any"}}
		case "RCR-mix":
			return []opt{ip0, comp, dns}
		}
	case "ipv6cp":
		id := opt{1, hx("0200000000000bbb"), "good"}
		id0 := opt{1, hx("0000000000000000"), "bad"}
		unk := opt{9, hx("ab"), "bad"}
		switch op {
		case "RCR+":
			return []opt{id}
		case "RCR-nak":
			return []opt{id0}
		case "RCR-rej":
			return []opt{id, unk}
		case "RCR-mix":
			return []opt{id0, unk}
		}
	}
	return []opt{}
}

// randOpts draws a random option list. Unknown types are offending ("bad"); for a known type the
// automaton's policy decides, so the contract leaves it free ("any"), except the IPCP address
// option, which is judged against the assigned address ("ip").
func (in *inst) randOpts(seed int64) []opt {
	rng := rand.New(rand.NewSource(seed))
	known := map[string][]byte{"lcp": {1, 3, 5, 7, 8}, "ipcp": {2, 3, 129, 131}, "ipv6cp": {1}}[in.s.V.Proto]
	sizes := map[byte]int{1: 2, 5: 4, 7: 0, 8: 0, 3: 4, 129: 4, 131: 4, 2: 4}
	if in.s.V.Proto == "ipv6cp" {
		sizes = map[byte]int{1: 8}
	}
	if in.s.V.Proto == "lcp" {
		sizes[3] = 2
	}
	os := []opt{}
	for n := rng.Intn(5); n > 0; n-- {
		var o opt
		if rng.Intn(4) == 0 {
			o.t, o.k = byte(20+rng.Intn(200)), "bad"
			o.d = make([]byte, rng.Intn(9))
		} else {
			o.t, o.k = known[rng.Intn(len(known))], "any"
			ln := sizes[o.t]
			if rng.Intn(4) == 0 {
				ln = rng.Intn(9)
			}
			o.d = make([]byte, ln)
		}
		rng.Read(o.d)
		if in.s.V.Proto == "ipcp" && o.t == 3 && len(o.d) == 4 {
			o.k = "ip"
			switch rng.Intn(3) {
			case 0:
				o.d = append([]byte{}, addrAssigned...)
			case 1:
				o.d = []byte{0, 0, 0, 0}
			}
		}
		os = append(os, o)
	}
	return os
}

// nakOpts: what the peer suggests in a Configure-Nak / lists in a Configure-Reject.
func (in *inst) nakOpts(rej bool) []byte {
	switch in.s.V.Proto {
	case "lcp":
		if rej {
			return serOpts([]opt{{3, hx("c023"), ""}})
		}
		return serOpts([]opt{{1, hx("0578"), ""}}) // MRU 1400
	case "ipcp":
		if rej {
			return serOpts([]opt{{3, addrLocal, ""}})
		}
		return serOpts([]opt{{3, hx("0a00004d"), ""}})
	default:
		if rej {
			return serOpts([]opt{{1, hx("0200000000000aaa"), ""}})
		}
		return serOpts([]opt{{1, hx("0200000000000ccc"), ""}})
	}
}

// peer identifiers are chosen relative to our current request identifier, a different one
// per kind of request, so a reply that echoes the wrong request is visible.
var peerIDOffset = map[string]int{"RCR+": 0x51, "RCR-nak": 0x52, "RCR-rej": 0x53, "RCR-wrong": 0x54, "RCR-dns0": 0x59, "RCR-mix": 0x55, "RCR-empty": 0x56,
	"RCR-bad": 0x57, "RCR-rand": 0x58, "RTR": 0x61, "RTA": 0x62, "EchoReq": 0x71, "EchoReq-short": 0x72, "EchoReply": 0x73, "Discard": 0x74,
	"Unknown": 0x75, "CodeRej-crit": 0x76, "CodeRej-other": 0x77, "ProtoRej-lcp": 0x78, "ProtoRej-other": 0x79}

func optsJSON(os []opt) []map[string]any {
	out := []map[string]any{}
	for _, o := range os {
		out = append(out, map[string]any{"t": int(o.t), "d": hex.EncodeToString(o.d), "k": o.k})
	}
	return out
}

// build returns the raw packet for event op and its abstract description.
func (in *inst) build(op string, base int, ev core.Event) (raw []byte, code int, id int, opts []opt) {
	idOf := func(off int) byte { return byte(base + off) }
	switch op {
	case "RCR+", "RCR-nak", "RCR-rej", "RCR-wrong", "RCR-dns0", "RCR-mix", "RCR-empty":
		opts = in.reqOpts(op)
		i := idOf(peerIDOffset[op])
		return packet(1, i, serOpts(opts)), 1, int(i), opts
	case "RCR-rand": // random option list (U3 chains): known and unknown types, lengths 0-8
		opts = in.randOpts(int64(toInt(ev["seed"])))
		i := idOf(peerIDOffset[op])
		return packet(1, i, serOpts(opts)), 1, int(i), opts
	case "RCR-bad": // option with length field 1 (malformed)
		i := idOf(peerIDOffset[op])
		return packet(1, i, []byte{1, 1, 0, 0}), 1, int(i), []opt{}
	case "RCA", "RCA-stale", "RCA-next":
		i := idOf(0)
		if op == "RCA-stale" {
			i = idOf(-1)
		}
		if op == "RCA-next" { // the identifier our side will use for its NEXT packet (it acknowledges nothing yet)
			i = idOf(1)
		}
		return packet(2, i, in.curOpts), 2, int(i), []opt{}
	case "RCN", "RCN-stale":
		i := idOf(0)
		if op == "RCN-stale" {
			i = idOf(-1)
		}
		return packet(3, i, in.nakOpts(false)), 3, int(i), []opt{}
	case "RCJ", "RCJ-stale":
		i := idOf(0)
		if op == "RCJ-stale" {
			i = idOf(-1)
		}
		return packet(4, i, in.nakOpts(true)), 4, int(i), []opt{}
	case "RTR":
		i := idOf(peerIDOffset[op])
		return packet(5, i, []byte("bye")), 5, int(i), []opt{}
	case "RTA":
		i := idOf(peerIDOffset[op])
		return packet(6, i, nil), 6, int(i), []opt{}
	case "CodeRej-crit": // the peer rejects Configure-Request (a code the automaton cannot do without)
		i := idOf(peerIDOffset[op])
		return packet(7, i, packet(1, 1, nil)), 7, int(i), []opt{}
	case "CodeRej-other": // the peer rejects Discard-Request
		i := idOf(peerIDOffset[op])
		return packet(7, i, packet(11, 1, nil)), 7, int(i), []opt{}
	case "ProtoRej-lcp":
		i := idOf(peerIDOffset[op])
		return packet(8, i, []byte{0xc0, 0x21, 1, 1, 0, 4}), 8, int(i), []opt{}
	case "ProtoRej-other":
		i := idOf(peerIDOffset[op])
		return packet(8, i, []byte{0x80, 0x57, 1, 1, 0, 4}), 8, int(i), []opt{}
	case "EchoReq":
		i := idOf(peerIDOffset[op])
		return packet(9, i, []byte{0x11, 0x22, 0x33, 0x44, 'h', 'i'}), 9, int(i), []opt{}
	case "EchoReq-short": // no magic number field at all
		i := idOf(peerIDOffset[op])
		return packet(9, i, nil), 9, int(i), []opt{}
	case "EchoReply":
		i := idOf(peerIDOffset[op])
		return packet(10, i, []byte{0x11, 0x22, 0x33, 0x44}), 10, int(i), []opt{}
	case "Discard":
		i := idOf(peerIDOffset[op])
		return packet(11, i, []byte{0x11, 0x22, 0x33, 0x44}), 11, int(i), []opt{}
	case "Unknown":
		i := idOf(peerIDOffset[op])
		return packet(0x2a, i, []byte{1, 2, 3}), 0x2a, int(i), []opt{}
	case "Short":
		return []byte{1, 1, 0}, 0, base, []opt{}
	}
	panic("unknown event " + op)
}

func parseOpts(b []byte) ([]opt, bool) {
	os := []opt{}
	for len(b) > 0 {
		if len(b) < 2 || b[1] < 2 || int(b[1]) > len(b) {
			return os, false
		}
		os = append(os, opt{t: b[0], d: append([]byte{}, b[2:b[1]]...)})
		b = b[b[1]:]
	}
	return os, true
}

func isReplyCode(c byte) bool { return c == 2 || c == 3 || c == 4 || c == 6 || c == 10 }

// drain decodes the packets handed to the send callback since the last call.
// Identifiers are reported relative to base (our current request identifier before the
// event): exactly for replies, as 0 (= base) / 1 (anything else) for packets the automaton
// originates, so the table stays finite while identifier echo is still decided by the spec.
func (in *inst) drain(base int, haveCur bool) []map[string]any {
	outs := []map[string]any{}
	for _, p := range in.out {
		rec := map[string]any{"code": 0, "idrel": -1, "opts": []map[string]any{}, "wf": false}
		b := p.b
		if len(b) >= 4 && int(b[2])<<8|int(b[3]) == len(b) {
			code, id, data := b[0], b[1], b[4:]
			rec["code"] = int(code)
			rec["wf"] = true
			if isReplyCode(code) {
				rec["idrel"] = (int(id) - base) & 0xff
			} else if haveCur && int(id) == base {
				rec["idrel"] = 0
			} else {
				rec["idrel"] = 1
			}
			if code >= 1 && code <= 4 {
				os, ok := parseOpts(data)
				rec["wf"] = ok
				js := optsJSON(os)
				for _, o := range js {
					delete(o, "k")
					// the interface identifier suggested in an IPV6CP Nak is random by design
					if in.s.V.Proto == "ipv6cp" && code == 3 && o["t"].(int) == 1 {
						o["d"] = "rnd"
					}
				}
				rec["opts"] = js
			}
			if code == 1 {
				in.cur = int(id)
				in.curOpts = append([]byte{}, data...)
			}
		}
		outs = append(outs, rec)
	}
	in.out = nil
	return outs
}

func (in *inst) Apply(ev core.Event) map[string]any {
	op := ev["op"].(string)
	in.out = nil
	in.poolLog = nil
	haveCur := in.cur >= 0
	base := in.cur
	if base < 0 {
		base = 0
	}
	kind, code, idrel := "admin", 0, 0
	opts := []opt{}
	errs := ""
	switch op {
	case "Up":
		in.m.up()
	case "Down":
		in.m.down()
	case "Open":
		in.m.open()
	case "Close":
		in.m.close()
	case "TO": // one restart period passes; an expiring timer is handled at once
		kind = "to"
		time.Sleep(Period)
		synctest.Wait()
	case "TimerFires": // one restart period passes; an expiring timer's goroutine is held before the automaton lock
		kind = "fire"
		if in.parked.Load() == 0 {
			in.hold.Store(true)
			time.Sleep(Period)
			synctest.Wait()
			in.hold.Store(false)
		}
	case "TimeoutRuns": // the held timer goroutine proceeds
		kind = "run"
		if in.parked.Load() > 0 {
			in.release <- struct{}{}
			synctest.Wait()
		}
	default:
		kind = "pkt"
		raw, c, id, os := in.build(op, base, ev)
		code, opts = c, os
		idrel = (id - base) & 0xff
		if err := in.m.recv(raw); err != nil {
			errs = err.Error()
			if len(errs) > 48 {
				errs = errs[:48]
			}
		}
	}
	pool := in.poolLog
	if pool == nil {
		pool = []map[string]any{}
	}
	wf := kind != "pkt" || !(op == "RCR-bad" || op == "Short" || op == "EchoReq-short")
	return map[string]any{"kind": kind, "wf": wf, "code": code, "idrel": idrel, "opts": optsJSON(opts),
		"out": in.drain(base, haveCur), "err": errs, "pool": pool}
}

func (in *inst) Observe() map[string]any {
	return map[string]any{"state": in.m.state(), "opened": in.m.opened(), "silent": []map[string]any{}}
}

var fpOpt = &core.FPOptions{SkipFields: map[string]bool{"identifier": true, "lastIdentifier": true, "failureCount": true}}

// timerArmed reports whether the automaton's restart timer is pending. Stop() tells; a
// pending timer is re-armed with the full period, which is exactly its remaining time
// because virtual time only advances in whole periods (events TO / TimerFires).
func (in *inst) timerArmed() bool {
	tv := core.Field(in.m.obj, "restartTimer")
	if tv.IsNil() {
		return false
	}
	t := tv.Interface().(*time.Timer)
	if t.Stop() {
		t.Reset(Period)
		return true
	}
	return false
}

func (in *inst) Fingerprint() string {
	last := int(core.Field(in.m.obj, "lastIdentifier").Uint())
	idCurrent := in.cur < 0 || last == in.cur
	return fmt.Sprintf("%s|armed=%t|parked=%d|havecur=%t|idcurrent=%t|curopts=%x",
		core.Fingerprint(in.m.obj, fpOpt), in.timerArmed(), in.parked.Load(), in.cur >= 0, idCurrent, in.curOpts)
}

// Probe: the peer falls silent. Only restart periods pass (max+2 of them); for each the state
// reached and the requests retransmitted are recorded. Destructive, run on a dedicated replay.
func (in *inst) Probe() map[string]any {
	k := in.s.V.MaxConf
	if in.s.V.MaxTerm > k {
		k = in.s.V.MaxTerm
	}
	k += 2
	steps := []map[string]any{}
	// a timer goroutine held at the gate cannot be delayed for ever: it runs first
	pre := in.Apply(core.Event{"op": "TimeoutRuns"})["out"].([]map[string]any)
	for i := 0; i < k; i++ {
		r := in.Apply(core.Event{"op": "TO"})
		creq, treq := 0, 0
		if i == 0 {
			r["out"] = append(pre, r["out"].([]map[string]any)...)
		}
		for _, o := range r["out"].([]map[string]any) {
			switch o["code"].(int) {
			case 1:
				creq++
			case 5:
				treq++
			}
		}
		steps = append(steps, map[string]any{"state": in.m.state(), "creq": creq, "treq": treq})
	}
	return map[string]any{"silent": steps}
}

func (in *inst) Close() {
	in.closing.Store(true)
	if in.parked.Load() > 0 {
		in.release <- struct{}{}
		synctest.Wait()
	}
	func() {
		defer func() { recover() }()
		in.m.down() // stops the restart timer so the bubble can end
	}()
	registry.Delete(in.m.obj)
}
