// Package pppfsm binds the three real PPP control-protocol automata of pkg/pppoe
// (LCPStateMachine, IPCPStateMachine, IPV6CPStateMachine) to the transition-table
// extractor of harness/core (property C11).  The automata run under testing/synctest
// virtual time; their restart timers are the real time.AfterFunc timers.
package pppfsm

import (
	"encoding/hex"
	"net"
	"time"

	"github.com/codelaboratoryltd/bng/pkg/pppoe"
	"go.uber.org/zap"
)

// Period is the restart period every automaton is configured with (virtual time).
const Period = 3 * time.Second

// Variant is one configured automaton.
type Variant struct {
	Name    string
	Proto   string // "lcp" | "ipcp" | "ipv6cp"
	MaxConf int    // configured number of Configure-Request retransmissions
	MaxTerm int    // configured number of Terminate-Request retransmissions
	Static  string // ipcp: statically assigned peer address ("" none)
	Pool    string // ipcp: "" no pool, "one" pool with one free address, "empty" exhausted pool
}

var (
	addrAssigned = net.IPv4(10, 0, 0, 5).To4()
	addrOther    = net.IPv4(10, 0, 0, 9).To4()
	addrLocal    = net.IPv4(10, 0, 0, 1).To4()
)

// Variants lists the automata explored in the given tier.
func Variants(tier string) []Variant {
	mc := 2
	if tier == "thorough" {
		mc = 3
	}
	vs := []Variant{
		{Name: "lcp", Proto: "lcp", MaxConf: mc, MaxTerm: mc},
		// Max-Configure and Max-Terminate differ, so a counter taken from the wrong knob shows
		{Name: "lcp-mt", Proto: "lcp", MaxConf: mc + 1, MaxTerm: 1},
		{Name: "ipcp-static", Proto: "ipcp", MaxConf: mc, MaxTerm: mc, Static: hex.EncodeToString(addrAssigned)},
		{Name: "ipcp-pool", Proto: "ipcp", MaxConf: mc, MaxTerm: mc, Pool: "one"},
		{Name: "ipcp-noaddr", Proto: "ipcp", MaxConf: mc, MaxTerm: mc, Pool: "empty"},
		{Name: "ipv6cp", Proto: "ipv6cp", MaxConf: mc, MaxTerm: mc},
	}
	return vs
}

// FindVariant resolves a system name of a replay file. The retransmission limits are taken
// from the recorded cfg so a quick-tier witness replays identically in any tier.
func FindVariant(name string, cfg map[string]any, tier string) (Variant, bool) {
	tiers := []string{tier, "quick", "thorough"}
	for _, tr := range tiers {
		for _, v := range Variants(tr) {
			if v.Name != name {
				continue
			}
			if x, ok := cfg["maxconf"]; ok && toInt(x) != v.MaxConf {
				continue
			}
			if x, ok := cfg["maxterm"]; ok && toInt(x) != v.MaxTerm {
				continue
			}
			return v, true
		}
	}
	return Variant{}, false
}

// stubPool is the address pool handed to the IPCP automaton. It has at most one address and
// reports every call, so the specification knows which address is assigned to the session.
type stubPool struct {
	Free      bool // the single address is free
	Exhausted bool
	log       func(op, addr string)
}

func (p *stubPool) Allocate(sessionID string) net.IP {
	if p.Exhausted || !p.Free {
		p.log("alloc", "")
		return nil
	}
	p.Free = false
	p.log("alloc", hex.EncodeToString(addrAssigned))
	return append(net.IP{}, addrAssigned...)
}

func (p *stubPool) Release(sessionID string) {
	p.Free = !p.Exhausted
	p.log("release", "")
}

// mach is one live automaton behind a uniform face.
type mach struct {
	obj    any
	proto  uint16
	up     func()
	down   func()
	open   func()
	close  func()
	recv   func([]byte) error
	state  func() string
	opened func() bool
}

func newMach(v Variant, send func(uint16, []byte), poolLog func(op, addr string)) *mach {
	lg := zap.NewNop()
	switch v.Proto {
	case "lcp":
		cfg := pppoe.DefaultLCPConfig()
		cfg.MagicNumber = 0x0A0B0C0D
		cfg.MaxConfigure = v.MaxConf
		cfg.MaxTerminate = v.MaxTerm
		cfg.MaxRetransmit = v.MaxConf
		cfg.RestartTimer = Period
		m, err := pppoe.NewLCPStateMachine(cfg, send, lg)
		if err != nil {
			panic(err)
		}
		return &mach{obj: m, proto: pppoe.ProtocolLCP, up: m.Up, down: m.Down, open: m.Open, close: m.Close, recv: m.ReceivePacket,
			state: func() string { return m.GetState().String() }, opened: m.IsOpened}
	case "ipcp":
		cfg := pppoe.DefaultIPCPConfig()
		cfg.LocalIP = append(net.IP{}, addrLocal...)
		cfg.MaxRetransmit = v.MaxConf
		cfg.RestartTimer = Period
		if v.Static != "" {
			b, _ := hex.DecodeString(v.Static)
			cfg.PeerIP = net.IP(b)
		}
		if v.Pool != "" {
			cfg.IPPool = &stubPool{Free: v.Pool == "one", Exhausted: v.Pool == "empty", log: poolLog}
		}
		m := pppoe.NewIPCPStateMachine(cfg, "sess-1", send, lg)
		return &mach{obj: m, proto: pppoe.ProtocolIPCP, up: m.Up, down: m.Down, open: m.Open, close: m.Close, recv: m.ReceivePacket,
			state: func() string { return m.GetState().String() }, opened: m.IsOpened}
	case "ipv6cp":
		cfg := pppoe.IPV6CPConfig{LocalInterfaceID: 0x0200000000000aaa, MaxRetransmit: v.MaxConf, RestartTimer: Period}
		m, err := pppoe.NewIPV6CPStateMachine(cfg, send, lg)
		if err != nil {
			panic(err)
		}
		return &mach{obj: m, proto: pppoe.ProtocolIPv6CP, up: m.Up, down: m.Down, open: m.Open, close: m.Close, recv: m.ReceivePacket,
			state: func() string { return m.GetState().String() }, opened: m.IsOpened}
	}
	panic("unknown proto " + v.Proto)
}

func toInt(v any) int {
	switch x := v.(type) {
	case int:
		return x
	case float64:
		return int(x)
	case int64:
		return int(x)
	}
	return 0
}
