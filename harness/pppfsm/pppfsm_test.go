package pppfsm

import (
	"encoding/json"
	"fmt"
	"math/rand"
	"os"
	"strings"
	"testing"

	"verifharness/core"
)

type replayCase struct {
	ID     string         `json:"id"`
	System string         `json:"system"`
	Events []core.Event   `json:"events"`
	Cfg    map[string]any `json:"cfg"`
}

type replayFile struct {
	Property string       `json:"property"`
	Cases    []replayCase `json:"cases"`
}

type runStats struct {
	Systems     int                `json:"systems"`
	Nodes       int                `json:"nodes"`
	Edges       int                `json:"edges"`
	Chains      int                `json:"chains"`
	ChainEvents int                `json:"chain_events"`
	Closed      int                `json:"closed_systems"`
	Panics      []core.PanicRecord `json:"panics"`
	PerSystem   map[string][4]int  `json:"per_system"` // nodes, edges, closed(1/0), depth
}

// TestExplore extracts the transition table of every configured automaton (breadth-first to a
// fixed point) and runs seeded random event sequences; TLC judges the bundle against PppFsm.tla.
func TestExplore(t *testing.T) {
	T = t
	out := core.OutDir()
	if rf := os.Getenv("VERIF_REPLAY"); rf != "" {
		replay(t, rf, out)
		return
	}
	tier := core.Tier()
	seed := core.Seed()
	maxNodes, nchains, chainLen := 20000, 40, 60
	if tier == "thorough" {
		maxNodes, nchains, chainLen = 200000, 400, 50
	}
	bundle := &core.Bundle{}
	st := runStats{PerSystem: map[string][4]int{}}
	for _, v := range Variants(tier) {
		sys := NewSys(v, true, tier == "thorough")
		tab, panics, err := core.Explore(sys, core.ExploreOptions{MaxDepth: 0, MaxNodes: maxNodes, AdequacySample: 12, Seed: seed, Workers: workers()})
		if err != nil {
			t.Fatalf("explore %s: %v", v.Name, err)
		}
		st.Panics = append(st.Panics, panics...)
		bundle.Systems = append(bundle.Systems, tab)
		ne := 0
		for _, es := range tab.Edges {
			ne += len(es)
		}
		c := 0
		if tab.Closed {
			c = 1
			st.Closed++
		}
		st.PerSystem[v.Name] = [4]int{len(tab.Nodes), ne, c, tab.Depth}
		st.Systems++
		st.Nodes += len(tab.Nodes)
		st.Edges += ne
	}
	// U3: random long event sequences over the full alphabet (incl. the malformed packets)
	rng := rand.New(rand.NewSource(seed))
	for _, v := range Variants(tier) {
		sys := NewSys(v, true, true)
		evs := sys.Events()
		// directed: our side spends identifiers on other packets (Code-Reject of an unknown code, Echo-Reply is not one)
		// between its Configure-Request and the peer's answer; an Ack that names the NEXT identifier acknowledges nothing.
		// (The tables identify states up to identifier offsets, so these offsets are only reached in chains.)
		o := func(ops ...string) []core.Event {
			var es []core.Event
			for _, x := range ops {
				es = append(es, core.Event{"op": x})
			}
			return es
		}
		for c, seqv := range [][]core.Event{
			o("Up", "Open", "Unknown", "RCA-next", "RCR+", "RCA", "RCR+"),
			o("Up", "Open", "RCR+", "Unknown", "RCA-next", "TO", "RCA"),
			o("Up", "Open", "Unknown", "Unknown", "RCA-next", "RCR+", "RCA-stale", "RCR+"),
			o("Up", "Open", "RCA", "RCR+", "RCR+", "Unknown", "RCA-next", "RCR+", "RCA"),
		} {
			tab, pr := core.Chain(sys, fmt.Sprintf("%s#ids%d", v.Name, c), seqv, false)
			if pr != nil {
				st.Panics = append(st.Panics, *pr)
				continue
			}
			bundle.Systems = append(bundle.Systems, tab)
			st.Chains++
			st.ChainEvents += len(seqv)
		}
		for c := 0; c < nchains; c++ {
			var seqv []core.Event
			for i := 0; i < chainLen; i++ {
				if rng.Intn(6) == 0 {
					seqv = append(seqv, core.Event{"op": "RCR-rand", "seed": rng.Intn(1 << 20)})
					continue
				}
				seqv = append(seqv, evs[rng.Intn(len(evs))])
			}
			tab, pr := core.Chain(sys, fmt.Sprintf("%s#%d", v.Name, c), seqv, false)
			if pr != nil {
				st.Panics = append(st.Panics, *pr)
				continue
			}
			bundle.Systems = append(bundle.Systems, tab)
			st.Chains++
			st.ChainEvents += len(seqv)
		}
	}
	if err := core.WriteJSON(out, "bundle.json", bundle); err != nil {
		t.Fatal(err)
	}
	if err := core.WriteJSON(out, "stats.json", st); err != nil {
		t.Fatal(err)
	}
}

func workers() int {
	if os.Getenv("VERIF_WORKERS") == "1" {
		return 1
	}
	return 0
}

func replay(t *testing.T, file, out string) {
	b, err := os.ReadFile(file)
	if err != nil {
		t.Fatal(err)
	}
	var rf replayFile
	if err := json.Unmarshal(b, &rf); err != nil {
		t.Fatal(err)
	}
	st := runStats{PerSystem: map[string][4]int{}}
	bundle := &core.Bundle{}
	for _, c := range rf.Cases {
		name := c.System
		if i := strings.IndexByte(name, '#'); i >= 0 {
			name = name[:i]
		}
		v, ok := FindVariant(name, c.Cfg, core.Tier())
		if !ok {
			t.Fatalf("unknown system %q", c.System)
		}
		sys := NewSys(v, true, true)
		var evs []core.Event
		for _, e := range c.Events {
			ne := core.Event{"op": e["op"]}
			if sd, ok := e["seed"]; ok {
				ne["seed"] = toInt(sd)
			}
			evs = append(evs, ne)
		}
		tab, pr := core.Chain(sys, name+"#"+c.ID, evs, true)
		if pr != nil {
			st.Panics = append(st.Panics, *pr)
			continue
		}
		bundle.Systems = append(bundle.Systems, tab)
		st.Chains++
	}
	if err := core.WriteJSON(out, "bundle.json", bundle); err != nil {
		t.Fatal(err)
	}
	core.WriteJSON(out, "stats.json", st)
}
