//go:build verif

package wire

import (
	"bytes"
	"context"
	"fmt"
	"math/rand"
	"net"
	"net/http"
	"strings"
	"sync"
	"time"

	"github.com/codelaboratoryltd/bng/pkg/ha"
	bngnat "github.com/codelaboratoryltd/bng/pkg/nat"
)

// ---- concretising text frames --------------------------------------------------------------------------

func concretiseText(t *TextFrame, fill int, seed int64) ([]byte, error) {
	rng := rand.New(rand.NewSource(seedOf(seed, "text", t.Fmt, t.Form, t.Dev, t.Where, fill)))
	switch t.Fmt {
	case "ha_sync":
		return haText(t, rng, fill), nil
	case "ftp":
		return ftpText(t, rng, fill), nil
	case "sip":
		return sipText(t, rng, fill), nil
	}
	return nil, fmt.Errorf("no generator for text format %q", t.Fmt)
}

func haSession(id string) string {
	return fmt.Sprintf(`{"session_id":%q,"subscriber_id":"sub-%s","mac":"02:00:00:00:00:07","ip":"10.0.0.7","vlan":100,"s_tag":10,"c_tag":20,`+
		`"session_type":"ipoe","created_at":"2026-01-02T03:04:05Z","last_activity":"2026-01-02T03:04:06Z","state":"active","walled_garden":false,"bytes_in":12}`, id, id)
}

func haMsg(form string, sessions string) string {
	typ := map[string]string{"heartbeat": "heartbeat", "add": "add", "update": "update", "delete": "delete", "full": "full", "unknown": "bogus_type"}[form]
	tf := fmt.Sprintf(`"type":%q,`, typ)
	if form == "notype" {
		tf = ""
	}
	return fmt.Sprintf(`{%s"sessions":%s,"timestamp":"2026-01-02T03:04:05Z","sequence_num":7,"node_id":"bng-active"}`, tf, sessions)
}

// haText returns the JSON of one sync message with one deviation; for the wrap deviations (where = 1) the returned
// bytes are a complete SSE stream fragment, otherwise the bare JSON (the stream adapter wraps it in "data: ...\n\n").
func haText(t *TextFrame, rng *rand.Rand, fill int) []byte {
	sess := "[" + haSession("s1") + "," + haSession("s2") + "]"
	ok := haMsg(t.Form, sess)
	cutAt := func(marker string, off int) string {
		i := strings.Index(ok, marker)
		if i < 0 {
			i = len(ok) / 2
		}
		i += off
		if i > len(ok) {
			i = len(ok)
		}
		return ok[:i]
	}
	switch t.Dev {
	case "ok":
		return []byte(ok)
	case "empty":
		return nil
	case "ws":
		return []byte(" \t ")
	case "null":
		return []byte("null")
	case "number":
		return []byte("42")
	case "string":
		return []byte(`"add"`)
	case "array":
		return []byte("[" + ok + "]")
	case "trunc_key":
		return []byte(cutAt(`"sessions"`, 4))
	case "trunc_str":
		return []byte(cutAt(`"session_id":"`, 15))
	case "trunc_arr":
		return []byte(cutAt(`"sessions":[`, 12+len(haSession("s1"))+1))
	case "trunc_obj":
		return []byte(ok[:len(ok)-1])
	case "sessions_null":
		return []byte(haMsg(t.Form, "null"))
	case "sessions_obj":
		return []byte(haMsg(t.Form, haSession("s1")))
	case "sessions_str":
		return []byte(haMsg(t.Form, `"s1"`))
	case "sessions_num":
		return []byte(haMsg(t.Form, "3"))
	case "session_null_elem":
		return []byte(haMsg(t.Form, "[null,"+haSession("s2")+",null]"))
	case "session_nested_arr":
		return []byte(haMsg(t.Form, "[["+haSession("s1")+"]]"))
	case "field_wrong_type":
		bad := []string{`"vlan":"x"`, `"vlan":{}`, `"walled_garden":"no"`, `"bytes_in":"12"`, `"session_id":5`, `"s_tag":[1]`}
		return []byte(haMsg(t.Form, "["+strings.Replace(haSession("s1"), `"vlan":100`, bad[(fill+rng.Intn(len(bad)))%len(bad)], 1)+"]"))
	case "deep_nest":
		n := 700
		return []byte(haMsg(t.Form, strings.Repeat("[", n)+strings.Repeat("]", n)))
	case "huge_number":
		return []byte(strings.Replace(ok, `"sequence_num":7`, `"sequence_num":99999999999999999999999999999999999999`, 1))
	case "neg_number":
		return []byte(strings.Replace(ok, `"s_tag":10`, `"s_tag":-1`, 1))
	case "float_number":
		return []byte(strings.Replace(ok, `"vlan":100`, `"vlan":1e400`, 1))
	case "bad_utf8":
		return []byte(strings.Replace(ok, "sub-s1", "sub-\xff\xfe\xc0", 1))
	case "dup_keys":
		return []byte(strings.Replace(ok, `"sequence_num":7`, `"sequence_num":7,"sessions":[],"sessions":null,"type":"delete"`, 1))
	case "nul_byte":
		return []byte(strings.Replace(ok, "sub-s1", "sub-\x00", 1))
	case "long_string":
		return []byte(strings.Replace(ok, "sub-s1", strings.Repeat("A", 1500), 1))
	case "many_sessions":
		var ss []string
		for i := 0; i < 6; i++ {
			ss = append(ss, haSession(fmt.Sprintf("m%d", i)))
		}
		return []byte(haMsg(t.Form, "["+strings.Join(ss, ",")+"]"))
	case "bad_time":
		return []byte(strings.Replace(ok, `"created_at":"2026-01-02T03:04:05Z"`, `"created_at":"yesterday"`, 1))
	case "trailing_garbage":
		return []byte(ok + `}]{"x":`)
	case "empty_session_id":
		return []byte(haMsg(t.Form, "["+haSession("")+"]"))
	// ---- the SSE framing around a well-formed message
	case "data_nospace":
		return []byte("data:" + ok + "\n\n")
	case "data_only":
		return []byte("data: \n\ndata:\n\ndata: " + ok + "\n\n")
	case "noprefix":
		return []byte(ok + "\n\n")
	case "crlf":
		return []byte("data: " + ok + "\r\n\r\n")
	case "no_newline":
		return []byte("data: " + ok)
	case "two_events":
		return []byte("data: " + ok + "\n\ndata: " + haMsg("delete", "["+haSession("s1")+"]") + "\n\n")
	case "long_line":
		return []byte("data: " + strings.Replace(ok, "sub-s1", strings.Repeat("B", 1400), 1) + "\n\n")
	case "event_field":
		return []byte("event: add\nid: 7\nretry: 10\n: comment\ndata: " + ok + "\n\n")
	case "blank_lines":
		return []byte("\n\n\n\ndata: " + ok + "\n\n\n")
	}
	return []byte(ok)
}

func ftpNum(dev string, rng *rand.Rand) string {
	switch dev {
	case "empty":
		return ""
	case "zero":
		return "0"
	case "n255":
		return "255"
	case "n256":
		return "256"
	case "n65535":
		return "65535"
	case "n65536":
		return "65536"
	case "huge":
		return strings.Repeat("9", 40)
	case "neg":
		return "-1"
	case "alpha":
		return "1a"
	case "space":
		return " 7 "
	}
	return fmt.Sprint(1 + rng.Intn(250))
}

func ftpLine(form string, fields []string) string {
	switch form {
	case "PORT":
		return "PORT " + strings.Join(fields, ",")
	case "PASV":
		return "227 Entering Passive Mode (" + strings.Join(fields, ",") + ")"
	case "EPRT":
		return "EPRT |1|" + fields[0] + "|" + fields[1] + "|"
	case "EPSV":
		return "229 Entering Extended Passive Mode (|||" + fields[0] + "|)"
	}
	return ""
}

func ftpText(t *TextFrame, rng *rand.Rand, fill int) []byte {
	var fields []string
	switch t.Form {
	case "PORT", "PASV":
		fields = []string{"10", "0", "0", "7", "19", "137"}
	case "EPRT":
		fields = []string{"10.0.0.7", "5001"}
	case "EPSV":
		fields = []string{"5001"}
	}
	if t.Where > 0 && t.Where <= len(fields) {
		fields[t.Where-1] = ftpNum(t.Dev, rng)
	}
	line := ftpLine(t.Form, fields)
	pre := "USER anonymous\r\n"
	switch t.Dev {
	case "lower":
		return []byte(pre + strings.ToLower(line) + "\r\n")
	case "lf_only":
		return []byte("USER anonymous\n" + line + "\n")
	case "no_eol":
		return []byte(line)
	case "two_lines":
		return []byte(line + "\r\n" + line + "\r\n")
	case "many_lines":
		return []byte(strings.Repeat(line+"\r\n", 40))
	case "cut_keyword":
		return []byte(pre + line[:2])
	case "cut_fields":
		return []byte(pre + line[:len(line)*2/3])
	case "fewer_fields":
		if len(fields) > 1 {
			return []byte(pre + ftpLine(t.Form, append(fields[:len(fields)-1:len(fields)-1], "")) + "\r\n")
		}
		return []byte(pre + ftpLine(t.Form, []string{""}) + "\r\n")
	case "more_fields":
		return []byte(pre + strings.Replace(line, fields[len(fields)-1], fields[len(fields)-1]+",1,2,3", 1) + "\r\n")
	case "long_ws":
		return []byte(pre + strings.Replace(line, " ", strings.Repeat(" ", 900), 1) + "\r\n")
	case "bin_prefix":
		return []byte("\xff\xfb\x01\x00" + line + "\r\n")
	case "long_line":
		return []byte(strings.Repeat("2", 1900) + line + "\r\n")
	case "eprt_v6":
		return []byte(pre + "EPRT |2|2001:db8::7|5001|\r\nEPRT |1|2001:db8::7|5001|\r\n")
	case "eprt_badip":
		return []byte(pre + "EPRT |1|not-an-address|5001|\r\nEPRT |1|999.1.1.1|5001|\r\nEPRT |1||5001|\r\n")
	case "eprt_proto2":
		return []byte(pre + "EPRT |1|10.0.0.7|99999999999999999999|\r\n")
	case "nested_parens":
		return []byte("227 ((((" + strings.Repeat("(1,2,3,4,5,6", 60) + ")\r\n229 (|||(|||5|)|)\r\n")
	case "nul_byte":
		return []byte(pre + strings.Replace(line, " ", " \x00", 1) + "\r\n")
	}
	if fill%2 == 1 {
		return []byte(line + "\r\n")
	}
	return []byte(pre + line + "\r\n")
}

func sipText(t *TextFrame, rng *rand.Rand, fill int) []byte {
	start := "INVITE sip:bob@example.net SIP/2.0"
	if t.Form == "OK200" {
		start = "SIP/2.0 200 OK"
	}
	ip := "10.0.0.7"
	if fill%2 == 1 {
		ip = "203.0.113.9"
	}
	hdr := []string{start, "Via: SIP/2.0/UDP " + ip + ":5060;branch=z9hG4bK776", "From: <sip:alice@" + ip + ">;tag=1", "To: <sip:bob@example.net>",
		"Call-ID: a84b4c76e66710@" + ip, "CSeq: 314159 INVITE", "Contact: <sip:alice@" + ip + ":5060>", "Content-Type: application/sdp", "Content-Length: 120", ""}
	body := []string{"v=0", "o=- 2890844526 2890844526 IN IP4 " + ip, "s=-", "c=IN IP4 " + ip, "t=0 0", "m=audio 49170 RTP/AVP 0", ""}
	all := strings.Join(append(hdr, body...), "\r\n")
	switch t.Dev {
	case "empty":
		return nil
	case "lf_only":
		return []byte(strings.ReplaceAll(all, "\r\n", "\n"))
	case "no_eol":
		return []byte(strings.TrimRight(all, "\r\n"))
	case "many_ips":
		return []byte(strings.Replace(all, "c=IN IP4 "+ip, "c=IN IP4 "+strings.Repeat(ip+" ", 150), 1))
	case "ip_in_every_header":
		return []byte(strings.ReplaceAll(all, "example.net", ip))
	case "long_line":
		return []byte(strings.Replace(all, "branch=z9hG4bK776", "branch="+strings.Repeat("z", 1700), 1))
	case "bin_prefix":
		return []byte("\x00\x01\xff" + all)
	case "nul_byte":
		return []byte(strings.Replace(all, "alice", "al\x00ice", 1))
	case "no_body":
		return []byte(strings.Join(hdr, "\r\n"))
	case "only_body":
		return []byte(strings.Join(body, "\r\n"))
	}
	return []byte(all)
}

// ---- adapters ----------------------------------------------------------------------------------------------

func newALG() (*bngnat.ALGHandler, *bngnat.ALGConnection) {
	m, err := bngnat.NewManager(bngnat.ManagerConfig{Interface: "verif0", PortsPerSubscriber: 1024, PortRangeStart: 1024, PortRangeEnd: 65535}, nop)
	if err != nil {
		panic(err)
	}
	if err := m.AddPublicIP(net.IPv4(203, 0, 113, 9)); err != nil {
		panic(err)
	}
	h := bngnat.NewALGHandler(m, nop)
	conn := &bngnat.ALGConnection{SubscriberID: 7, PrivateIP: net.IPv4(10, 0, 0, 7), PrivatePort: 40000, PublicIP: net.IPv4(203, 0, 113, 9), PublicPort: 2048,
		DestIP: net.IPv4(198, 51, 100, 1), DestPort: 21, Protocol: 6}
	return h, conn
}

// haPeer is a loopback HTTP server playing the active node: it serves whatever bytes the current input says.
type haPeer struct {
	mu     sync.Mutex
	full   []byte // body of GET /ha/sessions
	stream []byte // body of GET /ha/sessions/stream (after which the connection is closed)
	addr   string
}

var (
	haOnce sync.Once
	haP    *haPeer
	haErr  string
)

func theHAPeer() *haPeer {
	haOnce.Do(func() {
		defer func() {
			if e := recover(); e != nil {
				haErr = fmt.Sprint(e)
			}
		}()
		p := &haPeer{}
		ln, err := net.Listen("tcp4", "127.0.0.1:0")
		if err != nil {
			panic(err)
		}
		p.addr = ln.Addr().String()
		mux := http.NewServeMux()
		mux.HandleFunc("/ha/sessions", func(w http.ResponseWriter, r *http.Request) {
			p.mu.Lock()
			b := p.full
			p.mu.Unlock()
			w.Header().Set("Content-Type", "application/json")
			w.Write(b)
		})
		mux.HandleFunc("/ha/sessions/stream", func(w http.ResponseWriter, r *http.Request) {
			p.mu.Lock()
			b := p.stream
			p.mu.Unlock()
			w.Header().Set("Content-Type", "text/event-stream")
			w.WriteHeader(200)
			if f, ok := w.(http.Flusher); ok {
				f.Flush()
			}
			w.Write(b)
		})
		go http.Serve(ln, mux)
		haP = p
	})
	if haP == nil {
		panic("HA peer not available: " + haErr)
	}
	return haP
}

func newStandby(populated bool, endpoint string) *ha.HASyncer {
	store := ha.NewInMemorySessionStore()
	if populated {
		for _, id := range []string{"s1", "s9"} {
			store.PutSession(&ha.SessionState{SessionID: id, SubscriberID: "sub-" + id, MAC: "02:00:00:00:00:07", IP: "10.0.0.7", State: "active"})
		}
	}
	sc := ha.DefaultSyncConfig()
	sc.NodeID, sc.Role = "bng-standby", ha.RoleStandby
	sc.Partner = &ha.PartnerInfo{NodeID: "bng-active", Endpoint: endpoint}
	sc.RequestTimeout = 3 * time.Second
	return ha.NewHASyncer(sc, store, nop)
}

var okFull = []byte(`{"type":"full","sessions":[],"timestamp":"2026-01-02T03:04:05Z","node_id":"bng-active"}`)

func registerTextAdapters() {
	adapters["ha.DecodeSyncMessage"] = &adapter{prepare: func(in *input, b []byte) (func([]byte) error, func()) {
		return func(b []byte) error {
			m, err := ha.DecodeSyncMessage(b)
			if err != nil {
				return err
			}
			_, err = m.Encode()
			return err
		}, nil
	}}
	adapters["ha.handleSSEData"] = &adapter{prepare: func(in *input, b []byte) (func([]byte) error, func()) {
		s := newStandby(in.St == "populated", "127.0.0.1:1")
		return func(b []byte) error { return s.VerifSSEData(b) }, func() { s.Stop() }
	}}
	adapters["ha.performFullSync"] = &adapter{prepare: func(in *input, b []byte) (func([]byte) error, func()) {
		p := theHAPeer()
		s := newStandby(in.St == "populated", p.addr)
		return func(b []byte) error {
			p.mu.Lock()
			p.full = b
			p.mu.Unlock()
			return s.VerifFullSync()
		}, func() { s.Stop() }
	}}
	adapters["ha.connectToStream"] = &adapter{prepare: func(in *input, b []byte) (func([]byte) error, func()) {
		p := theHAPeer()
		s := newStandby(false, p.addr)
		return func(b []byte) error {
			st := b
			if !bytes.Contains(b, []byte("\n\n")) && !bytes.HasPrefix(b, []byte("data:")) { // bare JSON: one well-framed event
				st = append(append([]byte("data: "), b...), '\n', '\n')
			}
			p.mu.Lock()
			p.full, p.stream = okFull, st
			p.mu.Unlock()
			err := s.VerifConnectToStream() // returns when the stream ends
			if err != nil && strings.Contains(err.Error(), "connection closed") {
				return nil
			}
			return err
		}, func() { s.Stop() }
	}}
	ftp := func(dir string) func(in *input, b []byte) (func([]byte) error, func()) {
		return func(in *input, b []byte) (func([]byte) error, func()) {
			h, conn := newALG()
			alg := bngnat.NewFTPALG(h, nop)
			return func(b []byte) error {
				var err error
				switch dir {
				case "out":
					_, err = alg.ProcessOutbound(conn, b)
				case "in":
					_, err = alg.ProcessInbound(conn, b)
				default:
					_, err = h.ProcessPacket(bngnat.ALGTypeFTP, conn, b, in.St == "out")
				}
				return err
			}, nil
		}
	}
	adapters["nat.FTPALG.ProcessOutbound"] = &adapter{prepare: ftp("out")}
	adapters["nat.FTPALG.ProcessInbound"] = &adapter{prepare: ftp("in")}
	adapters["nat.ALGHandler.ProcessPacket"] = &adapter{prepare: ftp("handler")}
	sip := func(out bool) func(in *input, b []byte) (func([]byte) error, func()) {
		return func(in *input, b []byte) (func([]byte) error, func()) {
			h, conn := newALG()
			return func(b []byte) error {
				_, err := h.ProcessPacket(bngnat.ALGTypeSIP, conn, b, out)
				return err
			}, nil
		}
	}
	adapters["nat.SIPALG.ProcessOutbound"] = &adapter{prepare: sip(true)}
	adapters["nat.SIPALG.ProcessInbound"] = &adapter{prepare: sip(false)}
	_ = context.Background
}
