//go:build verif

// Package wire binds the abstract frames enumerated by TLC from specs/WireGrammar (property C09)
// to the real network-facing decoders and handlers of /repo: every abstract frame is concretised
// into bytes and delivered to every entry point the specification lists for its format, in every
// listed protocol state; the observed outcome (ok / error / panic / crash / slow) goes back to TLC.
package wire

import (
	"encoding/json"
	"fmt"
	"hash/fnv"
	"math/rand"
	"os"
	"sort"
	"strings"
)

// Level mirrors WireGrammar!L: one level of a format.
type Level struct {
	Hdr   int  `json:"hdr"`
	Incl  bool `json:"incl"`
	Width int  `json:"width"`
	Fixed int  `json:"fixed"`
	Nat   int  `json:"nat"`
}

type Format struct {
	Levels  []Level    `json:"levels"`
	Applies [][]string `json:"applies"` // [entry point, state]
	Codes   []int      `json:"codes"`
}

type Dev struct {
	Path []int  `json:"path"`
	Dev  string `json:"dev"`
}

type Cut struct {
	Path []int  `json:"path"`
	At   string `json:"at"`
}

// Layout is one abstract frame without its code, exactly as TLC wrote it.
type Layout struct {
	Fmt   string          `json:"fmt"`
	Codes []int           `json:"codes"`
	Shape json.RawMessage `json:"shape"`
	Devs  []Dev           `json:"devs"`
	Cut   Cut             `json:"cut"`
	Chk   []int           `json:"chk"` // total bytes, declared length of the root, sum of declared lengths (natural sizes)
	shape *node
}

type FramesFile struct {
	Formats map[string]*Format `json:"formats"`
	Layouts []*Layout          `json:"layouts"`
	Texts   []*TextFrame       `json:"texts"`
	NFrames int                `json:"nframes"`
	Bounds  map[string]any     `json:"bounds"`
}

// TextFrame is one abstract frame of a text format (HA sync JSON / SSE, FTP control lines).
type TextFrame struct {
	Fmt   string `json:"fmt"`
	Form  string `json:"form"`
	Dev   string `json:"dev"`
	Where int    `json:"where"`
}

type node struct {
	kids []*node
}

func parseShape(raw json.RawMessage) (*node, error) {
	var v []json.RawMessage
	if err := json.Unmarshal(raw, &v); err != nil {
		return nil, err
	}
	n := &node{}
	for _, k := range v {
		c, err := parseShape(k)
		if err != nil {
			return nil, err
		}
		n.kids = append(n.kids, c)
	}
	return n, nil
}

func loadFrames(path string) (*FramesFile, error) {
	b, err := os.ReadFile(path)
	if err != nil {
		return nil, err
	}
	var ff FramesFile
	if err := json.Unmarshal(b, &ff); err != nil {
		return nil, err
	}
	for i, l := range ff.Layouts {
		if l.shape, err = parseShape(l.Shape); err != nil {
			return nil, fmt.Errorf("layout %d: %v", i+1, err)
		}
		if ff.Formats[l.Fmt] == nil {
			return nil, fmt.Errorf("layout %d: unknown format %q", i+1, l.Fmt)
		}
	}
	return &ff, nil
}

func pathKey(p []int) string {
	var sb strings.Builder
	for _, i := range p {
		fmt.Fprintf(&sb, "%d.", i)
	}
	return sb.String()
}

// devsAt returns the deviation classes of the node at path p.
func (l *Layout) devsAt(p []int) map[string]bool {
	k := pathKey(p)
	var out map[string]bool
	for _, d := range l.Devs {
		if pathKey(d.Path) == k {
			if out == nil {
				out = map[string]bool{}
			}
			out[d.Dev] = true
		}
	}
	return out
}

// sig is the abstract class of a layout without its shape: format, deviations by level, cut by level.
func (l *Layout) sig() string {
	var ds []string
	for _, d := range l.Devs {
		ds = append(ds, fmt.Sprintf("L%d:%s", len(d.Path), d.Dev))
	}
	sort.Strings(ds)
	c := "nocut"
	if l.Cut.At != "none" {
		c = fmt.Sprintf("cut:L%d:%s", len(l.Cut.Path), l.Cut.At)
	}
	if len(ds) == 0 {
		ds = []string{"wellformed"}
	}
	return l.Fmt + "|" + strings.Join(ds, ",") + "|" + c
}

// ---- concretiser ---------------------------------------------------------------------------------

// codec supplies the format-specific bytes of a node; the lengths come from the generic builder.
type codec interface {
	// kind chooses what the node at (level, index among siblings) is (option type, tag type, ...), and the natural
	// size of its value when it is a leaf (-1: the level's natural size).
	kind(g *gen, level, idx int, leaf bool, parentKind int) (kind int, nat int)
	// header writes the hdr bytes of a node; declared is the number that goes into the length field.
	header(g *gen, level, kind, declared int, hdr []byte)
	// fixed writes the fixed fields at the start of the value of a node that has children.
	fixed(g *gen, level, kind int, b []byte)
	// leaf writes the value of a leaf.
	leaf(g *gen, level, kind int, b []byte)
	// preamble is inserted between the fixed part of the root and its first child (context that is not part of the
	// abstract frame, e.g. a well-formed client identifier).
	preamble(g *gen) []byte
}

type gen struct {
	f         *Format
	l         *Layout
	code      int
	fill      int // 0 = canonical (natural sizes, checked against the specification's arithmetic)
	rng       *rand.Rand
	c         codec
	sumDecl   int
	rootDecl  int
	offs      map[string][3]int // path -> start, end of header, end of value (before truncation)
	canonical bool
}

func maxLen(lv Level) int {
	switch lv.Width {
	case 1:
		return 255
	case 2:
		return 65535
	}
	return 0
}

func bigSize(lv Level) int {
	if lv.Width == 1 {
		return 300
	}
	return 600
}

func leafSize(nat int, lv Level, ds map[string]bool) int {
	switch {
	case ds["s0"]:
		return 0
	case ds["s1"]:
		return 1
	case ds["natm1"]:
		if nat > 0 {
			return nat - 1
		}
		return 0
	case ds["natp1"]:
		return nat + 1
	case ds["big"]:
		return bigSize(lv)
	}
	return nat
}

// declared mirrors WireGrammar!Declared.
func declared(lv Level, vlen int, ds map[string]bool) int {
	act := vlen
	if lv.Incl {
		act = lv.Hdr + vlen
	}
	d := act
	switch {
	case ds["zero"]:
		d = 0
	case ds["hdrm1"]:
		d = lv.Hdr - 1
	case ds["hdr"]:
		d = lv.Hdr
	case ds["actm1"]:
		if act > 0 {
			d = act - 1
		} else {
			d = 0
		}
	case ds["actp1"]:
		d = act + 1
	case ds["max"]:
		d = maxLen(lv)
	case ds["swap"]:
		if lv.Incl {
			d = vlen
		} else {
			d = lv.Hdr + vlen
		}
	}
	if d > maxLen(lv) {
		d = maxLen(lv)
	}
	return d
}

// build returns the bytes of the node at path p (level len(p)).
func (g *gen) build(n *node, p []int, idx int, parentKind int, base int) []byte {
	level := len(p)
	lv := g.f.Levels[level]
	leaf := len(n.kids) == 0
	kind, nat := g.c.kind(g, level, idx, leaf, parentKind)
	if nat < 0 || g.canonical {
		nat = lv.Nat
	}
	ds := g.l.devsAt(p)
	var val []byte
	if leaf {
		val = make([]byte, leafSize(nat, lv, ds))
		g.c.leaf(g, level, kind, val)
	} else {
		val = make([]byte, lv.Fixed)
		g.c.fixed(g, level, kind, val)
		if level == 0 && !g.canonical {
			val = append(val, g.c.preamble(g)...)
		}
		for i, k := range n.kids {
			cp := append(append([]int{}, p...), i+1)
			val = append(val, g.build(k, cp, i, kind, base+lv.Hdr+len(val))...)
		}
	}
	d := declared(lv, len(val), ds)
	g.sumDecl += d
	if level == 0 {
		g.rootDecl = d
	}
	hdr := make([]byte, lv.Hdr)
	g.c.header(g, level, kind, d, hdr)
	g.offs[pathKey(p)] = [3]int{base, base + lv.Hdr, base + lv.Hdr + len(val)}
	return append(hdr, val...)
}

func seedOf(seed int64, parts ...any) int64 {
	h := fnv.New64a()
	fmt.Fprint(h, seed)
	for _, p := range parts {
		fmt.Fprint(h, "/", p)
	}
	return int64(h.Sum64() & 0x7fffffffffffffff)
}

// concretise turns (layout, code, fill) into bytes. fill 0 is the canonical filling: natural sizes, no preamble; its
// total length and declared lengths must equal the numbers TLC computed (chk), otherwise the harness and the
// specification disagree about the layout arithmetic.
func concretise(ff *FramesFile, li int, code, fill int, seed int64) ([]byte, error) {
	l := ff.Layouts[li]
	f := ff.Formats[l.Fmt]
	mk := codecs[l.Fmt]
	if mk == nil {
		return nil, fmt.Errorf("no generator for format %q", l.Fmt)
	}
	g := &gen{f: f, l: l, code: code, fill: fill, rng: rand.New(rand.NewSource(seedOf(seed, li, code, fill))), offs: map[string][3]int{}, canonical: fill == 0}
	g.c = mk(g)
	b := g.build(l.shape, nil, 0, -1, 0)
	if g.canonical {
		if len(l.Chk) != 3 || len(b) != l.Chk[0] || g.rootDecl != l.Chk[1] || g.sumDecl != l.Chk[2] {
			return nil, fmt.Errorf("layout %d (%s): harness arithmetic [%d %d %d] differs from the specification's %v", li+1, l.sig(), len(b), g.rootDecl, g.sumDecl, l.Chk)
		}
	}
	if l.Cut.At != "none" {
		o, ok := g.offs[pathKey(l.Cut.Path)]
		if !ok {
			return nil, fmt.Errorf("layout %d: cut path %v is not a node", li+1, l.Cut.Path)
		}
		var at int
		switch l.Cut.At {
		case "hdr": // the byte string ends inside the header of the node: 0 .. hdr-1 bytes of it are present
			at = o[0] + g.rng.Intn(o[1]-o[0])
			if g.canonical {
				at = o[1] - 1
			}
		case "val": // ... inside its value: 0 .. vlen-1 bytes of the value are present
			at = o[1]
			if o[2] > o[1] {
				at = o[1] + g.rng.Intn(o[2]-o[1])
				if g.canonical {
					at = o[2] - 1
				}
			}
		}
		if at < len(b) {
			b = b[:at]
		}
	}
	out := make([]byte, len(b))
	copy(out, b)
	return out, nil
}

func put16(b []byte, v int) { b[0], b[1] = byte(v>>8), byte(v) }
