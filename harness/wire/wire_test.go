//go:build verif

package wire

import (
	"encoding/hex"
	"encoding/json"
	"fmt"
	"os"
	"path/filepath"
	"sort"
	"strings"
	"sync"
	"testing"
	"time"

	"verifharness/core"
)

// TestChild is the body of a child process (see engine.go).
func TestChild(t *testing.T) {
	jf := os.Getenv("VERIF_WIRE_CHILD")
	if jf == "" {
		t.Skip("child mode only")
	}
	if err := childMain(jf); err != nil {
		fmt.Fprintln(os.Stderr, "wire child:", err)
		os.Exit(3)
	}
}

func framesPath() string {
	for _, p := range []string{os.Getenv("VERIF_WIRE_FRAMES"), "../tlc_gen/frames.json"} {
		if p == "" {
			continue
		}
		if _, err := os.Stat(p); err == nil {
			a, _ := filepath.Abs(p)
			return a
		}
	}
	return ""
}

var outcomeRank = map[string]int{"ok": 0, "error": 1, "skipped": 2, "slow": 3, "panic": 4, "crash": 5}
var outcomeNames = []string{"ok", "error", "panic", "crash", "slow", "skipped"}

type witness struct {
	Seq     int    `json:"seq"`
	Outcome string `json:"outcome"`
	Ep      string `json:"ep"`
	St      string `json:"st"`
	Fmt     string `json:"fmt"`
	Class   string `json:"class"`
	Lay     int    `json:"lay"`
	Code    int    `json:"code"`
	Fill    int    `json:"fill"`
	Hex     string `json:"hex"`
	Len     int    `json:"len"`
	Site    string `json:"site"`
	Msg     string `json:"msg"`
	Ns      int64  `json:"ns"`
	Note    string `json:"note,omitempty"`
}

type resultsFile struct {
	Eps       []string    `json:"eps"`
	States    []string    `json:"states"`
	Outcomes  []string    `json:"outcomes"`
	Events    [][]int     `json:"events"` // [ep, state, layout (>0) | -text (<0) | 0 random, code, outcome, inputs, first witness (index into witnesses, 0 none), number of witnesses]
	Witnesses []witness   `json:"witnesses"`
	NLayouts  int         `json:"nlayouts"`
	NTexts    int         `json:"ntexts"`
	Infra     []string    `json:"infra"`
	Replay    []replayRes `json:"replay,omitempty"`
}

type replayRes struct {
	ID      string `json:"id"`
	Outcome string `json:"outcome"`
	Site    string `json:"site"`
	Msg     string `json:"msg"`
	Ns      int64  `json:"ns"`
}

type stats struct {
	Tier           string             `json:"tier"`
	Seed           int64              `json:"seed"`
	Inputs         int                `json:"inputs"`
	Events         int                `json:"events"`
	AbstractFrames int                `json:"abstract_frames"`
	Layouts        int                `json:"layouts"`
	Texts          int                `json:"text_frames"`
	ByOutcome      map[string]int     `json:"inputs_by_outcome"`
	ByEp           map[string]int     `json:"inputs_by_entry_point"`
	EpOutcome      map[string]int     `json:"inputs_by_entry_point_and_outcome"`
	Children       int                `json:"child_processes"`
	Deaths         int                `json:"child_deaths"`
	Kills          int                `json:"watchdog_kills"`
	SlowSuspects   int                `json:"slow_suspects_remeasured"`
	Unattributed   int                `json:"unattributed_crashes"`
	Skipped        int                `json:"skipped_inputs"`
	StateMiss      map[string]string  `json:"fsm_state_not_reached"`
	MaxNs          int64              `json:"max_ns"`
	MaxNsByEp      map[string]int64   `json:"max_ns_by_entry_point"`
	WallS          float64            `json:"wall_s"`
	Panics         []core.PanicRecord `json:"panics"`
	Samples        []map[string]any   `json:"samples"`
}

// circuit breakers, per entry point: an entry point that kills its process or hangs on many inputs is reported from
// the first of them; its remaining inputs are skipped (the other entry points are not affected)
const maxDeathsPerEp = 40
const maxKillsPerEp = 4

// TestExplore executes the plan in child processes and writes results.json + stats.json.
func TestExplore(t *testing.T) {
	out, _ := filepath.Abs(core.OutDir())
	t0 := time.Now()
	if rf := os.Getenv("VERIF_REPLAY"); rf != "" {
		replay(t, rf, out)
		return
	}
	fp := framesPath()
	if fp == "" {
		t.Fatalf("frames.json (written by the TLC run of WireGrammarGen) not found")
	}
	ff, err := loadFrames(fp)
	if err != nil {
		t.Fatal(err)
	}
	tier, seed := core.Tier(), core.Seed()
	pc := tierCfg(tier, seed)
	// the concretiser's arithmetic must agree with the specification's on every layout (canonical filling)
	for li, l := range ff.Layouts {
		if _, err := concretise(ff, li, l.Codes[0], 0, seed); err != nil {
			t.Fatalf("generator and specification disagree: %v", err)
		}
	}
	// the plan, as the children will walk it
	var plan []*input
	forEachInput(ff, pc, func(in *input) bool { plan = append(plan, in); return true })
	bySeq := func(seq int) *input { return plan[seq-1] }
	for _, in := range plan {
		if adapters[in.Ep] == nil {
			t.Fatalf("no adapter for entry point %q required by the specification", in.Ep)
		}
	}

	shards := 6
	if tier == "thorough" {
		shards = 12
	}
	rn := &runner{dir: out, hangKill: 4 * time.Second}
	res := make([]*result, len(plan)+1)
	note := map[int]string{}
	var mu sync.Mutex
	st := stats{Tier: tier, Seed: seed, ByOutcome: map[string]int{}, ByEp: map[string]int{}, EpOutcome: map[string]int{}, StateMiss: map[string]string{}, MaxNsByEp: map[string]int64{}}
	record := func(r result) {
		mu.Lock()
		rr := r
		res[r.Seq] = &rr
		mu.Unlock()
	}
	caseOf := func(seq int) rcase {
		in := bySeq(seq)
		b, _ := in.gen()
		return rcase{ID: fmt.Sprint(seq), Ep: in.Ep, St: in.St, Fmt: in.Fmt, Code: in.Code, Fill: in.Fill, Lay: in.Lay, Hex: hex.EncodeToString(b)}
	}
	// alone runs one input of the plan by itself in a fresh process (its bytes are handed over, nothing else is loaded)
	alone := func(seq int, settleMs int) childEnd {
		ce := rn.runChild(job{Cases: []rcase{caseOf(seq)}, Repeat: 1, Settle: settleMs})
		for i := range ce.results {
			ce.results[i].Seq = seq
		}
		return ce
	}
	epKills, epDeaths, tripped := map[string]int{}, map[string]int{}, map[string]bool{}
	var wg sync.WaitGroup
	for sh := 0; sh < shards; sh++ {
		wg.Add(1)
		go func(sh int) {
			defer wg.Done()
			from := 1
			var history []int // sequence numbers this shard has finished, most recent last
			for {
				mu.Lock()
				var skip []string
				for ep := range tripped {
					skip = append(skip, ep)
				}
				mu.Unlock()
				ce := rn.runChild(job{Frames: fp, Tier: tier, Seed: seed, Shard: sh, Shards: shards, From: from, SkipEp: skip})
				for _, r := range ce.results {
					record(r)
					history = append(history, r.Seq)
				}
				if ce.finished {
					return
				}
				if ce.open == nil { // died outside any input (start-up): not attributable
					mu.Lock()
					note[-1-sh] = "child ended without end marker and without an open input: " + ce.note
					mu.Unlock()
					return
				}
				n := ce.open[0]
				ep := bySeq(n).Ep
				mu.Lock()
				if ce.killed {
					epKills[ep]++
				} else {
					epDeaths[ep]++
				}
				if epKills[ep] >= maxKillsPerEp || epDeaths[ep] >= maxDeathsPerEp {
					tripped[ep] = true
				}
				mu.Unlock()
				if ce.killed {
					// no progress for hangKill: a hang suspect, decided by the isolated re-measurement below
					record(result{Seq: n, Outcome: "hang", Ns: int64(rn.hangKill)})
				} else {
					// the process died while n was being handled. Confirm on a fresh process; if n is innocent, a
					// goroutine left behind by one of the previous inputs of this shard is the culprit.
					v := alone(n, 50)
					if !v.finished && v.open != nil {
						record(result{Seq: n, Outcome: "crash", Site: crashSite(v.note), Msg: v.note})
					} else {
						for _, r := range v.results {
							record(r)
						}
						found := false
						for k := len(history) - 1; k >= 0 && k >= len(history)-6 && !found; k-- {
							w := alone(history[k], 100)
							if !w.finished && w.open != nil {
								record(result{Seq: history[k], Outcome: "crash", Site: crashSite(w.note), Msg: w.note})
								found = true
							}
						}
						if !found {
							mu.Lock()
							st.Unattributed++
							note[n] = "process died here once, not reproduced in isolation: " + ce.note
							mu.Unlock()
						}
					}
				}
				from = n + 1
			}
		}(sh)
	}
	wg.Wait()

	rf := resultsFile{Outcomes: outcomeNames, NLayouts: len(ff.Layouts), NTexts: len(ff.Texts)}
	for k, v := range note {
		if k < 0 {
			rf.Infra = append(rf.Infra, v)
		}
	}
	// slow suspects: over budget or killed by the watchdog; re-measured three times in isolation
	var suspects []int
	hangs := map[string]int{}
	for _, in := range plan {
		r := res[in.Seq]
		if r == nil {
			rf.Infra = append(rf.Infra, fmt.Sprintf("input %d (%s/%s) has no result", in.Seq, in.Ep, in.St))
			continue
		}
		if r.Outcome == "infra" {
			rf.Infra = append(rf.Infra, fmt.Sprintf("input %d (%s/%s): %s", in.Seq, in.Ep, in.St, r.Msg))
			continue
		}
		if r.Outcome == "hang" {
			if hangs[in.Ep] < 3 { // three hang suspects per entry point are re-measured, the others are not executed again
				hangs[in.Ep]++
				suspects = append(suspects, in.Seq)
			} else {
				record(result{Seq: in.Seq, Outcome: "skipped"})
			}
			continue
		}
		if (r.Outcome == "ok" || r.Outcome == "error") && time.Duration(r.Ns) > budget(0) {
			if b, _ := in.gen(); time.Duration(r.Ns) > budget(len(b)) {
				suspects = append(suspects, in.Seq)
			}
		}
	}
	if len(rf.Infra) > 20 { // keep one example per distinct message
		seen := map[string]bool{}
		var keep []string
		for _, m := range rf.Infra {
			k := m
			if i := strings.Index(m, "): "); i >= 0 {
				k = m[i:]
			}
			if !seen[k] && len(keep) < 20 {
				seen[k] = true
				keep = append(keep, m)
			}
		}
		keep = append(keep, fmt.Sprintf("(%d harness failures in total)", len(rf.Infra)))
		rf.Infra = keep
	}
	st.SlowSuspects = len(suspects)
	if len(suspects) > 200 {
		suspects = suspects[:200] // an implementation that is slow everywhere is reported from the first 200
	}
	// One fresh process measures every suspect three times, one at a time, with nothing else running in it; a
	// measurement that never returns gets the process killed, and a new one continues after it.
	slowRn := &runner{dir: out, hangKill: 2 * time.Second}
	type meas struct {
		over, n int
		best    int64
		bad     *result
	}
	ms := make([]meas, len(suspects))
	for i := range ms {
		ms[i].best = -1
	}
	var cases []rcase
	for _, seq := range suspects {
		cases = append(cases, caseOf(seq))
	}
	const reps = 3
	for skip := 0; len(cases) > 0 && skip < len(cases)*reps; {
		ce := slowRn.runChild(job{Cases: cases, Repeat: reps, Skip: skip})
		for _, r := range ce.results {
			m := &ms[r.Seq-1]
			m.n++
			skip++
			switch r.Outcome {
			case "ok", "error":
				if m.best < 0 || r.Ns < m.best {
					m.best = r.Ns
				}
				raw, _ := hex.DecodeString(cases[r.Seq-1].Hex)
				if time.Duration(r.Ns) > budget(len(raw)) {
					m.over++
				}
			case "panic":
				rr := r
				m.bad = &rr
			}
		}
		if ce.finished {
			break
		}
		if ce.open == nil {
			rf.Infra = append(rf.Infra, "re-measurement child ended without end marker and without an open input: "+ce.note)
			break
		}
		m := &ms[ce.open[0]-1]
		m.n++
		skip++
		if ce.killed {
			m.over++
		} else {
			m.bad = &result{Outcome: "crash", Site: crashSite(ce.note), Msg: ce.note}
		}
	}
	for i, seq := range suspects {
		m := ms[i]
		raw, _ := hex.DecodeString(cases[i].Hex)
		switch {
		case m.bad != nil:
			m.bad.Seq = seq
			record(*m.bad)
		case m.over >= reps:
			ns := m.best
			if ns < 0 {
				ns = int64(slowRn.hangKill)
			}
			record(result{Seq: seq, Outcome: "slow", Ns: ns, Msg: fmt.Sprintf("over the budget of %v for %d bytes in %d isolated measurements (best %v; -1ns = never returned)", budget(len(raw)), len(raw), reps, time.Duration(m.best))})
		default:
			o := res[seq].Outcome
			if o == "hang" {
				o = "ok"
			}
			record(result{Seq: seq, Outcome: o, Ns: m.best})
		}
	}
	rn.Spawns += slowRn.Spawns
	rn.Kills += slowRn.Kills
	rn.Deaths += slowRn.Deaths

	// aggregate: one event per (entry point, state, abstract frame); random inputs form class 0 per (entry point, state)
	epIdx, stIdx := map[string]int{}, map[string]int{}
	idx := func(m map[string]int, names *[]string, k string) int {
		if i, ok := m[k]; ok {
			return i
		}
		*names = append(*names, k)
		m[k] = len(*names)
		return m[k]
	}
	type evKey struct{ ep, st, lay, code int }
	type evAgg struct {
		worst string
		n     int
		wit   []witness
	}
	agg := map[evKey]*evAgg{}
	var order []evKey
	for _, in := range plan {
		r := res[in.Seq]
		if r == nil || r.Outcome == "infra" {
			continue
		}
		st.Inputs++
		st.ByOutcome[r.Outcome]++
		st.ByEp[in.Ep]++
		st.EpOutcome[in.Ep+" "+r.Outcome]++
		if r.Outcome == "skipped" {
			st.Skipped++
		}
		if r.Ns > st.MaxNs && r.Outcome != "slow" {
			st.MaxNs = r.Ns
		}
		if r.Ns > st.MaxNsByEp[in.Ep] && r.Outcome != "slow" {
			st.MaxNsByEp[in.Ep] = r.Ns
		}
		k := evKey{idx(epIdx, &rf.Eps, in.Ep), idx(stIdx, &rf.States, in.St), in.Lay, in.Code}
		a := agg[k]
		if a == nil {
			a = &evAgg{worst: "ok"}
			agg[k] = a
			order = append(order, k)
		}
		a.n++
		if outcomeRank[r.Outcome] > outcomeRank[a.worst] {
			a.worst = r.Outcome
		}
		if outcomeRank[r.Outcome] >= outcomeRank["slow"] {
			dup := false
			for _, w := range a.wit {
				if w.Outcome == r.Outcome && w.Site == r.Site {
					dup = true
				}
			}
			if !dup && len(a.wit) < 8 {
				b, _ := in.gen()
				cls := "random"
				if in.Lay > 0 {
					cls = ff.Layouts[in.Lay-1].sig()
				} else if in.Lay < 0 {
					tf := ff.Texts[-in.Lay-1]
					cls = fmt.Sprintf("%s|%s|%s|%d", tf.Fmt, tf.Form, tf.Dev, tf.Where)
				}
				a.wit = append(a.wit, witness{Seq: in.Seq, Outcome: r.Outcome, Ep: in.Ep, St: in.St, Fmt: in.Fmt, Class: cls, Lay: in.Lay, Code: in.Code, Fill: in.Fill,
					Hex: hex.EncodeToString(b), Len: len(b), Site: r.Site, Msg: r.Msg, Ns: r.Ns, Note: note[in.Seq]})
			}
		}
	}
	outIdx := map[string]int{}
	for i, o := range outcomeNames {
		outIdx[o] = i + 1
	}
	for _, k := range order {
		a := agg[k]
		first := 0
		if len(a.wit) > 0 {
			first = len(rf.Witnesses) + 1
			rf.Witnesses = append(rf.Witnesses, a.wit...)
		}
		rf.Events = append(rf.Events, []int{k.ep, k.st, k.lay, k.code, outIdx[a.worst], a.n, first, len(a.wit)})
	}
	if rf.Events == nil {
		rf.Events = [][]int{}
	}
	if rf.Witnesses == nil {
		rf.Witnesses = []witness{}
	}
	if rf.Infra == nil {
		rf.Infra = []string{}
	}
	seenEp := map[string]bool{}
	for _, in := range plan {
		r := res[in.Seq]
		if r == nil || seenEp[in.Ep] || len(st.Samples) >= 5 || in.Lay <= 0 || len(ff.Layouts[in.Lay-1].Devs) == 0 {
			continue
		}
		seenEp[in.Ep] = true
		b, _ := in.gen()
		st.Samples = append(st.Samples, map[string]any{"entry_point": in.Ep, "state": in.St, "abstract_frame": ff.Layouts[in.Lay-1].sig(), "code": in.Code,
			"bytes_hex": hex.EncodeToString(b), "outcome": r.Outcome, "ns": r.Ns})
	}
	fsmStateMiss.Range(func(k, v any) bool { st.StateMiss[k.(string)] = v.(string); return true })
	st.Events, st.Layouts, st.Texts, st.AbstractFrames = len(rf.Events), len(ff.Layouts), len(ff.Texts), ff.NFrames
	st.Children, st.Deaths, st.Kills = rn.Spawns, rn.Deaths, rn.Kills
	st.WallS = time.Since(t0).Seconds()
	if err := core.WriteJSON(out, "results.json", rf); err != nil {
		t.Fatal(err)
	}
	if err := core.WriteJSON(out, "stats.json", st); err != nil {
		t.Fatal(err)
	}
	t.Logf("inputs=%d events=%d outcomes=%v children=%d deaths=%d kills=%d suspects=%d wall=%.1fs", st.Inputs, st.Events, st.ByOutcome, st.Children, st.Deaths, st.Kills, st.SlowSuspects, st.WallS)
}

type replayFile struct {
	Property string  `json:"property"`
	Cases    []rcase `json:"cases"`
}

// replay runs every case alone in a fresh child process (three times when the recorded outcome was "slow").
func replay(t *testing.T, file, out string) {
	b, err := os.ReadFile(file)
	if err != nil {
		t.Fatal(err)
	}
	var rfile replayFile
	if err := json.Unmarshal(b, &rfile); err != nil {
		t.Fatal(err)
	}
	rn := &runner{dir: out, hangKill: 4 * time.Second}
	rf := resultsFile{Outcomes: outcomeNames, Events: [][]int{}, Witnesses: []witness{}, Infra: []string{}}
	epIdx, stIdx := map[string]int{}, map[string]int{}
	idx := func(m map[string]int, names *[]string, k string) int {
		if i, ok := m[k]; ok {
			return i
		}
		*names = append(*names, k)
		m[k] = len(*names)
		return m[k]
	}
	outIdx := map[string]int{}
	for i, o := range outcomeNames {
		outIdx[o] = i + 1
	}
	sort.SliceStable(rfile.Cases, func(i, j int) bool { return rfile.Cases[i].ID < rfile.Cases[j].ID })
	for ci, c := range rfile.Cases {
		raw, err := hex.DecodeString(c.Hex)
		if err != nil {
			t.Fatalf("case %s: bad hex", c.ID)
		}
		if adapters[c.Ep] == nil {
			t.Fatalf("case %s: unknown entry point %q", c.ID, c.Ep)
		}
		final := result{Outcome: "ok"}
		over, best := 0, int64(-1)
		for rep := 0; rep < 3; rep++ {
			ce := rn.runChild(job{Cases: []rcase{c}, Repeat: 1, Settle: 50})
			switch {
			case len(ce.results) == 1 && ce.results[0].Outcome == "infra":
				t.Fatalf("case %s: %s", c.ID, ce.results[0].Msg)
			case len(ce.results) == 1 && ce.results[0].Outcome == "panic":
				final = ce.results[0]
			case len(ce.results) == 1:
				r := ce.results[0]
				if best < 0 || r.Ns < best {
					best = r.Ns
				}
				if time.Duration(r.Ns) > budget(len(raw)) {
					over++
				}
				if outcomeRank[final.Outcome] < outcomeRank[r.Outcome] {
					final = r
				}
			case ce.killed:
				over++
			case !ce.finished && ce.open != nil:
				final = result{Outcome: "crash", Site: crashSite(ce.note), Msg: ce.note}
			default:
				t.Fatalf("case %s: child ended without a result: %s", c.ID, ce.note)
			}
			if final.Outcome == "panic" || final.Outcome == "crash" {
				break
			}
			if over <= rep { // not over budget this time: it cannot be "slow" any more
				break
			}
		}
		if over == 3 {
			final = result{Outcome: "slow", Ns: best, Msg: fmt.Sprintf("over the budget of %v for %d bytes in 3 isolated measurements", budget(len(raw)), len(raw))}
		}
		rf.Replay = append(rf.Replay, replayRes{ID: c.ID, Outcome: final.Outcome, Site: final.Site, Msg: final.Msg, Ns: final.Ns})
		first := 0
		if outcomeRank[final.Outcome] >= outcomeRank["slow"] {
			rf.Witnesses = append(rf.Witnesses, witness{Seq: ci + 1, Outcome: final.Outcome, Ep: c.Ep, St: c.St, Fmt: c.Fmt, Class: "replay:" + c.ID, Code: c.Code, Fill: c.Fill,
				Hex: c.Hex, Len: len(raw), Site: final.Site, Msg: final.Msg, Ns: final.Ns})
			first = len(rf.Witnesses)
		}
		n := 0
		if first > 0 {
			n = 1
		}
		// replay events use class 0 and the case number as code
		rf.Events = append(rf.Events, []int{idx(epIdx, &rf.Eps, c.Ep), idx(stIdx, &rf.States, c.St), 0, ci + 1, outIdx[final.Outcome], 1, first, n})
	}
	if rf.Eps == nil {
		rf.Eps, rf.States = []string{}, []string{}
	}
	if err := core.WriteJSON(out, "results.json", rf); err != nil {
		t.Fatal(err)
	}
	core.WriteJSON(out, "stats.json", stats{Tier: core.Tier(), Seed: core.Seed(), Inputs: len(rfile.Cases), Events: len(rf.Events), Children: rn.Spawns, Deaths: rn.Deaths, Kills: rn.Kills})
}
