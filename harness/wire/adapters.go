//go:build verif

package wire

import (
	"context"
	"crypto/md5"
	"encoding/binary"
	"fmt"
	"net"
	"sync"
	"time"

	"github.com/codelaboratoryltd/bng/pkg/dhcp"
	"github.com/codelaboratoryltd/bng/pkg/dhcpv6"
	"github.com/codelaboratoryltd/bng/pkg/ebpf"
	"github.com/codelaboratoryltd/bng/pkg/pppoe"
	"github.com/codelaboratoryltd/bng/pkg/radius"
	"github.com/codelaboratoryltd/bng/pkg/ztp"
	"github.com/insomniacslk/dhcp/dhcpv4"
	"go.uber.org/zap"
	lradius "layeh.com/radius"

	"verifharness/core"
)

// adapter binds one entry point of the code under test. prepare builds a FRESH object in the requested state
// (outside the timed section; a panic there is a harness failure, never a verdict) and may patch context-dependent
// bytes of the input (live session id, request identifier, authenticator); deliver hands the input to the real code.
type adapter struct {
	async   bool // the handler may start goroutines of its own
	prepare func(in *input, b []byte) (deliver func([]byte) error, cleanup func())
}

var nop = zap.NewNop()

// errSilent is what a handler adapter returns when the real handler neither answered nor changed anything visible:
// the input was dropped. (Both "ok" and "error" satisfy the property; the distinction only shows in the statistics
// how deep the inputs get.)
var errSilent = fmt.Errorf("dropped without a response")

var adapters = map[string]*adapter{}

func init() {
	adapters["pppoe.ParseTags"] = &adapter{prepare: func(in *input, b []byte) (func([]byte) error, func()) {
		return func(b []byte) error {
			if _, err := pppoe.ParsePPPoEHeader(b); err != nil {
				return err
			}
			_, err := pppoe.ParseTags(b[6:])
			return err
		}, nil
	}}
	adapters["pppoe.ParsePADT"] = &adapter{prepare: func(in *input, b []byte) (func([]byte) error, func()) {
		return func(b []byte) error { _, _, err := pppoe.ParsePADT(b); return err }, nil
	}}
	adapters["pppoe.handleDiscovery"] = &adapter{async: true, prepare: prepDiscovery}
	adapters["pppoe.handleSession"] = &adapter{async: true, prepare: prepSession}
	adapters["pppoe.ParseLCPPacket"] = &adapter{prepare: func(in *input, b []byte) (func([]byte) error, func()) {
		return func(b []byte) error {
			pkt, err := pppoe.ParseLCPPacket(b)
			if err != nil {
				return err
			}
			_, err = pppoe.ParseLCPOptions(pkt.Data)
			return err
		}, nil
	}}
	adapters["lcp.ReceivePacket"] = &adapter{prepare: func(in *input, b []byte) (func([]byte) error, func()) { return prepFSM("lcp", in, b) }}
	adapters["ipcp.ReceivePacket"] = &adapter{prepare: func(in *input, b []byte) (func([]byte) error, func()) { return prepFSM("ipcp", in, b) }}
	adapters["ipv6cp.ReceivePacket"] = &adapter{prepare: func(in *input, b []byte) (func([]byte) error, func()) { return prepFSM("ipv6cp", in, b) }}
	adapters["auth.ReceivePacket/pap"] = &adapter{prepare: prepPAP}
	adapters["auth.ReceivePacket/chap"] = &adapter{prepare: prepCHAP}
	adapters["keepalive.echo"] = &adapter{prepare: prepEcho}
	adapters["dhcp.parseOption82"] = &adapter{async: true, prepare: func(in *input, b []byte) (func([]byte) error, func()) { return prepDHCP4(in, b, "opt82raw") }}
	adapters["dhcp.handleDHCP"] = &adapter{async: true, prepare: func(in *input, b []byte) (func([]byte) error, func()) { return prepDHCP4(in, b, "wire") }}
	adapters["dhcp.handleDHCP/hlen"] = &adapter{async: true, prepare: func(in *input, b []byte) (func([]byte) error, func()) { return prepDHCP4(in, b, "hlen") }}
	adapters["dhcpv6.Parse"] = &adapter{prepare: func(in *input, b []byte) (func([]byte) error, func()) { return parseDHCP6Deep, nil }}
	adapters["dhcpv6.handleMessage"] = &adapter{prepare: prepDHCP6}
	adapters["radius.CoAServer"] = &adapter{async: true, prepare: prepCoA}
	adapters["ztp.parseVendorOptions"] = &adapter{prepare: func(in *input, b []byte) (func([]byte) error, func()) {
		return func(b []byte) error {
			if len(b) >= 2 {
				b = b[2:] // the value of option 43
			}
			if ztp.VerifParseVendorOptions(b) == "" {
				return fmt.Errorf("no url")
			}
			return nil
		}, nil
	}}
	adapters["ztp.extractNexusURL"] = &adapter{prepare: func(in *input, b []byte) (func([]byte) error, func()) {
		return func(b []byte) error {
			ack, err := dhcpv4.FromBytes(dhcp4Packet(byte(dhcpv4.MessageTypeAck), clientMAC, 6, b))
			if err != nil {
				return err
			}
			if ztp.VerifExtractNexusURL(ack) == "" {
				return fmt.Errorf("no url")
			}
			return nil
		}, nil
	}}
	adapters["radius.Client/acct"] = &adapter{prepare: func(in *input, b []byte) (func([]byte) error, func()) {
		cl := radiusClient()
		return func(b []byte) error {
			ctx, cancel := context.WithTimeout(context.Background(), 2*time.Second)
			defer cancel()
			return cl.SendAccounting(ctx, &radius.AcctRequest{SessionID: "s1", Username: "u", MAC: net.HardwareAddr(b), StatusType: radius.AcctStatusStart})
		}, nil
	}}
	adapters["radius.Client/auth"] = &adapter{prepare: func(in *input, b []byte) (func([]byte) error, func()) {
		cl := radiusClient()
		return func(b []byte) error {
			ctx, cancel := context.WithTimeout(context.Background(), 2*time.Second)
			defer cancel()
			_, err := cl.Authenticate(ctx, &radius.AuthRequest{Username: "u", MAC: net.HardwareAddr(b), NASPortType: 15})
			return err
		}, nil
	}}
	registerTextAdapters()
}

// ---- PPPoE server ------------------------------------------------------------------------------------

var (
	serverMAC = net.HardwareAddr{0x02, 0xaa, 0, 0, 0, 0x01}
	clientMAC = net.HardwareAddr{0x02, 0xbb, 0, 0, 0, 0x07}
)

func pppoeFrame(code byte, sid uint16, payload []byte) []byte {
	b := make([]byte, 6+len(payload))
	b[0], b[1] = 0x11, code
	binary.BigEndian.PutUint16(b[2:], sid)
	binary.BigEndian.PutUint16(b[4:], uint16(len(payload)))
	copy(b[6:], payload)
	return b
}

func tag(t uint16, v []byte) []byte {
	b := make([]byte, 4+len(v))
	binary.BigEndian.PutUint16(b, t)
	binary.BigEndian.PutUint16(b[2:], uint16(len(v)))
	copy(b[4:], v)
	return b
}

func ppp(proto uint16, code, id byte, data []byte) []byte {
	b := make([]byte, 6+len(data))
	binary.BigEndian.PutUint16(b, proto)
	b[2], b[3] = code, id
	binary.BigEndian.PutUint16(b[4:], uint16(4+len(data)))
	copy(b[6:], data)
	return b
}

func newPPPoEServer() (*pppoe.Server, *pppoe.VerifSocket) {
	srv, sock, err := pppoe.NewVerifServer(pppoe.ServerConfig{Interface: "verif0", ACName: "ac", ServiceName: "internet", ServerIP: "10.0.0.1",
		ClientPool: "10.0.0.0/29", PoolGateway: "10.0.0.1", PrimaryDNS: "9.9.9.9", SecondaryDNS: "8.8.8.8"}, nop,
		&net.Interface{Index: 1, Name: "verif0", HardwareAddr: serverMAC})
	if err != nil {
		panic(err)
	}
	return srv, sock
}

// establish creates a session for clientMAC and returns its id.
func establish(srv *pppoe.Server) uint16 {
	srv.VerifHandleDiscovery(clientMAC, pppoeFrame(0x09, 0, tag(0x0101, nil)))
	srv.VerifHandleDiscovery(clientMAC, pppoeFrame(0x19, 0, append(tag(0x0101, nil), tag(0x0104, []byte("0123456789abcdef"))...)))
	ss := srv.VerifSessions()
	if len(ss) != 1 {
		panic(fmt.Sprintf("PPPoE session not created (%d sessions)", len(ss)))
	}
	return ss[0].ID
}

func prepDiscovery(in *input, b []byte) (func([]byte) error, func()) {
	srv, sock := newPPPoEServer()
	if in.St == "session" {
		sid := establish(srv)
		if len(b) >= 4 {
			binary.BigEndian.PutUint16(b[2:], sid)
		}
	}
	return func(b []byte) error {
		n0, s0 := sock.Len(), len(srv.VerifSessions())
		srv.VerifHandleDiscovery(clientMAC, b)
		if sock.Len() == n0 && len(srv.VerifSessions()) == s0 {
			return errSilent
		}
		return nil
	}, nil
}

func sessionState(srv *pppoe.Server) string {
	ss := srv.VerifSessions()
	if len(ss) == 0 {
		return "none"
	}
	return ss[0].State
}

func prepSession(in *input, b []byte) (func([]byte) error, func()) {
	srv, sock := newPPPoEServer()
	sid := establish(srv)
	send := func(p []byte) { srv.VerifHandleSession(clientMAC, pppoeFrame(0, sid, p)) }
	if in.St != "lcp" {
		send(ppp(0xc021, 2, 1, nil)) // Configure-Ack: LCP done, authentication phase
	}
	if in.St == "ipcp" || in.St == "established" {
		send(ppp(0xc023, 1, 1, append(append([]byte{5}, "alice"...), append([]byte{3}, "pw1"...)...)))
	}
	if in.St == "established" {
		send(ppp(0x8021, 2, 1, nil))
	}
	if len(b) >= 4 {
		binary.BigEndian.PutUint16(b[2:], sid)
	}
	return func(b []byte) error {
		n0, s0 := sock.Len(), sessionState(srv)
		srv.VerifHandleSession(clientMAC, b)
		if sock.Len() == n0 && sessionState(srv) == s0 {
			return errSilent
		}
		return nil
	}, nil
}

// ---- the three PPP automata --------------------------------------------------------------------------

type fsm struct {
	up, down, open, close func()
	recv                  func([]byte) error
	state                 func() string
	good                  []byte // options of an acceptable peer Configure-Request
	lastReq               []byte // our latest Configure-Request as seen on the send callback
}

func newFSM(proto string) *fsm {
	f := &fsm{}
	send := func(p uint16, data []byte) {
		if len(data) >= 4 && data[0] == 1 {
			f.lastReq = append([]byte{}, data...)
		}
	}
	switch proto {
	case "lcp":
		cfg := pppoe.DefaultLCPConfig()
		cfg.MagicNumber = 0x0A0B0C0D
		cfg.RestartTimer = time.Hour // timers never fire during an input; they are stopped by Down() afterwards
		m, err := pppoe.NewLCPStateMachine(cfg, send, nop)
		if err != nil {
			panic(err)
		}
		f.up, f.down, f.open, f.close, f.recv = m.Up, m.Down, m.Open, m.Close, m.ReceivePacket
		f.state = func() string { return m.GetState().String() }
		f.good = []byte{1, 4, 0x05, 0xd4, 5, 6, 0x11, 0x22, 0x33, 0x44}
	case "ipcp":
		cfg := pppoe.DefaultIPCPConfig()
		cfg.LocalIP = net.IPv4(10, 0, 0, 1).To4()
		cfg.PeerIP = net.IPv4(10, 0, 0, 5).To4()
		cfg.RestartTimer = time.Hour
		m := pppoe.NewIPCPStateMachine(cfg, "sess-1", send, nop)
		f.up, f.down, f.open, f.close, f.recv = m.Up, m.Down, m.Open, m.Close, m.ReceivePacket
		f.state = func() string { return m.GetState().String() }
		f.good = []byte{3, 6, 10, 0, 0, 5}
	case "ipv6cp":
		cfg := pppoe.IPV6CPConfig{LocalInterfaceID: 0x0200000000000aaa, MaxRetransmit: 10, RestartTimer: time.Hour}
		m, err := pppoe.NewIPV6CPStateMachine(cfg, send, nop)
		if err != nil {
			panic(err)
		}
		f.up, f.down, f.open, f.close, f.recv = m.Up, m.Down, m.Open, m.Close, m.ReceivePacket
		f.state = func() string { return m.GetState().String() }
		f.good = []byte{1, 10, 2, 0, 0, 0, 0, 0, 0x0b, 0xbb}
	}
	return f
}

func ctl(code, id byte, data []byte) []byte {
	b := make([]byte, 4+len(data))
	b[0], b[1] = code, id
	binary.BigEndian.PutUint16(b[2:], uint16(4+len(data)))
	copy(b[4:], data)
	return b
}

func (f *fsm) rca() {
	if len(f.lastReq) >= 4 {
		f.recv(ctl(2, f.lastReq[1], f.lastReq[4:]))
	}
}

// drive puts the automaton into the named state of RFC 1661 with the shortest event sequence.
func (f *fsm) drive(st string) {
	switch st {
	case "Initial":
	case "Starting":
		f.open()
	case "Closed":
		f.up()
	case "Req-Sent":
		f.open()
		f.up()
	case "Ack-Rcvd":
		f.drive("Req-Sent")
		f.rca()
	case "Ack-Sent":
		f.drive("Req-Sent")
		f.recv(ctl(1, 0x51, f.good))
	case "Opened":
		f.drive("Ack-Sent")
		f.rca()
	case "Closing":
		f.drive("Opened")
		f.close()
	case "Stopping":
		f.drive("Opened")
		f.recv(ctl(5, 0x61, []byte("bye")))
	case "Stopped":
		f.drive("Stopping")
		f.recv(ctl(6, 0x62, nil))
	}
}

var fsmStateMiss sync.Map // "proto/state" -> actual state reached (reported in the statistics, never a verdict)

func prepFSM(proto string, in *input, b []byte) (func([]byte) error, func()) {
	f := newFSM(proto)
	f.drive(in.St)
	if got := f.state(); got != in.St {
		fsmStateMiss.Store(proto+"/"+in.St, got)
	}
	// Configure-Ack / Nak / Reject are only looked at when they carry the identifier of our request: give every
	// second concretisation the live identifier
	if in.Fill%2 == 0 && len(b) >= 2 && len(f.lastReq) >= 2 && b[0] >= 2 && b[0] <= 4 {
		b[1] = f.lastReq[1]
	}
	return f.recv, func() { f.down() }
}

// ---- PAP / CHAP authenticator ------------------------------------------------------------------------

func prepPAP(in *input, b []byte) (func([]byte) error, func()) {
	cfg := pppoe.DefaultAuthConfig()
	a := pppoe.NewAuthenticator(cfg, nil, func(uint16, []byte) {}, nop)
	a.Start()
	if in.St == "authenticated" {
		a.ReceivePacket(pppoe.ProtocolPAP, ctl(1, 1, append(append([]byte{5}, "alice"...), append([]byte{3}, "pw1"...)...)))
	}
	return func(b []byte) error { return a.ReceivePacket(pppoe.ProtocolPAP, b) }, nil
}

func prepCHAP(in *input, b []byte) (func([]byte) error, func()) {
	cfg := pppoe.DefaultAuthConfig()
	if in.St == "challenged" {
		cfg.Protocol = pppoe.ProtocolCHAP
	}
	a := pppoe.NewAuthenticator(cfg, nil, func(uint16, []byte) {}, nop)
	a.Start()
	if in.Fill%2 == 0 && len(b) >= 2 { // the identifier of the outstanding challenge
		b[1] = byte(core.Field(a, "chapID").Uint())
	}
	return func(b []byte) error { return a.ReceivePacket(pppoe.ProtocolCHAP, b) }, nil
}

// ---- LCP echo keep-alive -----------------------------------------------------------------------------

func prepEcho(in *input, b []byte) (func([]byte) error, func()) {
	sess, err := pppoe.NewSession(1, clientMAC, serverMAC)
	if err != nil {
		panic(err)
	}
	m := pppoe.NewKeepAliveManager(pppoe.DefaultKeepAliveConfig(), nop)
	m.RegisterSession(sess)
	ka := pppoe.NewSessionKeepAlive(sess, nil, pppoe.DefaultKeepAliveConfig(), nop)
	if in.St == "pending" {
		states := core.Field(m, "states").Interface().(map[uint16]*pppoe.KeepAliveState)
		states[1].PendingEcho, states[1].PendingEchoID, states[1].LastEchoSent = true, 7, time.Now()
		core.Field(ka, "pendingEcho").SetBool(true)
		core.Field(ka, "pendingID").SetUint(7)
	}
	return func(b []byte) error {
		magic, _, err := pppoe.ParseEchoPacket(b)
		if err != nil {
			return err
		}
		m.ReceiveEchoReply(1, 7, magic)
		ka.OnEchoReply(7, b)
		return nil
	}, nil
}

// ---- DHCPv4 -------------------------------------------------------------------------------------------

type capConn struct{ n int }

func (c *capConn) ReadFrom(p []byte) (int, net.Addr, error)  { return 0, nil, fmt.Errorf("closed") }
func (c *capConn) WriteTo(p []byte, a net.Addr) (int, error) { c.n++; return len(p), nil }
func (c *capConn) Close() error                              { return nil }
func (c *capConn) LocalAddr() net.Addr                       { return &net.UDPAddr{IP: net.IPv4zero, Port: 67} }
func (c *capConn) SetDeadline(t time.Time) error             { return nil }
func (c *capConn) SetReadDeadline(t time.Time) error         { return nil }
func (c *capConn) SetWriteDeadline(t time.Time) error        { return nil }

// dhcp4Packet builds the bytes of a BOOTP/DHCP message whose options area is: message type, opts, end.
func dhcp4Packet(mt byte, chaddr []byte, hlen int, opts []byte) []byte {
	p := make([]byte, 240)
	p[0] = 1 // BOOTREQUEST
	if mt == byte(dhcpv4.MessageTypeAck) || mt == byte(dhcpv4.MessageTypeOffer) {
		p[0] = 2
	}
	p[1], p[2] = 1, byte(hlen)
	copy(p[4:8], []byte{0x12, 0x34, 0x56, 0x78})
	copy(p[24:28], []byte{10, 9, 9, 1}) // giaddr: relayed
	copy(p[28:44], chaddr)
	copy(p[236:240], []byte{99, 130, 83, 99})
	p = append(p, 53, 1, mt)
	p = append(p, opts...)
	p = append(p, 255)
	return p
}

var peer4 = &net.UDPAddr{IP: net.IPv4(10, 9, 9, 1), Port: 67}

func prepDHCP4(in *input, b []byte, mode string) (func([]byte) error, func()) {
	loader, err := ebpf.NewLoader("lo", nop)
	if err != nil {
		panic(err)
	}
	pm := dhcp.NewPoolManager(loader, nop)
	p, err := dhcp.NewPool(dhcp.PoolConfig{ID: 1, Name: "p", Network: "10.1.0.0/28", Gateway: "10.1.0.1", DNSServers: []string{"9.9.9.9"}, LeaseTime: time.Hour})
	if err != nil {
		panic(err)
	}
	if err := pm.AddPool(p); err != nil {
		panic(err)
	}
	srv, err := dhcp.NewServer(dhcp.ServerConfig{Interface: "lo", ServerIP: net.IPv4(10, 255, 0, 1), RADIUSAuthEnabled: in.St == "radius"}, loader, pm, nop)
	if err != nil {
		panic(err)
	}
	if in.St == "radius" {
		srv.SetRADIUSClient(radiusClient())
	}
	conn := &capConn{}
	if in.St == "bound" {
		for _, mt := range []dhcpv4.MessageType{dhcpv4.MessageTypeDiscover, dhcpv4.MessageTypeRequest} {
			m, err := dhcpv4.New(dhcpv4.WithMessageType(mt), dhcpv4.WithHwAddr(clientMAC), dhcpv4.WithGatewayIP(net.IPv4(10, 9, 9, 1)),
				dhcpv4.WithOption(dhcpv4.OptRequestedIPAddress(net.IPv4(10, 1, 0, 2))),
				dhcpv4.WithOption(dhcpv4.OptRelayAgentInfo(dhcpv4.OptGeneric(dhcpv4.GenericOptionCode(1), []byte("cid-7")))))
			if err != nil {
				panic(err)
			}
			srv.VerifHandle(conn, peer4, m)
		}
	}
	mt := byte(in.Code)
	if mt == 0 || in.Lay <= 0 {
		mt = byte(dhcpv4.MessageTypeDiscover)
		if in.Fill%2 == 1 {
			mt = byte(dhcpv4.MessageTypeRequest)
		}
	}
	switch mode {
	case "opt82raw": // the bytes of option 82 exactly as given, no DHCP option framing in between
		return func(b []byte) error {
			v := b
			if len(v) >= 2 {
				v = v[2:]
			}
			m, err := dhcpv4.New(dhcpv4.WithMessageType(dhcpv4.MessageType(mt)), dhcpv4.WithHwAddr(clientMAC), dhcpv4.WithGatewayIP(net.IPv4(10, 9, 9, 1)),
				dhcpv4.WithOption(dhcpv4.OptRequestedIPAddress(net.IPv4(10, 1, 0, 2))),
				dhcpv4.WithOption(dhcpv4.OptGeneric(dhcpv4.OptionRelayAgentInformation, v)))
			if err != nil {
				panic(err)
			}
			n0 := conn.n
			srv.VerifHandle(conn, peer4, m)
			if conn.n == n0 {
				return errSilent
			}
			return nil
		}, nil
	case "hlen": // the input is the client hardware address; its length goes into hlen
		return func(b []byte) error {
			// DISCOVER then REQUEST from that hardware address (the RADIUS exchange happens on REQUEST)
			n0 := conn.n
			for _, t := range []dhcpv4.MessageType{dhcpv4.MessageTypeDiscover, dhcpv4.MessageTypeRequest} {
				m, err := dhcpv4.FromBytes(dhcp4Packet(byte(t), b, len(b)&0xff, []byte{50, 4, 10, 1, 0, 2}))
				if err != nil {
					return err
				}
				srv.VerifHandle(conn, peer4, m)
			}
			if conn.n == n0 {
				return errSilent
			}
			return nil
		}, nil
	}
	return func(b []byte) error { // the input is option 82 as it appears in the options area of a relayed message
		m, err := dhcpv4.FromBytes(dhcp4Packet(mt, clientMAC, 6, append([]byte{50, 4, 10, 1, 0, 2}, b...)))
		if err != nil {
			return err
		}
		n0 := conn.n
		srv.VerifHandle(conn, peer4, m)
		if conn.n == n0 {
			return errSilent
		}
		return nil
	}, nil
}

// ---- DHCPv6 -------------------------------------------------------------------------------------------

// parseDHCP6Deep is ParseMessage followed by every nested parser the message's options call for.
func parseDHCP6Deep(b []byte) error {
	msg, err := dhcpv6.ParseMessage(b)
	if err != nil {
		return err
	}
	var first error
	note := func(err error) {
		if err != nil && first == nil {
			first = err
		}
	}
	var walk func(opts []dhcpv6.Option)
	walk = func(opts []dhcpv6.Option) {
		for _, o := range opts {
			switch o.Code {
			case dhcpv6.OptClientID, dhcpv6.OptServerID:
				_, err := dhcpv6.ParseDUID(o.Data)
				note(err)
			case dhcpv6.OptIANA:
				ia, err := dhcpv6.ParseIANA(o.Data)
				note(err)
				if ia != nil {
					walk(ia.Options)
				}
			case dhcpv6.OptIAPD:
				ia, err := dhcpv6.ParseIAPD(o.Data)
				note(err)
				if ia != nil {
					walk(ia.Options)
				}
			case dhcpv6.OptIAAddr:
				a, err := dhcpv6.ParseIAAddress(o.Data)
				note(err)
				if a != nil {
					walk(a.Options)
				}
			case dhcpv6.OptIAPrefix:
				p, err := dhcpv6.ParseIAPrefix(o.Data)
				note(err)
				if p != nil {
					walk(p.Options)
				}
			}
		}
	}
	walk(msg.Options)
	msg.Serialize()
	return first
}

var peer6 = &net.UDPAddr{IP: net.ParseIP("fe80::7"), Port: 546}

func prepDHCP6(in *input, b []byte) (func([]byte) error, func()) {
	srv, err := dhcpv6.NewServer(dhcpv6.ServerConfig{Interface: "lo", AddressPool: "2001:db8:0:1::/124", PrefixPool: "2001:db8:aa00::/56", DelegationLength: 60,
		DNSServers: []string{"2001:4860:4860::8888"}, PreferredLifetime: 1800, ValidLifetime: 3600}, nop)
	if err != nil {
		panic(err)
	}
	if string(srv.VerifServerDUID()) != string(ServerDUID) {
		panic(fmt.Sprintf("server DUID %x is not the one the generator uses", srv.VerifServerDUID()))
	}
	if in.St == "bound" {
		ia := dhcpv6.MakeIANAOption(&dhcpv6.IANA{IAID: 1})
		pd := dhcpv6.MakeIAPDOption(&dhcpv6.IAPD{IAID: 1})
		for _, mt := range []uint8{dhcpv6.MsgTypeSolicit, dhcpv6.MsgTypeRequest} {
			srv.VerifHandleMessage(&dhcpv6.Message{Type: mt, TransactionID: [3]byte{1, 2, mt}, Options: []dhcpv6.Option{
				dhcpv6.MakeClientIDOption(ClientDUID), dhcpv6.MakeServerIDOption(&dhcpv6.DUID{Type: 3, Data: []byte{0, 1}}), ia, pd}}, peer6)
		}
		if len(srv.VerifLeases()) == 0 {
			panic("DHCPv6 binding not created")
		}
	}
	return func(b []byte) error {
		msg, err := dhcpv6.ParseMessage(b) // as receiveLoop does
		if err != nil {
			return err
		}
		if len(srv.VerifHandleMessage(msg, peer6)) == 0 {
			return errSilent
		}
		return nil
	}, nil
}

// ---- RADIUS CoA listener ------------------------------------------------------------------------------

const coaSecret = "testing123"

type coaHost struct {
	srv    *radius.CoAServer
	addr   *net.UDPAddr
	a, b   *net.UDPConn
	nonce  int
	cancel context.CancelFunc
}

var (
	coaOnce sync.Once
	coaH    *coaHost
)

func signCoA(b []byte, secret string) {
	if len(b) < 20 {
		return
	}
	end := int(binary.BigEndian.Uint16(b[2:4]))
	if end < 20 || end > len(b) {
		end = len(b)
	}
	h := md5.New()
	h.Write(b[:4])
	h.Write(make([]byte, 16))
	h.Write(b[20:end])
	h.Write([]byte(secret))
	copy(b[4:20], h.Sum(nil))
}

// theCoAHost returns the one listener of this process. The listener goroutine belongs to the code under test: a panic
// there ends the process, which the parent attributes to the input logged last.
func theCoAHost() *coaHost {
	coaOnce.Do(func() {
		srv, err := radius.NewCoAServer(radius.CoAServerConfig{Address: "127.0.0.1:0", Secret: coaSecret}, nop)
		if err != nil {
			panic(err)
		}
		srv.SetCoAHandler(func(ctx context.Context, req *radius.CoARequest) *radius.CoAResponse {
			return &radius.CoAResponse{Success: req.SessionID == "sess-1"}
		})
		srv.SetDisconnectHandler(func(ctx context.Context, req *radius.DisconnectRequest) *radius.DisconnectResponse {
			return &radius.DisconnectResponse{Success: req.SessionID == "sess-1"}
		})
		ctx, cancel := context.WithCancel(context.Background())
		if err := srv.Start(ctx); err != nil {
			panic(err)
		}
		conn, _ := core.Field(srv, "conn").Interface().(*net.UDPConn)
		if conn == nil {
			panic("CoAServer.conn not found")
		}
		h := &coaHost{srv: srv, cancel: cancel, addr: conn.LocalAddr().(*net.UDPAddr)}
		lo := &net.UDPAddr{IP: net.IPv4(127, 0, 0, 1)}
		if h.a, err = net.ListenUDP("udp4", lo); err != nil {
			panic(err)
		}
		if h.b, err = net.ListenUDP("udp4", lo); err != nil {
			panic(err)
		}
		coaH = h
	})
	return coaH
}

func prepCoA(in *input, b []byte) (func([]byte) error, func()) {
	h := theCoAHost()
	if in.St == "signed" {
		signCoA(b, coaSecret)
	}
	return func(b []byte) error {
		if _, err := h.a.WriteToUDP(b, h.addr); err != nil {
			panic("harness: send: " + err.Error())
		}
		// sentinel: a correctly signed request from a second socket; its answer means the listener is done with b
		buf := make([]byte, 4096)
		for try := 0; try < 3; try++ {
			h.nonce++
			s := make([]byte, 20, 40)
			s[0], s[1] = 43, byte(h.nonce)
			s = append(s, 44, 10)
			s = append(s, []byte(fmt.Sprintf("stl%05d", h.nonce%100000))...)
			binary.BigEndian.PutUint16(s[2:], uint16(len(s)))
			signCoA(s, coaSecret)
			if _, err := h.b.WriteToUDP(s, h.addr); err != nil {
				panic("harness: send sentinel: " + err.Error())
			}
			h.b.SetReadDeadline(time.Now().Add(2 * time.Second))
			if _, _, err := h.b.ReadFromUDP(buf); err == nil {
				// whatever the listener answered to the datagram under test is queued by now (same socket pair order)
				answered := false
				h.a.SetReadDeadline(time.Now().Add(200 * time.Microsecond))
				for {
					if _, _, err := h.a.ReadFromUDP(buf); err != nil {
						break
					}
					answered = true
				}
				if !answered {
					return errSilent
				}
				return nil
			}
		}
		// the listener no longer answers: it hangs on the datagram (the watchdog and the re-measurement decide)
		time.Sleep(time.Hour)
		return nil
	}, nil
}

// ---- RADIUS client (formatMAC) -------------------------------------------------------------------------

var (
	radOnce   sync.Once
	radClient *radius.Client
)

// radiusClient returns a real radius.Client whose server is a loopback responder of this process.
func radiusClient() *radius.Client {
	radOnce.Do(func() {
		var auth, acct *net.UDPConn
		for try := 0; try < 50; try++ {
			a, err := net.ListenUDP("udp4", &net.UDPAddr{IP: net.IPv4(127, 0, 0, 1)})
			if err != nil {
				panic(err)
			}
			port := a.LocalAddr().(*net.UDPAddr).Port
			c, err := net.ListenUDP("udp4", &net.UDPAddr{IP: net.IPv4(127, 0, 0, 1), Port: port + 1})
			if err != nil {
				a.Close()
				continue
			}
			auth, acct = a, c
			break
		}
		if auth == nil {
			panic("no port pair for the RADIUS responder")
		}
		serve := func(c *net.UDPConn, code lradius.Code) {
			buf := make([]byte, 4096)
			for {
				n, from, err := c.ReadFromUDP(buf)
				if err != nil {
					return
				}
				pkt, err := lradius.Parse(buf[:n], []byte(coaSecret))
				if err != nil {
					continue
				}
				out, err := pkt.Response(code).Encode()
				if err == nil {
					c.WriteToUDP(out, from)
				}
			}
		}
		go serve(auth, lradius.CodeAccessAccept)
		go serve(acct, lradius.CodeAccountingResponse)
		cl, err := radius.NewClient(radius.ClientConfig{Servers: []radius.ServerConfig{{Host: "127.0.0.1", Port: auth.LocalAddr().(*net.UDPAddr).Port, Secret: coaSecret}},
			NASID: "bng-verif", Timeout: 20 * time.Millisecond /* a lost reply must stay inside the NoHang budget */, Retries: 1, RateLimit: radius.RateLimitConfig{RequestsPerSecond: 1e9, BurstSize: 1 << 30}}, nop)
		if err != nil {
			panic(err)
		}
		radClient = cl
	})
	return radClient
}
