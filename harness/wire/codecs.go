//go:build verif

package wire

// Generators, one per format of specs/WireGrammar/WireGrammar.tla (Formats), named after the decoder
// they exercise. They only supply the bytes that are not lengths: type codes, identifiers, values.

var codecs = map[string]func(g *gen) codec{
	"pppoe_disc":  func(g *gen) codec { return &pppoeDisc{} },
	"pppoe_lcp":   func(g *gen) codec { return &pppoeSess{proto: 0xc021, inner: &pppCtl{proto: "lcp"}} },
	"pppoe_pap":   func(g *gen) codec { return &pppoeSess{proto: 0xc023, inner: &lstr{}} },
	"pppoe_ipcp":  func(g *gen) codec { return &pppoeSess{proto: 0x8021, inner: &pppCtl{proto: "ipcp"}} },
	"pppoe_other": func(g *gen) codec { return &pppoeSess{proto: -1, inner: &pppCtl{proto: "lcp"}} },
	"lcp":         func(g *gen) codec { return &pppCtl{proto: "lcp"} },
	"ipcp":        func(g *gen) codec { return &pppCtl{proto: "ipcp"} },
	"ipv6cp":      func(g *gen) codec { return &pppCtl{proto: "ipv6cp"} },
	"pap":         func(g *gen) codec { return &lstr{} },
	"chap":        func(g *gen) codec { return &lstr{chap: true} },
	"echo":        func(g *gen) codec { return &raw{} },
	"opt82":       func(g *gen) codec { return &dhcp4opt{code: 82, subs: []int{1, 2, 5, 9, 151, 0, 255}} },
	"ztp43":       func(g *gen) codec { return &dhcp4opt{code: 43, subs: []int{1, 1, 2, 0, 255}, text: true} },
	"dhcp6_na":    func(g *gen) codec { return &dhcp6{l1: []int{3}, l2: 5} },
	"dhcp6_pd":    func(g *gen) codec { return &dhcp6{l1: []int{25}, l2: 26} },
	"dhcp6_opt":   func(g *gen) codec { return &dhcp6{l1: []int{1, 2, 6, 8, 14, 23, 3, 25, 0xfff0}, noPreamble: true} },
	"radius":      func(g *gen) codec { return &radiusPkt{} },
	"mac":         func(g *gen) codec { return &raw{} },
}

func pick(g *gen, idx int, xs []int) int {
	if g.canonical {
		return xs[idx%len(xs)]
	}
	return xs[g.rng.Intn(len(xs))]
}

func fillRandom(g *gen, b []byte) {
	if g.canonical {
		for i := range b {
			b[i] = byte(0x41 + i%26)
		}
		return
	}
	g.rng.Read(b)
}

func fillText(g *gen, b []byte, s string) {
	for i := range b {
		b[i] = s[i%len(s)]
	}
}

type base struct{}

func (base) fixed(g *gen, level, kind int, b []byte) { fillRandom(g, b) }
func (base) leaf(g *gen, level, kind int, b []byte)  { fillRandom(g, b) }
func (base) preamble(g *gen) []byte                  { return nil }

// ---- PPPoE discovery: ParsePPPoEHeader / ParseTags / handleDiscovery / ParsePADT -------------------

type pppoeDisc struct{ base }

var pppoeTagKinds = []int{0x0101, 0x0104, 0x0103, 0x0102, 0x0110, 0x0000, 0xfffe}
var pppoeTagNat = map[int]int{0x0101: 8, 0x0104: 16, 0x0103: 4, 0x0102: 6, 0x0110: 12, 0x0000: 0, 0xfffe: 4}

func (c *pppoeDisc) kind(g *gen, level, idx int, leaf bool, pk int) (int, int) {
	if level == 0 {
		return g.code, -1
	}
	k := pick(g, idx, pppoeTagKinds)
	return k, pppoeTagNat[k]
}
func (c *pppoeDisc) header(g *gen, level, kind, declared int, h []byte) {
	if level == 0 {
		h[0], h[1] = 0x11, byte(kind)
		put16(h[2:], 0) // session id: patched by the adapter when the state has a live session
		put16(h[4:], declared)
		return
	}
	put16(h[0:], kind)
	put16(h[2:], declared)
}
func (c *pppoeDisc) leaf(g *gen, level, kind int, b []byte) {
	if kind == 0x0101 && (g.canonical || g.rng.Intn(3) > 0) {
		fillText(g, b, "internet") // the service name the server offers
		return
	}
	fillRandom(g, b)
}

// ---- PPPoE session frames: handleSession -> handleLCP / handlePAP / handleIPCP ---------------------

type pppoeSess struct {
	base
	proto int
	inner codec // levels 1.. are the levels 0.. of the inner format
}

func (c *pppoeSess) protoOf(g *gen) int {
	if c.proto >= 0 {
		return c.proto
	}
	return g.code // pppoe_other: the code is the PPP protocol number
}
func (c *pppoeSess) kind(g *gen, level, idx int, leaf bool, pk int) (int, int) {
	if level == 0 {
		return 0, -1
	}
	return c.inner.kind(g, level-1, idx, leaf, pk)
}
func (c *pppoeSess) header(g *gen, level, kind, declared int, h []byte) {
	if level == 0 {
		h[0], h[1] = 0x11, 0x00
		put16(h[2:], 0) // session id: patched by the adapter
		put16(h[4:], declared)
		return
	}
	c.inner.header(g, level-1, kind, declared, h)
}
func (c *pppoeSess) fixed(g *gen, level, kind int, b []byte) {
	if level == 0 {
		put16(b, c.protoOf(g))
		return
	}
	c.inner.fixed(g, level-1, kind, b)
}
func (c *pppoeSess) leaf(g *gen, level, kind int, b []byte) {
	if level == 0 { // a session frame that carries (part of) the protocol number and nothing else
		fillRandom(g, b)
		if len(b) >= 2 {
			put16(b, c.protoOf(g))
		} else if len(b) == 1 {
			b[0] = byte(c.protoOf(g) >> 8)
		}
		return
	}
	c.inner.leaf(g, level-1, kind, b)
}

// ---- LCP / IPCP / IPv6CP packets and options: ParseLCPPacket / ParseLCPOptions / ReceivePacket ----

type pppCtl struct {
	base
	proto string
}

var pppOptKinds = map[string][]int{
	"lcp":    {1, 5, 3, 7, 8, 4, 13, 0x63},
	"ipcp":   {3, 129, 131, 2, 1, 130, 0x63},
	"ipv6cp": {1, 2, 0x63},
}
var pppOptNat = map[string]map[int]int{
	"lcp":    {1: 2, 5: 4, 3: 2, 7: 0, 8: 0, 4: 6, 13: 1, 0x63: 2},
	"ipcp":   {3: 4, 129: 4, 131: 4, 2: 2, 1: 8, 130: 4, 0x63: 3},
	"ipv6cp": {1: 8, 2: 2, 0x63: 1},
}

func (c *pppCtl) kind(g *gen, level, idx int, leaf bool, pk int) (int, int) {
	if level == 0 {
		code := g.code
		if idx > 0 && !g.canonical { // a second packet in the same frame
			code = 1 + g.rng.Intn(11)
		}
		if leaf {
			switch code {
			case 9, 10, 11: // echo / discard: magic number (+ data)
				return code, 4
			case 7, 8: // code / protocol reject: the rejected packet
				return code, 6
			case 5, 6: // terminate: free text
				return code, 3
			default:
				return code, 0
			}
		}
		return code, -1
	}
	k := pick(g, idx, pppOptKinds[c.proto])
	return k, pppOptNat[c.proto][k]
}
func (c *pppCtl) header(g *gen, level, kind, declared int, h []byte) {
	if level == 0 {
		h[0] = byte(kind)
		h[1] = 0x2a // identifier: patched by the adapter where a live request identifier matters
		if !g.canonical {
			h[1] = byte(g.rng.Intn(256))
		}
		put16(h[2:], declared)
		return
	}
	h[0], h[1] = byte(kind), byte(declared)
}
func (c *pppCtl) leaf(g *gen, level, kind int, b []byte) {
	fillRandom(g, b)
	if level == 0 {
		switch kind {
		case 7: // Code-Reject: first byte = the rejected code
			if len(b) > 0 && (g.canonical || g.rng.Intn(2) == 0) {
				b[0] = byte(1 + len(b)%4)
			}
		case 8: // Protocol-Reject: first two bytes = the rejected protocol
			if len(b) >= 2 && (g.canonical || g.rng.Intn(2) == 0) {
				put16(b, 0xc021)
			}
		}
		return
	}
	switch {
	case c.proto == "lcp" && kind == 1 && len(b) >= 2:
		put16(b, []int{1492, 1500, 64, 0, 65535}[pick(g, len(b), []int{0, 1, 2, 3, 4})])
	case c.proto == "lcp" && kind == 3 && len(b) >= 2:
		put16(b, []int{0xc023, 0xc223, 0x1234}[pick(g, len(b), []int{0, 1, 2})])
	case c.proto == "ipcp" && kind == 3 && len(b) >= 4 && (g.canonical || g.rng.Intn(2) == 0):
		copy(b, []byte{0, 0, 0, 0})
	}
}

// ---- PAP / CHAP: Authenticator.ReceivePacket, Server.handlePAP -------------------------------------

type lstr struct {
	base
	chap bool
}

func (c *lstr) kind(g *gen, level, idx int, leaf bool, pk int) (int, int) {
	if level == 0 {
		if leaf {
			return g.code, 0
		}
		return g.code, -1
	}
	if c.chap && idx == 0 {
		return 0, 16 // value-size + response value
	}
	return 0, -1
}
func (c *lstr) header(g *gen, level, kind, declared int, h []byte) {
	if level == 0 {
		h[0] = byte(kind)
		h[1] = 1
		if !g.canonical {
			h[1] = byte(g.rng.Intn(3))
		}
		put16(h[2:], declared)
		return
	}
	h[0] = byte(declared)
}
func (c *lstr) leaf(g *gen, level, kind int, b []byte) {
	if level == 1 && (g.canonical || g.rng.Intn(2) == 0) {
		fillText(g, b, "subscriber")
		return
	}
	fillRandom(g, b)
}

// ---- raw bytes: ParseEchoPacket, hardware addresses -----------------------------------------------

type raw struct{ base }

func (c *raw) kind(g *gen, level, idx int, leaf bool, pk int) (int, int) { return 0, -1 }
func (c *raw) header(g *gen, level, kind, declared int, h []byte)        {}

// ---- DHCPv4 option with sub-options: parseOption82, parseVendorOptions ----------------------------

type dhcp4opt struct {
	base
	code int
	subs []int
	text bool
}

func (c *dhcp4opt) kind(g *gen, level, idx int, leaf bool, pk int) (int, int) {
	if level == 0 {
		return c.code, -1
	}
	k := pick(g, idx, c.subs)
	if c.text && !g.canonical {
		return k, 4 + g.rng.Intn(20)
	}
	return k, -1
}
func (c *dhcp4opt) header(g *gen, level, kind, declared int, h []byte) {
	h[0], h[1] = byte(kind), byte(declared)
}
func (c *dhcp4opt) leaf(g *gen, level, kind int, b []byte) {
	if c.text {
		fillText(g, b, "https://nexus.example.net/bootstrap")
		return
	}
	fillRandom(g, b)
}

// ---- DHCPv6: ParseMessage / ParseOptions / ParseIANA / ParseIAPD / ParseIAAddress / ParseIAPrefix ---

type dhcp6 struct {
	base
	l1         []int
	l2         int
	noPreamble bool
}

// ServerDUID is the identifier of a dhcpv6.Server on interface "lo" (DUID-LL, hardware type 1, no address);
// the adapter checks it against the live server.
var ServerDUID = []byte{0, 3, 0, 1}

// ClientDUID is the client identifier the "bound" state holds a binding for.
var ClientDUID = []byte{0, 3, 0, 1, 2, 0, 0, 0, 0, 7}

func opt6(code int, data []byte) []byte {
	b := make([]byte, 4+len(data))
	put16(b, code)
	put16(b[2:], len(data))
	copy(b[4:], data)
	return b
}

func (c *dhcp6) kind(g *gen, level, idx int, leaf bool, pk int) (int, int) {
	switch level {
	case 0:
		return g.code, -1
	case 1:
		k := pick(g, idx, c.l1)
		switch k {
		case 3, 25:
			return k, 12
		case 1:
			return k, 10
		case 2:
			return k, 4
		case 6:
			return k, 4
		case 8:
			return k, 2
		case 14:
			return k, 0
		case 23:
			return k, 16
		}
		return k, -1
	case 2:
		k := c.l2
		if pk == 25 || (c.l2 == 0 && pk != 3) {
			k = 26
		}
		if k == 0 {
			k = 5
		}
		if !g.canonical && g.rng.Intn(8) == 0 {
			k = []int{5, 26, 13}[g.rng.Intn(3)] // a foreign option inside the IA
		}
		if k == 26 {
			return k, 25
		}
		if k == 13 {
			return k, 4
		}
		return k, 24
	}
	return 13, 4 // status code
}
func (c *dhcp6) header(g *gen, level, kind, declared int, h []byte) {
	if level == 0 {
		h[0] = byte(kind)
		h[1], h[2], h[3] = 0xab, 0xcd, 0xef
		return
	}
	put16(h, kind)
	put16(h[2:], declared)
}
func (c *dhcp6) addr(g *gen, b []byte) {
	// an address inside the server's pool (2001:db8:0:1::/124), the first one, or anything
	copy(b, []byte{0x20, 0x01, 0x0d, 0xb8, 0, 0, 0, 1, 0, 0, 0, 0, 0, 0, 0, 1})
	if !g.canonical {
		switch g.rng.Intn(3) {
		case 0:
			b[15] = byte(g.rng.Intn(16))
		case 1:
			g.rng.Read(b[:16])
		}
	}
}
func (c *dhcp6) fixed(g *gen, level, kind int, b []byte) {
	fillRandom(g, b)
	switch {
	case level == 1 && len(b) >= 12: // IAID, T1, T2
		copy(b, []byte{0, 0, 0, 1})
	case level == 2 && kind == 5 && len(b) >= 24:
		c.addr(g, b)
	case level == 2 && kind == 26 && len(b) >= 25:
		b[8] = 60
		copy(b[9:], []byte{0x20, 0x01, 0x0d, 0xb8, 0xaa, 0, 0, 0, 0, 0, 0, 0, 0, 0, 0, 0})
	}
}
func (c *dhcp6) leaf(g *gen, level, kind int, b []byte) {
	fillRandom(g, b)
	switch {
	case level == 1 && kind == 1:
		copy(b, ClientDUID)
	case level == 1 && kind == 2:
		copy(b, ServerDUID)
	case level == 1 && (kind == 3 || kind == 25) && len(b) >= 4:
		copy(b, []byte{0, 0, 0, 1})
	case level == 2 && kind == 5 && len(b) >= 16:
		c.addr(g, b)
	case level == 2 && kind == 26 && len(b) >= 25:
		b[8] = 60
		copy(b[9:], []byte{0x20, 0x01, 0x0d, 0xb8, 0xaa, 0, 0, 0, 0, 0, 0, 0, 0, 0, 0, 0})
	}
}
func (c *dhcp6) preamble(g *gen) []byte {
	if c.noPreamble {
		return nil
	}
	// well-formed client and server identifiers, so that the handlers get as far as the IA options
	out := opt6(1, ClientDUID)
	if g.rng.Intn(8) > 0 {
		out = append(out, opt6(2, ServerDUID)...)
	}
	return out
}

// ---- RADIUS CoA / Disconnect: receiveLoop / parseAttributes ----------------------------------------

type radiusPkt struct{ base }

var radAttrKinds = []int{44, 1, 8, 4, 27, 28, 31, 11, 0xf0}
var radAttrNat = map[int]int{44: 6, 1: 5, 8: 4, 4: 4, 27: 4, 28: 4, 31: 17, 11: 7, 0xf0: 3, 26: 6}

func (c *radiusPkt) kind(g *gen, level, idx int, leaf bool, pk int) (int, int) {
	switch level {
	case 0:
		return g.code, -1
	case 1:
		if !leaf {
			return 26, -1 // Vendor-Specific: vendor id + sub-attributes
		}
		k := pick(g, idx, radAttrKinds)
		return k, radAttrNat[k]
	}
	return 1 + idx, -1
}
func (c *radiusPkt) header(g *gen, level, kind, declared int, h []byte) {
	if level == 0 {
		h[0], h[1] = byte(kind), 7
		put16(h[2:], declared)
		// Request Authenticator: computed by the adapter (state "signed") over the finished bytes
		return
	}
	h[0], h[1] = byte(kind), byte(declared)
}
func (c *radiusPkt) fixed(g *gen, level, kind int, b []byte) {
	copy(b, []byte{0, 0, 0x0d, 0xe9}) // vendor id
}
func (c *radiusPkt) leaf(g *gen, level, kind int, b []byte) {
	fillRandom(g, b)
	switch kind {
	case 44:
		fillText(g, b, "sess-1")
	case 1:
		fillText(g, b, "alice")
	case 31:
		fillText(g, b, "aa:bb:cc:00:00:01")
	case 8:
		copy(b, []byte{10, 0, 0, 5})
	}
}
