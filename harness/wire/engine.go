//go:build verif

package wire

import (
	"bufio"
	"bytes"
	"encoding/hex"
	"encoding/json"
	"fmt"
	"math/rand"
	"os"
	"os/exec"
	"path/filepath"
	"runtime"
	"sort"
	"strconv"
	"strings"
	"sync"
	"time"
)

// ---- the plan: the deterministic list of inputs of a run ------------------------------------------

// input is one byte string for one entry point in one state.
type input struct {
	Seq  int
	Ep   string
	St   string
	Lay  int // > 0: binary layout (1-based index into frames.json layouts), < 0: text frame -Lay, 0: random bytes
	Code int
	Fill int
	Fmt  string
	gen  func() ([]byte, error)
}

type planCfg struct {
	Fills   int // concretisations per abstract frame (fill 0 = canonical)
	Random  int // purely random byte strings per (entry point, state)
	Mutants int // random byte-level mutations of well-formed frames per (entry point, state)
	Seed    int64
}

func tierCfg(tier string, seed int64) planCfg {
	if tier == "thorough" {
		return planCfg{Fills: 3, Random: 1500, Mutants: 1500, Seed: seed}
	}
	return planCfg{Fills: 2, Random: 300, Mutants: 300, Seed: seed}
}

type epst struct{ ep, st string }

// forEachInput walks the plan in its fixed order.
func forEachInput(ff *FramesFile, pc planCfg, visit func(in *input) bool) {
	seq := 0
	fmts := make([]string, 0, len(ff.Formats))
	for f := range ff.Formats {
		fmts = append(fmts, f)
	}
	sort.Strings(fmts)
	for li, l := range ff.Layouts {
		f := ff.Formats[l.Fmt]
		for _, code := range l.Codes {
			for fill := 0; fill < pc.Fills; fill++ {
				li, code, fill := li, code, fill
				var cached []byte
				var cerr error
				done := false
				gen := func() ([]byte, error) {
					if !done {
						cached, cerr = concretise(ff, li, code, fill, pc.Seed)
						done = true
					}
					return cached, cerr
				}
				for _, a := range f.Applies {
					seq++
					if !visit(&input{Seq: seq, Ep: a[0], St: a[1], Lay: li + 1, Code: code, Fill: fill, Fmt: l.Fmt, gen: gen}) {
						return
					}
				}
			}
		}
	}
	for ti, t := range ff.Texts {
		f := ff.Formats[t.Fmt]
		if f == nil {
			continue
		}
		for fill := 0; fill < pc.Fills; fill++ {
			ti, fill := ti, fill
			gen := func() ([]byte, error) { return concretiseText(ff.Texts[ti], fill, pc.Seed) }
			for _, a := range f.Applies {
				seq++
				if !visit(&input{Seq: seq, Ep: a[0], St: a[1], Lay: -(ti + 1), Code: 0, Fill: fill, Fmt: t.Fmt, gen: gen}) {
					return
				}
			}
		}
	}
	// random byte strings and byte-level mutants of well-formed frames, per (entry point, state)
	wf := map[string][]int{} // format -> well-formed layouts
	for li, l := range ff.Layouts {
		if len(l.Devs) == 0 && l.Cut.At == "none" {
			wf[l.Fmt] = append(wf[l.Fmt], li)
		}
	}
	for _, fn := range fmts {
		f := ff.Formats[fn]
		for _, a := range f.Applies {
			for r := 0; r < pc.Random+pc.Mutants; r++ {
				fn, a, r := fn, a, r
				gen := func() ([]byte, error) {
					rng := rand.New(rand.NewSource(seedOf(pc.Seed, "random", fn, a[0], a[1], r)))
					if r < pc.Random || len(wf[fn]) == 0 {
						return randomBytes(rng), nil
					}
					li := wf[fn][rng.Intn(len(wf[fn]))]
					l := ff.Layouts[li]
					b, err := concretise(ff, li, l.Codes[rng.Intn(len(l.Codes))], 1+rng.Intn(1000), pc.Seed)
					if err != nil {
						return nil, err
					}
					return mutate(rng, b), nil
				}
				seq++
				if !visit(&input{Seq: seq, Ep: a[0], St: a[1], Lay: 0, Code: -1, Fill: r, Fmt: fn, gen: gen}) {
					return
				}
			}
		}
	}
}

func randomBytes(rng *rand.Rand) []byte {
	var n int
	switch rng.Intn(4) {
	case 0:
		n = rng.Intn(8)
	case 1:
		n = rng.Intn(64)
	case 2:
		n = rng.Intn(300)
	default:
		n = rng.Intn(2049)
	}
	b := make([]byte, n)
	rng.Read(b)
	if n > 0 && rng.Intn(3) == 0 { // many decoders look at small values in the first bytes
		for i := 0; i < n && i < 8; i++ {
			b[i] = byte(rng.Intn(12))
		}
	}
	return b
}

func mutate(rng *rand.Rand, b []byte) []byte {
	out := append([]byte{}, b...)
	for k := 1 + rng.Intn(3); k > 0 && len(out) > 0; k-- {
		i := rng.Intn(len(out))
		switch rng.Intn(5) {
		case 0:
			out[i] ^= 1 << uint(rng.Intn(8))
		case 1:
			out[i] = byte(rng.Intn(256))
		case 2:
			out[i] = []byte{0, 1, 0xff, 0x7f, 0x80}[rng.Intn(5)]
		case 3:
			out = out[:i]
		case 4:
			extra := make([]byte, 1+rng.Intn(8))
			rng.Read(extra)
			out = append(out[:i], append(extra, out[i:]...)...)
		}
	}
	return out
}

// budget is the time an input of n bytes may take: 50 ms + 50 ms per KiB.
func budget(n int) time.Duration {
	return 50*time.Millisecond + time.Duration(n)*50*time.Millisecond/1024
}

// ---- executing one input ---------------------------------------------------------------------------

type result struct {
	Seq     int
	Rep     int
	Outcome string // ok | error | panic | infra
	Ns      int64
	Site    string
	Msg     string
}

// repoSite returns the innermost frame of the code under test on the panicking stack.
func repoSite() string {
	pcs := make([]uintptr, 64)
	n := runtime.Callers(3, pcs)
	frames := runtime.CallersFrames(pcs[:n])
	first := ""
	for {
		fr, more := frames.Next()
		if strings.Contains(fr.Function, "codelaboratoryltd/bng/") {
			fn := fr.Function[strings.Index(fr.Function, "codelaboratoryltd/bng/")+len("codelaboratoryltd/bng/"):]
			return fmt.Sprintf("%s (%s:%d)", fn, filepath.Base(fr.File), fr.Line)
		}
		if first == "" && !strings.HasPrefix(fr.Function, "runtime.") && !strings.Contains(fr.Function, "verifharness/") {
			first = fmt.Sprintf("%s (%s:%d)", fr.Function, filepath.Base(fr.File), fr.Line)
		}
		if !more {
			break
		}
	}
	return first
}

func deliverSafely(d func([]byte) error, b []byte) (outcome, site, msg string, ns int64) {
	t0 := time.Now()
	defer func() {
		if e := recover(); e != nil {
			ns = time.Since(t0).Nanoseconds()
			outcome, site, msg = "panic", repoSite(), fmt.Sprint(e)
		}
	}()
	err := d(b)
	ns = time.Since(t0).Nanoseconds()
	if err != nil {
		return "error", "", "", ns
	}
	return "ok", "", "", ns
}

// execute runs one input on a fresh object of its entry point.
func execute(in *input, settle time.Duration) (r result) {
	r.Seq = in.Seq
	b, err := in.gen()
	if err != nil {
		r.Outcome, r.Msg = "infra", "generator: "+err.Error()
		return
	}
	ad := adapters[in.Ep]
	if ad == nil {
		r.Outcome, r.Msg = "infra", "no adapter for entry point "+in.Ep
		return
	}
	// the handler gets a buffer whose capacity equals its length: slicing past the input panics
	buf := make([]byte, len(b))
	copy(buf, b)
	buf = buf[:len(b):len(b)]
	var deliver func([]byte) error
	var cleanup func()
	func() {
		defer func() {
			if e := recover(); e != nil {
				r.Outcome, r.Msg = "infra", fmt.Sprintf("preparing %s/%s: %v", in.Ep, in.St, e)
			}
		}()
		deliver, cleanup = ad.prepare(in, buf)
	}()
	if r.Outcome == "infra" {
		return
	}
	base := runtime.NumGoroutine()
	r.Outcome, r.Site, r.Msg, r.Ns = deliverSafely(deliver, buf)
	if ad.async || settle > 0 {
		// goroutines started by the handler belong to the code under test: let them finish (or die) now, so that a
		// crash is attributed to this input
		t0 := time.Now()
		lim := 20 * time.Millisecond
		if settle > lim {
			lim = settle
		}
		for runtime.NumGoroutine() > base && time.Since(t0) < lim {
			runtime.Gosched()
			if time.Since(t0) > time.Millisecond {
				time.Sleep(200 * time.Microsecond)
			}
		}
		if settle > 0 {
			time.Sleep(settle)
		}
	}
	if cleanup != nil {
		func() {
			defer func() { recover() }()
			cleanup()
		}()
	}
	return
}

// ---- child process ---------------------------------------------------------------------------------

// The child hosts the code under test. Before an input is delivered a line "B seq rep" is written
// (one write system call, unbuffered); after it "R ..." with the outcome. A child that dies or has to be
// killed is attributed to the last B line without an R line.

type job struct {
	Frames string   `json:"frames"`
	Tier   string   `json:"tier"`
	Seed   int64    `json:"seed"`
	Shard  int      `json:"shard"`
	Shards int      `json:"shards"`
	From   int      `json:"from"`   // first sequence number to execute
	Only   []int    `json:"only"`   // list mode: exactly these sequence numbers ...
	Repeat int      `json:"repeat"` // ... each this many times
	Skip   int      `json:"skip"`   // list mode: items (seq x rep) already done
	Settle int      `json:"settle_ms"`
	Cases  []rcase  `json:"cases"`   // replay mode: explicit inputs instead of the plan
	SkipEp []string `json:"skip_ep"` // entry points whose circuit breaker has tripped: their inputs are not executed any more
	Out    string   `json:"out"`
}

type rcase struct {
	ID   string `json:"id"`
	Ep   string `json:"ep"`
	St   string `json:"st"`
	Fmt  string `json:"fmt"`
	Code int    `json:"code"`
	Fill int    `json:"fill"`
	Lay  int    `json:"lay"`
	Hex  string `json:"hex"`
}

func childMain(jobFile string) error {
	jb, err := os.ReadFile(jobFile)
	if err != nil {
		return err
	}
	var j job
	if err := json.Unmarshal(jb, &j); err != nil {
		return err
	}
	out, err := os.OpenFile(j.Out, os.O_CREATE|os.O_WRONLY|os.O_APPEND, 0o644)
	if err != nil {
		return err
	}
	defer out.Close()
	var pending []byte
	begin := func(seq, rep int) {
		pending = append(pending, fmt.Sprintf("B %d %d\n", seq, rep)...)
		out.Write(pending)
		pending = pending[:0]
	}
	finish := func(r result) {
		pending = append(pending, fmt.Sprintf("R %d %d %s %d %q %q\n", r.Seq, r.Rep, r.Outcome, r.Ns, r.Site, clip(r.Msg, 300))...)
	}
	flush := func() {
		if len(pending) > 0 {
			out.Write(pending)
			pending = pending[:0]
		}
	}
	settle := time.Duration(j.Settle) * time.Millisecond
	if len(j.Cases) > 0 {
		done := 0
		for ci, c := range j.Cases {
			for rep := 0; rep < max(1, j.Repeat); rep++ {
				done++
				if done <= j.Skip {
					continue
				}
				b, err := hex.DecodeString(c.Hex)
				if err != nil {
					return err
				}
				in := &input{Seq: ci + 1, Ep: c.Ep, St: c.St, Code: c.Code, Fill: c.Fill, Fmt: c.Fmt, Lay: c.Lay, gen: func() ([]byte, error) { return b, nil }}
				begin(in.Seq, rep)
				r := execute(in, settle)
				r.Rep = rep
				finish(r)
				flush()
			}
		}
		flush()
		out.Write([]byte("E\n"))
		return nil
	}
	ff, err := loadFrames(j.Frames)
	if err != nil {
		return err
	}
	skipEp := map[string]bool{}
	for _, e := range j.SkipEp {
		skipEp[e] = true
	}
	forEachInput(ff, tierCfg(j.Tier, j.Seed), func(in *input) bool {
		if in.Seq < j.From || in.Seq%j.Shards != j.Shard {
			return true
		}
		if skipEp[in.Ep] {
			finish(result{Seq: in.Seq, Outcome: "skipped"})
			return true
		}
		begin(in.Seq, 0)
		finish(execute(in, settle))
		return true
	})
	flush()
	out.Write([]byte("E\n"))
	return nil
}

func clip(s string, n int) string {
	s = strings.ReplaceAll(s, "\n", " | ")
	if len(s) > n {
		return s[:n]
	}
	return s
}

// ---- parent: running jobs in child processes --------------------------------------------------------

type runner struct {
	dir      string
	mu       sync.Mutex
	Spawns   int
	Deaths   int
	Kills    int
	hangKill time.Duration
	n        int
}

type childEnd struct {
	results  []result
	finished bool    // the child wrote its end marker
	open     *[2]int // seq, rep of a B line without R line
	killed   bool    // killed by the watchdog (no progress)
	note     string  // first lines of stderr
}

func parseOut(path string) (rs []result, open *[2]int, finished bool) {
	f, err := os.Open(path)
	if err != nil {
		return
	}
	defer f.Close()
	sc := bufio.NewScanner(f)
	sc.Buffer(make([]byte, 1<<20), 1<<20)
	for sc.Scan() {
		line := sc.Text()
		switch {
		case strings.HasPrefix(line, "B "):
			var s, rep int
			fmt.Sscanf(line, "B %d %d", &s, &rep)
			open = &[2]int{s, rep}
		case strings.HasPrefix(line, "R "):
			var r result
			var site, msg string
			if _, err := fmt.Sscanf(line, "R %d %d %s %d %q %q", &r.Seq, &r.Rep, &r.Outcome, &r.Ns, &site, &msg); err != nil {
				continue
			}
			r.Site, r.Msg = site, msg
			rs = append(rs, r)
			if open != nil && open[0] == r.Seq && open[1] == r.Rep {
				open = nil
			}
		case line == "E":
			finished = true
		}
	}
	return
}

// runChild runs one job in a fresh child process under a progress watchdog.
func (rn *runner) runChild(j job) childEnd {
	rn.mu.Lock()
	rn.n++
	id := rn.n
	rn.Spawns++
	rn.mu.Unlock()
	j.Out = filepath.Join(rn.dir, fmt.Sprintf("child%d.out", id))
	os.Remove(j.Out)
	jf := filepath.Join(rn.dir, fmt.Sprintf("child%d.job", id))
	jb, _ := json.Marshal(j)
	if err := os.WriteFile(jf, jb, 0o644); err != nil {
		panic(err)
	}
	exe, err := os.Executable()
	if err != nil {
		panic(err)
	}
	cmd := exec.Command(exe, "-test.run", "^TestChild$", "-test.count=1", "-test.timeout", "0")
	cmd.Env = append(os.Environ(), "VERIF_WIRE_CHILD="+jf)
	var se bytes.Buffer
	cmd.Stderr = &se
	cmd.Stdout = nil
	if err := cmd.Start(); err != nil {
		panic("wire harness: cannot start child: " + err.Error())
	}
	exited := make(chan struct{})
	go func() { cmd.Wait(); close(exited) }()
	var ce childEnd
	lastSize, lastChange := int64(-1), time.Now()
	tick := time.NewTicker(100 * time.Millisecond)
	defer tick.Stop()
loop:
	for {
		select {
		case <-exited:
			break loop
		case <-tick.C:
			if st, err := os.Stat(j.Out); err == nil && st.Size() != lastSize {
				lastSize, lastChange = st.Size(), time.Now()
			}
			limit := rn.hangKill
			if lastSize <= 0 { // still starting up (loading the frames): no input is being handled yet
				limit = 120 * time.Second
			}
			if time.Since(lastChange) > limit {
				cmd.Process.Kill()
				<-exited
				ce.killed = true
				rn.mu.Lock()
				rn.Kills++
				rn.mu.Unlock()
				break loop
			}
		}
	}
	ce.results, ce.open, ce.finished = parseOut(j.Out)
	if !ce.finished && !ce.killed {
		rn.mu.Lock()
		rn.Deaths++
		rn.mu.Unlock()
	}
	ce.note = firstLines(se.String(), 8)
	os.Remove(jf)
	if os.Getenv("VERIF_KEEP") == "" {
		os.Remove(j.Out)
	}
	return ce
}

func firstLines(s string, n int) string {
	var keep []string
	for _, l := range strings.Split(s, "\n") {
		l = strings.TrimSpace(l)
		if l == "" || strings.HasPrefix(l, "[signal") || l == "FAIL" || strings.HasPrefix(l, "exit status") {
			continue
		}
		keep = append(keep, l)
		if len(keep) >= n {
			break
		}
	}
	return clip(strings.Join(keep, " | "), 600)
}

// crashSite extracts the innermost frame of the code under test from a Go crash report.
func crashSite(stderr string) string {
	lines := strings.Split(stderr, " | ")
	for i, l := range lines {
		if strings.Contains(l, "codelaboratoryltd/bng/") && strings.Contains(l, "(") && !strings.Contains(l, ".go:") {
			fn := l[strings.Index(l, "codelaboratoryltd/bng/")+len("codelaboratoryltd/bng/"):]
			if k := strings.LastIndex(fn, "("); k > 0 {
				fn = fn[:k]
			}
			loc := ""
			if i+1 < len(lines) {
				f := strings.Fields(lines[i+1])
				if len(f) > 0 {
					loc = filepath.Base(f[0])
				}
			}
			return fmt.Sprintf("%s (%s)", fn, loc)
		}
	}
	return ""
}

func atoi(s string) int { n, _ := strconv.Atoi(s); return n }
