//go:build verif

// Package dhcp6 binds the real DHCPv6 server (pkg/dhcpv6) to the Dhcp4 contract applied once
// to the address pool (IA_NA) and once to the prefix pool (IA_PD) - property C02, v6 half.
package dhcp6

import (
	"fmt"
	"math/big"
	"net"
	"sort"
	"strings"
	"testing"
	"testing/synctest"
	"time"

	"github.com/codelaboratoryltd/bng/pkg/dhcpv6"
	"go.uber.org/zap"

	"verifharness/core"
)

var T *testing.T

const validLifetime = 3600 // seconds

type Sys struct {
	NClients int
	AddrCIDR string
	PfxCIDR  string
	DelegLen int
	events   []core.Event
}

func NewSys(nclients int, addrCIDR, pfxCIDR string, delegLen int) *Sys {
	s := &Sys{NClients: nclients, AddrCIDR: addrCIDR, PfxCIDR: pfxCIDR, DelegLen: delegLen}
	for c := 1; c <= nclients; c++ {
		for _, ia := range []string{"na", "pd", "both"} {
			s.events = append(s.events, core.Event{"op": "SOL", "c": c, "ia": ia, "sid": "ok"})
			s.events = append(s.events, core.Event{"op": "REQ", "c": c, "ia": ia, "sid": "ok"})
		}
		s.events = append(s.events,
			core.Event{"op": "SOLRC", "c": c, "ia": "both", "sid": "ok"},
			core.Event{"op": "REQ", "c": c, "ia": "both", "sid": "bad"},
			core.Event{"op": "RENEW", "c": c, "ia": "both", "sid": "ok"},
			core.Event{"op": "REBIND", "c": c, "ia": "na", "sid": "ok"},
			core.Event{"op": "CONFIRM", "c": c, "ia": "na", "sid": "ok"},
			core.Event{"op": "REL", "c": c, "ia": "both", "sid": "ok"},
			core.Event{"op": "DECL", "c": c, "ia": "both", "sid": "ok"},
		)
	}
	s.events = append(s.events, core.Event{"op": "ADV", "c": 0, "ia": "", "sid": ""}, core.Event{"op": "CLEAN", "c": 0, "ia": "", "sid": ""})
	return s
}

// advStep is one time advance: two of them outlast the valid lifetime.
const advStep = validLifetime*time.Second/2 + time.Second

func (s *Sys) Name() string {
	return fmt.Sprintf("dhcp6/c%d/%s+%s-%d", s.NClients, s.AddrCIDR, s.PfxCIDR, s.DelegLen)
}

func units(cidr string, alloc int) int {
	_, n, _ := net.ParseCIDR(cidr)
	ones, _ := n.Mask.Size()
	return 1 << (alloc - ones)
}

func (s *Sys) Config() map[string]any {
	na := units(s.AddrCIDR, 128)
	var usableNA, usablePD []int
	for u := 1; u < na && u <= 1000; u++ { // the address pool starts after the network's first address
		usableNA = append(usableNA, u)
	}
	for u := 0; u < units(s.PfxCIDR, s.DelegLen); u++ {
		usablePD = append(usablePD, u)
	}
	return map[string]any{"impl": "dhcpv6.Server", "nclients": s.NClients, "usable_na": usableNA, "usable_pd": usablePD,
		"nunits": na, "leaseticks": 2}
}
func (s *Sys) Events() []core.Event { return s.events }
func (s *Sys) Wrap(f func())        { synctest.Test(T, func(t *testing.T) { f() }) }

func unitOf(cidr string, alloc int, ip net.IP) int {
	if ip == nil {
		return -1
	}
	_, n, _ := net.ParseCIDR(cidr)
	off := new(big.Int).Sub(new(big.Int).SetBytes(ip.To16()), new(big.Int).SetBytes(n.IP.To16()))
	if off.Sign() < 0 {
		return -2
	}
	step := new(big.Int).Lsh(big.NewInt(1), uint(128-alloc))
	q, r := new(big.Int).QuoRem(off, step, new(big.Int))
	if r.Sign() != 0 || q.Cmp(big.NewInt(int64(units(cidr, alloc)))) >= 0 {
		return -2
	}
	return int(q.Int64())
}

type inst struct {
	s      *Sys
	srv    *dhcpv6.Server
	lastNA map[int]int
	lastPD map[int]int
	xid    uint32
	// history digest that only refines node identity (never an oracle): the contract's ghost
	// distinguishes offer ages and declined values, so the extracted table must as well
	offAge map[string]int
	decl   map[string]bool
}

func (s *Sys) New() core.Instance {
	srv, err := dhcpv6.NewServer(dhcpv6.ServerConfig{Interface: "lo", AddressPool: s.AddrCIDR, PrefixPool: s.PfxCIDR, DelegationLength: uint8(s.DelegLen),
		DNSServers: []string{"2001:4860:4860::8888"}, PreferredLifetime: validLifetime / 2, ValidLifetime: validLifetime}, zap.NewNop())
	if err != nil {
		panic(err)
	}
	return &inst{s: s, srv: srv, lastNA: map[int]int{}, lastPD: map[int]int{}, offAge: map[string]int{}, decl: map[string]bool{}}
}

func duid(c int) []byte { return []byte{0, 3, 0, 1, 2, 0, 0, 0, byte(c >> 8), byte(c)} }

func (in *inst) msg(mt uint8, c int, ia string, sid string) *dhcpv6.Message {
	in.xid++
	m := &dhcpv6.Message{Type: mt, TransactionID: [3]byte{byte(in.xid >> 16), byte(in.xid >> 8), byte(in.xid)}}
	m.Options = append(m.Options, dhcpv6.MakeClientIDOption(duid(c)))
	if sid == "ok" && mt != dhcpv6.MsgTypeSolicit && mt != dhcpv6.MsgTypeRebind && mt != dhcpv6.MsgTypeConfirm {
		m.Options = append(m.Options, dhcpv6.Option{Code: dhcpv6.OptServerID, Data: in.srv.VerifServerDUID()})
	}
	if sid == "bad" {
		m.Options = append(m.Options, dhcpv6.Option{Code: dhcpv6.OptServerID, Data: []byte{0, 3, 0, 1, 9, 9, 9, 9, 9, 9}})
	}
	if ia == "na" || ia == "both" {
		iana := &dhcpv6.IANA{IAID: 1}
		if u, ok := in.lastNA[c]; ok && u >= 0 && mt != dhcpv6.MsgTypeSolicit {
			iana.Options = append(iana.Options, dhcpv6.MakeIAAddressOption(&dhcpv6.IAAddress{Address: in.unitIPNA(u), PreferredLifetime: 100, ValidLifetime: 200}))
		}
		m.Options = append(m.Options, dhcpv6.MakeIANAOption(iana))
	}
	if ia == "pd" || ia == "both" {
		m.Options = append(m.Options, dhcpv6.MakeIAPDOption(&dhcpv6.IAPD{IAID: 2}))
	}
	// round-trip through the wire format so the server sees exactly what the parser produces
	p, err := dhcpv6.ParseMessage(m.Serialize())
	if err != nil {
		panic(err)
	}
	return p
}

func (in *inst) unitIPNA(u int) net.IP {
	_, n, _ := net.ParseCIDR(in.s.AddrCIDR)
	b := new(big.Int).SetBytes(n.IP.To16())
	b.Add(b, big.NewInt(int64(u)))
	raw := b.Bytes()
	out := make([]byte, 16)
	copy(out[16-len(raw):], raw)
	return net.IP(out)
}

// reply decoding: kind, address unit, prefix unit, status codes
func (in *inst) send(m *dhcpv6.Message) (kind string, na, pd int, echo bool) {
	out := in.srv.VerifHandleMessage(m, &net.UDPAddr{IP: net.ParseIP("fe80::1"), Port: 546})
	synctest.Wait()
	na, pd = -1, -1
	if len(out) == 0 {
		return "none", na, pd, true
	}
	r, err := dhcpv6.ParseMessage(out[len(out)-1].Serialize())
	if err != nil {
		return "garbled", na, pd, false
	}
	switch r.Type {
	case dhcpv6.MsgTypeAdvertise:
		kind = "ADVERTISE"
	case dhcpv6.MsgTypeReply:
		kind = "REPLY"
	default:
		kind = fmt.Sprintf("TYPE%d", r.Type)
	}
	echo = r.TransactionID == m.TransactionID
	if cid := r.GetOption(dhcpv6.OptClientID); cid == nil || string(cid.Data) != string(m.GetOption(dhcpv6.OptClientID).Data) {
		echo = false
	}
	for _, o := range r.GetAllOptions(dhcpv6.OptIANA) {
		if ia, err := dhcpv6.ParseIANA(o.Data); err == nil {
			for _, io := range ia.Options {
				if io.Code == dhcpv6.OptIAAddr {
					if a, err := dhcpv6.ParseIAAddress(io.Data); err == nil {
						na = unitOf(in.s.AddrCIDR, 128, a.Address)
					}
				}
			}
		}
	}
	for _, o := range r.GetAllOptions(dhcpv6.OptIAPD) {
		if ia, err := dhcpv6.ParseIAPD(o.Data); err == nil {
			for _, io := range ia.Options {
				if io.Code == dhcpv6.OptIAPrefix {
					if p, err := dhcpv6.ParseIAPrefix(io.Data); err == nil {
						if int(p.PrefixLength) != in.s.DelegLen {
							pd = -2
						} else {
							pd = unitOf(in.s.PfxCIDR, in.s.DelegLen, p.Prefix)
						}
					}
				}
			}
		}
	}
	return
}

func res(kind string, na, pd, reqna, reqpd int, echo bool) map[string]any {
	return map[string]any{"rkind": kind, "addr": na, "pfx": pd, "reqaddr": reqna, "reqpfx": reqpd, "echo": echo}
}

func get(m map[int]int, c int) int {
	if v, ok := m[c]; ok {
		return v
	}
	return -1
}

func (in *inst) Apply(ev core.Event) map[string]any {
	op := ev["op"].(string)
	c := toInt(ev["c"])
	ia, _ := ev["ia"].(string)
	sid, _ := ev["sid"].(string)
	rna, rpd := get(in.lastNA, c), get(in.lastPD, c)
	note := func(kind string, na, pd int) {
		if kind == "REPLY" {
			if na >= 0 {
				in.lastNA[c] = na
			}
			if pd >= 0 {
				in.lastPD[c] = pd
			}
		}
	}
	switch op {
	case "SOL":
		k, na, pd, e := in.send(in.msg(dhcpv6.MsgTypeSolicit, c, ia, sid))
		if k == "ADVERTISE" && na >= 0 {
			in.offAge[fmt.Sprintf("na%d=%d", c, na)] = 0
		}
		if k == "ADVERTISE" && pd >= 0 {
			in.offAge[fmt.Sprintf("pd%d=%d", c, pd)] = 0
		}
		return res(k, na, pd, -1, -1, e)
	case "SOLRC":
		m := in.msg(dhcpv6.MsgTypeSolicit, c, ia, sid)
		m.Options = append(m.Options, dhcpv6.Option{Code: dhcpv6.OptRapidCommit})
		k, na, pd, e := in.send(m)
		note(k, na, pd)
		return res(k, na, pd, -1, -1, e)
	case "REQ":
		k, na, pd, e := in.send(in.msg(dhcpv6.MsgTypeRequest, c, ia, sid))
		note(k, na, pd)
		return res(k, na, pd, -1, -1, e)
	case "RENEW", "REBIND":
		mt := uint8(dhcpv6.MsgTypeRenew)
		if op == "REBIND" {
			mt = dhcpv6.MsgTypeRebind
		}
		k, na, pd, e := in.send(in.msg(mt, c, ia, sid))
		note(k, na, pd)
		return res(k, na, pd, rna, rpd, e)
	case "CONFIRM":
		k, na, pd, e := in.send(in.msg(dhcpv6.MsgTypeConfirm, c, ia, sid))
		return res(k, na, pd, rna, rpd, e)
	case "REL":
		k, na, pd, e := in.send(in.msg(dhcpv6.MsgTypeRelease, c, ia, sid))
		delete(in.lastNA, c)
		delete(in.lastPD, c)
		return res(k, na, pd, rna, rpd, e)
	case "DECL":
		if rna >= 0 {
			in.decl[fmt.Sprintf("na=%d", rna)] = true
		}
		if rpd >= 0 {
			in.decl[fmt.Sprintf("pd=%d", rpd)] = true
		}
		k, na, pd, e := in.send(in.msg(dhcpv6.MsgTypeDecline, c, ia, sid))
		delete(in.lastNA, c)
		delete(in.lastPD, c)
		return res(k, na, pd, rna, rpd, e)
	case "ADV":
		for k, v := range in.offAge {
			if v < 2 {
				in.offAge[k] = v + 1
			}
		}
		time.Sleep(advStep)
		synctest.Wait()
		return res("none", -1, -1, -1, -1, true)
	case "CLEAN":
		in.srv.VerifCleanupExpired()
		return res("none", -1, -1, -1, -1, true)
	}
	panic("unknown op " + op)
}

func toInt(v any) int {
	switch x := v.(type) {
	case int:
		return x
	case float64:
		return int(x)
	}
	return 0
}

func (in *inst) Observe() map[string]any {
	n := in.s.NClients
	lna, lpd, exp, rem := make([]int, n), make([]int, n), make([]bool, n), make([]int, n)
	for i := range lna {
		lna[i], lpd[i] = -1, -1
	}
	now := time.Now()
	for _, l := range in.srv.VerifLeases() {
		for c := 1; c <= n; c++ {
			if l.DUID == string(duid(c)) {
				if l.Address != nil {
					lna[c-1] = unitOf(in.s.AddrCIDR, 128, l.Address)
				}
				if l.Prefix != nil {
					lpd[c-1] = unitOf(in.s.PfxCIDR, in.s.DelegLen, l.Prefix.IP)
				}
				exp[c-1] = !l.ValidEnd.IsZero() && !now.Before(l.ValidEnd)
				// remaining lifetime in time-advance steps (a fresh lease has cfg.leaseticks of them)
				if !l.ValidEnd.IsZero() && now.Before(l.ValidEnd) {
					rem[c-1] = int((l.ValidEnd.Sub(now) + advStep - 1) / advStep)
				}
			}
		}
	}
	return map[string]any{"lease_na": lna, "lease_pd": lpd, "expired": exp, "rem": rem, "drain_na": []int{-9}, "drain_pd": []int{-9}}
}

func (in *inst) Fingerprint() string {
	now := time.Now()
	var parts []string
	for _, l := range in.srv.VerifLeases() {
		left := int64(-1)
		if !l.ValidEnd.IsZero() {
			left = int64(l.ValidEnd.Sub(now) / time.Second)
		}
		pf := ""
		if l.Prefix != nil {
			pf = l.Prefix.String()
		}
		parts = append(parts, fmt.Sprintf("L:%x=%s/%s/%d", l.DUID, l.Address, pf, left))
	}
	sort.Strings(parts)
	ap := core.Fingerprint(core.Field(in.srv, "addressPool").Interface(), nil)
	pp := core.Fingerprint(core.Field(in.srv, "prefixPool").Interface(), nil)
	var lo []string
	for c := 1; c <= in.s.NClients; c++ {
		lo = append(lo, fmt.Sprintf("%d:%d,%d", c, get(in.lastNA, c), get(in.lastPD, c)))
	}
	return strings.Join(parts, ";") + "|" + ap + "|" + pp + "|" + strings.Join(lo, ";") + "|" + core.Fingerprint(in.offAge, nil) + core.Fingerprint(in.decl, nil)
}

func (in *inst) Probe() map[string]any {
	gotNA, gotPD := []int{}, []int{}
	seenNA, seenPD := map[int]bool{}, map[int]bool{}
	doneNA, donePD := false, false
	for i := 0; i < 40 && !(doneNA && donePD); i++ {
		k, na, pd, _ := in.send(in.msg(dhcpv6.MsgTypeSolicit, 500+i, "both", "ok"))
		if k != "ADVERTISE" {
			break
		}
		if na == -1 {
			doneNA = true
		} else if !doneNA {
			if seenNA[na] {
				gotNA = append(gotNA, -3)
				doneNA = true
			} else {
				seenNA[na] = true
				gotNA = append(gotNA, na)
			}
		}
		if pd == -1 {
			donePD = true
		} else if !donePD {
			if seenPD[pd] {
				gotPD = append(gotPD, -3)
				donePD = true
			} else {
				seenPD[pd] = true
				gotPD = append(gotPD, pd)
			}
		}
	}
	sort.Ints(gotNA)
	sort.Ints(gotPD)
	return map[string]any{"drain_na": gotNA, "drain_pd": gotPD}
}

func (in *inst) Close() {}
