//go:build verif

package dhcp6

import (
	"encoding/json"
	"fmt"
	"math/rand"
	"os"
	"testing"

	"verifharness/core"
)

type replayCase struct {
	ID     string         `json:"id"`
	System string         `json:"system"`
	Events []core.Event   `json:"events"`
	Cfg    map[string]any `json:"cfg"`
}
type replayFile struct {
	Cases []replayCase `json:"cases"`
}

type runStats struct {
	Systems     int                `json:"systems"`
	Nodes       int                `json:"nodes"`
	Edges       int                `json:"edges"`
	Chains      int                `json:"chains"`
	ChainEvents int                `json:"chain_events"`
	Closed      int                `json:"closed_systems"`
	Panics      []core.PanicRecord `json:"panics"`
	PerSystem   map[string][3]int  `json:"per_system"`
}

func systems() []*Sys {
	return []*Sys{
		NewSys(2, "2001:db8::/126", "2001:db8:100::/62", 64),
		NewSys(3, "2001:db8::/126", "2001:db8:100::/63", 64),
		NewSys(6, "2001:db8:5::/124", "2001:db8:200::/57", 60),
	}
}

func findSys(name string) *Sys {
	for _, s := range systems() {
		if s.Name() == name {
			return s
		}
	}
	return nil
}

func TestExplore(t *testing.T) {
	T = t
	out := core.OutDir()
	if rf := os.Getenv("VERIF_REPLAY"); rf != "" {
		replay(t, rf, out)
		return
	}
	tier, seed := core.Tier(), core.Seed()
	bundle := &core.Bundle{}
	st := runStats{PerSystem: map[string][3]int{}}
	type plan struct {
		s               *Sys
		depth, maxNodes int
	}
	all := systems()
	plans := []plan{{all[0], 5, 1500}}
	nchains, chainLen := 10, 150
	if tier == "thorough" {
		plans = []plan{{all[0], 7, 20000}, {all[1], 6, 20000}}
		nchains, chainLen = 150, 300
	}
	for _, p := range plans {
		tab, panics, err := core.Explore(p.s, core.ExploreOptions{MaxDepth: p.depth, MaxNodes: p.maxNodes, AdequacySample: 4, Seed: seed})
		if err != nil {
			t.Fatalf("explore %s: %v", p.s.Name(), err)
		}
		st.Panics = append(st.Panics, panics...)
		bundle.Systems = append(bundle.Systems, tab)
		ne := 0
		for _, es := range tab.Edges {
			ne += len(es)
		}
		c := 0
		if tab.Closed {
			c = 1
			st.Closed++
		}
		st.PerSystem[p.s.Name()] = [3]int{len(tab.Nodes), ne, c}
		st.Systems++
		st.Nodes += len(tab.Nodes)
		st.Edges += ne
	}
	rng := rand.New(rand.NewSource(seed))
	for _, s := range []*Sys{all[2], all[1]} {
		evs := s.Events()
		for c := 0; c < nchains; c++ {
			var seqv []core.Event
			for i := 0; i < chainLen; i++ {
				seqv = append(seqv, evs[rng.Intn(len(evs))])
			}
			tab, pr := core.Chain(s, fmt.Sprintf("%s#%d", s.Name(), c), seqv, true)
			if pr != nil {
				st.Panics = append(st.Panics, *pr)
				continue
			}
			bundle.Systems = append(bundle.Systems, tab)
			st.Chains++
			st.ChainEvents += len(seqv)
		}
	}
	if err := core.WriteJSON(out, "bundle.json", bundle); err != nil {
		t.Fatal(err)
	}
	if err := core.WriteJSON(out, "stats.json", st); err != nil {
		t.Fatal(err)
	}
}

func replay(t *testing.T, file, out string) {
	b, err := os.ReadFile(file)
	if err != nil {
		t.Fatal(err)
	}
	var rf replayFile
	if err := json.Unmarshal(b, &rf); err != nil {
		t.Fatal(err)
	}
	st := runStats{PerSystem: map[string][3]int{}}
	bundle := &core.Bundle{}
	for _, c := range rf.Cases {
		name := c.System
		for i := 0; i < len(name); i++ {
			if name[i] == '#' {
				name = name[:i]
				break
			}
		}
		s := findSys(name)
		if s == nil {
			t.Fatalf("unknown system %q", c.System)
		}
		tab, pr := core.Chain(s, name+"#"+c.ID, c.Events, true)
		if pr != nil {
			st.Panics = append(st.Panics, *pr)
			continue
		}
		bundle.Systems = append(bundle.Systems, tab)
		st.Chains++
	}
	if err := core.WriteJSON(out, "bundle.json", bundle); err != nil {
		t.Fatal(err)
	}
	core.WriteJSON(out, "stats.json", st)
}
