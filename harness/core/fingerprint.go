// Package core holds the implementation-agnostic parts of the conformance harness:
// a reflection-based full-state fingerprint, the breadth-first transition-table
// extractor, and the table / trace writers consumed by the TLA+ specifications.
package core

import (
	"fmt"
	"reflect"
	"sort"
	"strings"
	"unsafe"
)

// FPOptions controls Fingerprint.
type FPOptions struct {
	SkipFields map[string]bool // field names ignored everywhere (timestamps, counters that cannot influence behaviour)
	SkipTypes  []string        // type-string prefixes ignored (loggers, clients...)
}

var defaultSkipTypes = []string{
	"sync.", "*sync.", "atomic.", "*zap.", "zap.", "*zapcore.", "time.Time", "*time.Timer", "*time.Ticker",
	"context.", "*http.", "http.", "chan ", "<-chan ", "func(", "*rand.", "prometheus.", "*prometheus.",
}

// Fingerprint renders every reachable field of v (exported or not) canonically: maps are
// sorted by rendered key, pointers are followed (cycles cut), synchronisation primitives,
// loggers, channels, funcs and wall-clock values are skipped.
func Fingerprint(v any, opt *FPOptions) string {
	var sb strings.Builder
	f := &fper{sb: &sb, opt: opt, seen: map[uintptr]int{}}
	f.walk(reflect.ValueOf(v), 0)
	return sb.String()
}

type fper struct {
	sb   *strings.Builder
	opt  *FPOptions
	seen map[uintptr]int
}

func (f *fper) skipType(t reflect.Type) bool {
	s := t.String()
	for _, p := range defaultSkipTypes {
		if strings.HasPrefix(s, p) {
			return true
		}
	}
	if f.opt != nil {
		for _, p := range f.opt.SkipTypes {
			if strings.HasPrefix(s, p) {
				return true
			}
		}
	}
	return false
}

func (f *fper) walk(v reflect.Value, depth int) {
	if !v.IsValid() {
		f.sb.WriteString("nil")
		return
	}
	if depth > 40 {
		f.sb.WriteString("<deep>")
		return
	}
	t := v.Type()
	if f.skipType(t) {
		f.sb.WriteString("_")
		return
	}
	switch v.Kind() {
	case reflect.Bool:
		fmt.Fprintf(f.sb, "%t", v.Bool())
	case reflect.Int, reflect.Int8, reflect.Int16, reflect.Int32, reflect.Int64:
		fmt.Fprintf(f.sb, "%d", v.Int())
	case reflect.Uint, reflect.Uint8, reflect.Uint16, reflect.Uint32, reflect.Uint64, reflect.Uintptr:
		fmt.Fprintf(f.sb, "%d", v.Uint())
	case reflect.Float32, reflect.Float64:
		fmt.Fprintf(f.sb, "%g", v.Float())
	case reflect.String:
		fmt.Fprintf(f.sb, "%q", v.String())
	case reflect.Ptr:
		if v.IsNil() {
			f.sb.WriteString("nil")
			return
		}
		p := v.Pointer()
		if id, ok := f.seen[p]; ok {
			fmt.Fprintf(f.sb, "&#%d", id)
			return
		}
		f.seen[p] = len(f.seen)
		f.sb.WriteString("&")
		f.walk(v.Elem(), depth+1)
	case reflect.Interface:
		if v.IsNil() {
			f.sb.WriteString("nil")
			return
		}
		f.walk(v.Elem(), depth+1)
	case reflect.Struct:
		f.sb.WriteString(t.Name())
		f.sb.WriteString("{")
		for i := 0; i < v.NumField(); i++ {
			ft := t.Field(i)
			if f.opt != nil && f.opt.SkipFields[ft.Name] {
				continue
			}
			if f.skipType(ft.Type) {
				continue
			}
			f.sb.WriteString(ft.Name)
			f.sb.WriteString(":")
			f.walk(v.Field(i), depth+1)
			f.sb.WriteString(",")
		}
		f.sb.WriteString("}")
	case reflect.Slice:
		if v.IsNil() {
			f.sb.WriteString("[]")
			return
		}
		fallthrough
	case reflect.Array:
		if t.Elem().Kind() == reflect.Uint8 {
			f.sb.WriteString("x")
			for i := 0; i < v.Len(); i++ {
				fmt.Fprintf(f.sb, "%02x", v.Index(i).Uint())
			}
			return
		}
		f.sb.WriteString("[")
		for i := 0; i < v.Len(); i++ {
			f.walk(v.Index(i), depth+1)
			f.sb.WriteString(",")
		}
		f.sb.WriteString("]")
	case reflect.Map:
		if v.IsNil() {
			f.sb.WriteString("map{}")
			return
		}
		type kv struct {
			k string
			v reflect.Value
		}
		var items []kv
		it := v.MapRange()
		for it.Next() {
			var kb strings.Builder
			kf := &fper{sb: &kb, opt: f.opt, seen: map[uintptr]int{}}
			kf.walk(it.Key(), depth+1)
			items = append(items, kv{kb.String(), it.Value()})
		}
		sort.Slice(items, func(i, j int) bool { return items[i].k < items[j].k })
		f.sb.WriteString("map{")
		for _, it := range items {
			f.sb.WriteString(it.k)
			f.sb.WriteString("=>")
			f.walk(it.v, depth+1) // values walked in canonical key order so back-reference ids are stable
			f.sb.WriteString(",")
		}
		f.sb.WriteString("}")
	default:
		f.sb.WriteString("_")
	}
}

// Field returns the (possibly unexported) field `name` of the struct that obj points to,
// as a readable reflect.Value. obj must be a pointer to a struct.
func Field(obj any, name string) reflect.Value {
	v := reflect.ValueOf(obj)
	for v.Kind() == reflect.Ptr || v.Kind() == reflect.Interface {
		v = v.Elem()
	}
	fv := v.FieldByName(name)
	if !fv.IsValid() {
		panic("core.Field: no field " + name + " in " + v.Type().String())
	}
	if fv.CanAddr() {
		return reflect.NewAt(fv.Type(), unsafe.Pointer(fv.UnsafeAddr())).Elem()
	}
	return fv
}

// FieldOf is Field applied to a reflect.Value of a struct (or pointer to struct).
func FieldOf(v reflect.Value, name string) reflect.Value {
	for v.Kind() == reflect.Ptr || v.Kind() == reflect.Interface {
		v = v.Elem()
	}
	fv := v.FieldByName(name)
	if !fv.IsValid() {
		panic("core.FieldOf: no field " + name + " in " + v.Type().String())
	}
	if fv.CanAddr() {
		return reflect.NewAt(fv.Type(), unsafe.Pointer(fv.UnsafeAddr())).Elem()
	}
	return fv
}
