package core

import (
	"encoding/json"
	"fmt"
	"math/rand"
	"os"
	"path/filepath"
	"reflect"
	"runtime"
	"sort"
	"strconv"
	"sync"
)

// Event is one element of a system's alphabet (must contain "op").
type Event map[string]any

// System describes one implementation object under exploration.
type System interface {
	Name() string
	Config() map[string]any // constants handed to the specification
	Events() []Event        // the finite alphabet
	New() Instance          // a fresh implementation object
}

// Wrapper is optionally implemented by systems whose instances must live inside a
// special execution context (e.g. a testing/synctest bubble). Every replay is run
// inside Wrap.
type Wrapper interface {
	Wrap(f func())
}

// Instance is one live implementation object.
type Instance interface {
	Apply(ev Event) map[string]any // execute ev on the real code; result fields of the edge
	Observe() map[string]any       // non-destructive abstract projection of the state
	Fingerprint() string           // everything that can influence future behaviour
	Probe() map[string]any         // destructive probes, run on a dedicated replay (may be nil)
	Close()
}

// Edge is one observed implementation transition.
type Edge struct {
	ID int            `json:"id"`
	To int            `json:"to"`
	Ev map[string]any `json:"ev"`
}

// Table is the extracted transition system of one System. Node ids are 1-based.
type Table struct {
	Name   string           `json:"name"`
	Cfg    map[string]any   `json:"cfg"`
	Init   int              `json:"init"`
	Nodes  []map[string]any `json:"nodes"`
	Edges  [][]Edge         `json:"edges"`
	Closed bool             `json:"closed"` // true: fixed point reached (no node left unexpanded)
	Depth  int              `json:"depth"`
	// Adequacy lists what the adequacy checks of the exploration found (two paths to one fingerprint that differ in
	// an observation or in what follows): the implementation is non-deterministic or the fingerprint too coarse.
	// The table is still emitted; the driver reports reproduced violations and otherwise treats this as an
	// infrastructure failure.
	Adequacy []string `json:"adequacy,omitempty"`
	paths    [][]Event
	edgeSrc  map[int]int
	edgeEv   map[int]Event
}

func (t *Table) inadequate(msg string) {
	if len(t.Adequacy) < 5 {
		if len(msg) > 3000 {
			msg = msg[:3000]
		}
		t.Adequacy = append(t.Adequacy, msg)
	}
}

// PathTo returns the event sequence leading to the source of edge id, followed by the edge's own event.
func (t *Table) PathOfEdge(id int) []Event {
	src, ok := t.edgeSrc[id]
	if !ok {
		return nil
	}
	p := append([]Event{}, t.paths[src-1]...)
	return append(p, t.edgeEv[id])
}

func wrap(sys System, f func()) {
	if w, ok := sys.(Wrapper); ok {
		w.Wrap(f)
		return
	}
	f()
}

type expandResult struct {
	res   map[string]any
	obs   map[string]any
	probe map[string]any
	fp    string
	err   any
}

func runPath(sys System, path []Event, last Event, wantProbe bool) (r expandResult) {
	wrap(sys, func() {
		defer func() {
			if e := recover(); e != nil {
				buf := make([]byte, 4096)
				n := runtime.Stack(buf, false)
				r.err = fmt.Sprintf("%v\n%s", e, buf[:n])
			}
		}()
		inst := sys.New()
		defer inst.Close()
		for _, e := range path {
			inst.Apply(e)
		}
		if last != nil {
			r.res = inst.Apply(last)
		}
		r.obs = inst.Observe()
		r.fp = inst.Fingerprint()
		if wantProbe {
			r.probe = inst.Probe()
		}
	})
	return
}

// ExploreOptions bounds the breadth-first exploration.
type ExploreOptions struct {
	MaxDepth int
	MaxNodes int
	Workers  int
	// AdequacySample: number of re-reached nodes whose behaviour is re-derived via the
	// alternative path and compared (fingerprint adequacy, DESIGN 3.4).
	AdequacySample int
	Seed           int64
}

// PanicRecord describes an implementation panic during exploration.
type PanicRecord struct {
	System string         `json:"system"`
	Cfg    map[string]any `json:"cfg,omitempty"` // the system's configuration (a panicking chain has no table to take it from)
	Path   []Event        `json:"path"`
	Msg    string         `json:"msg"`
}

// Explore computes the closure of sys' behaviour over its alphabet.
func Explore(sys System, opt ExploreOptions) (*Table, []PanicRecord, error) {
	if opt.Workers <= 0 {
		opt.Workers = runtime.NumCPU()
	}
	t := &Table{Name: sys.Name(), Cfg: sys.Config(), Init: 1, edgeSrc: map[int]int{}, edgeEv: map[int]Event{}}
	var panics []PanicRecord
	events := sys.Events()
	index := map[string]int{}
	r0 := runPath(sys, nil, nil, true)
	if r0.err != nil {
		return nil, nil, fmt.Errorf("%s: initial state: %v", sys.Name(), r0.err)
	}
	addNode := func(r expandResult, path []Event) int {
		obs := r.obs
		if obs == nil {
			obs = map[string]any{}
		}
		index[r.fp] = len(t.Nodes) + 1
		t.Nodes = append(t.Nodes, obs)
		t.Edges = append(t.Edges, []Edge{})
		t.paths = append(t.paths, path)
		return len(t.Nodes)
	}
	mergeProbe := func(obs, probe map[string]any) map[string]any {
		for k, v := range probe {
			obs[k] = v
		}
		return obs
	}
	r0.obs = mergeProbe(r0.obs, r0.probe)
	addNode(r0, nil)
	t.probeKeys(1, r0.probe)
	frontier := []int{1}
	edgeID := 0
	type altCheck struct {
		node int
		path []Event
	}
	var alts []altCheck
	rng := rand.New(rand.NewSource(opt.Seed))
	depth := 0
	for len(frontier) > 0 && (opt.MaxDepth <= 0 || depth < opt.MaxDepth) {
		depth++
		type task struct{ n, e int }
		var tasks []task
		for _, n := range frontier {
			for e := range events {
				tasks = append(tasks, task{n, e})
			}
		}
		results := make([]expandResult, len(tasks))
		var wg sync.WaitGroup
		ch := make(chan int)
		for w := 0; w < opt.Workers; w++ {
			wg.Add(1)
			go func() {
				defer wg.Done()
				for i := range ch {
					tk := tasks[i]
					results[i] = runPath(sys, t.paths[tk.n-1], events[tk.e], false)
				}
			}()
		}
		for i := range tasks {
			ch <- i
		}
		close(ch)
		wg.Wait()
		var next []int
		var newNodes []int
		for i, tk := range tasks {
			r := results[i]
			p := append(append([]Event{}, t.paths[tk.n-1]...), events[tk.e])
			if r.err != nil {
				panics = append(panics, PanicRecord{System: sys.Name(), Cfg: sys.Config(), Path: p, Msg: fmt.Sprint(r.err)})
				continue
			}
			to, known := index[r.fp]
			if !known {
				if opt.MaxNodes > 0 && len(t.Nodes) >= opt.MaxNodes {
					continue // bound hit: the edge is dropped, table not closed
				}
				to = addNode(r, p)
				next = append(next, to)
				newNodes = append(newNodes, to)
			} else {
				if !reflect.DeepEqual(normalize(t.stripProbeMap(t.Nodes[to-1])), normalize(t.stripProbeMap(r.obs))) {
					t.inadequate(fmt.Sprintf("%s: fingerprint too coarse: node %d observed %v via %v but %v via %v",
						sys.Name(), to, t.Nodes[to-1], t.paths[to-1], r.obs, p))
				}
				if len(alts) < opt.AdequacySample*4 && rng.Intn(8) == 0 {
					alts = append(alts, altCheck{to, p})
				}
			}
			edgeID++
			ev := map[string]any{}
			for k, v := range events[tk.e] {
				ev[k] = v
			}
			for k, v := range r.res {
				ev[k] = v
			}
			t.Edges[tk.n-1] = append(t.Edges[tk.n-1], Edge{ID: edgeID, To: to, Ev: ev})
			t.edgeSrc[edgeID] = tk.n
			t.edgeEv[edgeID] = events[tk.e]
		}
		// probes for new nodes (destructive, dedicated replay)
		probes := make([]expandResult, len(newNodes))
		ch2 := make(chan int)
		var wg2 sync.WaitGroup
		for w := 0; w < opt.Workers; w++ {
			wg2.Add(1)
			go func() {
				defer wg2.Done()
				for i := range ch2 {
					probes[i] = runPath(sys, t.paths[newNodes[i]-1], nil, true)
				}
			}()
		}
		for i := range newNodes {
			ch2 <- i
		}
		close(ch2)
		wg2.Wait()
		for i, n := range newNodes {
			if probes[i].err != nil {
				panics = append(panics, PanicRecord{System: sys.Name(), Cfg: sys.Config(), Path: t.paths[n-1], Msg: "probe: " + fmt.Sprint(probes[i].err)})
				continue
			}
			t.Nodes[n-1] = mergeProbe(t.Nodes[n-1], probes[i].probe)
			t.probeKeys(n, probes[i].probe)
		}
		frontier = next
	}
	t.Closed = len(frontier) == 0 && !(opt.MaxNodes > 0 && len(t.Nodes) >= opt.MaxNodes)
	t.Depth = depth
	// fingerprint adequacy: behaviour from an alternative path must coincide
	rng.Shuffle(len(alts), func(i, j int) { alts[i], alts[j] = alts[j], alts[i] })
	if len(alts) > opt.AdequacySample {
		alts = alts[:opt.AdequacySample]
	}
	for _, a := range alts {
		for _, e := range events {
			r1 := runPath(sys, t.paths[a.node-1], e, false)
			r2 := runPath(sys, a.path, e, false)
			if r1.err != nil || r2.err != nil {
				continue
			}
			if r1.fp != r2.fp || !reflect.DeepEqual(normalize(r1.res), normalize(r2.res)) {
				t.inadequate(fmt.Sprintf("%s: fingerprint too coarse at node %d: event %v gives %v via %v but %v via %v\nfp1=%s\nfp2=%s",
					sys.Name(), a.node, e, r1.res, t.paths[a.node-1], r2.res, a.path, r1.fp, r2.fp))
			}
		}
	}
	return t, panics, nil
}

var probeKeySet sync.Map

func (t *Table) probeKeys(n int, probe map[string]any) {
	for k := range probe {
		probeKeySet.Store(t.Name+"\x00"+k, true)
	}
}

func (t *Table) stripProbeMap(m map[string]any) map[string]any {
	out := map[string]any{}
	for k, v := range m {
		if _, isProbe := probeKeySet.Load(t.Name + "\x00" + k); isProbe {
			continue
		}
		out[k] = v
	}
	return out
}

func normalize(m map[string]any) any {
	b, _ := json.Marshal(m)
	var out any
	json.Unmarshal(b, &out)
	return out
}

// Chain executes one event sequence and returns it as a linear table (trace validation
// uses the same specification as table checking).
func Chain(sys System, name string, evs []Event, probeAtEnd bool) (*Table, *PanicRecord) {
	t := &Table{Name: name, Cfg: sys.Config(), Init: 1, edgeSrc: map[int]int{}, edgeEv: map[int]Event{}}
	var pr *PanicRecord
	wrap(sys, func() {
		var done []Event
		defer func() {
			if e := recover(); e != nil {
				buf := make([]byte, 4096)
				n := runtime.Stack(buf, false)
				pr = &PanicRecord{System: name, Cfg: sys.Config(), Path: done, Msg: fmt.Sprintf("%v\n%s", e, buf[:n])}
			}
		}()
		inst := sys.New()
		defer inst.Close()
		t.Nodes = append(t.Nodes, inst.Observe())
		t.Edges = append(t.Edges, []Edge{})
		t.paths = append(t.paths, nil)
		for i, e := range evs {
			done = append(done, e)
			res := inst.Apply(e)
			ev := map[string]any{}
			for k, v := range e {
				ev[k] = v
			}
			for k, v := range res {
				ev[k] = v
			}
			t.Nodes = append(t.Nodes, inst.Observe())
			t.Edges = append(t.Edges, []Edge{})
			t.Edges[i] = []Edge{{ID: i + 1, To: i + 2, Ev: ev}}
			t.paths = append(t.paths, append([]Event{}, done...))
			t.edgeSrc[i+1] = i + 1
			t.edgeEv[i+1] = e
		}
		if probeAtEnd {
			last := len(t.Nodes) - 1
			for k, v := range inst.Probe() {
				t.Nodes[last][k] = v
			}
		}
	})
	// nodes of a chain carry no probe results except the last; give every node the same keys
	if len(t.Nodes) > 0 {
		keys := map[string]any{}
		for _, n := range t.Nodes {
			for k, v := range n {
				if _, ok := keys[k]; !ok {
					keys[k] = zeroLike(v)
				}
			}
		}
		for _, n := range t.Nodes {
			for k, z := range keys {
				if _, ok := n[k]; !ok {
					n[k] = z
				}
			}
		}
	}
	return t, pr
}

func zeroLike(v any) any {
	switch v.(type) {
	case int, int64, float64, uint64:
		return -1
	case bool:
		return false
	case string:
		return ""
	}
	return v
}

// Bundle is what one explorer run hands to TLC.
type Bundle struct {
	Systems []*Table `json:"systems"`
}

// WriteJSON writes v to dir/name atomically.
func WriteJSON(dir, name string, v any) error {
	if err := os.MkdirAll(dir, 0o755); err != nil {
		return err
	}
	b, err := json.Marshal(v)
	if err != nil {
		return err
	}
	tmp := filepath.Join(dir, name+".tmp")
	if err := os.WriteFile(tmp, b, 0o644); err != nil {
		return err
	}
	return os.Rename(tmp, filepath.Join(dir, name))
}

// Env helpers -------------------------------------------------------------------------

func OutDir() string {
	d := os.Getenv("VERIF_OUT")
	if d == "" {
		d = "out"
	}
	os.MkdirAll(d, 0o755)
	return d
}

func Tier() string {
	if os.Getenv("VERIF_TIER") == "thorough" {
		return "thorough"
	}
	return "quick"
}

func Seed() int64 {
	s, err := strconv.ParseInt(os.Getenv("VERIF_SEED"), 10, 64)
	if err != nil {
		return 1
	}
	return s
}

// SortedKeys returns the keys of m in sorted order.
func SortedKeys[V any](m map[string]V) []string {
	ks := make([]string, 0, len(m))
	for k := range m {
		ks = append(ks, k)
	}
	sort.Strings(ks)
	return ks
}

// PathsFile maps "system\x00edgeid" to event paths so the driver can build replay files.
type PathsFile struct {
	Systems map[string]map[string][]Event `json:"systems"`
}
