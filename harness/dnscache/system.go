//go:build verif

// Package dnscache binds the DnsCache contract (specs/DnsCache) to the real dns.Cache and
// dns.Resolver of /repo. Time is the virtual clock of a testing/synctest bubble (every replay
// its own bubble, bubbles strictly one after the other); the resolver's upstreams are scripted
// UDP servers on loopback that live outside the bubbles (upstream.go), so Resolve runs its own
// Dial / Write / Read unmodified. The harness executes, observes and projects; it judges nothing.
package dnscache

import (
	"container/list"
	"context"
	"fmt"
	"math"
	"net"
	"reflect"
	"runtime"
	"runtime/debug"
	"sort"
	"strings"
	"sync"
	"testing"
	"testing/synctest"
	"time"

	"github.com/codelaboratoryltd/bng/pkg/dns"
	"go.uber.org/zap"

	"verifharness/core"
)

// One unit of the specification's time = 20 s of virtual time. TTLs, the TTL bounds and the
// resolver's one-minute cleanup ticker (3 units) are all whole units; the harness advances time by
// whole units only, so every comparison of the code sees either equal instants or instants a whole
// unit apart (equal instants are "either" in the contract).
const (
	UnitSec  = 20
	Unit     = UnitSec * time.Second
	MaxUp    = 3
	PortalIP = "10.8.8.8"
)

var theT *testing.T

var harnessErrs struct {
	sync.Mutex
	l []string
}

func harnessFail(msg string) {
	harnessErrs.Lock()
	if len(harnessErrs.l) < 20 {
		harnessErrs.l = append(harnessErrs.l, msg)
	}
	harnessErrs.Unlock()
}

// go1.25.0: the first WaitGroup.Add inside a bubble (Resolver.Start) allocates a "bubble special"
// without holding the allocator's lock (see harness/failover). Bubbles of this harness never run
// concurrently; the collector is switched off and run between bubbles.
func init() { debug.SetGCPercent(-1) }

var wraps int

// DSystem is one configuration.
type DSystem struct {
	name     string
	Kind     string // "cache": dns.Cache alone; "res": dns.Resolver with scripted upstreams
	Cap      int    // capacity
	Min      int    // TTL bounds and negative TTL, in units
	Max      int
	Neg      int
	NK       int      // keys (cache) / questions (res)
	NC       int      // clients (res)
	NUp      int      // upstreams (res)
	Types    []int    // res: question -> query type (default A)
	Names    []int    // res: question -> name index (default: the question's own number)
	Pairs    [][2]int // (data version, TTL in units) offered by set / the ok scripts
	Scripts  []string // res: upstream scripts in the alphabet
	Wall     bool     // res: the last client can be put into / taken out of the walled garden
	Rule     bool     // res: name 1 can be blocked / unblocked
	Loop     bool     // res: Resolver.Start (the real cleanup ticker runs)
	FFwd     bool     // res: "ffwd" in the alphabet: the round-robin counter as it is after 2^31-1 upstream queries
	NegOp    bool     // cache: SetNegative in the alphabet
	DelOps   bool     // cache: Delete / Clear / Cleanup in the alphabet
	KeyCheck bool     // the set of keys held is compared with the ghost (off where two questions may share a key)
	MaxDepth int
}

func (s *DSystem) Name() string { return s.name }

func (s *DSystem) qtype(q int) int {
	if q-1 < len(s.Types) {
		return s.Types[q-1]
	}
	return int(dns.TypeA)
}

func (s *DSystem) qname(q int) int {
	if q-1 < len(s.Names) {
		return s.Names[q-1]
	}
	return q
}

func (s *DSystem) Config() map[string]any {
	qn, qa, ty := []int{}, []bool{}, []int{}
	for q := 1; q <= s.NK; q++ {
		qn = append(qn, s.qname(q))
		t := s.qtype(q)
		qa = append(qa, t == int(dns.TypeA) || t == int(dns.TypeAAAA))
		ty = append(ty, t)
	}
	pairs := [][]int{}
	for _, p := range s.Pairs {
		pairs = append(pairs, []int{p[0], p[1]})
	}
	return map[string]any{"impl": s.name, "kind": s.Kind, "cap": s.Cap, "min": s.Min, "max": s.Max, "neg": s.Neg, "unit": UnitSec,
		"nk": s.NK, "nc": s.NC, "nup": s.NUp, "qname": qn, "qaddr": qa, "keycheck": s.KeyCheck,
		"types": ty, "pairs": pairs, "scripts": append([]string{}, s.Scripts...), "wall": s.Wall, "rule": s.Rule, "loop": s.Loop, "ffwd": s.FFwd,
		"negop": s.NegOp, "delops": s.DelOps, "nsubs": 0}
}

func toInt(v any) int {
	switch x := v.(type) {
	case int:
		return x
	case int64:
		return int(x)
	case float64:
		return int(x)
	}
	return 0
}

func toBool(v any) bool { b, _ := v.(bool); return b }

// fromCfg rebuilds a system from the cfg of a replay case (design counterexamples carry their own constants).
func fromCfg(name string, cfg map[string]any) *DSystem {
	if cfg == nil || cfg["kind"] == nil || cfg["pairs"] == nil {
		return nil
	}
	s := &DSystem{name: name, Kind: fmt.Sprint(cfg["kind"]), Cap: toInt(cfg["cap"]), Min: toInt(cfg["min"]), Max: toInt(cfg["max"]), Neg: toInt(cfg["neg"]),
		NK: toInt(cfg["nk"]), NC: toInt(cfg["nc"]), NUp: toInt(cfg["nup"]), Wall: toBool(cfg["wall"]), Rule: toBool(cfg["rule"]), Loop: toBool(cfg["loop"]), FFwd: toBool(cfg["ffwd"]),
		NegOp: toBool(cfg["negop"]), DelOps: toBool(cfg["delops"]), KeyCheck: toBool(cfg["keycheck"])}
	if l, ok := cfg["types"].([]any); ok {
		for _, t := range l {
			s.Types = append(s.Types, toInt(t))
		}
	}
	if l, ok := cfg["qname"].([]any); ok {
		for _, t := range l {
			s.Names = append(s.Names, toInt(t))
		}
	}
	if l, ok := cfg["pairs"].([]any); ok {
		for _, p := range l {
			if pp, ok := p.([]any); ok && len(pp) == 2 {
				s.Pairs = append(s.Pairs, [2]int{toInt(pp[0]), toInt(pp[1])})
			}
		}
	}
	if l, ok := cfg["scripts"].([]any); ok {
		for _, x := range l {
			s.Scripts = append(s.Scripts, fmt.Sprint(x))
		}
	}
	return s
}

func mk(op string, k, c, ttl, val int, scr string, on bool) core.Event {
	return core.Event{"op": op, "k": k, "c": c, "ttl": ttl, "val": val, "s": scr, "on": on}
}

func usesPair(scr string) bool { return scr == "ok" || scr == "spoofid" || scr == "spoofq" || scr == "nxc" }

func (s *DSystem) Events() []core.Event {
	var evs []core.Event
	if s.Kind == "cache" {
		for k := 1; k <= s.NK; k++ {
			for _, p := range s.Pairs {
				evs = append(evs, mk("set", k, 0, p[1], p[0], "", false))
			}
			if s.NegOp {
				evs = append(evs, mk("neg", k, 0, 0, 0, "", false))
			}
			evs = append(evs, mk("get", k, 0, 0, 0, "", false))
			if s.DelOps {
				evs = append(evs, mk("del", k, 0, 0, 0, "", false))
			}
		}
		if s.DelOps {
			evs = append(evs, mk("clear", 0, 0, 0, 0, "", false), mk("cleanup", 0, 0, 0, 0, "", false))
		}
		evs = append(evs, mk("adv", 0, 0, 0, 0, "", false))
		return evs
	}
	for c := 1; c <= s.NC; c++ {
		for k := 1; k <= s.NK; k++ {
			// records of types the resolver does not parse reach the client without their data: one data version only
			addr := s.qtype(k) == int(dns.TypeA) || s.qtype(k) == int(dns.TypeAAAA)
			ver := func(v int) int {
				if addr {
					return v
				}
				return 1
			}
			for _, scr := range s.Scripts {
				if scr == "ok" {
					for _, p := range s.Pairs {
						evs = append(evs, mk("q", k, c, p[1], ver(p[0]), scr, false))
					}
				} else if usesPair(scr) {
					evs = append(evs, mk("q", k, c, s.Pairs[0][1], ver(s.Pairs[0][0]), scr, false))
				} else {
					evs = append(evs, mk("q", k, c, 0, 0, scr, false))
				}
			}
		}
	}
	if s.Wall {
		evs = append(evs, mk("wall", 0, s.NC, 0, 0, "", true), mk("wall", 0, s.NC, 0, 0, "", false))
	}
	if s.Rule {
		evs = append(evs, mk("rule", 1, 0, 0, 0, "", true), mk("rule", 1, 0, 0, 0, "", false))
	}
	if s.FFwd {
		evs = append(evs, mk("ffwd", 0, 0, 0, 0, "", false))
	}
	evs = append(evs, mk("adv", 0, 0, 0, 0, "", false))
	return evs
}

func (s *DSystem) Wrap(f func()) {
	wraps++
	if wraps%2000 == 0 {
		runtime.GC()
	}
	synctest.Test(theT, func(t *testing.T) { f() })
}

// --- instance --------------------------------------------------------------------------------

type inst struct {
	s      *DSystem
	cache  *dns.Cache
	res    *dns.Resolver
	keyIDs map[string][]int // cache key string -> keys / questions it stands for
	keyOf  map[int]string
	rules  map[int]bool
	owner  map[string]int // cache key string -> the key / question whose entry it currently holds (the one that stored last)
	t0     time.Time
}

func clientIP(c int) net.IP { return net.IPv4(10, 1, 1, byte(c)) }

func (s *DSystem) New() core.Instance {
	in := &inst{s: s, keyIDs: map[string][]int{}, keyOf: map[int]string{}, rules: map[int]bool{}, owner: map[string]int{}, t0: time.Now()}
	d := func(u int) time.Duration { return time.Duration(u) * Unit }
	if s.Kind == "cache" {
		in.cache = dns.NewCache(s.Cap, d(s.Min), d(s.Max), d(s.Neg))
		for k := 1; k <= s.NK; k++ {
			key := fmt.Sprintf("k%d", k)
			in.keyOf[k] = key
			in.keyIDs[key] = append(in.keyIDs[key], k)
		}
		return in
	}
	cfg := dns.DefaultConfig()
	cfg.Upstreams = nil
	for i := 1; i <= s.NUp; i++ {
		cfg.Upstreams = append(cfg.Upstreams, dns.Upstream{Address: upstreamAddr(i), Protocol: "udp", Timeout: 30 * time.Second, Weight: 1})
	}
	cfg.CacheEnabled = true
	cfg.CacheSize = s.Cap
	cfg.CacheMinTTL, cfg.CacheMaxTTL, cfg.CacheNegativeTTL = d(s.Min), d(s.Max), d(s.Neg)
	cfg.RateLimitEnabled = false
	cfg.DNS64Enabled = false
	cfg.WalledGardenEnabled = true
	cfg.WalledGardenRedirectIP = net.ParseIP(PortalIP)
	in.res = dns.NewResolver(cfg, zap.NewNop())
	in.cache = core.Field(in.res, "cache").Interface().(*dns.Cache)
	for q := 1; q <= s.NK; q++ {
		key := dns.CacheKey(qName(s.qname(q)), uint16(s.qtype(q)), 1)
		in.keyOf[q] = key
		in.keyIDs[key] = append(in.keyIDs[key], q)
	}
	if s.Loop {
		if err := in.res.Start(); err != nil {
			panic(err)
		}
		synctest.Wait() // the cleanup goroutine has created its ticker: it ticks at whole minutes from now
	}
	return in
}

func (in *inst) Close() {
	if in.res != nil && in.s.Loop {
		in.res.Stop()
	}
}

type held struct {
	key string
	ent *dns.CacheEntry
}

// entries reads the cache's LRU list (most recently used first) by reflection.
func (in *inst) entries() []held {
	l := core.Field(in.cache, "lru").Interface().(*list.List)
	var out []held
	for e := l.Front(); e != nil; e = e.Next() {
		ent := core.FieldOf(reflect.ValueOf(e.Value), "entry").Interface().(*dns.CacheEntry)
		out = append(out, held{ent.Key, ent})
	}
	return out
}

func (in *inst) heldKeys() map[string]*dns.CacheEntry {
	m := map[string]*dns.CacheEntry{}
	for _, h := range in.entries() {
		m[h.key] = h.ent
	}
	return m
}

// ids names the entries held: an entry belongs to the key / question that stored it (two questions may share a key string)
func (in *inst) ids(keys map[string]*dns.CacheEntry) []int {
	out := []int{}
	for k := range keys {
		if _, ok := in.keyIDs[k]; !ok {
			harnessFail("the cache holds a key the harness cannot name: " + fmt.Sprintf("%q", k))
			continue
		}
		o, ok := in.owner[k]
		if !ok {
			harnessFail("the cache holds an entry nobody stored: " + fmt.Sprintf("%q", k))
			continue
		}
		out = append(out, o)
	}
	sort.Ints(out)
	return out
}

// decode projects answer records: data version (0 none, 7 CNAME, 8 portal, 9 poison, 99 mixed), largest TTL in seconds
func (in *inst) decode(q int, recs []dns.Record) (val, ttl int) {
	for i, r := range recs {
		v := 0
		switch {
		case r.Type == dns.TypeA && r.IPv4 != nil:
			ip := r.IPv4.To4()
			switch {
			case ip == nil:
				v = 98
			case ip.Equal(net.ParseIP(PortalIP)):
				v = 8
			case ip[0] == 10 && ip[1] == 66:
				v = 9
			case ip[0] == 10 && ip[1] == 9 && int(ip[2]) == in.s.qname(q) && int(r.Type) == in.s.qtype(q):
				v = int(ip[3])
			default:
				v = 97 // data of another question
			}
		case r.Type == dns.TypeAAAA && r.IPv6 != nil:
			ip := r.IPv6.To16()
			switch {
			case ip.Equal(net.ParseIP(PortalIP).To16()):
				v = 8
			case ip != nil && ip[0] == 0x20 && int(ip[14]) == in.s.qname(q) && int(r.Type) == in.s.qtype(q):
				v = int(ip[15])
			default:
				v = 97
			}
		case r.Type == dns.TypeCNAME:
			v = 7
		case int(r.Type) == in.s.qtype(q) && nameIndex(r.Name) == in.s.qname(q):
			v = 1 // a record of a type the resolver does not parse: only name and type can be compared
		default:
			v = 97
		}
		if i > 0 && v != val {
			v = 99
		}
		val = v
		if int(r.TTL) > ttl {
			ttl = int(r.TTL)
		}
	}
	return
}

func (in *inst) Apply(ev core.Event) map[string]any {
	op := fmt.Sprint(ev["op"])
	k, c, ttl, val := toInt(ev["k"]), toInt(ev["c"]), toInt(ev["ttl"]), toInt(ev["val"])
	scr := fmt.Sprint(ev["s"])
	on := toBool(ev["on"])
	r := map[string]any{"hit": false, "err": false, "rc": 0, "aval": 0, "attl": 0, "ups": []int{}, "gone": []int{}, "stored": false, "n": 0,
		"dh": 0, "dm": 0, "de": 0, "dr": 0, "dc": 0, "df": 0, "db": 0, "dx": 0, "dt": 0}
	before := in.heldKeys()
	cs0 := in.cache.Stats()
	var rs0 dns.ServerStats
	if in.res != nil {
		rs0 = in.res.Stats()
	}
	switch op {
	case "set":
		now := time.Now()
		in.cache.Set(&dns.CacheEntry{Key: in.keyOf[k], CreatedAt: now, ExpiresAt: now.Add(time.Duration(ttl) * Unit),
			Records: []dns.Record{{Name: in.keyOf[k], Type: dns.TypeA, Class: 1, TTL: uint32(ttl * UnitSec), IPv4: net.IPv4(10, 9, byte(k), byte(val)).To4()}}})
	case "neg":
		in.cache.SetNegative(in.keyOf[k])
	case "get":
		ent, ok := in.cache.Get(in.keyOf[k])
		r["hit"] = ok
		if ok && ent != nil {
			if ent.Negative {
				r["rc"] = 3
			}
			if len(ent.Records) > 0 && ent.Records[0].IPv4 != nil && ent.Records[0].Name == in.keyOf[k] {
				r["aval"] = int(ent.Records[0].IPv4.To4()[3])
			} else if len(ent.Records) > 0 {
				r["aval"] = 97
			}
		}
	case "del":
		in.cache.Delete(in.keyOf[k])
	case "clear":
		in.cache.Clear()
	case "cleanup":
		r["n"] = in.cache.Cleanup()
	case "adv":
		time.Sleep(Unit)
		synctest.Wait()
		r["dt"] = 1
	case "wall":
		if on {
			in.res.AddWalledGardenClient(&dns.WalledGardenClient{IP: clientIP(c), SubscriberID: fmt.Sprintf("sub-%d", c), Reason: "verif"})
		} else {
			in.res.RemoveWalledGardenClient(clientIP(c))
		}
	case "rule":
		// a rule for a name is added only while there is none (two equal rules need two removals)
		if on && !in.rules[k] {
			in.res.AddInterceptRule(&dns.InterceptRule{Domain: qName(k), Exact: true, Action: dns.ActionBlock, BlockReason: "verif"})
			in.rules[k] = true
		} else if !on {
			in.res.RemoveInterceptRule(qName(k))
			delete(in.rules, k)
		}
	case "ffwd":
		// fast-forward: Resolver.upstreamIndex (int32, incremented per upstream query, never reset) as it stands after
		// 2^31-1 upstream queries - the harness cannot make them one by one
		core.Field(in.res, "upstreamIndex").SetInt(math.MaxInt32)
	case "q":
		install(scr, val, ttl*UnitSec)
		resp, err := in.res.Resolve(context.Background(), &dns.Query{Name: qName(in.s.qname(k)), Type: uint16(in.s.qtype(k)), Class: 1, Source: clientIP(c)})
		ups := asked()
		settle(len(ups))
		r["ups"] = ups
		install("", 0, 0)
		if err != nil || resp == nil {
			r["err"] = true
		} else {
			r["hit"] = resp.FromCache
			r["rc"] = resp.Rcode
			r["aval"], r["attl"] = in.decode(k, resp.Answers)
		}
	default:
		harnessFail("unknown op " + op)
	}
	after := in.heldKeys()
	gone := []int{}
	for key := range before {
		if after[key] == nil {
			gone = append(gone, in.owner[key])
			delete(in.owner, key)
		}
	}
	if k > 0 && op != "rule" {
		// an entry object that was not there before the call was stored by it, for the key / question of the call
		key := in.keyOf[k]
		if after[key] != nil && after[key] != before[key] {
			if o, had := in.owner[key]; had && o != k && before[key] != nil {
				gone = append(gone, o) // the entry of the other question with the same key string was overwritten
			}
			in.owner[key] = k
		}
		r["stored"] = after[key] != nil && in.owner[key] == k
	}
	for key := range after {
		if _, ok := in.owner[key]; !ok {
			harnessFail(fmt.Sprintf("op %s left an entry %q in the cache that the call cannot have stored", op, key))
		}
	}
	sort.Ints(gone)
	r["gone"] = gone
	cs1 := in.cache.Stats()
	r["dh"], r["dm"], r["de"] = int(cs1.Hits-cs0.Hits), int(cs1.Misses-cs0.Misses), int(cs1.Evictions-cs0.Evictions)
	if in.res != nil {
		rs1 := in.res.Stats()
		r["dr"], r["dc"], r["df"] = int(rs1.QueriesReceived-rs0.QueriesReceived), int(rs1.QueriesFromCache-rs0.QueriesFromCache), int(rs1.QueriesForwarded-rs0.QueriesForwarded)
		r["db"], r["dx"] = int(rs1.QueriesBlocked-rs0.QueriesBlocked), int(rs1.Errors-rs0.Errors)
	}
	cur.mu.Lock()
	if len(cur.bad) > 0 {
		harnessFail(strings.Join(cur.bad, "; "))
		cur.bad = nil
	}
	cur.mu.Unlock()
	return r
}

func (in *inst) Observe() map[string]any {
	return map[string]any{"size": in.cache.Stats().Size, "keys": in.ids(in.heldKeys())}
}

func (in *inst) Probe() map[string]any { return nil }

// Fingerprint: everything that can influence future behaviour - the LRU list in order with, per entry, the time it
// still has (whole units, -1 once expired), its kind and its records; the walled-garden clients, the rules, the
// round-robin position and the phase of the cleanup ticker. Statistics and hit counters are left out (they influence
// nothing and are judged as differences per call).
func (in *inst) Fingerprint() string {
	var sb strings.Builder
	now := time.Now()
	for _, h := range in.entries() {
		rem := -1
		if !now.After(h.ent.ExpiresAt) {
			d := h.ent.ExpiresAt.Sub(now)
			rem = int(d / Unit)
			if d%Unit != 0 {
				harnessFail(fmt.Sprintf("entry %q expires off the time grid (%v left)", h.key, d))
			}
		}
		fmt.Fprintf(&sb, "[%q of=%d rem=%d neg=%t", h.key, in.owner[h.key], rem, h.ent.Negative)
		for _, r := range h.ent.Records {
			fmt.Fprintf(&sb, " (%s %d %d %v %v %s)", r.Name, r.Type, r.TTL, r.IPv4, r.IPv6, r.Target)
		}
		sb.WriteString("]")
	}
	if in.res != nil {
		var w []string
		wg := core.Field(in.res, "walledGardenClients")
		for _, key := range wg.MapKeys() {
			w = append(w, key.String())
		}
		sort.Strings(w)
		fmt.Fprintf(&sb, " wall=%v", w)
		rules := core.Field(in.res, "rules")
		for i := 0; i < rules.Len(); i++ {
			rl := rules.Index(i).Interface().(*dns.InterceptRule)
			fmt.Fprintf(&sb, " rule=%s/%d/%t", rl.Domain, rl.Action, rl.Exact)
		}
		idx := core.Field(in.res, "upstreamIndex").Int()
		if idx < 0 || idx > math.MaxInt32-1000 {
			fmt.Fprintf(&sb, " rr=raw%d", idx)
		} else {
			fmt.Fprintf(&sb, " rr=%d", idx%int64(in.s.NUp))
		}
		if in.s.Loop {
			fmt.Fprintf(&sb, " phase=%d", int(now.Sub(in.t0)/Unit)%3)
		}
	}
	return sb.String()
}
