//go:build verif

package dnscache

import (
	"encoding/json"
	"fmt"
	"math/rand"
	"os"
	"strings"
	"testing"

	"verifharness/core"
)

type replayCase struct {
	ID     string         `json:"id"`
	System string         `json:"system"`
	Events []core.Event   `json:"events"`
	Cfg    map[string]any `json:"cfg"`
}

type replayFile struct {
	Property string       `json:"property"`
	Cases    []replayCase `json:"cases"`
}

type runStats struct {
	Systems     int                `json:"systems"`
	Nodes       int                `json:"nodes"`
	Edges       int                `json:"edges"`
	Chains      int                `json:"chains"`
	ChainEvents int                `json:"chain_events"`
	Closed      int                `json:"closed_systems"`
	Panics      []core.PanicRecord `json:"panics"`
	PerSystem   map[string][3]int  `json:"per_system"`
}

const (
	tA    = 1
	tAAAA = 28
	tDS   = 43 // types the package's TypeString does not know (a validating stub asks DS and DNSKEY of one name)
	tDNSK = 48
	tSPF  = 99
)

// Catalogue: configurations whose transition tables are extracted (until closed).
func Catalogue(tier string) []*DSystem {
	l := []*DSystem{
		// dns.Cache alone
		{name: "cache-lru", Kind: "cache", Cap: 2, NK: 3, Min: 1, Max: 3, Neg: 2, Pairs: [][2]int{{1, 3}}, KeyCheck: true},
		{name: "cache-ttl", Kind: "cache", Cap: 2, NK: 2, Min: 2, Max: 4, Neg: 3, Pairs: [][2]int{{1, 1}, {2, 6}}, NegOp: true, DelOps: true, KeyCheck: true},
		{name: "cache-full", Kind: "cache", Cap: 2, NK: 3, Min: 1, Max: 2, Neg: 1, Pairs: [][2]int{{1, 1}, {2, 3}}, NegOp: true, DelOps: true, KeyCheck: true},
		// dns.Resolver with scripted upstreams
		{name: "res-ttl", Kind: "res", Cap: 4, NK: 2, NC: 1, NUp: 1, Min: 2, Max: 4, Neg: 3, Pairs: [][2]int{{1, 1}, {2, 6}}, Scripts: []string{"ok", "nx"}, KeyCheck: true},
		{name: "res-neg", Kind: "res", Cap: 4, NK: 1, NC: 1, NUp: 1, Min: 1, Max: 3, Neg: 2, Pairs: [][2]int{{1, 3}}, Scripts: []string{"ok", "nx", "nodata", "sf", "junk"}, KeyCheck: true},
		{name: "res-ovr", Kind: "res", Cap: 4, NK: 2, NC: 2, NUp: 1, Min: 1, Max: 3, Neg: 2, Types: []int{tA, tSPF}, Pairs: [][2]int{{1, 2}}, Scripts: []string{"ok"}, Wall: true, Rule: true, KeyCheck: true},
		{name: "res-rr", Kind: "res", Cap: 2, NK: 1, NC: 1, NUp: 3, Min: 1, Max: 2, Neg: 1, Pairs: [][2]int{{1, 1}}, Scripts: []string{"ok", "sf", "junk"}, FFwd: true, KeyCheck: true},
		{name: "res-cap", Kind: "res", Cap: 2, NK: 3, NC: 1, NUp: 2, Min: 1, Max: 3, Neg: 2, Pairs: [][2]int{{1, 2}}, Scripts: []string{"ok"}, KeyCheck: true},
		{name: "res-loop", Kind: "res", Cap: 3, NK: 2, NC: 1, NUp: 1, Min: 1, Max: 3, Neg: 2, Pairs: [][2]int{{1, 1}, {2, 3}}, Scripts: []string{"ok", "nx"}, Loop: true, KeyCheck: true},
		// systems in which the known findings live
		{name: "res-hostile", Kind: "res", Cap: 3, NK: 1, NC: 1, NUp: 1, Min: 1, Max: 3, Neg: 2, Pairs: [][2]int{{1, 2}}, Scripts: []string{"ok", "spoofid", "spoofq"}, KeyCheck: true},
		{name: "res-types", Kind: "res", Cap: 4, NK: 4, NC: 1, NUp: 1, Min: 1, Max: 3, Neg: 2, Types: []int{tA, tAAAA, tDS, tDNSK}, Names: []int{1, 1, 1, 1}, Pairs: [][2]int{{1, 2}}, Scripts: []string{"ok"}},
		{name: "res-nxc", Kind: "res", Cap: 3, NK: 1, NC: 1, NUp: 1, Min: 1, Max: 3, Neg: 2, Pairs: [][2]int{{1, 2}}, Scripts: []string{"ok", "nx", "nxc"}, KeyCheck: true},
	}
	if tier == "thorough" {
		l = append(l,
			&DSystem{name: "cache-big", Kind: "cache", Cap: 3, NK: 4, Min: 1, Max: 2, Neg: 1, Pairs: [][2]int{{1, 1}, {2, 3}}, DelOps: true, KeyCheck: true},
			&DSystem{name: "res-ttl3", Kind: "res", Cap: 4, NK: 2, NC: 1, NUp: 2, Min: 2, Max: 5, Neg: 3, Pairs: [][2]int{{1, 1}, {2, 4}, {3, 7}}, Scripts: []string{"ok", "nx", "nodata"}, KeyCheck: true},
			&DSystem{name: "res-ovr-loop", Kind: "res", Cap: 2, NK: 3, NC: 2, NUp: 2, Min: 1, Max: 2, Neg: 1, Types: []int{tA, tAAAA, tSPF}, Pairs: [][2]int{{1, 2}}, Scripts: []string{"ok"}, Wall: true, Rule: true, Loop: true, KeyCheck: true},
			&DSystem{name: "res-hostile2", Kind: "res", Cap: 2, NK: 2, NC: 1, NUp: 2, Min: 1, Max: 3, Neg: 2, Pairs: [][2]int{{1, 2}, {2, 1}}, Scripts: []string{"ok", "spoofid", "spoofq", "nxc"}, KeyCheck: true},
		)
	}
	return l
}

// ChainCatalogue: configurations driven by long seeded random sequences.
func ChainCatalogue() []*DSystem {
	return []*DSystem{
		{name: "rnd-cache", Kind: "cache", Cap: 3, NK: 5, Min: 2, Max: 5, Neg: 3, Pairs: [][2]int{{1, 1}, {2, 3}, {3, 7}}, NegOp: true, DelOps: true, KeyCheck: true},
		{name: "rnd-res", Kind: "res", Cap: 3, NK: 4, NC: 2, NUp: 3, Min: 2, Max: 5, Neg: 3, Types: []int{tA, tAAAA, tA, tSPF}, Pairs: [][2]int{{1, 1}, {2, 3}, {3, 7}},
			Scripts: []string{"ok", "nx", "nodata", "sf", "junk"}, Wall: true, Rule: true, Loop: true, KeyCheck: true},
		{name: "rnd-res-hostile", Kind: "res", Cap: 3, NK: 3, NC: 1, NUp: 2, Min: 1, Max: 4, Neg: 2, Pairs: [][2]int{{1, 2}, {2, 5}},
			Scripts: []string{"ok", "nx", "spoofid", "spoofq", "nxc"}, KeyCheck: true},
		{name: "rnd-res-types", Kind: "res", Cap: 3, NK: 4, NC: 1, NUp: 1, Min: 1, Max: 4, Neg: 2, Types: []int{tA, tAAAA, tDS, tDNSK}, Names: []int{1, 1, 1, 1}, Pairs: [][2]int{{1, 2}},
			Scripts: []string{"ok", "nx"}},
	}
}

func find(name string) *DSystem {
	for _, s := range append(Catalogue("thorough"), ChainCatalogue()...) {
		if s.name == name {
			return s
		}
	}
	return nil
}

// randomChain draws events with time advances more likely than any single other event.
func randomChain(sys *DSystem, rng *rand.Rand, n int) []core.Event {
	evs := sys.Events()
	var weighted []core.Event
	for _, e := range evs {
		w := 1
		if e["op"] == "adv" {
			w = len(evs) / 5
			if w < 1 {
				w = 1
			}
		}
		for i := 0; i < w; i++ {
			weighted = append(weighted, e)
		}
	}
	var out []core.Event
	for len(out) < n {
		out = append(out, weighted[rng.Intn(len(weighted))])
	}
	return out
}

func TestExplore(t *testing.T) {
	theT = t
	if err := startUpstreams(MaxUp); err != nil {
		t.Fatalf("cannot open the scripted upstream sockets on loopback: %v", err)
	}
	defer func() {
		harnessErrs.Lock()
		defer harnessErrs.Unlock()
		if len(harnessErrs.l) > 0 {
			t.Fatalf("harness cannot represent the observed behaviour (infrastructure failure, not a verdict):\n%s", strings.Join(harnessErrs.l, "\n"))
		}
	}()
	out := core.OutDir()
	if rf := os.Getenv("VERIF_REPLAY"); rf != "" {
		replay(t, rf, out)
		return
	}
	tier := core.Tier()
	seed := core.Seed()
	maxNodes := 6000
	if v := os.Getenv("VERIF_MAXNODES"); v != "" {
		fmt.Sscan(v, &maxNodes)
	}
	nchains, chainLen := 8, 120
	if tier == "thorough" {
		maxNodes = 60000
		nchains, chainLen = 60, 300
	}
	bundle := &core.Bundle{}
	st := runStats{PerSystem: map[string][3]int{}}
	for _, sys := range Catalogue(tier) {
		if only := os.Getenv("VERIF_ONLY"); only != "" && only != sys.Name() {
			continue
		}
		// bubbles strictly one after the other: the upstream script is process-wide, and go1.25.0 bubbles must not overlap
		tab, panics, err := core.Explore(sys, core.ExploreOptions{MaxDepth: sys.MaxDepth, MaxNodes: maxNodes, AdequacySample: 20, Seed: seed, Workers: 1})
		if err != nil {
			t.Fatalf("explore %s: %v", sys.Name(), err)
		}
		st.Panics = append(st.Panics, panics...)
		bundle.Systems = append(bundle.Systems, tab)
		ne := 0
		for _, es := range tab.Edges {
			ne += len(es)
		}
		c := 0
		if tab.Closed {
			c = 1
			st.Closed++
		}
		st.PerSystem[sys.Name()] = [3]int{len(tab.Nodes), ne, c}
		st.Systems++
		st.Nodes += len(tab.Nodes)
		st.Edges += ne
	}
	rng := rand.New(rand.NewSource(seed))
	for _, sys := range ChainCatalogue() {
		if only := os.Getenv("VERIF_ONLY"); only != "" && only != sys.Name() {
			continue
		}
		n, l := nchains, chainLen
		if strings.Contains(sys.Name(), "hostile") || strings.Contains(sys.Name(), "types") {
			n, l = 2*nchains, 40 // a walk ends at the first hard violation: many short ones
		}
		for c := 0; c < n; c++ {
			seqv := randomChain(sys, rng, l)
			tab, pr := core.Chain(sys, fmt.Sprintf("%s#%d", sys.Name(), c), seqv, false)
			if pr != nil {
				st.Panics = append(st.Panics, *pr)
				continue
			}
			bundle.Systems = append(bundle.Systems, tab)
			st.Chains++
			st.ChainEvents += len(seqv)
		}
	}
	// histories found by TLC on the implementation-shaped design spec, executed on the real code
	if xf := os.Getenv("VERIF_EXTRA_CASES"); xf != "" {
		b, err := os.ReadFile(xf)
		if err != nil {
			t.Fatal(err)
		}
		var rf replayFile
		if err := json.Unmarshal(b, &rf); err != nil {
			t.Fatal(err)
		}
		for _, c := range rf.Cases {
			sys := fromCfg(c.System, c.Cfg)
			if sys == nil {
				t.Fatalf("extra case %s: no configuration", c.ID)
			}
			evs := clean(c.Events)
			tab, pr := core.Chain(sys, c.System+"#"+c.ID, evs, false)
			if pr != nil {
				st.Panics = append(st.Panics, *pr)
				continue
			}
			bundle.Systems = append(bundle.Systems, tab)
			st.Chains++
			st.ChainEvents += len(evs)
		}
	}
	if err := core.WriteJSON(out, "bundle.json", bundle); err != nil {
		t.Fatal(err)
	}
	if err := core.WriteJSON(out, "stats.json", st); err != nil {
		t.Fatal(err)
	}
}

// clean keeps only the alphabet part of recorded events (results are observed afresh).
func clean(in []core.Event) []core.Event {
	evs := make([]core.Event, 0, len(in))
	for _, e := range in {
		scr, _ := e["s"].(string)
		evs = append(evs, mk(fmt.Sprint(e["op"]), toInt(e["k"]), toInt(e["c"]), toInt(e["ttl"]), toInt(e["val"]), scr, toBool(e["on"])))
	}
	return evs
}

func replay(t *testing.T, file, out string) {
	b, err := os.ReadFile(file)
	if err != nil {
		t.Fatal(err)
	}
	var rf replayFile
	if err := json.Unmarshal(b, &rf); err != nil {
		t.Fatal(err)
	}
	st := runStats{PerSystem: map[string][3]int{}}
	bundle := &core.Bundle{}
	for _, c := range rf.Cases {
		name := c.System
		if i := strings.IndexByte(name, '#'); i >= 0 {
			name = name[:i]
		}
		sys := find(name)
		if sys == nil {
			sys = fromCfg(name, c.Cfg)
		}
		if sys == nil {
			t.Fatalf("unknown system %q", c.System)
		}
		evs := clean(c.Events)
		tab, pr := core.Chain(sys, name+"#"+c.ID, evs, false)
		if pr != nil {
			st.Panics = append(st.Panics, *pr)
			continue
		}
		bundle.Systems = append(bundle.Systems, tab)
		st.Chains++
		st.ChainEvents += len(evs)
	}
	if err := core.WriteJSON(out, "bundle.json", bundle); err != nil {
		t.Fatal(err)
	}
	core.WriteJSON(out, "stats.json", st)
}
