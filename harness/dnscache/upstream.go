//go:build verif

package dnscache

import (
	"fmt"
	"net"
	"strings"
	"sync"

	"golang.org/x/net/dns/dnsmessage"
)

// Scripted upstream resolvers: real UDP sockets on loopback, one goroutine each, living OUTSIDE every
// synctest bubble (a goroutine blocked in a network read is not durably blocked and would stop the
// bubble's clock). The resolver under test talks to them through its own net.Dial / Write / Read,
// unmodified. What an upstream answers is the script the harness installed for the current call.
//
// Data carried by the answers (decoded again by the harness from what Resolve returns):
//   genuine A record     10.9.<name index>.<data version>
//   poison               10.66.66.66 (datagram with a wrong transaction id or a foreign question)
//   CNAME of "nxc"       gone.example.net.
const (
	PoisonTTL = 4000 // seconds
)

type script struct {
	mu     sync.Mutex
	s      string // ok | nx | nxc | nodata | sf | junk | spoofid | spoofq
	val    int    // data version of the genuine answer
	ttlSec int    // minimum TTL of the genuine answer's records
	ups    []int  // upstreams that received a query since the script was installed, in order
	bad    []string
}

var cur script

type upstream struct {
	idx  int
	conn *net.UDPConn
}

var (
	upsOnce sync.Once
	upsList []*upstream
	upsErr  error
	// one token per query an upstream has finished answering (all its datagrams are on their way); created outside
	// every bubble, so waiting for it inside one never lets virtual time pass
	answered chan struct{}
)

// startUpstreams opens max upstream sockets once per process (called outside any bubble).
func startUpstreams(max int) error {
	upsOnce.Do(func() {
		answered = make(chan struct{}, 1024)
		for i := 1; i <= max; i++ {
			c, err := net.ListenUDP("udp4", &net.UDPAddr{IP: net.IPv4(127, 0, 0, 1)})
			if err != nil {
				upsErr = err
				return
			}
			c.SetReadBuffer(1 << 20)
			u := &upstream{idx: i, conn: c}
			upsList = append(upsList, u)
			go u.serve()
		}
	})
	return upsErr
}

func upstreamAddr(i int) string { return upsList[i-1].conn.LocalAddr().String() }

func install(s string, val, ttlSec int) {
	cur.mu.Lock()
	cur.s, cur.val, cur.ttlSec, cur.ups = s, val, ttlSec, nil
	cur.mu.Unlock()
}

func asked() []int {
	cur.mu.Lock()
	defer cur.mu.Unlock()
	out := make([]int, 0, len(cur.ups))
	return append(out, cur.ups...)
}

func nameIndex(n string) int {
	var i int
	if _, err := fmt.Sscanf(strings.ToLower(n), "n%d.example.com.", &i); err != nil {
		return 0
	}
	return i
}

func qName(i int) string { return fmt.Sprintf("n%d.example.com", i) }

func hdr(name dnsmessage.Name, t dnsmessage.Type, ttl int) dnsmessage.ResourceHeader {
	return dnsmessage.ResourceHeader{Name: name, Type: t, Class: dnsmessage.ClassINET, TTL: uint32(ttl)}
}

// records of a genuine positive answer: two records, the larger TTL first (the entry's lifetime is the minimum)
func genuineAnswers(q dnsmessage.Question, val, ttlSec int) []dnsmessage.Resource {
	ni := nameIndex(q.Name.String())
	var out []dnsmessage.Resource
	for _, ttl := range []int{ttlSec + 2*UnitSec, ttlSec} {
		switch q.Type {
		case dnsmessage.TypeA:
			out = append(out, dnsmessage.Resource{Header: hdr(q.Name, q.Type, ttl), Body: &dnsmessage.AResource{A: [4]byte{10, 9, byte(ni), byte(val)}}})
		case dnsmessage.TypeAAAA:
			a := [16]byte{0x20, 0x01, 0x0d, 0xb8}
			a[14], a[15] = byte(ni), byte(val)
			out = append(out, dnsmessage.Resource{Header: hdr(q.Name, q.Type, ttl), Body: &dnsmessage.AAAAResource{AAAA: a}})
		default:
			out = append(out, dnsmessage.Resource{Header: hdr(q.Name, q.Type, ttl), Body: &dnsmessage.UnknownResource{Type: q.Type, Data: []byte{byte(ni), byte(val)}}})
		}
	}
	return out
}

func pack(id uint16, rcode dnsmessage.RCode, q dnsmessage.Question, ans []dnsmessage.Resource) []byte {
	m := dnsmessage.Message{
		Header:    dnsmessage.Header{ID: id, Response: true, RecursionDesired: true, RecursionAvailable: true, RCode: rcode},
		Questions: []dnsmessage.Question{q},
		Answers:   ans,
	}
	b, err := m.Pack()
	if err != nil {
		cur.bad = append(cur.bad, "pack: "+err.Error())
		return []byte{0}
	}
	return b
}

func (u *upstream) serve() {
	buf := make([]byte, 4096)
	for {
		n, addr, err := u.conn.ReadFromUDP(buf)
		if err != nil {
			return
		}
		var m dnsmessage.Message
		if err := m.Unpack(buf[:n]); err != nil || len(m.Questions) != 1 {
			cur.mu.Lock()
			cur.bad = append(cur.bad, fmt.Sprintf("upstream %d: unparsable query (%v)", u.idx, err))
			cur.mu.Unlock()
			continue
		}
		q := m.Questions[0]
		cur.mu.Lock()
		cur.ups = append(cur.ups, u.idx)
		s, val, ttl := cur.s, cur.val, cur.ttlSec
		var out [][]byte
		poison := func(name dnsmessage.Name) []dnsmessage.Resource {
			return []dnsmessage.Resource{{Header: hdr(name, dnsmessage.TypeA, PoisonTTL), Body: &dnsmessage.AResource{A: [4]byte{10, 66, 66, 66}}}}
		}
		switch s {
		case "ok":
			out = append(out, pack(m.ID, dnsmessage.RCodeSuccess, q, genuineAnswers(q, val, ttl)))
		case "spoofid": // an off-path answer with a guessed (wrong) id arrives before the genuine one
			out = append(out, pack(m.ID+1, dnsmessage.RCodeSuccess, q, poison(q.Name)))
			out = append(out, pack(m.ID, dnsmessage.RCodeSuccess, q, genuineAnswers(q, val, ttl)))
		case "spoofq": // right id, but it answers another question
			evil := dnsmessage.Question{Name: dnsmessage.MustNewName("evil.example."), Type: q.Type, Class: q.Class}
			out = append(out, pack(m.ID, dnsmessage.RCodeSuccess, evil, poison(evil.Name)))
			out = append(out, pack(m.ID, dnsmessage.RCodeSuccess, q, genuineAnswers(q, val, ttl)))
		case "nx":
			out = append(out, pack(m.ID, dnsmessage.RCodeNameError, q, nil))
		case "nxc":
			cn := dnsmessage.Resource{Header: hdr(q.Name, dnsmessage.TypeCNAME, ttl), Body: &dnsmessage.CNAMEResource{CNAME: dnsmessage.MustNewName("gone.example.net.")}}
			out = append(out, pack(m.ID, dnsmessage.RCodeNameError, q, []dnsmessage.Resource{cn}))
		case "nodata":
			out = append(out, pack(m.ID, dnsmessage.RCodeSuccess, q, nil))
		case "sf":
			out = append(out, pack(m.ID, dnsmessage.RCodeServerFailure, q, nil))
		case "junk":
			out = append(out, []byte{0xde, 0xad, 0xbe})
		default:
			cur.bad = append(cur.bad, "upstream asked without a script: "+s)
			out = append(out, pack(m.ID, dnsmessage.RCodeServerFailure, q, nil))
		}
		cur.mu.Unlock()
		for _, b := range out {
			u.conn.WriteToUDP(b, addr)
		}
		answered <- struct{}{}
	}
}

// settle returns once every query counted so far has been answered completely, so that no datagram of this call can
// still be under way when the next call opens its socket.
func settle(n int) {
	for i := 0; i < n; i++ {
		<-answered
	}
}
