//go:build verif

package routing

import (
	"encoding/json"
	"fmt"
	"math/rand"
	"os"
	"strings"
	"testing"

	"verifharness/core"
)

type replayCase struct {
	ID     string         `json:"id"`
	System string         `json:"system"`
	Events []core.Event   `json:"events"`
	Cfg    map[string]any `json:"cfg"`
}

type replayFile struct {
	Property string       `json:"property"`
	Cases    []replayCase `json:"cases"`
}

type runStats struct {
	Systems     int                `json:"systems"`
	Nodes       int                `json:"nodes"`
	Edges       int                `json:"edges"`
	Chains      int                `json:"chains"`
	ChainEvents int                `json:"chain_events"`
	Closed      int                `json:"closed_systems"`
	Panics      []core.PanicRecord `json:"panics"`
	PerSystem   map[string][3]int  `json:"per_system"`
}

// Catalogue: configurations whose transition tables are extracted (closed, or to the depth cap where the retry queue is unbounded).
func Catalogue(tier string) []core.System {
	d := 0
	if tier == "thorough" {
		d = 1
	}
	l := []core.System{
		&RSystem{name: "srm", Kind: "srm", NS: 2, NI: 1, MaxR: 2, Depth: 7 + d},
		&RSystem{name: "srm2", Kind: "srm", NS: 2, NI: 2, MaxR: 2, Depth: 5 + d, Ops: []string{"inject", "withdraw", "fail", "adv"}},
		&RSystem{name: "sri", Kind: "sri", NS: 2, NI: 1, MaxR: 2, IPOf: []int{1, 1}, Depth: 7 + d},
		&RSystem{name: "sri2", Kind: "sri", NS: 3, NI: 2, MaxR: 1, IPOf: []int{1, 2, 1}, Depth: 5 + d, Ops: []string{"activate", "terminate", "fail", "adv"}},
		&RSystem{name: "mgr-health", Kind: "mgr", NS: 1, NI: 1, NU: 2, Ops: []string{"addup", "rmup", "ping", "adv"}},
		&RSystem{name: "mgr", Kind: "mgr", NS: 1, NI: 1, NU: 1, Depth: 6 + d},
		&RSystem{name: "mgr-routes", Kind: "mgr", NS: 2, NI: 2, NU: 2, Ops: []string{"addroute", "delroute", "fail", "addup", "rmup"}, Depth: 5 + d},
		&RSystem{name: "bgp", Kind: "bgp", NI: 2},
	}
	return l
}

// ChainCatalogue: configurations driven by long seeded random sequences.
func ChainCatalogue() []core.System {
	return []core.System{
		&RSystem{name: "rnd-srm", Kind: "srm", NS: 3, NI: 3, MaxR: 3},
		&RSystem{name: "rnd-sri", Kind: "sri", NS: 4, NI: 3, MaxR: 2, IPOf: []int{1, 2, 3, 1}},
		&RSystem{name: "rnd-mgr", Kind: "mgr", NS: 3, NI: 3, NU: 3},
	}
}

func find(name string) core.System {
	for _, s := range append(Catalogue("thorough"), ChainCatalogue()...) {
		if s.Name() == name {
			return s
		}
	}
	return nil
}

func randomChain(sys core.System, rng *rand.Rand, n int) []core.Event {
	evs := sys.Events()
	var out []core.Event
	for len(out) < n {
		out = append(out, evs[rng.Intn(len(evs))])
	}
	return out
}

func TestExplore(t *testing.T) {
	theT = t
	defer removeFakeVtysh()
	out := core.OutDir()
	if rf := os.Getenv("VERIF_REPLAY"); rf != "" {
		replay(t, rf, out)
		return
	}
	tier := core.Tier()
	seed := core.Seed()
	maxNodes := 6000
	nchains, chainLen := 8, 120
	if tier == "thorough" {
		maxNodes = 40000
		nchains, chainLen = 40, 300
	}
	bundle := &core.Bundle{}
	st := runStats{PerSystem: map[string][3]int{}}
	for _, sys := range Catalogue(tier) {
		if only := os.Getenv("VERIF_ONLY"); only != "" && only != sys.Name() {
			continue
		}
		// bubbles strictly one after the other (go1.25.0 bubbles must not overlap)
		tab, panics, err := core.Explore(sys, core.ExploreOptions{MaxNodes: maxNodes, MaxDepth: sys.(*RSystem).Depth, AdequacySample: 20, Seed: seed, Workers: 1})
		if err != nil {
			t.Fatalf("explore %s: %v", sys.Name(), err)
		}
		st.Panics = append(st.Panics, panics...)
		bundle.Systems = append(bundle.Systems, tab)
		ne := 0
		for _, es := range tab.Edges {
			ne += len(es)
		}
		c := 0
		if tab.Closed {
			c = 1
			st.Closed++
		}
		st.PerSystem[sys.Name()] = [3]int{len(tab.Nodes), ne, c}
		st.Systems++
		st.Nodes += len(tab.Nodes)
		st.Edges += ne
	}
	rng := rand.New(rand.NewSource(seed))
	for _, sys := range ChainCatalogue() {
		if only := os.Getenv("VERIF_ONLY"); only != "" && only != sys.Name() {
			continue
		}
		for c := 0; c < nchains; c++ {
			seqv := randomChain(sys, rng, chainLen)
			tab, pr := core.Chain(sys, fmt.Sprintf("%s#%d", sys.Name(), c), seqv, false)
			if pr != nil {
				st.Panics = append(st.Panics, *pr)
				continue
			}
			bundle.Systems = append(bundle.Systems, tab)
			st.Chains++
			st.ChainEvents += len(seqv)
		}
	}
	// histories found by TLC on the implementation-shaped design spec, executed on the real code
	if xf := os.Getenv("VERIF_EXTRA_CASES"); xf != "" {
		b, err := os.ReadFile(xf)
		if err != nil {
			t.Fatal(err)
		}
		var rf replayFile
		if err := json.Unmarshal(b, &rf); err != nil {
			t.Fatal(err)
		}
		for _, c := range rf.Cases {
			sys := fromCfg(c.System, c.Cfg)
			if sys == nil {
				t.Fatalf("extra case %s: no configuration", c.ID)
			}
			evs := clean(c.Events)
			tab, pr := core.Chain(sys, c.System+"#"+c.ID, evs, false)
			if pr != nil {
				st.Panics = append(st.Panics, *pr)
				continue
			}
			bundle.Systems = append(bundle.Systems, tab)
			st.Chains++
			st.ChainEvents += len(evs)
		}
	}
	if err := core.WriteJSON(out, "bundle.json", bundle); err != nil {
		t.Fatal(err)
	}
	if err := core.WriteJSON(out, "stats.json", st); err != nil {
		t.Fatal(err)
	}
}

// clean keeps only the alphabet part of recorded events (results are observed afresh).
func clean(in []core.Event) []core.Event {
	evs := make([]core.Event, 0, len(in))
	for _, e := range in {
		evs = append(evs, mk(fmt.Sprint(e["op"]), toInt(e["s"]), toInt(e["ip"]), toInt(e["a"])))
	}
	return evs
}

func replay(t *testing.T, file, out string) {
	b, err := os.ReadFile(file)
	if err != nil {
		t.Fatal(err)
	}
	var rf replayFile
	if err := json.Unmarshal(b, &rf); err != nil {
		t.Fatal(err)
	}
	st := runStats{PerSystem: map[string][3]int{}}
	bundle := &core.Bundle{}
	for _, c := range rf.Cases {
		name := c.System
		if i := strings.IndexByte(name, '#'); i >= 0 {
			name = name[:i]
		}
		var sys core.System
		if s := fromCfg(name, c.Cfg); s != nil {
			sys = s
		} else {
			sys = find(name)
		}
		if sys == nil {
			t.Fatalf("unknown system %q", c.System)
		}
		evs := clean(c.Events)
		tab, pr := core.Chain(sys, name+"#"+c.ID, evs, false)
		if pr != nil {
			st.Panics = append(st.Panics, *pr)
			continue
		}
		bundle.Systems = append(bundle.Systems, tab)
		st.Chains++
		st.ChainEvents += len(evs)
	}
	if err := core.WriteJSON(out, "bundle.json", bundle); err != nil {
		t.Fatal(err)
	}
	core.WriteJSON(out, "stats.json", st)
}
