//go:build verif

package routing

import (
	"os"
	"path/filepath"
	"sync"
)

// BGPController talks to FRR exclusively by executing `vtysh --vty_socket DIR -c COMMAND`. The harness points
// BGPConfig.VtyshPath at the stand-in below and gives every controller its own DIR, so the real os/exec path runs.
// The stand-in keeps FRR's `network` statements as files DIR/net/<prefix with _ for />, and refuses every command
// while DIR/fail exists.
const vtyshSh = `#!/bin/sh
dir="$2"; cmd="$4"
if [ "$1" != "--vty_socket" ] || [ "$3" != "-c" ]; then exit 2; fi
if [ -e "$dir/fail" ]; then echo "% bgpd is not running" >&2; exit 1; fi
printf '%s\n' "$cmd" | while IFS= read -r line; do
  case "$line" in
    "no network "*) p=${line#no network }; rm -f "$dir/net/$(printf '%s' "$p" | tr / _)";;
    "network "*) p=${line#network }; : > "$dir/net/$(printf '%s' "$p" | tr / _)";;
  esac
done
exit 0
`

var (
	vtyshOnce sync.Once
	vtyshPath string
)

func fakeVtysh() string {
	vtyshOnce.Do(func() {
		d, err := os.MkdirTemp("", "x17vtysh")
		if err != nil {
			panic(err)
		}
		vtyshPath = filepath.Join(d, "vtysh")
		if err := os.WriteFile(vtyshPath, []byte(vtyshSh), 0o755); err != nil {
			panic(err)
		}
	})
	return vtyshPath
}

func removeFakeVtysh() {
	if vtyshPath != "" {
		os.RemoveAll(filepath.Dir(vtyshPath))
	}
}
