//go:build verif

// Package routing binds pkg/routing (everything but BFD / HealthChecker, which X03 covers) to the Routing contract
// (extra family X17): the real SubscriberRouteManager with its retry worker (kind "srm"), the real SessionRouteIntegration
// on top of it (kind "sri"), the real route-table Manager with an in-memory RoutingPlatform and its health-check loop
// (kind "mgr"), and the real BGPController talking to a stand-in `vtysh` executable (kind "bgp").
// Instances with timers live in their own testing/synctest bubble. No hook in /repo: public API + reflection.
package routing

import (
	"context"
	"encoding/json"
	"fmt"
	"net"
	"os"
	"path/filepath"
	"runtime"
	"sort"
	"strings"
	"sync"
	"testing"
	"testing/synctest"
	"time"

	rt "github.com/codelaboratoryltd/bng/pkg/routing"
	"go.uber.org/zap"

	"verifharness/core"
)

var theT *testing.T

const retryInterval = 5 * time.Second
const healthInterval = 5 * time.Second

// RSystem is one configuration.
type RSystem struct {
	name  string
	Kind  string // srm | sri | mgr | bgp
	NS    int    // sessions (srm, sri) / gateways (mgr)
	NI    int    // addresses (srm, sri) / destinations (mgr) / prefixes (bgp)
	MaxR  int    // SubscriberRouteConfig.MaxRetries
	IPOf  []int  // sri: the address of session s (1-based)
	NU    int    // mgr: upstreams (upstream u has gateway u)
	Ops   []string
	Depth int // exploration depth cap (0: none)
}

func (s *RSystem) Name() string { return s.name }

func (s *RSystem) defaults() {
	if s.MaxR == 0 {
		s.MaxR = 2
	}
	if len(s.Ops) == 0 {
		switch s.Kind {
		case "srm":
			s.Ops = []string{"inject", "withdraw", "fail", "adv", "reset", "reconcile"}
		case "sri":
			s.Ops = []string{"activate", "terminate", "fail", "adv", "reset", "reconcile"}
		case "mgr":
			s.Ops = []string{"addroute", "delroute", "fail", "addup", "rmup", "ping", "adv"}
		case "bgp":
			s.Ops = []string{"announce", "unannounce", "fail"}
		}
	}
	if s.Kind == "sri" && len(s.IPOf) == 0 {
		for i := 1; i <= s.NS; i++ {
			s.IPOf = append(s.IPOf, (i-1)%s.NI+1)
		}
	}
}

func (s *RSystem) Config() map[string]any {
	s.defaults()
	ipof := []int{}
	for _, v := range s.IPOf {
		ipof = append(ipof, v)
	}
	return map[string]any{"kind": s.Kind, "impl": s.name, "ns": s.NS, "ni": s.NI, "maxr": s.MaxR, "ipof": ipof, "nu": s.NU,
		"ops": s.Ops, "depth": s.Depth, "nsubs": 0}
}

func fromCfg(name string, c map[string]any) *RSystem {
	if c == nil || c["kind"] == nil {
		return nil
	}
	s := &RSystem{name: name, Kind: fmt.Sprint(c["kind"]), NS: toInt(c["ns"]), NI: toInt(c["ni"]), MaxR: toInt(c["maxr"]), NU: toInt(c["nu"]), Depth: toInt(c["depth"])}
	if l, ok := c["ipof"].([]any); ok {
		for _, v := range l {
			s.IPOf = append(s.IPOf, toInt(v))
		}
	}
	if l, ok := c["ops"].([]any); ok {
		for _, v := range l {
			s.Ops = append(s.Ops, fmt.Sprint(v))
		}
	}
	if i := strings.IndexByte(s.name, '#'); i >= 0 {
		s.name = s.name[:i]
	}
	return s
}

func mk(op string, sidx, ip, a int) core.Event {
	return core.Event{"op": op, "s": sidx, "ip": ip, "a": a}
}

func (s *RSystem) has(op string) bool {
	for _, o := range s.Ops {
		if o == op {
			return true
		}
	}
	return false
}

func (s *RSystem) Events() []core.Event {
	s.defaults()
	var l []core.Event
	for _, op := range s.Ops {
		switch op {
		case "inject", "withdraw":
			for x := 1; x <= s.NS; x++ {
				for i := 1; i <= s.NI; i++ {
					l = append(l, mk(op, x, i, 0))
				}
			}
		case "activate", "terminate":
			for x := 1; x <= s.NS; x++ {
				l = append(l, mk(op, x, s.IPOf[x-1], 0))
			}
		case "fail":
			l = append(l, mk(op, 0, 0, 1), mk(op, 0, 0, 0))
		case "adv", "reset", "reconcile":
			l = append(l, mk(op, 0, 0, 0))
		case "addroute", "delroute":
			for g := 1; g <= s.NS; g++ {
				for d := 1; d <= s.NI; d++ {
					l = append(l, mk(op, g, d, 0))
				}
			}
		case "addup", "rmup":
			for u := 1; u <= s.NU; u++ {
				l = append(l, mk(op, u, 0, 0))
			}
		case "ping":
			for u := 1; u <= s.NU; u++ {
				l = append(l, mk(op, u, 0, 1), mk(op, u, 0, 0))
			}
		case "announce", "unannounce":
			for i := 1; i <= s.NI; i++ {
				l = append(l, mk(op, 0, i, 0))
			}
		}
	}
	return l
}

var wraps int

// Wrap runs one replay inside its own bubble (bubbles strictly one after the other); bgp instances have no timers and
// execute a real child process, they run outside any bubble.
func (s *RSystem) Wrap(f func()) {
	if s.Kind == "bgp" {
		f()
		return
	}
	wraps++
	if wraps%2000 == 0 {
		runtime.GC()
	}
	synctest.Test(theT, func(t *testing.T) { f() })
}

func ipOf(i int) net.IP     { return net.IPv4(10, 0, 0, byte(i)).To4() }
func sessOf(i int) string   { return fmt.Sprintf("sess-%d", i) }
func gwOf(i int) net.IP     { return net.IPv4(192, 0, 2, byte(i)).To4() }
func dstOf(i int) *net.IPNet { return &net.IPNet{IP: net.IPv4(198, 51, byte(i), 0).To4(), Mask: net.CIDRMask(24, 32)} }
func upName(i int) string   { return fmt.Sprintf("up-%d", i) }
func hcOf(i int) net.IP     { return net.IPv4(203, 0, 113, byte(i)).To4() }
func pfxOf(i int) *net.IPNet { return &net.IPNet{IP: net.IPv4(100, 64, byte(i), 0).To4(), Mask: net.CIDRMask(24, 32)} }

// ---------------------------------------------------------------- FRR stand-in behind the FRRExecutor seam

type fakeFRR struct {
	mu   sync.Mutex
	nets map[string]bool
	fail bool
	cmds int
}

func (f *fakeFRR) ExecuteCommand(ctx context.Context, command string) (string, error) {
	f.mu.Lock()
	defer f.mu.Unlock()
	f.cmds++
	if f.fail {
		return "", fmt.Errorf("vtysh: bgpd is not running")
	}
	for _, line := range strings.Split(command, "\n") {
		line = strings.TrimSpace(line)
		if strings.HasPrefix(line, "no network ") {
			delete(f.nets, strings.TrimPrefix(line, "no network "))
		} else if strings.HasPrefix(line, "network ") {
			f.nets[strings.TrimPrefix(line, "network ")] = true
		}
	}
	return "", nil
}

// ---------------------------------------------------------------- in-memory RoutingPlatform (the semantics of the package's own StubPlatform / of
// netlink_linux.go: adding an existing (destination, gateway) replaces it, deleting an absent route is not an error)

type fakePlatform struct {
	mu     sync.Mutex
	routes []string // "d/g"
	fail   bool
	pingOK map[string]bool
}

func rkey(r *rt.Route) string {
	g := 0
	if r.Gateway != nil && r.Gateway.To4() != nil {
		g = int(r.Gateway.To4()[3])
	}
	d := 0
	if r.Destination != nil && r.Destination.IP.To4() != nil {
		d = int(r.Destination.IP.To4()[2])
	}
	return fmt.Sprintf("%d/%d", d, g)
}

func (p *fakePlatform) AddRoute(r *rt.Route) error {
	p.mu.Lock()
	defer p.mu.Unlock()
	if p.fail {
		return fmt.Errorf("netlink: operation not permitted")
	}
	k := rkey(r)
	for _, x := range p.routes {
		if x == k {
			return nil
		}
	}
	p.routes = append(p.routes, k)
	return nil
}

func (p *fakePlatform) DeleteRoute(r *rt.Route) error {
	p.mu.Lock()
	defer p.mu.Unlock()
	if p.fail {
		return fmt.Errorf("netlink: operation not permitted")
	}
	k := rkey(r)
	for i, x := range p.routes {
		if x == k {
			p.routes = append(p.routes[:i], p.routes[i+1:]...)
			return nil
		}
	}
	return nil
}
func (p *fakePlatform) GetRoutes(table int) ([]*rt.Route, error)  { return nil, nil }
func (p *fakePlatform) FlushTable(table int) error                 { return nil }
func (p *fakePlatform) AddRule(rule *rt.PolicyRule) error          { return nil }
func (p *fakePlatform) DeleteRule(rule *rt.PolicyRule) error       { return nil }
func (p *fakePlatform) GetRules() ([]*rt.PolicyRule, error)        { return nil, nil }
func (p *fakePlatform) SetInterfaceUp(name string) error           { return nil }
func (p *fakePlatform) SetInterfaceDown(name string) error         { return nil }
func (p *fakePlatform) GetInterfaceByName(name string) (*rt.InterfaceInfo, error) {
	return nil, fmt.Errorf("no such interface")
}
func (p *fakePlatform) Ping(target net.IP, timeout time.Duration) (time.Duration, error) {
	p.mu.Lock()
	defer p.mu.Unlock()
	if p.pingOK[target.String()] {
		return time.Millisecond, nil
	}
	return 0, fmt.Errorf("timeout")
}

// ---------------------------------------------------------------- instance

type pendOp struct {
	Typ string
	IP  int
	R   int
}

type inst struct {
	s    *RSystem
	frr  *fakeFRR
	srm  *rt.SubscriberRouteManager
	sri  *rt.SessionRouteIntegration
	pend []pendOp // digest of the retry worker's goroutine-local queue (node identity only, never a verdict)

	mgr  *rt.Manager
	plat *fakePlatform
	cbs  []string
	cbmu sync.Mutex

	bgp *rt.BGPController
	dir string
}

func (s *RSystem) New() core.Instance {
	s.defaults()
	in := &inst{s: s}
	switch s.Kind {
	case "srm", "sri":
		in.frr = &fakeFRR{nets: map[string]bool{}}
		cfg := rt.DefaultSubscriberRouteConfig()
		cfg.LocalAS = 65000
		cfg.RetryInterval = retryInterval
		cfg.MaxRetries = s.MaxR
		cfg.BulkBatchDelay = 0
		m, err := rt.NewSubscriberRouteManager(cfg, nil, zap.NewNop())
		if err != nil {
			panic(err)
		}
		m.SetFRRExecutor(in.frr)
		if err := m.Start(); err != nil {
			panic(err)
		}
		in.srm = m
		if s.Kind == "sri" {
			in.sri = rt.NewSessionRouteIntegration(m, nil, nil, rt.DefaultSessionRouteConfig(), zap.NewNop())
			in.sri.Start()
		}
		synctest.Wait() // the retry worker has made its ticker: it ticks at whole intervals from now
		time.Sleep(retryInterval / 2)
		synctest.Wait()
	case "mgr":
		cfg := rt.DefaultConfig()
		cfg.HealthCheckInterval = healthInterval
		in.mgr = rt.NewManager(cfg, zap.NewNop())
		in.plat = &fakePlatform{pingOK: map[string]bool{}}
		in.mgr.SetPlatform(in.plat)
		in.mgr.OnUpstreamUp(func(n string) { in.cbmu.Lock(); in.cbs = append(in.cbs, "up:"+n); in.cbmu.Unlock() })
		in.mgr.OnUpstreamDown(func(n string) { in.cbmu.Lock(); in.cbs = append(in.cbs, "down:"+n); in.cbmu.Unlock() })
		if err := in.mgr.Start(); err != nil {
			panic(err)
		}
		synctest.Wait()
		time.Sleep(healthInterval / 2)
		synctest.Wait()
	case "bgp":
		d, err := os.MkdirTemp("", "x17frr")
		if err != nil {
			panic(err)
		}
		in.dir = d
		os.Mkdir(filepath.Join(d, "net"), 0o755)
		cfg := rt.DefaultBGPConfig()
		cfg.LocalAS = 65000
		cfg.VtyshPath = fakeVtysh()
		cfg.VtyshSocket = d
		in.bgp = rt.NewBGPController(cfg, zap.NewNop())
	}
	return in
}

func (in *inst) Close() {
	if in.sri != nil {
		in.sri.Stop()
	}
	if in.srm != nil {
		in.srm.Stop()
	}
	if in.mgr != nil {
		in.mgr.Stop()
	}
	if in.bgp != nil {
		in.bgp.Stop()
		os.RemoveAll(in.dir)
	}
}

func toInt(v any) int {
	switch x := v.(type) {
	case int:
		return x
	case float64:
		return int(x)
	case int64:
		return int(x)
	case bool:
		if x {
			return 1
		}
	}
	return 0
}

func (in *inst) notePend(typ string, ip int, before int) {
	// an operation is queued for retry exactly when the manager sent a command and FRR refused it
	in.frr.mu.Lock()
	sent, fail := in.frr.cmds > before, in.frr.fail
	in.frr.mu.Unlock()
	if sent && fail {
		in.pend = append(in.pend, pendOp{typ, ip, 0})
	}
}

func (in *inst) Apply(ev core.Event) map[string]any {
	op := fmt.Sprint(ev["op"])
	x, ip, a := toInt(ev["s"]), toInt(ev["ip"]), toInt(ev["a"])
	var err error
	ctx := context.Background()
	cmds0 := 0
	if in.frr != nil {
		in.frr.mu.Lock()
		cmds0 = in.frr.cmds
		in.frr.mu.Unlock()
	}
	in.cbmu.Lock()
	in.cbs = nil
	in.cbmu.Unlock()
	switch in.s.Kind {
	case "srm", "sri":
		switch op {
		case "inject":
			err = in.srm.InjectRoute(ctx, sessOf(x), "sub-"+sessOf(x), ipOf(ip), "")
			in.notePend("i", ip, cmds0)
		case "withdraw":
			err = in.srm.WithdrawRoute(ctx, sessOf(x), ipOf(ip))
			in.notePend("w", ip, cmds0)
		case "activate":
			err = in.sri.OnSessionActivate(sessOf(x), "sub-"+sessOf(x), ipOf(ip), nil, "")
			in.notePend("i", ip, cmds0)
		case "terminate":
			err = in.sri.OnSessionTerminate(sessOf(x), "user-request")
			in.notePend("w", ip, cmds0)
		case "fail":
			in.frr.mu.Lock()
			in.frr.fail = a == 1
			in.frr.mu.Unlock()
		case "reset": // FRR restarts: its running configuration is gone
			in.frr.mu.Lock()
			in.frr.nets = map[string]bool{}
			in.frr.mu.Unlock()
		case "reconcile":
			if in.sri != nil {
				err = in.sri.RecoverRoutes(ctx)
			} else {
				err = in.srm.ReconcileRoutes(ctx)
			}
		case "adv":
			time.Sleep(retryInterval)
			synctest.Wait()
			in.frr.mu.Lock()
			fail := in.frr.fail
			in.frr.mu.Unlock()
			var rest []pendOp
			if fail {
				for _, p := range in.pend {
					p.R++
					if p.R < in.s.MaxR {
						rest = append(rest, p)
					}
				}
			}
			in.pend = rest
		default:
			panic("unknown op " + op)
		}
		synctest.Wait()
	case "mgr":
		switch op {
		case "addroute":
			err = in.mgr.AddRoute(&rt.Route{Destination: dstOf(ip), Gateway: gwOf(x), Interface: fmt.Sprintf("eth%d", x)})
		case "delroute":
			err = in.mgr.DeleteRoute(&rt.Route{Destination: dstOf(ip), Gateway: gwOf(x), Interface: fmt.Sprintf("eth%d", x)})
		case "fail":
			in.plat.mu.Lock()
			in.plat.fail = a == 1
			in.plat.mu.Unlock()
		case "addup":
			err = in.mgr.AddUpstream(&rt.Upstream{Name: upName(x), Interface: fmt.Sprintf("eth%d", x), Gateway: gwOf(x), HealthCheck: hcOf(x).String()})
		case "rmup":
			err = in.mgr.RemoveUpstream(upName(x))
		case "ping":
			in.plat.mu.Lock()
			in.plat.pingOK[hcOf(x).String()] = a == 1
			in.plat.mu.Unlock()
		case "adv":
			time.Sleep(healthInterval)
			synctest.Wait()
		default:
			panic("unknown op " + op)
		}
		synctest.Wait()
	case "bgp":
		switch op {
		case "announce":
			err = in.bgp.AnnouncePrefix(pfxOf(ip))
		case "unannounce":
			err = in.bgp.WithdrawPrefix(pfxOf(ip))
		case "fail":
			if a == 1 {
				os.WriteFile(filepath.Join(in.dir, "fail"), nil, 0o644)
			} else {
				os.Remove(filepath.Join(in.dir, "fail"))
			}
		default:
			panic("unknown op " + op)
		}
	}
	es := ""
	if err != nil {
		es = err.Error()
	}
	in.cbmu.Lock()
	cbs := append([]string{}, in.cbs...)
	in.cbmu.Unlock()
	sort.Strings(cbs)
	up, down := make([]int, in.s.NU), make([]int, in.s.NU)
	for _, c := range cbs {
		for u := 1; u <= in.s.NU; u++ {
			if c == "up:"+upName(u) {
				up[u-1]++
			}
			if c == "down:"+upName(u) {
				down[u-1]++
			}
		}
	}
	return map[string]any{"ok": err == nil, "err": es, "cbup": up, "cbdown": down}
}

func (in *inst) Observe() map[string]any {
	o := map[string]any{}
	switch in.s.Kind {
	case "srm", "sri":
		act := make([]int, in.s.NI)
		alien := 0
		for _, r := range in.srm.GetActiveRoutes() {
			i, sidx := 0, 0
			if r.IP.To4() != nil {
				i = int(r.IP.To4()[3])
			}
			fmt.Sscanf(r.SessionID, "sess-%d", &sidx)
			if i >= 1 && i <= in.s.NI && sidx >= 1 {
				act[i-1] = sidx
			} else {
				alien++
			}
		}
		fr := make([]int, in.s.NI)
		in.frr.mu.Lock()
		for k := range in.frr.nets {
			hit := false
			for i := 1; i <= in.s.NI; i++ {
				if k == ipOf(i).String()+"/32" {
					fr[i-1] = 1
					hit = true
				}
			}
			if !hit {
				alien++
			}
		}
		in.frr.mu.Unlock()
		o["act"], o["frr"], o["alien"], o["n"] = act, fr, alien, in.srm.Stats().RoutesActive
		trk := make([]int, in.s.NS)
		if in.sri != nil {
			it := core.Field(in.sri, "activeSessions").MapRange()
			for it.Next() {
				sidx := 0
				fmt.Sscanf(it.Key().String(), "sess-%d", &sidx)
				ip4 := core.FieldOf(it.Value().Elem(), "IPv4")
				b := ip4.Bytes()
				if sidx >= 1 && sidx <= in.s.NS && len(b) >= 4 {
					trk[sidx-1] = int(b[len(b)-1])
				}
			}
		}
		o["trk"] = trk
	case "mgr":
		tab := []string{}
		for _, r := range in.mgr.GetRoutes(254) {
			tab = append(tab, rkey(r))
		}
		sort.Strings(tab)
		in.plat.mu.Lock()
		pl := append([]string{}, in.plat.routes...)
		in.plat.mu.Unlock()
		sort.Strings(pl)
		// per (destination, gateway): copies in the manager's table, presence in the platform
		t2, p2 := make([][]int, in.s.NI), make([][]int, in.s.NI)
		for d := 1; d <= in.s.NI; d++ {
			t2[d-1], p2[d-1] = make([]int, in.s.NS), make([]int, in.s.NS)
			for g := 1; g <= in.s.NS; g++ {
				k := fmt.Sprintf("%d/%d", d, g)
				for _, x := range tab {
					if x == k {
						t2[d-1][g-1]++
					}
				}
				for _, x := range pl {
					if x == k {
						p2[d-1][g-1] = 1
					}
				}
			}
		}
		ups := make([]int, in.s.NU)
		for u := 1; u <= in.s.NU; u++ {
			if up, ok := in.mgr.GetUpstream(upName(u)); ok {
				ups[u-1] = 1 + int(up.State) // 1 unknown, 2 up, 3 down
			}
		}
		st := in.mgr.Stats()
		o["tab"], o["plat"], o["ups"], o["sup"], o["stot"], o["sroutes"] = t2, p2, ups, st.UpstreamsUp, st.UpstreamsTotal, st.RoutesTotal
	case "bgp":
		ann, fr := make([]int, in.s.NI), make([]int, in.s.NI)
		for _, a := range in.bgp.ListAnnouncements() {
			for i := 1; i <= in.s.NI; i++ {
				if a.Prefix.String() == pfxOf(i).String() {
					ann[i-1] = 1
				}
			}
		}
		for i := 1; i <= in.s.NI; i++ {
			if _, err := os.Stat(filepath.Join(in.dir, "net", strings.ReplaceAll(pfxOf(i).String(), "/", "_"))); err == nil {
				fr[i-1] = 1
			}
		}
		o["ann"], o["frr"], o["n"] = ann, fr, in.bgp.Stats().TotalAnnouncements
	}
	return o
}

var fpOpt = &core.FPOptions{SkipFields: map[string]bool{"stats": true, "InjectedAt": true, "LastRefresh": true, "LastSeen": true, "LastCheck": true,
	"LastSuccess": true, "RTT": true, "config": true, "ctx": true, "cancel": true, "VtyshSocket": true}}

func (in *inst) Fingerprint() string {
	ob, _ := json.Marshal(in.Observe())
	fp := string(ob)
	switch in.s.Kind {
	case "srm", "sri":
		in.frr.mu.Lock()
		fail := in.frr.fail
		in.frr.mu.Unlock()
		fp += fmt.Sprintf("|fail=%t|pend=%v|", fail, in.pend) + core.Fingerprint(in.srm, fpOpt)
		if in.sri != nil {
			fp += "|" + core.Fingerprint(core.Field(in.sri, "activeSessions").Interface(), fpOpt)
		}
	case "mgr":
		in.plat.mu.Lock()
		pk := []string{}
		for k, v := range in.plat.pingOK {
			pk = append(pk, fmt.Sprintf("%s=%t", k, v))
		}
		sort.Strings(pk)
		fp += fmt.Sprintf("|fail=%t|ping=%v|", in.plat.fail, pk)
		in.plat.mu.Unlock()
		// the health checker's hysteresis counters, saturated at the thresholds (3 failures / 2 successes)
		hc := core.Field(in.mgr, "healthChecker")
		if !hc.IsNil() {
			it := core.FieldOf(hc.Elem(), "targets").MapRange()
			hs := []string{}
			for it.Next() {
				t := it.Value().Elem()
				okc, fc := int(core.FieldOf(t, "ConsecutiveOK").Int()), int(core.FieldOf(t, "ConsecutiveFail").Int())
				if okc > 2 {
					okc = 2
				}
				if fc > 3 {
					fc = 3
				}
				hs = append(hs, fmt.Sprintf("%s:%t:%d:%d", it.Key().String(), core.FieldOf(t, "State").Bool(), okc, fc))
			}
			sort.Strings(hs)
			fp += fmt.Sprintf("hc=%v", hs)
		}
	case "bgp":
		_, err := os.Stat(filepath.Join(in.dir, "fail"))
		fp += fmt.Sprintf("|fail=%t", err == nil)
	}
	return fp
}

func (in *inst) Probe() map[string]any { return nil }
