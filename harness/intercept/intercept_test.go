//go:build verif

package intercept

import (
	"encoding/json"
	"fmt"
	"math/rand"
	"os"
	"strings"
	"testing"

	"verifharness/core"
)

type replayCase struct {
	ID     string         `json:"id"`
	System string         `json:"system"`
	Events []core.Event   `json:"events"`
	Cfg    map[string]any `json:"cfg"`
}

type replayFile struct {
	Property string       `json:"property"`
	Cases    []replayCase `json:"cases"`
}

type runStats struct {
	Systems     int                `json:"systems"`
	Nodes       int                `json:"nodes"`
	Edges       int                `json:"edges"`
	Chains      int                `json:"chains"`
	ChainEvents int                `json:"chain_events"`
	Closed      int                `json:"closed_systems"`
	Panics      []core.PanicRecord `json:"panics"`
	PerSystem   map[string][3]int  `json:"per_system"`
}

var (
	long  = [2]int{0, 1000}
	every = []string{"SUSPENDED", "ACTIVE", "REVOKED"}
)

// Catalogue: configurations whose transition tables are extracted (until closed).
func Catalogue(tier string) []*ISystem {
	l := []*ISystem{
		// the target indexes and MatchSession: three warrants with overlapping targets, every status
		{name: "idx", NW: 3, Buf: 2, Exp: []int{1}, Tg: [][4]int{{1, 0, 0, 0}, {1, 1, 0, 0}, {0, 1, 1, 0}}, Ty: []string{"IRI", "CC", "IRI+CC"}, Me: []int{1, 1, 1},
			Probes: [][4]int{{1, 0, 0, 0}, {0, 1, 0, 0}, {0, 0, 1, 0}, {1, 1, 1, 0}, {2, 2, 2, 0}, {2, 1, 0, 0}}, Wins: [][2]int{long}, Statuses: every, Bad: true},
		// validity periods and the expiry checker
		{name: "exp", NW: 2, Buf: 2, Exp: []int{1}, Tg: [][4]int{{1, 0, 0, 0}, {1, 0, 1, 0}}, Ty: []string{"IRI", "IRI+CC"}, Me: []int{1, 1},
			Probes: [][4]int{{1, 0, 0, 0}, {0, 0, 1, 0}}, Wins: [][2]int{{0, 1}, {1, 2}, {-2, -1}, {3, 1}}, Statuses: []string{"SUSPENDED", "ACTIVE"}, Time: true},
		// sessions, records and delivery: two exporters, one can be held; a warrant whose method has no exporter; removal while records wait
		{name: "dlv", NW: 2, NS: 1, Buf: 1, Exp: []int{1, 2}, Tg: [][4]int{{1, 0, 0, 0}, {0, 1, 0, 0}}, Ty: []string{"IRI+CC", "IRI"}, Me: []int{1, 2},
			Probes: [][4]int{{1, 1, 0, 0}}, Wins: [][2]int{long}, Evts: []string{"AUTH_SUCCESS"}, Lens: []int{100}, Hold: []int{1}},
		{name: "dlv-fail", NW: 1, NS: 1, Buf: 1, Exp: []int{1}, Tg: [][4]int{{1, 0, 0, 0}}, Ty: []string{"IRI+CC"}, Me: []int{1},
			Probes: [][4]int{{1, 0, 0, 0}}, Wins: [][2]int{long}, Lens: []int{1400}, Hold: []int{1}, Fail: []int{1}},
		{name: "dlv-rm", NW: 2, NS: 1, Buf: 1, Exp: []int{1}, Tg: [][4]int{{1, 0, 0, 0}, {1, 0, 0, 0}}, Ty: []string{"CC", "IRI+CC"}, Me: []int{1, 3},
			Probes: [][4]int{{1, 0, 0, 0}}, Wins: [][2]int{long}, Lens: []int{60}, Hold: []int{1}},
		// systems in which the proposed findings live
		{name: "act-status", NW: 1, NS: 1, Buf: 2, Exp: []int{1}, Tg: [][4]int{{1, 0, 0, 0}}, Ty: []string{"IRI+CC"}, Me: []int{1},
			Probes: [][4]int{{1, 0, 0, 0}}, Wins: [][2]int{{0, 1}}, Statuses: []string{"SUSPENDED", "REVOKED", "ACTIVE"}, Evts: []string{"AUTH_SUCCESS"}, Lens: []int{100}, Time: true, Strict: true},
		{name: "ip6", NW: 2, Buf: 2, Exp: []int{1}, Tg: [][4]int{{0, 0, 0, 1}, {1, 0, 0, 1}}, Ty: []string{"IRI", "IRI"}, Me: []int{1, 1},
			Probes: [][4]int{{0, 0, 0, 1}, {1, 0, 0, 1}, {2, 0, 0, 1}, {1, 0, 0, 2}}, Wins: [][2]int{long}, Statuses: []string{"SUSPENDED", "ACTIVE"}},
		{name: "readd", NW: 2, Buf: 2, Exp: []int{1}, Tg: [][4]int{{1, 0, 0, 0}, {1, 1, 0, 0}}, Ty: []string{"IRI", "IRI"}, Me: []int{1, 1},
			Probes: [][4]int{{1, 0, 0, 0}, {0, 1, 0, 0}}, Wins: [][2]int{long}, Statuses: []string{"REVOKED"}, Readd: true, MaxDepth: 5},
		{name: "ses-two", NW: 2, NS: 1, Buf: 4, Exp: []int{1}, Tg: [][4]int{{1, 0, 0, 0}, {1, 1, 0, 0}}, Ty: []string{"IRI", "IRI+CC"}, Me: []int{1, 1},
			Probes: [][4]int{{1, 1, 0, 0}}, Wins: [][2]int{long}, Lens: []int{100}, Restart: true, MaxDepth: 6},
	}
	if tier == "thorough" {
		l = append(l,
			&ISystem{name: "idx-big", NW: 4, Buf: 2, Exp: []int{1}, Tg: [][4]int{{1, 0, 0, 0}, {1, 1, 0, 0}, {0, 1, 1, 0}, {1, 1, 1, 0}}, Ty: []string{"IRI", "CC", "IRI+CC", "IRI"}, Me: []int{1, 1, 1, 1},
				Probes: [][4]int{{1, 0, 0, 0}, {0, 1, 0, 0}, {0, 0, 1, 0}, {1, 1, 1, 0}, {2, 2, 2, 0}}, Wins: [][2]int{long}, Statuses: []string{"SUSPENDED", "ACTIVE"}},
			&ISystem{name: "exp-big", NW: 2, NS: 1, Buf: 2, Exp: []int{1}, Tg: [][4]int{{1, 0, 0, 0}, {1, 0, 1, 0}}, Ty: []string{"IRI", "IRI+CC"}, Me: []int{1, 1},
				Probes: [][4]int{{1, 0, 0, 0}, {0, 0, 1, 0}}, Wins: [][2]int{{0, 2}, {2, 3}, {1, 1}, {-1, 0}}, Statuses: []string{"SUSPENDED", "ACTIVE", "REVOKED"}, Time: true},
			&ISystem{name: "dlv-all", NW: 2, NS: 1, Buf: 1, Exp: []int{1, 2}, Tg: [][4]int{{1, 0, 0, 0}, {0, 1, 0, 0}}, Ty: []string{"IRI+CC", "IRI"}, Me: []int{1, 2},
				Probes: [][4]int{{1, 1, 0, 0}}, Wins: [][2]int{long}, Evts: []string{"AUTH_SUCCESS"}, Lens: []int{100}, Hold: []int{1}, Fail: []int{1}},
			&ISystem{name: "dlv-big", NW: 2, NS: 2, Buf: 2, Exp: []int{1, 2}, Tg: [][4]int{{1, 0, 0, 0}, {1, 1, 0, 0}}, Ty: []string{"IRI+CC", "IRI"}, Me: []int{1, 2},
				Probes: [][4]int{{1, 1, 0, 0}}, Wins: [][2]int{long}, Evts: []string{"AUTH_SUCCESS"}, Lens: []int{100}, Hold: []int{1}, Fail: []int{2}},
		)
	}
	return l
}

// ChainCatalogue: configurations driven by long seeded random sequences.
func ChainCatalogue() []*ISystem {
	return []*ISystem{
		{name: "rnd-all", NW: 4, NS: 3, Buf: 3, Exp: []int{1, 2}, Tg: [][4]int{{1, 0, 0, 0}, {1, 1, 0, 0}, {0, 2, 1, 0}, {2, 0, 1, 0}}, Ty: []string{"IRI+CC", "IRI", "CC", "IRI+CC"}, Me: []int{1, 2, 1, 3},
			Probes: [][4]int{{1, 0, 0, 0}, {0, 1, 0, 0}, {0, 0, 1, 0}, {1, 1, 1, 0}, {2, 2, 2, 0}, {2, 2, 1, 0}}, Wins: [][2]int{{0, 3}, {2, 6}, {0, 40}, {-3, -1}, {1, 1}},
			Statuses: every, Evts: []string{"AUTH_SUCCESS", "NAT_MAPPING", "DHCP_ALLOCATE"}, Lens: []int{60, 1400}, Hold: []int{1, 2}, Fail: []int{1, 2}, Time: true, Bad: true},
		{name: "rnd-strict", NW: 2, NS: 2, Buf: 3, Exp: []int{1}, Tg: [][4]int{{1, 0, 0, 0}, {1, 1, 0, 0}}, Ty: []string{"IRI+CC", "CC"}, Me: []int{1, 1},
			Probes: [][4]int{{1, 1, 0, 0}}, Wins: [][2]int{{0, 3}, {0, 40}}, Statuses: every, Evts: []string{"AUTH_SUCCESS"}, Lens: []int{60}, Time: true, Strict: true},
	}
}

func find(name string) *ISystem {
	for _, s := range append(Catalogue("thorough"), ChainCatalogue()...) {
		if s.name == name {
			return s
		}
	}
	return nil
}

// randomChain draws events; time advances are as likely as a fifth of all other events together.
func randomChain(sys *ISystem, rng *rand.Rand, n int) []core.Event {
	evs := sys.Events()
	var weighted []core.Event
	for _, e := range evs {
		w := 1
		switch e["op"] {
		case "adv":
			w = len(evs) / 6
		case "start", "add":
			w = 2
		}
		if w < 1 {
			w = 1
		}
		for i := 0; i < w; i++ {
			weighted = append(weighted, e)
		}
	}
	var out []core.Event
	for len(out) < n {
		out = append(out, weighted[rng.Intn(len(weighted))])
	}
	return out
}

func tally(st *runStats, bundle *core.Bundle, tab *core.Table, name string) {
	bundle.Systems = append(bundle.Systems, tab)
	ne := 0
	for _, es := range tab.Edges {
		ne += len(es)
	}
	c := 0
	if tab.Closed {
		c = 1
		st.Closed++
	}
	st.PerSystem[name] = [3]int{len(tab.Nodes), ne, c}
	st.Systems++
	st.Nodes += len(tab.Nodes)
	st.Edges += ne
}

func TestExplore(t *testing.T) {
	theT = t
	defer func() {
		harnessErrs.Lock()
		defer harnessErrs.Unlock()
		if len(harnessErrs.l) > 0 {
			t.Fatalf("harness cannot represent the observed behaviour (infrastructure failure, not a verdict):\n%s", strings.Join(harnessErrs.l, "\n"))
		}
	}()
	out := core.OutDir()
	if rf := os.Getenv("VERIF_REPLAY"); rf != "" {
		replay(t, rf, out)
		return
	}
	tier := core.Tier()
	seed := core.Seed()
	maxNodes := 3000
	if v := os.Getenv("VERIF_MAXNODES"); v != "" {
		fmt.Sscan(v, &maxNodes)
	}
	nchains, chainLen := 8, 120
	if tier == "thorough" {
		maxNodes = 3000
		nchains, chainLen = 50, 300
	}
	bundle := &core.Bundle{}
	st := runStats{PerSystem: map[string][3]int{}}
	for _, sys := range Catalogue(tier) {
		if only := os.Getenv("VERIF_ONLY"); only != "" && only != sys.Name() {
			continue
		}
		// bubbles strictly one after the other (go1.25.0 bubbles must not overlap, see system.go)
		tab, panics, err := core.Explore(sys, core.ExploreOptions{MaxDepth: sys.MaxDepth, MaxNodes: maxNodes, AdequacySample: 15, Seed: seed, Workers: 1})
		if err != nil {
			t.Fatalf("explore %s: %v", sys.Name(), err)
		}
		st.Panics = append(st.Panics, panics...)
		tally(&st, bundle, tab, sys.Name())
	}
	rng := rand.New(rand.NewSource(seed))
	for _, sys := range ChainCatalogue() {
		if only := os.Getenv("VERIF_ONLY"); only != "" && only != sys.Name() {
			continue
		}
		n, l := nchains, chainLen
		if sys.Strict {
			n, l = 2*nchains, 40 // a walk ends at the first violation: many short ones
		}
		for c := 0; c < n; c++ {
			seqv := randomChain(sys, rng, l)
			tab, pr := core.Chain(sys, fmt.Sprintf("%s#%d", sys.Name(), c), seqv, false)
			if pr != nil {
				st.Panics = append(st.Panics, *pr)
				continue
			}
			bundle.Systems = append(bundle.Systems, tab)
			st.Chains++
			st.ChainEvents += len(seqv)
		}
	}
	// histories found by TLC on the implementation-shaped design spec, executed on the real code
	if xf := os.Getenv("VERIF_EXTRA_CASES"); xf != "" {
		b, err := os.ReadFile(xf)
		if err != nil {
			t.Fatal(err)
		}
		var rf replayFile
		if err := json.Unmarshal(b, &rf); err != nil {
			t.Fatal(err)
		}
		for _, c := range rf.Cases {
			sys := fromCfg(c.System, c.Cfg)
			if sys == nil {
				t.Fatalf("extra case %s: no configuration", c.ID)
			}
			evs := clean(c.Events)
			tab, pr := core.Chain(sys, c.System+"#"+c.ID, evs, false)
			if pr != nil {
				st.Panics = append(st.Panics, *pr)
				continue
			}
			bundle.Systems = append(bundle.Systems, tab)
			st.Chains++
			st.ChainEvents += len(evs)
		}
	}
	if err := core.WriteJSON(out, "bundle.json", bundle); err != nil {
		t.Fatal(err)
	}
	if err := core.WriteJSON(out, "stats.json", st); err != nil {
		t.Fatal(err)
	}
}

// clean keeps only the alphabet part of recorded events (results are observed afresh).
func clean(in []core.Event) []core.Event {
	evs := make([]core.Event, 0, len(in))
	for _, e := range in {
		evs = append(evs, mk(toStr(e["op"]), toInt(e["w"]), toInt(e["s"]), toInt(e["a"]), toInt(e["b"]), toStr(e["bad"]), toStr(e["st"]), toInt(e["m"]), toBool(e["on"]),
			toStr(e["evt"]), toInt(e["len"])))
	}
	return evs
}

func replay(t *testing.T, file, out string) {
	b, err := os.ReadFile(file)
	if err != nil {
		t.Fatal(err)
	}
	var rf replayFile
	if err := json.Unmarshal(b, &rf); err != nil {
		t.Fatal(err)
	}
	st := runStats{PerSystem: map[string][3]int{}}
	bundle := &core.Bundle{}
	for _, c := range rf.Cases {
		name := c.System
		if i := strings.IndexByte(name, '#'); i >= 0 {
			name = name[:i]
		}
		sys := find(name)
		if sys == nil {
			sys = fromCfg(name, c.Cfg)
		}
		if sys == nil {
			t.Fatalf("unknown system %q", c.System)
		}
		evs := clean(c.Events)
		tab, pr := core.Chain(sys, name+"#"+c.ID, evs, false)
		if pr != nil {
			st.Panics = append(st.Panics, *pr)
			continue
		}
		bundle.Systems = append(bundle.Systems, tab)
		st.Chains++
		st.ChainEvents += len(evs)
	}
	if err := core.WriteJSON(out, "bundle.json", bundle); err != nil {
		t.Fatal(err)
	}
	core.WriteJSON(out, "stats.json", st)
}
