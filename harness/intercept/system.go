//go:build verif

// Package intercept binds the Intercept contract (specs/Intercept) to the real lawful-intercept
// Manager of /repo (pkg/intercept: manager.go, types.go). Time is the virtual clock of a
// testing/synctest bubble (every replay its own bubble, bubbles strictly one after the other): the
// real expiry ticker and the real delivery goroutines run. The exporters are recording exporters of
// the harness that can be held (a mediation device that does not take data) and made to fail. The
// harness executes, observes and projects; it judges nothing.
package intercept

import (
	"errors"
	"fmt"
	"net"
	"reflect"
	"runtime"
	"runtime/debug"
	"sort"
	"strings"
	"sync"
	"testing"
	"testing/synctest"
	"time"

	li "github.com/codelaboratoryltd/bng/pkg/intercept"
	"go.uber.org/zap"
	"go.uber.org/zap/zapcore"
	"go.uber.org/zap/zaptest/observer"

	"context"

	"verifharness/core"
)

// One unit of the specification's time = 30 s of virtual time; the manager's expiry checker ticks
// once a minute (2 units). A warrant added with window (a, b) is valid from now + a units - 15 s until
// now + b units + 15 s: the harness advances time by whole units only, so the clock never stands on a
// boundary of a validity period (the contract leaves those instants open).
const (
	UnitSec = 30
	Unit    = UnitSec * time.Second
	TickU   = 2
)

var theT *testing.T

var harnessErrs struct {
	sync.Mutex
	l []string
}

func harnessFail(msg string) {
	harnessErrs.Lock()
	if len(harnessErrs.l) < 20 {
		harnessErrs.l = append(harnessErrs.l, msg)
	}
	harnessErrs.Unlock()
}

// go1.25.0: the first WaitGroup.Add inside a bubble (Manager.Start) allocates a "bubble special"
// without holding the allocator's lock (see harness/failover). Bubbles of this harness never run
// concurrently; the collector is switched off and run between bubbles.
func init() { debug.SetGCPercent(-1) }

var wraps int

var methods = []li.DeliveryMethod{li.DeliveryETSI, li.DeliveryPCAP, li.DeliverySyslog, li.DeliveryJSONHTTPS}

// ISystem is one configuration.
type ISystem struct {
	name     string
	NW       int        // warrant slots (ids w1..)
	NS       int        // session slots (ids s1..)
	Buf      int        // DeliveryBufferSize
	Exp      []int      // delivery methods (1-based index into methods) that have an exporter
	Tg       [][4]int   // slot -> target (subscriber, MAC, IPv4, IPv6), 0 = not set
	Ty       []string   // slot -> warrant type
	Me       []int      // slot -> delivery method
	Probes   [][4]int   // the sessions MatchSession is asked about after every step
	Wins     [][2]int   // validity windows (a, b) in the alphabet
	Statuses []string   // statuses UpdateWarrantStatus is called with
	Evts     []string   // IRI event types in the alphabet
	Lens     []int      // CC payload lengths in the alphabet
	Hold     []int      // methods whose exporter can be held / released
	Fail     []int      // methods whose exporter can be made to fail / work
	Time     bool       // "adv" in the alphabet
	Bad      bool       // invalid warrants in the alphabet
	Readd    bool       // AddWarrant is also called with the id of a warrant that is stored
	Restart  bool       // StartInterceptSession is also called with the id of a session that exists
	Strict   bool       // the contract's clause ActiveOnly is judged in this system
	MaxDepth int
}

func (s *ISystem) Name() string { return s.name }

func (s *ISystem) Config() map[string]any {
	tg := []map[string]int{}
	for _, t := range s.Tg {
		tg = append(tg, map[string]int{"sub": t[0], "mac": t[1], "ip4": t[2], "ip6": t[3]})
	}
	pr := []map[string]int{}
	for _, t := range s.Probes {
		pr = append(pr, map[string]int{"sub": t[0], "mac": t[1], "ip4": t[2], "ip6": t[3]})
	}
	wins := [][]int{}
	for _, w := range s.Wins {
		wins = append(wins, []int{w[0], w[1]})
	}
	tick := 0
	if s.Time {
		tick = TickU
	}
	return map[string]any{"impl": s.name, "nw": s.NW, "ns": s.NS, "buf": s.Buf, "exp": append([]int{}, s.Exp...), "tg": tg, "ty": append([]string{}, s.Ty...),
		"me": append([]int{}, s.Me...), "probes": pr, "wins": wins, "statuses": append([]string{}, s.Statuses...), "evts": append([]string{}, s.Evts...),
		"lens": append([]int{}, s.Lens...), "hold": append([]int{}, s.Hold...), "fail": append([]int{}, s.Fail...), "time": s.Time, "tick": tick, "bad": s.Bad,
		"readd": s.Readd, "restart": s.Restart, "strict": s.Strict, "unit": UnitSec, "nsubs": 0}
}

func toInt(v any) int {
	switch x := v.(type) {
	case int:
		return x
	case int64:
		return int(x)
	case float64:
		return int(x)
	}
	return 0
}

func toBool(v any) bool { b, _ := v.(bool); return b }

func toStr(v any) string {
	if v == nil {
		return ""
	}
	return fmt.Sprint(v)
}

func ints(v any) []int {
	out := []int{}
	if l, ok := v.([]any); ok {
		for _, x := range l {
			out = append(out, toInt(x))
		}
	}
	return out
}

func strs(v any) []string {
	out := []string{}
	if l, ok := v.([]any); ok {
		for _, x := range l {
			out = append(out, toStr(x))
		}
	}
	return out
}

func quads(v any) [][4]int {
	out := [][4]int{}
	if l, ok := v.([]any); ok {
		for _, x := range l {
			if m, ok := x.(map[string]any); ok {
				out = append(out, [4]int{toInt(m["sub"]), toInt(m["mac"]), toInt(m["ip4"]), toInt(m["ip6"])})
			}
		}
	}
	return out
}

// fromCfg rebuilds a system from the cfg of a replay case (design counterexamples carry their own constants).
func fromCfg(name string, cfg map[string]any) *ISystem {
	if cfg == nil || cfg["nw"] == nil || cfg["tg"] == nil {
		return nil
	}
	s := &ISystem{name: name, NW: toInt(cfg["nw"]), NS: toInt(cfg["ns"]), Buf: toInt(cfg["buf"]), Exp: ints(cfg["exp"]), Tg: quads(cfg["tg"]), Ty: strs(cfg["ty"]),
		Me: ints(cfg["me"]), Probes: quads(cfg["probes"]), Statuses: strs(cfg["statuses"]), Evts: strs(cfg["evts"]), Lens: ints(cfg["lens"]), Hold: ints(cfg["hold"]),
		Fail: ints(cfg["fail"]), Time: toBool(cfg["time"]), Bad: toBool(cfg["bad"]), Readd: toBool(cfg["readd"]), Restart: toBool(cfg["restart"]), Strict: toBool(cfg["strict"])}
	if l, ok := cfg["wins"].([]any); ok {
		for _, p := range l {
			if pp, ok := p.([]any); ok && len(pp) == 2 {
				s.Wins = append(s.Wins, [2]int{toInt(pp[0]), toInt(pp[1])})
			}
		}
	}
	return s
}

func mk(op string, w, sn, a, b int, bad, st string, m int, on bool, evt string, ln int) core.Event {
	return core.Event{"op": op, "w": w, "s": sn, "a": a, "b": b, "bad": bad, "st": st, "m": m, "on": on, "evt": evt, "len": ln}
}

var badKinds = []string{"noliid", "notype", "nofrom", "nountil", "reversed", "notarget"}

func (s *ISystem) Events() []core.Event {
	var evs []core.Event
	for w := 1; w <= s.NW; w++ {
		for _, wn := range s.Wins {
			evs = append(evs, mk("add", w, 0, wn[0], wn[1], "", "", 0, false, "", 0))
		}
		evs = append(evs, mk("rm", w, 0, 0, 0, "", "", 0, false, "", 0))
		for _, st := range s.Statuses {
			evs = append(evs, mk("st", w, 0, 0, 0, "", st, 0, false, "", 0))
		}
	}
	if s.Bad {
		for _, b := range badKinds {
			evs = append(evs, mk("add", 1, 0, 0, 5, b, "", 0, false, "", 0))
		}
	}
	for sn := 1; sn <= s.NS; sn++ {
		for w := 1; w <= s.NW; w++ {
			evs = append(evs, mk("start", w, sn, 0, 0, "", "", 0, false, "", 0))
		}
		evs = append(evs, mk("stop", 0, sn, 0, 0, "", "", 0, false, "", 0))
		for _, e := range s.Evts {
			evs = append(evs, mk("iri", 0, sn, 0, 0, "", "", 0, false, e, 0))
		}
		for _, l := range s.Lens {
			evs = append(evs, mk("cc", 0, sn, 0, 0, "", "", 0, false, "", l))
		}
	}
	for _, m := range s.Hold {
		evs = append(evs, mk("hold", 0, 0, 0, 0, "", "", m, false, "", 0), mk("rel", 0, 0, 0, 0, "", "", m, false, "", 0))
	}
	for _, m := range s.Fail {
		evs = append(evs, mk("fail", 0, 0, 0, 0, "", "", m, true, "", 0), mk("fail", 0, 0, 0, 0, "", "", m, false, "", 0))
	}
	if s.Time {
		evs = append(evs, mk("adv", 0, 0, 0, 0, "", "", 0, false, "", 0))
	}
	return evs
}

func (s *ISystem) Wrap(f func()) {
	wraps++
	if wraps%2000 == 0 {
		runtime.GC()
	}
	synctest.Test(theT, func(t *testing.T) { f() })
}

// --- the recording exporter ------------------------------------------------------------------

type entry struct {
	m   int    // exporter (delivery method) that was called
	rec *li.InterceptRecord
}

type recExporter struct {
	in *inst
	m  int
}

func (x *recExporter) Name() string { return fmt.Sprintf("rec-%d", x.m) }
func (x *recExporter) DeliverIRI(ctx context.Context, r *li.InterceptRecord) error {
	return x.in.deliver(x.m, "IRI", r)
}
func (x *recExporter) DeliverCC(ctx context.Context, r *li.InterceptRecord) error {
	return x.in.deliver(x.m, "CC", r)
}
func (x *recExporter) Close() error { return nil }

// deliver logs the call on entry, parks the calling (delivery) goroutine while the exporter is held and
// answers with an error while it is set to fail.
func (in *inst) deliver(m int, iface string, r *li.InterceptRecord) error {
	in.mu.Lock()
	in.log[iface] = append(in.log[iface], entry{m, r})
	for in.hold[m] {
		in.parked[iface]++
		in.cond.Wait()
		in.parked[iface]--
	}
	fail := in.fail[m]
	in.mu.Unlock()
	if fail {
		return errors.New("mediation device refused the record")
	}
	return nil
}

// --- instance --------------------------------------------------------------------------------

type sesRef struct {
	ses *li.InterceptSession
	w   *li.Warrant
}

type inst struct {
	s    *ISystem
	mgr  *li.Manager
	logs *observer.ObservedLogs
	t0   time.Time

	mu     sync.Mutex
	cond   *sync.Cond
	log    map[string][]entry
	parked map[string]int
	hold   map[int]bool
	fail   map[int]bool

	ses map[int]sesRef // what a caller holds: the session object StartInterceptSession returned and the warrant it was started for
	// only for the fingerprint: what was accepted for delivery / handed over since the interface was last idle with an empty queue
	shadow map[string][]string
}

func wid(w int) string { return fmt.Sprintf("w%d", w) }
func sid(s int) string { return fmt.Sprintf("s%d", s) }

func slotOf(prefix, id string) int {
	var n int
	if strings.HasPrefix(id, prefix) {
		if _, err := fmt.Sscanf(id[len(prefix):], "%d", &n); err == nil {
			return n
		}
	}
	return 0
}

func macOf(k int) net.HardwareAddr { return net.HardwareAddr{0x02, 0, 0, 0, 0, byte(k)} }
func ip4Of(k int) net.IP           { return net.IPv4(10, 0, 0, byte(k)) }
func ip6Of(k int) net.IP           { return net.ParseIP(fmt.Sprintf("2001:db8::%x", k)) }
func subOf(k int) string           { return fmt.Sprintf("sub-%d", k) }

func (s *ISystem) New() core.Instance {
	in := &inst{s: s, t0: time.Now(), log: map[string][]entry{}, parked: map[string]int{}, hold: map[int]bool{}, fail: map[int]bool{},
		ses: map[int]sesRef{}, shadow: map[string][]string{}}
	in.cond = sync.NewCond(&in.mu)
	oc, logs := observer.New(zapcore.WarnLevel)
	in.logs = logs
	cfg := li.DefaultConfig()
	cfg.Enabled = true
	cfg.OperatorID = "verif"
	cfg.DeliveryBufferSize = s.Buf
	in.mgr = li.NewManager(cfg, zap.New(oc))
	for _, m := range s.Exp {
		in.mgr.AddExporter(methods[m-1], &recExporter{in, m})
	}
	if err := in.mgr.Start(); err != nil {
		panic(err)
	}
	synctest.Wait() // the three goroutines are parked; the expiry ticker ticks at whole minutes from now
	return in
}

func (in *inst) Close() {
	in.mu.Lock()
	for m := range in.hold {
		in.hold[m] = false
	}
	in.cond.Broadcast()
	in.mu.Unlock()
	in.mgr.Stop()
}

func (in *inst) warrant(w, a, b int, bad string) *li.Warrant {
	now := time.Now()
	t := in.s.Tg[w-1]
	wr := &li.Warrant{ID: wid(w), LIID: "LIID-" + wid(w), Type: li.WarrantType(in.s.Ty[w-1]), AuthorityRef: "ref", IssuingBody: "lea",
		ValidFrom: now.Add(time.Duration(a)*Unit - Unit/2), ValidUntil: now.Add(time.Duration(b)*Unit + Unit/2),
		DeliveryMethod: methods[in.s.Me[w-1]-1]}
	if t[0] != 0 {
		wr.TargetSubscriberID = subOf(t[0])
	}
	if t[1] != 0 {
		wr.TargetMAC = macOf(t[1])
	}
	if t[2] != 0 {
		wr.TargetIPv4 = ip4Of(t[2])
	}
	if t[3] != 0 {
		wr.TargetIPv6 = ip6Of(t[3])
	}
	switch bad {
	case "noliid":
		wr.LIID = ""
	case "notype":
		wr.Type = ""
	case "nofrom":
		wr.ValidFrom = time.Time{}
	case "nountil":
		wr.ValidUntil = time.Time{}
	case "reversed":
		wr.ValidFrom, wr.ValidUntil = now.Add(3*Unit), now.Add(Unit)
	case "notarget":
		wr.TargetSubscriberID, wr.TargetMAC, wr.TargetIPv4, wr.TargetIPv6 = "", nil, nil, nil
	}
	return wr
}

func (in *inst) stored(w int) *li.Warrant {
	wr, err := in.mgr.GetWarrant(wid(w))
	if err != nil {
		return nil
	}
	return wr
}

func (in *inst) match(t [4]int) []*li.Warrant {
	var sub string
	var mac net.HardwareAddr
	var ip4, ip6 net.IP
	if t[0] != 0 {
		sub = subOf(t[0])
	}
	if t[1] != 0 {
		mac = macOf(t[1])
	}
	if t[2] != 0 {
		ip4 = ip4Of(t[2])
	}
	if t[3] != 0 {
		ip6 = ip6Of(t[3])
	}
	return in.mgr.MatchSession(sub, mac, ip4, ip6)
}

func (in *inst) chanLen(name string) int { return core.Field(in.mgr, name).Len() }

func (in *inst) countLogs(msg string) int {
	n := 0
	for _, e := range in.logs.All() {
		if strings.Contains(e.Message, msg) {
			n++
		}
	}
	return n
}

func (in *inst) project(es []entry) []map[string]any {
	out := []map[string]any{}
	for _, e := range es {
		out = append(out, map[string]any{"m": e.m, "w": slotOf("w", e.rec.WarrantID), "ev": string(e.rec.EventType), "s": slotOf("s", e.rec.SessionID),
			"len": e.rec.PayloadSize, "rt": string(e.rec.RecordType)})
	}
	return out
}

func (in *inst) Apply(ev core.Event) map[string]any {
	op := toStr(ev["op"])
	w, sn, a, b, m := toInt(ev["w"]), toInt(ev["s"]), toInt(ev["a"]), toInt(ev["b"]), toInt(ev["m"])
	bad, st, evt := toStr(ev["bad"]), toStr(ev["st"]), toStr(ev["evt"])
	ln, on := toInt(ev["len"]), toBool(ev["on"])
	r := map[string]any{"ok": true, "skip": false, "di": 0, "dc": 0, "dri": 0, "drc": 0, "dli": []map[string]any{}, "dlc": []map[string]any{}, "db": 0, "de": 0, "dt": 0}
	st0 := in.mgr.Stats()
	in.mu.Lock()
	in.log = map[string][]entry{}
	in.mu.Unlock()
	dropI0, dropC0 := in.countLogs("IRI delivery buffer full"), in.countLogs("CC delivery buffer full")
	rw := w // the warrant slot a record produced by this call belongs to (fingerprint bookkeeping only)
	if op == "stop" || op == "iri" || op == "cc" {
		rw = 0
		if x, ok := in.mgr.GetSession(sid(sn)); ok && x != nil {
			rw = slotOf("w", x.WarrantID)
		}
		if ref, held := in.ses[sn]; held && op != "stop" {
			rw = slotOf("w", ref.w.ID)
		}
	}
	switch op {
	case "add":
		if bad == "" && in.stored(w) != nil && !in.s.Readd {
			r["skip"] = true // a caller that adds a warrant id only while it is not stored
			break
		}
		r["ok"] = in.mgr.AddWarrant(in.warrant(w, a, b, bad)) == nil
	case "rm":
		r["ok"] = in.mgr.RemoveWarrant(wid(w)) == nil
	case "st":
		r["ok"] = in.mgr.UpdateWarrantStatus(wid(w), li.WarrantStatus(st)) == nil
	case "adv":
		time.Sleep(Unit)
		r["dt"] = 1
	case "start":
		// a caller starts interception of a session for the warrants MatchSession names for it at that instant
		var wr *li.Warrant
		for _, x := range in.match(in.s.Tg[w-1]) {
			if x.ID == wid(w) {
				wr = x
				break
			}
		}
		if _, exists := in.mgr.GetSession(sid(sn)); wr == nil || (exists && !in.s.Restart) {
			r["skip"] = true
			break
		}
		t := in.s.Tg[w-1]
		var mac net.HardwareAddr
		var ip4, ip6 net.IP
		if t[1] != 0 {
			mac = macOf(t[1])
		}
		if t[2] != 0 {
			ip4 = ip4Of(t[2])
		}
		if t[3] != 0 {
			ip6 = ip6Of(t[3])
		}
		s := in.mgr.StartInterceptSession(wr, sid(sn), subOf(t[0]), mac, ip4, ip6)
		in.ses[sn] = sesRef{s, wr}
	case "stop":
		in.mgr.StopInterceptSession(sid(sn))
		delete(in.ses, sn)
	case "iri", "cc":
		// a caller reports events / traffic of a session it has started and not stopped, with the objects it holds
		ref, held := in.ses[sn]
		if _, exists := in.mgr.GetSession(sid(sn)); !held || !exists {
			r["skip"] = true
			break
		}
		if op == "iri" {
			in.mgr.RecordIRI(ref.w, li.IRIEventType(evt), ref.ses, nil)
		} else {
			in.mgr.RecordCC(ref.w, ref.ses, li.DirectionUplink, ip4Of(1), ip4Of(200), 1000, 443, 6, make([]byte, ln))
		}
	case "hold":
		in.mu.Lock()
		in.hold[m] = true
		in.mu.Unlock()
	case "rel":
		in.mu.Lock()
		in.hold[m] = false
		in.cond.Broadcast()
		in.mu.Unlock()
	case "fail":
		in.mu.Lock()
		in.fail[m] = on
		in.mu.Unlock()
	default:
		harnessFail("unknown op " + op)
	}
	synctest.Wait() // the delivery goroutines and the expiry checker have done what they can do
	st1 := in.mgr.Stats()
	r["di"], r["dc"] = int(st1.TotalIRIRecords-st0.TotalIRIRecords), int(st1.TotalCCRecords-st0.TotalCCRecords)
	r["db"], r["de"] = int(st1.TotalBytesDelivered-st0.TotalBytesDelivered), int(st1.DeliveryErrors-st0.DeliveryErrors)
	dri, drc := in.countLogs("IRI delivery buffer full")-dropI0, in.countLogs("CC delivery buffer full")-dropC0
	r["dri"], r["drc"] = dri, drc
	in.mu.Lock()
	li_, lc := in.log["IRI"], in.log["CC"]
	pI, pC := in.parked["IRI"], in.parked["CC"]
	in.mu.Unlock()
	r["dli"], r["dlc"] = in.project(li_), in.project(lc)
	// fingerprint bookkeeping only: the queues are first-in first-out, so what still waits (in the channel or in the hands of a
	// parked delivery goroutine) are the last chanLen + parked records that were accepted
	if n := toInt(r["di"]) - dri; n > 0 {
		in.shadow["IRI"] = append(in.shadow["IRI"], fmt.Sprintf("%s/%d/%d/%s", op, rw, sn, evt))
	}
	if n := toInt(r["dc"]) - drc; n > 0 {
		in.shadow["CC"] = append(in.shadow["CC"], fmt.Sprintf("%s/%d/%d/%d", op, rw, sn, ln))
	}
	trim := func(iface string, n int) {
		if l := in.shadow[iface]; len(l) > n {
			in.shadow[iface] = append([]string{}, l[len(l)-n:]...)
		}
	}
	trim("IRI", in.chanLen("iriChan")+pI)
	trim("CC", in.chanLen("ccChan")+pC)
	return r
}

type idxEntry struct {
	kind string
	key  int
	w    int
	live bool
}

// index reads one of the manager's unexported target indexes by reflection: every entry of every slice, in slice order.
func (in *inst) index(field, kind string) (out []idxEntry, order string) {
	v := reflect.ValueOf(in.mgr).Elem().FieldByName(field)
	if !v.IsValid() {
		return nil, ""
	}
	mp := core.Field(in.mgr, field)
	keys := []string{}
	for _, k := range mp.MapKeys() {
		keys = append(keys, k.String())
	}
	sort.Strings(keys)
	var sb strings.Builder
	for _, k := range keys {
		key := -1
		switch kind {
		case "sub":
			key = slotOf("sub-", k)
		case "mac":
			if hw, err := net.ParseMAC(k); err == nil && len(hw) == 6 {
				key = int(hw[5])
			}
		case "ip4":
			if ip := net.ParseIP(k).To4(); ip != nil {
				key = int(ip[3])
			}
		case "ip6":
			if ip := net.ParseIP(k).To16(); ip != nil {
				key = int(ip[15])
			}
		}
		sl := mp.MapIndex(reflect.ValueOf(k))
		fmt.Fprintf(&sb, "%s[", k)
		if sl.Len() == 0 {
			out = append(out, idxEntry{kind, key, 0, false})
		}
		for i := 0; i < sl.Len(); i++ {
			wr := sl.Index(i).Interface().(*li.Warrant)
			slot := slotOf("w", wr.ID)
			live := in.stored(slot) == wr
			out = append(out, idxEntry{kind, key, slot, live})
			fmt.Fprintf(&sb, "%d/%t/%s ", slot, live, wr.Status)
		}
		sb.WriteString("]")
	}
	return out, sb.String()
}

func (in *inst) Observe() map[string]any {
	tab := []map[string]any{}
	for w := 1; w <= in.s.NW; w++ {
		wr := in.stored(w)
		if wr == nil {
			tab = append(tab, map[string]any{"on": false, "st": ""})
		} else {
			tab = append(tab, map[string]any{"on": true, "st": string(wr.Status)})
		}
	}
	idx := []map[string]any{}
	for _, f := range [][2]string{{"bySubscriberID", "sub"}, {"byMAC", "mac"}, {"byIPv4", "ip4"}, {"byIPv6", "ip6"}} {
		es, _ := in.index(f[0], f[1])
		for _, e := range es {
			idx = append(idx, map[string]any{"k": e.kind, "key": e.key, "w": e.w, "live": e.live})
		}
	}
	match := [][]map[string]any{}
	for _, p := range in.s.Probes {
		ret := []map[string]any{}
		for _, wr := range in.match(p) {
			slot := slotOf("w", wr.ID)
			ret = append(ret, map[string]any{"w": slot, "live": slot != 0 && in.stored(slot) == wr})
		}
		match = append(match, ret)
	}
	ses := []int{}
	for sn := 1; sn <= in.s.NS; sn++ {
		if s, ok := in.mgr.GetSession(sid(sn)); ok && s != nil {
			ses = append(ses, slotOf("w", s.WarrantID))
		} else {
			ses = append(ses, 0)
		}
	}
	st := in.mgr.Stats()
	return map[string]any{"tab": tab, "idx": idx, "match": match, "ses": ses, "aw": st.ActiveWarrants, "ai": st.ActiveInterceptions}
}

func (in *inst) Probe() map[string]any { return nil }

// Fingerprint: everything that can influence future behaviour - per stored warrant its status and what is left until
// its validity period begins / ends (whole units, saturating once passed), the target indexes entry by entry in slice
// order, the sessions and what the caller holds for them, the exporters' switches, what waits for delivery, the phase
// of the expiry ticker and the two gauges of the statistics. The growing counters are left out (they influence nothing
// and are judged as differences per call).
func (in *inst) Fingerprint() string {
	var sb strings.Builder
	now := time.Now()
	for w := 1; w <= in.s.NW; w++ {
		wr := in.stored(w)
		if wr == nil {
			sb.WriteString("[-]")
			continue
		}
		rf, ru := 0, -1
		if d := wr.ValidFrom.Sub(now); d > 0 {
			rf = int((d + Unit - 1) / Unit)
		}
		if d := wr.ValidUntil.Sub(now); d >= 0 {
			ru = int(d / Unit)
		}
		fmt.Fprintf(&sb, "[%s rf=%d ru=%d ty=%s me=%s]", wr.Status, rf, ru, wr.Type, wr.DeliveryMethod)
	}
	for _, f := range [][2]string{{"bySubscriberID", "sub"}, {"byMAC", "mac"}, {"byIPv4", "ip4"}, {"byIPv6", "ip6"}} {
		_, order := in.index(f[0], f[1])
		fmt.Fprintf(&sb, " %s{%s}", f[1], order)
	}
	for sn := 1; sn <= in.s.NS; sn++ {
		s, ok := in.mgr.GetSession(sid(sn))
		ref, held := in.ses[sn]
		if !ok {
			fmt.Fprintf(&sb, " s%d=- held=%t", sn, held)
			continue
		}
		hw := "-"
		if held {
			slot := slotOf("w", ref.w.ID)
			hw = fmt.Sprintf("%d/%t/%t", slot, in.stored(slot) == ref.w, ref.ses == s)
		}
		fmt.Fprintf(&sb, " s%d=%s held=%s", sn, s.WarrantID, hw)
	}
	in.mu.Lock()
	var sw []string
	for m, h := range in.hold {
		if h {
			sw = append(sw, fmt.Sprintf("hold%d", m))
		}
	}
	for m, f := range in.fail {
		if f {
			sw = append(sw, fmt.Sprintf("fail%d", m))
		}
	}
	sort.Strings(sw)
	fmt.Fprintf(&sb, " sw=%v parked=%d/%d", sw, in.parked["IRI"], in.parked["CC"])
	in.mu.Unlock()
	fmt.Fprintf(&sb, " qi=%d%v qc=%d%v", in.chanLen("iriChan"), in.shadow["IRI"], in.chanLen("ccChan"), in.shadow["CC"])
	if in.s.Time {
		fmt.Fprintf(&sb, " phase=%d", int(now.Sub(in.t0)/Unit)%TickU)
	}
	st := in.mgr.Stats()
	fmt.Fprintf(&sb, " aw=%d ai=%d", st.ActiveWarrants, st.ActiveInterceptions)
	return sb.String()
}
