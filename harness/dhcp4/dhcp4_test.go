//go:build verif

package dhcp4

import (
	"encoding/json"
	"fmt"
	"math/rand"
	"os"
	"testing"

	"verifharness/bpfnative"
	"verifharness/core"
)

type replayCase struct {
	ID     string         `json:"id"`
	System string         `json:"system"`
	Events []core.Event   `json:"events"`
	Cfg    map[string]any `json:"cfg"`
}
type replayFile struct {
	Cases []replayCase `json:"cases"`
}

type runStats struct {
	Systems     int                `json:"systems"`
	Nodes       int                `json:"nodes"`
	Edges       int                `json:"edges"`
	Chains      int                `json:"chains"`
	ChainEvents int                `json:"chain_events"`
	Closed      int                `json:"closed_systems"`
	Panics      []core.PanicRecord `json:"panics"`
	PerSystem   map[string][3]int  `json:"per_system"`
}

var reqUnits = []int{0, 1, 2, 3, 7, 8}

func systems() []*Sys {
	return []*Sys{
		NewSys("direct", 2, "10.0.0.0/29", 8, reqUnits),
		NewSys("direct", 3, "10.0.0.0/29", 8, reqUnits),
		NewSys("relay", 2, "10.0.0.0/29", 8, reqUnits),
		NewSys("relay", 3, "10.0.0.0/29", 8, reqUnits),
		NewSys("direct", 6, "10.3.0.16/28", 16, []int{0, 1, 2, 3, 5, 9, 15, 16}),
		NewSys("relay", 6, "10.3.0.16/28", 16, []int{0, 1, 2, 3, 5, 9, 15, 16}),
	}
}

func findSys(name string) *Sys {
	for _, s := range systems() {
		if s.Name() == name {
			return s
		}
		if f := s.WithFastPath(); f.Name() == name {
			return f
		}
		if f := s.WithTwoPools(); f.Name() == name {
			return f
		}
		if f := s.WithFastPath(); true {
			f.Sweep = true
			if f.Name() == name {
				return f
			}
		}
	}
	return nil
}

func setupFP(t *testing.T, out string) {
	p, err := bpfnative.Build("dhcp", out)
	if err != nil {
		t.Fatal(err)
	}
	FPDriverPath = p
	d, err := bpfnative.Start(p)
	if err != nil {
		t.Fatal(err)
	}
	FPMapInfos, err = d.Maps()
	if err != nil {
		t.Fatal(err)
	}
	fpPutDriver(d)
}

// TestExploreFP: the slow path drives the cache, the natively compiled XDP program answers a
// battery of frames in every state (property C03).
func TestExploreFP(t *testing.T) {
	T = t
	out := core.OutDir()
	setupFP(t, out)
	if rf := os.Getenv("VERIF_REPLAY"); rf != "" {
		replay(t, rf, out)
		return
	}
	tier, seed := core.Tier(), core.Seed()
	bundle := &core.Bundle{}
	st := runStats{PerSystem: map[string][3]int{}}
	all := systems()
	type plan struct {
		s               *Sys
		depth, maxNodes int
	}
	plans := []plan{{all[0].WithFastPath(), 4, 500}, {all[2].WithFastPath(), 3, 300}}
	nchains, chainLen := 6, 80
	if tier == "thorough" {
		plans = []plan{{all[0].WithFastPath(), 6, 6000}, {all[2].WithFastPath(), 5, 4000}, {all[1].WithFastPath(), 4, 3000}}
		nchains, chainLen = 60, 200
	}
	for _, p := range plans {
		tab, panics, err := core.Explore(p.s, core.ExploreOptions{MaxDepth: p.depth, MaxNodes: p.maxNodes, AdequacySample: 3, Seed: seed, Workers: 8})
		if err != nil {
			t.Fatalf("explore %s: %v", p.s.Name(), err)
		}
		st.Panics = append(st.Panics, panics...)
		bundle.Systems = append(bundle.Systems, tab)
		ne := 0
		for _, es := range tab.Edges {
			ne += len(es)
		}
		c := 0
		if tab.Closed {
			c = 1
			st.Closed++
		}
		st.PerSystem[p.s.Name()] = [3]int{len(tab.Nodes), ne, c}
		st.Systems++
		st.Nodes += len(tab.Nodes)
		st.Edges += ne
	}
	rng := rand.New(rand.NewSource(seed))
	// (second-device events only in the tables: see DESIGN.md section 12, two devices behind one circuit)
	NoAlt = true
	chainSys := systems()
	NoAlt = false
	for _, s := range []*Sys{chainSys[1].WithFastPath(), chainSys[3].WithFastPath()} {
		evs := s.Events()
		for c := 0; c < nchains; c++ {
			var seqv []core.Event
			for i := 0; i < chainLen; i++ {
				seqv = append(seqv, evs[rng.Intn(len(evs))])
			}
			tab, pr := core.Chain(s, fmt.Sprintf("%s#%d", s.Name(), c), seqv, false)
			if pr != nil {
				st.Panics = append(st.Panics, *pr)
				continue
			}
			bundle.Systems = append(bundle.Systems, tab)
			st.Chains++
			st.ChainEvents += len(seqv)
		}
	}
	// every IP identification value through the fast path (one cached client; direct and, in the
	// thorough tier, relayed replies, whose header words differ)
	sweeps := []*Sys{all[0].WithFastPath()}
	if tier == "thorough" {
		sweeps = append(sweeps, all[2].WithFastPath())
	}
	for _, sw := range sweeps {
		sw.Sweep = true
		evs := []core.Event{{"op": "DISC", "c": 1, "u": -1}, {"op": "REQSEL", "c": 1, "u": -1}}
		tab, pr := core.Chain(sw, sw.Name()+"#sweep", evs, false)
		if pr != nil {
			st.Panics = append(st.Panics, *pr)
		} else {
			bundle.Systems = append(bundle.Systems, tab)
			st.Chains++
			st.ChainEvents += len(evs)
		}
	}
	// the default pool changes while clients are bound: clients bound in either pool, DISCOVERs of bound clients
	// under either default, renewals, expiry and release of leases of the pool that is not the default
	ev := func(op string, c int) core.Event { return core.Event{"op": op, "c": c, "u": -1} }
	// (rid: a renewal through a relay agent that adds only a remote-id; plain renewal in the direct variant)
	rid := func(c int) core.Event { return core.Event{"op": "REQOWN", "c": c, "u": -1, "rid": 1} }
	poolEvs := []core.Event{ev("DISC", 1), ev("REQSEL", 1), ev("SETDEF2", 0), ev("DISC", 1), ev("DISC", 2), ev("REQSEL", 2), ev("DISC", 2),
		ev("SETDEF1", 0), ev("DISC", 1), ev("DISC", 2), rid(1), ev("REQOWN", 2), ev("ADV", 0), ev("REQOWN", 2), ev("DISC", 2),
		ev("ADV", 0), ev("CLEAN", 0), ev("DISC", 1), ev("REQSEL", 1), ev("SETDEF2", 0), ev("DISC", 1), rid(1), ev("REL", 1), ev("DISC", 1),
		ev("REQSEL", 1), ev("DISC", 1), rid(2), ev("REL", 2), ev("SETDEF1", 0), ev("DISC", 1), ev("DISC", 2)}
	// a lease that moves between two devices behind one circuit (relay) and then ends by release, decline or expiry:
	// the cache entry of the device that lost the lease must be gone (the battery probes from the first device's MAC)
	moveEvs := []core.Event{ev("DISC", 1), ev("REQSEL", 1), ev("DISCALT", 1), ev("REQSELALT", 1), ev("REL", 1), ev("DISC", 2), ev("REQSEL", 2),
		ev("DISC", 1), ev("REQSEL", 1), ev("DISCALT", 1), ev("REQSELALT", 1), ev("DECL", 1), ev("DISC", 1), ev("REQSEL", 1), ev("DISCALT", 1), ev("REQSELALT", 1),
		ev("ADV", 0), ev("ADV", 0), ev("CLEAN", 0), ev("DISC", 1), ev("REQSEL", 1), ev("DISCALT", 1), ev("REQSELALT", 1), ev("DISC", 1), ev("REQSEL", 1), ev("REL", 1)}
	{
		ms := all[2].WithFastPath()
		tab, pr := core.Chain(ms, ms.Name()+"#move", moveEvs, false)
		if pr != nil {
			st.Panics = append(st.Panics, *pr)
		} else {
			bundle.Systems = append(bundle.Systems, tab)
			st.Chains++
			st.ChainEvents += len(moveEvs)
		}
	}
	for _, ps := range []*Sys{all[0].WithFastPath(), all[2].WithFastPath()} {
		tab, pr := core.Chain(ps, ps.Name()+"#pools", poolEvs, false)
		if pr != nil {
			st.Panics = append(st.Panics, *pr)
		} else {
			bundle.Systems = append(bundle.Systems, tab)
			st.Chains++
			st.ChainEvents += len(poolEvs)
		}
	}
	if err := core.WriteJSON(out, "bundle.json", bundle); err != nil {
		t.Fatal(err)
	}
	if err := core.WriteJSON(out, "stats.json", st); err != nil {
		t.Fatal(err)
	}
}

func TestExplore(t *testing.T) {
	T = t
	out := core.OutDir()
	if rf := os.Getenv("VERIF_REPLAY"); rf != "" {
		replay(t, rf, out)
		return
	}
	tier, seed := core.Tier(), core.Seed()
	bundle := &core.Bundle{}
	st := runStats{PerSystem: map[string][3]int{}}
	type plan struct {
		s               *Sys
		depth, maxNodes int
	}
	all := systems()
	plans := []plan{{all[0], 5, 1500}, {all[2], 4, 800}}
	nchains, chainLen := 10, 150
	if tier == "thorough" {
		plans = []plan{{all[0], 7, 20000}, {all[1], 6, 20000}, {all[2], 6, 12000}, {all[3], 5, 12000}}
		nchains, chainLen = 150, 300
	}
	for _, p := range plans {
		tab, panics, err := core.Explore(p.s, core.ExploreOptions{MaxDepth: p.depth, MaxNodes: p.maxNodes, AdequacySample: 4, Seed: seed})
		if err != nil {
			t.Fatalf("explore %s: %v", p.s.Name(), err)
		}
		st.Panics = append(st.Panics, panics...)
		bundle.Systems = append(bundle.Systems, tab)
		ne := 0
		for _, es := range tab.Edges {
			ne += len(es)
		}
		c := 0
		if tab.Closed {
			c = 1
			st.Closed++
		}
		st.PerSystem[p.s.Name()] = [3]int{len(tab.Nodes), ne, c}
		st.Systems++
		st.Nodes += len(tab.Nodes)
		st.Edges += ne
	}
	rng := rand.New(rand.NewSource(seed))
	NoAlt = true
	chainSys := systems()
	NoAlt = false
	for _, s := range []*Sys{chainSys[4], chainSys[5], chainSys[1], chainSys[3]} {
		evs := s.Events()
		for c := 0; c < nchains; c++ {
			var seqv []core.Event
			for i := 0; i < chainLen; i++ {
				seqv = append(seqv, evs[rng.Intn(len(evs))])
			}
			tab, pr := core.Chain(s, fmt.Sprintf("%s#%d", s.Name(), c), seqv, true)
			if pr != nil {
				st.Panics = append(st.Panics, *pr)
				continue
			}
			bundle.Systems = append(bundle.Systems, tab)
			st.Chains++
			st.ChainEvents += len(seqv)
		}
	}
	// two pools and an operator who changes the default pool while clients are bound, renew, release and expire
	ev := func(op string, c int) core.Event { return core.Event{"op": op, "c": c, "u": -1} }
	twoEvs := []core.Event{ev("DISC", 1), ev("REQSEL", 1), ev("SETDEF2", 0), ev("REQOWN", 1), ev("REL", 1), ev("SETDEF1", 0), ev("DISC", 2), ev("REQSEL", 2),
		ev("SETDEF2", 0), ev("DISC", 1), ev("REQSEL", 1), ev("SETDEF1", 0), ev("REQOWN", 1), ev("ADV", 0), ev("REQOWN", 1), ev("REL", 1), ev("DISC", 1),
		ev("REQSEL", 1), ev("SETDEF2", 0), ev("ADV", 0), ev("ADV", 0), ev("CLEAN", 0), ev("DISC", 2), ev("REQSEL", 2), ev("SETDEF1", 0), ev("REL", 2), ev("DISC", 2)}
	for _, base := range []*Sys{chainSys[0], chainSys[2]} {
		ts := base.WithTwoPools()
		seqs := [][]core.Event{twoEvs}
		tevs := ts.Events()
		for c := 0; c < nchains; c++ {
			var seqv []core.Event
			for i := 0; i < chainLen; i++ {
				if rng.Intn(6) == 0 { // the operator acts often enough to matter
					seqv = append(seqv, tevs[len(tevs)-1-rng.Intn(2)])
				} else {
					seqv = append(seqv, tevs[rng.Intn(len(tevs))])
				}
			}
			seqs = append(seqs, seqv)
		}
		for c, seqv := range seqs {
			tab, pr := core.Chain(ts, fmt.Sprintf("%s#%d", ts.Name(), c), seqv, true)
			if pr != nil {
				st.Panics = append(st.Panics, *pr)
				continue
			}
			bundle.Systems = append(bundle.Systems, tab)
			st.Chains++
			st.ChainEvents += len(seqv)
		}
	}
	// relay: a client renews (once, twice) on its circuit, then a second device comes up behind the same circuit and
	// takes the lease over, the lease ends, and the other clients cycle through the pool until the address is bound
	// again; then the first device comes back. Whatever record of the first device survived all that must not make
	// the server offer or acknowledge the address to it.
	for _, renewals := range []int{1, 2} {
		rs := chainSys[3]
		seqv := []core.Event{ev("DISC", 1), ev("REQSEL", 1)}
		for i := 0; i < renewals; i++ {
			seqv = append(seqv, ev("REQOWN", 1))
		}
		seqv = append(seqv, ev("DISCALT", 1), ev("REQSELALT", 1), ev("REL", 1), ev("DISC", 3), ev("REQSEL", 3))
		for i := 0; i < 7; i++ {
			seqv = append(seqv, ev("DISC", 2), ev("REQSEL", 2), ev("DISC", 1), ev("REL", 2))
		}
		seqv = append(seqv, ev("DISC", 2), ev("REQSEL", 2), ev("DISC", 1), ev("REQSEL", 1), ev("REQOWN", 1), ev("REQOWN", 2))
		tab, pr := core.Chain(rs, fmt.Sprintf("%s#renew-move%d", rs.Name(), renewals), seqv, true)
		if pr != nil {
			st.Panics = append(st.Panics, *pr)
		} else {
			bundle.Systems = append(bundle.Systems, tab)
			st.Chains++
			st.ChainEvents += len(seqv)
		}
	}
	if err := core.WriteJSON(out, "bundle.json", bundle); err != nil {
		t.Fatal(err)
	}
	if err := core.WriteJSON(out, "stats.json", st); err != nil {
		t.Fatal(err)
	}
}

func replay(t *testing.T, file, out string) {
	b, err := os.ReadFile(file)
	if err != nil {
		t.Fatal(err)
	}
	var rf replayFile
	if err := json.Unmarshal(b, &rf); err != nil {
		t.Fatal(err)
	}
	st := runStats{PerSystem: map[string][3]int{}}
	bundle := &core.Bundle{}
	for _, c := range rf.Cases {
		name := c.System
		for i := 0; i < len(name); i++ {
			if name[i] == '#' {
				name = name[:i]
				break
			}
		}
		s := findSys(name)
		if s == nil {
			t.Fatalf("unknown system %q", c.System)
		}
		tab, pr := core.Chain(s, name+"#"+c.ID, c.Events, true)
		if pr != nil {
			st.Panics = append(st.Panics, *pr)
			continue
		}
		bundle.Systems = append(bundle.Systems, tab)
		st.Chains++
	}
	if err := core.WriteJSON(out, "bundle.json", bundle); err != nil {
		t.Fatal(err)
	}
	core.WriteJSON(out, "stats.json", st)
}
