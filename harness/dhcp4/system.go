//go:build verif

// Package dhcp4 binds the real DHCPv4 slow-path server (pkg/dhcp) to the Dhcp4 contract
// (property C02, v4 half). Messages are real dhcpv4 packets handed to the server's packet
// handler; time is testing/synctest virtual time.
package dhcp4

import (
	"fmt"
	"net"
	"sort"
	"strings"
	"testing"
	"testing/synctest"
	"time"

	"github.com/codelaboratoryltd/bng/pkg/dhcp"
	"github.com/codelaboratoryltd/bng/pkg/ebpf"
	"github.com/insomniacslk/dhcp/dhcpv4"
	"go.uber.org/zap"

	"verifharness/core"
)

var T *testing.T // set by the test entry; synctest needs it

// NoAlt drops the second-device / direct-release events from systems built while it is set
// (used for the long random chains; the tables keep them)
var NoAlt bool

const leaseTime = time.Hour

// Sys is one DHCPv4 server configuration under exploration.
type Sys struct {
	FastPath bool // with real kernel maps behind the loader and the native XDP program (C03)
	Sweep    bool // additionally sweep all IP identification values through the fast path in every state
	fpProbes []FPProbe
	Variant  string // "direct" | "relay"
	NClients int
	CIDR     string // pool network; unit u = base+u
	NUnits   int
	// second pool (fast-path systems only): another network, gateway, DNS list and lease time. Its addresses
	// are projected to the units pool2Unit0 .. pool2Unit0+NUnits2-1 (disjoint from pool 1's 0..NUnits-1)
	CIDR2   string
	NUnits2 int
	// TwoPools: a second pool with the same lease time, and the operator changing the default pool (no fast path);
	// the drain probe empties the default pool, makes the other pool the default and empties that one too
	TwoPools bool
	events   []core.Event
}

const (
	pool2Unit0 = 100
	// one tick (ADV) is leaseTime/2+1s of pool 1: a pool-2 lease, like a pool-1 lease, is unexpired after one
	// tick and expired after two, so the ghost's lease age in ticks holds for both pools
	leaseTime2 = 45 * time.Minute
)

func NewSys(variant string, nclients int, cidr string, nunits int, reqUnits []int) *Sys {
	s := &Sys{Variant: variant, NClients: nclients, CIDR: cidr, NUnits: nunits}
	for c := 1; c <= nclients; c++ {
		for _, op := range []string{"DISC", "REQSEL", "REQOWN", "REL", "DECL", "INFORM"} {
			s.events = append(s.events, core.Event{"op": op, "c": c, "u": -1})
		}
		for _, u := range reqUnits {
			s.events = append(s.events, core.Event{"op": "REQ", "c": c, "u": u})
		}
		if variant == "relay" && !NoAlt {
			// a second device behind the same circuit (the client is the circuit), and a RELEASE the
			// client unicasts to the server itself, i.e. without relay fields
			s.events = append(s.events, core.Event{"op": "DISCALT", "c": c, "u": -1}, core.Event{"op": "REQSELALT", "c": c, "u": -1},
				core.Event{"op": "RELDIRECT", "c": c, "u": -1})
		}
		if variant == "relay" {
			// a renewal through a relay agent that inserts only a remote-id sub-option
			s.events = append(s.events, core.Event{"op": "REQOWN", "c": c, "u": -1, "rid": 1})
		}
		for _, u := range reqUnits {
			if u >= 2 && u <= 3 {
				s.events = append(s.events, core.Event{"op": "DECLU", "c": c, "u": u})
			}
		}
	}
	s.events = append(s.events, core.Event{"op": "ADV", "c": 0, "u": -1}, core.Event{"op": "CLEAN", "c": 0, "u": -1})
	return s
}

func (s *Sys) Name() string {
	if s.TwoPools {
		return fmt.Sprintf("dhcp4pools/%s/c%d/%s", s.Variant, s.NClients, s.CIDR)
	}
	if s.Sweep {
		return fmt.Sprintf("dhcp4fpsweep/%s/c%d/%s", s.Variant, s.NClients, s.CIDR)
	}
	if s.FastPath {
		return fmt.Sprintf("dhcp4fp/%s/c%d/%s", s.Variant, s.NClients, s.CIDR)
	}
	return fmt.Sprintf("dhcp4/%s/c%d/%s", s.Variant, s.NClients, s.CIDR)
}

// WithFastPath returns a copy of s that runs the fast-path battery in every state.
func (s *Sys) WithFastPath() *Sys {
	c := *s
	c.FastPath = true
	c.fpProbes = fpBattery(s.NClients)
	// a configuration reload that offers a pool under an id already in use (rejected by the pool manager)
	c.events = append(append([]core.Event{}, s.events...), core.Event{"op": "DUPPOOL", "c": 0, "u": -1})
	// a second pool, and the operator making it (or pool 1 again) the default pool for new clients
	c.CIDR2, c.NUnits2 = "172.16.8.0/28", 16
	c.events = append(c.events, core.Event{"op": "SETDEF2", "c": 0, "u": -1}, core.Event{"op": "SETDEF1", "c": 0, "u": -1})
	return &c
}

// WithTwoPools returns a copy of s with a second pool (same lease time) and the SETDEF events.
func (s *Sys) WithTwoPools() *Sys {
	c := *s
	c.TwoPools = true
	c.CIDR2, c.NUnits2 = "172.16.8.0/29", 8
	c.events = append(append([]core.Event{}, s.events...), core.Event{"op": "SETDEF2", "c": 0, "u": -1}, core.Event{"op": "SETDEF1", "c": 0, "u": -1})
	return &c
}

func (s *Sys) Config() map[string]any {
	// usable: every host address except the gateway (unit 1), network (0) and broadcast (N-1)
	var usable []int
	for u := 2; u <= s.NUnits-2; u++ {
		usable = append(usable, u)
	}
	if s.TwoPools {
		for u := 2; u <= s.NUnits2-2; u++ {
			usable = append(usable, pool2Unit0+u)
		}
	}
	cfg := map[string]any{"impl": "dhcp.Server-" + s.Variant, "nclients": s.NClients, "usable": usable, "nunits": s.NUnits, "leaseticks": 2}
	if s.TwoPools {
		cfg["impl"] = "dhcp.Server-2pools-" + s.Variant
		cfg["pool2"] = fmt.Sprintf("%s (same lease time) -> units %d..%d", s.CIDR2, pool2Unit0, pool2Unit0+s.NUnits2-1)
	}
	if s.FastPath {
		cfg["impl"] = "dhcp.Server+dhcp_fastpath.c-" + s.Variant
		cfg["probes"] = s.fpProbes
		cfg["pool2"] = fmt.Sprintf("%s lease %s -> units %d..%d", s.CIDR2, leaseTime2, pool2Unit0, pool2Unit0+s.NUnits2-1)
	}
	return cfg
}
func (s *Sys) Events() []core.Event { return s.events }

func (s *Sys) Wrap(f func()) {
	synctest.Test(T, func(t *testing.T) { f() })
}

func (s *Sys) base() net.IP {
	_, n, _ := net.ParseCIDR(s.CIDR)
	return n.IP.To4()
}
func (s *Sys) base2() net.IP {
	_, n, _ := net.ParseCIDR(s.CIDR2)
	return n.IP.To4()
}
func (s *Sys) unitIP(u int) net.IP {
	b := s.base()
	if s.CIDR2 != "" && u >= pool2Unit0 {
		b, u = s.base2(), u-pool2Unit0
	}
	v := uint32(b[0])<<24 | uint32(b[1])<<16 | uint32(b[2])<<8 | uint32(b[3])
	v += uint32(u)
	return net.IPv4(byte(v>>24), byte(v>>16), byte(v>>8), byte(v)).To4()
}
func (s *Sys) unitOf(ip net.IP) int {
	ip = ip.To4()
	if ip == nil || ip.IsUnspecified() {
		return -1
	}
	off := func(b net.IP) int64 {
		return int64(uint32(ip[0])<<24|uint32(ip[1])<<16|uint32(ip[2])<<8|uint32(ip[3])) - int64(uint32(b[0])<<24|uint32(b[1])<<16|uint32(b[2])<<8|uint32(b[3]))
	}
	if v := off(s.base()); v >= 0 && v < int64(s.NUnits) {
		return int(v)
	}
	if s.CIDR2 != "" {
		if v := off(s.base2()); v >= 0 && v < int64(s.NUnits2) {
			return pool2Unit0 + int(v)
		}
	}
	return -2
}

func mac(c int, alt bool) net.HardwareAddr {
	m := net.HardwareAddr{0x02, 0, 0, 0, 0, byte(c)}
	if alt {
		m[4] = 0xaa
	}
	return m
}

type capConn struct {
	out [][]byte
}

func (c *capConn) ReadFrom(p []byte) (int, net.Addr, error) { return 0, nil, fmt.Errorf("closed") }
func (c *capConn) WriteTo(p []byte, a net.Addr) (int, error) {
	c.out = append(c.out, append([]byte{}, p...))
	return len(p), nil
}
func (c *capConn) Close() error                       { return nil }
func (c *capConn) LocalAddr() net.Addr                { return &net.UDPAddr{IP: net.IPv4zero, Port: 67} }
func (c *capConn) SetDeadline(t time.Time) error      { return nil }
func (c *capConn) SetReadDeadline(t time.Time) error  { return nil }
func (c *capConn) SetWriteDeadline(t time.Time) error { return nil }

type inst struct {
	s         *Sys
	srv       *dhcp.Server
	pool      *dhcp.Pool
	pool2     *dhcp.Pool // fast-path systems only
	pm        *dhcp.PoolManager
	conn      *capConn
	lastOffer map[int]int // client -> unit of the last OFFER
	lastAck   map[int]int // client -> unit of the last ACK still believed held
	xid       uint32
	start     time.Time
	// history digest that only refines node identity (never an oracle)
	offAge     map[string]int
	decl       map[string]bool
	fp         *fpState
	ackAlt     map[int]bool // the client's current lease was ACKed to its second device
	direct     bool         // build the next message without relay fields
	ridOnly    bool         // build the next message with an option 82 that has no circuit-id
	defaultIs2 bool         // the operator made pool 2 the default pool
}

func (s *Sys) New() core.Instance {
	logger := zap.NewNop()
	loader, err := ebpf.NewLoader("lo", logger)
	if err != nil {
		panic(err)
	}
	pm := dhcp.NewPoolManager(loader, logger)
	p, err := dhcp.NewPool(dhcp.PoolConfig{ID: 1, Name: "p", Network: s.CIDR, Gateway: s.unitIP(1).String(), DNSServers: []string{"9.9.9.9", "149.112.112.112"}, LeaseTime: leaseTime})
	if err != nil {
		panic(err)
	}
	if err := pm.AddPool(p); err != nil {
		panic(err)
	}
	srv, err := dhcp.NewServer(dhcp.ServerConfig{Interface: "lo", ServerIP: net.IPv4(10, 255, 0, 1)}, loader, pm, logger)
	if err != nil {
		panic(err)
	}
	var fp *fpState
	var p2 *dhcp.Pool
	if s.FastPath {
		fp = newFPState(loader)
		// the pool was added before the maps existed: add it to the loader the way PoolManager.AddPool does
		pm.RemovePool(1)
		if err := pm.AddPool(p); err != nil {
			panic(err)
		}
		// the first pool added is the default pool; pool 2 differs in everything a reply carries
		p2, err = dhcp.NewPool(dhcp.PoolConfig{ID: 2, Name: "q", Network: s.CIDR2, Gateway: s.unitIP(pool2Unit0 + 1).String(), DNSServers: []string{"1.1.1.1"}, LeaseTime: leaseTime2})
		if err != nil {
			panic(err)
		}
		if err := pm.AddPool(p2); err != nil {
			panic(err)
		}
	}
	if s.TwoPools {
		p2, err = dhcp.NewPool(dhcp.PoolConfig{ID: 2, Name: "q", Network: s.CIDR2, Gateway: s.unitIP(pool2Unit0 + 1).String(), DNSServers: []string{"1.1.1.1"}, LeaseTime: leaseTime})
		if err != nil {
			panic(err)
		}
		if err := pm.AddPool(p2); err != nil {
			panic(err)
		}
	}
	return &inst{pool2: p2, fp: fp, s: s, srv: srv, pool: p, pm: pm, conn: &capConn{}, lastOffer: map[int]int{}, lastAck: map[int]int{}, start: time.Now(), offAge: map[string]int{}, decl: map[string]bool{}, ackAlt: map[int]bool{}}
}

func (in *inst) build(c int, alt bool, mt dhcpv4.MessageType, reqIP net.IP, ciaddr net.IP) *dhcpv4.DHCPv4 {
	in.xid++
	mods := []dhcpv4.Modifier{
		dhcpv4.WithMessageType(mt),
		dhcpv4.WithHwAddr(mac(c, alt)),
		dhcpv4.WithTransactionID(dhcpv4.TransactionID{byte(in.xid >> 24), byte(in.xid >> 16), byte(in.xid >> 8), byte(in.xid)}),
	}
	if reqIP != nil {
		mods = append(mods, dhcpv4.WithOption(dhcpv4.OptRequestedIPAddress(reqIP)))
	}
	if ciaddr != nil {
		mods = append(mods, dhcpv4.WithClientIP(ciaddr))
	}
	if in.s.Variant == "relay" && !in.direct {
		mods = append(mods, dhcpv4.WithGatewayIP(net.IPv4(10, 9, 9, 1)))
		cid := []byte(fmt.Sprintf("cid-%d", c))
		if in.ridOnly {
			mods = append(mods, dhcpv4.WithOption(dhcpv4.OptRelayAgentInfo(dhcpv4.OptGeneric(dhcpv4.GenericOptionCode(2), []byte("agent-7")))))
		} else {
			mods = append(mods, dhcpv4.WithOption(dhcpv4.OptRelayAgentInfo(dhcpv4.OptGeneric(dhcpv4.GenericOptionCode(1), cid))))
		}
	}
	m, err := dhcpv4.New(mods...)
	if err != nil {
		panic(err)
	}
	return m
}

func (in *inst) send(m *dhcpv4.DHCPv4) (string, int) {
	in.conn.out = nil
	in.srv.VerifHandle(in.conn, &net.UDPAddr{IP: net.IPv4(10, 0, 0, 200), Port: 68}, m)
	synctest.Wait()
	if len(in.conn.out) == 0 {
		return "none", -1
	}
	r, err := dhcpv4.FromBytes(in.conn.out[len(in.conn.out)-1])
	if err != nil {
		return "garbled", -1
	}
	echo := r.TransactionID == m.TransactionID && r.ClientHWAddr.String() == m.ClientHWAddr.String()
	t := strings.ToUpper(r.MessageType().String())
	if !echo {
		t = "MISADDRESSED-" + t
	}
	return t, in.s.unitOf(r.YourIPAddr)
}

func out(rtype string, runit, req int, skipped bool) map[string]any {
	return map[string]any{"rtype": rtype, "runit": runit, "req": req, "skipped": skipped}
}

func (in *inst) Apply(ev core.Event) map[string]any {
	op := ev["op"].(string)
	c := toInt(ev["c"])
	u := toInt(ev["u"])
	s := in.s
	switch op {
	case "DISC", "DISCALT":
		rt, ru := in.send(in.build(c, op == "DISCALT", dhcpv4.MessageTypeDiscover, nil, nil))
		if rt == "OFFER" {
			in.lastOffer[c] = ru
			in.offAge[fmt.Sprintf("%d=%d", c, ru)] = 0
			in.noteOffer(c)
		}
		return out(rt, ru, -1, false)
	case "REQSEL", "REQSELALT":
		o, ok := in.lastOffer[c]
		if !ok || o < 0 {
			return out("none", -1, -1, true)
		}
		rt, ru := in.send(in.build(c, op == "REQSELALT", dhcpv4.MessageTypeRequest, s.unitIP(o), nil))
		in.noteAck(c, rt, ru)
		if rt == "ACK" {
			in.ackAlt[c] = op == "REQSELALT"
		}
		return out(rt, ru, o, false)
	case "REQOWN": // renewal: ciaddr = the address the client was last ACKed
		o, ok := in.lastAck[c]
		if !ok || o < 0 {
			return out("none", -1, -1, true)
		}
		in.ridOnly = toInt(ev["rid"]) == 1
		rt, ru := in.send(in.build(c, in.ackAlt[c], dhcpv4.MessageTypeRequest, nil, s.unitIP(o)))
		in.ridOnly = false
		in.noteAck(c, rt, ru)
		return out(rt, ru, o, false)
	case "REQ": // INIT-REBOOT style request for an arbitrary address
		rt, ru := in.send(in.build(c, false, dhcpv4.MessageTypeRequest, s.unitIP(u), nil))
		in.noteAck(c, rt, ru)
		if rt == "ACK" {
			in.ackAlt[c] = false
		}
		return out(rt, ru, u, false)
	case "REL", "RELDIRECT": // sent by the device that holds the lease; RELDIRECT bypasses the relay
		o, ok := in.lastAck[c]
		var ci net.IP
		if ok && o >= 0 {
			ci = s.unitIP(o)
		}
		in.direct = op == "RELDIRECT"
		rt, ru := in.send(in.build(c, in.ackAlt[c], dhcpv4.MessageTypeRelease, nil, ci))
		in.direct = false
		delete(in.lastAck, c)
		delete(in.ackAlt, c)
		in.dropOffer(c)
		return out(rt, ru, o, false)
	case "DECL": // the client declines the address it was just ACKed
		o, ok := in.lastAck[c]
		if !ok || o < 0 {
			return out("none", -1, -1, true)
		}
		in.decl[fmt.Sprintf("%d", o)] = true
		rt, ru := in.send(in.build(c, in.ackAlt[c], dhcpv4.MessageTypeDecline, s.unitIP(o), nil))
		delete(in.lastAck, c)
		delete(in.ackAlt, c)
		in.dropOffer(c)
		return out(rt, ru, o, false)
	case "DECLU": // a DECLINE naming an arbitrary address
		in.decl[fmt.Sprintf("%d", u)] = true
		rt, ru := in.send(in.build(c, in.ackAlt[c], dhcpv4.MessageTypeDecline, s.unitIP(u), nil))
		if o, ok := in.lastAck[c]; ok && o == u { // it named the client's own address: the lease is gone
			delete(in.lastAck, c)
			delete(in.ackAlt, c)
			in.dropOffer(c)
		}
		return out(rt, ru, u, false)
	case "INFORM":
		rt, ru := in.send(in.build(c, false, dhcpv4.MessageTypeInform, nil, s.unitIP(2)))
		return out(rt, ru, -1, false)
	case "ADV":
		for k, v := range in.offAge {
			if v < 2 {
				in.offAge[k] = v + 1
			}
		}
		time.Sleep(leaseTime/2 + time.Second)
		synctest.Wait()
		return out("none", -1, -1, false)
	case "CLEAN":
		in.srv.VerifCleanupExpired()
		return out("none", -1, -1, false)
	case "DUPPOOL":
		dup, err := dhcp.NewPool(dhcp.PoolConfig{ID: 1, Name: "dup", Network: s.CIDR, Gateway: s.unitIP(s.NUnits - 2).String(), DNSServers: []string{"1.1.1.1"}, LeaseTime: 10 * time.Minute})
		if err != nil {
			panic(err)
		}
		if in.pm.AddPool(dup) == nil {
			panic("a second pool with id 1 was accepted")
		}
		return out("none", -1, -1, false)
	case "SETDEF1", "SETDEF2": // the operator changes the default pool (the pool new, unclassified clients are served from)
		id := uint32(1)
		if op == "SETDEF2" {
			id = 2
		}
		if err := in.pm.SetDefaultPool(id); err != nil {
			panic(err)
		}
		in.defaultIs2 = id == 2
		return out("none", -1, -1, false)
	}
	panic("unknown op " + op)
}

func (in *inst) noteAck(c int, rt string, ru int) {
	if rt == "ACK" {
		in.lastAck[c] = ru
		if in.fp != nil && len(in.conn.out) > 0 {
			if r, err := dhcpv4.FromBytes(in.conn.out[len(in.conn.out)-1]); err == nil {
				in.fp.ackFields[c] = fieldsOf(r)
			}
		}
		in.dropOffer(c)
	}
}

// noteOffer records the option fields of the OFFER the userspace server just sent to client c, if c has been
// ACKed before (the fast path answers only such clients): what userspace tells that subscriber for a DISCOVER
// from now until its next ACK. Only an OFFER that differs from the client's last ACK is kept: the fast path's
// answers are compared with the ACK's fields anyway, so an equal OFFER adds nothing (and no states).
func (in *inst) noteOffer(c int) {
	if in.fp == nil || len(in.conn.out) == 0 {
		return
	}
	if _, acked := in.lastAck[c]; !acked {
		return
	}
	delete(in.fp.offFields, c)
	if r, err := dhcpv4.FromBytes(in.conn.out[len(in.conn.out)-1]); err == nil {
		if f := fieldsOf(r); f != in.fp.ackFields[c] {
			in.fp.offFields[c] = f
		}
	}
}

func (in *inst) dropOffer(c int) {
	if in.fp != nil {
		delete(in.fp.offFields, c)
	}
}

func toInt(v any) int {
	switch x := v.(type) {
	case int:
		return x
	case float64:
		return int(x)
	}
	return 0
}

// Observe: the lease table per client (unit, expired) as the server believes it.
func (in *inst) Observe() map[string]any {
	byMAC, _ := in.srv.VerifLeases()
	lease := make([]int, in.s.NClients)
	expired := make([]bool, in.s.NClients)
	altlease := make([]int, in.s.NClients)
	for i := range lease {
		lease[i], altlease[i] = -1, -1
	}
	now := time.Now()
	for _, l := range byMAC {
		for c := 1; c <= in.s.NClients; c++ {
			if l.MAC == mac(c, false).String() {
				lease[c-1] = in.s.unitOf(l.IP)
				expired[c-1] = !now.Before(l.ExpiresAt)
			}
			if l.MAC == mac(c, true).String() {
				altlease[c-1] = in.s.unitOf(l.IP)
			}
		}
	}
	obs := map[string]any{"lease": lease, "expired": expired, "altlease": altlease, "drain": []int{-9}}
	if in.fp != nil {
		obs["fp"] = in.fpObserve()
		if in.s.Sweep {
			obs["sweep"] = in.fpSweep()
		}
	}
	return obs
}

func (in *inst) Fingerprint() string {
	byMAC, byCid := in.srv.VerifLeases()
	now := time.Now()
	var parts []string
	for _, l := range byMAC {
		parts = append(parts, fmt.Sprintf("L:%s=%s/%d/%x", l.MAC, l.IP, l.ExpiresAt.Sub(now)/time.Second, l.CircuitID))
	}
	for k, l := range byCid {
		parts = append(parts, fmt.Sprintf("C:%s=%s/%s/%d", k, l.MAC, l.IP, l.ExpiresAt.Sub(now)/time.Second))
	}
	sort.Strings(parts)
	ps := in.pool.VerifSnapshot()
	var al []string
	for k, v := range ps.Allocated {
		al = append(al, k+"="+v.String())
	}
	sort.Strings(al)
	sort.Strings(ps.Unavailable)
	var av []string
	for _, v := range ps.Available {
		av = append(av, v.String())
	}
	var lo []string
	for c := 1; c <= in.s.NClients; c++ {
		o, ok1 := in.lastOffer[c]
		a, ok2 := in.lastAck[c]
		lo = append(lo, fmt.Sprintf("%d:%v%d,%v%d", c, ok1, o, ok2, a))
	}
	fpfp := ""
	if in.fp != nil {
		fpfp = "|FP:" + in.fp.fingerprint()
		ps2 := in.pool2.VerifSnapshot()
		var al2, av2 []string
		for k, v := range ps2.Allocated {
			al2 = append(al2, k+"="+v.String())
		}
		sort.Strings(al2)
		for _, v := range ps2.Available {
			av2 = append(av2, v.String())
		}
		sort.Strings(ps2.Unavailable)
		fpfp += fmt.Sprintf("|P2:def=%d;A:%s;V:%s;U:%s|", core.Field(in.pm, "defaultPoolID").Uint(), strings.Join(al2, ","), strings.Join(av2, ","), strings.Join(ps2.Unavailable, ","))
	}
	return fpfp + strings.Join(parts, ";") + "|A:" + strings.Join(al, ",") + "|V:" + strings.Join(av, ",") + "|U:" + strings.Join(ps.Unavailable, ",") + "|H:" + strings.Join(lo, ";") + core.Fingerprint(in.ackAlt, nil) + core.Fingerprint(in.offAge, nil) + core.Fingerprint(in.decl, nil)
}

// Probe: which usable addresses can fresh clients still obtain (DISCOVER until no OFFER)?
func (in *inst) Probe() map[string]any {
	got := []int{}
	seen := map[int]bool{}
	next := 100
	drain := func(n int) bool {
		for i := 0; i < n+2; i++ {
			rt, ru := in.send(in.build(next, false, dhcpv4.MessageTypeDiscover, nil, nil))
			next++
			if rt != "OFFER" {
				return true
			}
			if seen[ru] {
				got = append(got, -3) // two fresh clients were offered one address
				return false
			}
			seen[ru] = true
			got = append(got, ru)
		}
		return true
	}
	if drain(in.s.NUnits) && in.s.TwoPools {
		// the default pool is empty now: make the other pool the default and empty it as well
		other := uint32(2)
		if in.defaultIs2 {
			other = 1
		}
		if err := in.pm.SetDefaultPool(other); err != nil {
			panic(err)
		}
		drain(in.s.NUnits2)
	}
	sort.Ints(got)
	return map[string]any{"drain": got}
}

func (in *inst) Close() {
	if in.fp != nil {
		in.fp.close()
	}
}
