//go:build verif

package dhcp4

import (
	"encoding/binary"
	"fmt"
	"net"
	"reflect"
	"sort"
	"strings"
	"sync"

	cebpf "github.com/cilium/ebpf"
	"github.com/codelaboratoryltd/bng/pkg/ebpf"
	"github.com/insomniacslk/dhcp/dhcpv4"

	"verifharness/bpfnative"
	"verifharness/core"
)

// Fast-path binding (property C03): the userspace server writes its cache through the real
// ebpf.Loader into real kernel maps; the maps are mirrored into the natively compiled
// bpf/dhcp_fastpath.c; a battery of request frames is run through it in every server state.

var (
	FPDriverPath string
	fpPoolMu     sync.Mutex
	fpPool       []*bpfnative.Driver
	FPMapInfos   []bpfnative.MapInfo
)

func fpGetDriver() *bpfnative.Driver {
	fpPoolMu.Lock()
	if n := len(fpPool); n > 0 {
		d := fpPool[n-1]
		fpPool = fpPool[:n-1]
		fpPoolMu.Unlock()
		if err := d.Reset(); err != nil {
			panic(err)
		}
		return d
	}
	fpPoolMu.Unlock()
	d, err := bpfnative.Start(FPDriverPath)
	if err != nil {
		panic(err)
	}
	return d
}
func fpPutDriver(d *bpfnative.Driver) { fpPoolMu.Lock(); fpPool = append(fpPool, d); fpPoolMu.Unlock() }

var fpServerMAC = net.HardwareAddr{0x02, 0xee, 0, 0, 0, 1}
var fpServerIP = net.IPv4(10, 255, 0, 1).To4()

type fpState struct {
	drv  *bpfnative.Driver
	maps map[string]*cebpf.Map
	last map[string][][2][]byte
	// the option fields of the last slow-path ACK per client, as sent on the wire
	ackFields map[int]string
	// the option fields of the last slow-path OFFER per client since that client's last ACK, kept only where
	// they differ from the ACK's (see inst.noteOffer)
	offFields map[int]string
}

var loaderFields = map[string]string{
	"subscriber_pools": "subscriberPools", "vlan_subscriber_pools": "vlanSubscriberPools", "ip_pools": "ipPools",
	"server_config": "serverConfigMap", "stats_map": "statsMap", "circuit_id_map": "circuitIDMap", "circuit_id_subscribers": "circuitIDSubscribers",
}

func newFPState(loader *ebpf.Loader) *fpState {
	st := &fpState{drv: fpGetDriver(), maps: map[string]*cebpf.Map{}, last: map[string][][2][]byte{}, ackFields: map[int]string{}, offFields: map[int]string{}}
	for _, mi := range FPMapInfos {
		f, ok := loaderFields[mi.Name]
		if !ok {
			continue
		}
		km, err := bpfnative.NewKernelMap(mi)
		if err != nil {
			panic(fmt.Sprintf("cannot create kernel map %s: %v", mi.Name, err))
		}
		st.maps[mi.Name] = km
		core.Field(loader, f).Set(reflect.ValueOf(km))
	}
	// what Server.Start does once the interface is known
	if err := loader.SetServerConfig(fpServerMAC, fpServerIP, 1); err != nil {
		panic(err)
	}
	return st
}

func (st *fpState) close() {
	for _, km := range st.maps {
		km.Close()
	}
	fpPutDriver(st.drv)
}

func (st *fpState) mirror() {
	for name, km := range st.maps {
		if name == "stats_map" {
			continue
		}
		cur, err := st.drv.Mirror(name, km, st.last[name])
		if err != nil {
			panic(err)
		}
		st.last[name] = cur
	}
}

func (st *fpState) fingerprint() string {
	var parts []string
	for name, km := range st.maps {
		if name == "stats_map" {
			continue
		}
		d, err := bpfnative.Dump(km)
		if err != nil {
			panic(err)
		}
		var es []string
		for _, kv := range d {
			v := kv[1]
			if len(v) == 25 { // pool_assignment: blank the absolute lease expiry (bytes 13..20)
				v = append(append([]byte{}, v[:13]...), v[21:]...)
			}
			es = append(es, fmt.Sprintf("%x=%x", kv[0], v))
		}
		sort.Strings(es)
		parts = append(parts, name+":"+strings.Join(es, ","))
	}
	sort.Strings(parts)
	var af []string
	for c, f := range st.ackFields {
		af = append(af, fmt.Sprintf("%d:%s", c, f))
	}
	sort.Strings(af)
	var of []string
	for c, f := range st.offFields {
		of = append(of, fmt.Sprintf("%d:%s", c, f))
	}
	sort.Strings(of)
	return strings.Join(parts, "|") + "|" + strings.Join(af, ";") + "|O:" + strings.Join(of, ";")
}

// FPProbe is one request frame of the battery.
type FPProbe struct {
	C      int    `json:"c"`      // client (NClients+1 = a client the server never saw)
	Msg    string `json:"msg"`    // DISCOVER | REQOWN | REQOTHER | RELEASE | INFORM
	Vlan   int    `json:"vlan"`   // 0 untagged, 1 802.1Q, 2 QinQ
	OptLen int    `json:"optlen"` // bytes of option area after the magic cookie
	IHL    int    `json:"ihl"`
	Relay  bool   `json:"relay"` // giaddr + option 82 circuit-id
	Bcast  bool   `json:"bcast"`
	Ci     bool   `json:"ci"`     // ciaddr carries the client's own (last ACKed) address
	Layout string `json:"layout"` // "first" (53 first) | "pad" (one pad byte before 53)
}

func fpBattery(nclients int) []FPProbe {
	var out []FPProbe
	for c := 1; c <= nclients+1; c++ {
		out = append(out,
			FPProbe{C: c, Msg: "DISCOVER", OptLen: 60, IHL: 5, Layout: "first"}, // classic 300-byte BOOTP
			FPProbe{C: c, Msg: "REQOWN", OptLen: 60, IHL: 5, Layout: "first"},
			FPProbe{C: c, Msg: "DISCOVER", OptLen: 100, IHL: 5, Layout: "first"},
			FPProbe{C: c, Msg: "REQOWN", OptLen: 100, IHL: 5, Layout: "pad"},
			FPProbe{C: c, Msg: "REQOTHER", OptLen: 100, IHL: 5, Layout: "first"},
			FPProbe{C: c, Msg: "REQOTHER", OptLen: 100, IHL: 5, Layout: "first", Ci: true}, // ciaddr = the held address, option 50 = another one
			FPProbe{C: c, Msg: "DISCOVER", OptLen: 100, IHL: 5, Vlan: 1, Layout: "first"},
			FPProbe{C: c, Msg: "DISCOVER", OptLen: 100, IHL: 5, Vlan: 2, Layout: "first"},
			FPProbe{C: c, Msg: "DISCOVER", OptLen: 100, IHL: 6, Layout: "first"},
			FPProbe{C: c, Msg: "DISCOVER", OptLen: 100, IHL: 5, Relay: true, Layout: "first"},
			FPProbe{C: c, Msg: "REQOWN", OptLen: 312, IHL: 5, Bcast: true, Layout: "first"},
			FPProbe{C: c, Msg: "DISCOVER", OptLen: 20, IHL: 5, Layout: "first"},
			FPProbe{C: c, Msg: "RELEASE", OptLen: 100, IHL: 5, Layout: "first"},
			FPProbe{C: c, Msg: "INFORM", OptLen: 100, IHL: 5, Layout: "first"},
		)
	}
	return out
}

func ipChecksum(h []byte) uint16 {
	var sum uint32
	for i := 0; i+1 < len(h); i += 2 {
		sum += uint32(binary.BigEndian.Uint16(h[i:]))
	}
	for sum>>16 != 0 {
		sum = (sum & 0xffff) + (sum >> 16)
	}
	return ^uint16(sum)
}

// fpFrame builds the concrete Ethernet frame of probe p. own = the address the client was
// last ACKed (nil if none), other = some address that is not own.
func (s *Sys) fpFrame(p FPProbe, own net.IP, xid uint32) []byte {
	var opts []byte
	mt := map[string]byte{"DISCOVER": 1, "REQOWN": 3, "REQOTHER": 3, "RELEASE": 7, "INFORM": 8}[p.Msg]
	if p.Layout == "pad" {
		opts = append(opts, 0)
	}
	opts = append(opts, 53, 1, mt)
	if p.Relay { // option 82 directly after the message type (the position the fast path scans)
		cid := []byte(fmt.Sprintf("cid-%d", p.C))
		sub := append([]byte{1, byte(len(cid))}, cid...)
		opts = append(opts, 82, byte(len(sub)))
		opts = append(opts, sub...)
	}
	switch p.Msg {
	case "REQOWN":
		ip := own
		if ip == nil {
			ip = s.unitIP(2)
		}
		opts = append(opts, 50, 4)
		opts = append(opts, ip.To4()...)
	case "REQOTHER":
		ip := s.unitIP(s.NUnits - 2)
		if own != nil && ip.Equal(own) {
			ip = s.unitIP(s.NUnits - 3)
		}
		opts = append(opts, 50, 4)
		opts = append(opts, ip.To4()...)
	}
	opts = append(opts, 255)
	for len(opts) < p.OptLen {
		opts = append(opts, 0)
	}
	bootp := make([]byte, 240)
	bootp[0], bootp[1], bootp[2] = 1, 1, 6
	binary.BigEndian.PutUint32(bootp[4:], xid)
	if p.Bcast {
		bootp[10] = 0x80
		if own != nil {
			copy(bootp[12:16], own.To4())
		}
	}
	if p.Ci && own != nil {
		copy(bootp[12:16], own.To4())
	}
	if p.Relay {
		copy(bootp[24:28], net.IPv4(10, 9, 9, 1).To4())
	}
	copy(bootp[28:34], mac(p.C, false))
	binary.BigEndian.PutUint32(bootp[236:], 0x63825363)
	bootp = append(bootp, opts...)
	udp := make([]byte, 8)
	binary.BigEndian.PutUint16(udp[0:], 68)
	binary.BigEndian.PutUint16(udp[2:], 67)
	binary.BigEndian.PutUint16(udp[4:], uint16(8+len(bootp)))
	iph := make([]byte, p.IHL*4)
	iph[0] = byte(0x40 | p.IHL)
	binary.BigEndian.PutUint16(iph[2:], uint16(len(iph)+8+len(bootp)))
	iph[8], iph[9] = 64, 17
	copy(iph[16:20], net.IPv4bcast.To4())
	if p.IHL > 5 {
		iph[20], iph[21], iph[22], iph[23] = 1, 1, 1, 0 // NOP NOP NOP EOL
	}
	binary.BigEndian.PutUint16(iph[10:], ipChecksum(iph))
	eth := append([]byte{0xff, 0xff, 0xff, 0xff, 0xff, 0xff}, mac(p.C, false)...)
	switch p.Vlan {
	case 1:
		eth = append(eth, 0x81, 0x00, 0x00, byte(100+p.C))
	case 2:
		eth = append(eth, 0x88, 0xa8, 0x00, byte(100+p.C), 0x81, 0x00, 0x00, byte(10+p.C))
	}
	eth = append(eth, 0x08, 0x00)
	f := append(eth, iph...)
	f = append(f, udp...)
	return append(f, bootp...)
}

// fpDecode checks the transmitted frame byte-wise (the trusted decoding step) and projects it.
func (s *Sys) fpDecode(p FPProbe, req, tx []byte, xid uint32) map[string]any {
	r := map[string]any{"wf": "", "msg": "", "yi": -1, "fields": ""}
	bad := func(why string) map[string]any { r["wf"] = why; return r }
	l2 := 14 + 4*p.Vlan
	if len(tx) < l2+20 {
		return bad("short")
	}
	if string(tx[12:l2]) != string(req[12:l2]) {
		return bad("l2 type/vlan tags changed")
	}
	if string(tx[6:12]) != string(fpServerMAC) {
		return bad("source MAC is not the server's")
	}
	ip := tx[l2:]
	ihl := int(ip[0]&0x0f) * 4
	if ip[0]>>4 != 4 || ihl < 20 || len(ip) < ihl+8 {
		return bad("bad IP version/IHL")
	}
	if int(binary.BigEndian.Uint16(ip[2:])) != len(ip) {
		return bad(fmt.Sprintf("IP total length %d but %d bytes follow the L2 header", binary.BigEndian.Uint16(ip[2:]), len(ip)))
	}
	if ipChecksum(ip[:ihl]) != 0 {
		return bad("IP header checksum invalid")
	}
	if ip[9] != 17 {
		return bad("not UDP")
	}
	if !net.IP(ip[12:16]).Equal(fpServerIP) {
		return bad("IP source is not the server address")
	}
	udp := ip[ihl:]
	if int(binary.BigEndian.Uint16(udp[4:])) != len(udp) {
		return bad(fmt.Sprintf("UDP length %d but %d bytes follow the IP header", binary.BigEndian.Uint16(udp[4:]), len(udp)))
	}
	wantDport := uint16(68)
	if p.Relay {
		wantDport = 67
	}
	if binary.BigEndian.Uint16(udp[0:]) != 67 || binary.BigEndian.Uint16(udp[2:]) != wantDport {
		return bad("UDP ports")
	}
	m, err := dhcpv4.FromBytes(udp[8:])
	if err != nil {
		return bad("BOOTP/DHCP payload does not parse: " + err.Error())
	}
	if m.OpCode != dhcpv4.OpcodeBootReply {
		return bad("op is not BOOTREPLY")
	}
	if binary.BigEndian.Uint32(m.TransactionID[:]) != xid {
		return bad("transaction id changed")
	}
	if m.ClientHWAddr.String() != mac(p.C, false).String() {
		return bad("client hardware address changed")
	}
	r["msg"] = strings.ToUpper(m.MessageType().String())
	r["yi"] = s.unitOf(m.YourIPAddr)
	r["fields"] = fieldsOf(m)
	return r
}

// fieldsOf renders the configuration a DHCP reply carries.
func fieldsOf(m *dhcpv4.DHCPv4) string {
	var dns []string
	for _, d := range m.DNS() {
		dns = append(dns, d.String())
	}
	return fmt.Sprintf("sid=%s mask=%s router=%v dns=%s lease=%d", m.ServerIdentifier(), net.IP(m.SubnetMask()), m.Router(), strings.Join(dns, ","), int(m.IPAddressLeaseTime(0).Seconds()))
}

// fpSweep runs one cached client's DISCOVER with every IPv4 Identification value (the fast path
// copies the field into its reply, so the reply's header checksum depends on it) and counts the
// transmitted replies whose IP header checksum or total length is wrong.
func (in *inst) fpSweep() map[string]any {
	st := in.fp
	res := map[string]any{"ran": false, "bad": 0, "first": -1, "tx": 0, "passmod": 0, "firstol": -1}
	c := 0
	for k := 1; k <= in.s.NClients; k++ {
		if u, ok := in.lastAck[k]; ok && u >= 0 {
			c = k
			break
		}
	}
	if c == 0 {
		return res
	}
	res["ran"] = true
	p := FPProbe{C: c, Msg: "DISCOVER", OptLen: 100, IHL: 5, Layout: "first"}
	base := in.s.fpFrame(p, in.s.unitIP(in.lastAck[c]), 0x5eed0001)
	st.drv.SetTime(1000 * 1e9)
	bad, first, tx := 0, -1, 0
	for id := 0; id < 65536; id++ {
		f := append([]byte{}, base...)
		binary.BigEndian.PutUint16(f[18:], uint16(id)) // IP identification
		f[15] = byte(id >> 3)                          // TOS varies along
		f[24], f[25] = 0, 0
		binary.BigEndian.PutUint16(f[24:], ipChecksum(f[14:34]))
		v, after, _, err := st.drv.Run("xdp", f, 0)
		if err != nil {
			panic(err)
		}
		if v != 3 || len(after) < 34 {
			continue
		}
		tx++
		if ipChecksum(after[14:34]) != 0 || int(binary.BigEndian.Uint16(after[16:])) != len(after)-14 {
			bad++
			if first < 0 {
				first = id
			}
		}
	}
	res["bad"], res["first"], res["tx"] = bad, first, tx
	// every option-area length from the bare minimum to beyond the classic 300-byte BOOTP size: the program
	// decides from this length whether its reply fits, before it rewrites the frame in place
	passmod, firstol := 0, -1
	for _, msg := range []string{"DISCOVER", "REQOWN"} {
		for ol := 4; ol <= 130; ol++ {
			pp := FPProbe{C: c, Msg: msg, OptLen: ol, IHL: 5, Layout: "first"}
			f := in.s.fpFrame(pp, in.s.unitIP(in.lastAck[c]), 0x5eed0002)
			v, after, _, err := st.drv.Run("xdp", f, 0)
			if err != nil {
				panic(err)
			}
			switch {
			case v == 3 && len(after) >= 34:
				tx++
				if ipChecksum(after[14:34]) != 0 || int(binary.BigEndian.Uint16(after[16:])) != len(after)-14 {
					bad++
				}
			case v != 3 && string(after) != string(f):
				passmod++
				if firstol < 0 {
					firstol = ol
				}
			}
		}
	}
	res["bad"], res["tx"], res["passmod"], res["firstol"] = bad, tx, passmod, firstol
	return res
}

// fpObserve runs the battery; own[c] = unit last ACKed by the slow path.
func (in *inst) fpObserve() []map[string]any {
	st := in.fp
	st.mirror()
	out := []map[string]any{}
	for i, p := range in.s.fpProbes {
		var own net.IP
		if u, ok := in.lastAck[p.C]; ok && u >= 0 {
			own = in.s.unitIP(u)
		}
		xid := uint32(0xabc00000 + i)
		req := in.s.fpFrame(p, own, xid)
		for _, kt := range []uint64{1000 * 1e9, 4000000000 * 1e9} { // kernel clock: small uptime / far beyond any Unix time
			st.drv.SetTime(kt)
			v, after, _, err := st.drv.Run("xdp", req, 0)
			if err != nil {
				panic(err)
			}
			r := map[string]any{"verdict": v, "unmod": string(after) == string(req), "wf": "", "msg": "", "yi": -1, "same": true, "late": kt > 2000000000*1e9}
			if v == 3 { // XDP_TX
				d := in.s.fpDecode(p, req, after, xid)
				r["wf"], r["msg"], r["yi"] = d["wf"], d["msg"], d["yi"]
				r["same"] = d["wf"] == "" && d["fields"] == st.ackFields[p.C]
				if d["wf"] == "" && d["fields"] != st.ackFields[p.C] {
					r["diff"] = fmt.Sprintf("fast=%q slow=%q", d["fields"], st.ackFields[p.C])
				}
				// a DISCOVER is answered by userspace with an OFFER: where userspace sent this client one since
				// its last ACK, the fast path's answer to a DISCOVER has to carry that OFFER's fields too
				if of, ok := st.offFields[p.C]; ok && p.Msg == "DISCOVER" && d["wf"] == "" && d["fields"] != of {
					r["same"] = false
					r["diff"] = fmt.Sprintf("fast=%q slow-offer=%q", d["fields"], of)
				}
			}
			if _, ok := r["diff"]; !ok {
				r["diff"] = ""
			}
			out = append(out, r)
		}
	}
	return out
}
